import Deb822Verif.Lemmas.RelEditSpecs
/-!
  Re-reading after the structural operations at the root (`Relations::insert` / `push` / `replace`) on
  ANY well-formed field: the edited tree prints a well-formed field with the expected items.
-/
set_option linter.unusedSimpArgs false
set_option linter.unusedVariables false
namespace Deb822Verif.Rel.Edit
open Deb822Verif Rel Node Build Lossy RelSpec
open Deb822Verif.Props.C10

/-! ### segment lists taken apart -/

/-- the nodes of segments that are all followed by a comma -/
def segsNodesC (A : List Seg) : List RNode := (A.map fun s => s.nodes .comma ++ [tk commaTok]).flatten
def segsStrC (A : List Seg) : Str := (A.map fun s => s.str ++ [',']).flatten

theorem segsNodes_append (A : List Seg) (s : Seg) (B : List Seg) :
    segsNodes (A ++ s :: B) = segsNodesC A ++ segsNodes (s :: B) := by
  induction A with
  | nil => simp [segsNodesC]
  | cons a A ih =>
    rw [List.cons_append, segsNodes_cons, ih]
    have : (A ++ s :: B).isEmpty = false := by cases A <;> rfl
    simp [this, flOf, segsNodesC]

theorem segsStr_append (A : List Seg) (s : Seg) (B : List Seg) :
    segsStr (A ++ s :: B) = segsStrC A ++ segsStr (s :: B) := by
  induction A with
  | nil => simp [segsStrC]
  | cons a A ih =>
    rw [List.cons_append, segsStr_cons, ih]
    have : (A ++ s :: B).isEmpty = false := by cases A <;> rfl
    simp [this, segsStrC]

theorem segsC_text (A : List Seg) : textList (segsNodesC A) = segsStrC A := by
  induction A with
  | nil => rfl
  | cons a A ih =>
    simp only [segsNodesC, segsStrC, List.map_cons, List.flatten_cons, textList_append] at ih ⊢
    rw [ih, seg_text]; simp [tk, commaTok]

/-- number of entries (segments with alternatives) -/
def cntAlts (A : List Seg) : Nat := A.countP fun s => match s.entry with | .alts _ _ => true | _ => false

theorem countE_seg (s : Seg) (fl : Follow) :
    (s.nodes fl).countP (isNodeOf .ENTRY) = (match s.entry with | .alts _ _ => 1 | _ => 0) := by
  cases he : s.entry with
  | alts r rest => simp [seg_oneEntry s fl r rest he]
  | substvar p ps => simp [seg_noEntry s fl (by simp [he])]
  | empty => simp [seg_noEntry s fl (by simp [he])]

theorem countE_segsC (A : List Seg) : (segsNodesC A).countP (isNodeOf .ENTRY) = cntAlts A := by
  induction A with
  | nil => rfl
  | cons a A ih =>
    simp only [segsNodesC, List.map_cons, List.flatten_cons, List.countP_append, cntAlts, List.countP_cons] at ih ⊢
    rw [ih, countE_seg]
    cases a.entry <;> simp [isNodeOf_tk, List.countP_cons] <;> omega

theorem split_alts (ss : List Seg) (i : Nat) (h : i < cntAlts ss) :
    ∃ A s B r rest, ss = A ++ s :: B ∧ s.entry = .alts r rest ∧ cntAlts A = i := by
  induction ss generalizing i with
  | nil => simp [cntAlts] at h
  | cons s ss ih =>
    cases he : s.entry with
    | alts r rest =>
      cases i with
      | zero => exact ⟨[], s, ss, r, rest, rfl, he, rfl⟩
      | succ i' =>
        have : i' < cntAlts ss := by simp only [cntAlts, List.countP_cons, he] at h; simpa [cntAlts] using h
        obtain ⟨A, s', B, r', rest', e, he', hc⟩ := ih i' this
        exact ⟨s :: A, s', B, r', rest', by rw [e]; rfl, he', by simp [cntAlts, List.countP_cons, he, ← hc]⟩
    | substvar p ps =>
      have : i < cntAlts ss := by simpa [cntAlts, List.countP_cons, he] using h
      obtain ⟨A, s', B, r', rest', e, he', hc⟩ := ih i this
      exact ⟨s :: A, s', B, r', rest', by rw [e]; rfl, he', by simp [cntAlts, List.countP_cons, he, ← hc]⟩
    | empty =>
      have : i < cntAlts ss := by simpa [cntAlts, List.countP_cons, he] using h
      obtain ⟨A, s', B, r', rest', e, he', hc⟩ := ih i this
      exact ⟨s :: A, s', B, r', rest', by rw [e]; rfl, he', by simp [cntAlts, List.countP_cons, he, ← hc]⟩

theorem itemsA_append (A B : List Seg) : itemsA ⟨A ++ B⟩ = itemsA ⟨A⟩ ++ itemsA ⟨B⟩ := by
  simp [itemsA]

theorem nEntries_itemsA (A : List Seg) : S.nEntries (itemsA ⟨A⟩) = cntAlts A := by
  induction A with
  | nil => rfl
  | cons a A ih =>
    have ih' : List.countP ItemS.isAlts (itemsA ⟨A⟩) = cntAlts A := ih
    rw [itemsA_cons, S.nEntries, List.countP_append, ih']
    cases he : a.entry <;> simp [itemA, he, cntAlts, List.countP_cons, ItemS.isAlts] <;> omega

/-- an operand entry: an ENTRY node that prints a well-formed entry and reads as its alternatives -/
structure EntryOperand (E : RNode) (r0 : RelA) (rest0 : List AltA) : Prop where
  node : isNodeOf .ENTRY E = true
  text : E.text = (EntryA.alts r0 rest0).str
  ok : (EntryA.alts r0 rest0).ok = true
  rels : relsOf E = (viewsOf r0 rest0).map RelRec.ofLossy

theorem segs_wf_iff (ss : List Seg) : (FieldA.mk ss).WF ↔ ∀ s ∈ ss, s.ok = true := by
  simp [FieldA.WF, FieldA.ok, List.all_eq_true]


/-- reading the text of a well-formed field: no error, its items -/
theorem reread_finish (a' : FieldA) (hwf' : a'.WF) (allow : Bool) (ha : allow = true ∨ a'.hasSubstvar = false)
    (t : Str) (ht : t = a'.str) : (readRelaxed t allow).2 = [] ∧ abs (readRelaxed t allow).1 = itemsA a' := by
  obtain ⟨e, _, _⟩ := C10_lossless a' hwf' allow ha
  rw [ht, e]
  exact ⟨rfl, abs_tree a' hwf'⟩

theorem abs_of_tree (a : FieldA) (hwf : a.WF) (f : Field) (hf : f.kids = a.tree.children) : abs f.root = itemsA a := by
  show absKids f.kids = _
  rw [hf]; exact abs_tree a hwf

theorem seg_alts_nodes (s : Seg) (r : RelA) (rest : List AltA) (he : s.entry = .alts r rest) (fl : Follow) :
    s.nodes fl = tks (gapToks s.pre) ++ Node.node .ENTRY (altsNodes r rest s.post fl).1 :: tks (altsNodes r rest s.post fl).2 := by
  simp [Seg.nodes, he]

theorem hasSub_append (A B : List Seg) :
    (A ++ B).any (fun s => s.entry.isSubstvar) = (A.any (fun s => s.entry.isSubstvar) || B.any (fun s => s.entry.isSubstvar)) := by
  simp

/-- `Relations::insert(i, entry)` before an existing entry, on ANY well-formed field: the new entry takes
    the gap of the entry it is put in front of, `, ` follows it -/
theorem reread_insert_before (a : FieldA) (hwf : a.WF) (allow : Bool) (ha : allow = true ∨ a.hasSubstvar = false)
    (i : Nat) (hi : i < cntAlts a.segs) (E : RNode) (r0 : RelA) (rest0 : List AltA) (hE : EntryOperand E r0 rest0)
    (f : Field) (hf : f.kids = a.tree.children) :
    (∃ a' : FieldA, a'.WF ∧ (f.insert i E).root.text = a'.str)
    ∧ (readRelaxed (f.insert i E).root.text allow).2 = []
    ∧ abs (readRelaxed (f.insert i E).root.text allow).1 = S.insert (abs f.root) i (relsOf E) := by
  obtain ⟨A, s, B, r, rest, hss, he, hc⟩ := split_alts a.segs i hi
  have hok := (segs_wf_iff a.segs).1 hwf
  have hsok := (Seg.ok_iff s).1 (hok s (by rw [hss]; simp))
  -- the children around the entry node
  let X := Node.node .ENTRY (altsNodes r rest s.post (flOf B)).1
  let Srest := tks (altsNodes r rest s.post (flOf B)).2 ++ (if B.isEmpty then [] else tk commaTok :: segsNodes B)
  have hkids : f.kids = (segsNodesC A ++ tks (gapToks s.pre)) ++ X :: Srest := by
    rw [hf]
    show segsNodes a.segs = _
    rw [hss, segsNodes_append, segsNodes_cons, seg_alts_nodes s r rest he]
    simp [X, Srest]
  have hcount : (segsNodesC A ++ tks (gapToks s.pre)).countP (isNodeOf .ENTRY) = i := by
    rw [List.countP_append, countE_segsC, countP_tks, hc]; rfl
  have hpos : nthNode .ENTRY f.kids i = some (segsNodesC A ++ tks (gapToks s.pre)).length := by
    rw [hkids, ← hcount]; exact nthPos_split _ X Srest rfl
  -- the text after the gap of the entry's segment
  have hT : segsStr (s :: B) = gapStr s.pre ++ textList (X :: Srest) := by
    rw [← segs_text, segsNodes_cons, seg_alts_nodes s r rest he]
    simp [X, Srest]
  let s1 : Seg := ⟨s.pre, .alts r0 rest0, []⟩
  let s2 : Seg := { s with pre := sp }
  have hT2 : segsStr (s2 :: B) = gapStr sp ++ textList (X :: Srest) := by
    have h1 := segsStr_cons s B
    have h2 := segsStr_cons s2 B
    rw [h1] at hT
    have : s.str ++ (if B.isEmpty then [] else ',' :: segsStr B) = gapStr s.pre ++ (s.entry.str ++ gapStr s.post
        ++ (if B.isEmpty then [] else ',' :: segsStr B)) := by simp [Seg.str]
    rw [this] at hT
    have hcancel := List.append_cancel_left hT
    rw [h2, ← hcancel]; simp [s2, Seg.str]
  let a' : FieldA := ⟨A ++ s1 :: s2 :: B⟩
  have hwf' : a'.WF := by
    rw [segs_wf_iff]
    intro x hx
    simp only [a', List.mem_append, List.mem_cons] at hx
    rcases hx with hx | rfl | rfl | hx
    · exact hok x (by rw [hss]; simp [hx])
    · exact (Seg.ok_iff _).2 ⟨hsok.1, rfl, hE.ok, by simp [s1, EntryA.isEmpty]⟩
    · exact (Seg.ok_iff _).2 ⟨sp_ok, hsok.2.1, hsok.2.2.1, hsok.2.2.2⟩
    · exact hok x (by rw [hss]; simp [hx])
  have hsub : a'.hasSubstvar = a.hasSubstvar := by
    simp only [a', FieldA.hasSubstvar, hss]
    simp [s1, s2, EntryA.isSubstvar]
  have htext : (f.insert i E).root.text = a'.str := by
    have hk' : (f.insert i E).kids = (segsNodesC A ++ tks (gapToks s.pre)) ++ [E, T .COMMA ",", T .WHITESPACE " "] ++ (X :: Srest) := by
      show (relationsInsert f.kids i E).kids = _
      unfold relationsInsert
      rw [hpos]
      simp only
      rw [hkids, insertAt_split]
    rw [root_text, hk']
    show _ = segsStr (A ++ s1 :: s2 :: B)
    rw [segsStr_append, segsStr_cons, hT2]
    simp only [textList_append, segsC_text, textList_tks, tokText_gapToks, textList_cons, hE.text]
    simp [s1, Seg.str, T, sp, gapStr, GapPiece.str]
  obtain ⟨herr, habs⟩ := reread_finish a' hwf' allow (by rw [hsub]; exact ha) _ htext
  refine ⟨⟨a', hwf', htext⟩, herr, ?_⟩
  rw [habs, abs_of_tree a hwf f hf]
  show itemsA ⟨A ++ s1 :: s2 :: B⟩ = _
  have hlt : i < S.nEntries (itemsA a) := by rw [nEntries_itemsA]; exact hi
  have hitems : itemsA a = itemsA ⟨A⟩ ++ .alts ((viewsOf r rest).map RelRec.ofLossy) :: itemsA ⟨B⟩ := by
    show itemsA ⟨a.segs⟩ = _
    rw [hss, itemsA_append, itemsA_cons]; simp [itemA, he, viewsOf]
  rw [S.insert, if_pos hlt, hitems, ← hc, ← nEntries_itemsA A, S.updEntry_at, itemsA_append, itemsA_cons, itemsA_cons, hE.rels]
  simp [itemA, s1, s2, he, viewsOf]


/-- the whitespace an entry leaves to the root loop is its trailing gap or nothing -/
theorem alts_snd (r : RelA) (rest : List AltA) (post : Gap) (fl : Follow) :
    (altsNodes r rest post fl).2 = gapToks post ∨ (altsNodes r rest post fl).2 = [] := by
  induction rest generalizing r with
  | nil => simp only [altsNodes]; split <;> (try split) <;> simp
  | cons a as ih => simp only [altsNodes]; exact ih a.rel

theorem alts_snd_eof (r : RelA) (rest : List AltA) (post : Gap) : (altsNodes r rest post .eof).2 = [] := by
  induction rest generalizing r with
  | nil => simp only [altsNodes]; split <;> simp
  | cons a as ih => simp only [altsNodes]; exact ih a.rel

/-- `Relations::replace(i, entry)` on ANY well-formed field: the new entry takes the place of the old
    one; of the old entry's trailing gap the part outside its node stays -/
theorem reread_replace (a : FieldA) (hwf : a.WF) (allow : Bool) (ha : allow = true ∨ a.hasSubstvar = false)
    (i : Nat) (hi : i < cntAlts a.segs) (E : RNode) (r0 : RelA) (rest0 : List AltA) (hE : EntryOperand E r0 rest0)
    (f : Field) (hf : f.kids = a.tree.children) :
    ∃ f', f.replace i E = .ok f'
      ∧ (∃ a' : FieldA, a'.WF ∧ f'.root.text = a'.str)
      ∧ (readRelaxed f'.root.text allow).2 = []
      ∧ abs (readRelaxed f'.root.text allow).1 = S.replace (abs f.root) i (relsOf E) := by
  obtain ⟨A, s, B, r, rest, hss, he, hc⟩ := split_alts a.segs i hi
  have hok := (segs_wf_iff a.segs).1 hwf
  have hsok := (Seg.ok_iff s).1 (hok s (by rw [hss]; simp))
  obtain ⟨g2, hg2, hg2ok⟩ : ∃ g2 : Gap, (altsNodes r rest s.post (flOf B)).2 = gapToks g2 ∧ gapOk g2 = true := by
    rcases alts_snd r rest s.post (flOf B) with h | h
    · exact ⟨s.post, h, hsok.2.1⟩
    · exact ⟨[], h, rfl⟩
  let X := Node.node .ENTRY (altsNodes r rest s.post (flOf B)).1
  let Srest := tks (gapToks g2) ++ (if B.isEmpty then [] else tk commaTok :: segsNodes B)
  have hkids : f.kids = (segsNodesC A ++ tks (gapToks s.pre)) ++ X :: Srest := by
    rw [hf]
    show segsNodes a.segs = _
    rw [hss, segsNodes_append, segsNodes_cons, seg_alts_nodes s r rest he, hg2]
    simp [X, Srest]
  have hcount : (segsNodesC A ++ tks (gapToks s.pre)).countP (isNodeOf .ENTRY) = i := by
    rw [List.countP_append, countE_segsC, countP_tks, hc]; rfl
  have hpos : nthNode .ENTRY f.kids i = some (segsNodesC A ++ tks (gapToks s.pre)).length := by
    rw [hkids, ← hcount]; exact nthPos_split _ X Srest rfl
  let s1 : Seg := ⟨s.pre, .alts r0 rest0, g2⟩
  let a' : FieldA := ⟨A ++ s1 :: B⟩
  have hwf' : a'.WF := by
    rw [segs_wf_iff]
    intro x hx
    simp only [a', List.mem_append, List.mem_cons] at hx
    rcases hx with hx | rfl | hx
    · exact hok x (by rw [hss]; simp [hx])
    · exact (Seg.ok_iff _).2 ⟨hsok.1, hg2ok, hE.ok, by simp [s1, EntryA.isEmpty]⟩
    · exact hok x (by rw [hss]; simp [hx])
  have hsub : a'.hasSubstvar = a.hasSubstvar := by
    simp only [a', FieldA.hasSubstvar, hss]
    simp [s1, he, EntryA.isSubstvar]
  obtain ⟨f', hrep⟩ : ∃ f', f.replace i E = .ok f' := by
    unfold Field.replace; rw [hpos]; exact ⟨_, rfl⟩
  refine ⟨f', hrep, ?_⟩
  have hk' : f'.kids = (segsNodesC A ++ tks (gapToks s.pre)) ++ [E] ++ Srest := by
    obtain ⟨A0, old, B0, hk0, hk1, hn0⟩ := frame_replace f f' i E hrep
    have hlen : A0.length = (segsNodesC A ++ tks (gapToks s.pre)).length := Option.some.inj (hn0.symm.trans hpos)
    rw [hkids] at hk0
    obtain ⟨e1, e2⟩ := List.append_inj hk0.symm hlen
    simp only [List.cons.injEq] at e2
    rw [hk1, e1, e2.2]; simp
  have htext : ∀ f'' : Field, f''.kids = (segsNodesC A ++ tks (gapToks s.pre)) ++ [E] ++ Srest → f''.root.text = a'.str := by
    intro f'' hk''
    rw [root_text, hk'']
    show _ = segsStr (A ++ s1 :: B)
    rw [segsStr_append, segsStr_cons]
    have e : textList (if B.isEmpty then [] else tk commaTok :: segsNodes B) = (if B.isEmpty then [] else ',' :: segsStr B) := by
      split <;> simp [segs_text, tk, commaTok]
    simp only [Srest, textList_append, segsC_text, textList_tks, tokText_gapToks, textList_cons, textList_nil, hE.text, e]
    simp [s1, Seg.str]
  have ht := htext f' hk'
  obtain ⟨herr, habs⟩ := reread_finish a' hwf' allow (by rw [hsub]; exact ha) _ ht
  refine ⟨⟨a', hwf', ht⟩, herr, ?_⟩
  rw [habs, abs_of_tree a hwf f hf]
  show itemsA ⟨A ++ s1 :: B⟩ = _
  have hitems : itemsA a = itemsA ⟨A⟩ ++ .alts ((viewsOf r rest).map RelRec.ofLossy) :: itemsA ⟨B⟩ := by
    show itemsA ⟨a.segs⟩ = _
    rw [hss, itemsA_append, itemsA_cons]; simp [itemA, he, viewsOf]
  rw [S.replace, hitems, ← hc, ← nEntries_itemsA A, S.updEntry_at, itemsA_append, itemsA_cons, hE.rels]
  simp [itemA, s1, viewsOf]


theorem lastPos_split (P : RNode → Bool) (pre : List RNode) (x : RNode) (post : List RNode) (hx : P x = true)
    (hpost : ∀ y ∈ post, P y = false) : lastPos P (pre ++ x :: post) = some pre.length := by
  have hnone : ∀ l : List RNode, (∀ y ∈ l, P y = false) → lastPos P l = none := by
    intro l hl
    induction l with
    | nil => rfl
    | cons c l ih => simp [lastPos, ih (fun y hy => hl y (by simp [hy])), hl c (by simp)]
  induction pre with
  | nil => simp [lastPos, hnone post hpost, hx]
  | cons a pre ih => simp [lastPos, ih]

theorem tks_notItem (ts : List Tok) : ∀ y ∈ tks ts, isItemNode y = false := by
  intro y hy
  simp only [tks, List.mem_map] at hy
  obtain ⟨t, _, rfl⟩ := hy
  rfl

/-- `Relations::push(entry)` (and `insert` past the last entry) on a well-formed field whose last segment
    holds an entry or a substitution variable (no trailing comma): `, entry` is put right after that
    item — before the trailing whitespace when the item is a substitution variable -/
theorem reread_push (A : List Seg) (s : Seg) (hne : s.entry.isEmpty = false) (hwf : (FieldA.mk (A ++ [s])).WF)
    (allow : Bool) (ha : allow = true ∨ (FieldA.mk (A ++ [s])).hasSubstvar = false)
    (E : RNode) (r0 : RelA) (rest0 : List AltA) (hE : EntryOperand E r0 rest0)
    (f : Field) (hf : f.kids = (FieldA.mk (A ++ [s])).tree.children) :
    (∃ a' : FieldA, a'.WF ∧ (f.push E).root.text = a'.str)
    ∧ (readRelaxed (f.push E).root.text allow).2 = []
    ∧ abs (readRelaxed (f.push E).root.text allow).1 = S.push (abs f.root) (relsOf E) := by
  have hok := (segs_wf_iff _).1 hwf
  have hsok := (Seg.ok_iff s).1 (hok s (by simp))
  have hkids0 : f.kids = segsNodesC A ++ s.nodes .eof := by
    rw [hf]
    show segsNodes (A ++ [s]) = _
    rw [segsNodes_append]; simp [segsNodes]
  have hnone : nthNode .ENTRY f.kids (f.kids.countP (isNodeOf .ENTRY)) = none := nthPos_count_none _ _
  -- the item node, what is before it and the whitespace after it
  obtain ⟨X, g2, hX, hsn, hg2⟩ : ∃ X g2, isItemNode X = true ∧ s.nodes .eof = tks (gapToks s.pre) ++ X :: tks (gapToks g2)
      ∧ ((∃ r rest, s.entry = .alts r rest ∧ g2 = []) ∨ (∃ p ps, s.entry = .substvar p ps ∧ g2 = s.post)) := by
    cases he : s.entry with
    | empty => simp [he, EntryA.isEmpty] at hne
    | alts r rest =>
      exact ⟨Node.node .ENTRY (altsNodes r rest s.post .eof).1, [], rfl,
        by rw [seg_alts_nodes s r rest he, alts_snd_eof]; rfl, Or.inl ⟨r, rest, rfl, rfl⟩⟩
    | substvar p ps =>
      exact ⟨Node.node .SUBSTVAR (tks (substvarToks p ps)), s.post, rfl, by simp [Seg.nodes, he], Or.inr ⟨p, ps, rfl, rfl⟩⟩
  have hkids : f.kids = (segsNodesC A ++ tks (gapToks s.pre)) ++ X :: tks (gapToks g2) := by
    rw [hkids0, hsn]; simp
  have hlast : lastPos isItemNode f.kids = some (segsNodesC A ++ tks (gapToks s.pre)).length := by
    rw [hkids]; exact lastPos_split _ _ X _ hX (tks_notItem _)
  have hnocomma : ((f.kids.drop ((segsNodesC A ++ tks (gapToks s.pre)).length + 1)).any fun c => c.kind == Kind.COMMA) = false := by
    rw [hkids]
    rw [(take_drop_of_split (segsNodesC A ++ tks (gapToks s.pre)) X (tks (gapToks g2))).2.1, List.any_eq_false]
    intro y hy
    have := tks_gap_ws g2 y hy
    simp only [isWsElem, Bool.or_eq_true, beq_iff_eq] at this
    rcases this with h | h <;> simp [h]
  have hk' : (f.push E).kids = (segsNodesC A ++ tks (gapToks s.pre)) ++ X :: ([T .COMMA ",", T .WHITESPACE " ", E] ++ tks (gapToks g2)) := by
    show (relationsInsert f.kids (f.kids.countP (isNodeOf .ENTRY)) E).kids = _
    unfold relationsInsert
    rw [hnone]
    simp only [hlast, hnocomma, Bool.false_eq_true, ↓reduceIte]
    rw [hkids]
    have := insertAt_split ((segsNodesC A ++ tks (gapToks s.pre)) ++ [X]) (tks (gapToks g2)) [T .COMMA ",", T .WHITESPACE " ", E]
    have hl : (segsNodesC A ++ tks (gapToks s.pre)).length + 1 = ((segsNodesC A ++ tks (gapToks s.pre)) ++ [X]).length := by
      rw [List.length_append (as := segsNodesC A ++ tks (gapToks s.pre)) (bs := [X])]; rfl
    rw [hl, show (segsNodesC A ++ tks (gapToks s.pre)) ++ X :: tks (gapToks g2)
      = ((segsNodesC A ++ tks (gapToks s.pre)) ++ [X]) ++ tks (gapToks g2) from by simp, this]
    simp
  let s0 : Seg := { s with post := if g2 = [] then s.post else [] }
  let s1 : Seg := ⟨sp, .alts r0 rest0, g2⟩
  let a' : FieldA := ⟨A ++ [s0, s1]⟩
  have hg2ok : gapOk g2 = true := by
    rcases hg2 with ⟨_, _, _, rfl⟩ | ⟨_, _, _, rfl⟩
    · rfl
    · exact hsok.2.1
  have hwf' : a'.WF := by
    rw [segs_wf_iff]
    intro x hx
    simp only [a', List.mem_append, List.mem_cons, List.not_mem_nil, or_false] at hx
    rcases hx with hx | rfl | rfl
    · exact hok x (by simp [hx])
    · refine (Seg.ok_iff _).2 ⟨hsok.1, ?_, hsok.2.2.1, fun hh => by simp [s0, hne] at hh⟩
      simp only [s0]; split
      · exact hsok.2.1
      · rfl
    · exact (Seg.ok_iff _).2 ⟨sp_ok, hg2ok, hE.ok, by simp [s1, EntryA.isEmpty]⟩
  have hsub : a'.hasSubstvar = (FieldA.mk (A ++ [s])).hasSubstvar := by
    simp [a', FieldA.hasSubstvar, s0, s1, EntryA.isSubstvar]
  have hXtext : gapStr s.pre ++ X.text ++ gapStr g2 = s.str := by
    have := seg_text s .eof
    rw [hsn] at this
    simpa using this
  have htext : (f.push E).root.text = a'.str := by
    rw [root_text, hk']
    show _ = segsStr (A ++ [s0, s1])
    rw [show A ++ [s0, s1] = A ++ s0 :: [s1] from rfl, segsStr_append, segsStr_cons]
    simp only [textList_append, segsC_text, textList_tks, tokText_gapToks, textList_cons, hE.text]
    have hs0 : s0.str = gapStr s.pre ++ X.text := by
      rcases hg2 with ⟨r, rest, he, rfl⟩ | ⟨p, ps, he, rfl⟩
      · have : s0 = s := by simp [s0]
        rw [this, ← hXtext]; simp [gapStr]
      · have h1 : s.str = gapStr s.pre ++ (EntryA.substvar p ps).str ++ gapStr s.post := by simp [Seg.str, he]
        rw [h1] at hXtext
        have hx : X.text = (EntryA.substvar p ps).str := by
          have := List.append_cancel_right hXtext
          exact List.append_cancel_left this
        simp only [s0, Seg.str, he, hx]
        split <;> simp_all [gapStr]
    rw [hs0]
    simp [segsStr, Text.join, s1, Seg.str, T, sp, gapStr, GapPiece.str]
  obtain ⟨herr, habs⟩ := reread_finish a' hwf' allow (by rw [hsub]; exact ha) _ htext
  refine ⟨⟨a', hwf', htext⟩, herr, ?_⟩
  rw [habs, abs_of_tree _ hwf f hf]
  show itemsA ⟨A ++ [s0, s1]⟩ = _
  rw [S.push, itemsA_append, itemsA_append]
  have h0 : itemsA ⟨[s0, s1]⟩ = itemsA ⟨[s]⟩ ++ [.alts (relsOf E)] := by
    rw [itemsA_cons, itemsA_cons, itemsA_cons, hE.rels]
    simp [itemA, s0, s1, itemsA, viewsOf]
  rw [h0, List.append_assoc]


/-- the entry the constructors build from a valid non-empty lossy entry is an operand -/
theorem operand_built (r : Lossy.Relation) (rest : List Lossy.Relation) (h : ∀ x ∈ r :: rest, validRS x = true) :
    EntryOperand (entryFromLossy (r :: rest)) (canonRel r) (rest.map fun x => ⟨sp, sp, canonRel x⟩) := by
  refine ⟨isEntry_built _, ?_, ?_, ?_⟩
  · rw [entry_text _ h, ← canonEntry_str]; rfl
  · simp only [EntryA.ok, Bool.and_eq_true, List.all_eq_true, List.mem_map]
    refine ⟨canonRel_ok r (validR_of_validRS (h r (by simp))), ?_⟩
    rintro a ⟨x, hx, rfl⟩
    exact (AltA.ok_iff _).2 ⟨sp_ok, sp_ok, canonRel_ok x (validR_of_validRS (h x (by simp [hx])))⟩
  · rw [relsOf_built _ h]
    simp only [viewsOf, List.map_cons, List.map_map, List.cons.injEq]
    refine ⟨by rw [canonRel_view r (validR_of_validRS (h r (by simp)))], ?_⟩
    apply List.map_congr_left
    intro x hx
    simp [canonRel_view x (validR_of_validRS (h x (by simp [hx])))]

end Deb822Verif.Rel.Edit
