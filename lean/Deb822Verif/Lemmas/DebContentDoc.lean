import Deb822Verif.Spec.DocS
/-! What the accessors read from `DocS.tree` is `DocS.content`. -/
namespace Deb822Verif.Deb
open Deb822Verif Node Spec

def isPara (n : DNode) : Bool := n.isNode && n.kind == .PARAGRAPH
def isEntry (n : DNode) : Bool := n.isNode && n.kind == .ENTRY

theorem paragraphs_def (r : DNode) : paragraphs r = r.children.filter isPara := rfl
theorem entries_def (p : DNode) : entries p = p.children.filter isEntry := rfl

theorem filter_para_gaps (gs : List Gap) : (gs.map Gap.node).filter isPara = [] := by
  induction gs with
  | nil => rfl
  | cons g gs ih => simp [Gap.node, isPara, Node.isNode, Node.kind, ih]

theorem filter_para_parasNodes (ps : List (ParaS × List Gap)) :
    (parasNodes ps).filter isPara = ps.map (·.1.node) := by
  induction ps with
  | nil => rfl
  | cons pg ps ih =>
    have : parasNodes (pg :: ps) = pg.1.node :: (pg.2.map Gap.node ++ parasNodes ps) := by
      simp [parasNodes]
    rw [this]
    simp [List.filter_cons, ParaS.node, isPara, Node.isNode, Node.kind, filter_para_gaps, ih]

theorem paragraphs_tree (d : DocS) : paragraphs d.tree = d.paras.map (·.1.node) := by
  simp [paragraphs_def, DocS.tree, Node.children, filter_para_gaps, filter_para_parasNodes]

theorem filter_entry_tokens (ts : List Tok) : (ts.map tk).filter isEntry = [] := by
  induction ts with
  | nil => rfl
  | cons t ts ih => simp [isEntry, Node.isNode, ih]

def itemEntries : List PItem → List EntryS
  | [] => []
  | .comment _ _ :: is => itemEntries is
  | .entry e :: is => e :: itemEntries is

theorem filter_entry_items (is : List PItem) :
    (itemsNodes is).filter isEntry = (itemEntries is).map EntryS.node := by
  induction is with
  | nil => rfl
  | cons i is ih =>
    have : itemsNodes (i :: is) = i.nodes ++ itemsNodes is := by simp [itemsNodes]
    rw [this, List.filter_append, ih]
    cases i with
    | comment t nl =>
      have := filter_entry_tokens ((.COMMENT, '#' :: t) :: nlTok nl)
      simp only [PItem.nodes, this, itemEntries, List.nil_append]
    | entry e => simp [PItem.nodes, EntryS.node, isEntry, Node.isNode, Node.kind, itemEntries]

theorem entries_para (p : ParaS) :
    entries p.node = (p.first :: itemEntries p.rest).map EntryS.node := by
  simp [entries_def, ParaS.node, Node.children, List.filter_cons, EntryS.node, isEntry, Node.isNode,
    Node.kind, filter_entry_items]

theorem entryKey_node (e : EntryS) : entryKey e.node = some e.key := by
  simp [entryKey, EntryS.node, Node.children, EntryS.toks, isTokOf, tokTextOf]

theorem filter_value_optTok_ws (ws : Str) :
    ((optTok .WHITESPACE ws).map tk).filter (isTokOf .VALUE) = [] := by
  unfold optTok; split <;> simp [isTokOf]

theorem filter_value_optTok_val (v : Str) :
    (((optTok .VALUE v).map tk).filter (isTokOf .VALUE)).map tokTextOf = if v = [] then [] else [v] := by
  unfold optTok; split <;> simp [isTokOf, tokTextOf]

theorem filter_value_nlTok (nl : Bool) : ((nlTok nl).map tk).filter (isTokOf .VALUE) = [] := by
  cases nl <;> simp [nlTok, isTokOf]

theorem filter_value_conts (cs : List ContS) :
    (((contsToks cs).map tk).filter (isTokOf .VALUE)).map tokTextOf = cs.map ContS.text := by
  induction cs with
  | nil => rfl
  | cons c cs ih =>
    have : contsToks (c :: cs) = c.toks ++ contsToks cs := by simp [contsToks]
    rw [this, List.map_append, List.filter_append, List.map_append, ih]
    simp [ContS.toks, isTokOf, tokTextOf, List.filter_cons, filter_value_nlTok]

theorem entryValue_node (e : EntryS) : entryValue e.node = Text.join ['\n'] e.valueLines := by
  simp only [entryValue, EntryS.node, Node.children, EntryS.toks, List.map_cons, List.map_append,
    List.filter_cons, List.filter_append, isTokOf, EntryS.valueLines]
  simp only [show ((Kind.KEY == Kind.VALUE) = false) from rfl, show ((Kind.COLON == Kind.VALUE) = false) from rfl,
    Bool.false_eq_true, ↓reduceIte, filter_value_optTok_ws, List.nil_append, filter_value_nlTok,
    List.append_nil, List.map_append, filter_value_optTok_val, filter_value_conts]

theorem itemEntries_content (is : List PItem) :
    (itemEntries is).map EntryS.content = (is.map PItem.content).flatten := by
  induction is with
  | nil => rfl
  | cons i is ih => cases i <;> simp [itemEntries, PItem.content, ih]

theorem items_para (p : ParaS) : items p.node = p.content := by
  simp only [items, entries_para, List.filterMap_map, ParaS.content]
  have : (fun e : EntryS => (entryKey e.node).map fun k => (k, entryValue e.node)) =
      fun e => some e.content := by
    funext e; simp [entryKey_node, entryValue_node, EntryS.content]
  simp only [Function.comp_def, this, List.filterMap_cons, List.filterMap_some_fun]
  simp [← itemEntries_content]

/-- the accessors expose exactly the document's content -/
theorem docItems_tree (d : DocS) : docItems d.tree = d.content := by
  simp only [docItems, paragraphs_tree, List.map_map, DocS.content]
  apply List.map_congr_left
  intro pg _
  simp [items_para]

end Deb822Verif.Deb
