import Deb822Verif.Lemmas.TotalMoreRel
import Deb822Verif.Props.C02
/-!
# Work count of `<lossy::Relations as FromStr>::from_str` (lossy/relations.rs:423-448)

`for entry in s.split(',')`: trim, skip if empty, else `entry.split('|').map(…).collect::<Result<..>>()?`
where every piece is trimmed and handed to `Relation::from_str`.  Counted: one round per `,`-piece, one
per `|`-piece, plus the loop rounds of every `Relation::from_str` call (`readRelationC`); both the `?`
and `collect::<Result<_,_>>` stop at the first failure, and so does the count.
-/
set_option linter.unusedVariables false
namespace Deb822Verif.Rel.Lossy
open Deb822Verif Rel

/-- a loop over a list whose body may fail (`?` / `collect::<Result<Vec<_>,_>>()`): the results up to
    the first failure; rounds = Σ (1 + rounds of the body) over the elements visited -/
def mapMC {α β} (f : α → R β × Nat) : List α → R (List β) × Nat
  | [] => (.ok [], 0)
  | x :: xs =>
    match f x with
    | (.error e, n) => (.error e, n + 1)
    | (.ok b, n) =>
      (match (mapMC f xs).1 with
       | .ok bs => .ok (b :: bs)
       | .error e => .error e, (mapMC f xs).2 + n + 1)

theorem mapMC_fst {α β} (f : α → R β × Nat) (xs : List α) :
    (mapMC f xs).1 = xs.mapM (fun x => (f x).1) := by
  induction xs with
  | nil => rfl
  | cons x xs ih =>
    simp only [mapMC, List.mapM_cons]
    rcases h : f x with ⟨res, n⟩
    rcases res with e | b
    · simp [bind, Except.bind]
    · simp only [ih]
      rcases List.mapM (fun x => (f x).1) xs with e | bs <;> simp [bind, Except.bind, pure, Except.pure]

theorem mapMC_cost {α β} (f : α → R β × Nat) (g : α → Nat) (xs : List α)
    (h : ∀ x ∈ xs, (f x).2 ≤ g x) : (mapMC f xs).2 ≤ (xs.map fun x => g x + 1).sum := by
  induction xs with
  | nil => simp [mapMC]
  | cons x xs ih =>
    have h1 := h x (by simp)
    have h2 := ih (fun y hy => h y (by simp [hy]))
    simp only [mapMC, List.map_cons, List.sum_cons]
    rcases hf : f x with ⟨res, n⟩
    rw [hf] at h1
    rcases res with e | b <;> simp at h1 ⊢ <;> omega

/-! ### text facts -/

theorem sum_splitOn (sep : Char) (s : Str) :
    ((Text.splitOn sep s).map fun p => p.length + 1).sum = s.length + 1 := by
  induction s with
  | nil => simp [Text.splitOn]
  | cons c cs ih =>
    simp only [Text.splitOn]
    split
    · simp [ih]; omega
    · rcases h : Text.splitOn sep cs with _ | ⟨l, ls⟩
      · simp [h] at ih
      · simp [h] at ih ⊢; omega

theorem length_splitOn_le (sep : Char) (s : Str) : (Text.splitOn sep s).length ≤ s.length + 1 := by
  induction s with
  | nil => simp [Text.splitOn]
  | cons c cs ih =>
    simp only [Text.splitOn]
    split
    · simp; omega
    · rcases h : Text.splitOn sep cs with _ | ⟨l, ls⟩
      · simp
      · simp [h] at ih ⊢; omega

theorem trim_length_le (s : Str) : (Text.trim s).length ≤ s.length := by
  simp only [Text.trim, Text.trimEnd, Text.trimStart, List.length_reverse]
  have a := Rel.length_dropWhile_le Text.isWhitespace s
  have b := Rel.length_dropWhile_le Text.isWhitespace (s.dropWhile Text.isWhitespace).reverse
  simp only [List.length_reverse] at b
  omega

/-! ### twins -/

/-- relations.rs:435-441 -/
def readAltC (piece : Str) : R Relation × Nat :=
  if (Text.trim piece).isEmpty then (.error "Empty relation", 0) else readRelationC (Text.trim piece)

/-- relations.rs:430-443 -/
def readEntryC (piece : Str) : R (Option (List Relation)) × Nat :=
  if (Text.trim piece).isEmpty then (.ok none, 0)
  else
    match mapMC readAltC (Text.splitOn '|' (Text.trim piece)) with
    | (.ok rs, n) => (.ok (some rs), n)
    | (.error e, n) => (.error e, n)

/-- `<lossy::Relations as FromStr>::from_str` -/
def readRelationsC (s : Str) : R (List (List Relation)) × Nat :=
  if s.isEmpty then (.ok [], 0)
  else
    match mapMC readEntryC (Text.splitOn ',' s) with
    | (.ok es, n) => (.ok (es.filterMap id), n)
    | (.error e, n) => (.error e, n)

theorem readAltC_fst (p) : (readAltC p).1 = readAlt p := by
  simp only [readAltC, readAlt]; split
  · rfl
  · exact readRelationC_fst _

theorem readEntryC_fst (p) : (readEntryC p).1 = readEntry p := by
  simp only [readEntryC, readEntry]; split
  · rfl
  · have a := mapMC_fst readAltC (Text.splitOn '|' (Text.trim p))
    have e : (fun x => (readAltC x).1) = readAlt := funext readAltC_fst
    rw [e] at a
    rcases hv : mapMC readAltC (Text.splitOn '|' (Text.trim p)) with ⟨res, n⟩
    rw [hv] at a; simp only at a; subst a
    rcases List.mapM readAlt (Text.splitOn '|' (Text.trim p)) with e | rs <;> rfl

theorem readRelationsC_fst (s) : (readRelationsC s).1 = readRelations s := by
  simp only [readRelationsC, readRelations]; split
  · rfl
  · have a := mapMC_fst readEntryC (Text.splitOn ',' s)
    have e : (fun x => (readEntryC x).1) = readEntry := funext readEntryC_fst
    rw [e] at a
    rcases hv : mapMC readEntryC (Text.splitOn ',' s) with ⟨res, n⟩
    rw [hv] at a; simp only at a; subst a
    rcases List.mapM readEntry (Text.splitOn ',' s) with e | rs <;> rfl

/-- one `Relation::from_str` call: rounds ≤ characters of the text -/
theorem readRelationC_cost (s : Str) : (readRelationC s).2 ≤ s.length :=
  Nat.le_trans (readRelationToksC_cost _) (Props.C02.C02_rel_lex_bound s)

theorem readAltC_cost (p : Str) : (readAltC p).2 ≤ p.length := by
  simp only [readAltC]; split
  · simp
  · exact Nat.le_trans (readRelationC_cost _) (trim_length_le p)

/-- one `,`-piece: rounds ≤ its length + 1 -/
theorem readEntryC_cost (p : Str) : (readEntryC p).2 ≤ p.length + 1 := by
  simp only [readEntryC]; split
  · simp
  · have c := mapMC_cost readAltC (fun a => a.length) (Text.splitOn '|' (Text.trim p))
      (fun x _ => readAltC_cost x)
    rw [sum_splitOn] at c
    have t := trim_length_le p
    rcases hv : mapMC readAltC (Text.splitOn '|' (Text.trim p)) with ⟨res, n⟩
    rw [hv] at c
    rcases res with e | rs <;> simp only at c ⊢ <;> omega

/-- the whole field: rounds ≤ 2·|s| + 2 -/
theorem readRelationsC_cost (s : Str) : (readRelationsC s).2 ≤ 2 * s.length + 2 := by
  simp only [readRelationsC]; split
  · simp
  · have c := mapMC_cost readEntryC (fun a => a.length + 1) (Text.splitOn ',' s)
      (fun x _ => readEntryC_cost x)
    have e : ((Text.splitOn ',' s).map fun x => x.length + 1 + 1).sum
        = ((Text.splitOn ',' s).map fun x => x.length + 1).sum + (Text.splitOn ',' s).length := by
      generalize Text.splitOn ',' s = l
      induction l with
      | nil => rfl
      | cons x xs ih => simp only [List.map_cons, List.sum_cons, List.length_cons, ih]; omega
    rw [e, sum_splitOn] at c
    have l := length_splitOn_le ',' s
    rcases hv : mapMC readEntryC (Text.splitOn ',' s) with ⟨res, n⟩
    rw [hv] at c
    rcases res with e | rs <;> simp only at c ⊢ <;> omega

end Deb822Verif.Rel.Lossy
