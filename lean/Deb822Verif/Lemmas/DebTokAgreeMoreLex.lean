import Deb822Verif.Lemmas.DebLexInv
/-!
  More invariants of the token list `lex s` of an ARBITRARY text (property C06, acceptance
  containment). `Lemmas/DebLexInv.lean` has: a VALUE token ends its line, no WHITESPACE token at the
  start of a line, no line terminator inside a VALUE token. Here:

  * `Lx2`: a COMMENT token is followed by a NEWLINE token (or nothing); an INDENT token is never
    followed by a KEY token; a WHITESPACE token is never followed by a WHITESPACE token;
  * `Ls`: the lexer's `start_of_line` flag, read off the token kinds: after a KEY token and up to the
    next NEWLINE token ("inside a field line") only COLON, WHITESPACE, VALUE and NEWLINE tokens occur;
    everywhere else no WHITESPACE token occurs;
  * no token is empty.
-/
namespace Deb822Verif.Deb

/-! ### `Lx2` -/

def Follows2 (a b : Kind) : Prop :=
  (a = .COMMENT → b = .NEWLINE) ∧ (a = .INDENT → b ≠ .KEY) ∧ (a = .WHITESPACE → b ≠ .WHITESPACE)

/-- `Lx2 p ts`: `ts` can follow a token of kind `p`; `Lx2 .KEY` puts no condition on the first
    token, so it is inherited by every suffix -/
def Lx2 (p : Kind) : List Tok → Prop
  | [] => True
  | t :: ts => Follows2 p t.1 ∧ Lx2 t.1 ts

theorem Lx2_tail {p : Kind} {t : Tok} {ts : List Tok} (h : Lx2 p (t :: ts)) : Lx2 t.1 ts := h.2

theorem follows2_key (b : Kind) : Follows2 .KEY b :=
  ⟨(fun h => nomatch h), (fun h => nomatch h), (fun h => nomatch h)⟩

theorem Lx2_weaken {p : Kind} {ts : List Tok} (h : Lx2 p ts) : Lx2 .KEY ts := by
  cases ts with
  | nil => trivial
  | cons t ts => exact ⟨follows2_key _, h.2⟩

theorem Lx2_append_right {p : Kind} (a b : List Tok) (h : Lx2 p (a ++ b)) : Lx2 .KEY b := by
  induction a generalizing p with
  | nil => exact Lx2_weaken h
  | cons t a ih => exact ih (Lx2_tail h)

/-- a COMMENT token is followed by NEWLINE -/
theorem Lx2_after_comment {p : Kind} {c n : Tok} {ts : List Tok} (h : Lx2 p (c :: n :: ts))
    (hc : c.1 = .COMMENT) : n.1 = .NEWLINE := h.2.1.1 hc

/-- an INDENT token is not followed by KEY -/
theorem Lx2_after_indent {p : Kind} {i n : Tok} {ts : List Tok} (h : Lx2 p (i :: n :: ts))
    (hi : i.1 = .INDENT) : n.1 ≠ .KEY := h.2.1.2.1 hi

/-- a WHITESPACE token is not followed by WHITESPACE -/
theorem Lx2_after_ws {p : Kind} {w n : Tok} {ts : List Tok} (h : Lx2 p (w :: n :: ts))
    (hw : w.1 = .WHITESPACE) : n.1 ≠ .WHITESPACE := h.2.1.2.2 hw

/-- `INDENT COMMENT* t`: `t` is not a KEY token -/
theorem Lx2_indent_comments {p : Kind} (i : Tok) (cs : List Tok) (t : Tok) (r : List Tok)
    (hi : i.1 = .INDENT) (hcs : ∀ c ∈ cs, c.1 = .COMMENT) (h : Lx2 p (i :: (cs ++ t :: r))) :
    t.1 ≠ .KEY := by
  induction cs generalizing p i with
  | nil => exact Lx2_after_indent h hi
  | cons c cs ih =>
    have hc : c.1 = .COMMENT := hcs c (by simp)
    cases cs with
    | nil =>
      have := Lx2_after_comment (Lx2_tail h) hc
      intro e; rw [e] at this; cases this
    | cons c2 cs2 =>
      have hc2 : c2.1 = .COMMENT := hcs c2 (by simp)
      have := Lx2_after_comment (Lx2_tail h) hc
      rw [hc2] at this; cases this

/-- after COMMENT the remaining input starts with a line terminator (or is empty) -/
theorem lexStep_comment_rest (st : LexState) (c : Char) (rest : Str) (h : (lexStep st c rest).1.1 = .COMMENT) :
    ∀ x, (lexStep st c rest).2.2.head? = some x → isNewline x = true := by
  unfold lexStep at h ⊢
  (repeat' split) <;> simp_all
  exact head_dropWhile_notNl rest

/-- after INDENT the `indent` counter is positive -/
theorem lexStep_indent_pos (st : LexState) (c : Char) (rest : Str) (h : (lexStep st c rest).1.1 = .INDENT) :
    0 < (lexStep st c rest).2.1.indent := by
  unfold lexStep at h ⊢
  (repeat' split) <;> simp_all

/-- with a positive `indent` counter no KEY token is produced -/
theorem lexStep_indent_not_key (st : LexState) (c : Char) (rest : Str) (h : 0 < st.indent) :
    (lexStep st c rest).1.1 ≠ .KEY := by
  have h0 : (st.indent == 0) = false := by simp; omega
  unfold lexStep
  (repeat' split) <;> simp_all

theorem head_dropWhile_indent (rest : Str) :
    ∀ c, (rest.dropWhile isIndent).head? = some c → isIndent c = false := by
  induction rest with
  | nil => intro c h; simp at h
  | cons a rest ih =>
    intro c h
    simp only [List.dropWhile_cons] at h
    split at h
    · exact ih c h
    · rename_i hn; simp at h; subst h; simpa using hn

/-- after WHITESPACE the remaining input does not start with a blank -/
theorem lexStep_ws_rest (st : LexState) (c : Char) (rest : Str) (h : (lexStep st c rest).1.1 = .WHITESPACE) :
    ∀ x, (lexStep st c rest).2.2.head? = some x → isIndent x = false := by
  unfold lexStep at h ⊢
  (repeat' split) <;> simp_all
  exact head_dropWhile_indent rest

/-- a WHITESPACE token starts with a blank -/
theorem lexStep_notIndent_not_ws (st : LexState) (c : Char) (rest : Str) (h : isIndent c = false) :
    (lexStep st c rest).1.1 ≠ .WHITESPACE := by
  unfold lexStep
  (repeat' split) <;> simp_all

theorem lexAux_lx2 (st : LexState) (input : Str) : ∀ p : Kind,
    (p = .COMMENT → ∀ c, input.head? = some c → isNewline c = true) →
    (p = .INDENT → 0 < st.indent) →
    (p = .WHITESPACE → ∀ c, input.head? = some c → isIndent c = false) →
    Lx2 p (lexAux st input) := by
  fun_induction lexAux st input with
  | case1 => intro p _ _ _; trivial
  | case2 st c rest r ih =>
    intro p h1 h2 h3
    refine ⟨⟨?_, ?_, ?_⟩, ih _ ?_ ?_ ?_⟩
    · intro hp; exact lexStep_of_newline st c rest (h1 hp c rfl)
    · intro hp; exact lexStep_indent_not_key st c rest (h2 hp)
    · intro hp; exact lexStep_notIndent_not_ws st c rest (h3 hp c rfl)
    · exact lexStep_comment_rest st c rest
    · exact lexStep_indent_pos st c rest
    · exact lexStep_ws_rest st c rest

theorem lex_lx2 (s : Str) : Lx2 .KEY (lex s) :=
  lexAux_lx2 initState s .KEY (by intro h; cases h) (by intro h; cases h) (by intro h; cases h)

/-! ### `Ls`: the `start_of_line` flag -/

/-- the token kinds the lexer can produce with `start_of_line = sol` -/
def okTok (sol : Bool) (k : Kind) : Prop :=
  if sol then k ≠ .WHITESPACE else (k = .COLON ∨ k = .NEWLINE ∨ k = .WHITESPACE ∨ k = .VALUE)

/-- the flag after a token of kind `k` -/
def nextSol (sol : Bool) (k : Kind) : Bool :=
  if k = .KEY then false else if k = .NEWLINE then true else sol

def Ls (sol : Bool) : List Tok → Prop
  | [] => True
  | t :: ts => okTok sol t.1 ∧ Ls (nextSol sol t.1) ts

theorem Ls_tail {sol : Bool} {t : Tok} {ts : List Tok} (h : Ls sol (t :: ts)) : Ls (nextSol sol t.1) ts := h.2

theorem Ls_after_nl {sol : Bool} {n : Tok} {ts : List Tok} (h : Ls sol (n :: ts)) (hn : n.1 = .NEWLINE) :
    Ls true ts := by
  have := Ls_tail h; simpa [nextSol, hn] using this

theorem Ls_after_key {sol : Bool} {k : Tok} {ts : List Tok} (h : Ls sol (k :: ts)) (hk : k.1 = .KEY) :
    Ls false ts := by
  have := Ls_tail h; simpa [nextSol, hk] using this

/-- a token that is neither KEY nor NEWLINE keeps the flag -/
theorem Ls_after_other {sol : Bool} {t : Tok} {ts : List Tok} (h : Ls sol (t :: ts)) (h1 : t.1 ≠ .KEY)
    (h2 : t.1 ≠ .NEWLINE) : Ls sol ts := by
  have := Ls_tail h; simpa [nextSol, h1, h2] using this

theorem Ls_sol_not_ws {t : Tok} {ts : List Tok} (h : Ls true (t :: ts)) : t.1 ≠ .WHITESPACE := by
  have := h.1; simpa [okTok] using this

theorem Ls_mid_kind {t : Tok} {ts : List Tok} (h : Ls false (t :: ts)) :
    t.1 = .COLON ∨ t.1 = .NEWLINE ∨ t.1 = .WHITESPACE ∨ t.1 = .VALUE := by
  have := h.1; simpa [okTok] using this

theorem Ls_dropWhile_ws {sol : Bool} (ts : List Tok) (h : Ls sol ts) :
    Ls sol (ts.dropWhile fun t => t.1 = .WHITESPACE) := by
  induction ts with
  | nil => trivial
  | cons t ts ih =>
    simp only [List.dropWhile_cons]
    split
    · rename_i ht
      have ht' : t.1 = .WHITESPACE := by simpa using ht
      exact ih (Ls_after_other h (by rw [ht']; simp) (by rw [ht']; simp))
    · exact h

theorem lexStep_okTok (st : LexState) (c : Char) (rest : Str) : okTok st.sol (lexStep st c rest).1.1 := by
  unfold lexStep okTok
  (repeat' split) <;> simp_all

theorem lexStep_nextSol (st : LexState) (c : Char) (rest : Str) :
    (lexStep st c rest).2.1.sol = nextSol st.sol (lexStep st c rest).1.1 := by
  unfold lexStep nextSol
  (repeat' split) <;> simp_all

theorem lexAux_ls (st : LexState) (input : Str) : Ls st.sol (lexAux st input) := by
  fun_induction lexAux st input with
  | case1 => trivial
  | case2 st c rest r ih =>
    refine ⟨lexStep_okTok st c rest, ?_⟩
    rw [← lexStep_nextSol]; exact ih

theorem lex_ls (s : Str) : Ls true (lex s) := lexAux_ls initState s

/-! ### no empty token; VALUE tokens -/

theorem lexStep_ne (st : LexState) (c : Char) (rest : Str) : (lexStep st c rest).1.2 ≠ [] := by
  unfold lexStep
  (repeat' split) <;> simp

theorem lexAux_ne (st : LexState) (input : Str) : ∀ t ∈ lexAux st input, t.2 ≠ [] := by
  fun_induction lexAux st input with
  | case1 => simp
  | case2 st c rest r ih =>
    intro t ht
    simp only [List.mem_cons] at ht
    rcases ht with rfl | ht
    · exact lexStep_ne st c rest
    · exact ih t ht

theorem lex_tok_ne (s : Str) : ∀ t ∈ lex s, t.2 ≠ [] := lexAux_ne initState s

theorem Lx_valOK {p : Kind} {ts : List Tok} (h : Lx p ts) : ∀ t ∈ ts, ValOK t := by
  induction ts generalizing p with
  | nil => simp
  | cons a ts ih =>
    intro t ht
    simp only [List.mem_cons] at ht
    rcases ht with rfl | ht
    · exact h.2.1
    · exact ih (Lx_tail h) t ht

/-- a VALUE token of any text is non-empty and holds no line terminator -/
theorem lex_value_tok (s : Str) (x : Str) (h : (Kind.VALUE, x) ∈ lex s) :
    x ≠ [] ∧ ∀ c ∈ x, isNewline c = false :=
  ⟨lex_tok_ne s _ h, Lx_valOK (lex_lx s) _ h rfl⟩

end Deb822Verif.Deb
