import Deb822Verif.Model.DebLossy
import Deb822Verif.Lemmas.DebParseDoc
import Deb822Verif.Lemmas.DebContentDoc
/-! The lossy reader on the token list of a well-formed document. -/
namespace Deb822Verif.Deb
open Deb822Verif Node Spec Lossy

/-- the value the lossy reader reports: ALL lines (an empty first line included) joined by "\n" -/
def lossyValue (e : EntryS) : Str := Text.join ['\n'] (e.v :: e.conts.map ContS.text)
def lossyEntry (e : EntryS) : Field := (e.key, lossyValue e)
def lossyItems (is : List PItem) : Para := (itemEntries is).map lossyEntry
def lossyPara (p : ParaS) : Para := lossyEntry p.first :: lossyItems p.rest
def lossyDoc (d : DocS) : Doc := d.paras.map fun pg => lossyPara pg.1

theorem contLines_nil (acc : Str) : contLines acc [] = .ok (acc, []) := by rw [contLines]

theorem contLines_stop (acc : Str) (ts : List Tok) (h : HeadNot [.INDENT] ts) :
    contLines acc ts = .ok (acc, ts) := by
  cases ts with
  | nil => exact contLines_nil acc
  | cons t ts =>
    obtain ⟨k, s⟩ := t
    have : k ≠ .INDENT := by simpa using h (k, s) (by simp)
    rw [contLines]; simp [this]

theorem contLines_indent (acc acc' : Str) (i : Str) (ts rest : List Tok)
    (h : contLine acc ts = .ok (acc', rest)) :
    contLines acc ((.INDENT, i) :: ts) = contLines acc' rest := by
  rw [contLines]
  simp only [↓reduceIte]
  split
  · rename_i e he; rw [h] at he; simp at he
  · rename_i a r he; rw [h] at he; simp at he; rw [he.1, he.2]

/-- joining with "\n": appending one more line -/
theorem join_snoc (l : List Str) (x : Str) (hl : l ≠ []) :
    Text.join ['\n'] (l ++ [x]) = Text.join ['\n'] l ++ '\n' :: x := by
  induction l with
  | nil => exact absurd rfl hl
  | cons a l ih =>
    cases l with
    | nil => simp [Text.join]
    | cons b l =>
      have := ih (by simp)
      simp only [List.cons_append, Text.join, List.append_assoc] at this ⊢
      rw [this]

/-- what the continuation loop accumulates -/
def accAfter (acc : Str) : List ContS → Str
  | [] => acc
  | c :: cs => accAfter (acc ++ c.text ++ nlText c.nl) cs

theorem contLine_cont (acc : Str) (c : ContS) (rest : List Tok) (hnl : c.nl = true ∨ rest = [])
    : contLine acc ((.VALUE, c.text) :: (nlTok c.nl ++ rest)) = .ok (acc ++ c.text ++ nlText c.nl, rest) := by
  cases h : c.nl with
  | true => simp [contLine, nlTok, nlText]
  | false =>
    rcases hnl with h' | h'
    · rw [h] at h'; simp at h'
    · subst h'; simp [contLine, nlTok, nlText]

theorem contLines_conts (cs : List ContS) : ∀ (acc : Str) (rest : List Tok),
    contsTermT cs rest → HeadNot [.INDENT] rest →
    contLines acc (contsToks cs ++ rest) = .ok (accAfter acc cs, rest) := by
  induction cs with
  | nil => intro acc rest _ hr; simpa [contsToks, accAfter] using contLines_stop acc rest hr
  | cons c cs ih =>
    intro acc rest ht hr
    obtain ⟨h1, h2⟩ := ht
    have hnl : c.nl = true ∨ contsToks cs ++ rest = [] := by
      rcases h1 with h | ⟨ha, hb⟩
      · exact Or.inl h
      · right; subst ha hb; simp [contsToks]
    have hc := contLine_cont acc c (contsToks cs ++ rest) hnl
    have : contsToks (c :: cs) ++ rest =
        (.INDENT, c.indent) :: ((.VALUE, c.text) :: (nlTok c.nl ++ (contsToks cs ++ rest))) := by
      simp [contsToks, ContS.toks]
    rw [this, contLines_indent _ _ _ _ _ hc, ih _ _ h2 hr]
    simp [accAfter]

def lastNl : List ContS → Bool
  | [] => true
  | [c] => c.nl
  | _ :: c :: cs => lastNl (c :: cs)

theorem accAfter_join (cs : List ContS) : ∀ (pre : List Str) (rest : List Tok), pre ≠ [] →
    contsTermT cs rest →
    accAfter (Text.join ['\n'] pre ++ ['\n']) cs =
      Text.join ['\n'] (pre ++ cs.map ContS.text) ++ nlText (lastNl cs) := by
  induction cs with
  | nil => intro pre rest _ _; simp [accAfter, lastNl, nlText]
  | cons c cs ih =>
    intro pre rest hp ht
    obtain ⟨h1, h2⟩ := ht
    simp only [accAfter, List.map_cons]
    have hj := join_snoc pre c.text hp
    cases cs with
    | nil =>
      simp only [accAfter, List.map_nil, lastNl]
      rw [hj]; simp
    | cons c2 cs' =>
      have hnl : c.nl = true := by
        rcases h1 with h | ⟨h, _⟩
        · exact h
        · simp at h
      have := ih (pre ++ [c.text]) rest (by simp) h2
      rw [hj] at this
      simp only [hnl, nlText, ↓reduceIte, List.append_assoc, List.cons_append, List.nil_append,
        List.map_cons, lastNl] at this ⊢
      exact this

theorem trimNl_snoc (x : Str) : trimNl (x ++ ['\n']) = x := by
  simp [trimNl, isNewline]

theorem trimNl_keep (x : Str) (h : ∀ c, x.getLast? = some c → isNewline c = false) : trimNl x = x := by
  unfold trimNl
  cases hx : x.getLast? with
  | none => rfl
  | some c => simp [h c hx]

theorem join_getLast (l : List Str) (t : Str) (ht : t ≠ []) :
    (Text.join ['\n'] (l ++ [t])).getLast? = t.getLast? := by
  cases l with
  | nil => simp [Text.join]
  | cons a l =>
    rw [join_snoc (a :: l) t (by simp)]
    cases t with
    | nil => exact absurd rfl ht
    | cons c cs =>
      rw [show Text.join ['\n'] (a :: l) ++ '\n' :: c :: cs = (Text.join ['\n'] (a :: l) ++ ['\n']) ++ (c :: cs) by simp]
      rw [List.getLast?_append]
      cases h : (c :: cs).getLast? with
      | none => simp at h
      | some x => simp

/-- the value of a field, as the lossy reader computes it -/
theorem trim_accAfter (v : Str) (cs : List ContS) (rest : List Tok) (ht : contsTermT cs rest)
    (hwf : ∀ c ∈ cs, c.text ≠ [] ∧ NoNl c.text) :
    trimNl (accAfter (v ++ ['\n']) cs) = Text.join ['\n'] (v :: cs.map ContS.text) := by
  have h := accAfter_join cs [v] rest (by simp) ht
  simp only [Text.join, List.cons_append, List.nil_append] at h
  rw [h]
  cases hl : lastNl cs with
  | true => simp [nlText, trimNl_snoc]
  | false =>
    simp only [nlText, Bool.false_eq_true, ↓reduceIte, List.append_nil]
    apply trimNl_keep
    -- cs is non-empty and its last text is non-empty and newline-free
    have hne : cs ≠ [] := by intro e; subst e; simp [lastNl] at hl
    obtain ⟨c, hc⟩ : ∃ c, cs.getLast? = some c := by
      cases h' : cs.getLast? with
      | none => simp at h'; exact absurd h' hne
      | some c => exact ⟨c, rfl⟩
    have hmem : c ∈ cs := List.mem_of_getLast? hc
    obtain ⟨init, hi⟩ : ∃ init, cs = init ++ [c] := List.getLast?_eq_some_iff.mp hc
    intro x hx
    have : (v :: cs.map ContS.text) = (v :: init.map ContS.text) ++ [c.text] := by
      rw [hi]; simp
    rw [this, join_getLast _ _ (hwf c hmem).1] at hx
    exact (hwf c hmem).2 x (List.mem_of_getLast? hx)


/-! ### one field -/

theorem dropWhile_optWs (ws : Str) (r : List Tok) (h : HeadNot [.WHITESPACE, .COMMENT] r) :
    (optTok .WHITESPACE ws ++ r).dropWhile (fun t => decide (t.1 = .WHITESPACE)) = r := by
  have hr : r.dropWhile (fun t => decide (t.1 = .WHITESPACE)) = r := by
    cases r with
    | nil => rfl
    | cons t ts =>
      have : t.1 ≠ .WHITESPACE := by
        have := h t (by simp); simp at this; exact this.1
      simp [List.dropWhile, this]
  unfold optTok; split
  · simpa using hr
  · simp [List.dropWhile, hr]

theorem firstLine_entry (v : Str) (nl : Bool) (r : List Tok) (h : nl = true ∨ r = []) :
    firstLine [] (optTok .VALUE v ++ nlTok nl ++ r) = .ok (v, r) := by
  have key : ∀ val, firstLine val (nlTok nl ++ r) = .ok (val, r) := by
    intro val
    cases nl with
    | true => simp [nlTok, firstLine]
    | false =>
      rcases h with h | h
      · simp at h
      · subst h; simp [nlTok, firstLine]
  unfold optTok; split
  · rename_i hv; subst hv; simpa using key []
  · simp only [List.cons_append, List.nil_append, firstLine, ↓reduceIte]; exact key v

theorem fieldValue_entry (e : EntryS) (rest : List Tok) (hwf : ∀ c ∈ e.conts, c.text ≠ [] ∧ NoNl c.text)
    (hterm : EntryS.TermT e rest) (hrest : HeadNot [.INDENT] rest) :
    fieldValue ((.COLON, [':']) :: (optTok .WHITESPACE e.ws ++ optTok .VALUE e.v ++ nlTok e.nl
      ++ contsToks e.conts ++ rest)) = .ok (lossyValue e, rest) := by
  obtain ⟨h1, h2⟩ := hterm
  have hd := dropWhile_optWs e.ws (optTok .VALUE e.v ++ nlTok e.nl ++ contsToks e.conts ++ rest)
    (headNot_valuePart e.v e.nl e.conts rest h1)
  have hnl : e.nl = true ∨ contsToks e.conts ++ rest = [] := by
    rcases h1 with h | ⟨ha, hb⟩
    · exact Or.inl h
    · right; rw [ha, hb]; simp [contsToks]
  have hf := firstLine_entry e.v e.nl (contsToks e.conts ++ rest) hnl
  have hc := contLines_conts e.conts (e.v ++ ['\n']) rest h2 hrest
  have ht := trim_accAfter e.v e.conts rest h2 hwf
  simp only [List.append_assoc] at hd hf ⊢
  simp only [fieldValue, ↓reduceIte, hd, hf, hc, ht, lossyValue]

/-! ### the main loop -/

theorem loop_nil (paras cur) : loop paras cur [] = .ok (flush paras cur) := by rw [loop]

theorem loop_key (paras cur) (k : Str) (ts : List Tok) (v : Str) (rest)
    (h : fieldValue ts = .ok (v, rest)) :
    loop paras cur ((.KEY, k) :: ts) = loop paras (cur ++ [(k, v)]) rest := by
  rw [loop]
  split
  · rename_i e he; rw [h] at he; simp at he
  · rename_i v' r' he; rw [h] at he; simp at he; rw [he.1, he.2]

theorem loop_comment (paras cur) (c : Str) (ts : List Tok) :
    loop paras cur ((.COMMENT, c) :: ts) = loop paras cur (skipComment ts) := by rw [loop]

theorem loop_newline (paras cur) (n : Str) (ts : List Tok) :
    loop paras cur ((.NEWLINE, n) :: ts) = loop (flush paras cur) [] ts := by rw [loop]

theorem skipComment_nlTok (nl : Bool) (r : List Tok) (h : nl = true ∨ r = []) :
    skipComment (nlTok nl ++ r) = r := by
  cases nl with
  | true => simp [nlTok, skipComment]
  | false =>
    rcases h with h | h
    · simp at h
    · subst h; simp [nlTok, skipComment]

theorem lossyItems_cons_comment (t nl is) : lossyItems (.comment t nl :: is) = lossyItems is := by
  simp [lossyItems, itemEntries]
theorem lossyItems_cons_entry (e is) : lossyItems (.entry e :: is) = lossyEntry e :: lossyItems is := by
  simp [lossyItems, itemEntries]

theorem loop_items (is : List PItem) : ∀ (paras : Doc) (cur : Para) (rest : List Tok),
    (∀ i ∈ is, ∀ e, i = .entry e → ∀ c ∈ e.conts, c.text ≠ [] ∧ NoNl c.text) →
    itemsTermT is rest → HeadNot [.INDENT] rest →
    loop paras cur (itemsToks is ++ rest) = loop paras (cur ++ lossyItems is) rest := by
  induction is with
  | nil => intro paras cur rest _ _ _; simp [itemsToks, lossyItems, itemEntries]
  | cons i is ih =>
    intro paras cur rest hwf hterm hrest
    have hrec := fun p c ht => ih p c rest (fun x hx => hwf x (by simp [hx])) ht hrest
    cases i with
    | comment t nl =>
      obtain ⟨h1, h2⟩ := hterm
      have hnl : nl = true ∨ itemsToks is ++ rest = [] := by
        rcases h1 with h | ⟨ha, hb⟩
        · exact Or.inl h
        · right; subst ha hb; simp [itemsToks]
      simp only [itemsToks_cons, PItem.toks, List.cons_append, List.append_assoc]
      rw [loop_comment, skipComment_nlTok _ _ hnl, hrec _ _ h2, lossyItems_cons_comment]
    | entry e =>
      obtain ⟨h1, h2⟩ := hterm
      have hfv := fieldValue_entry e (itemsToks is ++ rest) (hwf (.entry e) (by simp) e rfl) h1
        (headNot_items is rest hrest)
      simp only [itemsToks_cons, PItem.toks, EntryS.toks, List.cons_append, List.append_assoc] at hfv ⊢
      rw [loop_key _ _ _ _ _ _ hfv, hrec _ _ h2, lossyItems_cons_entry]
      simp [lossyEntry]

theorem loop_gaps_empty (gs : List Gap) : ∀ (paras : Doc) (rest : List Tok), gapsTermT gs rest →
    loop paras [] (gapsToks gs ++ rest) = loop paras [] rest := by
  induction gs with
  | nil => intro paras rest _; simp [gapsToks]
  | cons g gs ih =>
    intro paras rest ht
    cases g with
    | blank =>
      simp only [gapsToks, List.map_cons, List.flatten_cons, Gap.toks, List.cons_append,
        List.nil_append]
      rw [loop_newline]
      simpa [flush, gapsToks] using ih paras rest ht
    | comment t nl =>
      obtain ⟨h1, h2⟩ := ht
      have hnl : nl = true ∨ gapsToks gs ++ rest = [] := by
        rcases h1 with h | ⟨ha, hb⟩
        · exact Or.inl h
        · right; subst ha hb; simp [gapsToks]
      simp only [gapsToks, List.map_cons, List.flatten_cons, Gap.toks, List.cons_append,
        List.append_assoc] at hnl ⊢
      rw [loop_comment, skipComment_nlTok _ _ hnl]
      simpa [gapsToks] using ih paras rest h2

theorem lossyPara_ne (p : ParaS) : lossyPara p ≠ [] := by simp [lossyPara]

theorem loop_paras (ps : List (ParaS × List Gap)) : ∀ (paras : Doc),
    (∀ pg ∈ ps, pg.1.WF) → parasTerm ps →
    loop paras [] (parasToks ps) = .ok (paras ++ ps.map fun pg => lossyPara pg.1) := by
  induction ps with
  | nil => intro paras _ _; simp [parasToks, loop_nil, flush]
  | cons pg ps ih =>
    obtain ⟨p, g⟩ := pg
    intro paras hwf hterm
    have hp := hwf (p, g) (by simp)
    have hwfi : ∀ i ∈ PItem.entry p.first :: p.rest, ∀ e, i = .entry e →
        ∀ c ∈ e.conts, c.text ≠ [] ∧ NoNl c.text := by
      intro i hi e he c hc
      have hewf : e.WF := by
        simp only [List.mem_cons] at hi
        rcases hi with h | h
        · rw [h] at he; cases he; exact hp.first_ok
        · have := hp.rest_ok i h; rw [he] at this; exact this
      obtain ⟨hn, x, xs, hx, _⟩ := (hewf.conts_ok c hc).text_ok
      exact ⟨by rw [hx]; simp, hn⟩
    -- termination flags and the shape of what follows the paragraph
    have hstep : ∀ (more : Bool), p.Term more → (more = false → gapsToks g ++ parasToks ps = []) →
        HeadNot [.INDENT] (gapsToks g ++ parasToks ps) →
        loop paras [] (parasToks ((p, g) :: ps)) =
          loop paras (lossyPara p) (gapsToks g ++ parasToks ps) := by
      intro more hpt hm hh
      have ht : itemsTermT (PItem.entry p.first :: p.rest) (gapsToks g ++ parasToks ps) := by
        obtain ⟨h1, h2⟩ := hpt
        refine ⟨EntryS.termT_of _ _ _ h1 ?_, itemsTermT_of _ _ _ h2 hm⟩
        intro hf
        simp only [Bool.or_eq_false_iff, Bool.not_eq_eq_eq_not, Bool.not_false, List.isEmpty_iff] at hf
        rw [hf.1, hm hf.2]; simp [itemsToks]
      have := loop_items (PItem.entry p.first :: p.rest) paras [] _ hwfi ht hh
      rw [parasToks_cons]
      simpa [itemsToks_cons, PItem.toks, ParaS.toks, lossyItems_cons_entry, lossyPara] using this
    cases ps with
    | nil =>
      obtain ⟨h1, h2, h3⟩ := hterm
      have hg3 := gapsTermT_of g false [] h3 (fun _ => rfl)
      rcases h2 with hg | ⟨g', hg⟩
      · subst hg
        rw [hstep false h1 (by simp [gapsToks, parasToks]) (by simpa [gapsToks, parasToks] using headNot_nil _)]
        simp [gapsToks, parasToks, loop_nil, flush, lossyPara_ne]
      · subst hg
        rw [hstep true h1 (by simp) (by
          simp only [gapsToks, List.map_cons, List.flatten_cons, Gap.toks, List.cons_append]
          exact headNot_cons _ _ _ (by simp))]
        simp only [gapsToks, List.map_cons, List.flatten_cons, Gap.toks, List.cons_append,
          List.nil_append, parasToks, List.map_nil, List.flatten_nil, List.append_nil] at hg3 ⊢
        rw [loop_newline]
        have := loop_gaps_empty g' (flush paras (lossyPara p)) [] hg3
        simp only [List.append_nil, gapsToks] at this
        rw [this, loop_nil]
        simp [flush, lossyPara_ne]
    | cons q ps' =>
      obtain ⟨h1, ⟨g', hg⟩, h3, h4⟩ := hterm
      subst hg
      have hg3 := gapsTermT_of (Gap.blank :: g') true (parasToks (q :: ps')) h3 (by simp)
      rw [hstep true h1 (by simp) (by
        simp only [gapsToks, List.map_cons, List.flatten_cons, Gap.toks, List.cons_append]
        exact headNot_cons _ _ _ (by simp))]
      simp only [gapsToks, List.map_cons, List.flatten_cons, Gap.toks, List.cons_append,
        List.nil_append] at hg3 ⊢
      rw [loop_newline]
      have := loop_gaps_empty g' (flush paras (lossyPara p)) (parasToks (q :: ps')) hg3
      simp only [gapsToks] at this
      rw [this, ih _ (fun x hx => hwf x (by simp [hx])) h4]
      simp [flush, lossyPara_ne]

/-- **Lossy reader inversion**: the lossy reader accepts the token list of every well-formed
    document and reports its paragraphs and fields, each value with all its lines. -/
theorem lossy_doc (d : DocS) (h : d.WF) : loop [] [] d.toks = .ok (lossyDoc d) := by
  have hg : gapsTermT d.lead (parasToks d.paras) := by
    apply gapsTermT_of d.lead _ _ h.lead_term
    intro hf; simp at hf; rw [hf]; simp [parasToks]
  simp only [DocS.toks]
  rw [loop_gaps_empty d.lead [] _ hg, loop_paras d.paras [] (fun pg hpg => (h.paras_ok pg hpg).1) h.paras_term]
  simp [lossyDoc]

end Deb822Verif.Deb
