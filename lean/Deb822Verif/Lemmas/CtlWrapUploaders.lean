import Deb822Verif.Model.CtlWrap
import Deb822Verif.Lemmas.SplitOn
import Deb822Verif.Lemmas.DebWrapFmt
/-!
  `fmtCommaLines` (the one-per-line formatter used for `Uploaders`): split at `','`, trim, join by
  `",\n"`. Its output is stable under what a second wrap-and-sort pass does to the text: whitespace
  (spaces, tabs, line feeds) removed or added at the two ends.
-/
namespace Deb822Verif.Ctl
open Deb822Verif Deb Text

/-- space, tab or line feed -/
def isWs3 (c : Char) : Bool := isIndent c || c == '\n'
def WsOnly (s : Str) : Prop := ∀ c ∈ s, isWs3 c = true

theorem ws3_whitespace (c : Char) (h : isWs3 c = true) : isWhitespace c = true ∧ c ≠ ',' := by
  simp only [isWs3, isIndent, Bool.or_eq_true, beq_iff_eq] at h
  rcases h with (rfl | rfl) | rfl <;> exact ⟨by decide, by decide⟩

theorem wsOnly_nil : WsOnly [] := by intro c hc; simp at hc
theorem wsOnly_append {a b : Str} (ha : WsOnly a) (hb : WsOnly b) : WsOnly (a ++ b) := by
  intro c hc
  simp only [List.mem_append] at hc
  rcases hc with hc | hc
  · exact ha c hc
  · exact hb c hc

/-! ### trim -/

def AllW (s : Str) : Prop := ∀ c ∈ s, isWhitespace c = true

theorem allW_of_ws (s : Str) (h : WsOnly s) : AllW s := fun c hc => (ws3_whitespace c (h c hc)).1
theorem nocomma_of_ws (s : Str) (h : WsOnly s) : ',' ∉ s := fun hm => (ws3_whitespace ',' (h ',' hm)).2 rfl

theorem trimStart_w_append (w s : Str) (hw : AllW w) : trimStart (w ++ s) = trimStart s := by
  unfold trimStart
  exact List.dropWhile_append_of_pos hw

theorem trimEnd_append_w (s w : Str) (hw : AllW w) : trimEnd (s ++ w) = trimEnd s := by
  unfold trimEnd
  rw [List.reverse_append, List.dropWhile_append_of_pos (by intro a ha; exact hw a (by simpa using ha))]

theorem trimStart_allW (w : Str) (hw : AllW w) : trimStart w = [] := by
  unfold trimStart
  induction w with
  | nil => rfl
  | cons c cs ih =>
    rw [List.dropWhile_cons_of_pos (hw c (by simp))]
    exact ih fun x hx => hw x (by simp [hx])

theorem trim_w_append (w s : Str) (hw : AllW w) : trim (w ++ s) = trim s := by
  unfold trim; rw [trimStart_w_append w s hw]

theorem trim_append_w (s w : Str) (hw : AllW w) : trim (s ++ w) = trim s := by
  unfold trim
  have h := List.dropWhile_append (p := isWhitespace) (xs := s) (ys := w)
  by_cases he : (s.dropWhile isWhitespace).isEmpty = true
  · have h1 : trimStart (s ++ w) = [] := by
      unfold trimStart; rw [h, if_pos he]; exact trimStart_allW w hw
    have h2 : trimStart s = [] := by unfold trimStart; simpa [List.isEmpty_iff] using he
    rw [h1, h2]
  · have h1 : trimStart (s ++ w) = trimStart s ++ w := by
      unfold trimStart; rw [h, if_neg he]
    rw [h1, trimEnd_append_w _ _ hw]

theorem headFails_dropWhile' {α} (p : α → Bool) (l : List α) : ∀ x, (l.dropWhile p).head? = some x → p x = false := by
  intro x hx
  have := List.head?_dropWhile_not p l
  rw [hx] at this
  exact this

theorem dropWhile_of_headFails {α} (p : α → Bool) (l : List α) (h : ∀ x, l.head? = some x → p x = false) :
    l.dropWhile p = l := by
  cases l with
  | nil => rfl
  | cons a r => simp [List.dropWhile_cons, h a rfl]

theorem trimEnd_prefix (x : Str) : ∃ t, x = trimEnd x ++ t := by
  refine ⟨(x.reverse.takeWhile isWhitespace).reverse, ?_⟩
  unfold trimEnd
  have := List.takeWhile_append_dropWhile (p := isWhitespace) (l := x.reverse)
  have h2 := congrArg List.reverse this
  simp only [List.reverse_append, List.reverse_reverse] at h2
  exact h2.symm

theorem trim_trim (s : Str) : trim (trim s) = trim s := by
  have hx : ∀ c, (trimStart s).head? = some c → isWhitespace c = false := headFails_dropWhile' _ _
  have hy : ∀ c, (trim s).head? = some c → isWhitespace c = false := by
    intro c hc
    obtain ⟨t, ht⟩ := trimEnd_prefix (trimStart s)
    apply hx c
    rw [ht]
    show (trim s ++ t).head? = some c
    cases hts : trim s with
    | nil => rw [hts] at hc; simp at hc
    | cons a r => rw [hts] at hc; simpa using hc
  have h1 : trimStart (trim s) = trim s := dropWhile_of_headFails _ _ hy
  show trimEnd (trimStart (trim s)) = trim s
  rw [h1]
  show trimEnd (trimEnd (trimStart s)) = trimEnd (trimStart s)
  unfold trimEnd
  rw [List.reverse_reverse]
  congr 1
  exact dropWhile_of_headFails _ _ (headFails_dropWhile' _ _)

theorem trim_sublist (s : Str) : (trim s).Sublist s := by
  unfold trim trimEnd trimStart
  have h1 : ((s.dropWhile isWhitespace).reverse.dropWhile isWhitespace).reverse.Sublist (s.dropWhile isWhitespace) := by
    have := (List.dropWhile_sublist isWhitespace (l := (s.dropWhile isWhitespace).reverse)).reverse
    simpa using this
  exact h1.trans (List.dropWhile_sublist _)

/-! ### split at ',' with whitespace at the ends -/

theorem splitOn_ne_nil' (sep : Char) (v : Str) : splitOn sep v ≠ [] := by
  cases v with
  | nil => simp [splitOn]
  | cons c cs =>
    simp only [splitOn]
    split
    · simp
    · split <;> simp

theorem splitOn_prefix (sep : Char) (w s : Str) (hw : sep ∉ w) :
    ∃ h t, splitOn sep s = h :: t ∧ splitOn sep (w ++ s) = (w ++ h) :: t := by
  induction w with
  | nil =>
    cases hs : splitOn sep s with
    | nil => exact absurd hs (splitOn_ne_nil' sep s)
    | cons h t => exact ⟨h, t, rfl, by simpa using hs⟩
  | cons c cs ih =>
    have hc : c ≠ sep := by intro e; apply hw; simp [e]
    obtain ⟨h, t, h1, h2⟩ := ih (by intro e; apply hw; simp [e])
    refine ⟨h, t, h1, ?_⟩
    simp only [List.cons_append, splitOn, hc, ↓reduceIte, h2]

theorem splitOn_suffix (sep : Char) (s w : Str) (hw : sep ∉ w) :
    ∃ i l, splitOn sep s = i ++ [l] ∧ splitOn sep (s ++ w) = i ++ [l ++ w] := by
  induction s with
  | nil => exact ⟨[], [], by simp [splitOn], by simpa using splitOn_none sep w hw⟩
  | cons c cs ih =>
    obtain ⟨i, l, h1, h2⟩ := ih
    by_cases hc : c = sep
    · subst hc
      exact ⟨[] :: i, l, by simp [splitOn, h1], by simp [splitOn, h2]⟩
    · cases i with
      | nil =>
        refine ⟨[], c :: l, ?_, ?_⟩
        · simp only [splitOn, hc, ↓reduceIte, h1]; rfl
        · simp only [List.cons_append, splitOn, hc, ↓reduceIte, h2]; rfl
      | cons x xs =>
        refine ⟨(c :: x) :: xs, l, ?_, ?_⟩
        · simp only [splitOn, hc, ↓reduceIte, h1]; rfl
        · simp only [List.cons_append, splitOn, hc, ↓reduceIte, h2]
          first | rfl | skip

/-- the trimmed pieces do not see whitespace in front of the text -/
theorem pieces_w_prefix (w s : Str) (hw : WsOnly w) :
    (splitOn ',' (w ++ s)).map trim = (splitOn ',' s).map trim := by
  obtain ⟨h, t, h1, h2⟩ := splitOn_prefix ',' w s (nocomma_of_ws w hw)
  rw [h1, h2, List.map_cons, List.map_cons, trim_w_append w h (allW_of_ws w hw)]

/-- nor behind it -/
theorem pieces_w_suffix (s w : Str) (hw : WsOnly w) :
    (splitOn ',' (s ++ w)).map trim = (splitOn ',' s).map trim := by
  obtain ⟨i, l, h1, h2⟩ := splitOn_suffix ',' s w (nocomma_of_ws w hw)
  rw [h1, h2, List.map_append, List.map_append, List.map_cons, List.map_cons,
    trim_append_w l w (allW_of_ws w hw)]

/-- the pieces of the joined text are the pieces, up to a leading line feed -/
theorem pieces_join (ps : List Str) (hne : ps ≠ []) (hp : ∀ p ∈ ps, ',' ∉ p) :
    (splitOn ',' (join [',', '\n'] ps)).map trim = ps.map trim := by
  induction ps with
  | nil => exact absurd rfl hne
  | cons p r ih =>
    cases r with
    | nil => simp only [join, splitOn_none ',' p (hp p (by simp))]
    | cons q r' =>
      have ih' := ih (by simp) (fun x hx => hp x (by simp [hx]))
      simp only [join]
      rw [show p ++ [',', '\n'] ++ join [',', '\n'] (q :: r') = p ++ ',' :: (['\n'] ++ join [',', '\n'] (q :: r')) from by simp,
        splitOn_cons ',' p _ (hp p (by simp)), List.map_cons,
        pieces_w_prefix ['\n'] _ (by intro c hc; simp at hc; subst hc; rfl), ih']
      rfl

/-- the text as a second pass may find it: whitespace removed at the two ends of `out`, other
    whitespace put in front -/
def WsEquiv (out a : Str) : Prop :=
  ∃ w1 m w2 w3, out = w1 ++ m ++ w2 ∧ a = w3 ++ m ∧ WsOnly w1 ∧ WsOnly w2 ∧ WsOnly w3

/-- **`fmtCommaLines` is stable**: formatting its own output — also after whitespace was removed at
    the ends and other whitespace put in front — returns the output -/
theorem fmtCommaLines_stable (k v a : Str) (h : WsEquiv (fmtCommaLines k v) a) :
    fmtCommaLines k a = fmtCommaLines k v := by
  obtain ⟨w1, m, w2, w3, hout, ha, h1, h2, h3⟩ := h
  have hps : ∀ p ∈ (splitOn ',' v).map trim, ',' ∉ p := by
    intro p hp hm
    simp only [List.mem_map] at hp
    obtain ⟨q, hq, rfl⟩ := hp
    exact splitOn_mem_nosep ',' v q hq ((trim_sublist q).subset hm)
  have hne : (splitOn ',' v).map trim ≠ [] := by
    intro e
    exact splitOn_ne_nil' ',' v (List.map_eq_nil_iff.1 e)
  have hout' : (splitOn ',' (fmtCommaLines k v)).map trim = (splitOn ',' v).map trim := by
    unfold fmtCommaLines
    rw [pieces_join _ hne hps, List.map_map]
    apply List.map_congr_left
    intro q _
    exact trim_trim q
  have hm : (splitOn ',' m).map trim = (splitOn ',' v).map trim := by
    rw [← hout', hout, List.append_assoc, pieces_w_prefix w1 _ h1, pieces_w_suffix m w2 h2]
  show join [',', '\n'] ((splitOn ',' a).map trim) = join [',', '\n'] ((splitOn ',' v).map trim)
  rw [ha, pieces_w_prefix w3 m h3, hm]

/-- the characters of the output are characters of the input, commas and line feeds -/
theorem fmtCommaLines_chars (k v : Str) : ∀ c ∈ fmtCommaLines k v, c ∈ v ∨ c = ',' ∨ c = '\n' := by
  intro c hc
  have mem_join' : ∀ (xs : List Str), c ∈ join [',', '\n'] xs → c ∈ [',', '\n'] ∨ ∃ x ∈ xs, c ∈ x := by
    intro xs
    induction xs with
    | nil => intro h; simp [join] at h
    | cons x r ih =>
      cases r with
      | nil => intro h; exact Or.inr ⟨x, by simp, by simpa [join] using h⟩
      | cons y r' =>
        intro h
        simp only [join, List.mem_append] at h
        rcases h with (h | h) | h
        · exact Or.inr ⟨x, by simp, h⟩
        · exact Or.inl h
        · rcases ih h with h | ⟨z, hz, hcz⟩
          · exact Or.inl h
          · exact Or.inr ⟨z, by simp [hz], hcz⟩
  rcases mem_join' _ hc with h | ⟨x, hx, hcx⟩
  · simp only [List.mem_cons, List.not_mem_nil, or_false] at h
    exact Or.inr h
  · simp only [List.mem_map] at hx
    obtain ⟨q, hq, rfl⟩ := hx
    exact Or.inl (splitOn_mem_sub ',' v q hq c ((trim_sublist q).subset hcx))

end Deb822Verif.Ctl
