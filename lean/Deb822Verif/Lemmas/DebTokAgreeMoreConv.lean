import Deb822Verif.Lemmas.DebTokAgreeMoreAcc
/-!
  The converse of acceptance containment, token level (property C06): on a token list with the
  lexer invariants `Lx .NEWLINE` and `Ls true`, the lossy reader accepts whatever the lossless
  parser parses without an error, PROVIDED no WHITESPACE token directly follows a KEY token
  (`keyWs ts = false`); and what the lossy reader accepts has no such pair (`loop_noKeyWs`).
-/
namespace Deb822Verif.Deb
open Deb822Verif Node Lossy

/-- a WHITESPACE token directly after a KEY token (`Name : value`) -/
def keyWs : List Tok → Bool
  | a :: b :: ts => (a.1 == .KEY && b.1 == .WHITESPACE) || keyWs (b :: ts)
  | _ => false

theorem keyWs_tail (a : Tok) (ts : List Tok) (h : keyWs (a :: ts) = false) : keyWs ts = false := by
  cases ts with
  | nil => rfl
  | cons b ts => simp only [keyWs, Bool.or_eq_false_iff] at h; exact h.2

theorem keyWs_append_right (pre rest : List Tok) (h : keyWs (pre ++ rest) = false) : keyWs rest = false := by
  induction pre with
  | nil => exact h
  | cons a pre ih => exact ih (keyWs_tail a _ h)

theorem keyWs_of_suffix {ts rest : List Tok} (h : keyWs ts = false) (hs : ∃ pre, ts = pre ++ rest) :
    keyWs rest = false := by
  obtain ⟨pre, rfl⟩ := hs
  exact keyWs_append_right _ _ h

theorem keyWs_cons_notKey (a : Tok) (ts : List Tok) (h : a.1 ≠ .KEY) : keyWs (a :: ts) = keyWs ts := by
  cases ts with
  | nil => rfl
  | cons b ts => simp [keyWs, h]

theorem keyWs_key_head (k : Str) (ts' : List Tok) (h : keyWs ((.KEY, k) :: ts') = false) :
    HeadNot [.WHITESPACE] ts' := by
  cases ts' with
  | nil => exact headNot_nil _
  | cons b ts =>
    simp only [keyWs, Bool.or_eq_false_iff] at h
    apply headNot_cons
    have := h.1
    simpa using this

/-- a consumed prefix without a KEY token does not matter -/
theorem keyWs_append_noKey (pre rest : List Tok) (h : ∀ t ∈ pre, t.1 ≠ .KEY) :
    keyWs (pre ++ rest) = keyWs rest := by
  induction pre with
  | nil => rfl
  | cons a pre ih =>
    rw [List.cons_append, keyWs_cons_notKey _ _ (h a (by simp))]
    exact ih (fun t ht => h t (by simp [ht]))

/-! ### what the lossy reader consumes for one field holds no KEY token -/

/-- `r` is what is left of `ts` after consuming tokens none of which is a KEY -/
def NoKeyPre (ts r : List Tok) : Prop := ∃ pre, ts = pre ++ r ∧ ∀ t ∈ pre, t.1 ≠ .KEY

theorem noKeyPre_refl (ts : List Tok) : NoKeyPre ts ts := ⟨[], rfl, by simp⟩

theorem noKeyPre_cons (t : Tok) (ts r : List Tok) (ht : t.1 ≠ .KEY) (h : NoKeyPre ts r) :
    NoKeyPre (t :: ts) r := by
  obtain ⟨pre, rfl, hp⟩ := h
  refine ⟨t :: pre, rfl, ?_⟩
  intro x hx
  simp only [List.mem_cons] at hx
  rcases hx with rfl | hx
  · exact ht
  · exact hp x hx

theorem noKeyPre_trans {a b c : List Tok} (h1 : NoKeyPre a b) (h2 : NoKeyPre b c) : NoKeyPre a c := by
  obtain ⟨p1, rfl, hp1⟩ := h1
  obtain ⟨p2, rfl, hp2⟩ := h2
  refine ⟨p1 ++ p2, by simp, ?_⟩
  intro x hx
  simp only [List.mem_append] at hx
  rcases hx with hx | hx
  · exact hp1 x hx
  · exact hp2 x hx

theorem firstLine_noKey (ts : List Tok) : ∀ (val v : Str) (r : List Tok),
    firstLine val ts = .ok (v, r) → NoKeyPre ts r := by
  induction ts with
  | nil => intro val v r h; simp [firstLine] at h; rw [← h.2]; exact noKeyPre_refl _
  | cons t ts ih =>
    intro val v r h
    obtain ⟨k, s⟩ := t
    simp only [firstLine] at h
    split at h
    · rename_i hk
      exact noKeyPre_cons _ _ _ (by simp [hk]) (ih _ _ _ h)
    · split at h
      · rename_i hk
        simp at h
        rw [← h.2]
        exact noKeyPre_cons _ _ _ (by simp [hk]) (noKeyPre_refl _)
      · simp at h

theorem contLine_noKey (ts : List Tok) : ∀ (acc v : Str) (r : List Tok),
    contLine acc ts = .ok (v, r) → NoKeyPre ts r := by
  induction ts with
  | nil => intro acc v r h; simp [contLine] at h; rw [← h.2]; exact noKeyPre_refl _
  | cons t ts ih =>
    intro acc v r h
    obtain ⟨k, s⟩ := t
    simp only [contLine] at h
    split at h
    · rename_i hk
      exact noKeyPre_cons _ _ _ (by simp [hk]) (ih _ _ _ h)
    · split at h
      · rename_i hk
        exact noKeyPre_cons _ _ _ (by simp [hk]) (ih _ _ _ h)
      · split at h
        · rename_i hk
          simp at h
          rw [← h.2]
          exact noKeyPre_cons _ _ _ (by simp [hk]) (noKeyPre_refl _)
        · split at h
          · simp at h
            rw [← h.2]
            exact noKeyPre_refl _
          · simp at h

theorem contLines_noKey : ∀ (n : Nat) (ts : List Tok), ts.length < n → ∀ (acc v : Str) (r : List Tok),
    contLines acc ts = .ok (v, r) → NoKeyPre ts r := by
  intro n
  induction n with
  | zero => intro ts h; omega
  | succ n ih =>
    intro ts hlen acc v r h
    cases ts with
    | nil => rw [contLines_nil] at h; simp at h; rw [← h.2]; exact noKeyPre_refl _
    | cons i r3 =>
      obtain ⟨ki, si⟩ := i
      by_cases hi : ki = .INDENT
      · subst hi
        cases hc : contLine acc r3 with
        | error e => rw [contLines_indent_err _ _ _ _ hc] at h; simp at h
        | ok pr =>
          obtain ⟨acc', rest1⟩ := pr
          rw [contLines_indent _ _ _ _ _ hc] at h
          have h1 := contLine_noKey r3 _ _ _ hc
          have hl := contLine_len _ _ _ _ hc
          have h2 := ih rest1 (by simp at hlen; omega) _ _ _ h
          exact noKeyPre_cons _ _ _ (by simp) (noKeyPre_trans h1 h2)
      · have hs := contLines_stop acc ((ki, si) :: r3) (headNot_cons _ _ _ (by simpa using hi))
        rw [hs] at h
        simp at h
        rw [← h.2]
        exact noKeyPre_refl _

theorem dropWhile_ws_noKey (ts : List Tok) : NoKeyPre ts (ts.dropWhile fun t => t.1 = .WHITESPACE) := by
  induction ts with
  | nil => exact noKeyPre_refl _
  | cons t ts ih =>
    simp only [List.dropWhile_cons]
    split
    · rename_i ht
      have ht' : t.1 = .WHITESPACE := by simpa using ht
      exact noKeyPre_cons _ _ _ (by rw [ht']; simp) ih
    · exact noKeyPre_refl _

/-- `fieldValue` starts at a COLON token and consumes no KEY token -/
theorem fieldValue_noKey (ts' : List Tok) (v : Str) (rest : List Tok) (h : fieldValue ts' = .ok (v, rest)) :
    (∃ sc ts1, ts' = (.COLON, sc) :: ts1) ∧ NoKeyPre ts' rest := by
  cases ts' with
  | nil => simp [fieldValue] at h
  | cons c ts1 =>
    obtain ⟨kc, sc⟩ := c
    simp only [fieldValue] at h
    split at h
    · rename_i hk
      subst hk
      split at h
      · simp at h
      · rename_i v1 ts3 h1
        split at h
        · simp at h
        · rename_i v2 ts4 h2
          simp at h
          refine ⟨⟨sc, ts1, rfl⟩, ?_⟩
          rw [← h.2]
          have a := dropWhile_ws_noKey ts1
          have b := firstLine_noKey _ _ _ _ h1
          have c := contLines_noKey (ts3.length + 1) ts3 (by omega) _ _ _ h2
          exact noKeyPre_cons _ _ _ (by simp) (noKeyPre_trans a (noKeyPre_trans b c))
    · simp at h

theorem keyWs_field (k : Str) (ts' : List Tok) (v : Str) (rest : List Tok)
    (h : fieldValue ts' = .ok (v, rest)) : keyWs ((.KEY, k) :: ts') = keyWs rest := by
  obtain ⟨⟨sc, ts1, rfl⟩, pre, hpre, hp⟩ := fieldValue_noKey ts' v rest h
  have h1 : keyWs ((.KEY, k) :: (.COLON, sc) :: ts1) = keyWs ((.COLON, sc) :: ts1) := by
    simp [keyWs]
  rw [h1, hpre]
  exact keyWs_append_noKey pre rest hp

theorem keyWs_skipComment (ts : List Tok) (hl2 : Lx2 .COMMENT ts) : keyWs ts = keyWs (skipComment ts) := by
  cases ts with
  | nil => rfl
  | cons n ts =>
    obtain ⟨kn, sn⟩ := n
    have hn : kn = .NEWLINE := hl2.1.1 rfl
    subst hn
    simp only [skipComment, if_true]
    exact keyWs_cons_notKey _ _ (by simp)

/-- **what the lossy reader accepts has no `KEY WHITESPACE` pair** (on a token list where a
    COMMENT token is followed by NEWLINE) -/
theorem loop_noKeyWs : ∀ (n : Nat) (ts : List Tok), ts.length < n → ∀ (paras : Doc) (cur : Para) (d : Doc),
    Lx2 .KEY ts → loop paras cur ts = .ok d → keyWs ts = false := by
  intro n
  induction n with
  | zero => intro ts h; omega
  | succ n ih =>
    intro ts hlen paras cur d hl2 h
    cases ts with
    | nil => rfl
    | cons t ts' =>
      obtain ⟨k, s⟩ := t
      simp only [List.length_cons] at hlen
      cases k with
      | NEWLINE =>
        rw [loop_newline] at h
        rw [keyWs_cons_notKey _ _ (by simp)]
        exact ih ts' (by omega) _ _ d (Lx2_weaken (Lx2_tail hl2)) h
      | COMMENT =>
        rw [loop_comment] at h
        rw [keyWs_cons_notKey _ _ (by simp), keyWs_skipComment ts' (Lx2_tail hl2)]
        have hlen' := skipComment_len ts'
        have hsuf : ∃ pre, ts' = pre ++ skipComment ts' := by
          have := suffix_of_leaves (untilNl_leaves ts')
          rwa [untilNl_snd] at this
        exact ih (skipComment ts') (by omega) paras cur d
          (Lx2_of_suffix (Lx2_weaken (Lx2_tail hl2)) hsuf) h
      | WHITESPACE =>
        rw [loop] at h
        rw [keyWs_cons_notKey _ _ (by simp)]
        exact ih ts' (by omega) _ _ d (Lx2_weaken (Lx2_tail hl2)) h
      | KEY =>
        cases hf : fieldValue ts' with
        | error e => rw [loop_key_err _ _ _ _ _ hf] at h; simp at h
        | ok pr =>
          obtain ⟨v, rest⟩ := pr
          rw [loop_key _ _ _ _ _ _ hf] at h
          rw [keyWs_field s ts' v rest hf]
          have hlen' := fieldValue_len _ _ _ hf
          obtain ⟨_, pre, hpre, _⟩ := fieldValue_noKey ts' v rest hf
          exact ih rest (by omega) _ _ d
            (Lx2_of_suffix (Lx2_weaken (Lx2_tail hl2)) ⟨pre, hpre⟩) h
      | _ => rw [loop] at h; simp at h

/-! ### the converse simulation -/

/-- a value line cannot start with anything but WHITESPACE, VALUE, NEWLINE -/
theorem entryLines_bad (t : Tok) (r : List Tok) (h1 : t.1 ≠ .WHITESPACE) (h2 : t.1 ≠ .VALUE)
    (h3 : t.1 ≠ .NEWLINE) : (entryLines (t :: r)).errs ≠ [] := by
  have hb : bumpVals (t :: r) = ([], t :: r) :=
    bumpVals_stop _ (headNot_cons _ _ _ (by simp [h1, h2]))
  rw [entryLines_of_cons _ _ _ _ hb]
  have := nlErrs_of_not_nl t h3
  intro he
  simp only [List.append_eq_nil_iff] at he
  exact this he.1

/-- at the start of a line: a run of COMMENT tokens, then something that is neither WHITESPACE nor
    COMMENT -/
theorem Ls_comments (r3 : List Tok) (h : Ls true r3) :
    ∃ cs tail, r3 = cs ++ tail ∧ (∀ c ∈ cs, c.1 = .COMMENT) ∧
      HeadNot [.WHITESPACE, .COMMENT] tail ∧ Ls true tail := by
  induction r3 with
  | nil => exact ⟨[], [], rfl, by simp, headNot_nil _, trivial⟩
  | cons t r ih =>
    by_cases hc : t.1 = .COMMENT
    · obtain ⟨cs, tail, hr, hcs, hh, hls⟩ :=
        ih (Ls_after_other h (by rw [hc]; simp) (by rw [hc]; simp))
      refine ⟨t :: cs, tail, by simp [hr], ?_, hh, hls⟩
      intro c hc'
      simp only [List.mem_cons] at hc'
      rcases hc' with rfl | hc'
      · exact hc
      · exact hcs c hc'
    · refine ⟨[], t :: r, rfl, by simp, headNot_cons _ _ _ ?_, h⟩
      have := Ls_sol_not_ws h
      simp [this, hc]

theorem contLine_comments (acc : Str) (cs tail : List Tok) (hcs : ∀ c ∈ cs, c.1 = .COMMENT) :
    contLine acc (cs ++ tail) = contLine acc tail := by
  induction cs with
  | nil => rfl
  | cons c cs ih =>
    obtain ⟨kc, sc⟩ := c
    have hc : kc = .COMMENT := hcs (kc, sc) (by simp)
    subst hc
    simp only [List.cons_append, contLine]
    simpa using ih (fun x hx => hcs x (by simp [hx]))

/-- continuation lines: what the parser's `afterNl` takes without error the lossy `contLines` accepts -/
theorem cont_conv : ∀ (n : Nat) (ts3 : List Tok), ts3.length < n → ∀ (acc : Str),
    Lx .NEWLINE ts3 → Ls true ts3 → (afterNl ts3).errs = [] →
    ∃ v2 ts4, contLines acc ts3 = .ok (v2, ts4) ∧ Ls true ts4 := by
  intro n
  induction n with
  | zero => intro ts3 h; omega
  | succ n ih =>
    intro ts3 hlen acc hl hls herr
    cases ts3 with
    | nil => exact ⟨acc, [], contLines_nil acc, trivial⟩
    | cons i r3 =>
      obtain ⟨ki, si⟩ := i
      by_cases hi : ki = .INDENT
      · subst hi
        have hls3 : Ls true r3 := Ls_after_other hls (by simp) (by simp)
        obtain ⟨cs, tail, hr, hcs, hh, hlst⟩ := Ls_comments r3 hls3
        subst hr
        have hltail : Lx .KEY tail := Lx_append_right cs tail (Lx_tail hl)
        have ha := afterNl_indent si cs tail hcs hh
        rw [ha] at herr
        simp only [] at herr
        have hcl := contLine_comments acc cs tail hcs
        cases tail with
        | nil =>
          have hc : contLine acc (cs ++ []) = .ok (acc, []) := by rw [hcl]; simp [contLine]
          refine ⟨acc, [], ?_, trivial⟩
          rw [contLines_indent _ _ _ _ _ hc, contLines_nil]
        | cons t r =>
          obtain ⟨kt, st⟩ := t
          have hlen' : r.length + 1 < n := by
            simp only [List.length_cons, List.length_append] at hlen; omega
          cases kt with
          | VALUE =>
            rcases Lx_after_value hltail with rfl | ⟨nl, r', rfl, hn⟩
            · have hc : contLine acc (cs ++ [(.VALUE, st)]) = .ok (acc ++ st, []) := by
                rw [hcl]; simp [contLine]
              refine ⟨acc ++ st, [], ?_, trivial⟩
              rw [contLines_indent _ _ _ _ _ hc, contLines_nil]
            · obtain ⟨kn, sn⟩ := nl
              simp only at hn
              subst hn
              have hc : contLine acc (cs ++ (.VALUE, st) :: (.NEWLINE, sn) :: r')
                  = .ok (acc ++ st ++ ['\n'], r') := by
                rw [hcl]; simp [contLine]
              rw [entryLines_value_nl st _ r' rfl] at herr
              simp only [] at herr
              have hls' : Ls true r' :=
                Ls_after_nl (Ls_after_other hlst (by simp) (by simp)) rfl
              obtain ⟨v2, ts4, h1, h2⟩ := ih r' (by simp at hlen'; omega) (acc ++ st ++ ['\n'])
                (Lx_after_nl (Lx_tail hltail) rfl) hls' herr
              exact ⟨v2, ts4, by rw [contLines_indent _ _ _ _ _ hc]; exact h1, h2⟩
          | NEWLINE =>
            have hc : contLine acc (cs ++ (.NEWLINE, st) :: r) = .ok (acc ++ ['\n'], r) := by
              rw [hcl]; simp [contLine]
            rw [entryLines_nl _ r rfl] at herr
            simp only [] at herr
            obtain ⟨v2, ts4, h1, h2⟩ := ih r (by omega) (acc ++ ['\n'])
              (Lx_after_nl hltail rfl) (Ls_after_nl hlst rfl) herr
            exact ⟨v2, ts4, by rw [contLines_indent _ _ _ _ _ hc]; exact h1, h2⟩
          | WHITESPACE => exact absurd (hh (.WHITESPACE, st) rfl) (by simp)
          | COMMENT => exact absurd (hh (.COMMENT, st) rfl) (by simp)
          | _ => exact absurd herr (entryLines_bad _ r (by simp) (by simp) (by simp))
      · refine ⟨acc, (ki, si) :: r3, ?_, hls⟩
        exact contLines_stop acc _ (headNot_cons _ _ _ (by simpa using hi))

/-- the first value line -/
theorem first_conv {p : Kind} (ts2 : List Tok) (hl : Lx p ts2) (hls : Ls false ts2)
    (hh : HeadNot [.WHITESPACE] ts2) (herr : (entryLines ts2).errs = []) :
    ∃ v1 ts3, firstLine [] ts2 = .ok (v1, ts3) ∧ Ls true ts3 := by
  cases ts2 with
  | nil => exact ⟨[], [], by simp [firstLine], trivial⟩
  | cons t r =>
    obtain ⟨k, s⟩ := t
    rcases Ls_mid_kind hls with hk | hk | hk | hk <;> simp only at hk <;> subst hk
    · exact absurd herr (entryLines_bad _ r (by simp) (by simp) (by simp))
    · exact ⟨[], r, by simp [firstLine], Ls_after_nl hls rfl⟩
    · exact absurd (hh (.WHITESPACE, s) rfl) (by simp)
    · rcases Lx_after_value hl with rfl | ⟨nl, r', rfl, hn⟩
      · exact ⟨s, [], by simp [firstLine], trivial⟩
      · obtain ⟨kn, sn⟩ := nl
        simp only at hn
        subst hn
        refine ⟨s, r', by simp [firstLine], ?_⟩
        exact Ls_after_nl (Ls_after_other hls (by simp) (by simp)) rfl

theorem headNot_dropWhile_ws (ts : List Tok) : HeadNot [.WHITESPACE] (ts.dropWhile fun t => t.1 = .WHITESPACE) := by
  induction ts with
  | nil => exact headNot_nil _
  | cons t ts ih =>
    simp only [List.dropWhile_cons]
    split
    · exact ih
    · rename_i ht
      exact headNot_cons _ _ _ (by simpa using ht)

/-- **one field, converse**: after a KEY token inside a field line, when no WHITESPACE follows the
    KEY and the parser builds the entry without error, the lossy reader reads a value -/
theorem entry_conv {p : Kind} (k : Str) (ts' : List Tok) (hl : Lx p ts') (hls : Ls false ts')
    (hh : HeadNot [.WHITESPACE] ts') (he : (entryBody ((.KEY, k) :: ts')).errs = []) :
    ∃ v rest, fieldValue ts' = .ok (v, rest) ∧ Ls true rest := by
  cases ts' with
  | nil => simp [entryBody, keyPart, colonPart, skipWs] at he
  | cons c ts1 =>
    obtain ⟨kc, sc⟩ := c
    have hws : kc ≠ .WHITESPACE := by simpa using hh (kc, sc) rfl
    by_cases hk : kc = .COLON
    · subst hk
      have hls1 : Ls false ts1 := Ls_after_other hls (by simp) (by simp)
      have hls2 := Ls_dropWhile_ws ts1 hls1
      have hh2 := headNot_dropWhile_ws ts1
      have hl2d : Lx .KEY (ts1.dropWhile fun t => t.1 = .WHITESPACE) :=
        Lx_dropWhile _ _ (Lx_tail hl)
      have hhead : HeadNot [.COMMENT] (ts1.dropWhile fun t => t.1 = .WHITESPACE) := by
        generalize (ts1.dropWhile fun t => t.1 = .WHITESPACE) = ts2 at hls2
        cases ts2 with
        | nil => exact headNot_nil _
        | cons t r =>
          apply headNot_cons
          rcases Ls_mid_kind hls2 with h | h | h | h <;> simp [h]
      obtain ⟨ws, hsk, _⟩ := skipWs_dropWs ts1 hhead
      have hkp : keyPart ((.KEY, k) :: (.COLON, sc) :: ts1)
          = ⟨[tk (.KEY, k)], [], (.COLON, sc) :: ts1⟩ := by
        simp [keyPart, skipWs]
      have hcp : colonPart ((.COLON, sc) :: ts1)
          = ⟨tk (.COLON, sc) :: ws, [], ts1.dropWhile fun t => t.1 = .WHITESPACE⟩ := by
        simp [colonPart, hsk]
      have heb : (entryBody ((.KEY, k) :: (.COLON, sc) :: ts1)).errs
          = (entryLines (ts1.dropWhile fun t => t.1 = .WHITESPACE)).errs := by
        simp only [entryBody, hkp, hcp]
        simp
      rw [heb] at he
      obtain ⟨v1, ts3, h1, hls3⟩ := first_conv _ hl2d hls2 hh2 he
      obtain ⟨ns, hel, _, _, _, hl3, _⟩ := first_agree _ v1 ts3 hl2d h1
      rw [hel] at he
      simp only [] at he
      obtain ⟨v2, ts4, h2, hls4⟩ := cont_conv (ts3.length + 1) ts3 (by omega) (v1 ++ ['\n']) hl3 hls3 he
      refine ⟨trimNl v2, ts4, ?_, hls4⟩
      simp only [fieldValue, if_true, h1, h2]
    · exfalso
      have hkind := Ls_mid_kind hls
      simp only at hkind
      have hc : kc ≠ .COMMENT := by
        rcases hkind with h | h | h | h <;> simp [h]
      have hsk : skipWs ((kc, sc) :: ts1) = ([], (kc, sc) :: ts1) :=
        skipWs_stop _ (headNot_cons _ _ _ (by simp [hws, hc]))
      simp [entryBody, keyPart, hsk, colonPart, hk] at he

theorem Ls_skipComment (ts : List Tok) : ∀ {sol : Bool}, Ls sol ts → Ls true (skipComment ts) := by
  induction ts with
  | nil => intro _ _; trivial
  | cons t ts ih =>
    intro sol h
    obtain ⟨k, s⟩ := t
    simp only [skipComment]
    split
    · rename_i hk; exact Ls_after_nl h hk
    · exact ih (Ls_tail h)

/-- a paragraph cannot start with anything but KEY, COMMENT (or end with NEWLINE) -/
theorem paraLoop_other_bad (t : Tok) (ts : List Tok) (h1 : t.1 ≠ .KEY) (h2 : t.1 ≠ .COMMENT)
    (h3 : t.1 ≠ .NEWLINE) : (paraLoop (t :: ts)).errs ≠ [] := by
  rw [paraLoop_step t _ h3]
  simp [parseEntry, commentLoop_id t ts h2, endsParagraph, h3, entryBody, keyPart, h1]

/-- what the converse simulation needs from a side condition `Q` on the token list: it is inherited
    by suffixes, and it excludes a WHITESPACE token after the KEY of an entry the parser builds
    without error -/
structure KeyCond (Q : List Tok → Prop) : Prop where
  suffix : ∀ pre rest, Q (pre ++ rest) → Q rest
  key : ∀ (k : Str) (ts' : List Tok), Q ((.KEY, k) :: ts') → Ls false ts' →
    (entryBody ((.KEY, k) :: ts')).errs = [] → HeadNot [.WHITESPACE] ts'

theorem KeyCond.of_suffix {Q : List Tok → Prop} (hQ : KeyCond Q) {ts rest : List Tok} (h : Q ts)
    (hs : ∃ pre, ts = pre ++ rest) : Q rest := by
  obtain ⟨pre, rfl⟩ := hs
  exact hQ.suffix _ _ h

theorem KeyCond.tail {Q : List Tok → Prop} (hQ : KeyCond Q) (a : Tok) (ts : List Tok) (h : Q (a :: ts)) :
    Q ts := hQ.suffix [a] ts h

/-- a KEY token, converse direction -/
theorem key_step_conv {Q : List Tok → Prop} (hQ : KeyCond Q) {p : Kind} {sol : Bool} (k : Str)
    (ts' : List Tok) (paras : Doc) (cur : Para)
    (hl : Lx p ((.KEY, k) :: ts')) (hls : Ls sol ((.KEY, k) :: ts'))
    (hkw : Q ((.KEY, k) :: ts')) (he : (paraLoop ((.KEY, k) :: ts')).errs = []) :
    ∃ v rest, loop paras cur ((.KEY, k) :: ts') = loop paras (cur ++ [(k, v)]) rest ∧
      (paraLoop ((.KEY, k) :: ts')).errs = (paraLoop rest).errs ∧
      (paraLoop ((.KEY, k) :: ts')).rest = (paraLoop rest).rest ∧
      Lx .NEWLINE rest ∧ Ls true rest ∧ Q rest ∧ rest.length < ts'.length + 1 := by
  have hstep := paraLoop_step (.KEY, k) ts' (by simp)
  rw [parseEntry_key _ _ rfl] at hstep
  rw [hstep] at he
  simp only [List.append_eq_nil_iff] at he
  obtain ⟨v, rest, hf, hlsr⟩ := entry_conv k ts' (Lx_tail hl) (Ls_after_key hls rfl)
    (hQ.key k ts' hkw (Ls_after_key hls rfl) he.1) he.1
  obtain ⟨cs, h1, h2, h3, h4⟩ := entry_agree k ts' v rest (Lx_tail hl) hf he.1
  have hsuf : ∃ pre, (Kind.KEY, k) :: ts' = pre ++ rest := by
    have := suffix_of_leaves (entryBody_leaves ((.KEY, k) :: ts'))
    rwa [h2] at this
  refine ⟨v, rest, loop_key _ _ _ _ _ _ hf, ?_, ?_, h3, hlsr, hQ.of_suffix hkw hsuf, ?_⟩
  · rw [hstep, h2, he.1]; simp
  · rw [hstep, h2]
  · have := fieldValue_len _ _ _ hf; omega

def ConvRoot (Q : List Tok → Prop) (ts : List Tok) : Prop :=
  ∀ (paras : Doc) (cur : Para), Lx .NEWLINE ts → Ls true ts → Q ts →
    (rootLoop ts).errs = [] → ∃ d, loop paras cur ts = .ok d

def ConvPara (Q : List Tok → Prop) (ts : List Tok) : Prop :=
  ∀ (paras : Doc) (cur : Para), Lx .NEWLINE ts → Ls true ts → Q ts →
    (paraLoop ts).errs = [] → (rootLoop (paraLoop ts).rest).errs = [] → ∃ d, loop paras cur ts = .ok d

theorem conv_aux {Q : List Tok → Prop} (hQ : KeyCond Q) : ∀ n : Nat,
    (∀ ts : List Tok, ts.length < n → ConvRoot Q ts) ∧ (∀ ts : List Tok, ts.length < n → ConvPara Q ts) := by
  intro n
  induction n with
  | zero => exact ⟨fun ts h => by omega, fun ts h => by omega⟩
  | succ n ih =>
    obtain ⟨ihR, ihP⟩ := ih
    constructor
    · intro ts hlen paras cur hl hls hkw herr
      cases ts with
      | nil => exact ⟨_, loop_nil _ _⟩
      | cons t ts' =>
        obtain ⟨k, s⟩ := t
        simp only [List.length_cons] at hlen
        cases k with
        | NEWLINE =>
          rw [loop_newline]
          have hb := rootLoop_blank (.NEWLINE, s) ts' rfl
          have hu : untilNl ((.NEWLINE, s) :: ts') = ([tk (.NEWLINE, s)], ts') := by simp [untilNl]
          rw [hu] at hb
          rw [hb] at herr
          exact ihR ts' (by omega) _ _ (Lx_after_nl hl rfl) (Ls_after_nl hls rfl)
            (hQ.tail _ _ hkw) herr
        | COMMENT =>
          rw [loop_comment]
          have hb := rootLoop_blank (.COMMENT, s) ts' rfl
          have hu : (untilNl ((.COMMENT, s) :: ts')).2 = skipComment ts' := by
            rw [← untilNl_snd ts']; simp [untilNl]
          rw [hu] at hb
          rw [hb] at herr
          have hlen' := skipComment_len ts'
          have hsuf : ∃ pre, (Kind.COMMENT, s) :: ts' = pre ++ skipComment ts' := by
            have := suffix_of_leaves (untilNl_leaves ((.COMMENT, s) :: ts'))
            rwa [hu] at this
          exact ihR (skipComment ts') (by omega) paras cur (Lx_skipComment ts' (Lx_tail hl))
            (Ls_skipComment ts' (Ls_tail hls)) (hQ.of_suffix hkw hsuf) herr
        | WHITESPACE => exact absurd rfl (Lx_linestart_not_ws hl)
        | KEY =>
          have hb := rootLoop_start (.KEY, s) ts' rfl
          rw [hb] at herr
          simp only [List.append_eq_nil_iff] at herr
          obtain ⟨v, rest, hloop, he, hr, hlr, hlsr, hkr, hlen'⟩ :=
            key_step_conv hQ s ts' paras cur hl hls hkw herr.1
          rw [hloop]
          rw [he] at herr
          rw [hr] at herr
          exact ihP rest (by omega) paras _ hlr hlsr hkr herr.1 herr.2
        | _ =>
          exfalso
          rw [rootLoop_start _ ts' rfl] at herr
          simp only [List.append_eq_nil_iff] at herr
          exact paraLoop_other_bad _ ts' (by simp) (by simp) (by simp) herr.1
    · intro ts hlen paras cur hl hls hkw herr1 herr2
      cases ts with
      | nil => exact ⟨_, loop_nil _ _⟩
      | cons t ts' =>
        obtain ⟨k, s⟩ := t
        simp only [List.length_cons] at hlen
        cases k with
        | NEWLINE =>
          rw [loop_newline]
          rw [paraLoop_newline _ _ rfl] at herr2
          simp only [] at herr2
          have hb := rootLoop_blank (.NEWLINE, s) ts' rfl
          have hu : untilNl ((.NEWLINE, s) :: ts') = ([tk (.NEWLINE, s)], ts') := by simp [untilNl]
          rw [hu] at hb
          rw [hb] at herr2
          exact ihR ts' (by omega) _ _ (Lx_after_nl hl rfl) (Ls_after_nl hls rfl)
            (hQ.tail _ _ hkw) herr2
        | COMMENT =>
          rw [loop_comment]
          cases ts' with
          | nil => simp only [skipComment]; exact ⟨_, loop_nil _ _⟩
          | cons nt ts'' =>
            obtain ⟨kn, sn⟩ := nt
            by_cases hn : kn = .NEWLINE
            · subst hn
              simp only [skipComment, if_true]
              rw [paraLoop_comment] at herr1 herr2
              simp only [] at herr1 herr2
              simp only [List.length_cons] at hlen
              exact ihP ts'' (by omega) paras cur (Lx_after_nl (Lx_tail hl) rfl)
                (Ls_after_nl (Ls_tail hls) rfl) (hQ.tail _ _ (hQ.tail _ _ hkw)) herr1 herr2
            · exact absurd herr1 (paraLoop_comment_bad (.COMMENT, s) (kn, sn) ts'' rfl hn)
        | WHITESPACE => exact absurd rfl (Lx_linestart_not_ws hl)
        | KEY =>
          obtain ⟨v, rest, hloop, he, hr, hlr, hlsr, hkr, hlen'⟩ :=
            key_step_conv hQ s ts' paras cur hl hls hkw herr1
          rw [hloop]
          rw [he] at herr1
          rw [hr] at herr2
          exact ihP rest (by omega) paras _ hlr hlsr hkr herr1 herr2
        | _ => exact absurd herr1 (paraLoop_other_bad _ ts' (by simp) (by simp) (by simp))

/-- the side condition "no WHITESPACE token directly after a KEY token" -/
theorem keyCond_keyWs : KeyCond (fun ts => keyWs ts = false) where
  suffix := keyWs_append_right
  key := fun k ts' h _ _ => keyWs_key_head k ts' h

/-- `KEY WHITESPACE COLON`: blanks between a field name and its colon -/
def keyWsColon : List Tok → Bool
  | a :: b :: c :: ts =>
    (a.1 == .KEY && b.1 == .WHITESPACE && c.1 == .COLON) || keyWsColon (b :: c :: ts)
  | _ => false

theorem keyWsColon_tail (a : Tok) (ts : List Tok) (h : keyWsColon (a :: ts) = false) :
    keyWsColon ts = false := by
  match ts with
  | [] => rfl
  | [b] => rfl
  | b :: c :: ts => simp only [keyWsColon, Bool.or_eq_false_iff] at h; exact h.2

theorem keyWsColon_append_right (pre rest : List Tok) (h : keyWsColon (pre ++ rest) = false) :
    keyWsColon rest = false := by
  induction pre with
  | nil => exact h
  | cons a pre ih => exact ih (keyWsColon_tail a _ h)

/-- a `KEY WHITESPACE COLON` triple contains a `KEY WHITESPACE` pair -/
theorem keyWs_of_keyWsColon : ∀ (ts : List Tok), keyWsColon ts = true → keyWs ts = true
  | [], h => by simp [keyWsColon] at h
  | [a], h => by simp [keyWsColon] at h
  | [a, b], h => by simp [keyWsColon] at h
  | a :: b :: c :: ts, h => by
    simp only [keyWsColon, Bool.or_eq_true, Bool.and_eq_true] at h
    simp only [keyWs, Bool.or_eq_true, Bool.and_eq_true]
    rcases h with h | h
    · exact Or.inl ⟨h.1.1, h.1.2⟩
    · exact Or.inr (by simpa [keyWs] using keyWs_of_keyWsColon (b :: c :: ts) h)

/-- the side condition "no `KEY WHITESPACE COLON`" (with the lexer invariant `Lx2`: WHITESPACE
    tokens are maximal): in an entry the parser builds without error, the token after the blanks
    that follow the KEY is the COLON -/
theorem keyCond_keyWsColon : KeyCond (fun ts => keyWsColon ts = false ∧ Lx2 .KEY ts) where
  suffix := fun pre rest h => ⟨keyWsColon_append_right pre rest h.1, Lx2_append_right pre rest h.2⟩
  key := by
    intro k ts' hq hls he
    cases ts' with
    | nil => exact headNot_nil _
    | cons b r =>
      obtain ⟨kb, sb⟩ := b
      by_cases hb : kb = .WHITESPACE
      · exfalso
        subst hb
        have hlsr : Ls false r := Ls_after_other hls (by simp) (by simp)
        cases r with
        | nil => simp [entryBody, keyPart, colonPart, skipWs] at he
        | cons c r2 =>
          obtain ⟨kc, sc⟩ := c
          have hkind := Ls_mid_kind hlsr
          simp only at hkind
          have hnw : kc ≠ .WHITESPACE := Lx2_after_ws (Lx2_tail hq.2) rfl
          have hnc : kc ≠ .COLON := by
            intro e
            subst e
            have := hq.1
            simp [keyWsColon] at this
          have hncm : kc ≠ .COMMENT := by
            rcases hkind with h | h | h | h <;> simp [h]
          have hsk : skipWs ((kc, sc) :: r2) = ([], (kc, sc) :: r2) :=
            skipWs_stop _ (headNot_cons _ _ _ (by simp [hnw, hncm]))
          have hsk2 : skipWs ((Kind.WHITESPACE, sb) :: (kc, sc) :: r2)
              = ([tk (.WHITESPACE, sb)], (kc, sc) :: r2) := by
            rw [skipWs]; simp [hsk]
          simp [entryBody, keyPart, hsk2, colonPart, hnc] at he
      · exact headNot_cons _ _ _ (by simpa using hb)

/-- **token-level converse**: on a token list with the lexer invariants and without a
    `KEY WHITESPACE` pair, what the lossless parser parses without an error the lossy reader accepts -/
theorem conv_tok (ts : List Tok) (hl : Lx .NEWLINE ts) (hls : Ls true ts) (hkw : keyWs ts = false)
    (he : (parseTokens ts).errors = []) : ∃ d, loop [] [] ts = .ok d := by
  apply (conv_aux keyCond_keyWs (ts.length + 1)).1 ts (by omega) [] [] hl hls hkw
  simpa [parseTokens] using he

/-- the same with the weaker side condition "no `KEY WHITESPACE COLON` triple" -/
theorem conv_tok_colon (ts : List Tok) (hl : Lx .NEWLINE ts) (hls : Ls true ts) (hl2 : Lx2 .KEY ts)
    (hkw : keyWsColon ts = false) (he : (parseTokens ts).errors = []) : ∃ d, loop [] [] ts = .ok d := by
  apply (conv_aux keyCond_keyWsColon (ts.length + 1)).1 ts (by omega) [] [] hl hls ⟨hkw, hl2⟩
  simpa [parseTokens] using he

/-- what the lossy reader accepts has no `KEY WHITESPACE` pair -/
theorem noKeyWs_tok (ts : List Tok) (d : Doc) (hl2 : Lx2 .KEY ts) (h : loop [] [] ts = .ok d) :
    keyWs ts = false :=
  loop_noKeyWs (ts.length + 1) ts (by omega) [] [] d hl2 h

end Deb822Verif.Deb
