import Deb822Verif.Lemmas.DebWrapEntry
/-!
  Paragraph-level structure of the wrap-and-sort model: what `paragraphWrap` returns, written as a
  function of the grouping `(comments in front of a field, field)` the model itself computes, and
  the fact that grouping the result again gives back exactly those groups.
-/
namespace Deb822Verif.Deb
open Deb822Verif Node

/-! ### generic list helpers -/

/-- two lists of the same length, related element by element -/
def Pointwise {α β} (R : α → β → Prop) : List α → List β → Prop
  | [], [] => True
  | a :: as, b :: bs => R a b ∧ Pointwise R as bs
  | _, _ => False

theorem Pointwise.length {α β} {R : α → β → Prop} : ∀ {l : List α} {r : List β}, Pointwise R l r → l.length = r.length
  | [], [], _ => rfl
  | _ :: _, _ :: _, h => by simp [Pointwise.length h.2]
  | [], _ :: _, h => h.elim
  | _ :: _, [], h => h.elim

theorem Pointwise.imp {α β} {R S : α → β → Prop} (hi : ∀ a b, R a b → S a b) :
    ∀ {l : List α} {r : List β}, Pointwise R l r → Pointwise S l r
  | [], [], _ => trivial
  | _ :: _, _ :: _, h => ⟨hi _ _ h.1, Pointwise.imp hi h.2⟩
  | [], _ :: _, h => h.elim
  | _ :: _, [], h => h.elim

theorem Pointwise.mem_right {α β} {R : α → β → Prop} :
    ∀ {l : List α} {r : List β}, Pointwise R l r → ∀ b ∈ r, ∃ a ∈ l, R a b
  | [], [], _, b, hb => by simp at hb
  | a :: as, b' :: bs, h, b, hb => by
    simp only [List.mem_cons] at hb
    rcases hb with rfl | hb
    · exact ⟨a, by simp, h.1⟩
    · obtain ⟨a', ha', hr⟩ := Pointwise.mem_right h.2 b hb
      exact ⟨a', by simp [ha'], hr⟩
  | [], _ :: _, h, _, _ => h.elim
  | _ :: _, [], h, _, _ => h.elim

theorem Pointwise.map_eq {α β γ} {R : α → β → Prop} (f : α → γ) (g : β → γ)
    (hi : ∀ a b, R a b → f a = g b) :
    ∀ {l : List α} {r : List β}, Pointwise R l r → l.map f = r.map g
  | [], [], _ => rfl
  | _ :: _, _ :: _, h => by simp [hi _ _ h.1, Pointwise.map_eq f g hi h.2]
  | [], _ :: _, h => h.elim
  | _ :: _, [], h => h.elim

theorem pointwise_self {α} {R : α → α → Prop} : ∀ (l : List α), (∀ a ∈ l, R a a) → Pointwise R l l
  | [], _ => trivial
  | a :: as, h => ⟨h a (by simp), pointwise_self as fun x hx => h x (by simp [hx])⟩

/-- `mapM'` succeeds iff every element maps to `some`; the results are related pointwise -/
theorem mapM'_pointwise {α β} (f : α → Option β) :
    ∀ (l : List α) (r : List β), mapM' f l = some r → Pointwise (fun a b => f a = some b) l r
  | [], r, h => by simp [mapM'] at h; subst h; trivial
  | a :: as, r, h => by
    simp only [mapM'] at h
    split at h
    · rename_i b bs hb hbs
      simp only [Option.some.injEq] at h; subst h
      exact ⟨hb, mapM'_pointwise f as bs hbs⟩
    · simp at h

theorem mapM'_of_pointwise {α β} (f : α → Option β) :
    ∀ (l : List α) (r : List β), Pointwise (fun a b => f a = some b) l r → mapM' f l = some r
  | [], [], _ => rfl
  | a :: as, b :: bs, h => by
    simp only [mapM', h.1, mapM'_of_pointwise f as bs h.2]
  | [], _ :: _, h => h.elim
  | _ :: _, [], h => h.elim

theorem mapM'_id {α} (f : α → Option α) (l : List α) (h : ∀ a ∈ l, f a = some a) : mapM' f l = some l :=
  mapM'_of_pointwise f l l (pointwise_self l h)

/-! ### comment lines -/

/-- node-level form of `withNewlines`: a NEWLINE token after every COMMENT -/
def commentLines : List DNode → List DNode
  | [] => []
  | c :: cs => (if c.kind = .COMMENT then [c, Node.tok .NEWLINE ['\n']] else [c]) ++ commentLines cs

theorem withNewlines_eq (ts : List Tok) : withNewlines ts = commentLines (ts.map tk) := by
  induction ts with
  | nil => rfl
  | cons t ts ih =>
    simp only [withNewlines, List.map_cons, commentLines, ih, Node.kind]
    by_cases h : t.1 = Kind.COMMENT <;> simp [h]

theorem commentLines_append (a b : List DNode) : commentLines (a ++ b) = commentLines a ++ commentLines b := by
  induction a with
  | nil => rfl
  | cons c cs ih => simp [commentLines, ih]

/-- a comment or error *token* (what the pending-trivia lists consist of when the call succeeds) -/
def isTrivTok (c : DNode) : Bool :=
  match c with
  | .tok k _ => k == .ERROR || k == .COMMENT
  | .node _ _ => false

theorem allTokens_some_iff (cs : List DNode) : (∃ ts, allTokens cs = some ts) ↔ ∀ c ∈ cs, c.isNode = false := by
  induction cs with
  | nil => simp [allTokens]
  | cons c cs ih =>
    cases c with
    | tok k t =>
      constructor
      · rintro ⟨ts, h⟩ c hc
        simp only [allTokens, Option.map_eq_some_iff] at h
        obtain ⟨ts', h', _⟩ := h
        simp only [List.mem_cons] at hc
        rcases hc with rfl | hc
        · rfl
        · exact ih.1 ⟨ts', h'⟩ c hc
      · intro h
        obtain ⟨ts, hts⟩ := ih.2 fun c hc => h c (by simp [hc])
        exact ⟨(k, t) :: ts, by simp [allTokens, hts]⟩
    | node k cs' => simp [allTokens, Node.isNode]

theorem trivTok_of (c : DNode) (h1 : isTriviaNode c = true) (h2 : c.isNode = false) : isTrivTok c = true := by
  cases c with
  | tok k t => simpa [isTriviaNode, isTrivTok, Node.kind] using h1
  | node k cs => simp [Node.isNode] at h2

/-! ### the grouping -/

/-- a paragraph as the model groups it: per field the comment / error children in front of it, and
    the ones after the last field -/
def paraGroups (p : DNode) : List (List DNode × DNode) × List DNode :=
  groupBy isEntryNode isTriviaNode p.children []

theorem groupBy_trivia (cs cur : List DNode) (hc : ∀ c ∈ cur, isTriviaNode c = true) :
    (∀ g ∈ (groupBy isEntryNode isTriviaNode cs cur).1, ∀ c ∈ g.1, isTriviaNode c = true)
    ∧ (∀ c ∈ (groupBy isEntryNode isTriviaNode cs cur).2, isTriviaNode c = true) := by
  induction cs generalizing cur with
  | nil => simp [groupBy]; exact hc
  | cons c cs ih =>
    simp only [groupBy]
    split
    · have := ih [] (by simp)
      refine ⟨?_, this.2⟩
      intro g hg
      simp only [List.mem_cons] at hg
      rcases hg with rfl | hg
      · exact hc
      · exact this.1 g hg
    · split
      · rename_i ht
        exact ih _ (by
          intro x hx
          simp only [List.mem_append, List.mem_cons, List.not_mem_nil, or_false] at hx
          rcases hx with hx | rfl
          · exact hc x hx
          · exact ht)
      · exact ih _ hc

theorem groupBy_entries (cs cur : List DNode) :
    ∀ g ∈ (groupBy isEntryNode isTriviaNode cs cur).1, isEntryNode g.2 = true := by
  intro g hg
  have h1 : g.2 ∈ (groupBy isEntryNode isTriviaNode cs cur).1.map (·.2) := List.mem_map_of_mem hg
  rw [groupBy_units] at h1
  exact (List.mem_filter.1 h1).2

/-- what a reformatted paragraph consists of: per group the comment lines and the field, then the
    trailing comment lines -/
def paraOut (ws : List (List DNode × DNode)) (trailing : List DNode) : List DNode :=
  (ws.map fun w => commentLines w.1 ++ [w.2]).flatten ++ commentLines trailing

def sortBy (le : Option (DNode → DNode → Bool)) (ws : List (List DNode × DNode)) :
    List (List DNode × DNode) :=
  match le with
  | some f => ws.mergeSort fun a b => f a.2 b.2
  | none => ws

theorem sortBy_perm (le) (ws : List (List DNode × DNode)) : (sortBy le ws).Perm ws := by
  cases le with
  | none => exact List.Perm.refl _
  | some f => exact List.mergeSort_perm _ _

theorem mem_sortBy (le) (ws : List (List DNode × DNode)) (w) : w ∈ sortBy le ws ↔ w ∈ ws :=
  (sortBy_perm le ws).mem_iff

/-- comment lines of trivia tokens are absorbed into the pending list -/
theorem groupBy_commentLines (pre rest cur : List DNode) (hp : ∀ c ∈ pre, isTrivTok c = true) :
    groupBy isEntryNode isTriviaNode (commentLines pre ++ rest) cur
      = groupBy isEntryNode isTriviaNode rest (cur ++ pre) := by
  induction pre generalizing cur with
  | nil => simp [commentLines]
  | cons c cs ih =>
    have hc := hp c (by simp)
    have hcs : ∀ x ∈ cs, isTrivTok x = true := fun x hx => hp x (by simp [hx])
    cases c with
    | node k cs' => simp [isTrivTok] at hc
    | tok k t =>
      simp only [isTrivTok, Bool.or_eq_true, beq_iff_eq] at hc
      have hnl : ∀ l cur', groupBy isEntryNode isTriviaNode (Node.tok .NEWLINE ['\n'] :: l) cur'
          = groupBy isEntryNode isTriviaNode l cur' := by
        intro l cur'
        simp [groupBy, isEntryNode, isTriviaNode, Node.isNode, Node.kind]
      rcases hc with rfl | rfl
      · simp only [commentLines, Node.kind, show (Kind.ERROR = Kind.COMMENT) = False from by simp,
          ↓reduceIte, List.cons_append, List.nil_append]
        rw [show groupBy isEntryNode isTriviaNode (Node.tok Kind.ERROR t :: (commentLines cs ++ rest)) cur
            = groupBy isEntryNode isTriviaNode (commentLines cs ++ rest) (cur ++ [Node.tok Kind.ERROR t]) from by
          simp [groupBy, isEntryNode, isTriviaNode, Node.isNode, Node.kind]]
        rw [ih _ hcs]; simp
      · simp only [commentLines, Node.kind, ↓reduceIte, List.cons_append, List.nil_append]
        rw [show groupBy isEntryNode isTriviaNode (Node.tok Kind.COMMENT t :: Node.tok .NEWLINE ['\n'] :: (commentLines cs ++ rest)) cur
            = groupBy isEntryNode isTriviaNode (Node.tok .NEWLINE ['\n'] :: (commentLines cs ++ rest)) (cur ++ [Node.tok Kind.COMMENT t]) from by
          simp [groupBy, isEntryNode, isTriviaNode, Node.isNode, Node.kind]]
        rw [hnl, ih _ hcs]; simp

/-- **regrouping**: grouping the output of `paragraphWrap` gives back the groups it was built from -/
theorem groupBy_paraOut (ws : List (List DNode × DNode)) (trailing : List DNode)
    (hpre : ∀ w ∈ ws, ∀ c ∈ w.1, isTrivTok c = true) (hent : ∀ w ∈ ws, isEntryNode w.2 = true)
    (htr : ∀ c ∈ trailing, isTrivTok c = true) :
    groupBy isEntryNode isTriviaNode (paraOut ws trailing) [] = (ws, trailing) := by
  unfold paraOut
  induction ws with
  | nil =>
    have := groupBy_commentLines trailing [] [] htr
    simp only [List.append_nil, List.nil_append] at this
    simp [this, groupBy]
  | cons w ws ih =>
    simp only [List.map_cons, List.flatten_cons, List.append_assoc]
    rw [groupBy_commentLines w.1 _ [] (hpre w (by simp))]
    simp only [List.nil_append, List.cons_append, groupBy, hent w (by simp), ↓reduceIte]
    rw [ih (fun x hx => hpre x (by simp [hx])) (fun x hx => hent x (by simp [hx]))]

/-! ### what `paragraphWrap` returns -/

theorem mapM'_groups (es : List (List DNode × DNode)) (gs : List (List DNode))
    (h : mapM' (fun (pe : List DNode × DNode) =>
        match allTokens pe.1 with
        | some pre => some (withNewlines pre ++ [pe.2])
        | none => none) es = some gs) :
    gs = es.map (fun w => commentLines w.1 ++ [w.2]) ∧ ∀ w ∈ es, ∀ c ∈ w.1, c.isNode = false := by
  induction es generalizing gs with
  | nil => simp [mapM'] at h; subst h; simp
  | cons a es ih =>
    simp only [mapM'] at h
    split at h
    · rename_i b bs hb hbs
      simp only [Option.some.injEq] at h; subst h
      split at hb
      · rename_i pre hpre
        simp only [Option.some.injEq] at hb; subst hb
        have := ih bs hbs
        have ha := allTokens_eq hpre
        refine ⟨?_, ?_⟩
        · simp only [List.map_cons, ← this.1, withNewlines_eq, ← ha]
        · intro w hw
          simp only [List.mem_cons] at hw
          rcases hw with rfl | hw
          · exact (allTokens_some_iff _).1 ⟨pre, hpre⟩
          · exact this.2 w hw
      · simp at hb
    · simp at h

/-- `paragraphWrap` (any formatter): the result is `paraOut` of the input's groups, each field
    reformatted, then (stably) sorted; all pending comments / errors are tokens -/
theorem paragraphWrap_spec (cfg : WrapCfg) (le : Option (DNode → DNode → Bool)) (fmt) (p p' : DNode)
    (h : paragraphWrap cfg le fmt p = some p') :
    ∃ ws : List (List DNode × DNode),
      Pointwise (fun g w => w.1 = g.1 ∧ entryWrap cfg fmt g.2 = some w.2) (paraGroups p).1 ws
      ∧ (∀ w ∈ ws, ∀ c ∈ w.1, isTrivTok c = true) ∧ (∀ w ∈ ws, isEntryNode w.2 = true)
      ∧ (∀ c ∈ (paraGroups p).2, isTrivTok c = true)
      ∧ p' = .node .PARAGRAPH (paraOut (sortBy le ws) (paraGroups p).2) := by
  unfold paragraphWrap at h
  simp only at h
  split at h
  · simp at h
  · rename_i wrapped hw
    split at h
    · rename_i groups trailing hg ht
      simp only [Option.some.injEq] at h
      subst h
      have hpw := mapM'_pointwise _ _ _ hw
      have hpw' : Pointwise (fun g w => w.1 = g.1 ∧ entryWrap cfg fmt g.2 = some w.2) (paraGroups p).1 wrapped := by
        refine Pointwise.imp ?_ hpw
        intro a b hab
        split at hab
        · rename_i e' he
          simp only [Option.some.injEq] at hab; subst hab
          exact ⟨rfl, he⟩
        · simp at hab
      have hgroups := mapM'_groups (sortBy le wrapped) _ hg
      have htriv := groupBy_trivia p.children [] (by simp)
      have hwpre : ∀ w ∈ wrapped, ∀ c ∈ w.1, isTrivTok c = true := by
        intro w hw' c hc
        obtain ⟨g, hg', hr⟩ := Pointwise.mem_right hpw' w hw'
        have h1 := htriv.1 g hg' c (by rw [← hr.1]; exact hc)
        exact trivTok_of c h1 (hgroups.2 w ((mem_sortBy le wrapped w).2 hw') c hc)
      have hwent : ∀ w ∈ wrapped, isEntryNode w.2 = true := by
        intro w hw'
        obtain ⟨g, _, hr⟩ := Pointwise.mem_right hpw' w hw'
        exact entryWrap_isEntry _ _ _ _ hr.2
      have htr : ∀ c ∈ (paraGroups p).2, isTrivTok c = true := by
        intro c hc
        exact trivTok_of c (htriv.2 c hc) ((allTokens_some_iff _).1 ⟨trailing, ht⟩ c hc)
      refine ⟨wrapped, hpw', hwpre, hwent, htr, ?_⟩
      have htrail := allTokens_eq ht
      simp only [paraOut, hgroups.1, withNewlines_eq]
      rw [show (paraGroups p).2 = trailing.map tk from htrail]
    · simp at h

/-- tokens: `allTokens` succeeds and returns them -/
theorem allTokens_of_toks (cs : List DNode) (h : ∀ c ∈ cs, c.isNode = false) :
    ∃ ts, allTokens cs = some ts ∧ cs = ts.map tk := by
  obtain ⟨ts, hts⟩ := (allTokens_some_iff cs).2 h
  exact ⟨ts, hts, allTokens_eq hts⟩

theorem trivTok_isTok (c : DNode) (h : isTrivTok c = true) : c.isNode = false := by
  cases c <;> simp_all [isTrivTok, Node.isNode]

theorem mapM'_groups_intro (es : List (List DNode × DNode))
    (h : ∀ w ∈ es, ∀ c ∈ w.1, c.isNode = false) :
    mapM' (fun (pe : List DNode × DNode) =>
        match allTokens pe.1 with
        | some pre => some (withNewlines pre ++ [pe.2])
        | none => none) es = some (es.map fun w => commentLines w.1 ++ [w.2]) := by
  apply mapM'_of_pointwise
  induction es with
  | nil => trivial
  | cons a es ih =>
    refine ⟨?_, ih fun w hw => h w (by simp [hw])⟩
    obtain ⟨ts, hts, he⟩ := allTokens_of_toks a.1 (h a (by simp))
    simp only [hts, withNewlines_eq, ← he]

/-- converse of `paragraphWrap_spec`: how to compute `paragraphWrap` from the grouping -/
theorem paragraphWrap_intro (cfg : WrapCfg) (le : Option (DNode → DNode → Bool)) (fmt) (p : DNode)
    (ws : List (List DNode × DNode))
    (hpw : Pointwise (fun g w => w.1 = g.1 ∧ entryWrap cfg fmt g.2 = some w.2) (paraGroups p).1 ws)
    (hpre : ∀ w ∈ ws, ∀ c ∈ w.1, isTrivTok c = true)
    (htr : ∀ c ∈ (paraGroups p).2, isTrivTok c = true) :
    paragraphWrap cfg le fmt p = some (.node .PARAGRAPH (paraOut (sortBy le ws) (paraGroups p).2)) := by
  have hpw' : ∀ F : List DNode × DNode → Option (List DNode × DNode),
      (∀ pe, F pe = match entryWrap cfg fmt pe.2 with
        | some e' => some (pe.1, e')
        | none => none) → mapM' F (paraGroups p).1 = some ws := by
    intro F hF
    apply mapM'_of_pointwise
    refine Pointwise.imp ?_ hpw
    intro g w hgw
    rw [hF]
    simp only [hgw.2, ← hgw.1]
  have h2 : ∀ G : List DNode × DNode → Option (List DNode),
      (∀ pe, G pe = match allTokens pe.1 with
        | some pre => some (withNewlines pre ++ [pe.2])
        | none => none) →
      mapM' G (sortBy le ws) = some ((sortBy le ws).map fun w => commentLines w.1 ++ [w.2]) := by
    intro G hG
    rw [show G = _ from funext hG]
    exact mapM'_groups_intro (sortBy le ws) (fun w hw c hc =>
      trivTok_isTok c (hpre w ((mem_sortBy le ws w).1 hw) c hc))
  obtain ⟨tts, htts, hte⟩ := allTokens_of_toks (paraGroups p).2 (fun c hc => trivTok_isTok c (htr c hc))
  unfold paragraphWrap
  simp only
  split
  · rename_i hnone
    have e : none = some ws := hnone.symm.trans (hpw' _ (fun _ => rfl))
    cases e
  · rename_i wrapped hw
    have hw' : some wrapped = some ws := hw.symm.trans (hpw' _ (fun _ => rfl))
    simp only [Option.some.injEq] at hw'
    subst hw'
    have hg := h2 _ (fun _ => rfl)
    split
    · rename_i groups trailing hgr htra
      have e1 : some groups = some _ := hgr.symm.trans hg
      have e2 : some trailing = some tts := htra.symm.trans htts
      simp only [Option.some.injEq] at e1 e2
      subst e1 e2
      simp only [paraOut, withNewlines_eq, ← hte]
    · rename_i hno
      exact (hno _ _ hg htts).elim

def TotalPreorder (f : DNode → DNode → Bool) : Prop :=
  (∀ a b c, f a b = true → f b c = true → f a c = true) ∧ (∀ a b, (f a b || f b a) = true)

/-- the comparator, when there is one, is a total preorder -/
def OrderOK (le : Option (DNode → DNode → Bool)) : Prop := ∀ f, le = some f → TotalPreorder f

/-- sorting a sorted list again changes nothing (stable merge sort, total preorder) -/
theorem sortBy_idem (le) (h : OrderOK le) (ws : List (List DNode × DNode)) :
    sortBy le (sortBy le ws) = sortBy le ws := by
  cases le with
  | none => rfl
  | some f =>
    obtain ⟨htrans, htot⟩ := h f rfl
    simp only [sortBy]
    apply List.mergeSort_of_pairwise
    exact List.pairwise_mergeSort (le := fun a b => f a.2 b.2)
      (fun a b c => htrans a.2 b.2 c.2) (fun a b => htot a.2 b.2) ws

/-! ### comment texts and items -/

/-- texts of the COMMENT tokens among a list of nodes -/
def commentTexts (cs : List DNode) : List Str := (cs.filter (isTokOf .COMMENT)).map tokTextOf

theorem commentTexts_append (a b : List DNode) : commentTexts (a ++ b) = commentTexts a ++ commentTexts b := by
  simp [commentTexts]

theorem commentTexts_cons (c : DNode) (cs : List DNode) :
    commentTexts (c :: cs) = commentTexts [c] ++ commentTexts cs := commentTexts_append [c] cs

theorem commentTexts_commentLines (cs : List DNode) : commentTexts (commentLines cs) = commentTexts cs := by
  induction cs with
  | nil => rfl
  | cons c cs ih =>
    simp only [commentLines]
    rw [commentTexts_append, ih, commentTexts_cons c cs]
    congr 1
    split
    · rw [commentTexts_cons c [_]]
      simp [commentTexts, isTokOf]
    · rfl

theorem commentTexts_entry (e : DNode) (h : e.isNode = true) : commentTexts [e] = [] := by
  cases e with
  | tok k t => simp [Node.isNode] at h
  | node k cs => simp [commentTexts, isTokOf]

/-- the comment texts of each group, in order, then those of the trailing list -/
def groupsComments (ws : List (List DNode × DNode)) (trailing : List DNode) : List Str :=
  (ws.map fun w => commentTexts w.1).flatten ++ commentTexts trailing

theorem commentTexts_paraOut (ws : List (List DNode × DNode)) (trailing : List DNode)
    (hent : ∀ w ∈ ws, w.2.isNode = true) :
    commentTexts (paraOut ws trailing) = groupsComments ws trailing := by
  unfold paraOut groupsComments
  rw [commentTexts_append, commentTexts_commentLines]
  congr 1
  induction ws with
  | nil => rfl
  | cons w ws ih =>
    simp only [List.map_cons, List.flatten_cons, commentTexts_append, commentTexts_commentLines,
      commentTexts_entry w.2 (hent w (by simp)), List.append_nil]
    rw [ih fun x hx => hent x (by simp [hx])]

theorem groupBy_comments (cs cur : List DNode) :
    groupsComments (groupBy isEntryNode isTriviaNode cs cur).1 (groupBy isEntryNode isTriviaNode cs cur).2
      = commentTexts cur ++ commentTexts cs := by
  induction cs generalizing cur with
  | nil => simp [groupBy, groupsComments, commentTexts]
  | cons c cs ih =>
    simp only [groupBy]
    split
    · rename_i hc
      have hn : c.isNode = true := by
        simp only [isEntryNode, Bool.and_eq_true] at hc; exact hc.1
      have := ih []
      simp only [groupsComments] at this ⊢
      simp only [List.map_cons, List.flatten_cons, List.append_assoc, this]
      rw [commentTexts_cons c cs, commentTexts_entry c hn]
      simp [commentTexts]
    · split
      · rw [ih, commentTexts_append, commentTexts_cons c cs, List.append_assoc]
      · rename_i h1 h2
        rw [ih, commentTexts_cons c cs]
        have : commentTexts [c] = [] := by
          cases c with
          | node k cs' => simp [commentTexts, isTokOf]
          | tok k t =>
            have : k ≠ .COMMENT := by
              intro hk; subst hk; simp [isTriviaNode, Node.kind] at h2
            simp [commentTexts, isTokOf, this]
        rw [this, List.nil_append]

theorem groupsComments_perm (ws ws' : List (List DNode × DNode)) (tr : List DNode) (h : ws'.Perm ws) :
    (groupsComments ws' tr).Perm (groupsComments ws tr) :=
  List.Perm.append_right _ (List.Perm.flatten (List.Perm.map _ h))

theorem isEntryNode_isNode (e : DNode) (h : isEntryNode e = true) : e.isNode = true := by
  simp only [isEntryNode, Bool.and_eq_true] at h; exact h.1

/-- sorting never makes the call fail: success does not depend on the comparator -/
theorem paragraphWrap_any_order (cfg : WrapCfg) (le le' : Option (DNode → DNode → Bool)) (fmt) (p p0 : DNode)
    (h : paragraphWrap cfg le fmt p = some p0) : ∃ p', paragraphWrap cfg le' fmt p = some p' := by
  obtain ⟨ws, hpw, hpre, _, htr, _⟩ := paragraphWrap_spec cfg le fmt p p0 h
  exact ⟨_, paragraphWrap_intro cfg le' fmt p ws hpw hpre htr⟩

theorem Pointwise.choose {α β γ} {R : α → β → Prop} {S : α → γ → Prop}
    (hi : ∀ a b, R a b → ∃ c, S a c) :
    ∀ {l : List α} {r : List β}, Pointwise R l r → ∃ cs, Pointwise S l cs
  | [], [], _ => ⟨[], trivial⟩
  | a :: _, b :: _, h => by
    obtain ⟨c, hc⟩ := hi a b h.1
    obtain ⟨cs, hcs⟩ := Pointwise.choose hi h.2
    exact ⟨c :: cs, hc, hcs⟩
  | [], _ :: _, h => h.elim
  | _ :: _, [], h => h.elim

/-! ### comment tokens inside a field are kept -/

def commentToksOf (ts : List Tok) : List Str := (ts.filter fun t => t.1 == .COMMENT).map (·.2)

theorem commentTexts_map_tk (ts : List Tok) : commentTexts (ts.map tk) = commentToksOf ts := by
  induction ts with
  | nil => rfl
  | cons t ts ih =>
    simp only [List.map_cons, commentTexts, commentToksOf, List.filter_cons, isTokOf] at ih ⊢
    by_cases h : t.1 = .COMMENT <;> simp [h, tokTextOf, ih]

theorem commentToksOf_strip (ts : List Tok) : commentToksOf (rbStrip ts) = commentToksOf ts := by
  unfold rbStrip
  induction ts with
  | nil => rfl
  | cons t ts ih =>
    simp only [List.dropWhile_cons]
    split
    · rename_i h
      have hv : (t.1 == Kind.COMMENT) = false := by
        simp only [Bool.or_eq_true, beq_iff_eq] at h
        rcases h with h | h <;> simp [h]
      rw [ih]
      simp [commentToksOf, List.filter_cons, hv]
    · rfl

theorem go_comments (indentation : Nat) (ts : List Tok) (lastNl : Bool) :
    commentTexts (rbGo indentation ts lastNl).1 = commentToksOf ts := by
  induction ts generalizing lastNl with
  | nil => simp [rbGo, commentTexts, commentToksOf]
  | cons t ts ih =>
    simp only [rbGo, commentTexts_append, ih]
    have h1 : commentTexts (if lastNl = true then [Node.tok Kind.INDENT (List.replicate indentation ' ')] else []) = [] := by
      split <;> simp [commentTexts, isTokOf]
    rw [h1]
    simp only [commentTexts, commentToksOf, List.filter_cons, isTokOf, List.nil_append]
    by_cases h : t.1 = .COMMENT <;> simp [h, tokTextOf]

theorem commentTexts_close (b : Bool) : commentTexts (rbClose b) = [] := by
  cases b <;> simp [rbClose, commentTexts, isTokOf]

/-- `rebuild_value` keeps exactly the COMMENT tokens of its input, in order -/
theorem rebuildValue_comments (ts : List Tok) (keyLen ind : Nat) (imm : Bool) (mx : Option Nat) :
    commentTexts (rebuildValue ts keyLen ind imm mx) = commentToksOf ts := by
  unfold rebuildValue
  split
  · rw [commentTexts_append, commentTexts_map_tk]; simp [commentTexts, isTokOf]
  · split
    · rw [List.cons_append, commentTexts_cons, commentTexts_append, go_comments, commentTexts_close,
        commentToksOf_strip]
      simp [commentTexts, isTokOf]
    · rw [List.cons_append, commentTexts_cons, commentTexts_append, go_comments, commentTexts_close,
        commentToksOf_strip]
      simp [commentTexts, isTokOf]

theorem commentTexts_content (cs : List DNode) : commentTexts (ewContent cs) = commentTexts cs := by
  unfold commentTexts ewContent
  rw [filter_dropTrailing]
  · rw [List.filter_filter]
    congr 1
    apply List.filter_congr
    intro c _
    cases c with
    | tok k t => by_cases h : k = .COMMENT <;> simp [isTokOf, contentKinds, Node.kind, h]
    | node k cs' => simp [isTokOf]
  · intro c hc
    cases c with
    | tok k t =>
      simp only [Node.kind, Bool.or_eq_true, beq_iff_eq] at hc
      rcases hc with hc | hc <;> simp [isTokOf, hc]
    | node k cs' => simp [isTokOf]

theorem heads_comments (cs : List DNode) : commentTexts (cs.filterMap headOf) = [] := by
  induction cs with
  | nil => rfl
  | cons c cs ih =>
    simp only [List.filterMap_cons]
    cases hh : headOf c with
    | none => simpa using ih
    | some x =>
      have : isTokOf .COMMENT x = false := by
        unfold headOf at hh
        split at hh <;> simp at hh <;> (subst hh; simp [isTokOf])
      simp only [commentTexts, List.filter_cons, this] at ih ⊢
      simpa using ih

/-- the COMMENT tokens among the children of a field (comment lines inside its value) are kept,
    in order, by `entryWrap` without a formatter -/
theorem entryWrap_comments (cfg : WrapCfg) (e e' : DNode) (h : entryWrap cfg none e = some e') :
    commentTexts e'.children = commentTexts e.children := by
  unfold entryWrap at h
  split at h
  · simp at h
  · split at h
    · simp at h
    · split at h
      · simp at h
      · rename_i ts hts
        simp only [Option.some.injEq] at h
        subst h
        simp only [ewTokens] at hts
        have hcontent := allTokens_eq hts
        show commentTexts (e.children.filterMap headOf ++ rebuildValue ts _ _ _ _) = _
        rw [commentTexts_append, heads_comments, rebuildValue_comments, List.nil_append,
          ← commentTexts_map_tk, ← hcontent, commentTexts_content]

end Deb822Verif.Deb
