import Deb822Verif.Lemmas.DebReaderCanon
import Deb822Verif.Lemmas.DebLossyMore
/-!
  The LOSSY deb822 reader (`src/lossy.rs`) on ARBITRARY text, and its printer on everything the reader
  can return:

  * `LossyText v`: the `split('\n')` pieces of `v` contain no line terminator, none starts with
    space/tab, and none but the first starts with `#`.  Lines MAY be empty (a whitespace-only or
    comment continuation line leaves an empty line; `Name:` + continuation lines leaves an empty FIRST
    line): this is wider than `CanonLines` (the C08 domain).
  * RANGE (`read_range`): for every text, `Lossy.read s = ok D` implies every paragraph of `D` has a
    field, every name is a valid key and every value is `LossyText` — from the lexer invariants `Ly`
    (Lemmas/DebReaderCanon) and `Lx` (Lemmas/DebLexInv) through `firstLine`, `contLine`, `contLines`,
    `fieldValue`, `loop`.
  * ROUND TRIP beyond `CanonD` (`read_printDoc_lossy`): for every such document,
    `Lossy.read (printDoc D) = ok D` (` \n` lexes as INDENT NEWLINE, which the reader turns back into an
    empty line; the one trailing LF is trimmed, src/lossy.rs:336-341).
-/
set_option linter.unusedSimpArgs false
set_option linter.unusedVariables false
namespace Deb822Verif.Deb
open Deb822Verif Node Spec Lossy

/-! ## the range, as a predicate on values -/

/-- a line of a lossy value: no line terminator, does not start with space / tab; may be empty -/
def LineOK (l : Str) : Prop := NoNl l ∧ ∀ c, l.head? = some c → isIndent c = false

structure LossyLines (ls : List Str) : Prop where
  ne : ls ≠ []
  lines : ∀ l ∈ ls, LineOK l
  noHash : ∀ l ∈ ls.tail, NoHash l

def LossyText (v : Str) : Prop := LossyLines (Text.splitOn '\n' v)
def LossyP (p : Para) : Prop := ∀ f ∈ p, ValidKey f.1 ∧ LossyText f.2
def LossyD (D : Doc) : Prop := ∀ p ∈ D, p ≠ [] ∧ LossyP p

theorem lineOK_nil : LineOK [] := ⟨fun c hc => by simp at hc, fun c hc => by simp at hc⟩
theorem noHash_nil : NoHash [] := by simp [NoHash]

theorem lineOK_of_lineP {x : Str} (h : LineP x) : LineOK x := ⟨h.2.1, h.2.2⟩

theorem lossyText_join (L : List Str) (hne : L ≠ []) (hl : ∀ l ∈ L, LineOK l) (hh : ∀ l ∈ L.tail, NoHash l) :
    LossyText (Text.join ['\n'] L) := by
  unfold LossyText
  rw [Props.C06.splitOn_join L hne (fun l h => Props.C06.noNl_noLF (hl l h).1)]
  exact ⟨hne, hl, hh⟩

/-! ## lines with their terminators -/

theorem unlines_join (l : Str) (ls : List Str) :
    Text.unlinesNL (l :: ls) = Text.join ['\n'] (l :: ls) ++ ['\n'] := by
  induction ls generalizing l with
  | nil => simp [Text.unlinesNL, Text.join]
  | cons m ms ih =>
    have := ih m
    simp only [Text.unlinesNL, List.map_cons, List.flatten_cons, Text.join, List.append_assoc] at this ⊢
    rw [this]

theorem unlines_snoc (L : List Str) (w : Str) :
    Text.unlinesNL (L ++ [w]) = Text.unlinesNL L ++ w ++ ['\n'] := by
  simp [Text.unlinesNL]

/-! ## the reader on an arbitrary token list with the lexer invariants -/

theorem Ly_dropWhile_ws (b : Bool) (ts : List Tok) (h : Ly b ts) :
    Ly b (ts.dropWhile fun t => decide (t.1 = .WHITESPACE)) := by
  induction ts with
  | nil => trivial
  | cons t ts ih =>
    simp only [List.dropWhile_cons]
    split
    · rename_i hk
      have hk' : t.1 = .WHITESPACE := by simpa using hk
      have h2 := h.2
      rw [hk', nextFlag_other _ _ (by decide) (by decide) (by decide)] at h2
      exact ih h2
    · exact h

/-- `firstLine`: the value is the initial one or the text of a VALUE token; afterwards we are at the
    start of a line -/
theorem firstLine_spec (ts : List Tok) : ∀ (val : Str) (b : Bool) (p : Kind) (v : Str) (r : List Tok),
    Ly b ts → Lx p ts → firstLine val ts = .ok (v, r) → (v = val ∨ LineP v) ∧ Ly false r ∧ Lx .KEY r := by
  induction ts with
  | nil =>
    intro val b p v r _ _ h
    simp [firstLine] at h
    obtain ⟨rfl, rfl⟩ := h
    exact ⟨Or.inl rfl, trivial, trivial⟩
  | cons t ts ih =>
    intro val b p v r hl hx h
    obtain ⟨k, x⟩ := t
    simp only [firstLine] at h
    split at h
    · rename_i hk
      subst hk
      have hl2 := hl.2
      simp only [nextFlag_other b .VALUE (by decide) (by decide) (by decide)] at hl2
      obtain ⟨h1, h2, h3⟩ := ih x b .VALUE v r hl2 (Lx_tail hx) h
      refine ⟨Or.inr ?_, h2, h3⟩
      rcases h1 with h1 | h1
      · rw [h1]; exact (hl.1.1 rfl).1
      · exact h1
    · split at h
      · rename_i _ hk
        subst hk
        simp only [Except.ok.injEq, Prod.mk.injEq] at h
        obtain ⟨rfl, rfl⟩ := h
        refine ⟨Or.inl rfl, ?_, Lx_weaken (Lx_tail hx)⟩
        have := hl.2
        simpa [nextFlag] using this
      · simp at h

/-- one continuation line: the accumulator grows by one line `w` (empty, or the text of a VALUE token
    that does not start with `#`), terminated unless the tokens end or a KEY follows -/
theorem contLine_spec (ts : List Tok) : ∀ (acc : Str) (p : Kind) (acc' : Str) (r : List Tok),
    Ly false ts → Lx p ts → contLine acc ts = .ok (acc', r) →
    ∃ w, LineOK w ∧ NoHash w ∧ Ly false r ∧ Lx .KEY r
      ∧ (acc' = acc ++ w ++ ['\n'] ∨ (acc' = acc ++ w ∧ HeadNot [.INDENT] r)) := by
  induction ts with
  | nil =>
    intro acc p acc' r _ _ h
    simp [contLine] at h
    obtain ⟨rfl, rfl⟩ := h
    exact ⟨[], lineOK_nil, noHash_nil, trivial, trivial, Or.inr ⟨by simp, headNot_nil _⟩⟩
  | cons t ts ih =>
    intro acc p acc' r hl hx h
    obtain ⟨k, x⟩ := t
    simp only [contLine] at h
    split at h
    · -- VALUE: it ends its line
      rename_i hk
      subst hk
      have hv := hl.1.1 rfl
      have hl2 := hl.2
      simp only [nextFlag_other false .VALUE (by decide) (by decide) (by decide)] at hl2
      rcases Lx_after_value hx with rfl | ⟨n, r', rfl, hn⟩
      · simp [contLine] at h
        obtain ⟨rfl, rfl⟩ := h
        exact ⟨x, lineOK_of_lineP hv.1, hv.2 rfl, trivial, trivial, Or.inr ⟨rfl, headNot_nil _⟩⟩
      · obtain ⟨nk, nx⟩ := n
        simp only at hn
        subst hn
        simp [contLine] at h
        obtain ⟨rfl, rfl⟩ := h
        refine ⟨x, lineOK_of_lineP hv.1, hv.2 rfl, ?_, Lx_weaken (Lx_tail (Lx_tail hx)), Or.inl (by simp)⟩
        have := hl2.2
        simpa [nextFlag] using this
    · split at h
      · -- COMMENT
        rename_i _ hk
        subst hk
        have hl2 := hl.2
        have : nextFlag false Kind.COMMENT = false := by simp [nextFlag]
        rw [this] at hl2
        exact ih acc .COMMENT acc' r hl2 (Lx_tail hx) h
      · split at h
        · -- NEWLINE
          rename_i _ _ hk
          subst hk
          simp only [Except.ok.injEq, Prod.mk.injEq] at h
          obtain ⟨rfl, rfl⟩ := h
          refine ⟨[], lineOK_nil, noHash_nil, ?_, Lx_weaken (Lx_tail hx), Or.inl (by simp)⟩
          have := hl.2
          simpa [nextFlag] using this
        · split at h
          · -- KEY
            rename_i _ _ _ hk
            subst hk
            simp only [Except.ok.injEq, Prod.mk.injEq] at h
            obtain ⟨rfl, rfl⟩ := h
            exact ⟨[], lineOK_nil, noHash_nil, hl, Lx_weaken hx, Or.inr ⟨by simp, headNot_cons _ _ _ (by simp)⟩⟩
          · simp at h

/-- what `contLines` leaves in the accumulator: complete lines `L` and possibly an unterminated last one -/
def FinalV (V : Str) : Prop :=
  ∃ L w, L ≠ [] ∧ V = Text.unlinesNL L ++ w ∧ (∀ l ∈ L, LineOK l) ∧ (∀ l ∈ L.tail, NoHash l)
    ∧ LineOK w ∧ NoHash w

theorem contLines_spec (acc : Str) (ts : List Tok) : ∀ (L : List Str) (p : Kind) (V : Str) (r : List Tok),
    L ≠ [] → (∀ l ∈ L, LineOK l) → (∀ l ∈ L.tail, NoHash l) → acc = Text.unlinesNL L →
    Ly false ts → Lx p ts → contLines acc ts = .ok (V, r) → FinalV V ∧ Ly false r ∧ Lx .KEY r := by
  fun_induction contLines acc ts
  case case1 acc =>
    intro L p V r hne h1 h2 ha _ _ h
    simp only [Except.ok.injEq, Prod.mk.injEq] at h
    obtain ⟨rfl, rfl⟩ := h
    exact ⟨⟨L, [], hne, by simp [ha], h1, h2, lineOK_nil, noHash_nil⟩, trivial, trivial⟩
  case case2 acc t ts' e he =>
    intro L p V r _ _ _ _ _ _ h
    simp at h
  case case3 acc t ts' acc' rest he ih =>
    intro L p V r hne h1 h2 ha hl hx h
    have hl2 := hl.2
    simp only [nextFlag_other false .INDENT (by decide) (by decide) (by decide)] at hl2
    obtain ⟨w, hw1, hw2, hl3, hx3, hcase⟩ := contLine_spec ts' acc .INDENT acc' rest hl2 (Lx_tail hx) he
    rcases hcase with hacc | ⟨hacc, hstop⟩
    · refine ih (L ++ [w]) .KEY V r (by simp) ?_ ?_ ?_ hl3 hx3 h
      · intro l hm
        simp only [List.mem_append, List.mem_singleton] at hm
        rcases hm with hm | rfl
        · exact h1 l hm
        · exact hw1
      · intro l hm
        have : (L ++ [w]).tail = L.tail ++ [w] := by
          cases L with
          | nil => exact absurd rfl hne
          | cons a r' => rfl
        rw [this] at hm
        simp only [List.mem_append, List.mem_singleton] at hm
        rcases hm with hm | rfl
        · exact h2 l hm
        · exact hw2
      · rw [hacc, ha, unlines_snoc]
    · rw [contLines_stop acc' rest hstop] at h
      simp only [Except.ok.injEq, Prod.mk.injEq] at h
      obtain ⟨rfl, rfl⟩ := h
      exact ⟨⟨L, w, hne, by rw [hacc, ha], h1, h2, hw1, hw2⟩, hl3, hx3⟩
  case case4 acc k t ts' hk =>
    intro L p V r hne h1 h2 ha hl hx h
    simp only [Except.ok.injEq, Prod.mk.injEq] at h
    obtain ⟨rfl, rfl⟩ := h
    exact ⟨⟨L, [], hne, by simp [ha], h1, h2, lineOK_nil, noHash_nil⟩, hl, Lx_weaken hx⟩

/-- the one trailing line terminator is trimmed: what remains is a value of the range -/
theorem lossyText_trim (V : Str) (h : FinalV V) : LossyText (trimNl V) := by
  obtain ⟨L, w, hne, rfl, h1, h2, hw1, hw2⟩ := h
  cases L with
  | nil => exact absurd rfl hne
  | cons a L' =>
    rw [unlines_join]
    by_cases hw : w = []
    · subst hw
      rw [List.append_nil, trimNl_snoc]
      exact lossyText_join _ (by simp) h1 h2
    · have hj : Text.join ['\n'] (a :: L') ++ ['\n'] ++ w = Text.join ['\n'] ((a :: L') ++ [w]) := by
        rw [join_snoc _ _ (by simp)]; simp
      rw [hj]
      rw [trimNl_keep]
      · apply lossyText_join _ (by simp)
        · intro l hm
          simp only [List.mem_append, List.mem_singleton] at hm
          rcases hm with hm | rfl
          · exact h1 l hm
          · exact hw1
        · intro l hm
          have : ((a :: L') ++ [w]).tail = L' ++ [w] := rfl
          rw [this] at hm
          simp only [List.mem_append, List.mem_singleton] at hm
          rcases hm with hm | rfl
          · exact h2 l (by simpa using hm)
          · exact hw2
      · intro c hc
        rw [join_getLast _ _ hw] at hc
        exact hw1.1 c (List.mem_of_getLast? hc)

theorem fieldValue_spec (ts : List Tok) (b : Bool) (p : Kind) (v : Str) (r : List Tok)
    (hl : Ly b ts) (hx : Lx p ts) (h : fieldValue ts = .ok (v, r)) :
    LossyText v ∧ Ly false r ∧ Lx .KEY r := by
  cases ts with
  | nil => simp [fieldValue] at h
  | cons t ts1 =>
    obtain ⟨k, x⟩ := t
    simp only [fieldValue] at h
    split at h
    · rename_i hk
      subst hk
      have hl1 : Ly b ts1 := by
        have := hl.2
        simpa [nextFlag] using this
      have hl2 := Ly_dropWhile_ws b ts1 hl1
      have hx2 : Lx .KEY (ts1.dropWhile fun t => decide (t.1 = .WHITESPACE)) := Lx_dropWhile _ _ (Lx_tail hx)
      split at h
      · simp at h
      · rename_i v0 ts3 hf
        obtain ⟨f1, f2, f3⟩ := firstLine_spec _ [] b .KEY v0 ts3 hl2 hx2 hf
        have hv0 : LineOK v0 := by
          rcases f1 with rfl | f1
          · exact lineOK_nil
          · exact lineOK_of_lineP f1
        split at h
        · simp at h
        · rename_i V ts4 hc
          simp only [Except.ok.injEq, Prod.mk.injEq] at h
          obtain ⟨rfl, rfl⟩ := h
          obtain ⟨c1, c2, c3⟩ := contLines_spec (v0 ++ ['\n']) ts3 [v0] .KEY V ts4 (by simp)
            (by intro l hm; simp at hm; subst hm; exact hv0) (by simp) (by simp [Text.unlinesNL]) f2 f3 hc
          exact ⟨lossyText_trim V c1, c2, c3⟩
    · simp at h

theorem skipComment_inv (ts : List Tok) : ∀ (b : Bool) (p : Kind), Ly b ts → Lx p ts →
    (∃ b', Ly b' (skipComment ts)) ∧ Lx .KEY (skipComment ts) := by
  induction ts with
  | nil => intro b p _ _; exact ⟨⟨false, trivial⟩, trivial⟩
  | cons t ts ih =>
    intro b p hl hx
    obtain ⟨k, x⟩ := t
    simp only [skipComment]
    split
    · exact ⟨⟨_, hl.2⟩, Lx_weaken (Lx_tail hx)⟩
    · exact ih _ _ hl.2 (Lx_tail hx)

theorem lossyP_snoc (cur : Para) (k v : Str) (hc : LossyP cur) (hk : ValidKey k) (hv : LossyText v) :
    LossyP (cur ++ [(k, v)]) := by
  intro f hf
  simp only [List.mem_append, List.mem_singleton] at hf
  rcases hf with hf | rfl
  · exact hc f hf
  · exact ⟨hk, hv⟩

theorem lossyD_flush (paras : Doc) (cur : Para) (hp : LossyD paras) (hc : LossyP cur) : LossyD (flush paras cur) := by
  unfold flush
  split
  · exact hp
  · rename_i hne
    intro p hm
    simp only [List.mem_append, List.mem_singleton] at hm
    rcases hm with hm | rfl
    · exact hp p hm
    · exact ⟨hne, hc⟩

theorem loop_spec (paras : Doc) (cur : Para) (ts : List Tok) : ∀ (D : Doc),
    LossyD paras → LossyP cur → (∃ b, Ly b ts) → (∃ p, Lx p ts) → loop paras cur ts = .ok D → LossyD D := by
  fun_induction loop paras cur ts
  case case1 paras cur =>
    intro D hp hc _ _ h
    simp only [Except.ok.injEq] at h
    subst h
    exact lossyD_flush paras cur hp hc
  all_goals first
    | (intro D _ _ _ _ h; simp at h; done)
    | skip
  case case9 paras cur t ts' ih =>
    intro D hp hc ⟨b, hl⟩ ⟨p, hx⟩ h
    exact ih D hp hc ⟨_, hl.2⟩ ⟨_, Lx_tail hx⟩ h
  case case11 paras cur t ts' v rest hf ih =>
    intro D hp hc ⟨b, hl⟩ ⟨p, hx⟩ h
    have hk : ValidKey t := hl.1.2 rfl
    have hl1 : Ly true ts' := by have := hl.2; simpa [nextFlag] using this
    obtain ⟨f1, f2, f3⟩ := fieldValue_spec ts' true .KEY v rest hl1 (Lx_tail hx) hf
    exact ih D hp (lossyP_snoc cur t v hc hk f1) ⟨_, f2⟩ ⟨_, f3⟩ h
  case case13 paras cur t ts' ih =>
    intro D hp hc ⟨b, hl⟩ ⟨p, hx⟩ h
    obtain ⟨s1, s2⟩ := skipComment_inv ts' _ _ hl.2 (Lx_tail hx)
    exact ih D hp hc s1 ⟨_, s2⟩ h
  case case14 paras cur t ts' ih =>
    intro D hp hc ⟨b, hl⟩ ⟨p, hx⟩ h
    exact ih D (lossyD_flush paras cur hp hc) (by intro f hf; simp at hf) ⟨_, hl.2⟩ ⟨_, Lx_tail hx⟩ h

/-- **range of the lossy reader**: whatever text it accepts, every paragraph it returns has a field,
    every name is a valid key and every value is `LossyText` -/
theorem read_range (s : Str) (D : Doc) (h : Lossy.read s = .ok D) : LossyD D :=
  loop_spec [] [] (lex s) D (by intro p hp; simp at hp) (by intro f hf; simp at hf)
    ⟨false, lex_ly s⟩ ⟨.NEWLINE, lex_lx s⟩ h

/-! ## the printed text of a document of the range, lexed -/

def lineToks (l : Str) : List Tok := optTok .VALUE l ++ [(.NEWLINE, ['\n'])]
def contToksE (l : Str) : List Tok := (.INDENT, [' ']) :: lineToks l
def valueToks : List Str → List Tok
  | [] => []
  | l0 :: ls => (.WHITESPACE, [' ']) :: (lineToks l0 ++ (ls.map contToksE).flatten)
def fieldToks (f : Field) : List Tok := (.KEY, f.1) :: (.COLON, [':']) :: valueToks (Text.splitOn '\n' f.2)
def paraToks (p : Para) : List Tok := (p.map fieldToks).flatten
def docToks : Doc → List Tok
  | [] => []
  | [p] => paraToks p
  | p :: q :: ps => paraToks p ++ (.NEWLINE, ['\n']) :: docToks (q :: ps)

/-- ` ` + line + LF at the start of a line: INDENT, the line as a VALUE unless it is empty, NEWLINE -/
theorem lex_contLineE (l tail : Str) (hl : LineOK l) (hh : NoHash l) :
    lexAux initState (' ' :: l ++ '\n' :: tail) = contToksE l ++ lexAux initState tail := by
  have hft : HeadFails isIndent (l ++ '\n' :: tail) := by
    intro x hx
    cases l with
    | nil => simp at hx; subst hx; decide
    | cons y ys => simp at hx; subst hx; exact hl.2 _ (by simp)
  have := step_indent ' ' [] (l ++ '\n' :: tail) initState rfl (by decide) (by simp) hft
  rw [List.cons_append, lexAux_cons]
  simp only [List.nil_append] at this
  rw [this]
  simp only [contToksE, lineToks, List.cons_append, List.cons.injEq, true_and]
  cases l with
  | nil =>
    simp only [optTok, ↓reduceIte, List.nil_append]
    rw [lexAux_cons, step_lf]
    rfl
  | cons y ys =>
    have hy : isNewline y = false := hl.1 y (by simp)
    have hyi : isIndent y = false := hl.2 y (by simp)
    have hys : NoNl ys := fun z hz => hl.1 z (by simp [hz])
    have hyh : y ≠ '#' := by intro e; apply hh; simp [e]
    rw [List.cons_append, lexAux_cons,
      step_value y ys ('\n' :: tail) _ hy hyi hys (lineEnd_lf tail) (Or.inr ⟨by simp [initState], hyh⟩)]
    simp only [optTok, List.cons_ne_nil, ↓reduceIte, List.cons_append, List.nil_append, List.cons.injEq, true_and]
    rw [lexAux_cons, step_lf]

theorem lex_contsE (ls : List Str) (tail : Str) (h : ∀ l ∈ ls, LineOK l ∧ NoHash l) :
    lexAux initState ((ls.map fun l => ' ' :: (l ++ ['\n'])).flatten ++ tail)
      = (ls.map contToksE).flatten ++ lexAux initState tail := by
  induction ls with
  | nil => simp
  | cons l ls ih =>
    have hl := h l (by simp)
    have := lex_contLineE l ((ls.map fun l => ' ' :: (l ++ ['\n'])).flatten ++ tail) hl.1 hl.2
    simp only [List.map_cons, List.flatten_cons, List.append_assoc, List.cons_append, List.nil_append] at this ⊢
    rw [this, ih (fun x hx => h x (by simp [hx]))]

theorem lex_printField (f : Field) (tail : Str) (hk : ValidKey f.1) (hv : LossyText f.2) :
    lexAux initState (printField f ++ tail) = fieldToks f ++ lexAux initState tail := by
  unfold printField fieldToks
  unfold LossyText at hv
  cases hs : Text.splitOn '\n' f.2 with
  | nil => exact absurd hs (Props.C08.splitOn_ne_nil _ _)
  | cons l0 ls =>
    rw [hs] at hv
    have h0 := hv.lines l0 (by simp)
    have hfl := lex_fieldLine f.1 [' '] l0
      ('\n' :: ((ls.map fun l => ' ' :: (l ++ ['\n'])).flatten ++ tail)) hk
      (by intro c hc; simp at hc; subst hc; decide) ⟨h0.1, h0.2⟩ (lineEnd_lf _)
    have hcs := lex_contsE ls tail (fun l hl => ⟨hv.lines l (by simp [hl]), hv.noHash l (by simpa using hl)⟩)
    have hnl : lexAux stLine ('\n' :: ((ls.map fun l => ' ' :: (l ++ ['\n'])).flatten ++ tail))
        = (.NEWLINE, ['\n']) :: lexAux initState ((ls.map fun l => ' ' :: (l ++ ['\n'])).flatten ++ tail) := by
      rw [lexAux_cons, step_lf]
    rw [hnl, hcs] at hfl
    simp only [List.map_cons, List.flatten_cons, valueToks, List.cons_append, List.append_assoc,
      List.nil_append, lineToks] at hfl ⊢
    rw [hfl]
    simp [optTok]

theorem lex_printPara (p : Para) (tail : Str) (h : LossyP p) :
    lexAux initState (printPara p ++ tail) = paraToks p ++ lexAux initState tail := by
  induction p with
  | nil => simp [printPara, paraToks]
  | cons f fs ih =>
    have hf := h f (by simp)
    simp only [printPara, paraToks, List.map_cons, List.flatten_cons, List.append_assoc] at ih ⊢
    rw [lex_printField f _ hf.1 hf.2, ih (fun g hg => h g (by simp [hg]))]

theorem lex_printDoc (D : Doc) (h : ∀ p ∈ D, LossyP p) : lex (printDoc D) = docToks D := by
  unfold lex
  induction D with
  | nil => simp [printDoc, docToks, lexAux_nil]
  | cons p ps ih =>
    have hp := h p (by simp)
    cases ps with
    | nil =>
      have := lex_printPara p [] hp
      simpa [printDoc, docToks, lexAux_nil] using this
    | cons q qs =>
      have ihh := ih (fun x hx => h x (by simp [hx]))
      simp only [printDoc, docToks]
      rw [lex_printPara p _ hp, lexAux_cons, step_lf]
      simp only [List.cons.injEq, true_and]
      rw [← ihh]

/-! ## the reader on those tokens -/

theorem contLine_lineE (acc l : Str) (rest : List Tok) :
    contLine acc (lineToks l ++ rest) = .ok (acc ++ l ++ ['\n'], rest) := by
  unfold lineToks optTok
  split
  · rename_i hl; subst hl; simp [contLine]
  · simp [contLine]

theorem contLines_contsE (ls : List Str) : ∀ (acc : Str) (rest : List Tok), HeadNot [.INDENT] rest →
    contLines acc ((ls.map contToksE).flatten ++ rest) = .ok (acc ++ Text.unlinesNL ls, rest) := by
  induction ls with
  | nil => intro acc rest hr; simpa [Text.unlinesNL] using contLines_stop acc rest hr
  | cons l ls ih =>
    intro acc rest hr
    have hc := contLine_lineE acc l ((ls.map contToksE).flatten ++ rest)
    simp only [List.map_cons, List.flatten_cons, contToksE, List.cons_append, List.append_assoc]
    rw [contLines_indent _ _ _ _ _ hc, ih _ _ hr]
    simp [Text.unlinesNL]

theorem fieldValue_valueToks (l0 : Str) (ls : List Str) (rest : List Tok) (hr : HeadNot [.INDENT] rest) :
    fieldValue ((.COLON, [':']) :: (valueToks (l0 :: ls) ++ rest)) = .ok (Text.join ['\n'] (l0 :: ls), rest) := by
  have hd : ((Kind.WHITESPACE, [' ']) :: (lineToks l0 ++ (ls.map contToksE).flatten ++ rest)).dropWhile
      (fun t => decide (t.1 = .WHITESPACE)) = lineToks l0 ++ (ls.map contToksE).flatten ++ rest := by
    simp only [List.dropWhile_cons, decide_true, ↓reduceIte]
    unfold lineToks optTok
    split <;> simp [List.dropWhile]
  have hf : firstLine [] (lineToks l0 ++ (ls.map contToksE).flatten ++ rest)
      = .ok (l0, (ls.map contToksE).flatten ++ rest) := by
    have := firstLine_entry l0 true ((ls.map contToksE).flatten ++ rest) (Or.inl rfl)
    simpa [lineToks, nlTok, List.append_assoc] using this
  have hc := contLines_contsE ls (l0 ++ ['\n']) rest hr
  have ht : trimNl (l0 ++ ['\n'] ++ Text.unlinesNL ls) = Text.join ['\n'] (l0 :: ls) := by
    have : l0 ++ ['\n'] ++ Text.unlinesNL ls = Text.unlinesNL (l0 :: ls) := by simp [Text.unlinesNL]
    rw [this, unlines_join, trimNl_snoc]
  simp only [valueToks, List.cons_append, List.append_assoc] at hd hf ⊢
  simp only [fieldValue, ↓reduceIte, hd, hf, hc, ht]

theorem loop_fieldToks (paras : Doc) (cur : Para) (f : Field) (rest : List Tok) (hr : HeadNot [.INDENT] rest) :
    loop paras cur (fieldToks f ++ rest) = loop paras (cur ++ [f]) rest := by
  unfold fieldToks
  cases hs : Text.splitOn '\n' f.2 with
  | nil => exact absurd hs (Props.C08.splitOn_ne_nil _ _)
  | cons l0 ls =>
    have hv := fieldValue_valueToks l0 ls rest hr
    have hj : Text.join ['\n'] (l0 :: ls) = f.2 := by rw [← hs]; exact Props.C08.join_splitOn f.2
    rw [hj] at hv
    simp only [List.cons_append]
    rw [loop_key paras cur f.1 _ f.2 rest hv]

theorem headNot_fieldToks (f : Field) (rest : List Tok) : HeadNot [.INDENT] (fieldToks f ++ rest) := by
  unfold fieldToks
  exact headNot_cons _ _ _ (by simp)

theorem loop_paraToks (p : Para) : ∀ (paras : Doc) (cur : Para) (rest : List Tok), HeadNot [.INDENT] rest →
    loop paras cur (paraToks p ++ rest) = loop paras (cur ++ p) rest := by
  induction p with
  | nil => intro paras cur rest _; simp [paraToks]
  | cons f fs ih =>
    intro paras cur rest hr
    have hnext : HeadNot [.INDENT] (paraToks fs ++ rest) := by
      cases fs with
      | nil => simpa [paraToks] using hr
      | cons g gs =>
        simp only [paraToks, List.map_cons, List.flatten_cons, List.append_assoc]
        exact headNot_fieldToks g _
    simp only [paraToks, List.map_cons, List.flatten_cons, List.append_assoc] at ih hnext ⊢
    rw [loop_fieldToks paras cur f _ hnext, ih paras (cur ++ [f]) rest hr]
    simp

theorem loop_docToks (D : Doc) (h : ∀ p ∈ D, p ≠ []) : ∀ (paras : Doc),
    loop paras [] (docToks D) = .ok (paras ++ D) := by
  induction D with
  | nil => intro paras; simp [docToks, loop_nil, flush]
  | cons p ps ih =>
    intro paras
    have hp := h p (by simp)
    cases ps with
    | nil =>
      have := loop_paraToks p paras [] [] (headNot_nil _)
      simp only [List.append_nil, List.nil_append] at this
      simp only [docToks]
      rw [this, loop_nil]
      simp [flush, hp]
    | cons q qs =>
      have ihh := ih (fun x hx => h x (by simp [hx])) (paras ++ [p])
      simp only [docToks]
      rw [loop_paraToks p paras [] _ (headNot_cons _ _ _ (by simp)), List.nil_append, loop_newline]
      simp only [flush, hp, ↓reduceIte]
      rw [ihh]
      simp

/-- **lossy round trip beyond the C08 domain**: every document of the reader's range prints to a text
    that reads back as the same document -/
theorem read_printDoc_lossy (D : Doc) (h : LossyD D) : Lossy.read (printDoc D) = .ok D := by
  unfold Lossy.read
  rw [lex_printDoc D (fun p hp => (h p hp).2)]
  have := loop_docToks D (fun p hp => (h p hp).1) []
  simpa using this

/-- print ∘ read is idempotent on EVERY accepted text (values with empty lines included) -/
theorem read_print_read (s : Str) (D : Doc) (h : Lossy.read s = .ok D) : Lossy.read (printDoc D) = .ok D :=
  read_printDoc_lossy D (read_range s D h)

end Deb822Verif.Deb
