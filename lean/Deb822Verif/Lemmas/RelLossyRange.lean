import Deb822Verif.Lemmas.RelLossyWide
import Deb822Verif.Lemmas.RelParseFrameTree
/-!
  The RANGE of the lossy relation reader: every value `lossy::Relations::from_str` returns — for
  any text whatsoever — is `validRWs` (identifier names, qualifiers, architectures, profile names;
  versions that re-read from their printed form; no empty entry).  With
  `readRelations_show` (Lemmas/RelLossyWide): print ∘ parse is idempotent on every accepted text.
-/
set_option linter.unusedSimpArgs false
set_option linter.unusedVariables false
namespace Deb822Verif.Rel
open Deb822Verif Node RelSpec Lossy

/-! ### what the lexer guarantees about IDENT tokens -/

/-- an IDENT token carries an identifier -/
def LexTok (t : Tok) : Prop := t.1 = .IDENT → isIdent t.2 = true

theorem lexStep_lexTok (c : Char) (rest : Str) : LexTok (lexStep c rest).1 := by
  unfold lexStep
  split
  · rename_i k hk
    intro h
    exact absurd h (punct_not_ws_ident hk).2
  · split
    · intro h; simp at h
    · split
      · rename_i hi
        intro _
        rw [isIdent_iff]
        refine ⟨by simp, ?_⟩
        intro x hx
        simp only [List.mem_cons] at hx
        rcases hx with rfl | hx
        · exact hi
        · exact mem_takeWhile_imp hx
      · intro h; simp at h

/-- all tokens are lexer tokens -/
def G (ts : List Tok) : Prop := ∀ t ∈ ts, LexTok t

theorem lex_G (s : Str) : G (lex s) := by
  fun_induction lex s with
  | case1 => intro t ht; simp at ht
  | case2 c rest ih =>
    intro t ht
    simp only [List.mem_cons] at ht
    rcases ht with rfl | ht
    · exact lexStep_lexTok c rest
    · exact ih t ht

theorem G_tail {t : Tok} {ts : List Tok} (h : G (t :: ts)) : G ts := fun x hx => h x (by simp [hx])
theorem G_head {t : Tok} {ts : List Tok} (h : G (t :: ts)) : LexTok t := h t (by simp)

theorem eatWs_G {ts : List Tok} (h : G ts) : G (eatWs ts) := by
  induction ts with
  | nil => simpa [eatWs] using h
  | cons t ts ih =>
    unfold eatWs
    split
    · exact ih (G_tail h)
    · exact h

/-! ### the pieces of `Relation::from_str` -/

theorem readName_range {ts : List Tok} {n : Str} {r : List Tok} (h : readName ts = .ok (n, r)) (hg : G ts) :
    isIdent n = true ∧ G r := by
  cases ts with
  | nil => simp [readName] at h
  | cons t ts =>
    simp only [readName] at h
    split at h
    · rename_i hk
      simp only [Except.ok.injEq, Prod.mk.injEq] at h
      obtain ⟨rfl, rfl⟩ := h
      exact ⟨G_head hg hk, G_tail hg⟩
    · simp at h

theorem readArchqual_range {ts : List Tok} {aq : Option Str} {r : List Tok}
    (h : readArchqual ts = .ok (aq, r)) (hg : G ts) :
    (∀ a, aq = some a → isIdent a = true) ∧ G r := by
  cases ts with
  | nil => simp [readArchqual] at h; obtain ⟨rfl, rfl⟩ := h; exact ⟨by simp, hg⟩
  | cons t ts =>
    simp only [readArchqual] at h
    split at h
    · cases ts with
      | nil => simp at h
      | cons q r' =>
        simp only at h
        split at h
        · rename_i hk
          simp only [Except.ok.injEq, Prod.mk.injEq] at h
          obtain ⟨rfl, rfl⟩ := h
          refine ⟨?_, G_tail (G_tail hg)⟩
          intro a ha
          simp only [Option.some.injEq] at ha
          subst ha
          exact G_head (G_tail hg) hk
        · simp at h
    · simp only [Except.ok.injEq, Prod.mk.injEq] at h
      obtain ⟨rfl, rfl⟩ := h
      exact ⟨by simp, hg⟩

theorem constraintSpan_G {ts : List Tok} (hg : G ts) : G (constraintSpan ts).2 := by
  induction ts with
  | nil => simpa [constraintSpan] using hg
  | cons t ts ih =>
    simp only [constraintSpan]
    split
    · exact ih (G_tail hg)
    · exact hg

theorem versionSpan_G {ts : List Tok} {s : Str} {r : List Tok} (h : versionSpan ts = .ok (s, r)) (hg : G ts) :
    G r := by
  induction ts generalizing s r with
  | nil => simp [versionSpan] at h; obtain ⟨_, rfl⟩ := h; exact hg
  | cons t ts ih =>
    simp only [versionSpan] at h
    split at h
    · simp only [Except.ok.injEq, Prod.mk.injEq] at h
      obtain ⟨_, rfl⟩ := h; exact hg
    · split at h
      · cases hv : versionSpan ts with
        | error e => rw [hv] at h; simp at h
        | ok p =>
          obtain ⟨s', r'⟩ := p
          rw [hv] at h
          simp only [Except.ok.injEq, Prod.mk.injEq] at h
          obtain ⟨_, rfl⟩ := h
          exact ih hv (G_tail hg)
      · simp at h

theorem readVersion_range {ts : List Tok} {ver : Option (VC × Version)} {r : List Tok}
    (h : readVersion ts = .ok (ver, r)) (hg : G ts) :
    (∀ c v, ver = some (c, v) → Version.parse v.display = some v) ∧ G r := by
  cases ts with
  | nil => simp [readVersion] at h; obtain ⟨rfl, rfl⟩ := h; exact ⟨by simp, hg⟩
  | cons t ts =>
    simp only [readVersion] at h
    split at h
    · split at h
      · simp at h
      · rename_i vc hvc
        split at h
        · simp at h
        · rename_i vs r1 hvs
          split at h
          · simp at h
          · rename_i v hv
            split at h
            · simp at h
            · rename_i c r2 he
              split at h
              · simp only [Except.ok.injEq, Prod.mk.injEq] at h
                obtain ⟨rfl, rfl⟩ := h
                have g1 : G r1 := versionSpan_G hvs (eatWs_G (constraintSpan_G (eatWs_G (G_tail hg))))
                have g2 : G (eatWs r1) := eatWs_G g1
                rw [he] at g2
                refine ⟨?_, G_tail g2⟩
                intro c' v' hcv
                simp only [Option.some.injEq, Prod.mk.injEq] at hcv
                obtain ⟨_, rfl⟩ := hcv
                exact Version.parse_display_stable hv
              · simp at h
    · simp only [Except.ok.injEq, Prod.mk.injEq] at h
      obtain ⟨rfl, rfl⟩ := h
      exact ⟨by simp, hg⟩

theorem validArch_ident {n : Str} (h : isIdent n = true) : validArch n = true := by
  unfold validArch archItem
  split
  · rename_i m
    exact absurd rfl (Wrap.ident_head_ne_bang h m)
  · exact h

theorem validArch_bang {n : Str} (h : isIdent n = true) : validArch ('!' :: n) = true := by
  simpa [validArch, archItem] using h

theorem archLoop_range (ts : List Tok) : ∀ {as : List Str} {r : List Tok},
    Lossy.archLoop ts = .ok (as, r) → G ts → (∀ a ∈ as, validArch a = true) ∧ G r := by
  fun_induction Lossy.archLoop ts with
  | case1 => intro as r h; simp at h
  | case2 t ts hk as' r' hx ih =>
    intro as r h hg
    simp only [Except.ok.injEq, Prod.mk.injEq] at h
    obtain ⟨rfl, rfl⟩ := h
    obtain ⟨i1, i2⟩ := ih hx (G_tail hg)
    refine ⟨?_, i2⟩
    intro a ha
    simp only [List.mem_cons] at ha
    rcases ha with rfl | ha
    · exact validArch_ident (G_head hg hk)
    · exact i1 a ha
  | case3 => intro as r h; simp at h
  | case4 => intro as r h; simp at h
  | case5 t0 hn0 hn t ts hk as' r' hx ih =>
    intro as r h hg
    simp only [Except.ok.injEq, Prod.mk.injEq] at h
    obtain ⟨rfl, rfl⟩ := h
    obtain ⟨i1, i2⟩ := ih hx (G_tail (G_tail hg))
    refine ⟨?_, i2⟩
    intro a ha
    simp only [List.mem_cons] at ha
    rcases ha with rfl | ha
    · exact validArch_bang (G_head (G_tail hg) hk)
    · exact i1 a ha
  | case6 => intro as r h; simp at h
  | case7 => intro as r h; simp at h
  | case8 t ts h1 h2 h3 ih =>
    intro as r h hg
    exact ih h (G_tail hg)
  | case9 t ts h1 h2 h3 h4 =>
    intro as r h hg
    simp only [Except.ok.injEq, Prod.mk.injEq] at h
    obtain ⟨rfl, rfl⟩ := h
    exact ⟨by simp, G_tail hg⟩
  | case10 => intro as r h; simp at h

theorem readArchs_range {ts : List Tok} {archs : Option (List Str)} {r : List Tok}
    (h : readArchs ts = .ok (archs, r)) (hg : G ts) :
    (∀ as, archs = some as → ∀ a ∈ as, validArch a = true) ∧ G r := by
  cases ts with
  | nil => simp [readArchs] at h; obtain ⟨rfl, rfl⟩ := h; exact ⟨by simp, hg⟩
  | cons t ts =>
    simp only [readArchs] at h
    split at h
    · cases ha : Lossy.archLoop ts with
      | error e => rw [ha] at h; simp at h
      | ok p =>
        obtain ⟨as, r'⟩ := p
        rw [ha] at h
        simp only [Except.ok.injEq, Prod.mk.injEq] at h
        obtain ⟨rfl, rfl⟩ := h
        obtain ⟨i1, i2⟩ := archLoop_range ts ha (G_tail hg)
        refine ⟨?_, i2⟩
        intro as' e
        simp only [Option.some.injEq] at e
        subst e
        exact i1
    · simp only [Except.ok.injEq, Prod.mk.injEq] at h
      obtain ⟨rfl, rfl⟩ := h
      exact ⟨by simp, hg⟩

theorem profTerms_range (ts : List Tok) : ∀ {ps : List BuildProfile} {r : List Tok},
    profTerms ts = .ok (ps, r) → G ts → (∀ p ∈ ps, isIdent (profName p) = true) ∧ G r := by
  fun_induction profTerms ts with
  | case1 => intro ps r h; simp at h
  | case2 => intro ps r h; simp at h
  | case3 t0 hn t ts hk ps' r' hx ih =>
    intro ps r h hg
    simp only [Except.ok.injEq, Prod.mk.injEq] at h
    obtain ⟨rfl, rfl⟩ := h
    obtain ⟨i1, i2⟩ := ih hx (G_tail (G_tail hg))
    refine ⟨?_, i2⟩
    intro p hp
    simp only [List.mem_cons] at hp
    rcases hp with rfl | hp
    · exact G_head (G_tail hg) hk
    · exact i1 p hp
  | case4 => intro ps r h; simp at h
  | case5 => intro ps r h; simp at h
  | case6 t ts hn hk ps' r' hx ih =>
    intro ps r h hg
    simp only [Except.ok.injEq, Prod.mk.injEq] at h
    obtain ⟨rfl, rfl⟩ := h
    obtain ⟨i1, i2⟩ := ih hx (G_tail hg)
    refine ⟨?_, i2⟩
    intro p hp
    simp only [List.mem_cons] at hp
    rcases hp with rfl | hp
    · exact G_head hg hk
    · exact i1 p hp
  | case7 => intro ps r h; simp at h
  | case8 t ts h1 h2 h3 ih =>
    intro ps r h hg
    exact ih h (G_tail hg)
  | case9 t ts h1 h2 h3 h4 =>
    intro ps r h hg
    simp only [Except.ok.injEq, Prod.mk.injEq] at h
    obtain ⟨rfl, rfl⟩ := h
    exact ⟨by simp, G_tail hg⟩
  | case10 => intro ps r h; simp at h

theorem profilesLoop_range (ts : List Tok) : ∀ {gs : List (List BuildProfile)} {r : List Tok},
    Lossy.profilesLoop ts = .ok (gs, r) → G ts → (∀ g ∈ gs, ∀ p ∈ g, isIdent (profName p) = true) ∧ G r := by
  fun_induction Lossy.profilesLoop ts with
  | case1 =>
    intro gs r h hg
    simp only [Except.ok.injEq, Prod.mk.injEq] at h
    obtain ⟨rfl, rfl⟩ := h
    exact ⟨by simp, hg⟩
  | case2 => intro gs r h; simp at h
  | case3 t ts hk p r2 hp more r3 hx ih =>
    intro gs r h hg
    simp only [Except.ok.injEq, Prod.mk.injEq] at h
    obtain ⟨rfl, rfl⟩ := h
    obtain ⟨p1, p2⟩ := profTerms_range ts hp (G_tail hg)
    obtain ⟨i1, i2⟩ := ih hx (eatWs_G p2)
    refine ⟨?_, i2⟩
    intro g hgm
    simp only [List.mem_cons] at hgm
    rcases hgm with rfl | hgm
    · exact p1
    · exact i1 g hgm
  | case4 => intro gs r h; simp at h
  | case5 t ts hk =>
    intro gs r h hg
    simp only [Except.ok.injEq, Prod.mk.injEq] at h
    obtain ⟨rfl, rfl⟩ := h
    exact ⟨by simp, hg⟩

/-- **range of `lossy::Relation::from_str`** (token level) -/
theorem readRelationToks_range {ts : List Tok} {r : Lossy.Relation} (h : readRelationToks ts = .ok r) (hg : G ts) :
    validRW r = true := by
  unfold readRelationToks at h
  split at h
  · simp at h
  · rename_i name r1 hn
    split at h
    · simp at h
    · rename_i aq r2 hq
      split at h
      · simp at h
      · rename_i ver r3 hv
        split at h
        · simp at h
        · rename_i archs r4 ha
          split at h
          · simp at h
          · rename_i profs r5 hp
            split at h
            · simp only [Except.ok.injEq] at h
              subst h
              obtain ⟨n1, g1⟩ := readName_range hn hg
              obtain ⟨q1, g2⟩ := readArchqual_range hq (eatWs_G g1)
              obtain ⟨v1, g3⟩ := readVersion_range hv (eatWs_G g2)
              obtain ⟨a1, g4⟩ := readArchs_range ha (eatWs_G g3)
              obtain ⟨p1, _⟩ := profilesLoop_range _ hp (eatWs_G g4)
              rw [validRW_iff]
              refine ⟨?_, v1⟩
              rw [validR_iff]
              exact ⟨n1, q1, by intro c v e; simp [dropVer] at e, a1, p1⟩
            · simp at h

theorem readRelation_range {s : Str} {r : Lossy.Relation} (h : Lossy.readRelation s = .ok r) :
    validRW r = true :=
  readRelationToks_range h (lex_G s)

theorem mapM_ok_elim {α β ε} (f : α → Except ε β) : ∀ (l : List α) (ys : List β), l.mapM f = .ok ys →
    ys.length = l.length ∧ ∀ y ∈ ys, ∃ x ∈ l, f x = .ok y := by
  intro l
  induction l with
  | nil =>
    intro ys h
    simp [List.mapM_nil, pure, Except.pure] at h
    subst h
    simp
  | cons a as ih =>
    intro ys h
    rw [List.mapM_cons] at h
    cases hf : f a with
    | error e => simp [hf, bind, Except.bind] at h
    | ok b =>
      cases hm : as.mapM f with
      | error e => simp [hf, hm, bind, Except.bind] at h
      | ok bs =>
        simp [hf, hm, bind, Except.bind, pure, Except.pure] at h
        subst h
        obtain ⟨i1, i2⟩ := ih bs hm
        refine ⟨by simp [i1], ?_⟩
        intro y hy
        simp only [List.mem_cons] at hy
        rcases hy with rfl | hy
        · exact ⟨a, by simp, hf⟩
        · obtain ⟨x, hx, hfx⟩ := i2 y hy
          exact ⟨x, by simp [hx], hfx⟩

theorem readAlt_range {s : Str} {r : Lossy.Relation} (h : Lossy.readAlt s = .ok r) : validRW r = true := by
  unfold Lossy.readAlt at h
  split at h
  · simp at h
  · exact readRelation_range h

theorem splitOn_ne_nil' (sep : Char) (s : Str) : Text.splitOn sep s ≠ [] := by
  induction s with
  | nil => simp [Text.splitOn]
  | cons c cs ih =>
    simp only [Text.splitOn]
    split
    · simp
    · split <;> simp

theorem readEntry_range {s : Str} {e : List Lossy.Relation} (h : Lossy.readEntry s = .ok (some e)) :
    e ≠ [] ∧ ∀ r ∈ e, validRW r = true := by
  unfold Lossy.readEntry at h
  split at h
  · simp at h
  · cases hm : (Text.splitOn '|' (Text.trim s)).mapM Lossy.readAlt with
    | error err => rw [hm] at h; simp at h
    | ok rs =>
      rw [hm] at h
      simp only [Except.ok.injEq, Option.some.injEq] at h
      subst h
      obtain ⟨hl, hall⟩ := mapM_ok_elim _ _ _ hm
      refine ⟨?_, ?_⟩
      · intro e
        rw [e] at hl
        have := splitOn_ne_nil' '|' (Text.trim s)
        exact this (List.eq_nil_of_length_eq_zero hl.symm)
      · intro r hr
        obtain ⟨x, _, hx⟩ := hall r hr
        exact readAlt_range hx

/-- **range of `lossy::Relations::from_str`**: whatever the text, an accepted text yields a value in
    the domain of the round trip `readRelations_show` -/
theorem readRelations_range {s : Str} {rs : List (List Lossy.Relation)} (h : Lossy.readRelations s = .ok rs) :
    validRWs rs = true := by
  unfold Lossy.readRelations at h
  split at h
  · simp only [Except.ok.injEq] at h; subst h; rfl
  · cases hm : (Text.splitOn ',' s).mapM Lossy.readEntry with
    | error err => rw [hm] at h; simp at h
    | ok es =>
      rw [hm] at h
      simp only [Except.ok.injEq] at h
      subst h
      obtain ⟨_, hall⟩ := mapM_ok_elim _ _ _ hm
      simp only [validRWs, List.all_eq_true, Bool.and_eq_true, Bool.not_eq_true', List.isEmpty_eq_false_iff]
      intro e he
      simp only [List.mem_filterMap, id] at he
      obtain ⟨oe, hoe, rfl⟩ := he
      obtain ⟨x, _, hx⟩ := hall (some e) hoe
      obtain ⟨h1, h2⟩ := readEntry_range hx
      exact ⟨h1, h2⟩

/-- print ∘ parse is idempotent on every accepted text -/
theorem readRelations_reprint {s : Str} {rs : List (List Lossy.Relation)} (h : Lossy.readRelations s = .ok rs) :
    Lossy.readRelations (showRelations rs) = .ok rs :=
  readRelations_show rs (readRelations_range h)

end Deb822Verif.Rel
