import Deb822Verif.Model.Pgp
/-!
# Work count of `strip_pgp_signature` (debian-control/src/pgp.rs:66-124)

The function walks `input.lines()` once: one `lines.next()` for the first line, three `loop`s
(metadata, payload, signature) whose every round starts with one `lines.next()`, and one last
`lines.next()` for the junk test.  The twins below return the model's result and the number of
`lines.next()` calls (= loop rounds, plus the two calls outside the loops).  A call either yields a
line — at most once per line — or yields `None`, after which the function returns: so there are
at most `lines + 1` calls.
-/
namespace Deb822Verif.Pgp
open Text

/-- metadata loop with its number of rounds (the round whose `next()` is `None` included) -/
def metaLoopC : List Str → Option (List Str) × Nat
  | [] => (none, 1)
  | l :: ls => if l = [] then (some ls, 1) else ((metaLoopC ls).1, (metaLoopC ls).2 + 1)

def payloadLoopC : List Str → Option (Str × List Str) × Nat
  | [] => (none, 1)
  | l :: ls =>
    if l = beginSig then (some ([], ls), 1)
    else (match (payloadLoopC ls).1 with
      | none => none
      | some r => some (l ++ '\n' :: r.1, r.2), (payloadLoopC ls).2 + 1)

def sigLoopC : List Str → Option (Str × List Str) × Nat
  | [] => (none, 1)
  | l :: ls =>
    if l = endSig then (some ([], ls), 1)
    else (match (sigLoopC ls).1 with
      | none => none
      | some r => some (l ++ r.1, r.2), (sigLoopC ls).2 + 1)

theorem metaLoopC_fst (ls) : (metaLoopC ls).1 = metaLoop ls := by
  induction ls with
  | nil => rfl
  | cons l ls ih => simp only [metaLoopC, metaLoop]; split <;> simp [ih]

theorem payloadLoopC_fst (ls) : (payloadLoopC ls).1 = payloadLoop ls := by
  induction ls with
  | nil => rfl
  | cons l ls ih =>
    simp only [payloadLoopC, payloadLoop]; split
    · rfl
    · simp only [ih]; cases payloadLoop ls <;> rfl

theorem sigLoopC_fst (ls) : (sigLoopC ls).1 = sigLoop ls := by
  induction ls with
  | nil => rfl
  | cons l ls ih =>
    simp only [sigLoopC, sigLoop]; split
    · rfl
    · simp only [ih]; cases sigLoop ls <;> rfl

/-- lines left (as a number) after a loop; a loop that ran out of lines made one more call -/
def left {α} (f : α → List Str) : Option α → Nat
  | some a => (f a).length + 1
  | none => 0

/-- rounds + lines left = lines on success; rounds = lines + 1 on failure -/
theorem metaLoopC_cost (ls) : (metaLoopC ls).2 + left id (metaLoop ls) = ls.length + 1 := by
  induction ls with
  | nil => rfl
  | cons l ls ih =>
    simp only [metaLoopC, metaLoop]
    split
    · simp [left]; omega
    · simp only [List.length_cons]
      cases h : metaLoop ls <;> simp [h, left] at ih ⊢ <;> omega

theorem payloadLoopC_cost (ls) :
    (payloadLoopC ls).2 + left Prod.snd (payloadLoop ls) = ls.length + 1 := by
  induction ls with
  | nil => rfl
  | cons l ls ih =>
    simp only [payloadLoopC, payloadLoop]
    split
    · simp [left]; omega
    · simp only [List.length_cons]
      cases h : payloadLoop ls <;> simp [h, left] at ih ⊢ <;> omega

theorem sigLoopC_cost (ls) :
    (sigLoopC ls).2 + left Prod.snd (sigLoop ls) = ls.length + 1 := by
  induction ls with
  | nil => rfl
  | cons l ls ih =>
    simp only [sigLoopC, sigLoop]
    split
    · simp [left]; omega
    · simp only [List.length_cons]
      cases h : sigLoop ls <;> simp [h, left] at ih ⊢ <;> omega

/-- `strip_pgp_signature` on the list of lines, with the number of `lines.next()` calls -/
def stripLinesC (input : Str) (ls : List Str) : Except Err (Str × Option Str) × Nat :=
  match ls with
  | [] => (.ok (input, none), 1)
  | first :: rest =>
    if first ≠ beginMsg then (.ok (input, none), 1)
    else match metaLoopC rest with
      | (none, n1) => (.error .MissingPayload, 1 + n1)
      | (some r1, n1) => match payloadLoopC r1 with
        | (none, n2) => (.error .MissingPgpSignature, 1 + n1 + n2)
        | (some (p, r2), n2) => match sigLoopC r2 with
          | (none, n3) => (.error .TruncatedPgpSignature, 1 + n1 + n2 + n3)
          | (some (sg, r3), n3) =>
            match r3 with
            | _ :: _ => (.error .JunkAfterPgpSignature, 1 + n1 + n2 + n3 + 1)
            | [] => (.ok (p, some sg), 1 + n1 + n2 + n3 + 1)

def stripC (input : Str) : Except Err (Str × Option Str) × Nat := stripLinesC input (lines input)

theorem stripLinesC_fst (input ls) : (stripLinesC input ls).1 = stripLines input ls := by
  cases ls with
  | nil => rfl
  | cons first rest =>
    simp only [stripLinesC, stripLines]
    split
    · rfl
    · have a := metaLoopC_fst rest
      split
      · rename_i h; rw [h] at a; simp only at a; rw [← a]
      · rename_i r1 n1 h; rw [h] at a; simp only at a; rw [← a]; simp only
        have b := payloadLoopC_fst r1
        split
        · rename_i h2; rw [h2] at b; simp only at b; rw [← b]
        · rename_i p r2 n2 h2; rw [h2] at b; simp only at b; rw [← b]; simp only
          have c := sigLoopC_fst r2
          split
          · rename_i h3; rw [h3] at c; simp only at c; rw [← c]
          · rename_i sg r3 n3 h3; rw [h3] at c; simp only at c; rw [← c]; simp only
            cases r3 <;> rfl

theorem stripC_fst (input) : (stripC input).1 = strip input := stripLinesC_fst _ _

/-- at most one `lines.next()` per line, plus the one that finds the end -/
theorem stripLinesC_cost (input ls) : (stripLinesC input ls).2 ≤ ls.length + 1 := by
  cases ls with
  | nil => simp [stripLinesC]
  | cons first rest =>
    simp only [stripLinesC, List.length_cons]
    split
    · simp
    · have a := metaLoopC_fst rest
      have ca := metaLoopC_cost rest
      split
      · rename_i h; rw [h] at a ca; simp only at a ca; rw [← a] at ca
        simp [left] at ca ⊢; omega
      · rename_i r1 n1 h; rw [h] at a ca; simp only at a ca; rw [← a] at ca
        simp [left] at ca
        have b := payloadLoopC_fst r1
        have cb := payloadLoopC_cost r1
        split
        · rename_i h2; rw [h2] at b cb; simp only at b cb; rw [← b] at cb
          simp [left] at cb ⊢; omega
        · rename_i p r2 n2 h2; rw [h2] at b cb; simp only at b cb; rw [← b] at cb
          simp [left] at cb
          have c := sigLoopC_fst r2
          have cc := sigLoopC_cost r2
          split
          · rename_i h3; rw [h3] at c cc; simp only at c cc; rw [← c] at cc
            simp [left] at cc ⊢; omega
          · rename_i sg r3 n3 h3; rw [h3] at c cc; simp only at c cc; rw [← c] at cc
            simp [left] at cc
            cases r3 <;> simp at cc ⊢ <;> omega

theorem rawLines_length_le (s : Str) : (rawLines s).length ≤ s.length := by
  induction s with
  | nil => simp [rawLines]
  | cons c cs ih =>
    simp only [rawLines]
    split
    · simp; omega
    · split <;> simp_all <;> omega

/-- `str::lines()` yields at most one line per character -/
theorem lines_length_le (s : Str) : (lines s).length ≤ s.length := by
  simp [lines, rawLines_length_le]

end Deb822Verif.Pgp
