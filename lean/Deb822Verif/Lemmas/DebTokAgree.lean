import Deb822Verif.Lemmas.DebLexInv
import Deb822Verif.Lemmas.DebLossyDoc
import Deb822Verif.Lemmas.SplitOn
/-!
  Token-level agreement of the two deb822 readers (property C06, clause 1).

  For every token list `ts` that satisfies the lexer invariant `Lx .NEWLINE ts`
  (Lemmas/DebLexInv.lean), if the lossy reader (`Lossy.loop`) accepts `ts` and the lossless parser
  (`rootLoop`) reports no error on `ts`, then the lossy document and the content read off the
  lossless tree have the same paragraphs, the same field names in the same order and, field by
  field, the same non-blank value lines.

  The proof is a lock-step simulation of the two loops (no reference to the document grammar
  `Spec/DocS`): `agree_tok` by induction on a length bound, with one statement for "between
  paragraphs" (lossy `cur = []` / lossless `rootLoop`) and one for "inside a paragraph"
  (lossy `cur ≠ []` / lossless `paraLoop`), `entry_agree` for one field and `cont_agree` for its
  continuation lines.
-/
namespace Deb822Verif.Deb
open Deb822Verif Node Lossy

/-! ### non-blank lines of a value -/

/-- non-blank value lines (the normalisation of the C06 oracle; `Props.C06.nb`) -/
def nbLines (v : Str) : List Str := (Text.splitOn '\n' v).filter (· ≠ [])

/-- a field as (name, non-blank value lines) -/
def nbF (f : Str × Str) : Str × List Str := (f.1, nbLines f.2)

theorem splitOn_ne_nil (sep : Char) (v : Str) : Text.splitOn sep v ≠ [] := by
  cases v with
  | nil => simp [Text.splitOn]
  | cons c cs =>
    simp only [Text.splitOn]
    split
    · simp
    · split <;> simp

theorem splitOn_append_sep (sep : Char) (a x : Str) :
    Text.splitOn sep (a ++ sep :: x) = Text.splitOn sep a ++ Text.splitOn sep x := by
  induction a with
  | nil => simp [Text.splitOn]
  | cons c a ih =>
    by_cases hc : c = sep
    · subst hc; simp [Text.splitOn, ih]
    · simp only [List.cons_append, Text.splitOn, hc, if_false, ih]
      cases h : Text.splitOn sep a with
      | nil => exact absurd h (splitOn_ne_nil _ _)
      | cons l ls => simp

theorem nbLines_nil : nbLines [] = [] := by simp [nbLines, Text.splitOn]

theorem nbLines_append_nl (a x : Str) : nbLines (a ++ '\n' :: x) = nbLines a ++ nbLines x := by
  simp [nbLines, splitOn_append_sep]

theorem nbLines_snoc_nl (a : Str) : nbLines (a ++ ['\n']) = nbLines a := by
  rw [nbLines_append_nl, nbLines_nil]; simp

theorem nbLines_line (x : Str) (h : '\n' ∉ x) : nbLines x = [x].filter (· ≠ []) := by
  simp [nbLines, Text.splitOn_none _ _ h]

theorem nbLines_join (ls : List Str) (h : ∀ l ∈ ls, '\n' ∉ l) :
    nbLines (Text.join ['\n'] ls) = ls.filter (· ≠ []) := by
  induction ls with
  | nil => simp [Text.join, nbLines_nil]
  | cons a ls ih =>
    cases ls with
    | nil => simpa [Text.join] using nbLines_line a (h a (by simp))
    | cons b r =>
      have h1 := ih (fun l hl => h l (by simp [hl]))
      have h2 := nbLines_line a (h a (by simp))
      simp only [Text.join, List.append_assoc, List.cons_append, List.nil_append]
      rw [nbLines_append_nl, h1, h2]
      by_cases ha : a = [] <;> simp [List.filter_cons, ha]

/-- the accumulated lossy value ends with the "\n" pushed after a line -/
def EndsNl (acc : Str) : Prop := ∃ a, acc = a ++ ['\n']

theorem endsNl_snoc (a : Str) : EndsNl (a ++ ['\n']) := ⟨a, rfl⟩

theorem nbLines_endsNl_append (acc x : Str) (h : EndsNl acc) :
    nbLines (acc ++ x) = nbLines acc ++ nbLines x := by
  obtain ⟨a, rfl⟩ := h
  rw [nbLines_snoc_nl]
  simpa using nbLines_append_nl a x

theorem dropLast_getLast? {α} (l : List α) (c) (h : l.getLast? = some c) : l.dropLast ++ [c] = l := by
  have hne : l ≠ [] := by intro e; subst e; simp at h
  have h1 := List.dropLast_concat_getLast hne
  rw [List.getLast?_eq_some_getLast hne] at h
  simp at h
  rw [← h]; exact h1

/-- stripping the final line terminator does not change the non-blank lines -/
theorem nbLines_trimNl (v : Str) (h : '\r' ∉ v) : nbLines (trimNl v) = nbLines v := by
  unfold trimNl
  cases hg : v.getLast? with
  | none => rfl
  | some c =>
    simp only
    split
    · rename_i hn
      have hv : v.dropLast ++ [c] = v := dropLast_getLast? v c hg
      have hc : c = '\n' := by
        simp only [isNewline, Bool.or_eq_true, beq_iff_eq] at hn
        rcases hn with rfl | rfl
        · rfl
        · exfalso; apply h; rw [← hv]; simp
      subst hc
      conv => rhs; rw [← hv]
      rw [nbLines_snoc_nl]
    · rfl

theorem noNewline_no_lf {x : Str} (h : ∀ c ∈ x, isNewline c = false) : '\n' ∉ x := by
  intro hm; have := h _ hm; simp [isNewline] at this

theorem noNewline_no_cr {x : Str} (h : ∀ c ∈ x, isNewline c = false) : '\r' ∉ x := by
  intro hm; have := h _ hm; simp [isNewline] at this

/-! ### what the accessors read from node lists -/

/-- texts of the VALUE tokens among the children of an entry -/
def valTexts (ns : List DNode) : List Str := (ns.filter (isTokOf .VALUE)).map tokTextOf

/-- `Paragraph::items` on the children of a PARAGRAPH node -/
def pItems (ns : List DNode) : Para :=
  (ns.filter isEntry).filterMap fun e => (entryKey e).map fun k => (k, entryValue e)

/-- `docItems` on the children of the ROOT node -/
def dItems (ns : List DNode) : Doc := (ns.filter isPara).map items

theorem items_para_node (ns : List DNode) : items (.node .PARAGRAPH ns) = pItems ns := rfl
theorem docItems_root (ns : List DNode) : docItems (.node .ROOT ns) = dItems ns := rfl
theorem entryValue_entry (cs : List DNode) :
    entryValue (.node .ENTRY cs) = Text.join ['\n'] (valTexts cs) := rfl

@[simp] theorem valTexts_nil : valTexts [] = [] := rfl
@[simp] theorem valTexts_append (a b : List DNode) : valTexts (a ++ b) = valTexts a ++ valTexts b := by
  simp [valTexts]
@[simp] theorem valTexts_value (x : Str) (ns : List DNode) :
    valTexts (tk (.VALUE, x) :: ns) = x :: valTexts ns := by
  simp [valTexts, tk, isTokOf, tokTextOf]
theorem valTexts_other (t : Tok) (ns : List DNode) (h : t.1 ≠ .VALUE) :
    valTexts (tk t :: ns) = valTexts ns := by
  simp [valTexts, tk, isTokOf, h]

theorem valTexts_map_tk (cs : List Tok) (h : ∀ c ∈ cs, c.1 ≠ .VALUE) : valTexts (cs.map tk) = [] := by
  induction cs with
  | nil => rfl
  | cons c cs ih =>
    simp only [List.map_cons]
    rw [valTexts_other _ _ (h c (by simp)), ih (fun x hx => h x (by simp [hx]))]

@[simp] theorem pItems_nil : pItems [] = [] := rfl
theorem pItems_append (a b : List DNode) : pItems (a ++ b) = pItems a ++ pItems b := by
  simp [pItems]
theorem pItems_tk (t : Tok) (ns : List DNode) : pItems (tk t :: ns) = pItems ns := by
  simp [pItems, tk, isEntry, Node.isNode]
theorem pItems_entry (k : Str) (cs ns : List DNode) :
    pItems (.node .ENTRY (tk (.KEY, k) :: cs) :: ns)
      = (k, Text.join ['\n'] (valTexts (tk (.KEY, k) :: cs))) :: pItems ns := by
  simp [pItems, isEntry, Node.isNode, Node.kind, entryKey, Node.children, tk, isTokOf, tokTextOf,
    entryValue, valTexts]

@[simp] theorem dItems_nil : dItems [] = [] := rfl
theorem dItems_empty (x ns : List DNode) : dItems (.node .EMPTY_LINE x :: ns) = dItems ns := by
  simp [dItems, isPara, Node.isNode, Node.kind]
theorem dItems_para (x ns : List DNode) :
    dItems (.node .PARAGRAPH x :: ns) = pItems x :: dItems ns := by
  simp [dItems, isPara, Node.isNode, Node.kind, items_para_node]

/-! ### the lossless value loop, one line at a time -/

/-- `parse_entry` after the NEWLINE of a value line: an INDENT token continues the entry -/
def afterNl : List Tok → PR
  | [] => ⟨[], [], []⟩
  | i :: r3 =>
    if i.1 = .INDENT then
      ⟨tk i :: ((skipWs r3).1 ++ (entryLines (skipWs r3).2).nodes), (entryLines (skipWs r3).2).errs,
        (entryLines (skipWs r3).2).rest⟩
    else ⟨[], [], i :: r3⟩

theorem entryLines_of_cons (ts : List Tok) (vals) (t : Tok) (r)
    (h : bumpVals ts = (vals, t :: r)) :
    entryLines ts = ⟨vals ++ nlNodes t ++ (afterNl r).nodes, nlErrs t ++ (afterNl r).errs,
      (afterNl r).rest⟩ := by
  cases r with
  | nil => rw [entryLines_of_one _ _ _ h]; simp [afterNl]
  | cons i r3 =>
    by_cases hi : i.1 = .INDENT
    · rw [entryLines_of_indent _ _ _ _ _ h hi]; simp [afterNl, hi]
    · rw [entryLines_of_stop _ _ _ _ _ h hi]; simp [afterNl, hi]

theorem nlNodes_of_nl (n : Tok) (h : n.1 = .NEWLINE) : nlNodes n = [tk n] := by simp [nlNodes, h]
theorem nlErrs_of_nl (n : Tok) (h : n.1 = .NEWLINE) : nlErrs n = [] := by simp [nlErrs, h]
theorem nlErrs_of_not_nl (n : Tok) (h : n.1 ≠ .NEWLINE) : nlErrs n ≠ [] := by simp [nlErrs, h]

theorem entryLines_nil : entryLines [] = ⟨[], [], []⟩ :=
  entryLines_of_nil [] [] (by simp [bumpVals])

theorem entryLines_nl (n : Tok) (r : List Tok) (hn : n.1 = .NEWLINE) :
    entryLines (n :: r) = ⟨tk n :: (afterNl r).nodes, (afterNl r).errs, (afterNl r).rest⟩ := by
  have hb : bumpVals (n :: r) = ([], n :: r) :=
    bumpVals_stop _ (headNot_cons _ _ _ (by simp [hn]))
  rw [entryLines_of_cons _ _ _ _ hb, nlNodes_of_nl n hn, nlErrs_of_nl n hn]; simp

theorem entryLines_value (x : Str) : entryLines [(.VALUE, x)] = ⟨[tk (.VALUE, x)], [], []⟩ :=
  entryLines_of_nil _ _ (by simp [bumpVals])

theorem entryLines_value_nl (x : Str) (n : Tok) (r : List Tok) (hn : n.1 = .NEWLINE) :
    entryLines ((.VALUE, x) :: n :: r) =
      ⟨tk (.VALUE, x) :: tk n :: (afterNl r).nodes, (afterNl r).errs, (afterNl r).rest⟩ := by
  have hb0 : bumpVals (n :: r) = ([], n :: r) :=
    bumpVals_stop _ (headNot_cons _ _ _ (by simp [hn]))
  have hb : bumpVals ((.VALUE, x) :: n :: r) = ([tk (.VALUE, x)], n :: r) := by
    rw [bumpVals]; simp [hb0]
  rw [entryLines_of_cons _ _ _ _ hb, nlNodes_of_nl n hn, nlErrs_of_nl n hn]; simp

/-- a continuation line that runs into a KEY token: the parser wraps the KEY in an ERROR node -/
theorem entryLines_key_errs (t : Tok) (r : List Tok) (ht : t.1 = .KEY) : (entryLines (t :: r)).errs ≠ [] := by
  have hb : bumpVals (t :: r) = ([], t :: r) :=
    bumpVals_stop _ (headNot_cons _ _ _ (by simp [ht]))
  rw [entryLines_of_cons _ _ _ _ hb]
  have := nlErrs_of_not_nl t (by simp [ht])
  intro he
  simp only [List.append_eq_nil_iff] at he
  exact this he.1

theorem skipWs_comments (cs tail : List Tok) (hcs : ∀ c ∈ cs, c.1 = .COMMENT)
    (ht : HeadNot [.WHITESPACE, .COMMENT] tail) : skipWs (cs ++ tail) = (cs.map tk, tail) := by
  induction cs with
  | nil => simpa using skipWs_stop tail ht
  | cons c cs ih =>
    have hc := hcs c (by simp)
    have := ih (fun x hx => hcs x (by simp [hx]))
    simp [skipWs, hc, this]

/-- `afterNl` on `INDENT COMMENT* tail` -/
theorem afterNl_indent (si : Str) (cs tail : List Tok) (hcs : ∀ c ∈ cs, c.1 = .COMMENT)
    (ht : HeadNot [.WHITESPACE, .COMMENT] tail) :
    afterNl ((.INDENT, si) :: (cs ++ tail)) =
      ⟨tk (.INDENT, si) :: (cs.map tk ++ (entryLines tail).nodes), (entryLines tail).errs,
        (entryLines tail).rest⟩ := by
  simp [afterNl, skipWs_comments cs tail hcs ht]

theorem valTexts_afterNl_indent (si : Str) (cs : List Tok) (ns : List DNode)
    (hcs : ∀ c ∈ cs, c.1 = .COMMENT) :
    valTexts (tk (.INDENT, si) :: (cs.map tk ++ ns)) = valTexts ns := by
  rw [valTexts_other _ _ (by simp), valTexts_append,
    valTexts_map_tk cs (fun c hc => by rw [hcs c hc]; simp)]
  simp

/-! ### shapes of what the lossy line readers accept -/

theorem firstLine_shape {p : Kind} (val : Str) (ts2 : List Tok) (v1 : Str) (ts3 : List Tok)
    (hl : Lx p ts2) (h : firstLine val ts2 = .ok (v1, ts3)) :
    (ts2 = [] ∧ v1 = val ∧ ts3 = []) ∨
    (∃ n : Tok, n.1 = .NEWLINE ∧ ts2 = n :: ts3 ∧ v1 = val) ∨
    (∃ x, ts2 = [(.VALUE, x)] ∧ v1 = x ∧ ts3 = []) ∨
    (∃ x, ∃ n : Tok, n.1 = .NEWLINE ∧ ts2 = (.VALUE, x) :: n :: ts3 ∧ v1 = x) := by
  cases ts2 with
  | nil =>
    simp [firstLine] at h
    exact Or.inl ⟨rfl, h.1.symm, h.2⟩
  | cons t r =>
    obtain ⟨k, s⟩ := t
    simp only [firstLine] at h
    split at h
    · rename_i hk
      subst hk
      rcases Lx_after_value hl with rfl | ⟨n, r', rfl, hn⟩
      · simp [firstLine] at h
        exact Or.inr (Or.inr (Or.inl ⟨s, rfl, h.1.symm, h.2⟩))
      · obtain ⟨kn, sn⟩ := n
        simp only at hn
        subst hn
        simp [firstLine] at h
        refine Or.inr (Or.inr (Or.inr ⟨s, (.NEWLINE, sn), rfl, ?_, h.1.symm⟩))
        rw [h.2]
    · split at h
      · rename_i hk
        simp at h
        refine Or.inr (Or.inl ⟨(k, s), hk, ?_, h.1.symm⟩)
        rw [h.2]
      · simp at h

theorem contLine_shape (r3 : List Tok) : ∀ {p : Kind} (acc acc' : Str) (rest : List Tok),
    Lx p r3 → contLine acc r3 = .ok (acc', rest) →
    ∃ cs tail, r3 = cs ++ tail ∧ (∀ c ∈ cs, c.1 = .COMMENT) ∧
      ((tail = [] ∧ acc' = acc ∧ rest = []) ∨
       (∃ n : Tok, n.1 = .NEWLINE ∧ tail = n :: rest ∧ acc' = acc ++ ['\n']) ∨
       (∃ x, tail = [(.VALUE, x)] ∧ acc' = acc ++ x ∧ rest = []) ∨
       (∃ x, ∃ n : Tok, n.1 = .NEWLINE ∧ tail = (.VALUE, x) :: n :: rest ∧ acc' = acc ++ x ++ ['\n']) ∨
       (∃ t r, t.1 = .KEY ∧ tail = t :: r)) := by
  induction r3 with
  | nil =>
    intro p acc acc' rest _ h
    simp [contLine] at h
    exact ⟨[], [], rfl, by simp, Or.inl ⟨rfl, h.1.symm, h.2⟩⟩
  | cons t r ih =>
    intro p acc acc' rest hl h
    obtain ⟨k, s⟩ := t
    simp only [contLine] at h
    split at h
    · rename_i hk
      subst hk
      rcases Lx_after_value hl with rfl | ⟨n, r', rfl, hn⟩
      · simp [contLine] at h
        exact ⟨[], [(.VALUE, s)], rfl, by simp,
          Or.inr (Or.inr (Or.inl ⟨s, rfl, h.1.symm, h.2⟩))⟩
      · obtain ⟨kn, sn⟩ := n
        simp only at hn
        subst hn
        simp [contLine] at h
        refine ⟨[], (.VALUE, s) :: (.NEWLINE, sn) :: r', rfl, by simp,
          Or.inr (Or.inr (Or.inr (Or.inl ⟨s, (.NEWLINE, sn), rfl, ?_, ?_⟩)))⟩
        · rw [h.2]
        · rw [← h.1]; simp
    · split at h
      · rename_i hk
        obtain ⟨cs, tail, hr, hcs, hcase⟩ := ih acc acc' rest (Lx_tail hl) h
        refine ⟨(k, s) :: cs, tail, by simp [hr], ?_, hcase⟩
        intro c hc
        simp only [List.mem_cons] at hc
        rcases hc with rfl | hc
        · exact hk
        · exact hcs c hc
      · split at h
        · rename_i hk
          simp at h
          refine ⟨[], (k, s) :: r, rfl, by simp, Or.inr (Or.inl ⟨(k, s), hk, ?_, h.1.symm⟩)⟩
          rw [h.2]
        · split at h
          · rename_i hk
            exact ⟨[], (k, s) :: r, rfl, by simp,
              Or.inr (Or.inr (Or.inr (Or.inr ⟨(k, s), r, hk, rfl⟩)))⟩
          · simp at h

/-! ### continuation lines: the lossy `contLines` against the lossless `afterNl` -/

theorem contLines_indent_err (acc : Str) (i : Str) (ts : List Tok) (e : Err)
    (h : contLine acc ts = .error e) : contLines acc ((.INDENT, i) :: ts) = .error e := by
  rw [contLines]
  simp only [↓reduceIte]
  split
  · rename_i e' he; rw [h] at he; simp at he; rw [he]
  · rename_i a r he; rw [h] at he; simp at he

theorem filter_cons_app {α} (p : α → Bool) (x : α) (l : List α) :
    (x :: l).filter p = [x].filter p ++ l.filter p := by
  rw [← List.filter_append]; rfl

/-- what `cont_agree` establishes -/
def ContOK (acc v2 : Str) (ts3 ts4 : List Tok) : Prop :=
  (afterNl ts3).rest = ts4 ∧ Lx .NEWLINE ts4 ∧ '\r' ∉ v2 ∧
    nbLines v2 = nbLines acc ++ (valTexts (afterNl ts3).nodes).filter (· ≠ []) ∧
    (∀ l ∈ valTexts (afterNl ts3).nodes, '\n' ∉ l)

/-- the continuation lines of one field: when the lossy reader accepts them and the lossless
    parser reports no error, both stop at the same token, and the lossy value grows by exactly
    the non-empty VALUE texts the parser puts into the entry -/
theorem cont_agree : ∀ (n : Nat) (ts3 : List Tok), ts3.length < n → ∀ (acc v2 : Str) (ts4 : List Tok),
    Lx .NEWLINE ts3 → EndsNl acc → '\r' ∉ acc →
    contLines acc ts3 = .ok (v2, ts4) → (afterNl ts3).errs = [] → ContOK acc v2 ts3 ts4 := by
  intro n
  induction n with
  | zero => intro ts3 h; omega
  | succ n ih =>
    intro ts3 hlen acc v2 ts4 hl hacc hcr h herr
    cases ts3 with
    | nil =>
      rw [contLines_nil] at h
      simp at h
      obtain ⟨rfl, rfl⟩ := h
      exact ⟨rfl, trivial, hcr, by simp [afterNl], by simp [afterNl]⟩
    | cons i r3 =>
      obtain ⟨ki, si⟩ := i
      by_cases hi : ki = .INDENT
      · subst hi
        cases hc : contLine acc r3 with
        | error e => rw [contLines_indent_err _ _ _ _ hc] at h; simp at h
        | ok pr =>
          obtain ⟨acc', rest1⟩ := pr
          rw [contLines_indent _ _ _ _ _ hc] at h
          obtain ⟨cs, tail, hr, hcs, hcase⟩ := contLine_shape r3 acc acc' rest1 (Lx_tail hl) hc
          subst hr
          have hltail : Lx .KEY tail := Lx_append_right cs tail (Lx_tail hl)
          rcases hcase with ⟨rfl, rfl, rfl⟩ | ⟨nl, hn, rfl, rfl⟩ | ⟨x, rfl, rfl, rfl⟩ |
            ⟨x, nl, hn, rfl, rfl⟩ | ⟨t, r, ht, rfl⟩
          · -- INDENT COMMENT*, end of input
            rw [contLines_nil] at h; simp at h; obtain ⟨rfl, rfl⟩ := h
            have ha := afterNl_indent si cs [] hcs (headNot_nil _)
            rw [entryLines_nil] at ha
            refine ⟨by rw [ha], trivial, hcr, ?_, ?_⟩
            · rw [ha]; simp only []; rw [valTexts_afterNl_indent si cs [] hcs]; simp
            · rw [ha]; simp only []; rw [valTexts_afterNl_indent si cs [] hcs]; simp
          · -- INDENT COMMENT* NEWLINE
            have ha := afterNl_indent si cs (nl :: rest1) hcs (headNot_cons _ _ _ (by simp [hn]))
            rw [entryLines_nl nl rest1 hn] at ha
            rw [ha] at herr; simp only [] at herr
            have hrec := ih rest1 (by simp at hlen ⊢; omega) (acc ++ ['\n']) v2 ts4
              (Lx_after_nl hltail hn) (endsNl_snoc acc) (by simp [hcr]) h herr
            obtain ⟨h1, h2, h3, h4, h5⟩ := hrec
            refine ⟨by rw [ha]; exact h1, h2, h3, ?_, ?_⟩
            · rw [ha]; simp only []
              rw [valTexts_afterNl_indent si cs _ hcs, valTexts_other _ _ (by simp [hn]), h4,
                nbLines_snoc_nl]
            · rw [ha]; simp only []
              rw [valTexts_afterNl_indent si cs _ hcs, valTexts_other _ _ (by simp [hn])]
              exact h5
          · -- INDENT COMMENT* VALUE, end of input
            rw [contLines_nil] at h; simp at h; obtain ⟨rfl, rfl⟩ := h
            have hx := Lx_value_ok hltail
            have ha := afterNl_indent si cs [(.VALUE, x)] hcs (headNot_cons _ _ _ (by simp))
            rw [entryLines_value] at ha
            refine ⟨by rw [ha], trivial, ?_, ?_, ?_⟩
            · have := noNewline_no_cr hx
              simp [hcr, this]
            · rw [ha]; simp only []
              rw [valTexts_afterNl_indent si cs _ hcs, nbLines_endsNl_append _ _ hacc,
                nbLines_line x (noNewline_no_lf hx)]
              simp
            · rw [ha]; simp only []
              rw [valTexts_afterNl_indent si cs _ hcs]
              intro l hl'
              simp at hl'; subst hl'; exact noNewline_no_lf hx
          · -- INDENT COMMENT* VALUE NEWLINE
            have hx := Lx_value_ok hltail
            have ha := afterNl_indent si cs ((.VALUE, x) :: nl :: rest1) hcs
              (headNot_cons _ _ _ (by simp))
            rw [entryLines_value_nl x nl rest1 hn] at ha
            rw [ha] at herr; simp only [] at herr
            have hcr' : '\r' ∉ acc ++ x ++ ['\n'] := by
              have := noNewline_no_cr hx
              simp [hcr, this]
            have hrec := ih rest1 (by simp at hlen ⊢; omega) (acc ++ x ++ ['\n']) v2 ts4
              (Lx_after_nl (Lx_tail hltail) hn) (endsNl_snoc _) hcr' h herr
            obtain ⟨h1, h2, h3, h4, h5⟩ := hrec
            refine ⟨by rw [ha]; exact h1, h2, h3, ?_, ?_⟩
            · rw [ha]; simp only []
              rw [valTexts_afterNl_indent si cs _ hcs, valTexts_value,
                valTexts_other _ _ (by simp [hn]), h4, nbLines_snoc_nl,
                nbLines_endsNl_append _ _ hacc, nbLines_line x (noNewline_no_lf hx)]
              simp
              exact (filter_cons_app _ x _).symm
            · rw [ha]; simp only []
              rw [valTexts_afterNl_indent si cs _ hcs, valTexts_value,
                valTexts_other _ _ (by simp [hn])]
              intro l hl'
              simp only [List.mem_cons] at hl'
              rcases hl' with rfl | hl'
              · exact noNewline_no_lf hx
              · exact h5 l hl'
          · -- INDENT COMMENT* KEY: the lossy reader stops, the parser reports an error
            exfalso
            have ha := afterNl_indent si cs (t :: r) hcs (headNot_cons _ _ _ (by simp [ht]))
            rw [ha] at herr
            exact entryLines_key_errs t r ht herr
      · have hs := contLines_stop acc ((ki, si) :: r3) (headNot_cons _ _ _ (by simpa using hi))
        rw [hs] at h
        simp at h
        obtain ⟨rfl, rfl⟩ := h
        have ha : afterNl ((ki, si) :: r3) = ⟨[], [], (ki, si) :: r3⟩ := by simp [afterNl, hi]
        refine ⟨by rw [ha], hl, hcr, by rw [ha]; simp, by rw [ha]; simp⟩

/-! ### one field: the lossy `fieldValue` against the lossless `entryBody` -/

/-- `skip_ws` after the colon against the lossy reader's "skip WHITESPACE": the same tokens, when
    no COMMENT token follows the blanks -/
theorem skipWs_dropWs (ts1 : List Tok)
    (h : HeadNot [.COMMENT] (ts1.dropWhile fun t => t.1 = .WHITESPACE)) :
    ∃ ws, skipWs ts1 = (ws, ts1.dropWhile fun t => t.1 = .WHITESPACE) ∧ valTexts ws = [] := by
  induction ts1 with
  | nil => exact ⟨[], by simp [skipWs], rfl⟩
  | cons t ts ih =>
    by_cases ht : t.1 = .WHITESPACE
    · have hd : (t :: ts).dropWhile (fun t => decide (t.1 = .WHITESPACE))
          = ts.dropWhile (fun t => decide (t.1 = .WHITESPACE)) := by
        simp [ht]
      rw [hd] at h ⊢
      obtain ⟨ws, h1, h2⟩ := ih h
      refine ⟨tk t :: ws, ?_, ?_⟩
      · simp [skipWs, ht, h1]
      · rw [valTexts_other _ _ (by simp [ht]), h2]
    · have hd : (t :: ts).dropWhile (fun t => decide (t.1 = .WHITESPACE)) = t :: ts := by
        simp [ht]
      rw [hd] at h ⊢
      have hc : t.1 ≠ .COMMENT := by simpa using h t (by simp)
      exact ⟨[], by simp [skipWs, ht, hc], rfl⟩

/-- the first value line: what the lossy `firstLine` accepts, the parser's `entryLines` takes as
    `VALUE? NEWLINE?` and carries on with `afterNl` -/
theorem first_agree {p : Kind} (ts2 : List Tok) (v1 : Str) (ts3 : List Tok) (hl : Lx p ts2)
    (h : firstLine [] ts2 = .ok (v1, ts3)) :
    ∃ ns, entryLines ts2 = ⟨ns ++ (afterNl ts3).nodes, (afterNl ts3).errs, (afterNl ts3).rest⟩ ∧
      nbLines (v1 ++ ['\n']) = (valTexts ns).filter (· ≠ []) ∧ (∀ l ∈ valTexts ns, '\n' ∉ l) ∧
      '\r' ∉ v1 ∧ Lx .NEWLINE ts3 ∧ HeadNot [.COMMENT] ts2 := by
  rcases firstLine_shape [] ts2 v1 ts3 hl h with ⟨rfl, rfl, rfl⟩ | ⟨n, hn, rfl, rfl⟩ |
    ⟨x, rfl, rfl, rfl⟩ | ⟨x, n, hn, rfl, rfl⟩
  · refine ⟨[], ?_, ?_, by simp, by simp, trivial, headNot_nil _⟩
    · rw [entryLines_nil]; simp [afterNl]
    · rw [nbLines_snoc_nl, nbLines_nil]; simp
  · refine ⟨[tk n], ?_, ?_, ?_, by simp, Lx_after_nl hl hn, headNot_cons _ _ _ (by simp [hn])⟩
    · rw [entryLines_nl n ts3 hn]; simp
    · rw [nbLines_snoc_nl, nbLines_nil, valTexts_other _ _ (by simp [hn])]; simp
    · rw [valTexts_other _ _ (by simp [hn])]; simp
  · have hx := Lx_value_ok hl
    refine ⟨[tk (.VALUE, v1)], ?_, ?_, ?_, noNewline_no_cr hx, trivial, headNot_cons _ _ _ (by simp)⟩
    · rw [entryLines_value]; simp [afterNl]
    · rw [nbLines_snoc_nl, nbLines_line v1 (noNewline_no_lf hx)]; simp
    · intro l hl'; simp at hl'; subst hl'; exact noNewline_no_lf hx
  · have hx := Lx_value_ok hl
    refine ⟨[tk (.VALUE, v1), tk n], ?_, ?_, ?_, noNewline_no_cr hx, Lx_after_nl (Lx_tail hl) hn,
      headNot_cons _ _ _ (by simp)⟩
    · rw [entryLines_value_nl v1 n ts3 hn]; simp
    · rw [nbLines_snoc_nl, nbLines_line v1 (noNewline_no_lf hx), valTexts_value,
        valTexts_other _ _ (by simp [hn])]; simp
    · rw [valTexts_value, valTexts_other _ _ (by simp [hn])]
      intro l hl'; simp at hl'; subst hl'; exact noNewline_no_lf hx

/-- **one field**: if the lossy reader reads a value after `KEY` and the parser builds the entry
    without an error, the entry is an ENTRY node starting with that KEY token, both readers stop at
    the same token (at the start of a line), and the two values have the same non-blank lines -/
theorem entry_agree {p : Kind} (k : Str) (ts' : List Tok) (v : Str) (rest : List Tok)
    (hl : Lx p ts') (hf : fieldValue ts' = .ok (v, rest))
    (he : (entryBody ((.KEY, k) :: ts')).errs = []) :
    ∃ cs, (entryBody ((.KEY, k) :: ts')).nodes = [.node .ENTRY (tk (.KEY, k) :: cs)] ∧
      (entryBody ((.KEY, k) :: ts')).rest = rest ∧ Lx .NEWLINE rest ∧
      nbLines v = nbLines (Text.join ['\n'] (valTexts (tk (.KEY, k) :: cs))) := by
  cases ts' with
  | nil => simp [fieldValue] at hf
  | cons c ts1 =>
    obtain ⟨kc, sc⟩ := c
    simp only [fieldValue] at hf
    split at hf
    · rename_i hk
      subst hk
      split at hf
      · simp at hf
      · rename_i v1 ts3 h1
        split at hf
        · simp at hf
        · rename_i v2 ts4 h2
          simp at hf
          obtain ⟨rfl, rfl⟩ := hf
          have hl2 : Lx .KEY (ts1.dropWhile fun t => t.1 = .WHITESPACE) :=
            Lx_dropWhile _ _ (Lx_tail hl)
          obtain ⟨ns, hel, hnb1, hlf1, hcr1, hl3, hhead⟩ := first_agree _ v1 ts3 hl2 h1
          obtain ⟨ws, hsk, hws⟩ := skipWs_dropWs ts1 hhead
          have hkp : keyPart ((.KEY, k) :: (.COLON, sc) :: ts1)
              = ⟨[tk (.KEY, k)], [], (.COLON, sc) :: ts1⟩ := by
            simp [keyPart, skipWs]
          have hcp : colonPart ((.COLON, sc) :: ts1)
              = ⟨tk (.COLON, sc) :: ws, [], ts1.dropWhile fun t => t.1 = .WHITESPACE⟩ := by
            simp [colonPart, hsk]
          have heb : entryBody ((.KEY, k) :: (.COLON, sc) :: ts1) =
              ⟨[.node .ENTRY (tk (.KEY, k) :: (tk (.COLON, sc) :: ws ++ (ns ++ (afterNl ts3).nodes)))],
                (afterNl ts3).errs, (afterNl ts3).rest⟩ := by
            simp only [entryBody, hkp, hcp, hel]
            simp
          rw [heb] at he ⊢
          simp only [] at he
          have hcr : '\r' ∉ v1 ++ ['\n'] := by simp [hcr1]
          obtain ⟨c1, c2, c3, c4, c5⟩ := cont_agree (ts3.length + 1) ts3 (by omega) (v1 ++ ['\n']) v2
            ts4 hl3 (endsNl_snoc v1) hcr h2 he
          refine ⟨tk (.COLON, sc) :: ws ++ (ns ++ (afterNl ts3).nodes), rfl, c1, c2, ?_⟩
          have hvt : valTexts (tk (.KEY, k) :: (tk (.COLON, sc) :: ws ++ (ns ++ (afterNl ts3).nodes)))
              = valTexts ns ++ valTexts (afterNl ts3).nodes := by
            rw [valTexts_other _ _ (by simp), List.cons_append, valTexts_other _ _ (by simp),
              valTexts_append, valTexts_append, hws]
            simp
          rw [hvt, nbLines_trimNl v2 c3, c4, hnb1, nbLines_join, List.filter_append]
          intro l hl'
          simp only [List.mem_append] at hl'
          rcases hl' with hl' | hl'
          · exact hlf1 l hl'
          · exact c5 l hl'
    · simp at hf

/-! ### the two main loops in lock step -/

theorem loop_key_err (paras cur) (k : Str) (ts : List Tok) (e : Err)
    (h : fieldValue ts = .error e) : loop paras cur ((.KEY, k) :: ts) = .error e := by
  rw [loop]
  split
  · rename_i e' he; rw [h] at he; simp at he; rw [he]
  · rename_i v' r' he; rw [h] at he; simp at he

theorem parseEntry_key (t : Tok) (ts : List Tok) (ht : t.1 = .KEY) :
    parseEntry (t :: ts) = entryBody (t :: ts) := by
  have hc : t.1 ≠ .COMMENT := by rw [ht]; simp
  simp [parseEntry, commentLoop_id t ts hc, endsParagraph, ht]

/-- a KEY token inside a paragraph: both readers read one field and carry on at the same token -/
theorem key_step {p : Kind} (k : Str) (ts' : List Tok) (paras : Doc) (cur : Para) (d : Doc)
    (hl : Lx p ((.KEY, k) :: ts')) (h : loop paras cur ((.KEY, k) :: ts') = .ok d)
    (he : (paraLoop ((.KEY, k) :: ts')).errs = []) :
    ∃ v rest cs, loop paras (cur ++ [(k, v)]) rest = .ok d ∧
      paraLoop ((.KEY, k) :: ts') =
        ⟨.node .ENTRY (tk (.KEY, k) :: cs) :: (paraLoop rest).nodes, (paraLoop rest).errs,
          (paraLoop rest).rest⟩ ∧
      nbLines v = nbLines (Text.join ['\n'] (valTexts (tk (.KEY, k) :: cs))) ∧
      Lx .NEWLINE rest ∧ rest.length < ts'.length + 1 := by
  cases hf : fieldValue ts' with
  | error e => rw [loop_key_err _ _ _ _ _ hf] at h; simp at h
  | ok pr =>
    obtain ⟨v, rest⟩ := pr
    rw [loop_key _ _ _ _ _ _ hf] at h
    have hstep := paraLoop_step (.KEY, k) ts' (by simp)
    rw [parseEntry_key _ _ rfl] at hstep
    rw [hstep] at he
    simp only [List.append_eq_nil_iff] at he
    obtain ⟨cs, h1, h2, h3, h4⟩ := entry_agree k ts' v rest (Lx_tail hl) hf he.1
    refine ⟨v, rest, cs, h, ?_, h4, h3, ?_⟩
    · rw [hstep, h1, h2, he.1]; simp
    · have := fieldValue_len _ _ _ hf; omega

theorem paraLoop_comment_bad (c n : Tok) (rest : List Tok) (hc : c.1 = .COMMENT) (hn : n.1 ≠ .NEWLINE) :
    (paraLoop (c :: n :: rest)).errs ≠ [] := by
  rw [paraLoop_step c _ (by rw [hc]; simp)]
  have := nlErrs_of_not_nl n hn
  simp only [parseEntry, commentLoop, hc, if_true]
  split <;> simp [this]

theorem paraLoop_ws_bad (t : Tok) (ts : List Tok) (ht : t.1 = .WHITESPACE) :
    (paraLoop (t :: ts)).errs ≠ [] := by
  rw [paraLoop_step t _ (by rw [ht]; simp)]
  have hc : t.1 ≠ .COMMENT := by rw [ht]; simp
  simp [parseEntry, commentLoop_id t ts hc, endsParagraph, ht, entryBody, keyPart]

theorem rootLoop_blank (t : Tok) (ts : List Tok) (hb : isBlankStart t.1 = true) :
    rootLoop (t :: ts) =
      ⟨.node .EMPTY_LINE (untilNl (t :: ts)).1 :: (rootLoop (untilNl (t :: ts)).2).nodes,
        (rootLoop (untilNl (t :: ts)).2).errs, (rootLoop (untilNl (t :: ts)).2).rest⟩ := by
  have hs : skipWsNl (t :: ts) = (.node .EMPTY_LINE (untilNl (t :: ts)).1 ::
      (skipWsNl (untilNl (t :: ts)).2).1, (skipWsNl (untilNl (t :: ts)).2).2) := by
    rw [skipWsNl]; simp [hb]
  generalize untilNl (t :: ts) = b at hs ⊢
  cases hq : skipWsNl b.2 with
  | mk nodes rem =>
    rw [hq] at hs
    cases rem with
    | nil =>
      rw [rootLoop_of_nil (t :: ts) (by simp) _ hs]
      cases hb2 : b.2 with
      | nil =>
        rw [hb2, skipWsNl_nil] at hq
        simp at hq
        rw [rootLoop_nil, hq]
      | cons t2 r2 =>
        rw [hb2] at hq
        rw [rootLoop_of_nil _ (by simp) nodes hq]
    | cons t' r' =>
      rw [rootLoop_of_cons (t :: ts) (by simp) _ t' r' hs]
      have hne : b.2 ≠ [] := by
        intro e; rw [e, skipWsNl_nil] at hq; simp at hq
      rw [rootLoop_of_cons b.2 hne nodes t' r' hq]
      simp

theorem rootLoop_start (t : Tok) (ts : List Tok) (hb : isBlankStart t.1 = false) :
    rootLoop (t :: ts) =
      ⟨.node .PARAGRAPH (paraLoop (t :: ts)).nodes :: (rootLoop (paraLoop (t :: ts)).rest).nodes,
        (paraLoop (t :: ts)).errs ++ (rootLoop (paraLoop (t :: ts)).rest).errs,
        (rootLoop (paraLoop (t :: ts)).rest).rest⟩ := by
  have hs : skipWsNl (t :: ts) = ([], t :: ts) := by rw [skipWsNl]; simp [hb]
  rw [rootLoop_of_cons (t :: ts) (by simp) _ t ts hs]; simp

theorem untilNl_snd (ts : List Tok) : (untilNl ts).2 = skipComment ts := by
  induction ts with
  | nil => rfl
  | cons t ts ih =>
    obtain ⟨k, s⟩ := t
    simp only [untilNl, skipComment]
    split <;> simp [ih]

theorem Lx_skipComment (ts : List Tok) : ∀ {p : Kind}, Lx p ts → Lx .NEWLINE (skipComment ts) := by
  induction ts with
  | nil => intro p _; trivial
  | cons t ts ih =>
    intro p h
    obtain ⟨k, s⟩ := t
    simp only [skipComment]
    split
    · rename_i hk; exact Lx_after_nl h hk
    · exact ih (Lx_tail h)

/-- between paragraphs (lossy `cur = []`, lossless `rootLoop`) -/
def RootStmt (ts : List Tok) : Prop :=
  ∀ (paras d : Doc), Lx .NEWLINE ts → loop paras [] ts = .ok d → (rootLoop ts).errs = [] →
    d.map (·.map nbF) = paras.map (·.map nbF) ++ (dItems (rootLoop ts).nodes).map (·.map nbF)

/-- inside a paragraph (lossy `cur ≠ []`, lossless `paraLoop`, then `rootLoop` on what is left) -/
def ParaStmt (ts : List Tok) : Prop :=
  ∀ (paras : Doc) (cur : Para) (d : Doc), cur ≠ [] → Lx .NEWLINE ts → loop paras cur ts = .ok d →
    (paraLoop ts).errs = [] → (rootLoop (paraLoop ts).rest).errs = [] →
    d.map (·.map nbF) = paras.map (·.map nbF) ++
      ((cur ++ pItems (paraLoop ts).nodes).map nbF ::
        (dItems (rootLoop (paraLoop ts).rest).nodes).map (·.map nbF))

theorem flush_nil (paras : Doc) : flush paras [] = paras := by simp [flush]
theorem flush_ne (paras : Doc) (cur : Para) (h : cur ≠ []) : flush paras cur = paras ++ [cur] := by
  simp [flush, h]

theorem agree_aux : ∀ n : Nat,
    (∀ ts : List Tok, ts.length < n → RootStmt ts) ∧ (∀ ts : List Tok, ts.length < n → ParaStmt ts) := by
  intro n
  induction n with
  | zero => exact ⟨fun ts h => by omega, fun ts h => by omega⟩
  | succ n ih =>
    obtain ⟨ihR, ihP⟩ := ih
    constructor
    · -- between paragraphs
      intro ts hlen paras d hl h herr
      cases ts with
      | nil =>
        rw [loop_nil, flush_nil] at h
        simp at h
        subst h
        rw [rootLoop_nil]; simp
      | cons t ts' =>
        obtain ⟨k, s⟩ := t
        simp only [List.length_cons] at hlen
        cases k with
        | NEWLINE =>
          rw [loop_newline, flush_nil] at h
          have hb := rootLoop_blank (.NEWLINE, s) ts' rfl
          have hu : untilNl ((.NEWLINE, s) :: ts') = ([tk (.NEWLINE, s)], ts') := by simp [untilNl]
          rw [hu] at hb
          rw [hb] at herr ⊢
          have := ihR ts' (by omega) paras d (Lx_after_nl hl rfl) h herr
          rw [this, dItems_empty]
        | COMMENT =>
          rw [loop_comment] at h
          have hb := rootLoop_blank (.COMMENT, s) ts' rfl
          have hu : (untilNl ((.COMMENT, s) :: ts')).2 = skipComment ts' := by
            rw [← untilNl_snd ts']; simp [untilNl]
          rw [hu] at hb
          rw [hb] at herr ⊢
          have hlen' := skipComment_len ts'
          have := ihR (skipComment ts') (by omega) paras d (Lx_skipComment ts' (Lx_tail hl)) h herr
          rw [this, dItems_empty]
        | WHITESPACE => exact absurd rfl (Lx_linestart_not_ws hl)
        | KEY =>
          have hb := rootLoop_start (.KEY, s) ts' rfl
          rw [hb] at herr ⊢
          simp only [List.append_eq_nil_iff] at herr
          obtain ⟨v, rest, cs, hloop, hpl, hnb, hlr, hlen'⟩ := key_step s ts' paras [] d hl h herr.1
          obtain ⟨herr1, herr2⟩ := herr
          rw [hpl] at herr1 herr2 ⊢
          simp only [] at herr1 herr2 ⊢
          have := ihP rest (by omega) paras ([] ++ [(s, v)]) d (by simp) hlr hloop herr1 herr2
          rw [this, dItems_para, pItems_entry]
          simp [nbF, hnb]
        | _ => rw [loop] at h; simp at h
    · -- inside a paragraph
      intro ts hlen paras cur d hcur hl h herr1 herr2
      cases ts with
      | nil =>
        rw [loop_nil, flush_ne _ _ hcur] at h
        simp at h
        subst h
        rw [paraLoop_nil]; simp only []; rw [rootLoop_nil]; simp
      | cons t ts' =>
        obtain ⟨k, s⟩ := t
        simp only [List.length_cons] at hlen
        cases k with
        | NEWLINE =>
          rw [loop_newline, flush_ne _ _ hcur] at h
          rw [paraLoop_newline _ _ rfl] at herr2 ⊢
          simp only [] at herr2 ⊢
          have hb := rootLoop_blank (.NEWLINE, s) ts' rfl
          have hu : untilNl ((.NEWLINE, s) :: ts') = ([tk (.NEWLINE, s)], ts') := by simp [untilNl]
          rw [hu] at hb
          rw [hb] at herr2 ⊢
          have := ihR ts' (by omega) (paras ++ [cur]) d (Lx_after_nl hl rfl) h herr2
          rw [this, dItems_empty]
          simp
        | COMMENT =>
          rw [loop_comment] at h
          cases ts' with
          | nil =>
            simp only [skipComment] at h
            rw [loop_nil, flush_ne _ _ hcur] at h
            simp at h
            subst h
            have hp : paraLoop [(.COMMENT, s)] = ⟨[tk (.COMMENT, s)], [], []⟩ := by
              rw [paraLoop_step _ _ (by simp), parseEntry_comment_eof]; simp [paraLoop_nil]
            rw [hp]; simp only []; rw [rootLoop_nil, pItems_tk]; simp
          | cons nt ts'' =>
            obtain ⟨kn, sn⟩ := nt
            by_cases hn : kn = .NEWLINE
            · subst hn
              simp only [skipComment, if_true] at h
              rw [paraLoop_comment] at herr1 herr2 ⊢
              simp only [] at herr1 herr2 ⊢
              simp only [List.length_cons] at hlen
              have := ihP ts'' (by omega) paras cur d hcur (Lx_after_nl (Lx_tail hl) rfl) h herr1 herr2
              rw [this, pItems_tk, pItems_tk]
            · exact absurd herr1 (paraLoop_comment_bad (.COMMENT, s) (kn, sn) ts'' rfl hn)
        | WHITESPACE => exact absurd herr1 (paraLoop_ws_bad (.WHITESPACE, s) ts' rfl)
        | KEY =>
          obtain ⟨v, rest, cs, hloop, hpl, hnb, hlr, hlen'⟩ := key_step s ts' paras cur d hl h herr1
          rw [hpl] at herr1 herr2 ⊢
          simp only [] at herr1 herr2 ⊢
          have := ihP rest (by omega) paras (cur ++ [(s, v)]) d (by simp) hlr hloop herr1 herr2
          rw [this, pItems_entry]
          simp [nbF, hnb]
        | _ => rw [loop] at h; simp at h

/-- **token-level agreement**: on a token list satisfying the lexer invariant, if the lossy reader
    accepts and the lossless parser reports no error, the two contents agree up to blank value
    lines -/
theorem agree_tok (ts : List Tok) (d : Doc) (hl : Lx .NEWLINE ts)
    (h : loop [] [] ts = .ok d) (he : (parseTokens ts).errors = []) :
    d.map (·.map nbF) = (docItems (parseTokens ts).tree).map (·.map nbF) := by
  have := (agree_aux (ts.length + 1)).1 ts (by omega) [] d hl h he
  simpa [parseTokens, docItems_root] using this

end Deb822Verif.Deb
