import Deb822Verif.Lemmas.RelParseField
/-! The read accessors of the lossless reader on the tree of a well-formed field: they expose
    exactly `FieldA.view` / `FieldA.substvars` (C10, stage 3). -/
set_option linter.unusedSimpArgs false
set_option linter.unusedVariables false
namespace Deb822Verif.Rel
open Deb822Verif Node RelSpec

/-! ### child-node filters -/

/-- `children().filter(kind == k)` on a child list -/
def cn (k : Kind) (cs : List RNode) : List RNode := cs.filter fun c => c.isNode && c.kind == k

theorem childNodes_node (k k' : Kind) (cs : List RNode) : childNodes k (.node k' cs) = cn k cs := rfl

@[simp] theorem cn_nil (k : Kind) : cn k [] = [] := rfl
@[simp] theorem cn_append (k : Kind) (a b : List RNode) : cn k (a ++ b) = cn k a ++ cn k b := by
  simp [cn]
@[simp] theorem cn_tks (k : Kind) (ts : List Tok) : cn k (tks ts) = [] := by
  induction ts with
  | nil => rfl
  | cons t ts ih => simpa [cn, tks, tk, Node.isNode] using ih
@[simp] theorem cn_cons_tok (k : Kind) (t : Tok) (cs : List RNode) : cn k (tk t :: cs) = cn k cs := by
  simp [cn, tk, Node.isNode]
theorem cn_cons_node (k k' : Kind) (xs cs : List RNode) :
    cn k (Node.node k' xs :: cs) = if k' = k then Node.node k' xs :: cn k cs else cn k cs := by
  by_cases h : k' = k <;> simp [cn, Node.isNode, Node.kind, h]

def verNodes (v : Option VerPart) : List RNode :=
  match v with
  | some v => tks (gapToks v.pre) ++ [v.node]
  | none => []

theorem RelA.node_eq' (r : RelA) (tail : List Tok) :
    r.node tail = .node .RELATION (tk (.IDENT, r.name) :: (aqNodes r.archqual
      ++ (verNodes r.version ++ (archNodes r.archs ++ (profsNodes r.profiles ++ tks tail))))) := by
  rw [RelA.node_eq]; cases r.version <;> rfl

theorem cn_aqNodes (k : Kind) (aq : Option Str) :
    cn k (aqNodes aq) = if k = .ARCHQUAL then aqNodes aq else [] := by
  cases aq with
  | none => simp [aqNodes]
  | some a =>
    by_cases h : k = .ARCHQUAL
    · subst h; simp [aqNodes, cn_cons_node]
    · have : ¬ Kind.ARCHQUAL = k := fun e => h e.symm
      simp [aqNodes, cn_cons_node, h, this]

theorem cn_verNodes (k : Kind) (v : Option VerPart) :
    cn k (verNodes v) = if k = .VERSION then (match v with | some v => [v.node] | none => []) else [] := by
  cases v with
  | none => simp [verNodes]
  | some v =>
    by_cases h : k = .VERSION
    · subst h; simp [verNodes, VerPart.node, cn_cons_node]
    · have : ¬ Kind.VERSION = k := fun e => h e.symm
      simp [verNodes, VerPart.node, cn_cons_node, h, this]

theorem cn_archNodes (k : Kind) (a : Option Bracket) :
    cn k (archNodes a) = if k = .ARCHITECTURES then
      (match a with | some a => [Node.node .ARCHITECTURES (tks (archBody a))] | none => []) else [] := by
  cases a with
  | none => simp [archNodes]
  | some a =>
    by_cases h : k = .ARCHITECTURES
    · subst h; simp [archNodes, cn_cons_node]
    · have : ¬ Kind.ARCHITECTURES = k := fun e => h e.symm
      simp [archNodes, cn_cons_node, h, this]

theorem cn_profsNodes (k : Kind) (ps : List Bracket) :
    cn k (profsNodes ps) = if k = .PROFILES then ps.map (fun p => Node.node .PROFILES (tks (profBody p))) else [] := by
  induction ps with
  | nil => simp [profsNodes]
  | cons p ps ih =>
    rw [profsNodes_cons]
    by_cases h : k = .PROFILES
    · subst h; simp [cn_cons_node] at ih ⊢; exact ih
    · have : ¬ Kind.PROFILES = k := fun e => h e.symm
      simp [cn_cons_node, h, this] at ih ⊢; exact ih

/-! ### name, qualifier -/

theorem name_rel (r : RelA) (tail : List Tok) : name (r.node tail) = some r.name := by
  rw [RelA.node_eq']; simp [name, firstIdentTok, Node.children, tk]

theorem archqual_rel (r : RelA) (tail : List Tok) : archqual (r.node tail) = r.archqual := by
  rw [RelA.node_eq']
  simp only [archqual, firstChildNode, childNodes_node, cn_cons_tok, cn_append, cn_aqNodes, cn_verNodes,
    cn_archNodes, cn_profsNodes, cn_tks]
  cases r.archqual with
  | none => simp [aqNodes]
  | some a => simp [aqNodes, firstIdentTok, Node.children, tk]


/-! ### version -/

theorem splitLastDash_noDash {s b a : Str} (h : splitLastDash s = some (b, a)) : '-' ∉ a := by
  induction s generalizing b a with
  | nil => simp [splitLastDash] at h
  | cons c cs ih =>
    simp only [splitLastDash] at h
    split at h
    · rename_i b' a' hs
      simp at h; obtain ⟨_, rfl⟩ := h
      exact ih hs
    · rename_i hs
      split at h
      · simp at h; obtain ⟨_, rfl⟩ := h
        -- no dash further on, otherwise the recursive call would have found it
        intro hm
        have : ∀ (l : Str), '-' ∈ l → splitLastDash l ≠ none := by
          intro l
          induction l with
          | nil => simp
          | cons d ds ihd =>
            intro hd
            simp only [splitLastDash]
            cases hds : splitLastDash ds with
            | some p => simp
            | none =>
              by_cases hdd : d = '-'
              · simp [hdd]
              · have : '-' ∈ ds := by
                  rcases List.mem_cons.1 hd with h | h
                  · exact absurd h.symm hdd
                  · exact h
                exact absurd hds (ihd this)
        exact this cs hm hs
      · simp at h

theorem revChar_of_ident_not_dash {c : Char} (h : isIdentChar c = true) (hd : c ≠ '-') : isRevChar c = true := by
  simp only [isIdentChar, Bool.or_eq_true, beq_iff_eq] at h
  simp only [isRevChar, Bool.or_eq_true, beq_iff_eq]
  rcases h with (((h | h) | h) | h) | h
  · exact Or.inl (Or.inl (Or.inl h))
  · exact absurd h hd
  · exact Or.inl (Or.inr h)
  · exact Or.inl (Or.inl (Or.inr h))
  · exact Or.inr h

/-- on a non-empty text of upstream-version characters (identifier characters and ':') the regex
    splits exactly as `splitRev` -/
theorem matchUpstreamRev_body (body : Str) (hne : body ≠ []) (hall : ∀ c ∈ body, isUpstreamChar c = true) :
    matchUpstreamRev body = some (splitRev body) := by
  have hup : body.all isUpstreamChar = true := by rw [List.all_eq_true]; exact hall
  have hemp : body.isEmpty = false := by cases body <;> simp at hne ⊢
  simp only [matchUpstreamRev, hemp, hup, Bool.not_true, Bool.or_self, Bool.false_eq_true, ↓reduceIte,
    splitRev]
  cases hs : splitLastDash body with
  | none => rfl
  | some p =>
    obtain ⟨b, a⟩ := p
    simp only
    split <;> rfl

theorem matchUpstreamRev_ident (body : Str) (hb : isIdent body = true) :
    matchUpstreamRev body = some (splitRev body) := by
  obtain ⟨hne, hall⟩ := (isIdent_iff body).1 hb
  exact matchUpstreamRev_body body hne fun c hc => isUpstreamChar_of_ident (hall c hc)

/-- on an identifier the third condition of `splitRev` (the right side is a revision) is automatic: it
    splits at the last hyphen whenever both sides are non-empty -/
theorem splitRev_ident (body : Str) (hb : isIdent body = true) :
    splitRev body = match splitLastDash body with
      | some (b, a) => if !b.isEmpty && !a.isEmpty then (b, some a) else (body, none)
      | none => (body, none) := by
  obtain ⟨hne, hall⟩ := (isIdent_iff body).1 hb
  simp only [splitRev]
  cases hs : splitLastDash body with
  | none => rfl
  | some p =>
    obtain ⟨b, a⟩ := p
    have hnd := splitLastDash_noDash hs
    have hbody := splitLastDash_eq hs
    have harev : a.all isRevChar = true := by
      rw [List.all_eq_true]
      intro c hc
      have hcb : c ∈ body := by rw [hbody]; simp [hc]
      exact revChar_of_ident_not_dash (hall c hcb) (fun e => hnd (e ▸ hc))
    simp [harev]

/-- every character of a text is the separator or lies in one of the pieces -/
theorem mem_splitOn (sep : Char) (s : Str) (c : Char) (hc : c ∈ s) :
    c = sep ∨ ∃ q ∈ Text.splitOn sep s, c ∈ q := by
  have h : c ∈ ((Text.splitOn sep s).map fun q => sep :: q).flatten := by
    rw [splitOn_flatten]; simp [hc]
  simp only [List.mem_flatten, List.mem_map] at h
  obtain ⟨l, ⟨q, hq, rfl⟩, hcl⟩ := h
  rcases List.mem_cons.1 hcl with h | h
  · exact Or.inl h
  · exact Or.inr ⟨q, hq, h⟩

/-- the body of a well-formed version: non-empty, identifier characters and — with an epoch — ':' -/
theorem VersionA.body_upstream (v : VersionA) (hv : v.ok = true) :
    v.body ≠ [] ∧ ∀ c ∈ v.body, isUpstreamChar c = true := by
  obtain ⟨hb, hm, _⟩ := (VersionA.ok_iff v).1 hv
  cases v with
  | mk epoch body =>
    cases epoch with
    | none =>
      obtain ⟨hne, hall⟩ := (isIdent_iff _).1 hb
      exact ⟨hne, fun c hc => isUpstreamChar_of_ident (hall c hc)⟩
    | some e =>
      simp only [VersionA.more] at hm
      refine ⟨?_, fun c hc => ?_⟩
      · rintro rfl
        have := hm [] (by simp [Text.splitOn])
        simp [isIdent] at this
      · rcases mem_splitOn ':' body c hc with rfl | ⟨q, hq, hcq⟩
        · decide
        · exact isUpstreamChar_of_ident (((isIdent_iff q).1 (hm q hq)).2 c hcq)

/-- the version that was written always parses, to the value that was written -/
theorem Version.parse_written (v : VersionA) (hv : v.ok = true) : Version.parse v.str = some v.value := by
  obtain ⟨hb, _, he⟩ := (VersionA.ok_iff v).1 hv
  obtain ⟨hbne, hbup⟩ := VersionA.body_upstream v hv
  have hm := matchUpstreamRev_body v.body hbne hbup
  cases hep : v.epoch with
  | none =>
    have hb' : isIdent v.body = true := by simpa [VersionA.first, hep] using hb
    obtain ⟨hne, hall⟩ := (isIdent_iff v.body).1 hb'
    have hnoepoch : ∀ rest, v.body.dropWhile isAsciiDigit ≠ ':' :: rest := by
      intro rest hh
      have hmem : ':' ∈ v.body.dropWhile isAsciiDigit := by rw [hh]; simp
      have := hall ':' ((List.dropWhile_sublist _).subset hmem)
      rw [colon_not_ident] at this; exact absurd this (by decide)
    have hea : Version.epochAlt v.body = none := by
      unfold Version.epochAlt
      split
      · rename_i rest hh; exact absurd hh (hnoepoch rest)
      · rfl
    simp [VersionA.str, VersionA.value, hep, Version.parse, hea, hm]
  | some e =>
    obtain ⟨hd, hlt⟩ := he e hep
    have hdig : ∀ c ∈ e, isAsciiDigit c = true := by
      cases e with
      | nil => simp [isDigits] at hd
      | cons c cs => simpa [isDigits, List.all_eq_true] using hd
    have hemp : e.isEmpty = false := by cases e <;> simp [isDigits] at hd ⊢
    have hf : HeadFails isAsciiDigit (':' :: v.body) := headFails_cons _ _ _ (by decide)
    have h1 : (e ++ ':' :: v.body).dropWhile isAsciiDigit = ':' :: v.body := dropWhile_app _ _ _ hdig hf
    have h2 : (e ++ ':' :: v.body).takeWhile isAsciiDigit = e := takeWhile_app _ _ _ hdig hf
    have hea : Version.epochAlt (e ++ ':' :: v.body)
        = some (some ⟨some (digitsVal e), (splitRev v.body).1, (splitRev v.body).2⟩) := by
      simp [Version.epochAlt, h1, h2, hemp, hm, hlt]
    simp [VersionA.str, VersionA.value, hep, Version.parse, hea]

theorem mem_takeWhile_imp {α} {p : α → Bool} {l : List α} {x : α} (h : x ∈ l.takeWhile p) : p x = true := by
  induction l with
  | nil => simp at h
  | cons a as ih =>
    by_cases hp : p a = true
    · simp only [List.takeWhile_cons, hp, ↓reduceIte, List.mem_cons] at h
      rcases h with rfl | h
      · exact hp
      · exact ih h
    · simp [List.takeWhile_cons, hp] at h

/-- the version text `first:body`, `first` an IDENT token and `body` a non-empty text of identifier
    characters and ':' (what the parser accepts after fixes 3b0cae0, 4ba50b0): `Version::from_str`
    fails — and the second `unwrap()` of `Relation::version()` panics — exactly when the first token is
    all digits and does not fit a `u32` -/
theorem Version.parse_epoch_body (e body : Str) (he : isIdent e = true) (hbne : body ≠ [])
    (hbup : ∀ c ∈ body, isUpstreamChar c = true) :
    Version.parse (e ++ ':' :: body) = none ↔ (isDigits e = true ∧ 4294967296 ≤ digitsVal e) := by
  have hm := matchUpstreamRev_body body hbne hbup
  obtain ⟨hene, heall⟩ := (isIdent_iff e).1 he
  by_cases hd : isDigits e = true
  · have hdig : ∀ c ∈ e, isAsciiDigit c = true := by
      cases e with
      | nil => simp [isDigits] at hd
      | cons c cs => simpa [isDigits, List.all_eq_true] using hd
    have hemp : e.isEmpty = false := by cases e <;> simp at hene ⊢
    have hf : HeadFails isAsciiDigit (':' :: body) := headFails_cons _ _ _ (by decide)
    have h1 : (e ++ ':' :: body).dropWhile isAsciiDigit = ':' :: body := dropWhile_app _ _ _ hdig hf
    have h2 : (e ++ ':' :: body).takeWhile isAsciiDigit = e := takeWhile_app _ _ _ hdig hf
    by_cases hlt : digitsVal e < 4294967296
    · have hea : Version.epochAlt (e ++ ':' :: body)
          = some (some ⟨some (digitsVal e), (splitRev body).1, (splitRev body).2⟩) := by
        simp [Version.epochAlt, h1, h2, hemp, hm, hlt]
      simp [Version.parse, hea, hd]; omega
    · have hea : Version.epochAlt (e ++ ':' :: body) = some none := by
        simp [Version.epochAlt, h1, h2, hemp, hm, hlt]
      simp [Version.parse, hea, hd]; omega
  · -- some character of `e` is not a digit: the epoch alternative does not match, the plain one does
    have hnd : e.dropWhile isAsciiDigit ≠ [] := by
      intro hnil
      have hall : e.all isAsciiDigit = true := by
        rw [List.all_eq_true]
        intro c hc
        have := List.takeWhile_append_dropWhile (p := isAsciiDigit) (l := e)
        rw [hnil, List.append_nil] at this
        rw [← this] at hc
        exact (mem_takeWhile_imp hc)
      have : isDigits e = true := by
        cases e with
        | nil => exact absurd rfl hene
        | cons c cs => simpa [isDigits] using hall
      exact hd this
    obtain ⟨c, post, hcp⟩ : ∃ c post, e.dropWhile isAsciiDigit = c :: post := by
      cases h : e.dropWhile isAsciiDigit with
      | nil => exact absurd h hnd
      | cons c post => exact ⟨c, post, rfl⟩
    have hcnd : isAsciiDigit c = false := by
      have := List.head?_dropWhile_not isAsciiDigit e
      rw [hcp] at this; simpa using this
    have hcmem : c ∈ e := (List.dropWhile_sublist _).subset (by rw [hcp]; simp)
    have hcne : c ≠ ':' := by
      intro ec; have := heall c hcmem; rw [ec, colon_not_ident] at this; cases this
    have hsplit : e = e.takeWhile isAsciiDigit ++ c :: post := by
      rw [← hcp]; exact (List.takeWhile_append_dropWhile).symm
    have hdrop : (e ++ ':' :: body).dropWhile isAsciiDigit = c :: (post ++ ':' :: body) := by
      conv => lhs; rw [hsplit]
      simp only [List.append_assoc, List.cons_append]
      exact dropWhile_app _ _ _ (fun x hx => mem_takeWhile_imp hx) (headFails_cons _ _ _ hcnd)
    have hea : Version.epochAlt (e ++ ':' :: body) = none := by
      unfold Version.epochAlt
      rw [hdrop]
      split
      · rename_i rest hh; simp at hh; exact absurd hh.1 hcne
      · rfl
    have hup : (e ++ ':' :: body).all isUpstreamChar = true := by
      rw [List.all_eq_true]
      intro x hx
      simp only [List.mem_append, List.mem_cons] at hx
      rcases hx with hx | rfl | hx
      · exact isUpstreamChar_of_ident (heall x hx)
      · decide
      · exact hbup x hx
    have hne2 : (e ++ ':' :: body).isEmpty = false := by cases e <;> simp
    have hmu : ∃ u r, matchUpstreamRev (e ++ ':' :: body) = some (u, r) := by
      unfold matchUpstreamRev
      rw [if_neg (by simp [hne2, hup])]
      split
      · exact ⟨_, _, rfl⟩
      · split <;> exact ⟨_, _, rfl⟩
    obtain ⟨u, r, hur⟩ := hmu
    simp [Version.parse, hea, hur, hd]

/-- the version text `epoch:body` made of two IDENT tokens -/
theorem Version.parse_epoch_ident (e body : Str) (he : isIdent e = true) (hb : isIdent body = true) :
    Version.parse (e ++ ':' :: body) = none ↔ (isDigits e = true ∧ 4294967296 ≤ digitsVal e) :=
  Version.parse_epoch_body e body he ((isIdent_iff body).1 hb).1
    fun c hc => isUpstreamChar_of_ident (((isIdent_iff body).1 hb).2 c hc)

/-- the version text of `IDENT (COLON IDENT)+` tokens, any number of them -/
theorem Version.parse_epoch_idents (e q : Str) (qs : List Str) (he : isIdent e = true)
    (hq : ∀ x ∈ q :: qs, isIdent x = true) :
    Version.parse (e ++ ((q :: qs).map fun x => ':' :: x).flatten) = none
      ↔ (isDigits e = true ∧ 4294967296 ≤ digitsVal e) := by
  have hq0 := (isIdent_iff q).1 (hq q (by simp))
  have e1 : ((q :: qs).map fun x => ':' :: x).flatten = ':' :: (q ++ (qs.map fun x => ':' :: x).flatten) := by
    simp
  rw [e1]
  refine Version.parse_epoch_body e _ he ?_ ?_
  · cases q with
    | nil => exact absurd rfl hq0.1
    | cons c cs => simp
  · intro c hc
    simp only [List.mem_append, List.mem_flatten, List.mem_map] at hc
    rcases hc with hc | ⟨l, ⟨x, hx, rfl⟩, hcl⟩
    · exact isUpstreamChar_of_ident (hq0.2 c hc)
    · rcases List.mem_cons.1 hcl with rfl | h
      · decide
      · exact isUpstreamChar_of_ident (((isIdent_iff x).1 (hq x (by simp [hx]))).2 c h)

theorem constraint_text (op : VC) : textList (tks (opToks op)) = op.display := by
  cases op <;> simp [opToks, VC.display, tks, tk]

theorem VC.parse_display (op : VC) : VC.parse op.display = some op := by
  cases op <;> simp [VC.parse, VC.display]

/-- `versionText`'s filter -/
def vtF (c : RNode) : Option Str :=
  match c with
  | .tok k t => if k = .IDENT ∨ k = .COLON then some t else none
  | .node _ _ => none

theorem versionText_node (k : Kind) (cs : List RNode) : versionText (.node k cs) = (cs.filterMap vtF).flatten := rfl

theorem vtF_gap (g : Gap) : (tks (gapToks g)).filterMap vtF = [] := by
  induction g with
  | nil => rfl
  | cons p g ih => cases p <;> simpa [gapToks, GapPiece.tok, tks, tk, vtF] using ih

theorem vtF_colonTail (qs : List Str) :
    ((tks (colonTail qs)).filterMap vtF).flatten = (qs.map fun q => ':' :: q).flatten := by
  induction qs with
  | nil => rfl
  | cons q qs ih => simp [tk, vtF, ih]

theorem vtF_ver (v : VersionA) : ((tks v.toks).filterMap vtF).flatten = v.str := by
  rw [VersionA.str_eq]
  simp [VersionA.toks, tk, vtF, vtF_colonTail]

theorem versionText_ver (v : VerPart) : versionText v.node = v.ver.str := by
  simp only [VerPart.node, versionText_node, List.filterMap_cons, List.filterMap_append, vtF_gap]
  simp [tk, vtF, vtF_ver]

theorem version_rel (r : RelA) (tail : List Tok) (hr : r.ok = true) :
    version (r.node tail) = .ok (r.version.map fun v => (v.op, v.ver.value)) := by
  rw [RelA.node_eq']
  simp only [version, firstChildNode, childNodes_node, cn_cons_tok, cn_append, cn_aqNodes, cn_verNodes,
    cn_archNodes, cn_profsNodes, cn_tks]
  cases hv : r.version with
  | none => simp
  | some v =>
    have hvok : v.ver.ok = true :=
      ((VerPart.ok_iff v).1 (((RelA.ok_iff r).1 hr).2.2.1 v hv)).2.2.2.2
    have hc : cn .CONSTRAINT (v.node.children) = [Node.node .CONSTRAINT (tks (opToks v.op))] := by
      simp [VerPart.node, Node.children, cn_cons_node]
    have hne : v.ver.str ≠ [] := by
      obtain ⟨hb, _⟩ := (VersionA.ok_iff v.ver).1 hvok
      obtain ⟨hne, _⟩ := (isIdent_iff _).1 hb
      rw [VersionA.str_eq]
      simp [hne]
    have hcn : childNodes .CONSTRAINT v.node = cn .CONSTRAINT v.node.children := by
      simp [VerPart.node, childNodes_node, Node.children]
    simp [hcn, hc, hne, constraint_text, VC.parse_display, versionText_ver, Version.parse_written _ hvok]

/-! ### architectures -/

theorem archStep_gap (g : Gap) (st : Bool × List Str) : (tks (gapToks g)).foldl archStep st = st := by
  induction g generalizing st with
  | nil => rfl
  | cons p g ih => cases p <;> simpa [gapToks, GapPiece.tok, tks, tk, archStep] using ih st

theorem archStep_items (is : List Item) (acc : List Str) :
    (tks (itemsToks is)).foldl archStep (false, acc) = (false, acc ++ is.map Item.text) := by
  induction is generalizing acc with
  | nil => simp [itemsToks]
  | cons i is ih =>
    simp only [itemsToks, List.map_cons, List.flatten_cons, tks_append, List.foldl_append] at ih ⊢
    cases hn : i.neg with
    | false =>
      simp only [Item.toks, hn, Bool.false_eq_true, ↓reduceIte, List.append_nil, tks_append,
        List.foldl_append, archStep_gap]
      simp [tk, archStep, ih, Item.text, hn]
    | true =>
      simp only [Item.toks, hn, ↓reduceIte, tks_append, List.foldl_append, archStep_gap]
      simp [tk, archStep, ih, Item.text, hn]

theorem architectures_rel (r : RelA) (tail : List Tok) :
    architectures (r.node tail) = r.archs.map fun a => a.items.map Item.text := by
  rw [RelA.node_eq']
  simp only [architectures, firstChildNode, childNodes_node, cn_cons_tok, cn_append, cn_aqNodes,
    cn_verNodes, cn_archNodes, cn_profsNodes, cn_tks]
  cases ha : r.archs with
  | none => simp
  | some a =>
    have : ((tks (archBody a)).foldl archStep (false, [])).2 = a.items.map Item.text := by
      simp only [archBody, Bracket.body, tks_cons, tks_append, List.foldl_cons, List.foldl_append]
      have e1 : archStep (false, []) (tk (Kind.L_BRACKET, ['['])) = (false, []) := by simp [tk, archStep]
      rw [e1, archStep_items, archStep_gap]
      simp [tk, archStep]
    simp [Node.children]
    exact this

/-! ### profiles -/

/-- the pending term flushed -/
def flush (st : List BuildProfile × List Str) : List BuildProfile :=
  if st.2.isEmpty then st.1 else BuildProfile.parse st.2.flatten :: st.1

theorem profileStep_ws (st : List BuildProfile × List Str) (t : Tok) (ht : isWsKind t.1 = true) :
    profileStep st (tk t) = (flush st, []) := by
  have hk : t.1 = .WHITESPACE ∨ t.1 = .NEWLINE := by
    simpa [isWsKind] using ht
  obtain ⟨ret, cur⟩ := st
  cases cur with
  | nil => simp [profileStep, tk, Node.kind, hk, flush]
  | cons c cs => simp [profileStep, tk, Node.kind, hk, flush]

theorem fold_ws (ws : List Tok) (hws : ∀ t ∈ ws, isWsKind t.1 = true) (st : List BuildProfile × List Str) :
    (tks ws).foldl profileStep st = if ws.isEmpty then st else (flush st, []) := by
  induction ws generalizing st with
  | nil => rfl
  | cons t ts ih =>
    simp only [tks_cons, List.foldl_cons, profileStep_ws st t (hws t (by simp))]
    rw [ih (fun x hx => hws x (by simp [hx]))]
    cases ts <;> simp [flush]

theorem flush_fold_ws (ws : List Tok) (hws : ∀ t ∈ ws, isWsKind t.1 = true) (st : List BuildProfile × List Str) :
    flush ((tks ws).foldl profileStep st) = flush st := by
  rw [fold_ws ws hws st]; split <;> simp [flush]

theorem parse_ident_profile (n : Str) (hn : isIdent n = true) : BuildProfile.parse n = .Enabled n := by
  obtain ⟨hne, hall⟩ := (isIdent_iff n).1 hn
  cases n with
  | nil => exact absurd rfl hne
  | cons c cs =>
    have hc : c ≠ '!' := by
      intro e; have := hall c (by simp); rw [e] at this; exact absurd this (by decide)
    simp only [BuildProfile.parse]
    split
    · rename_i r heq; simp at heq; exact absurd heq.1 hc
    · rfl

theorem fold_item (i : Item) (hi : i.ok = true) (st : List BuildProfile × List Str)
    (h : i.gap.isEmpty = false ∨ st.2 = []) :
    ∃ st', (tks i.toks).foldl profileStep st = st' ∧ st'.2 ≠ [] ∧ flush st' = i.profile :: flush st := by
  obtain ⟨_, hn⟩ := (Item.ok_iff i).1 hi
  have hgap : (tks (gapToks i.gap)).foldl profileStep st = (flush st, []) := by
    rw [fold_ws _ (gapToks_ws _) st]
    rcases h with h | h
    · have : (gapToks i.gap).isEmpty = false := by cases hg : i.gap <;> simp [hg, gapToks] at h ⊢
      simp [this]
    · obtain ⟨ret, cur⟩ := st
      simp at h; subst h
      split <;> simp [flush]
  cases hneg : i.neg with
  | false =>
    refine ⟨(flush st, [i.name]), ?_, by simp, ?_⟩
    · simp [Item.toks, hneg, List.foldl_append, hgap, tk, profileStep, Node.kind, Node.text]
    · simp [flush, Item.profile, hneg, parse_ident_profile _ hn]
  | true =>
    refine ⟨(flush st, [['!'], i.name]), ?_, by simp, ?_⟩
    · simp [Item.toks, hneg, List.foldl_append, hgap, tk, profileStep, Node.kind, Node.text]
    · simp [flush, Item.profile, hneg, BuildProfile.parse]

theorem fold_items (is : List Item) (hok : ∀ i ∈ is, i.ok = true) (hl : laterGapsOk is = true)
    (st : List BuildProfile × List Str)
    (h0 : ∀ i, is.head? = some i → i.gap.isEmpty = false ∨ st.2 = []) :
    flush ((tks (itemsToks is)).foldl profileStep st) = (is.map Item.profile).reverse ++ flush st := by
  induction is generalizing st with
  | nil => simp [itemsToks]
  | cons i is ih =>
    obtain ⟨st', e, hne, hf⟩ := fold_item i (hok i (by simp)) st (h0 i (by simp))
    simp only [laterGapsOk, List.all_eq_true, Bool.not_eq_true'] at hl
    simp only [itemsToks, List.map_cons, List.flatten_cons, tks_append, List.foldl_append, e]
    have := ih (fun j hj => hok j (by simp [hj]))
      (by cases is with
          | nil => rfl
          | cons j js =>
            simp only [laterGapsOk, List.all_eq_true, Bool.not_eq_true']
            exact fun x hx => hl x (by simp [hx]))
      st' (by
        intro j hj
        cases is with
        | nil => simp at hj
        | cons j' js => simp at hj; subst hj; exact Or.inl (hl _ (by simp)))
    simp only [itemsToks] at this
    rw [this, hf]; simp

theorem profileGroup_bracket (p : Bracket) (hp : p.ok = true) :
    profileGroup (Node.node .PROFILES (tks (profBody p))) = p.items.map Item.profile := by
  obtain ⟨_, _, h4, h5⟩ := (Bracket.ok_iff p).1 hp
  have h := fold_items p.items h4 h5 ([], []) (fun i _ => Or.inr rfl)
  have hpost := flush_fold_ws (gapToks p.post) (gapToks_ws _) ((tks (itemsToks p.items)).foldl profileStep ([], []))
  simp only [profileGroup, Node.children, profBody, Bracket.body, tks_cons, tks_append, List.foldl_cons,
    List.foldl_append, tks_nil, List.foldl_nil]
  have e1 : profileStep ([], []) (tk (Kind.L_ANGLE, ['<'])) = ([], []) := by
    simp [profileStep, tk, Node.kind]
  have e2 : ∀ st, profileStep st (tk (Kind.R_ANGLE, ['>'])) = st := by
    intro st; simp [profileStep, tk, Node.kind]
  rw [e1, e2]
  have : ∀ st : List BuildProfile × List Str,
      (if !st.2.isEmpty then BuildProfile.parse st.2.flatten :: st.1 else st.1) = flush st := by
    intro st; simp only [flush]; cases st.2.isEmpty <;> simp
  rw [this, hpost, h]; simp [flush]

theorem profiles_rel (r : RelA) (tail : List Tok) (hr : r.ok = true) :
    profiles (r.node tail) = r.profiles.map fun g => g.items.map Item.profile := by
  rw [RelA.node_eq']
  simp only [profiles, childNodes_node, cn_cons_tok, cn_append, cn_aqNodes, cn_verNodes, cn_archNodes,
    cn_profsNodes, cn_tks]
  have hps := ((RelA.ok_iff r).1 hr).2.2.2.2
  simp only [Kind.noConfusion, reduceCtorEq, ↓reduceIte, List.nil_append, List.append_nil, List.map_map]
  apply List.map_congr_left
  intro p hp
  exact profileGroup_bracket p (hps p hp)

/-- all the accessors on the RELATION node of a well-formed relation -/
theorem accRelation_rel (r : RelA) (tail : List Tok) (hr : r.ok = true) :
    accRelation (r.node tail) = some r.view := by
  simp [accRelation, name_rel, version_rel r tail hr, archqual_rel, architectures_rel,
    profiles_rel r tail hr, RelA.view]


/-! ### entries, alternatives, substitution variables -/

theorem cn_rel_node (k : Kind) (r : RelA) (t : List Tok) (cs : List RNode) :
    cn k (r.node t :: cs) = if Kind.RELATION = k then r.node t :: cn k cs else cn k cs := by
  unfold RelA.node; exact cn_cons_node _ _ _ _

theorem relations_alts (r : RelA) (rest : List AltA) (post : Gap) (fl : Follow)
    (hr : r.ok = true) (hrest : ∀ a ∈ rest, a.rel.ok = true) :
    (cn .RELATION (altsNodes r rest post fl).1).mapM accRelation
      = some (r.view :: rest.map fun a => a.rel.view) := by
  induction rest generalizing r with
  | nil =>
    simp only [altsNodes]
    (repeat' split) <;> simp [cn_rel_node, accRelation_rel r _ hr]
  | cons a as ih =>
    have ih' := ih a.rel (hrest a (by simp)) (fun b hb => hrest b (by simp [hb]))
    simp only [altsNodes]
    split <;> simp [cn_rel_node, accRelation_rel r _ hr, ih']

def segRelsOk (s : Seg) : Prop := ∀ r ∈ s.entry.rels, r.ok = true

theorem cn_entry_seg (s : Seg) (fl : Follow) :
    cn .ENTRY (s.nodes fl) = match s.entry with
      | .alts r rest => [Node.node .ENTRY (altsNodes r rest s.post fl).1]
      | _ => [] := by
  cases s with
  | mk pre entry post => cases entry <;> simp [Seg.nodes, cn_cons_node]

theorem cn_substvar_seg (s : Seg) (fl : Follow) :
    cn .SUBSTVAR (s.nodes fl) = match s.entry with
      | .substvar p ps => [Node.node .SUBSTVAR (tks (substvarToks p ps))]
      | _ => [] := by
  cases s with
  | mk pre entry post => cases entry <;> simp [Seg.nodes, cn_cons_node]

theorem entry_view (s : Seg) (fl : Follow) (hs : segRelsOk s) :
    (cn .ENTRY (s.nodes fl)).mapM (fun e => (relations e).mapM accRelation)
      = some (match s.entry.view with | some v => [v] | none => []) := by
  rw [cn_entry_seg]
  cases he : s.entry with
  | empty => simp [EntryA.view]
  | substvar p ps => simp [EntryA.view]
  | alts r rest =>
    have hr : r.ok = true := hs r (by simp [he, EntryA.rels])
    have hrest : ∀ a ∈ rest, a.rel.ok = true := fun a ha => hs a.rel (by
      simp only [he, EntryA.rels, List.mem_cons, List.mem_map]; exact Or.inr ⟨a, ha, rfl⟩)
    simp [relations, childNodes_node, relations_alts r rest s.post fl hr hrest, EntryA.view]

theorem mapM_append_some {α β} (f : α → Option β) (a b : List α) (x y : List β)
    (ha : a.mapM f = some x) (hb : b.mapM f = some y) : (a ++ b).mapM f = some (x ++ y) := by
  induction a generalizing x with
  | nil => simp at ha; subst ha; simpa using hb
  | cons c cs ih =>
    simp only [List.mapM_cons, Option.bind_eq_bind] at ha
    cases hc : f c with
    | none => simp [hc] at ha
    | some v =>
      cases hcs : cs.mapM f with
      | none => simp [hc, hcs] at ha
      | some vs =>
        simp [hc, hcs] at ha; subst ha
        simp [List.mapM_cons, hc, ih vs hcs]

theorem accEntries_segs (ss : List Seg) (h : ∀ s ∈ ss, segRelsOk s) :
    (cn .ENTRY (segsNodes ss)).mapM (fun e => (relations e).mapM accRelation)
      = some (ss.filterMap fun s => s.entry.view) := by
  induction ss with
  | nil => simp [segsNodes]
  | cons s ss ih =>
    have hs := h s (by simp)
    have ih' := ih (fun x hx => h x (by simp [hx]))
    cases ss with
    | nil =>
      simp only [segsNodes, List.filterMap_cons, List.filterMap_nil]
      rw [entry_view s .eof hs]
      cases s.entry.view <;> rfl
    | cons t ts =>
      simp only [segsNodes, cn_append, cn_cons_tok]
      rw [mapM_append_some _ _ _ _ _ (entry_view s .comma hs) ih']
      simp only [List.filterMap_cons]
      cases s.entry.view <;> rfl

theorem substvars_segs (ss : List Seg) :
    (cn .SUBSTVAR (segsNodes ss)).map Node.text = ss.filterMap fun s => s.entry.substText := by
  have key : ∀ (s : Seg) (fl : Follow), (cn .SUBSTVAR (s.nodes fl)).map Node.text
      = (match s.entry.substText with | some v => [v] | none => []) := by
    intro s fl
    rw [cn_substvar_seg]
    cases he : s.entry with
    | empty => simp [EntryA.substText]
    | alts r rest => simp [EntryA.substText]
    | substvar p ps =>
      have : textList (tks (substvarToks p ps)) = (EntryA.substvar p ps).str := by
        have h1 : ∀ (qs : List Str), textList (tks ((qs.map fun q => [(Kind.COLON, [':']), (Kind.IDENT, q)]).flatten))
            = (qs.map fun q => ':' :: q).flatten := by
          intro qs
          induction qs with
          | nil => rfl
          | cons q qs ih => simp [tks, tk] at ih ⊢; exact ih
        simp [substvarToks, EntryA.str, tks_append, h1, tk]
      simp [EntryA.substText, this]
  induction ss with
  | nil => simp [segsNodes]
  | cons s ss ih =>
    cases ss with
    | nil =>
      simp only [segsNodes, List.filterMap_cons, List.filterMap_nil, key]
      cases s.entry.substText <;> rfl
    | cons t ts =>
      simp only [segsNodes, cn_append, cn_cons_tok, List.map_append, key, ih, List.filterMap_cons]
      cases s.entry.substText <;> rfl

/-- C10 stage 3: the accessors on `tree` give `view` -/
theorem accEntries_field (f : FieldA) (h : f.WF) : accEntries f.tree = some f.view := by
  have hok : ∀ s ∈ f.segs, s.ok = true := by
    simpa [FieldA.WF, FieldA.ok, List.all_eq_true] using h
  have hall : ∀ s ∈ f.segs, segRelsOk s := by
    intro s hs r hr
    have hso := ((Seg.ok_iff s).1 (hok s hs)).2.2.1
    cases he : s.entry with
    | empty => simp [he, EntryA.rels] at hr
    | substvar p ps => simp [he, EntryA.rels] at hr
    | alts r0 rest =>
      rw [he] at hso hr
      simp only [EntryA.ok, Bool.and_eq_true, List.all_eq_true] at hso
      simp only [EntryA.rels, List.mem_cons, List.mem_map] at hr
      rcases hr with rfl | ⟨a, ha, rfl⟩
      · exact hso.1
      · exact ((AltA.ok_iff a).1 (hso.2 a ha)).2.2
  simpa [accEntries, entries, FieldA.tree, childNodes_node, FieldA.view] using accEntries_segs f.segs hall

theorem substvars_field (f : FieldA) : substvars f.tree = f.substvars := by
  simpa [substvars, FieldA.tree, childNodes_node, FieldA.substvars] using substvars_segs f.segs

end Deb822Verif.Rel
