import Deb822Verif.Props.C09
/-!
# Shape of an error-free relation parse tree (C09, parts A and B)

* lexer: what the text of a WHITESPACE / NEWLINE / COMMA / IDENT token of `lex s` looks like (`lex_good`);
* root level: when `parse(s, false)` reports no error, every child of the ROOT is a WHITESPACE / NEWLINE /
  COMMA token or an ENTRY node that starts with the IDENT token `parse_entry` was entered at
  (`rootLoop_shape`);
* entry level: when an error-free ENTRY has exactly one RELATION child, its children are that RELATION
  followed by WHITESPACE / NEWLINE tokens only (`entryLoop_single`).
-/
set_option linter.unusedVariables false
set_option linter.unusedSimpArgs false
namespace Deb822Verif.Rel
open Deb822Verif Node PR

/-! ### generic list / tree facts -/

theorem filter_eq_singleton {α} {p : α → Bool} {l : List α} {e : α} (h : l.filter p = [e]) :
    ∃ a b, l = a ++ e :: b ∧ (∀ x ∈ a, p x = false) ∧ (∀ x ∈ b, p x = false) := by
  induction l with
  | nil => simp at h
  | cons x xs ih =>
    by_cases hx : p x = true
    · rw [List.filter_cons_of_pos hx] at h
      simp only [List.cons.injEq] at h
      obtain ⟨rfl, hxs⟩ := h
      refine ⟨[], xs, rfl, by simp, ?_⟩
      intro y hy
      cases hp : p y with
      | false => rfl
      | true =>
        have : y ∈ xs.filter p := List.mem_filter.mpr ⟨hy, hp⟩
        rw [hxs] at this; simp at this
    · rw [List.filter_cons_of_neg hx] at h
      obtain ⟨a, b, rfl, ha, hb⟩ := ih h
      refine ⟨x :: a, b, rfl, ?_, hb⟩
      intro y hy
      simp only [List.mem_cons] at hy
      rcases hy with rfl | hy
      · simpa using hx
      · exact ha y hy

theorem mem_textList {κ} {c : Char} {ns : List (Node κ)} (h : c ∈ textList ns) :
    ∃ n ∈ ns, c ∈ n.text := by
  induction ns with
  | nil => simp at h
  | cons n ns ih =>
    simp only [textList_cons, List.mem_append] at h
    rcases h with h | h
    · exact ⟨n, by simp, h⟩
    · obtain ⟨m, hm, hc⟩ := ih h
      exact ⟨m, by simp [hm], hc⟩

theorem leaves_mem_of_mem {κ} {n : Node κ} {ns : List (Node κ)} (h : n ∈ ns) :
    ∀ l ∈ n.leaves, l ∈ leavesList ns := by
  induction ns with
  | nil => simp at h
  | cons m ms ih =>
    intro l hl
    simp only [List.mem_cons] at h
    simp only [leavesList_cons, List.mem_append]
    rcases h with rfl | h
    · exact Or.inl hl
    · exact Or.inr (ih h l hl)

theorem leaves_mem_children {κ} {n p : Node κ} (h : n ∈ p.children) : ∀ l ∈ n.leaves, l ∈ p.leaves := by
  cases p with
  | tok k t => simp [Node.children] at h
  | node k cs => simp only [Node.children] at h; simpa using leaves_mem_of_mem h

/-! ### lexer: the text of the separator tokens and the head of an IDENT -/

/-- separator characters of a relationship field: white space (space, tab, CR), LF, comma -/
def sep (c : Char) : Bool := isWs c || c == '\n' || c == ','

/-- what `lex` guarantees about the text of a token of the four kinds that matter here -/
structure TokGood (t : Tok) : Prop where
  ne : t.2 ≠ []
  ws : t.1 = .WHITESPACE → ∀ c ∈ t.2, isWs c = true
  nl : t.1 = .NEWLINE → t.2 = ['\n']
  comma : t.1 = .COMMA → t.2 = [',']
  ident : t.1 = .IDENT → ∃ c r, t.2 = c :: r ∧ isIdentChar c = true

theorem punct_newline {c} (h : punct c = some .NEWLINE) : c = '\n' := by
  unfold punct at h
  iterate 14 replace h := Props.C09.ite_some_ne (by decide) h
  by_cases hd : (c == '\n') = true
  · simpa using hd
  · rw [if_neg hd] at h; simp at h

theorem punct_comma {c} (h : punct c = some .COMMA) : c = ',' := by
  unfold punct at h
  iterate 2 replace h := Props.C09.ite_some_ne (by decide) h
  by_cases hd : (c == ',') = true
  · simpa using hd
  · rw [if_neg hd] at h
    iterate 12 replace h := Props.C09.ite_some_ne (by decide) h
    simp at h

theorem punct_ne_ws (c) : punct c ≠ some .WHITESPACE := by
  intro h
  unfold punct at h
  iterate 15 replace h := Props.C09.ite_some_ne (by decide) h
  simp at h

theorem punct_ne_ident (c) : punct c ≠ some .IDENT := by
  intro h
  unfold punct at h
  iterate 15 replace h := Props.C09.ite_some_ne (by decide) h
  simp at h

theorem punct_not_ws_ident {c k} (h : punct c = some k) : k ≠ .WHITESPACE ∧ k ≠ .IDENT :=
  ⟨fun e => punct_ne_ws c (e ▸ h), fun e => punct_ne_ident c (e ▸ h)⟩

theorem mem_takeWhile_imp {α} {p : α → Bool} {l : List α} {x : α} (h : x ∈ l.takeWhile p) : p x = true := by
  induction l with
  | nil => simp at h
  | cons a as ih =>
    rw [List.takeWhile_cons] at h
    split at h
    · rename_i ha
      simp only [List.mem_cons] at h
      rcases h with rfl | h
      · exact ha
      · exact ih h
    · simp at h

theorem lexStep_good (c rest) : TokGood (lexStep c rest).1 := by
  unfold lexStep
  split
  · rename_i k hk
    have hn := punct_not_ws_ident hk
    refine ⟨by simp, fun h => absurd h hn.1, ?_, ?_, fun h => absurd h hn.2⟩
    · intro h; simp only at h; subst h; simp [punct_newline hk]
    · intro h; simp only at h; subst h; simp [punct_comma hk]
  · split
    · rename_i hw
      refine ⟨by simp, ?_, by simp, by simp, by simp⟩
      intro _ x hx
      simp only [List.mem_cons] at hx
      rcases hx with rfl | hx
      · exact hw
      · exact (mem_takeWhile_imp hx)
    · split
      · rename_i hi
        exact ⟨by simp, by simp, by simp, by simp, fun _ => ⟨c, _, rfl, hi⟩⟩
      · exact ⟨by simp, by simp, by simp, by simp, by simp⟩

theorem lex_good (s : Str) : ∀ t ∈ lex s, TokGood t := by
  fun_induction lex s with
  | case1 => simp
  | case2 c rest ih =>
    intro t ht
    simp only [List.mem_cons] at ht
    rcases ht with rfl | ht
    · exact lexStep_good c rest
    · exact ih t ht

theorem identChar_not_sep {c} (h : isIdentChar c = true) : sep c = false := by
  cases hs : sep c with
  | false => rfl
  | true =>
    simp only [sep, isWs, Bool.or_eq_true, beq_iff_eq] at hs
    rcases hs with (((rfl | rfl) | rfl) | rfl) | rfl <;> revert h <;> decide

/-! ### kinds of children -/

/-- a WHITESPACE / NEWLINE / COMMA token -/
def isSepTok : RNode → Bool
  | .tok k _ => k == .WHITESPACE || k == .NEWLINE || k == .COMMA
  | .node _ _ => false

/-- a WHITESPACE / NEWLINE token -/
def isWsTok : RNode → Bool
  | .tok k _ => isWsKind k
  | .node _ _ => false

theorem isSepTok_of_isWsTok {n : RNode} (h : isWsTok n = true) : isSepTok n = true := by
  cases n with
  | tok k t => simp only [isWsTok, isWsKind, Bool.or_eq_true] at h; simp only [isSepTok, Bool.or_eq_true]; exact Or.inl h
  | node k cs => simp [isWsTok] at h

/-- the text of a separator token consists of separator characters, if the token came out of `lex` -/
theorem sepTok_text {n : RNode} (h : isSepTok n = true) (hg : ∀ l ∈ n.leaves, TokGood l) :
    ∀ c ∈ n.text, sep c = true := by
  cases n with
  | node k cs => simp [isSepTok] at h
  | tok k t =>
    have g := hg (k, t) (by simp)
    simp only [isSepTok, Bool.or_eq_true, beq_iff_eq] at h
    intro c hc
    simp only [text_tok] at hc
    rcases h with (h | h) | h
    · have := g.ws h c hc
      simp [sep, this]
    · have := g.nl h; simp only at this; rw [this] at hc; simp at hc; subst hc; decide
    · have := g.comma h; simp only at this; rw [this] at hc; simp at hc; subst hc; decide

/-- the text of a WHITESPACE / NEWLINE token of `lex` is white space or a line feed -/
theorem wsTok_text {n : RNode} (h : isWsTok n = true) (hg : ∀ l ∈ n.leaves, TokGood l) :
    ∀ c ∈ n.text, isWs c = true ∨ c = '\n' := by
  cases n with
  | node k cs => simp [isWsTok] at h
  | tok k t =>
    have g := hg (k, t) (by simp)
    simp only [isWsTok, isWsKind, Bool.or_eq_true, beq_iff_eq] at h
    intro c hc
    simp only [text_tok] at hc
    rcases h with h | h
    · exact Or.inl (g.ws h c hc)
    · have := g.nl h; simp only at this; rw [this] at hc; simp at hc; exact Or.inr hc

theorem skipWs_nodes_ws (ts) : ∀ n ∈ (skipWs ts).nodes, isWsTok n = true := by
  induction ts with
  | nil => simp [skipWs]
  | cons t r ih =>
    unfold skipWs
    split
    · rename_i hk
      intro n hn
      simp only [List.mem_cons] at hn
      rcases hn with rfl | hn
      · simpa [isWsTok] using hk
      · exact ih n hn
    · simp

theorem filter_nodes_of_ws {k : Kind} {ns : List RNode} (h : ∀ n ∈ ns, isWsTok n = true) :
    ns.filter (fun c => c.isNode && c.kind == k) = [] := by
  rw [List.filter_eq_nil_iff]
  intro n hn
  have := h n hn
  cases n with
  | tok k t => simp [Node.isNode]
  | node k cs => simp [isWsTok] at this

/-! ### entry level -/

/-- `parse_relation` appends exactly one RELATION node -/
theorem parseRelation_nodes (ts) : ∃ X, (parseRelation ts).nodes = [Node.node .RELATION X] := ⟨_, rfl⟩

/-- entered at an IDENT, `parse_relation` bumps it first -/
theorem parseRelation_ident (t : Tok) (r) (h : t.1 = .IDENT) :
    ∃ X, (parseRelation (t :: r)).nodes = [Node.node .RELATION (tk t :: X)] := by
  simp [parseRelation, expect, cur, h, bump1, PR.andThen, PR.wrap]

/-- the first child of an ENTRY is the RELATION of the first `parse_relation()` -/
theorem entryLoop_head (ts) : ∃ Y, (entryLoop ts).nodes = (parseRelation ts).nodes ++ Y := by
  rw [entryLoop]
  (repeat' split)
  · exact ⟨[], by simp⟩
  · exact ⟨_, by simp only [List.append_assoc]; rfl⟩
  · exact ⟨_, rfl⟩
  · exact ⟨_, by simp only [List.append_assoc]; rfl⟩

theorem popErr_errs_ne (ts) : (popErr ts).errs ≠ [] := by cases ts <;> simp [popErr]

/-- an error-free ENTRY with exactly one RELATION child: that RELATION, then WHITESPACE / NEWLINE tokens -/
theorem entryLoop_single (ts : List Tok) (r : RNode) (he : (entryLoop ts).errs = [])
    (h1 : (entryLoop ts).nodes.filter (fun c => c.isNode && c.kind == Kind.RELATION) = [r]) :
    ∃ w, (entryLoop ts).nodes = r :: w ∧ (∀ n ∈ w, isWsTok n = true) ∧
      (w = [] ∨ (entryLoop ts).rest = []) := by
  obtain ⟨X, hX⟩ := parseRelation_nodes ts
  by_cases hc : peekPastWs (parseRelation ts).rest = some .COMMA
  · have e : entryLoop ts = parseRelation ts := by rw [entryLoop]; simp only [dif_pos hc]
    rw [e] at h1 ⊢
    rw [hX] at h1 ⊢
    simp [Node.isNode, Node.kind] at h1
    exact ⟨[], by rw [h1], by simp, Or.inl rfl⟩
  · by_cases hp : peekPastWs (parseRelation ts).rest = some .PIPE
    · exfalso
      have e : (entryLoop ts).nodes = (parseRelation ts).nodes ++ (pipeSep (parseRelation ts).rest).nodes
          ++ (entryLoop (pipeSep (parseRelation ts).rest).rest).nodes := by
        rw [entryLoop]; simp only [dif_neg hc, dif_pos hp]
      obtain ⟨Y, hY⟩ := entryLoop_head (pipeSep (parseRelation ts).rest).rest
      obtain ⟨X2, hX2⟩ := parseRelation_nodes (pipeSep (parseRelation ts).rest).rest
      rw [e, hY, hX, hX2] at h1
      have := congrArg List.length h1
      simp [List.filter_append, Node.isNode, Node.kind] at this
    · by_cases hn : peekPastWs (parseRelation ts).rest = none
      · have e : entryLoop ts = (parseRelation ts).andThen skipWs := by
          rw [entryLoop]; simp only [dif_neg hc, dif_neg hp, dif_pos hn]
        rw [e] at h1 ⊢
        simp only [PR.andThen] at h1 ⊢
        rw [hX] at h1 ⊢
        have hw := skipWs_nodes_ws (parseRelation ts).rest
        rw [List.filter_append, filter_nodes_of_ws hw] at h1
        simp [Node.isNode, Node.kind] at h1
        refine ⟨_, by rw [h1]; rfl, hw, Or.inr ?_⟩
        rw [peek_eq_cur_skip] at hn
        cases hr : (skipWs (parseRelation ts).rest).rest with
        | nil => rfl
        | cons a b => rw [hr] at hn; simp [cur] at hn
      · exfalso
        have e : (entryLoop ts).errs = (parseRelation ts).errs ++ (junkSep (parseRelation ts).rest).errs
            ++ (entryLoop (junkSep (parseRelation ts).rest).rest).errs := by
          rw [entryLoop]; simp only [dif_neg hc, dif_neg hp, dif_neg hn]
        rw [e] at he
        simp only [List.append_eq_nil_iff, junkSep, PR.andThen] at he
        exact popErr_errs_ne _ he.1.2.2

/-! ### root level -/

/-- what can follow an ENTRY among the children of an error-free ROOT: nothing, or WHITESPACE / NEWLINE
    tokens and then a COMMA token -/
def Follow (ns : List RNode) : Prop :=
  ns = [] ∨ ∃ w c more, ns = w ++ tk c :: more ∧ (∀ n ∈ w, isWsTok n = true) ∧ c.1 = Kind.COMMA

/-- children of an error-free ROOT, front to back: WHITESPACE / NEWLINE / COMMA tokens and ENTRY nodes;
    an ENTRY is what `parse_entry` builds when entered at an IDENT token `t`, and when `parse_entry`
    consumed the whole input nothing follows it; in any case what follows is `Follow` -/
inductive RootShape : List RNode → Prop
  | nil : RootShape []
  | sep (n : RNode) (ns : List RNode) : isSepTok n = true → RootShape ns → RootShape (n :: ns)
  | entry (t : Tok) (r : List Tok) (ns : List RNode) : t.1 = .IDENT → (entryLoop (t :: r)).errs = [] →
      ((entryLoop (t :: r)).rest = [] → ns = []) → Follow ns → RootShape ns →
      RootShape (Node.node .ENTRY (entryLoop (t :: r)).nodes :: ns)

theorem RootShape.seps {a b : List RNode} (ha : ∀ n ∈ a, isSepTok n = true) (hb : RootShape b) :
    RootShape (a ++ b) := by
  induction a with
  | nil => exact hb
  | cons x xs ih =>
    exact RootShape.sep x _ (ha x (by simp)) (ih fun n hn => ha n (by simp [hn]))

theorem RootShape.wss {a b : List RNode} (ha : ∀ n ∈ a, isWsTok n = true) (hb : RootShape b) :
    RootShape (a ++ b) := RootShape.seps (fun n hn => isSepTok_of_isWsTok (ha n hn)) hb

theorem RootShape.cons_inv {e : RNode} {b : List RNode} (h : RootShape (e :: b)) :
    (isSepTok e = true ∧ RootShape b) ∨
    ∃ t r, t.1 = Kind.IDENT ∧ e = Node.node .ENTRY (entryLoop (t :: r)).nodes ∧
      (entryLoop (t :: r)).errs = [] ∧ ((entryLoop (t :: r)).rest = [] → b = []) ∧ Follow b ∧
      RootShape b := by
  cases h with
  | sep _ _ h1 h2 => exact Or.inl ⟨h1, h2⟩
  | entry t r _ h1 h2 h3 hf h4 => exact Or.inr ⟨t, r, h1, rfl, h2, h3, hf, h4⟩

theorem isSepTok_not_node {n : RNode} {k} (h : isSepTok n = true) : (n.isNode && n.kind == k) = false := by
  cases n with
  | tok k t => simp [Node.isNode]
  | node k cs => simp [isSepTok] at h

/-- children that are not ENTRY nodes are separator tokens -/
theorem RootShape.all_sep {ns : List RNode} (h : RootShape ns)
    (hn : ∀ x ∈ ns, (x.isNode && x.kind == Kind.ENTRY) = false) : ∀ x ∈ ns, isSepTok x = true := by
  induction h with
  | nil => simp
  | sep n ns h1 h2 ih =>
    intro x hx
    simp only [List.mem_cons] at hx
    rcases hx with rfl | hx
    · exact h1
    · exact ih (fun y hy => hn y (by simp [hy])) x hx
  | entry t r ns h1 h2 h3 hf h4 ih =>
    have := hn _ (List.mem_cons_self)
    simp [Node.isNode, Node.kind] at this

/-- split an error-free ROOT at its first ENTRY child -/
theorem RootShape.split {ns a b : List RNode} {e : RNode} (h : RootShape ns) (hs : ns = a ++ e :: b)
    (ha : ∀ x ∈ a, (x.isNode && x.kind == Kind.ENTRY) = false) :
    (∀ x ∈ a, isSepTok x = true) ∧ RootShape (e :: b) := by
  induction a generalizing ns with
  | nil => subst hs; exact ⟨by simp, h⟩
  | cons x xs ih =>
    subst hs
    rcases RootShape.cons_inv h with ⟨h1, h2⟩ | ⟨t, r, _, hx, _⟩
    · obtain ⟨h3, h4⟩ := ih h2 rfl (fun y hy => ha y (by simp [hy]))
      refine ⟨?_, h4⟩
      intro y hy
      simp only [List.mem_cons] at hy
      rcases hy with rfl | hy
      · exact h1
      · exact h3 y hy
    · have := ha x (by simp)
      rw [hx] at this
      simp [Node.isNode, Node.kind] at this

theorem skipWs_ident (t : Tok) (r) (h : t.1 = .IDENT) : skipWs (t :: r) = ⟨[], [], t :: r⟩ := by
  simp [skipWs, isWsKind, h]

theorem errorTok_errs_ne (msg ts) : (errorTok msg ts).errs ≠ [] := by cases ts <;> simp [errorTok]

/-- what the first `match` of the root loop can append when it pushes no error (substvars disallowed):
    nothing (COMMA), or one ENTRY -/
theorem rootFirst_shape (t : Tok) (r) (he : (rootFirst false t r).errs = []) :
    ((rootFirst false t r).nodes = [] ∧ (rootFirst false t r).rest = t :: r) ∨
    (t.1 = .IDENT ∧ (rootFirst false t r).nodes = [Node.node .ENTRY (entryLoop (t :: r)).nodes] ∧
      (entryLoop (t :: r)).errs = [] ∧ (rootFirst false t r).rest = (entryLoop (t :: r)).rest) := by
  unfold rootFirst at he ⊢
  split
  · rename_i h
    rw [if_pos h] at he
    right
    simp only [parseEntry, skipWs_ident t r h, PR.andThen, PR.wrap] at he ⊢
    exact ⟨h, by simp, by simpa using he, trivial⟩
  · rename_i h
    rw [if_neg h] at he
    split
    · rename_i hd
      rw [if_pos hd] at he
      exact absurd he (errorTok_errs_ne _ _)
    · rename_i hd
      rw [if_neg hd] at he
      split
      · left; exact ⟨rfl, rfl⟩
      · rename_i hcm
        rw [if_neg hcm] at he
        exact absurd he (errorTok_errs_ne _ _)

theorem rootSep_shape (c : Tok) (he : (rootSep c).2 = []) : ∀ n ∈ (rootSep c).1, isSepTok n = true := by
  unfold rootSep at he ⊢
  split
  · rename_i h; simp [isSepTok, h]
  · rename_i h; rw [if_neg h] at he; simp at he

theorem rootSep_comma (c : Tok) (he : (rootSep c).2 = []) : (rootSep c).1 = [tk c] ∧ c.1 = .COMMA := by
  unfold rootSep at he ⊢
  split
  · rename_i h; exact ⟨rfl, h⟩
  · rename_i h; rw [if_neg h] at he; simp at he

theorem skipWs_rest_nil_of_peek {ts} (h : peekPastWs ts = none) : (skipWs ts).rest = [] := by
  rw [peek_eq_cur_skip] at h
  cases hr : (skipWs ts).rest with
  | nil => rfl
  | cons a b => rw [hr] at h; simp [cur] at h

/-- `parse_entry` returns at end of input or in front of (white space and) a COMMA -/
theorem entryLoop_exit (ts) : (entryLoop ts).rest = [] ∨ peekPastWs (entryLoop ts).rest = some .COMMA := by
  fun_induction entryLoop ts
  next x hc => exact Or.inr hc
  next x hc hp ih => exact ih
  next x hc hp hn => exact Or.inl (skipWs_rest_nil_of_peek hn)
  next x hc hp hn ih => exact ih

theorem rootLoop_shape (ts : List Tok) (he : (rootLoop false ts).errs = []) :
    RootShape (rootLoop false ts).nodes := by
  fun_induction rootLoop false ts
  next => exact RootShape.nil
  next t r h =>
    simp only at he ⊢
    rcases rootFirst_shape t r he with ⟨h1, h2⟩ | ⟨ht, h1, h2, h3⟩
    · rw [h1]; simpa using RootShape.wss (skipWs_nodes_ws (rootFirst false t r).rest) RootShape.nil
    · rw [h1]
      have hnil : (skipWs (rootFirst false t r).rest).nodes = [] := by
        rw [h3] at h ⊢
        rcases entryLoop_exit (t :: r) with hx | hx
        · rw [hx]; simp [skipWs]
        · rw [peek_eq_cur_skip, h] at hx; simp [cur] at hx
      refine RootShape.entry t r _ ht h2 ?_ ?_ ?_
      · intro hr
        rw [h3, hr]; simp [skipWs]
      · left; simpa using hnil
      · simpa using RootShape.wss (skipWs_nodes_ws (rootFirst false t r).rest) RootShape.nil
  next t r c r2 h ih =>
    simp only [List.append_eq_nil_iff] at he
    obtain ⟨⟨he1, he2⟩, he3⟩ := he
    have tail : RootShape ((skipWs (rootFirst false t r).rest).nodes ++ ((rootSep c).1
        ++ ((skipWs r2).nodes ++ (rootLoop false (skipWs r2).rest).nodes))) :=
      RootShape.wss (skipWs_nodes_ws _) (RootShape.seps (rootSep_shape c he2)
        (RootShape.wss (skipWs_nodes_ws _) (ih he3)))
    simp only [List.append_assoc]
    rcases rootFirst_shape t r he1 with ⟨h1, h2⟩ | ⟨ht, h1, h2, h3⟩
    · rw [h1]; exact tail
    · rw [h1]
      refine RootShape.entry t r _ ht h2 ?_ ?_ tail
      · intro hr
        rw [h3, hr] at h
        simp [skipWs] at h
      · right
        obtain ⟨hc1, hc2⟩ := rootSep_comma c he2
        exact ⟨_, c, _, by rw [hc1]; rfl, skipWs_nodes_ws _, hc2⟩

end Deb822Verif.Rel
