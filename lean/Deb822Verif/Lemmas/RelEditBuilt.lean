import Deb822Verif.Lemmas.RelEditCanon
/-!
  Fields in the layout the constructors produce (`Relations::from(Vec<Entry>)` of
  `Entry::from(Vec<Relation>)` of `Relation::from(lossy)`: `, ` and ` | ` as separators, every relation
  in the canonical layout): a relation setter keeps the field in that layout, so the printed field is
  the canonical text of the changed value.
-/
set_option linter.unusedSimpArgs false
namespace Deb822Verif.Rel.Edit
open Deb822Verif Rel Node Build Lossy RelSpec

/-- the field the constructors build from a lossy value -/
def built (rs : List (List Lossy.Relation)) : RNode := relationsFromEntries (rs.map entryFromLossy)

def preOf (sep : List RNode) (A : List RNode) : List RNode := (A.map fun a => a :: sep).flatten
def postOf (sep : List RNode) (B : List RNode) : List RNode := (B.map fun b => sep ++ [b]).flatten

theorem sepBy_singletons (sep : List RNode) (a : RNode) (rest : List RNode) :
    sepBy sep ((a :: rest).map fun r => [r]) = a :: postOf sep rest := by
  rw [List.map_cons, sepBy_cons]
  simp [postOf, List.map_map, Function.comp_def]

theorem postOf_sep (sep : List RNode) (A : List RNode) : postOf sep A ++ sep = sep ++ preOf sep A := by
  induction A with
  | nil => simp [postOf, preOf]
  | cons a A ih =>
    have e1 : postOf sep (a :: A) = sep ++ [a] ++ postOf sep A := by simp [postOf]
    have e2 : preOf sep (a :: A) = a :: sep ++ preOf sep A := by simp [preOf]
    rw [e1, e2, List.append_assoc, ih]; simp

/-- a separated list splits around any of its elements -/
theorem sepBy_split (sep : List RNode) (A : List RNode) (y : RNode) (B : List RNode) :
    sepBy sep ((A ++ y :: B).map fun r => [r]) = preOf sep A ++ y :: postOf sep B := by
  cases A with
  | nil => simpa [preOf] using sepBy_singletons sep y B
  | cons a A =>
    rw [List.cons_append, sepBy_singletons]
    have e1 : postOf sep (A ++ y :: B) = postOf sep A ++ (sep ++ [y] ++ postOf sep B) := by simp [postOf]
    have e2 : preOf sep (a :: A) = a :: sep ++ preOf sep A := by simp [preOf]
    rw [e1, e2, ← List.append_assoc (postOf sep A), ← List.append_assoc (postOf sep A), postOf_sep]
    simp

theorem countP_preOf (P : RNode → Bool) (sep A : List RNode) (hs : ∀ s ∈ sep, P s = false)
    (hA : ∀ a ∈ A, P a = true) : (preOf sep A).countP P = A.length := by
  induction A with
  | nil => simp [preOf]
  | cons a A ih =>
    have e2 : preOf sep (a :: A) = a :: sep ++ preOf sep A := by simp [preOf]
    have hsep : sep.countP P = 0 := by
      rw [List.countP_eq_zero]; intro s hs'; simp [hs s hs']
    rw [e2, List.countP_append, List.countP_cons, hA a (by simp), hsep, ih (fun x hx => hA x (by simp [hx]))]
    simp; omega

def sepE : List RNode := [T .COMMA ",", T .WHITESPACE " "]
def sepR : List RNode := [T .WHITESPACE " ", T .PIPE "|", T .WHITESPACE " "]

theorem built_children (rs : List (List Lossy.Relation)) :
    (built rs).children = sepBy sepE ((rs.map entryFromLossy).map fun e => [e]) := by
  simp [built, relationsFromEntries, inject, sepE]

theorem entryFromLossy_eq (e : List Lossy.Relation) :
    entryFromLossy e = .node .ENTRY (sepBy sepR ((e.map toLossless).map fun r => [r])) := by
  simp [entryFromLossy, entryFromRelations, inject, sepR]

theorem isEntry_built (e : List Lossy.Relation) : isNodeOf .ENTRY (entryFromLossy e) = true := by
  rw [entryFromLossy_eq]; rfl

theorem isRel_built (r : Lossy.Relation) : isNodeOf .RELATION (toLossless r) = true := by
  rw [toLossless_eq]; rfl

/-- a setter applied to the `j`-th alternative of the `i`-th entry of a built field gives the built
    field of the changed value -/
theorem built_relEdit (RA RB : List (List Lossy.Relation)) (EA EB : List Lossy.Relation)
    (r0 r0' : Lossy.Relation) (g : RNode → RNode) (hg : g (toLossless r0) = toLossless r0')
    (f : Field) (hf : f.kids = (built (RA ++ (EA ++ r0 :: EB) :: RB)).children) :
    ∃ p q, nthNode .ENTRY f.kids RA.length = some p ∧ nthNode .RELATION (f.entryKids p) EA.length = some q
      ∧ (f.relEdit p q g).root = built (RA ++ (EA ++ r0' :: EB) :: RB) := by
  have hk : ∀ x : Lossy.Relation, (built (RA ++ (EA ++ x :: EB) :: RB)).children
      = preOf sepE (RA.map entryFromLossy) ++ entryFromLossy (EA ++ x :: EB) :: postOf sepE (RB.map entryFromLossy) := by
    intro x
    rw [built_children, List.map_append, List.map_cons, sepBy_split]
  have he : ∀ x : Lossy.Relation, (entryFromLossy (EA ++ x :: EB)).children
      = preOf sepR (EA.map toLossless) ++ toLossless x :: postOf sepR (EB.map toLossless) := by
    intro x
    rw [entryFromLossy_eq, List.map_append, List.map_cons, sepBy_split]; rfl
  have hcE : (preOf sepE (RA.map entryFromLossy)).countP (isNodeOf .ENTRY) = RA.length := by
    rw [countP_preOf _ _ _ (by intro s hs; simp [sepE, T] at hs; rcases hs with rfl | rfl <;> rfl)
      (by intro a ha; simp only [List.mem_map] at ha; obtain ⟨e, _, rfl⟩ := ha; exact isEntry_built e)]
    simp
  have hcR : (preOf sepR (EA.map toLossless)).countP (isNodeOf .RELATION) = EA.length := by
    rw [countP_preOf _ _ _ (by intro s hs; simp [sepR, T] at hs; rcases hs with rfl | rfl | rfl <;> rfl)
      (by intro a ha; simp only [List.mem_map] at ha; obtain ⟨e, _, rfl⟩ := ha; exact isRel_built e)]
    simp
  rw [hk r0] at hf
  have hek := entryKids_split f _ _ _ hf
  refine ⟨(preOf sepE (RA.map entryFromLossy)).length, (preOf sepR (EA.map toLossless)).length, ?_, ?_, ?_⟩
  · rw [hf, ← hcE]; exact nthPos_split _ _ _ (isEntry_built _)
  · rw [hek, he r0, ← hcR]; exact nthPos_split _ _ _ (isRel_built _)
  · have e3 : entryFromLossy (EA ++ r0' :: EB) = Node.node .ENTRY (preOf sepR (EA.map toLossless)
        ++ toLossless r0' :: postOf sepR (EB.map toLossless)) := by
      rw [entryFromLossy_eq, List.map_append, List.map_cons, sepBy_split]
    have e4 : (entryFromLossy (EA ++ r0 :: EB)).kind = .ENTRY := by rw [entryFromLossy_eq]; rfl
    show Node.node .ROOT (f.relEdit _ _ g).kids = _
    rw [show built (RA ++ (EA ++ r0' :: EB) :: RB) = Node.node .ROOT (built (RA ++ (EA ++ r0' :: EB) :: RB)).children
      from rfl, hk r0', e3]
    simp only [Field.relEdit, hf, getElem?_split, he r0, replaceAt_split, hg, e4]
    simp

/-! ### what a built field prints and what the abstraction reads from it -/

theorem built_text (rs : List (List Lossy.Relation)) (h : validRSs rs = true) :
    (built rs).text = showRelations rs := by
  have hs := sepBy_singletons_text sepE (rs.map entryFromLossy)
  have : (rs.map entryFromLossy).map Node.text = rs.map fun e => Text.join [' ', '|', ' '] (e.map showRelation) := by
    rw [List.map_map]
    apply List.map_congr_left
    intro e he
    simp only [validRSs, List.all_eq_true, Bool.and_eq_true] at h
    exact entry_text e (fun r hr => (h e he).2 r hr)
  rw [this] at hs
  show textList (built rs).children = _
  rw [built_children, hs]
  rfl

theorem relsOf_built (e : List Lossy.Relation) (h : ∀ r ∈ e, validRS r = true) :
    relsOf (entryFromLossy e) = e.map RelRec.ofLossy := by
  have hrel : relations (entryFromLossy e) = e.map toLossless := by
    simp only [relations, entryFromLossy, entryFromRelations, inject, childNodes_node]
    have : [T .WHITESPACE " ", T .PIPE "|", T .WHITESPACE " "]
        = tks [(.WHITESPACE, [' ']), (.PIPE, ['|']), (.WHITESPACE, [' '])] := rfl
    rw [this]
    exact cn_sepBy_singletons .RELATION _ _ (by
      intro t ht
      simp only [List.mem_map] at ht
      obtain ⟨r, _, rfl⟩ := ht
      rw [toLossless_eq]; exact ⟨rfl, rfl⟩)
  rw [relsOf, hrel, List.map_map]
  apply List.map_congr_left
  intro r hr
  simp only [Function.comp]
  rw [toLossless_canon r (h r hr), recOf_rel _ _ (canonRel_ok r (validR_of_validRS (h r hr))),
    canonRel_view r (validR_of_validRS (h r hr))]

/-- the list model of a lossy value -/
def emb (rs : List (List Lossy.Relation)) : FieldS := rs.map fun e => .alts (e.map RelRec.ofLossy)

theorem abs_built (rs : List (List Lossy.Relation)) (h : validRSs rs = true) : abs (built rs) = emb rs := by
  show absKids (built rs).children = _
  rw [built_children]
  simp only [validRSs, List.all_eq_true, Bool.and_eq_true] at h
  induction rs with
  | nil => rfl
  | cons e es ih =>
    rw [List.map_cons, sepBy_singletons]
    have ih' := ih (fun x hx => h x (by simp [hx]))
    rw [absKids_cons, absKids_entry _ (isEntry_built e), relsOf_built e (fun r hr => (h e (by simp)).2 r hr)]
    have : absKids (postOf sepE (es.map entryFromLossy)) = emb es := by
      cases es with
      | nil => rfl
      | cons e' es' =>
        rw [List.map_cons, sepBy_singletons] at ih'
        have e1 : postOf sepE (entryFromLossy e' :: es'.map entryFromLossy)
            = sepE ++ (entryFromLossy e' :: postOf sepE (es'.map entryFromLossy)) := by simp [postOf]
        rw [List.map_cons, e1]
        show absKids (T .COMMA "," :: T .WHITESPACE " " :: _) = _
        rw [absKids_T, absKids_T]
        exact ih'
    rw [this]; rfl

theorem itemsA_canon (rs : List (List Lossy.Relation)) (h : validRs rs = true) : itemsA (canon rs) = emb rs := by
  have hent : ∀ e : List Lossy.Relation, e ≠ [] → (∀ r ∈ e, validR r = true) →
      ∀ pre post, itemA ⟨pre, canonEntry e, post⟩ = some (.alts (e.map RelRec.ofLossy)) := by
    intro e hne hall pre post
    cases e with
    | nil => exact absurd rfl hne
    | cons r rs =>
      simp only [itemA, canonEntry, List.map_map, Option.some.injEq, ItemS.alts.injEq, List.map_cons, List.cons.injEq]
      refine ⟨by rw [canonRel_view r (hall r (by simp))], ?_⟩
      apply List.map_congr_left
      intro x hx
      simp [canonRel_view x (hall x (by simp [hx]))]
  simp only [validRs, List.all_eq_true, Bool.and_eq_true, Bool.not_eq_true', List.isEmpty_eq_false_iff] at h
  cases rs with
  | nil => rfl
  | cons e es =>
    simp only [itemsA, canon, canonSegs, List.filterMap_cons, emb, List.map_cons]
    rw [hent e (h e (by simp)).1 (h e (by simp)).2]
    simp only [List.cons.injEq, true_and]
    have : ∀ l : List (List Lossy.Relation), (∀ x ∈ l, x ≠ [] ∧ ∀ r ∈ x, validR r = true) →
        (l.map fun x => (⟨sp, canonEntry x, []⟩ : Seg)).filterMap itemA
          = l.map fun e => .alts (e.map RelRec.ofLossy) := by
      intro l hl
      induction l with
      | nil => rfl
      | cons x xs ih =>
        rw [List.map_cons, List.filterMap_cons, hent x (hl x (by simp)).1 (hl x (by simp)).2,
          ih (fun y hy => hl y (by simp [hy]))]
        rfl
    exact this es (fun x hx => h x (by simp [hx]))


/-! ### the other operations keep the built layout too -/

theorem preOf_snoc (sep A : List RNode) (a : RNode) : preOf sep (A ++ [a]) = preOf sep A ++ a :: sep := by
  simp [preOf]

theorem postOf_cons (sep : List RNode) (b : RNode) (B : List RNode) : postOf sep (b :: B) = sep ++ b :: postOf sep B := by
  simp [postOf]

theorem built_kids_split (RA RB : List (List Lossy.Relation)) (E : List Lossy.Relation) :
    (built (RA ++ E :: RB)).children
      = preOf sepE (RA.map entryFromLossy) ++ entryFromLossy E :: postOf sepE (RB.map entryFromLossy) := by
  rw [built_children, List.map_append, List.map_cons, sepBy_split]

theorem entry_kids_split (EA EB : List Lossy.Relation) (x : Lossy.Relation) :
    (entryFromLossy (EA ++ x :: EB)).children
      = preOf sepR (EA.map toLossless) ++ toLossless x :: postOf sepR (EB.map toLossless) := by
  rw [entryFromLossy_eq, List.map_append, List.map_cons, sepBy_split]; rfl

theorem sepE_notEntry : ∀ s ∈ sepE, isNodeOf .ENTRY s = false := by
  intro s hs; simp [sepE, T] at hs; rcases hs with rfl | rfl <;> rfl

theorem sepE_notItem : ∀ s ∈ sepE, isItemNode s = false := by
  intro s hs; simp [sepE, T] at hs; rcases hs with rfl | rfl <;> rfl

theorem sepR_notRel : ∀ s ∈ sepR, isNodeOf .RELATION s = false := by
  intro s hs; simp [sepR, T] at hs; rcases hs with rfl | rfl | rfl <;> rfl

theorem countE_pre (RA : List (List Lossy.Relation)) :
    (preOf sepE (RA.map entryFromLossy)).countP (isNodeOf .ENTRY) = RA.length := by
  rw [countP_preOf _ _ _ sepE_notEntry
    (by intro a ha; simp only [List.mem_map] at ha; obtain ⟨e, _, rfl⟩ := ha; exact isEntry_built e)]
  simp

theorem countR_pre (EA : List Lossy.Relation) :
    (preOf sepR (EA.map toLossless)).countP (isNodeOf .RELATION) = EA.length := by
  rw [countP_preOf _ _ _ sepR_notRel
    (by intro a ha; simp only [List.mem_map] at ha; obtain ⟨e, _, rfl⟩ := ha; exact isRel_built e)]
  simp

theorem nthNode_built (RA RB : List (List Lossy.Relation)) (E : List Lossy.Relation) :
    nthNode .ENTRY (built (RA ++ E :: RB)).children RA.length
      = some (preOf sepE (RA.map entryFromLossy)).length := by
  rw [built_kids_split, ← countE_pre RA]; exact nthPos_split _ _ _ (isEntry_built _)

theorem nthNode_entry (EA EB : List Lossy.Relation) (x : Lossy.Relation) :
    nthNode .RELATION (entryFromLossy (EA ++ x :: EB)).children EA.length
      = some (preOf sepR (EA.map toLossless)).length := by
  rw [entry_kids_split, ← countR_pre EA]; exact nthPos_split _ _ _ (isRel_built _)

theorem nthPos_count_none (P : RNode → Bool) (cs : List RNode) : nthPos P cs (cs.countP P) = none := by
  cases h : nthPos P cs (cs.countP P) with
  | none => rfl
  | some p =>
    obtain ⟨pre, x, post, e, _, hx, hc⟩ := nthPos_some h
    rw [e] at hc
    simp [List.countP_cons, hx] at hc

theorem lastPos_snoc (P : RNode → Bool) (pre : List RNode) (x : RNode) (hx : P x = true) :
    lastPos P (pre ++ [x]) = some pre.length := by
  induction pre with
  | nil => simp [lastPos, hx]
  | cons a pre ih => simp [lastPos, ih]

/-- a non-empty built field ends with its last entry -/
theorem built_snoc (rs : List (List Lossy.Relation)) (E : List Lossy.Relation) :
    (built (rs ++ [E])).children = preOf sepE (rs.map entryFromLossy) ++ [entryFromLossy E] := by
  rw [built_kids_split]; rfl

theorem countE_built (rs : List (List Lossy.Relation)) :
    (built rs).children.countP (isNodeOf .ENTRY) = rs.length := by
  rcases List.eq_nil_or_concat rs with rfl | ⟨init, last, rfl⟩
  · rfl
  · rw [List.concat_eq_append, built_snoc, List.countP_append, countE_pre]
    simp [isEntry_built]

/-- `Relations::replace(i, Entry::from(e))` -/
theorem built_replace (RA RB : List (List Lossy.Relation)) (E e : List Lossy.Relation)
    (f : Field) (hf : f.kids = (built (RA ++ E :: RB)).children) :
    ∃ f', f.replace RA.length (entryFromLossy e) = .ok f' ∧ f'.root = built (RA ++ e :: RB) := by
  have hn := nthNode_built RA RB E
  rw [← hf] at hn
  unfold Field.replace
  rw [hn]
  refine ⟨_, rfl, ?_⟩
  show (Node.node Kind.ROOT _ : RNode) = _
  rw [show built (RA ++ e :: RB) = Node.node .ROOT (built (RA ++ e :: RB)).children from rfl, built_kids_split]
  rw [built_kids_split] at hf
  simp only [Field.rootEdit, hf]
  rw [show List.take (preOf sepE (RA.map entryFromLossy)).length (preOf sepE (RA.map entryFromLossy)
      ++ entryFromLossy E :: postOf sepE (RB.map entryFromLossy))
      ++ List.drop ((preOf sepE (RA.map entryFromLossy)).length + 1) (preOf sepE (RA.map entryFromLossy)
      ++ entryFromLossy E :: postOf sepE (RB.map entryFromLossy))
    = preOf sepE (RA.map entryFromLossy) ++ postOf sepE (RB.map entryFromLossy) from by simp, insertAt_split]
  simp

/-- `Relations::insert(i, Entry::from(e))` before an existing entry -/
theorem built_insert (RA RB : List (List Lossy.Relation)) (E e : List Lossy.Relation)
    (f : Field) (hf : f.kids = (built (RA ++ E :: RB)).children) :
    (f.insert RA.length (entryFromLossy e)).root = built (RA ++ e :: E :: RB) := by
  have hn := nthNode_built RA RB E
  show (Node.node Kind.ROOT (relationsInsert f.kids RA.length (entryFromLossy e)).kids : RNode) = _
  rw [hf]
  unfold relationsInsert
  rw [hn]
  simp only
  rw [show built (RA ++ e :: E :: RB) = Node.node .ROOT (built (RA ++ e :: E :: RB)).children from rfl,
    built_kids_split RA (E :: RB) e, built_kids_split RA RB E, List.map_cons, postOf_cons]
  rw [show preOf sepE (RA.map entryFromLossy) ++ entryFromLossy E :: postOf sepE (RB.map entryFromLossy)
    = preOf sepE (RA.map entryFromLossy) ++ (entryFromLossy E :: postOf sepE (RB.map entryFromLossy)) from rfl,
    insertAt_split]
  simp [sepE]

/-- `Relations::insert(i, Entry::from(e))` with `i` past the last entry: appended -/
theorem built_insert_end (rs : List (List Lossy.Relation)) (e : List Lossy.Relation) (i : Nat) (hi : rs.length ≤ i)
    (f : Field) (hf : f.kids = (built rs).children) :
    (f.insert i (entryFromLossy e)).root = built (rs ++ [e]) := by
  show (Node.node Kind.ROOT (relationsInsert f.kids i (entryFromLossy e)).kids : RNode) = _
  unfold relationsInsert
  have hnone : nthNode .ENTRY f.kids i = none := by
    cases h : nthNode .ENTRY f.kids i with
    | none => rfl
    | some p =>
      obtain ⟨pre, x, post, e', _, hx, hc⟩ := nthPos_some h
      have := countE_built rs
      rw [← hf, e'] at this
      simp [List.countP_cons, hx, hc] at this
      omega
  rw [hnone]
  simp only
  rw [hf]
  rcases List.eq_nil_or_concat rs with rfl | ⟨init, last, rfl⟩
  · rfl
  · rw [List.concat_eq_append, built_snoc]
    rw [lastPos_snoc _ _ _ (show isItemNode (entryFromLossy last) = true from by rw [entryFromLossy_eq]; rfl)]
    simp only
    have hd : List.drop ((preOf sepE (init.map entryFromLossy)).length + 1)
        (preOf sepE (init.map entryFromLossy) ++ [entryFromLossy last]) = [] := by simp
    rw [hd]
    simp only [List.any_nil, Bool.false_eq_true, ↓reduceIte]
    rw [show built (init ++ [last] ++ [e]) = Node.node .ROOT (built (init ++ [last] ++ [e])).children from rfl,
      built_snoc, List.map_append, List.map_cons, List.map_nil, preOf_snoc]
    have hl : (preOf sepE (init.map entryFromLossy)).length + 1
        = (preOf sepE (init.map entryFromLossy) ++ [entryFromLossy last]).length := by simp
    have happ : ∀ (X new : List RNode), insertAt X X.length new = X ++ new := by
      intro X new; simp [insertAt]
    rw [hl, happ]
    simp [sepE]

/-- `Relations::push(Entry::from(e))` -/
theorem built_push (rs : List (List Lossy.Relation)) (e : List Lossy.Relation)
    (f : Field) (hf : f.kids = (built rs).children) :
    (f.push (entryFromLossy e)).root = built (rs ++ [e]) := by
  have := built_insert_end rs e (f.kids.countP (isNodeOf .ENTRY)) (by rw [hf, countE_built]; exact Nat.le_refl _) f hf
  exact this

theorem entry_snoc (E : List Lossy.Relation) (r : Lossy.Relation) :
    (entryFromLossy (E ++ [r])).children = preOf sepR (E.map toLossless) ++ [toLossless r] := by
  rw [entry_kids_split]; rfl

theorem happ (X new : List RNode) : insertAt X X.length new = X ++ new := by simp [insertAt]

/-- `Entry::push(Relation::from(r))` on an entry node built from `E` -/
theorem built_entryPushIn (E : List Lossy.Relation) (r : Lossy.Relation) :
    (entryPushIn (entryFromLossy E).children (toLossless r)).kids = (entryFromLossy (E ++ [r])).children := by
  rcases List.eq_nil_or_concat E with rfl | ⟨init, last, rfl⟩
  · rw [entryFromLossy_eq, entryFromLossy_eq]; rfl
  · rw [List.concat_eq_append, entry_snoc, entry_snoc]
    unfold entryPushIn
    rw [lastPos_snoc _ _ _ (isRel_built last)]
    have hany : ((preOf sepR (init.map toLossless) ++ [toLossless last]).any
        fun c => c.kind == Kind.PIPE || c.kind == Kind.RELATION) = true := by
      rw [List.any_append]
      have : (toLossless last).kind = .RELATION := by rw [toLossless_eq]; rfl
      simp [this]
    simp only [hany, Bool.not_true, Bool.false_eq_true, ↓reduceIte]
    have hl : (preOf sepR (init.map toLossless)).length + 1
        = (preOf sepR (init.map toLossless) ++ [toLossless last]).length := by simp
    rw [hl, happ, List.map_append, List.map_cons, List.map_nil, preOf_snoc]
    simp [sepR]

theorem built_entryPush (RA RB : List (List Lossy.Relation)) (E : List Lossy.Relation) (r : Lossy.Relation)
    (f : Field) (hf : f.kids = (built (RA ++ E :: RB)).children) :
    ∃ p, nthNode .ENTRY f.kids RA.length = some p
      ∧ (f.entryPushAt p (toLossless r)).root = built (RA ++ (E ++ [r]) :: RB) := by
  refine ⟨_, by rw [hf]; exact nthNode_built RA RB E, ?_⟩
  rw [built_kids_split] at hf
  show (Node.node Kind.ROOT _ : RNode) = _
  unfold Field.entryPushAt
  rw [entryEdit_kids f _ _ _ _ _ _ hf rfl, entryKids_split f _ _ _ hf, built_entryPushIn]
  rw [show built (RA ++ (E ++ [r]) :: RB) = Node.node .ROOT (built (RA ++ (E ++ [r]) :: RB)).children from rfl,
    built_kids_split]
  have e4 : (entryFromLossy E).kind = .ENTRY := by rw [entryFromLossy_eq]; rfl
  have e5 : Node.node .ENTRY (entryFromLossy (E ++ [r])).children = entryFromLossy (E ++ [r]) := by
    rw [entryFromLossy_eq]; rfl
  rw [e4, e5]; simp

/-- a relation node in the canonical layout has no whitespace at its edges -/
theorem trimmed_built (r : Lossy.Relation) : trimmed (toLossless r) := by
  rw [toLossless_eq]
  cases r with
  | mk name aq archs ver profs =>
    constructor
    · simp [builtChildren, isWsElem]
    · simp only [children_node, builtChildren]
      rcases List.eq_nil_or_concat profs with rfl | ⟨ps, q, rfl⟩
      · cases aq <;> rcases ver with _ | ⟨c', v'⟩ <;> rcases archs with _ | _ | ⟨a', as'⟩ <;>
          simp [Build.aqPart, Build.verPart, Build.archPart, profsPart, isWsElem, T]
      · rw [List.concat_eq_append, profsPart_snoc]
        simp [isWsElem, List.reverse_append]

theorem graftWs_built (r0 r : Lossy.Relation) : (graftWs (toLossless r0) (toLossless r)).1 = toLossless r := by
  rw [graftWs_trimmed_eq _ _ (trimmed_built r), (trimmed_built r0).1, (trimmed_built r0).2]
  rw [toLossless_eq]; simp

/-- `Entry::replace(j, Relation::from(r'))` -/
theorem built_entryReplace (RA RB : List (List Lossy.Relation)) (EA EB : List Lossy.Relation)
    (r0 r' : Lossy.Relation) (f : Field) (hf : f.kids = (built (RA ++ (EA ++ r0 :: EB) :: RB)).children) :
    ∃ p f', nthNode .ENTRY f.kids RA.length = some p
      ∧ f.entryReplaceAt p EA.length (toLossless r') = .ok f'
      ∧ f'.root = built (RA ++ (EA ++ r' :: EB) :: RB) := by
  refine ⟨(preOf sepE (RA.map entryFromLossy)).length, ?_⟩
  have hn : nthNode .ENTRY f.kids RA.length = some (preOf sepE (RA.map entryFromLossy)).length := by
    rw [hf]; exact nthNode_built RA RB _
  rw [built_kids_split] at hf
  have hek := entryKids_split f _ _ _ hf
  have hg := graftWs_built r0 r'
  have he := entry_kids_split EA EB r0
  have e4 : (entryFromLossy (EA ++ r0 :: EB)).kind = .ENTRY := by rw [entryFromLossy_eq]; rfl
  unfold Field.entryReplaceAt
  rw [hek, nthNode_entry]
  simp only [entryReplaceIn, he, getElem?_split, hg, Outcome.map]
  refine ⟨_, hn, rfl, ?_⟩
  show (Node.node Kind.ROOT _ : RNode) = _
  have hf1 := entryEdit_kids f (preOf sepE (RA.map entryFromLossy)).length
    ⟨List.take (preOf sepR (EA.map toLossless)).length (preOf sepR (EA.map toLossless) ++ toLossless r0 :: postOf sepR (EB.map toLossless))
      ++ List.drop ((preOf sepR (EA.map toLossless)).length + 1) (preOf sepR (EA.map toLossless) ++ toLossless r0 :: postOf sepR (EB.map toLossless)),
      Remap.cut (preOf sepR (EA.map toLossless)).length ((preOf sepR (EA.map toLossless)).length + 1)⟩
    (fun x => if x = (preOf sepR (EA.map toLossless)).length then some (graftWs (toLossless r0) (toLossless r')).2.text else none) _ _ _ hf rfl
  rw [entryEdit_kids _ (preOf sepE (RA.map entryFromLossy)).length _ _ (preOf sepE (RA.map entryFromLossy))
    (Node.node (entryFromLossy (EA ++ r0 :: EB)).kind (List.take (preOf sepR (EA.map toLossless)).length (preOf sepR (EA.map toLossless) ++ toLossless r0 :: postOf sepR (EB.map toLossless))
      ++ List.drop ((preOf sepR (EA.map toLossless)).length + 1) (preOf sepR (EA.map toLossless) ++ toLossless r0 :: postOf sepR (EB.map toLossless))))
    (postOf sepE (RB.map entryFromLossy)) (by rw [hf1]; simp) rfl]
  rw [show built (RA ++ (EA ++ r' :: EB) :: RB) = Node.node .ROOT (built (RA ++ (EA ++ r' :: EB) :: RB)).children
    from rfl, built_kids_split, replaceAt_split]
  have e5 : entryFromLossy (EA ++ r' :: EB) = Node.node .ENTRY (preOf sepR (EA.map toLossless)
      ++ toLossless r' :: postOf sepR (EB.map toLossless)) := by
    rw [entryFromLossy_eq, List.map_append, List.map_cons, sepBy_split]
  rw [e5]
  simp [e4]


theorem isItem_built (e : List Lossy.Relation) : isItemNode (entryFromLossy e) = true := by
  rw [entryFromLossy_eq]; rfl
theorem notWs_entry (e : List Lossy.Relation) : isWsElem (entryFromLossy e) = false := by
  rw [entryFromLossy_eq]; rfl
theorem notWs_rel (r : Lossy.Relation) : isWsElem (toLossless r) = false := by
  rw [toLossless_eq]; rfl
theorem kind_entry (e : List Lossy.Relation) : (entryFromLossy e).kind = .ENTRY := by
  rw [entryFromLossy_eq]; rfl
theorem kind_rel (r : Lossy.Relation) : (toLossless r).kind = .RELATION := by
  rw [toLossless_eq]; rfl

theorem built_cons (e : List Lossy.Relation) (es : List (List Lossy.Relation)) :
    (built (e :: es)).children = entryFromLossy e :: postOf sepE (es.map entryFromLossy) := by
  rw [built_children, List.map_cons, sepBy_singletons]

theorem ws_T : isWsElem (T .WHITESPACE " ") = true := rfl
theorem comma_T : isWsElem (T .COMMA ",") = false := rfl
theorem pipe_T : isWsElem (T .PIPE "|") = false := rfl
theorem kind_comma_T : ((T .COMMA ",").kind == Kind.COMMA) = true := rfl
theorem kind_pipe_T : ((T .PIPE "|").kind == Kind.PIPE) = true := rfl
theorem item_comma_T : isItemNode (T .COMMA ",") = false := rfl
theorem item_ws_T : isItemNode (T .WHITESPACE " ") = false := rfl

/-- `Entry::remove` on a built field -/
theorem built_entryRemove (RA RB : List (List Lossy.Relation)) (E : List Lossy.Relation) :
    (entryRemove (built (RA ++ E :: RB)).children (preOf sepE (RA.map entryFromLossy)).length).map (·.kids)
      = .ok (built (RA ++ RB)).children := by
  rw [built_kids_split]
  have ht : ∀ (pre post : List RNode) (x : RNode), (pre ++ x :: post).take pre.length = pre := by
    intro pre post x; simp
  have hd : ∀ (pre post : List RNode) (x : RNode), (pre ++ x :: post).drop (pre.length + 1) = post := by
    intro pre post x; simp
  unfold entryRemove
  simp only [ht, hd]
  rcases List.eq_nil_or_concat RA with rfl | ⟨init, a, rfl⟩
  · cases RB with
    | nil => simp [preOf, postOf, Outcome.map, built, relationsFromEntries, sepBy]
    | cons b B =>
      simp [preOf, postOf_cons, sepE, List.dropWhile_cons, ws_T, comma_T, kind_comma_T, notWs_entry, Outcome.map,
        built_cons]
  · rw [List.concat_eq_append, List.map_append, List.map_cons, List.map_nil, preOf_snoc]
    have hany : (preOf sepE (init.map entryFromLossy) ++ entryFromLossy a :: sepE).any isItemNode = true := by
      rw [List.any_append]; simp [isItem_built]
    simp only [hany, Bool.not_true, Bool.not_false, ↓reduceIte]
    cases RB with
    | nil =>
      rw [List.append_nil, built_snoc]
      simp [sepE, List.dropWhile_cons, ws_T, comma_T, kind_comma_T, notWs_entry, List.reverse_append, postOf,
        Outcome.map]
    | cons b B =>
      rw [built_kids_split (init ++ [a]) B b]
      simp only [List.map_append, List.map_cons, List.map_nil, preOf_snoc]
      simp [sepE, List.dropWhile_cons, ws_T, comma_T, kind_comma_T, notWs_entry, List.reverse_append, postOf_cons,
        Outcome.map]


theorem map_kids_ok {o : Outcome Cut} {K : List RNode} (h : o.map (·.kids) = .ok K) : ∃ c, o = .ok c ∧ c.kids = K := by
  cases o with
  | ok c => exact ⟨c, rfl, by simpa [Outcome.map] using h⟩
  | panic s => simp [Outcome.map] at h

theorem built_root (rs : List (List Lossy.Relation)) : built rs = Node.node .ROOT (built rs).children := rfl

theorem built_removeEntryAt (RA RB : List (List Lossy.Relation)) (E : List Lossy.Relation)
    (f : Field) (hf : f.kids = (built (RA ++ E :: RB)).children) :
    ∃ f', f.removeEntryAt (preOf sepE (RA.map entryFromLossy)).length = .ok f' ∧ f'.root = built (RA ++ RB) := by
  obtain ⟨c, hc, hk⟩ := map_kids_ok (built_entryRemove RA RB E)
  unfold Field.removeEntryAt
  rw [hf, hc]
  refine ⟨_, rfl, ?_⟩
  rw [built_root (RA ++ RB), ← hk]; rfl

/-- `Relations::remove_entry(i)` -/
theorem built_removeEntry (RA RB : List (List Lossy.Relation)) (E : List Lossy.Relation)
    (f : Field) (hf : f.kids = (built (RA ++ E :: RB)).children) :
    ∃ f', f.removeEntry RA.length = .ok f' ∧ f'.root = built (RA ++ RB) := by
  unfold Field.removeEntry
  rw [hf, nthNode_built]
  exact built_removeEntryAt RA RB E f hf

theorem entry_cons (x : Lossy.Relation) (xs : List Lossy.Relation) :
    (entryFromLossy (x :: xs)).children = toLossless x :: postOf sepR (xs.map toLossless) := by
  rw [entryFromLossy_eq, List.map_cons, sepBy_singletons]; rfl

/-- `Relation::remove` inside a built entry -/
theorem built_relationRemoveIn (EA EB : List Lossy.Relation) (r0 : Lossy.Relation) :
    (relationRemoveIn (entryFromLossy (EA ++ r0 :: EB)).children (preOf sepR (EA.map toLossless)).length).map (·.kids)
      = .ok (entryFromLossy (EA ++ EB)).children := by
  rw [entry_kids_split]
  have ht : ∀ (pre post : List RNode) (x : RNode), (pre ++ x :: post).take pre.length = pre := by
    intro pre post x; simp
  have hd : ∀ (pre post : List RNode) (x : RNode), (pre ++ x :: post).drop (pre.length + 1) = post := by
    intro pre post x; simp
  unfold relationRemoveIn
  simp only [ht, hd]
  rcases List.eq_nil_or_concat EA with rfl | ⟨init, a, rfl⟩
  · cases EB with
    | nil => simp [preOf, postOf, Outcome.map, entryFromLossy_eq, sepBy]
    | cons b B =>
      simp [preOf, postOf_cons, sepR, List.dropWhile_cons, ws_T, pipe_T, kind_pipe_T, notWs_rel, Outcome.map,
        entry_cons]
  · rw [List.concat_eq_append, List.map_append, List.map_cons, List.map_nil, preOf_snoc]
    have hany : (preOf sepR (init.map toLossless) ++ toLossless a :: sepR).any (isNodeOf .RELATION) = true := by
      rw [List.any_append]; simp [isRel_built]
    simp only [hany, Bool.not_true, Bool.not_false, ↓reduceIte]
    rw [show init ++ [a] ++ EB = init ++ a :: EB from by simp, entry_kids_split]
    simp [sepR, List.dropWhile_cons, ws_T, pipe_T, kind_pipe_T, notWs_rel, List.reverse_append, Outcome.map]


theorem entry_node (E : List Lossy.Relation) : Node.node .ENTRY (entryFromLossy E).children = entryFromLossy E := by
  rw [entryFromLossy_eq]; rfl

theorem any_rel_entry (E : List Lossy.Relation) :
    (entryFromLossy E).children.any (isNodeOf .RELATION) = !E.isEmpty := by
  cases E with
  | nil => rw [entryFromLossy_eq]; rfl
  | cons x xs => rw [entry_cons]; simp [isRel_built]

/-- `Entry::remove_relation(j)` / `Relation::remove()`: the built layout is kept; an entry left
    without alternative is removed -/
theorem built_removeRelation (RA RB : List (List Lossy.Relation)) (EA EB : List Lossy.Relation)
    (r0 : Lossy.Relation) (f : Field) (hf : f.kids = (built (RA ++ (EA ++ r0 :: EB) :: RB)).children) :
    ∃ f', f.removeRelation RA.length EA.length = .ok f'
      ∧ f'.root = built (if (EA ++ EB).isEmpty then RA ++ RB else RA ++ (EA ++ EB) :: RB) := by
  unfold Field.removeRelation
  rw [hf, nthNode_built]
  rw [built_kids_split] at hf
  have hek := entryKids_split f _ _ _ hf
  simp only
  rw [hek, nthNode_entry]
  simp only
  unfold Field.removeRelationAt
  rw [hek]
  obtain ⟨c, hc, hk⟩ := map_kids_ok (built_relationRemoveIn EA EB r0)
  rw [hc]
  simp only [Outcome.bind]
  have hf1 : (f.entryEdit (preOf sepE (RA.map entryFromLossy)).length c).kids
      = (built (RA ++ (EA ++ EB) :: RB)).children := by
    rw [entryEdit_kids f _ c _ _ _ _ hf rfl, hk, kind_entry, entry_node, built_kids_split]; simp
  have hek1 : (f.entryEdit (preOf sepE (RA.map entryFromLossy)).length c).entryKids
      (preOf sepE (RA.map entryFromLossy)).length = (entryFromLossy (EA ++ EB)).children := by
    rw [built_kids_split] at hf1
    exact entryKids_split _ _ _ _ hf1
  rw [hek1, any_rel_entry]
  cases hE : (EA ++ EB).isEmpty with
  | true =>
    simp only [Bool.not_true, Bool.not_false, ↓reduceIte]
    exact built_removeEntryAt RA RB (EA ++ EB) _ hf1
  | false =>
    simp only [Bool.not_false, Bool.not_true, Bool.false_eq_true, ↓reduceIte]
    refine ⟨_, rfl, ?_⟩
    rw [built_root (RA ++ (EA ++ EB) :: RB), ← hf1]; rfl

end Deb822Verif.Rel.Edit
