import Deb822Verif.Props.C08
/-!
  Lemmas for `Props/C08More.lean`:
  * the bridge between lossy documents with values as STRINGS (`Lossy.Doc`, what the harness
    holds and `Spec.canonDocB` decides) and the line-list grammar of `Props/C08.lean`;
  * the grammar document of ANY lossy document whose fields are canonical — paragraphs without
    fields included: they print as nothing, so that the separator lines pile up as blank lines;
  * closure of the canonical paragraphs under `pset` / `pinsert` / `premove`.
-/
namespace Deb822Verif.Props.C08
open Deb822Verif Deb Deb.Lossy Spec Text

/-! ### values: string ↔ lines -/

theorem splitOn_ne_nil (sep : Char) (s : Str) : Text.splitOn sep s ≠ [] := by
  induction s with
  | nil => simp [Text.splitOn]
  | cons c cs ih =>
    simp only [Text.splitOn]
    split
    · simp
    · split <;> simp

theorem join_cons_head (c : Char) (l : Str) (ls : List Str) :
    Text.join ['\n'] ((c :: l) :: ls) = c :: Text.join ['\n'] (l :: ls) := by
  cases ls <;> simp [Text.join]

/-- a value is the `\n`-join of its lines -/
theorem join_splitOn (v : Str) : Text.join ['\n'] (Text.splitOn '\n' v) = v := by
  induction v with
  | nil => simp [Text.splitOn, Text.join]
  | cons c cs ih =>
    simp only [Text.splitOn]
    split
    · rename_i hc
      cases hs : Text.splitOn '\n' cs with
      | nil => exact absurd hs (splitOn_ne_nil _ _)
      | cons y r =>
        rw [hs] at ih
        simp [Text.join, ih, hc]
    · cases hs : Text.splitOn '\n' cs with
      | nil => exact absurd hs (splitOn_ne_nil _ _)
      | cons y r =>
        rw [hs] at ih
        simp only
        rw [join_cons_head, ih]

/-! ### the domain, on strings -/

/-- canonical value (a string): its `split('\n')` pieces are canonical lines -/
def CanonV (v : Str) : Prop := CanonLines (Text.splitOn '\n' v)

/-- canonical field: valid name, canonical value -/
def CanonF (f : Field) : Prop := ValidKey f.1 ∧ CanonV f.2

/-- field-wise canonical paragraph (may be empty) -/
def CanonP (p : Para) : Prop := ∀ f ∈ p, CanonF f

/-- the domain of the round trip, for a document given as field lists: every paragraph non-empty
    and field-wise canonical. This is what `Spec.canonDocB` decides (`canonDocB_iff`). -/
def CanonD (D : Doc) : Prop := ∀ p ∈ D, p ≠ [] ∧ CanonP p

instance (v : Str) : Decidable (CanonV v) := inferInstanceAs (Decidable (CanonLines (Text.splitOn '\n' v)))
instance (f : Field) : Decidable (CanonF f) := inferInstanceAs (Decidable (ValidKey f.1 ∧ CanonV f.2))
instance (p : Para) : Decidable (CanonP p) := inferInstanceAs (Decidable (∀ f ∈ p, CanonF f))
instance (D : Doc) : Decidable (CanonD D) := inferInstanceAs (Decidable (∀ p ∈ D, p ≠ [] ∧ CanonP p))

/-- the harness's domain predicate is exactly `CanonD` -/
theorem canonDocB_iff (D : Doc) : canonDocB D = true ↔ CanonD D := by
  unfold canonDocB CanonD CanonP CanonF CanonV
  simp only [List.all_eq_true, Bool.and_eq_true, Bool.not_eq_true', List.isEmpty_eq_false_iff,
    decide_eq_true_eq]

/-! ### fields as (name, lines) -/

def fieldL (f : Field) : FieldL := (f.1, Text.splitOn '\n' f.2)

theorem fieldOf_fieldL (f : Field) : fieldOf (fieldL f) = f := by
  simp [fieldOf, fieldL, valueOf, join_splitOn]

theorem map_fieldOf_fieldL (fs : List Field) : (fs.map fieldL).map fieldOf = fs := by
  induction fs with
  | nil => rfl
  | cons f fs ih => simp only [List.map_cons, fieldOf_fieldL, ih]

/-- the grammar paragraph of a non-empty lossy paragraph -/
def paraG (f : Field) (fs : List Field) : ParaS := paraOf (fieldL f) (fs.map fieldL)

theorem paraG_str (f : Field) (fs : List Field) (h : CanonP (f :: fs)) :
    printPara (f :: fs) = (paraG f fs).str := by
  have := paraOf_str (fieldL f) (fs.map fieldL) (h f (by simp)).2 (by
    intro g hg
    simp only [List.mem_map] at hg
    obtain ⟨g', hg', rfl⟩ := hg
    exact (h g' (by simp [hg'])).2)
  rw [fieldOf_fieldL, map_fieldOf_fieldL] at this
  exact this

theorem paraG_wf (f : Field) (fs : List Field) (h : CanonP (f :: fs)) : (paraG f fs).WF := by
  apply paraOf_wf
  · exact h f (by simp)
  · intro g hg
    simp only [List.mem_map] at hg
    obtain ⟨g', hg', rfl⟩ := hg
    exact h g' (by simp [hg'])

theorem paraG_lossy (f : Field) (fs : List Field) : lossyPara (paraG f fs) = f :: fs := by
  have h1 : lossyEntry (entryOf (fieldL f).1 (fieldL f).2) = f := by
    rw [entryOf_lossy (fieldL f).1 (fieldL f).2 (splitOn_ne_nil '\n' f.2)]
    exact fieldOf_fieldL f
  simp only [lossyPara, paraG, paraOf]
  rw [h1, lossyItems_entries _ (by
    intro g hg
    simp only [List.mem_map] at hg
    obtain ⟨g', _, rfl⟩ := hg
    exact splitOn_ne_nil _ _), map_fieldOf_fieldL]

/-! ### the grammar document of an arbitrary field-wise canonical lossy document

`printDoc (p :: ps) = printPara p ++ ` for every further paragraph `q`: a line feed, then `printPara q`.
A paragraph without fields prints as nothing, so its separator line becomes one more blank line
before the next non-empty paragraph (or at the end of the text). -/

theorem printDoc_cons (p : Para) (ps : Doc) :
    printDoc (p :: ps) = printPara p ++ (ps.map fun q => '\n' :: printPara q).flatten := by
  induction ps generalizing p with
  | nil => simp [printDoc]
  | cons q ps ih => simp only [printDoc, ih q, List.map_cons, List.flatten_cons, List.cons_append]

/-- the blank lines in front of the first non-empty paragraph of `ps`, when every paragraph of
    `ps` is preceded by its separator line -/
def leadOf : Doc → List Gap
  | [] => []
  | [] :: ps => Gap.blank :: leadOf ps
  | (_ :: _) :: _ => [Gap.blank]

/-- the non-empty paragraphs, each with the blank lines that follow it -/
def parasOf : Doc → List (ParaS × List Gap)
  | [] => []
  | [] :: ps => parasOf ps
  | (f :: fs) :: ps => (paraG f fs, leadOf ps) :: parasOf ps

/-- the grammar document of `D` -/
def docG : Doc → DocS
  | [] => ⟨[], []⟩
  | [] :: ps => ⟨leadOf ps, parasOf ps⟩
  | (f :: fs) :: ps => ⟨[], (paraG f fs, leadOf ps) :: parasOf ps⟩

theorem printPara_nil : printPara [] = [] := rfl

theorem tail_str (ps : Doc) (h : ∀ p ∈ ps, CanonP p) :
    (ps.map fun q => '\n' :: printPara q).flatten =
      gapsStr (leadOf ps) ++ ((parasOf ps).map fun pg => pg.1.str ++ gapsStr pg.2).flatten := by
  induction ps with
  | nil => rfl
  | cons p ps ih =>
    have ih' := ih (fun q hq => h q (by simp [hq]))
    cases p with
    | nil =>
      simp only [List.map_cons, List.flatten_cons, leadOf, parasOf, gapsStr, Gap.str, ih',
        printPara_nil, List.cons_append, List.nil_append]
    | cons f fs =>
      simp only [List.map_cons, List.flatten_cons, leadOf, parasOf, gapsStr, Gap.str, ih',
        paraG_str f fs (h _ (by simp)), List.map_nil, List.flatten_nil, List.cons_append,
        List.nil_append, List.append_nil, List.append_assoc]

/-- the printer's output is the text of the grammar document -/
theorem docG_str (D : Doc) (h : ∀ p ∈ D, CanonP p) : printDoc D = (docG D).str := by
  cases D with
  | nil => rfl
  | cons p ps =>
    rw [printDoc_cons, tail_str ps (fun q hq => h q (by simp [hq]))]
    cases p with
    | nil => simp [docG, DocS.str, printPara]
    | cons f fs =>
      simp [docG, DocS.str, paraG_str f fs (h _ (by simp)), gapsStr]

theorem leadOf_blank (ps : Doc) : ∀ g ∈ leadOf ps, g = Gap.blank := by
  induction ps with
  | nil => intro g hg; simp [leadOf] at hg
  | cons p ps ih =>
    cases p with
    | nil =>
      intro g hg
      simp only [leadOf, List.mem_cons] at hg
      rcases hg with rfl | hg
      · rfl
      · exact ih g hg
    | cons f fs => intro g hg; simpa [leadOf] using hg

theorem gapsTerm_blanks (gs : List Gap) (h : ∀ g ∈ gs, g = Gap.blank) (more : Bool) : gapsTerm gs more := by
  induction gs with
  | nil => trivial
  | cons g gs ih =>
    have hg := h g (by simp)
    subst hg
    exact ih (fun x hx => h x (by simp [hx]))

theorem leadOf_shape (ps : Doc) : leadOf ps = [] ∨ ∃ g', leadOf ps = Gap.blank :: g' := by
  cases ps with
  | nil => left; rfl
  | cons p ps =>
    cases p with
    | nil => right; exact ⟨_, rfl⟩
    | cons f fs => right; exact ⟨_, rfl⟩

/-- when a non-empty paragraph follows, the gap starts with a blank line -/
theorem leadOf_of_paras (ps : Doc) (h : parasOf ps ≠ []) : ∃ g', leadOf ps = Gap.blank :: g' := by
  cases ps with
  | nil => exact absurd rfl h
  | cons p ps =>
    cases p with
    | nil => exact ⟨_, rfl⟩
    | cons f fs => exact ⟨_, rfl⟩

theorem parasOf_ok (ps : Doc) (h : ∀ p ∈ ps, CanonP p) :
    ∀ pg ∈ parasOf ps, pg.1.WF ∧ ∀ g ∈ pg.2, g.WF := by
  induction ps with
  | nil => intro pg hpg; simp [parasOf] at hpg
  | cons p ps ih =>
    have ih' := ih (fun q hq => h q (by simp [hq]))
    cases p with
    | nil => simpa [parasOf] using ih'
    | cons f fs =>
      intro pg hpg
      simp only [parasOf, List.mem_cons] at hpg
      rcases hpg with rfl | hpg
      · refine ⟨paraG_wf f fs (h _ (by simp)), ?_⟩
        intro g hg
        rw [leadOf_blank ps g hg]; trivial
      · exact ih' pg hpg

theorem paraG_term (f : Field) (fs : List Field) (more : Bool) : (paraG f fs).Term more :=
  paraOf_term _ _ _

theorem parasOf_term (ps : Doc) : parasTerm (parasOf ps) := by
  induction ps with
  | nil => trivial
  | cons p ps ih =>
    cases p with
    | nil => simpa [parasOf] using ih
    | cons f fs =>
      simp only [parasOf]
      cases hq : parasOf ps with
      | nil =>
        exact ⟨paraG_term _ _ _, leadOf_shape ps, gapsTerm_blanks _ (leadOf_blank ps) _⟩
      | cons x xs =>
        rw [hq] at ih
        exact ⟨paraG_term _ _ _, leadOf_of_paras ps (by rw [hq]; simp),
          gapsTerm_blanks _ (leadOf_blank ps) _, ih⟩

theorem docG_wf (D : Doc) (h : ∀ p ∈ D, CanonP p) : (docG D).WF := by
  cases D with
  | nil => exact ⟨by simp [docG], trivial, by simp [docG], trivial⟩
  | cons p ps =>
    have hps : ∀ q ∈ ps, CanonP q := fun q hq => h q (by simp [hq])
    cases p with
    | nil =>
      refine ⟨?_, gapsTerm_blanks _ (leadOf_blank ps) _, parasOf_ok ps hps, parasOf_term ps⟩
      intro g hg
      rw [leadOf_blank ps g hg]; trivial
    | cons f fs =>
      refine ⟨by simp [docG], trivial, ?_, ?_⟩
      · exact parasOf_ok ((f :: fs) :: ps) h
      · exact parasOf_term ((f :: fs) :: ps)

theorem lossy_parasOf (ps : Doc) :
    (parasOf ps).map (fun pg => lossyPara pg.1) = ps.filter (fun p => !p.isEmpty) := by
  induction ps with
  | nil => rfl
  | cons p ps ih =>
    cases p with
    | nil => simpa [parasOf] using ih
    | cons f fs => simp [parasOf, paraG_lossy, ih]

/-- what the lossy reader makes of the grammar document: the paragraphs that have fields -/
theorem lossyDoc_docG (D : Doc) : lossyDoc (docG D) = D.filter (fun p => !p.isEmpty) := by
  cases D with
  | nil => rfl
  | cons p ps =>
    cases p with
    | nil => simpa [docG, lossyDoc] using lossy_parasOf ps
    | cons f fs =>
      have := lossy_parasOf ((f :: fs) :: ps)
      simpa [docG, lossyDoc, parasOf] using this

/-! ### what the lossless reader shows of the grammar document -/

/-- the lossless view of a canonical value: an empty first line is not shown -/
def dropLead (v : Str) : Str :=
  match v with
  | [] => []
  | c :: r => if c = '\n' then r else c :: r

/-- a field as the lossless reader shows it -/
def viewF (f : Field) : Field := (f.1, dropLead f.2)

theorem entryOf_valueLines (k : Str) (ls : List Str) :
    (entryOf k ls).valueLines = (if ls.headD [] = [] then [] else [ls.headD []]) ++ ls.tail := by
  simp [EntryS.valueLines, entryOf, List.map_map, Function.comp_def]

theorem entryOf_content_str (k v : Str) :
    (entryOf k (Text.splitOn '\n' v)).content = (k, dropLead v) := by
  simp only [EntryS.content, entryOf_valueLines]
  have hk : (entryOf k (Text.splitOn '\n' v)).key = k := rfl
  rw [hk]
  congr 1
  cases v with
  | nil => simp [Text.splitOn, Text.join, dropLead]
  | cons c r =>
    by_cases hc : c = '\n'
    · subst hc
      simp only [Text.splitOn, ↓reduceIte, List.headD_cons, List.tail_cons, List.nil_append, dropLead]
      exact join_splitOn r
    · have hj := join_splitOn (c :: r)
      simp only [dropLead, hc, ↓reduceIte]
      cases hs : Text.splitOn '\n' r with
      | nil => exact absurd hs (splitOn_ne_nil _ _)
      | cons l ls =>
        simp only [Text.splitOn, hc, ↓reduceIte, hs] at hj ⊢
        simpa using hj

theorem items_content (fs : List Field) :
    (((fs.map fieldL).map fun g => PItem.entry (entryOf g.1 g.2)).map PItem.content).flatten
      = fs.map viewF := by
  induction fs with
  | nil => rfl
  | cons g gs ih =>
    simp only [List.map_cons, List.flatten_cons, PItem.content, ih]
    have : (entryOf (fieldL g).1 (fieldL g).2).content = viewF g := entryOf_content_str g.1 g.2
    rw [this]; rfl

theorem paraG_content (f : Field) (fs : List Field) : (paraG f fs).content = (f :: fs).map viewF := by
  have h1 : (entryOf (fieldL f).1 (fieldL f).2).content = viewF f := entryOf_content_str f.1 f.2
  simp only [ParaS.content, paraG, paraOf, h1, items_content, List.map_cons]

theorem content_parasOf (ps : Doc) :
    (parasOf ps).map (fun pg => pg.1.content) = (ps.filter (fun p => !p.isEmpty)).map (·.map viewF) := by
  induction ps with
  | nil => rfl
  | cons p ps ih =>
    cases p with
    | nil => simpa [parasOf] using ih
    | cons f fs => simp [parasOf, paraG_content, ih]

theorem content_docG (D : Doc) :
    (docG D).content = (D.filter (fun p => !p.isEmpty)).map (·.map viewF) := by
  cases D with
  | nil => rfl
  | cons p ps =>
    cases p with
    | nil => simpa [docG, DocS.content] using content_parasOf ps
    | cons f fs =>
      have := content_parasOf ((f :: fs) :: ps)
      simpa [docG, DocS.content, parasOf] using this

/-! ### closure of the canonical paragraphs under the edits -/

theorem canonP_pinsert (p : Para) (k v : Str) (hp : CanonP p) (hk : ValidKey k) (hv : CanonV v) :
    CanonP (pinsert p k v) := by
  intro f hf
  simp only [pinsert, List.mem_append, List.mem_singleton] at hf
  rcases hf with hf | rfl
  · exact hp f hf
  · exact ⟨hk, hv⟩

theorem canonP_pset (p : Para) (k v : Str) (hp : CanonP p) (hk : ValidKey k) (hv : CanonV v) :
    CanonP (pset p k v) := by
  induction p with
  | nil =>
    intro f hf
    simp only [pset, List.mem_singleton] at hf
    subst hf; exact ⟨hk, hv⟩
  | cons g gs ih =>
    have hg := hp g (by simp)
    have hgs : CanonP gs := fun x hx => hp x (by simp [hx])
    simp only [pset]
    split
    · intro f hf
      simp only [List.mem_cons] at hf
      rcases hf with rfl | hf
      · exact ⟨hg.1, hv⟩
      · exact hgs f hf
    · intro f hf
      simp only [List.mem_cons] at hf
      rcases hf with rfl | hf
      · exact hg
      · exact ih hgs f hf

/-- `premove` needs no condition on the name -/
theorem canonP_premove (p : Para) (k : Str) (hp : CanonP p) : CanonP (premove p k) := by
  intro f hf
  simp only [premove, List.mem_filter] at hf
  exact hp f hf.1

end Deb822Verif.Props.C08
