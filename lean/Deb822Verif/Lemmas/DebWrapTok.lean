import Deb822Verif.Lemmas.DebEditTok
import Deb822Verif.Model.DebWrap
/-!
  The live result of `Deb822::wrap_and_sort(None, None)` (`deb822Wrap none none`, no sorting, no
  per-paragraph callback) on the tree of a `DocS`, as a list of root units (`RUnit`,
  `Lemmas/DebEditTok.lean`): per paragraph the comment lines that stood in front of it — now bare
  COMMENT / NEWLINE tokens —, the paragraph node, a bare NEWLINE token if its last line lacked the
  terminator; single blank-line nodes between these groups; the trailing comment lines as bare
  tokens. It satisfies `RInv` when the document is well-formed.
-/
namespace Deb822Verif.Spec
open Deb822Verif Deb Node

/-- the comment lines among blank / comment lines -/
def gapComs : List Gap → List Str
  | [] => []
  | .blank :: gs => gapComs gs
  | .comment t _ :: gs => t :: gapComs gs

def comTok (t : Str) : DNode := Node.tok .COMMENT ('#' :: t)

/-- the grouping `Deb822::wrap_and_sort` computes: per paragraph the comments in front of it; the
    comments after the last paragraph -/
def grpParas : List (ParaS × List Gap) → List Str → List (List Str × ParaS) × List Str
  | [], cur => ([], cur)
  | pg :: ps, cur =>
    ((cur, pg.1) :: (grpParas ps (gapComs pg.2)).1, (grpParas ps (gapComs pg.2)).2)

theorem groupRoot_gaps_tok (gs : List Gap) (rest : List DNode) (cur : List Str) :
    groupRoot (gs.map Gap.node ++ rest) (cur.map comTok) = groupRoot rest ((cur ++ gapComs gs).map comTok) := by
  induction gs generalizing cur with
  | nil => simp [gapComs]
  | cons g gs ih =>
    cases g with
    | blank =>
      simp only [List.map_cons, List.cons_append, gapComs]
      rw [show groupRoot (Gap.node Gap.blank :: (gs.map Gap.node ++ rest)) (cur.map comTok)
          = groupRoot (gs.map Gap.node ++ rest) (cur.map comTok) from by
        simp [groupRoot, Gap.node, Gap.toks, Node.isNode, Node.kind, emptyLineKeep, Node.children]]
      exact ih cur
    | comment t nl =>
      simp only [List.map_cons, List.cons_append, gapComs]
      rw [show groupRoot (Gap.node (Gap.comment t nl) :: (gs.map Gap.node ++ rest)) (cur.map comTok)
          = groupRoot (gs.map Gap.node ++ rest) ((cur ++ [t]).map comTok) from by
        cases nl <;>
          simp [groupRoot, Gap.node, Gap.toks, Node.isNode, Node.kind, emptyLineKeep, Node.children, nlTok, comTok]]
      rw [ih]; simp

theorem parasNodes_cons_tok (pg : ParaS × List Gap) (ps : List (ParaS × List Gap)) :
    parasNodes (pg :: ps) = pg.1.node :: (pg.2.map Gap.node ++ parasNodes ps) := by
  simp [parasNodes]

theorem groupRoot_parasNodes_tok (ps : List (ParaS × List Gap)) (cur : List Str) :
    groupRoot (parasNodes ps) (cur.map comTok)
      = ((grpParas ps cur).1.map (fun x => (x.1.map comTok, x.2.node)), (grpParas ps cur).2.map comTok) := by
  induction ps generalizing cur with
  | nil => simp [parasNodes, groupRoot, grpParas]
  | cons pg ps ih =>
    rw [parasNodes_cons_tok]
    have hp : (pg.1.node.isNode && pg.1.node.kind == Kind.PARAGRAPH) = true := rfl
    simp only [groupRoot, hp, ↓reduceIte, grpParas]
    have h1 := groupRoot_gaps_tok pg.2 (parasNodes ps) []
    simp only [List.map_nil, List.nil_append] at h1
    rw [h1, ih]
    simp

/-- the groups of the tree of a `DocS` -/
theorem groupRoot_tree (d : DocS) :
    groupRoot d.tree.children [] =
      ((grpParas d.paras (gapComs d.lead)).1.map (fun x => (x.1.map comTok, x.2.node)),
       (grpParas d.paras (gapComs d.lead)).2.map comTok) := by
  have h1 := groupRoot_gaps_tok d.lead (parasNodes d.paras) []
  simp only [List.map_nil, List.nil_append] at h1
  simp only [DocS.tree, Node.children]
  rw [h1, groupRoot_parasNodes_tok]

/-! ### the result as root units -/

/-- comment lines as bare tokens -/
def coms : List Str → List RUnit
  | [] => []
  | t :: ts => .ctok t :: .nltok :: coms ts

/-- one group: the comment lines in front, the paragraph, the terminator it lacked -/
def grpU (x : List Str × ParaS) : List RUnit :=
  coms x.1 ++ [.para (paraBody x.2)] ++ (if needsB (paraBody x.2) then [.nltok] else [])

def wrapGo : List (List Str × ParaS) → List Str → List RUnit
  | [], tr => coms tr
  | [x], tr => grpU x ++ coms tr
  | x :: y :: xs, tr => grpU x ++ .gap .blank :: wrapGo (y :: xs) tr

/-- **the root units of `wrap_and_sort(None, None)`** -/
def wrapUnits (d : DocS) : List RUnit :=
  wrapGo (grpParas d.paras (gapComs d.lead)).1 (grpParas d.paras (gapComs d.lead)).2

theorem allTokens_comToks (cs : List Str) :
    allTokens (cs.map comTok) = some (cs.map fun t => (Kind.COMMENT, '#' :: t)) := by
  induction cs with
  | nil => rfl
  | cons c cs ih => simp [allTokens, comTok, ih]

theorem withNewlines_coms (cs : List Str) :
    withNewlines (cs.map fun t => (Kind.COMMENT, '#' :: t)) = rkids (coms cs) := by
  induction cs with
  | nil => rfl
  | cons c cs ih => simpa [withNewlines, coms, rkids, RUnit.node] using ih

theorem children_paraNode (p : ParaS) : p.node.children = lnodes (paraBody p) := by
  rw [← node_paraBody]; rfl

/-- the terminator decision of the model is `needsB` -/
theorem term_eq (p : ParaS) :
    (match lastTok p.node.children with
      | some t => if t.1 == Kind.NEWLINE then [] else [Node.tok Kind.NEWLINE ['\n']]
      | none => ([] : List DNode))
    = rkids (if needsB (paraBody p) then [.nltok] else []) := by
  rw [children_paraNode]
  simp only [needsB, needsNl_lastTok]
  cases lastTok (lnodes (paraBody p)) with
  | none => rfl
  | some t => by_cases h : t.1 = Kind.NEWLINE <;> simp [h, rkids, RUnit.node]

theorem mapM'_ident {α} (F : α → Option α) (hF : ∀ a, F a = some a) (l : List α) : mapM' F l = some l := by
  induction l with
  | nil => rfl
  | cons a l ih => simp only [mapM', ih, hF]

/-- one output group of the model, when the pending trivia are tokens -/
def grpOpt (pp : List DNode × DNode) : Option (List DNode) :=
  (allTokens pp.1).map fun pre => withNewlines pre ++ [pp.2] ++
    (match lastTok pp.2.children with
      | some t => if t.1 == Kind.NEWLINE then [] else [Node.tok Kind.NEWLINE ['\n']]
      | none => ([] : List DNode))

theorem mapM'_groups_tok (G : List DNode × DNode → Option (List DNode)) (hG : ∀ pp, G pp = grpOpt pp)
    (xs : List (List Str × ParaS)) :
    mapM' G (xs.map (fun x => (x.1.map comTok, x.2.node))) = some (xs.map fun x => rkids (grpU x)) := by
  induction xs with
  | nil => rfl
  | cons x xs ih =>
    simp only [List.map_cons, mapM', ih, hG, grpOpt, allTokens_comToks, withNewlines_coms, term_eq,
      Option.map_some]
    simp only [grpU, rkids_append, List.append_assoc, Option.some.injEq, List.cons.injEq, and_true]
    congr 1
    have : rkids [RUnit.para (paraBody x.2)] = [x.2.node] := by
      simp [rkids, RUnit.node, ← node_paraBody, EUnit.node]
    rw [this]

theorem joinParas_wrapGo (xs : List (List Str × ParaS)) (tr : List Str) :
    joinParas (xs.map fun x => rkids (grpU x)) ++ rkids (coms tr) = rkids (wrapGo xs tr) := by
  induction xs with
  | nil => rfl
  | cons x xs ih =>
    cases xs with
    | nil => simp [joinParas, wrapGo, rkids_append]
    | cons y ys =>
      simp only [List.map_cons, joinParas, wrapGo, rkids_append, List.append_assoc, List.cons_append] at ih ⊢
      rw [ih]
      rfl

/-- **`Deb822::wrap_and_sort(None, None)` on the tree of ANY `DocS` never panics and returns exactly
    these root units** -/
theorem deb822Wrap_runits (d : DocS) :
    deb822Wrap none none d.tree = some (.node .ROOT (rkids (wrapUnits d))) := by
  have hG : ∀ pp : List DNode × DNode,
      (match allTokens pp.1, some pp.2 with
      | some pre, some p' =>
        some (withNewlines pre ++ [p'] ++ match lastTok p'.children with
          | some t => if t.1 == .NEWLINE then [] else [Node.tok .NEWLINE ['\n']]
          | none => [])
      | _, _ => none) = grpOpt pp := by
    intro pp; simp only [grpOpt]; cases allTokens pp.1 <;> rfl
  unfold deb822Wrap
  simp only [groupRoot_tree]
  split
  · rename_i hnone
    have e : none = some _ := hnone.symm.trans (mapM'_ident _ (fun _ => rfl) _)
    cases e
  · rename_i wrapped hw
    have hw' : some wrapped = some _ := hw.symm.trans (mapM'_ident _ (fun _ => rfl) _)
    simp only [Option.some.injEq] at hw'
    subst hw'
    split
    · rename_i groups trailing hgr htra
      have e1 : some groups = some _ := hgr.symm.trans (mapM'_groups_tok _ hG _)
      have e2 : some trailing = some _ := htra.symm.trans (allTokens_comToks _)
      simp only [Option.some.injEq] at e1 e2
      subst e1 e2
      simp only [withNewlines_coms, joinParas_wrapGo]
      rfl
    · rename_i hno
      exact (hno _ _ (mapM'_groups_tok _ hG _) (allTokens_comToks _)).elim


/-! ### the result satisfies the invariant -/

theorem RT_coms (cs : List Str) (rest : List RUnit) (s : St) (t : Bool) (hs : s = .g ∨ s = .p false) :
    RT s (coms cs ++ rest) t ↔ RT s rest t := by
  induction cs with
  | nil => rfl
  | cons c cs ih =>
    simp only [coms, List.cons_append, RT]
    rcases hs with rfl | rfl
    · simp only [St.ok, St.next, true_or, true_and]
      exact ih
    · simp only [St.ok, St.next, or_true, true_and]
      exact ih

theorem RT_grpU (x : List Str × ParaS) (rest : List RUnit) (t : Bool) (h : RT (.p false) rest t) :
    RT .g (grpU x ++ rest) t := by
  simp only [grpU, List.append_assoc]
  rw [RT_coms _ _ _ _ (Or.inl rfl)]
  refine ⟨rfl, ?_⟩
  simp only [St.next]
  cases hb : needsB (paraBody x.2) with
  | true => exact ⟨trivial, h⟩
  | false => exact h

theorem RT_wrapGo (xs : List (List Str × ParaS)) (tr : List Str) : RT .g (wrapGo xs tr) true := by
  have htr : ∀ s, (s = St.g ∨ s = St.p false) → RT s (coms tr) true := by
    intro s hs
    have := (RT_coms tr [] s true hs).2 trivial
    simpa using this
  induction xs with
  | nil => exact htr _ (Or.inl rfl)
  | cons x xs ih =>
    cases xs with
    | nil => exact RT_grpU x _ _ (htr _ (Or.inr rfl))
    | cons y ys =>
      simp only [wrapGo]
      apply RT_grpU
      exact ⟨⟨Or.inr ⟨rfl, rfl⟩, trivial⟩, ih⟩

theorem coms_wf (cs : List Str) (h : ∀ c ∈ cs, NoNl c) : ∀ u ∈ coms cs, u.WF := by
  induction cs with
  | nil => intro u hu; simp [coms] at hu
  | cons c cs ih =>
    intro u hu
    simp only [coms, List.mem_cons] at hu
    rcases hu with rfl | rfl | hu
    · exact h c (by simp)
    · trivial
    · exact ih (fun x hx => h x (by simp [hx])) u hu

theorem paraBody_wf (p : ParaS) (hp : p.WF) (m : Bool) (ht : p.Term m) : (RUnit.para (paraBody p)).WF := by
  refine ⟨?_, ?_⟩
  · rw [toPs_paraBody]
    intro i hi
    simp only [List.mem_cons] at hi
    rcases hi with rfl | hi
    · exact hp.first_ok
    · exact hp.rest_ok i hi
  · rw [toPs_paraBody]
    exact itemsTerm_mono _ m false (by simp) ht

theorem grpU_wf (x : List Str × ParaS) (hc : ∀ c ∈ x.1, NoNl c) (hp : x.2.WF) (m : Bool) (ht : x.2.Term m) :
    ∀ u ∈ grpU x, u.WF := by
  intro u hu
  simp only [grpU, List.mem_append, List.mem_singleton] at hu
  rcases hu with (hu | rfl) | hu
  · exact coms_wf _ hc u hu
  · exact paraBody_wf _ hp m ht
  · split at hu
    · simp at hu; subst hu; trivial
    · simp at hu

theorem wrapGo_wf (xs : List (List Str × ParaS)) (tr : List Str)
    (hxs : ∀ x ∈ xs, (∀ c ∈ x.1, NoNl c) ∧ x.2.WF ∧ ∃ m, x.2.Term m) (htr : ∀ c ∈ tr, NoNl c) :
    ∀ u ∈ wrapGo xs tr, u.WF := by
  induction xs with
  | nil => exact coms_wf tr htr
  | cons x xs ih =>
    obtain ⟨h1, h2, m, h3⟩ := hxs x (by simp)
    cases xs with
    | nil =>
      intro u hu
      simp only [wrapGo, List.mem_append] at hu
      rcases hu with hu | hu
      · exact grpU_wf x h1 h2 m h3 u hu
      · exact coms_wf tr htr u hu
    | cons y ys =>
      intro u hu
      simp only [wrapGo, List.mem_append, List.mem_cons] at hu
      rcases hu with hu | rfl | hu
      · exact grpU_wf x h1 h2 m h3 u hu
      · trivial
      · exact ih (fun z hz => hxs z (by simp [hz])) u hu

theorem gapComs_nonl (gs : List Gap) (h : ∀ g ∈ gs, g.WF) : ∀ c ∈ gapComs gs, NoNl c := by
  induction gs with
  | nil => simp [gapComs]
  | cons g gs ih =>
    have ih' := ih fun x hx => h x (by simp [hx])
    cases g with
    | blank => exact ih'
    | comment t nl =>
      intro c hc
      simp only [gapComs, List.mem_cons] at hc
      rcases hc with rfl | hc
      · exact h (.comment c nl) (by simp)
      · exact ih' c hc

theorem parasTerm_each' (ps : List (ParaS × List Gap)) (h : parasTerm ps) : ∀ pg ∈ ps, ∃ m, pg.1.Term m := by
  induction ps with
  | nil => simp
  | cons pg ps ih =>
    obtain ⟨p, g⟩ := pg
    cases ps with
    | nil =>
      intro x hx
      simp only [List.mem_cons, List.not_mem_nil, or_false] at hx
      subst hx; exact ⟨_, h.1⟩
    | cons q ps' =>
      intro x hx
      simp only [List.mem_cons] at hx
      rcases hx with rfl | hx
      · exact ⟨_, h.1⟩
      · exact ih h.2.2.2 x (by simpa using hx)

theorem grpParas_props (ps : List (ParaS × List Gap)) (cur : List Str)
    (hwf : ∀ pg ∈ ps, pg.1.WF ∧ ∀ g ∈ pg.2, g.WF) (ht : ∀ pg ∈ ps, ∃ m, pg.1.Term m) (hc : ∀ c ∈ cur, NoNl c) :
    (∀ x ∈ (grpParas ps cur).1, (∀ c ∈ x.1, NoNl c) ∧ x.2.WF ∧ ∃ m, x.2.Term m)
      ∧ ∀ c ∈ (grpParas ps cur).2, NoNl c := by
  induction ps generalizing cur with
  | nil => simp [grpParas]; exact hc
  | cons pg ps ih =>
    simp only [grpParas]
    have h0 := hwf pg (by simp)
    have := ih (gapComs pg.2) (fun x hx => hwf x (by simp [hx])) (fun x hx => ht x (by simp [hx]))
      (gapComs_nonl pg.2 h0.2)
    refine ⟨?_, this.2⟩
    intro x hx
    simp only [List.mem_cons] at hx
    rcases hx with rfl | hx
    · exact ⟨hc, h0.1, ht pg (by simp)⟩
    · exact this.1 x hx

/-- **the live result of `wrap_and_sort(None, None)` on a parsed well-formed document satisfies the
    edit invariant** -/
theorem rinv_wrapUnits (d : DocS) (hwf : d.WF) : RInv (wrapUnits d) := by
  obtain ⟨h1, h2⟩ := grpParas_props d.paras (gapComs d.lead) hwf.paras_ok
    (parasTerm_each' d.paras hwf.paras_term) (gapComs_nonl d.lead hwf.lead_ok)
  exact ⟨wrapGo_wf _ _ h1 h2, RT_wrapGo _ _⟩

end Deb822Verif.Spec
