import Deb822Verif.Model.DebParse
import Deb822Verif.Model.RelParse
/-!
# Depth of the parse trees (stack clause of C02)

`Node.depth`: number of nested *nodes* on the longest root-to-leaf path (a token has depth 0, a node
without children depth 1).  A recursive consumer of the tree (`inject`, `Display`, `Drop` of the
rowan green tree) nests one call per node level plus one for the token, so its stack use is bounded
by `depth + 1` frames.

Per parser fragment: `depthList (fragment ts).nodes ≤ k`, for every token list.
-/
namespace Deb822Verif
namespace Node
variable {κ : Type}

mutual
/-- nesting of nodes: a token is 0, a node is one more than its deepest child -/
def depth : Node κ → Nat
  | .tok _ _ => 0
  | .node _ cs => depthList cs + 1
/-- the deepest of a list of siblings (0 for none) -/
def depthList : List (Node κ) → Nat
  | [] => 0
  | n :: ns => max n.depth (depthList ns)
end

@[simp] theorem depth_tok (k : κ) (t) : (Node.tok k t).depth = 0 := by simp [depth]
@[simp] theorem depth_node (k : κ) (cs) : (Node.node k cs).depth = depthList cs + 1 := by simp [depth]
@[simp] theorem depthList_nil : depthList ([] : List (Node κ)) = 0 := by simp [depthList]
@[simp] theorem depthList_cons (n : Node κ) (ns) :
    depthList (n :: ns) = max n.depth (depthList ns) := by simp [depthList]
@[simp] theorem depthList_append (a b : List (Node κ)) :
    depthList (a ++ b) = max (depthList a) (depthList b) := by
  induction a with
  | nil => simp
  | cons x xs ih => simp [ih, Nat.max_assoc]

end Node

/-! ## deb822 -/
namespace Deb.Depth
open Deb822Verif Deb Node

theorem skipWs_depth (ts) : depthList (skipWs ts).1 = 0 := by
  induction ts with
  | nil => simp [skipWs]
  | cons t ts ih => unfold skipWs; split <;> simp [ih]

theorem bumpVals_depth (ts) : depthList (bumpVals ts).1 = 0 := by
  induction ts with
  | nil => simp [bumpVals]
  | cons t ts ih => unfold bumpVals; split <;> simp [ih]

theorem untilNl_depth (ts) : depthList (untilNl ts).1 = 0 := by
  induction ts with
  | nil => simp [untilNl]
  | cons t ts ih => unfold untilNl; split <;> simp [ih]

theorem nlNodes_depth (t : Tok) : depthList (nlNodes t) ≤ 1 := by
  unfold nlNodes; split <;> simp

theorem entryLines_depth (ts) : depthList (entryLines ts).nodes ≤ 1 := by
  fun_induction entryLines ts
  next x h => simp [bumpVals_depth]
  next x t h => have := nlNodes_depth t; simp [bumpVals_depth]; omega
  next x t i r3 h hi ih =>
    have := nlNodes_depth t
    simp [bumpVals_depth, skipWs_depth]; omega
  next x t i r3 h hi => have := nlNodes_depth t; simp [bumpVals_depth]; omega

theorem commentLoop_depth : ∀ ts, depthList (commentLoop ts).nodes ≤ 1
  | [] => by simp [commentLoop]
  | [t] => by simp only [commentLoop]; split <;> simp
  | t :: n :: ts => by
    simp only [commentLoop]; split
    · have := nlNodes_depth n; have := commentLoop_depth ts; simp; omega
    · simp

theorem keyPart_depth (ts) : depthList (keyPart ts).nodes ≤ 1 := by
  cases ts with
  | nil => simp [keyPart]
  | cons t ts => simp only [keyPart]; split <;> simp [skipWs_depth]

theorem colonPart_depth (ts) : depthList (colonPart ts).nodes ≤ 1 := by
  cases ts with
  | nil => simp [colonPart]
  | cons t ts => simp only [colonPart]; split <;> simp [skipWs_depth]

theorem entryBody_depth (ts) : depthList (entryBody ts).nodes ≤ 2 := by
  have h1 := keyPart_depth ts
  have h2 := colonPart_depth (keyPart ts).rest
  have h3 := entryLines_depth (colonPart (keyPart ts).rest).rest
  simp [entryBody]; omega

theorem parseEntry_depth (ts) : depthList (parseEntry ts).nodes ≤ 2 := by
  have h1 := commentLoop_depth ts
  have h2 := entryBody_depth (commentLoop ts).rest
  simp only [parseEntry]; split <;> simp <;> omega

theorem paraLoop_depth (ts) : depthList (paraLoop ts).nodes ≤ 2 := by
  fun_induction paraLoop ts
  case case1 => simp
  case case2 => simp
  case case3 t ts' hn e r ih =>
    have := parseEntry_depth (t :: ts')
    simp only [depthList_append, e, r] at ih ⊢; omega

theorem skipWsNl_depth (ts) : depthList (skipWsNl ts).1 ≤ 1 := by
  fun_induction skipWsNl ts
  case case1 => simp
  case case2 t ts' hb b r ih => simp [b, r, untilNl_depth] at ih ⊢; omega
  case case3 => simp

theorem rootLoop_depth (ts) : depthList (rootLoop ts).nodes ≤ 3 := by
  fun_induction rootLoop ts
  case case1 => simp
  case case2 t0 ts0 s h => have := skipWsNl_depth (t0 :: ts0); simp only [s]; omega
  case case3 t0 ts0 s t r h p q ih =>
    have h1 := skipWsNl_depth (t0 :: ts0)
    have h2 := paraLoop_depth (t :: r)
    simp [s, p, q] at ih ⊢; omega

/-- the lossless deb822 parser builds trees of depth at most 4 on every token list -/
theorem parseTokens_depth (ts) : (parseTokens ts).tree.depth ≤ 4 := by
  have := rootLoop_depth ts
  simp [parseTokens]; omega

end Deb.Depth

/-! ## relations -/
namespace Rel.Depth
open Deb822Verif Rel Node PR

theorem andThen_depth (a : PR) (f : List Tok → PR) :
    depthList (a.andThen f).nodes = max (depthList a.nodes) (depthList (f a.rest).nodes) := by
  simp [PR.andThen]

theorem wrap_depth (k : Kind) (a : PR) : depthList (a.wrap k).nodes = depthList a.nodes + 1 := by
  simp [PR.wrap]

theorem nil_depth (ts) : depthList (PR.nil ts).nodes = 0 := by simp [PR.nil]

theorem skipWs_depth (ts) : depthList (skipWs ts).nodes = 0 := by
  induction ts with
  | nil => simp [skipWs]
  | cons t ts ih => unfold skipWs; split <;> simp [ih]

theorem bump1_depth (ts) : depthList (bump1 ts).nodes = 0 := by cases ts <;> simp [bump1]

theorem errorTok_depth (msg ts) : depthList (errorTok msg ts).nodes = 1 := by
  cases ts <;> simp [errorTok]

theorem expect_depth (k msg ts) : depthList (expect k msg ts).nodes ≤ 1 := by
  unfold expect; split
  · simp [bump1_depth]
  · simp [errorTok_depth]

theorem substLoop_depth (ts) : depthList (substLoop ts).nodes ≤ 1 := by
  induction ts with
  | nil => simp [substLoop]
  | cons t ts ih => unfold substLoop; (repeat' split) <;> simp <;> omega

theorem substOpen_depth (ts) : depthList (substOpen ts).nodes ≤ 1 := by
  unfold substOpen; split
  · simp [errorTok_depth]
  · simp [bump1_depth]

theorem substClose_depth (ts) : depthList (substClose ts).nodes ≤ 1 := by
  unfold substClose; split
  · simp [errorTok_depth]
  · simp [bump1_depth]

theorem parseSubstvar_depth (ts) : depthList (parseSubstvar ts).nodes ≤ 2 := by
  have h1 := substOpen_depth (bump1 ts).rest
  have h2 := substLoop_depth (substOpen (bump1 ts).rest).rest
  have h3 := substClose_depth (substLoop (substOpen (bump1 ts).rest).rest).rest
  simp only [parseSubstvar, wrap_depth, andThen_depth, bump1_depth]; omega

theorem archqualPart_depth (ts) : depthList (archqualPart ts).nodes ≤ 2 := by
  unfold archqualPart; (repeat' split)
  · have := expect_depth .IDENT "Expected architecture name" (skipWs (bump1 (skipWs ts).rest).rest).rest
    simp only [wrap_depth, andThen_depth, bump1_depth, skipWs_depth]; omega
  · simp [nil_depth]
  · simp [skipWs_depth]
  · simp only [andThen_depth, skipWs_depth, errorTok_depth]; omega

theorem constraintLoop_depth (ts) : depthList (constraintLoop ts).nodes = 0 := by
  induction ts with
  | nil => simp [constraintLoop]
  | cons t ts ih => unfold constraintLoop; split <;> simp [ih]

theorem versionLoop_depth (ts) : depthList (versionLoop ts).nodes ≤ 1 := by
  fun_induction versionLoop ts <;> simp <;> omega

theorem versionTok_depth (ts) : depthList (versionTok ts).nodes ≤ 1 := by
  unfold versionTok; split
  · have := versionLoop_depth (bump1 ts).rest
    simp only [andThen_depth, bump1_depth]; omega
  · simp [errorTok_depth]

theorem versionPart_depth (ts) : depthList (versionPart ts).nodes ≤ 2 := by
  unfold versionPart; split
  · simp only [wrap_depth, andThen_depth, bump1_depth, skipWs_depth, constraintLoop_depth]
    have h1 := versionTok_depth (skipWs ((constraintLoop (skipWs (bump1 (skipWs ts).rest).rest).rest).wrap
      .CONSTRAINT).rest).rest
    have h2 := expect_depth .R_PARENS "Expected ')'" (skipWs (versionTok (skipWs ((constraintLoop
      (skipWs (bump1 (skipWs ts).rest).rest).rest).wrap .CONSTRAINT).rest).rest).rest).rest
    omega
  · simp [nil_depth]

theorem archLoop_depth (ts) : depthList (archLoop ts).nodes ≤ 1 := by
  fun_induction archLoop ts <;> simp [skipWs_depth] <;> omega

theorem archPart_depth (ts) : depthList (archPart ts).nodes ≤ 2 := by
  unfold archPart; split
  · have := archLoop_depth (bump1 (skipWs ts).rest).rest
    simp only [wrap_depth, andThen_depth, bump1_depth, skipWs_depth]; omega
  · simp [nil_depth]

theorem notTail_depth (ts) : depthList (notTail ts).nodes ≤ 1 := by
  have := expect_depth .IDENT "Expected profile" (skipWs ts).rest
  simp only [notTail, andThen_depth, skipWs_depth]; omega

theorem profLoop_depth (ts) : depthList (profLoop ts).nodes ≤ 1 := by
  fun_induction profLoop ts
  next x h => simp [skipWs_depth]
  next x t r h hk ih => simp [skipWs_depth]; omega
  next x t r h hk hn ih => have := notTail_depth r; simp [skipWs_depth]; omega
  next x t r h hk hn hb => simp [skipWs_depth]
  next x t r h hk hn hb ih => simp [skipWs_depth]; omega

theorem profBlock_depth (ts) : depthList (profBlock ts).nodes ≤ 2 := by
  have := profLoop_depth (bump1 (skipWs ts).rest).rest
  simp only [profBlock, wrap_depth, andThen_depth, bump1_depth, skipWs_depth]; omega

theorem profilesLoop_depth (ts) : depthList (profilesLoop ts).nodes ≤ 2 := by
  fun_induction profilesLoop ts
  next x h ih => have := profBlock_depth x; simp only [depthList_append]; omega
  next x h => simp [nil_depth]

theorem parseRelation_depth (ts) : depthList (parseRelation ts).nodes ≤ 3 := by
  have h0 := expect_depth .IDENT "Expected package name" ts
  have h1 := archqualPart_depth (expect .IDENT "Expected package name" ts).rest
  have h2 := versionPart_depth (archqualPart (expect .IDENT "Expected package name" ts).rest).rest
  have h3 := archPart_depth
    (versionPart (archqualPart (expect .IDENT "Expected package name" ts).rest).rest).rest
  have h4 := profilesLoop_depth (archPart
    (versionPart (archqualPart (expect .IDENT "Expected package name" ts).rest).rest).rest).rest
  simp only [parseRelation, wrap_depth, andThen_depth]; omega

theorem pipeSep_depth (ts) : depthList (pipeSep ts).nodes = 0 := by
  simp [pipeSep, andThen_depth, skipWs_depth, bump1_depth]

theorem popErr_depth (ts) : depthList (popErr ts).nodes = 1 := by cases ts <;> simp [popErr]

theorem junkSep_depth (ts) : depthList (junkSep ts).nodes = 1 := by
  simp [junkSep, andThen_depth, skipWs_depth, popErr_depth]

theorem entryLoop_depth (ts) : depthList (entryLoop ts).nodes ≤ 3 := by
  fun_induction entryLoop ts
  next x hc => exact parseRelation_depth x
  next x hc hp ih =>
    have := parseRelation_depth x
    simp only [depthList_append, pipeSep_depth]; omega
  next x hc hp hn =>
    have := parseRelation_depth x
    simp only [andThen_depth, skipWs_depth]; omega
  next x hc hp hn ih =>
    have := parseRelation_depth x
    simp only [depthList_append, junkSep_depth]; omega

theorem parseEntry_depth (ts) : depthList (parseEntry ts).nodes ≤ 4 := by
  have := entryLoop_depth (skipWs ts).rest
  simp only [parseEntry, wrap_depth, andThen_depth, skipWs_depth]; omega

theorem rootFirst_depth (allow t r) : depthList (rootFirst allow t r).nodes ≤ 4 := by
  unfold rootFirst; (repeat' split)
  · exact parseEntry_depth _
  · have := parseSubstvar_depth (t :: r); omega
  · simp [errorTok_depth]
  · simp [nil_depth]
  · simp [errorTok_depth]

theorem rootSep_depth (c : Tok) : depthList (rootSep c).1 ≤ 1 := by
  unfold rootSep; split <;> simp

theorem rootLoop_depth (allow ts) : depthList (rootLoop allow ts).nodes ≤ 4 := by
  fun_induction rootLoop allow ts
  next => simp
  next t r h =>
    have := rootFirst_depth allow t r
    simp only [depthList_append, skipWs_depth]; omega
  next t r c r2 h ih =>
    have := rootFirst_depth allow t r
    have := rootSep_depth c
    simp only [depthList_append, skipWs_depth]; omega

/-- the lossless relation parser builds trees of depth at most 5 on every token list, with and
    without substvars -/
theorem parseTokens_depth (allow ts) : (parseTokens allow ts).tree.depth ≤ 5 := by
  have := rootLoop_depth allow (skipWs ts).rest
  simp [parseTokens, skipWs_depth]; omega

end Rel.Depth
end Deb822Verif
