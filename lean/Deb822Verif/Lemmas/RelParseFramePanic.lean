import Deb822Verif.Model.RelParse
/-!
# Explicit panic-freedom of the relation parser (C09, part C)

`Model/RelParse.lean` totalises `bump()` (`self.tokens.pop().unwrap()`, relations.rs:363-366): `bump1 []`
"does nothing". A round-trip theorem about the model therefore says nothing at an input where the real
code would panic. This file defines a *twin* of every parser function. The twin is written in the
shape of the Rust source: every `self.bump()` of the source is one call of `bumpP` on the token list
current at that point, every test is a test on `cur` / `peekPastWs`, and the result carries a flag
`panicked` that `bumpP` sets when (and only when) it is called with no token left. The flag is sticky
(`PRP.seq` ORs the flags), so `panicked = false` for a whole run means: no `bump()` of the run found the
stack empty.

Proved here
* (i)  `…P_pr`: the result component of every twin is the model function, for ALL inputs
       (also those at which the twin panics, e.g. `parseSubstvarP []`);
* (ii) `…P_np`: `panicked = false`, for every token list and both values of `allow_substvar`;
       the functions whose guard sits in the caller carry that guard as a hypothesis
       (`bumpP`, `parseSubstvarP`: `ts ≠ []`; `pipeSepP`, `profBlockP`: `peekPastWs ts = some _`)
       and `bumpP_panics`, `parseSubstvarP_nil_panics` show that these hypotheses are needed, i.e. that
       the flag is not vacuous.

## The `pop().unwrap()` sites: every call of `bump()` in relations.rs:74-399, and its guard

| site | line | function | guard |
|---|---|---|---|
| S1  | 91  | parse_substvar | caller (`parse`, l.321-324): `current() == Some(DOLLAR)` |
| S2  | 95  | parse_substvar | `current() == Some(L_CURLY)` (else-branch of `!=`) |
| S3  | 100 | parse_substvar loop | `Some(IDENT) | Some(COLON)` arm of `match current()` |
| S4  | 113 | parse_substvar | `current() == Some(R_CURLY)` |
| S5  | 129 | parse_entry | `peek_past_ws() == Some(PIPE)`, then `skip_ws()` |
| S6  | 161 | error | `current().is_some()` |
| S7  | 169 | parse_relation | `current() == Some(IDENT)` |
| S8  | 177 | parse_relation | `peek_past_ws() == Some(COLON)`, then `skip_ws()` |
| S9  | 180 | parse_relation | `current() == Some(IDENT)` |
| S10 | 203 | parse_relation | `peek_past_ws() == Some(L_PARENS)`, then `skip_ws()` |
| S11 | 212 | parse_relation | `while current() == L_ANGLE | R_ANGLE | EQUAL` |
| S12 | 220 | parse_relation | `current() == Some(IDENT)` |
| S13 | 223 | parse_relation | `current() == Some(COLON)` |
| S14 | 225 | parse_relation | `current() == Some(IDENT)` |
| S15 | 237 | parse_relation | `current() == Some(R_PARENS)` |
| S16 | 248 | parse_relation | `peek_past_ws() == Some(L_BRACKET)`, then `skip_ws()` |
| S17-19 | 253, 256, 259 | architectures loop | `Some(NOT)` / `Some(IDENT)` / `Some(R_BRACKET)` arms |
| S20 | 277 | parse_relation | `peek_past_ws() == Some(L_ANGLE)`, then `skip_ws()` |
| S21-24 | 283, 286, 289, 295 | profiles loop | `Some(IDENT)` / `Some(NOT)` / `== Some(IDENT)` / `Some(R_ANGLE)` |
| S25 | 343 | parse | `Some(COMMA)` arm of `match current()` |
| S26 | 373 | skip_ws | `while current() == WHITESPACE | NEWLINE` |

`self.tokens.pop()` at l.139 is matched (`Some`/`None`), not unwrapped: not a panic site (`popErr`).
The five sites guarded by `peek_past_ws()` (S5, S8, S10, S16, S20) and the one guarded by the caller (S1)
are the ones where the emptiness check is not syntactically next to the `bump()`.
`peek_past_ws()` (l.377-387) indexes `self.tokens[i]` only with `i < len` and `current()` uses `last()`:
neither can panic, both are pure, and the twins use the model's `peekPastWs` / `cur` for them.
-/
set_option linter.unusedVariables false
set_option linter.unusedSimpArgs false
namespace Deb822Verif.Rel
open Node PR

/-- result of a twin: the model's result plus "some `bump()` found no token" -/
structure PRP where
  pr : PR
  panicked : Bool

namespace PRP
/-- nothing happens -/
def nil (ts : List Tok) : PRP := ⟨PR.nil ts, false⟩
/-- `a`, then `b` (which was run on what `a` left); the flag is sticky -/
def seq (a b : PRP) : PRP :=
  ⟨⟨a.pr.nodes ++ b.pr.nodes, a.pr.errs ++ b.pr.errs, b.pr.rest⟩, a.panicked || b.panicked⟩
/-- run `f` on what `a` left -/
def andThen (a : PRP) (f : List Tok → PRP) : PRP := a.seq (f a.pr.rest)
/-- `start_node(k)` before, `finish_node()` after -/
def wrap (k : Kind) (a : PRP) : PRP := ⟨a.pr.wrap k, a.panicked⟩
/-- `self.errors.push(msg)` -/
def push (msg : String) (ts : List Tok) : PRP := ⟨⟨[], [msg], ts⟩, false⟩

@[simp] theorem nil_pr (ts) : (nil ts).pr = PR.nil ts := rfl
@[simp] theorem seq_pr (a b : PRP) :
    (a.seq b).pr = ⟨a.pr.nodes ++ b.pr.nodes, a.pr.errs ++ b.pr.errs, b.pr.rest⟩ := rfl
@[simp] theorem andThen_pr (a : PRP) (f : List Tok → PRP) :
    (a.andThen f).pr = a.pr.andThen fun x => (f x).pr := rfl
@[simp] theorem wrap_pr (k : Kind) (a : PRP) : (a.wrap k).pr = a.pr.wrap k := rfl

/-- no `bump()` of the run found the stack empty -/
def NP (p : PRP) : Prop := p.panicked = false

theorem np_nil (ts) : NP (nil ts) := rfl
theorem np_push (msg ts) : NP (push msg ts) := rfl
theorem np_seq {a b : PRP} (ha : NP a) (hb : NP b) : NP (a.seq b) := by
  simp only [NP, seq] at *; simp [ha, hb]
theorem np_andThen {a : PRP} {f : List Tok → PRP} (ha : NP a) (hf : NP (f a.pr.rest)) :
    NP (a.andThen f) := np_seq ha hf
theorem np_wrap {a : PRP} (k : Kind) (ha : NP a) : NP (a.wrap k) := ha
end PRP
open PRP

theorem cur_ne_nil {ts : List Tok} {k} (h : cur ts = some k) : ts ≠ [] := by
  cases ts with
  | nil => simp [cur] at h
  | cons t r => simp

theorem cur_isSome_ne_nil {ts : List Tok} (h : (cur ts).isSome = true) : ts ≠ [] := by
  cases ts with
  | nil => simp [cur] at h
  | cons t r => simp

/-! ### `bump`, `error`, `skip_ws` -/

/-- `bump()` (relations.rs:363-366): `let (kind, text) = self.tokens.pop().unwrap();` — on an empty
    stack the Rust code PANICS here; this is the only place where the flag is raised -/
def bumpP : List Tok → PRP
  | [] => ⟨⟨[], [], []⟩, true⟩
  | t :: ts => ⟨⟨[tk t], [], ts⟩, false⟩

@[simp] theorem bumpP_pr (ts) : (bumpP ts).pr = bump1 ts := by cases ts <;> rfl

/-- the flag is raised exactly on the empty stack -/
theorem bumpP_panicked (ts) : (bumpP ts).panicked = true ↔ ts = [] := by
  cases ts <;> simp [bumpP]

theorem bumpP_panics : (bumpP []).panicked = true := rfl

theorem bumpP_np {ts} (h : ts ≠ []) : NP (bumpP ts) := by
  cases ts with
  | nil => exact absurd rfl h
  | cons t r => rfl

theorem bump1_lt {ts : List Tok} (h : ts ≠ []) : (bump1 ts).rest.length < ts.length := by
  cases ts with
  | nil => exact absurd rfl h
  | cons t r => simp [bump1]

/-- `error(msg)` (relations.rs:157-164): push; `start_node(ERROR)`;
    `if self.current().is_some() { self.bump() }` (S6); `finish_node()` -/
def errorP (msg : String) (ts : List Tok) : PRP :=
  (push msg ts).andThen fun ts => (if (cur ts).isSome then bumpP ts else nil ts).wrap .ERROR

@[simp] theorem errorP_pr (msg ts) : (errorP msg ts).pr = errorTok msg ts := by
  cases ts <;> rfl

theorem errorP_np (msg ts) : NP (errorP msg ts) := by
  cases ts <;> rfl

theorem errorTok_lt {ts : List Tok} (msg) (h : ts ≠ []) : (errorTok msg ts).rest.length < ts.length := by
  cases ts with
  | nil => exact absurd rfl h
  | cons t r => simp [errorTok]

/-- `if self.current() == Some(k) { self.bump() } else { self.error(msg) }` (S7, S9, S14, S15, S23) -/
def expectP (k : Kind) (msg : String) (ts : List Tok) : PRP :=
  if cur ts = some k then bumpP ts else errorP msg ts

@[simp] theorem expectP_pr (k msg ts) : (expectP k msg ts).pr = expect k msg ts := by
  unfold expectP expect; split <;> simp

theorem expectP_np (k msg ts) : NP (expectP k msg ts) := by
  unfold expectP; split
  · rename_i h; exact bumpP_np (cur_ne_nil h)
  · exact errorP_np msg ts

/-- `skip_ws()` (relations.rs:371-375):
    `while current() == Some(WHITESPACE) || current() == Some(NEWLINE) { self.bump() }` (S26) -/
def skipWsP (ts : List Tok) : PRP :=
  if h : cur ts = some .WHITESPACE ∨ cur ts = some .NEWLINE then
    (bumpP ts).seq (skipWsP (bumpP ts).pr.rest)
  else nil ts
termination_by ts.length
decreasing_by
  rw [bumpP_pr]
  exact bump1_lt (by rcases h with h | h <;> exact cur_ne_nil h)

theorem skipWs_errs' (ts) : (skipWs ts).errs = [] := by
  cases ts with
  | nil => simp [skipWs]
  | cons a b => unfold skipWs; split <;> rfl

@[simp] theorem skipWsP_pr (ts) : (skipWsP ts).pr = skipWs ts := by
  induction ts with
  | nil => rw [skipWsP]; simp [cur, skipWs, PR.nil]
  | cons t r ih =>
    rw [skipWsP, skipWs]
    by_cases hk : isWsKind t.1 = true
    · have : cur (t :: r) = some .WHITESPACE ∨ cur (t :: r) = some .NEWLINE := by
        simpa [cur, isWsKind] using hk
      simp [this, hk, bump1, ih, skipWs_errs']
    · have : ¬ (cur (t :: r) = some .WHITESPACE ∨ cur (t :: r) = some .NEWLINE) := by
        simpa [cur, isWsKind] using hk
      simp [this, hk, PR.nil]

theorem skipWsP_np (ts) : NP (skipWsP ts) := by
  induction ts with
  | nil => rw [skipWsP]; simp [cur]; exact np_nil _
  | cons t r ih =>
    rw [skipWsP]
    split
    · exact np_seq (bumpP_np (by simp)) (by simpa [bump1] using ih)
    · exact np_nil _

/-- a `bump()` that follows `peek_past_ws() == Some(k)`; `skip_ws()` finds a token
    (S5, S8, S10, S16, S20) -/
theorem bump_after_skip_np {ts k} (h : peekPastWs ts = some k) : NP (bumpP (skipWsP ts).pr.rest) := by
  obtain ⟨t, r, hr, _⟩ := peek_some h
  rw [skipWsP_pr, hr]; rfl

/-! ### `parse_substvar` (relations.rs:89-116) -/

/-- relations.rs:92-96 (S2) -/
def substOpenP (ts : List Tok) : PRP :=
  if cur ts ≠ some .L_CURLY then errorP s!"expected \{ but got {optName (cur ts)}" ts else bumpP ts

@[simp] theorem substOpenP_pr (ts) : (substOpenP ts).pr = substOpen ts := by
  unfold substOpenP substOpen; split <;> simp

theorem substOpenP_np (ts) : NP (substOpenP ts) := by
  unfold substOpenP; split
  · exact errorP_np _ ts
  · rename_i h; exact bumpP_np (cur_ne_nil (Decidable.not_not.mp h))

/-- relations.rs:110-114 (S4) -/
def substCloseP (ts : List Tok) : PRP :=
  if cur ts ≠ some .R_CURLY then errorP s!"expected } but got {optName (cur ts)}" ts else bumpP ts

@[simp] theorem substCloseP_pr (ts) : (substCloseP ts).pr = substClose ts := by
  unfold substCloseP substClose; split <;> simp

theorem substCloseP_np (ts) : NP (substCloseP ts) := by
  unfold substCloseP; split
  · exact errorP_np _ ts
  · rename_i h; exact bumpP_np (cur_ne_nil (Decidable.not_not.mp h))

/-- the `loop` of `parse_substvar` (relations.rs:97-109):
    `Some(IDENT) | Some(COLON) => bump()` (S3); `Some(R_CURLY) | None => break`; `e => error(…)` -/
def substLoopP (ts : List Tok) : PRP :=
  if h1 : cur ts = some .IDENT ∨ cur ts = some .COLON then
    (bumpP ts).seq (substLoopP (bumpP ts).pr.rest)
  else if h2 : cur ts = some .R_CURLY ∨ cur ts = none then nil ts
  else
    (errorP s!"expected identifier or : but got {optName (cur ts)}" ts).seq
      (substLoopP (errorP s!"expected identifier or : but got {optName (cur ts)}" ts).pr.rest)
termination_by ts.length
decreasing_by
  · rw [bumpP_pr]
    exact bump1_lt (by rcases h1 with h | h <;> exact cur_ne_nil h)
  · rw [errorP_pr]
    refine errorTok_lt _ ?_
    intro h; subst h; simp [cur] at h2

@[simp] theorem substLoopP_pr (ts) : (substLoopP ts).pr = substLoop ts := by
  induction ts with
  | nil => rw [substLoopP]; simp [cur, substLoop, PR.nil]
  | cons t r ih =>
    rw [substLoopP, substLoop]
    by_cases h1 : t.1 = .IDENT ∨ t.1 = .COLON
    · simp [cur, h1, bump1, ih]
    · by_cases h2 : t.1 = .R_CURLY
      · simp [cur, h2, PR.nil]
      · simp [cur, h1, h2, errorTok, ih]

theorem substLoopP_np (ts) : NP (substLoopP ts) := by
  induction ts with
  | nil => rw [substLoopP]; simp [cur]; exact np_nil _
  | cons t r ih =>
    rw [substLoopP]
    split
    · exact np_seq (bumpP_np (by simp)) (by simpa [bump1] using ih)
    · split
      · exact np_nil _
      · exact np_seq (errorP_np _ _) (by simpa [errorTok] using ih)

/-- `parse_substvar`: `start_node(SUBSTVAR); bump()` (S1 — guarded only by the caller); … -/
def parseSubstvarP (ts : List Tok) : PRP :=
  ((bumpP ts).andThen fun ts => (substOpenP ts).andThen fun ts =>
    (substLoopP ts).andThen substCloseP).wrap .SUBSTVAR

@[simp] theorem parseSubstvarP_pr (ts) : (parseSubstvarP ts).pr = parseSubstvar ts := by
  simp [parseSubstvarP, parseSubstvar]

/-- `parse_substvar` does not panic when there is a token (its caller checks for DOLLAR) … -/
theorem parseSubstvarP_np {ts} (h : ts ≠ []) : NP (parseSubstvarP ts) :=
  np_wrap _ (np_andThen (bumpP_np h) (np_andThen (substOpenP_np _)
    (np_andThen (substLoopP_np _) (substCloseP_np _))))

/-- … and it WOULD panic if it were called at end of input: the flag is not vacuous -/
theorem parseSubstvarP_nil_panics : (parseSubstvarP []).panicked = true := by decide +kernel

/-! ### `parse_relation` (relations.rs:166-312) -/

/-- relations.rs:173-198: the `match self.peek_past_ws()` after the package name; `bump()` of the
    COLON is S8, the IDENT after it S9 -/
def archqualPartP (ts : List Tok) : PRP :=
  if peekPastWs ts = some .COLON then
    (skipWsP ts).andThen fun ts =>
      (((bumpP ts).andThen fun ts => (skipWsP ts).andThen
          (expectP .IDENT "Expected architecture name")).wrap .ARCHQUAL).andThen skipWsP
  else if peekPastWs ts = some .PIPE ∨ peekPastWs ts = some .COMMA then PRP.nil ts
  else if peekPastWs ts = none ∨ peekPastWs ts = some .L_PARENS ∨ peekPastWs ts = some .L_BRACKET
      ∨ peekPastWs ts = some .L_ANGLE then skipWsP ts
  else
    (skipWsP ts).andThen
      (errorP s!"Expected ':' or '|' or '[' or '<' or ',' but got {optName (peekPastWs ts)}")

@[simp] theorem archqualPartP_pr (ts) : (archqualPartP ts).pr = archqualPart ts := by
  unfold archqualPartP archqualPart; (repeat' split) <;> simp

theorem archqualPartP_np (ts) : NP (archqualPartP ts) := by
  unfold archqualPartP; (repeat' split)
  · rename_i h
    exact np_andThen (skipWsP_np _) (np_andThen (np_wrap _ (np_andThen (bump_after_skip_np h)
      (np_andThen (skipWsP_np _) (expectP_np _ _ _)))) (skipWsP_np _))
  · exact np_nil ts
  · exact skipWsP_np ts
  · exact np_andThen (skipWsP_np _) (errorP_np _ _)

/-- relations.rs:208-213: `while current() == L_ANGLE || … R_ANGLE || … EQUAL { bump() }` (S11) -/
def constraintLoopP (ts : List Tok) : PRP :=
  if h : cur ts = some .L_ANGLE ∨ cur ts = some .R_ANGLE ∨ cur ts = some .EQUAL then
    (bumpP ts).seq (constraintLoopP (bumpP ts).pr.rest)
  else nil ts
termination_by ts.length
decreasing_by
  rw [bumpP_pr]
  exact bump1_lt (by rcases h with h | h | h <;> exact cur_ne_nil h)

theorem constraintLoop_errs (ts) : (constraintLoop ts).errs = [] := by
  cases ts with
  | nil => simp [constraintLoop]
  | cons a b => unfold constraintLoop; split <;> rfl

@[simp] theorem constraintLoopP_pr (ts) : (constraintLoopP ts).pr = constraintLoop ts := by
  induction ts with
  | nil => rw [constraintLoopP]; simp [cur, constraintLoop, PR.nil]
  | cons t r ih =>
    rw [constraintLoopP, constraintLoop]
    by_cases h1 : t.1 = .L_ANGLE ∨ t.1 = .R_ANGLE ∨ t.1 = .EQUAL
    · simp [cur, h1, bump1, ih, constraintLoop_errs]
    · simp [cur, h1, PR.nil]

theorem constraintLoopP_np (ts) : NP (constraintLoopP ts) := by
  induction ts with
  | nil => rw [constraintLoopP]; simp [cur]; exact np_nil _
  | cons t r ih =>
    rw [constraintLoopP]
    split
    · exact np_seq (bumpP_np (by simp)) (by simpa [bump1] using ih)
    · exact np_nil _

/-- the `while self.current() == Some(COLON)` loop of the version (after fix 4ba50b0): S13 is the
    `bump()` of the COLON, guarded by the loop test; S14 the `bump()` of the IDENT after it, guarded by
    `current() == Some(IDENT)`; otherwise `error(..)`, which pops only when a token is left. The model
    (`versionLoop`) is a pattern match on the token list, so each `bump()` takes an element that the
    match has just found: the flag is never set inside the loop. -/
def versionLoopP (ts : List Tok) : PRP := ⟨versionLoop ts, false⟩

@[simp] theorem versionLoopP_pr (ts) : (versionLoopP ts).pr = versionLoop ts := rfl

theorem versionLoopP_np (ts) : NP (versionLoopP ts) := rfl

/-- relations.rs:219-235: S12 (the first IDENT), then the colon loop -/
def versionTokP (ts : List Tok) : PRP :=
  if cur ts = some .IDENT then (bumpP ts).andThen versionLoopP
  else errorP "Expected version" ts

@[simp] theorem versionTokP_pr (ts) : (versionTokP ts).pr = versionTok ts := by
  unfold versionTokP versionTok; split
  · simp only [andThen_pr, bumpP_pr]
    congr 1
  · simp

theorem versionTokP_np (ts) : NP (versionTokP ts) := by
  unfold versionTokP; split
  · rename_i h
    exact np_andThen (bumpP_np (cur_ne_nil h)) (versionLoopP_np _)
  · exact errorP_np _ ts

/-- relations.rs:200-243: S10 is the `bump()` of the `(`, S15 that of the `)` -/
def versionPartP (ts : List Tok) : PRP :=
  if peekPastWs ts = some .L_PARENS then
    (skipWsP ts).andThen fun ts =>
      ((bumpP ts).andThen fun ts => (skipWsP ts).andThen fun ts =>
        ((constraintLoopP ts).wrap .CONSTRAINT).andThen fun ts => (skipWsP ts).andThen fun ts =>
        (versionTokP ts).andThen fun ts => (skipWsP ts).andThen (expectP .R_PARENS "Expected ')'")).wrap .VERSION
  else PRP.nil ts

@[simp] theorem versionPartP_pr (ts) : (versionPartP ts).pr = versionPart ts := by
  unfold versionPartP versionPart; split <;> simp

theorem versionPartP_np (ts) : NP (versionPartP ts) := by
  unfold versionPartP; split
  · rename_i h
    exact np_andThen (skipWsP_np _) (np_wrap _ (np_andThen (bump_after_skip_np h)
      (np_andThen (skipWsP_np _) (np_andThen (np_wrap _ (constraintLoopP_np _))
      (np_andThen (skipWsP_np _) (np_andThen (versionTokP_np _)
      (np_andThen (skipWsP_np _) (expectP_np _ _ _))))))))
  · exact np_nil ts

theorem skipWs_len (ts) : (skipWs ts).rest.length ≤ ts.length := (skipWs_ok ts).len

/-- the `loop` of the architectures block (relations.rs:249-270): `skip_ws()`, then
    `Some(NOT) => bump()` (S17); `Some(IDENT) => bump()` (S18); `Some(R_BRACKET) => { bump(); break }`
    (S19); `None => { error(…); break }`; `_ => error(…)` -/
def archLoopP (ts : List Tok) : PRP :=
  (skipWsP ts).seq
    (if h1 : cur (skipWsP ts).pr.rest = some .NOT ∨ cur (skipWsP ts).pr.rest = some .IDENT then
      (bumpP (skipWsP ts).pr.rest).seq (archLoopP (bumpP (skipWsP ts).pr.rest).pr.rest)
    else if cur (skipWsP ts).pr.rest = some .R_BRACKET then bumpP (skipWsP ts).pr.rest
    else if h3 : cur (skipWsP ts).pr.rest = none then errorP archMsg (skipWsP ts).pr.rest
    else
      (errorP archMsg (skipWsP ts).pr.rest).seq (archLoopP (errorP archMsg (skipWsP ts).pr.rest).pr.rest))
termination_by ts.length
decreasing_by
  · have hl := skipWs_len ts
    have := bump1_lt (ts := (skipWsP ts).pr.rest) (by rcases h1 with h | h <;> exact cur_ne_nil h)
    rw [bumpP_pr]; rw [skipWsP_pr] at this ⊢; omega
  · have hl := skipWs_len ts
    have := errorTok_lt (ts := (skipWsP ts).pr.rest) archMsg (by intro h; rw [h] at h3; simp [cur] at h3)
    rw [errorP_pr]; rw [skipWsP_pr] at this ⊢; omega

@[simp] theorem archLoopP_pr (ts) : (archLoopP ts).pr = archLoop ts := by
  fun_induction archLoop ts
  next x h => rw [archLoopP]; simp [h, cur, errorTok, skipWs_errs']
  next x t r h hk ih => rw [archLoopP]; simp [h, cur, hk, bump1, ih, skipWs_errs']
  next x t r h hk hb =>
    have hk' : ¬ t.1 = .NOT ∧ ¬ t.1 = .IDENT := by simpa using hk
    rw [archLoopP]; simp [h, cur, hb, bump1, skipWs_errs']
  next x t r h hk hb ih =>
    have hk' : ¬ t.1 = .NOT ∧ ¬ t.1 = .IDENT := by simpa using hk
    rw [archLoopP]; simp [h, cur, hk', hb, errorTok, ih, skipWs_errs']

theorem archLoopP_np (ts) : NP (archLoopP ts) := by
  fun_induction archLoopP ts
  next x ih2 ih1 =>
    refine np_seq (skipWsP_np _) ?_
    split
    · rename_i h1
      exact np_seq (bumpP_np (by rcases h1 with h | h <;> exact cur_ne_nil h)) (ih2 h1)
    · split
      · rename_i h; exact bumpP_np (cur_ne_nil h)
      · split
        · exact errorP_np _ _
        · rename_i h3; exact np_seq (errorP_np _ _) (ih1 h3)

/-- relations.rs:245-272: S16 is the `bump()` of the `[` -/
def archPartP (ts : List Tok) : PRP :=
  if peekPastWs ts = some .L_BRACKET then
    (skipWsP ts).andThen fun ts => ((bumpP ts).andThen archLoopP).wrap .ARCHITECTURES
  else PRP.nil ts

@[simp] theorem archPartP_pr (ts) : (archPartP ts).pr = archPart ts := by
  unfold archPartP archPart; split <;> simp

theorem archPartP_np (ts) : NP (archPartP ts) := by
  unfold archPartP; split
  · rename_i h
    exact np_andThen (skipWsP_np _) (np_wrap _ (np_andThen (bump_after_skip_np h) (archLoopP_np _)))
  · exact np_nil ts

/-- the `Some(NOT)` arm of the profiles loop (relations.rs:285-293): `bump()` (S22); `skip_ws()`;
    `if current() == Some(IDENT) { bump() }` (S23) `else { error("Expected profile") }` -/
def notArmP (ts : List Tok) : PRP :=
  (bumpP ts).andThen fun ts => (skipWsP ts).andThen (expectP .IDENT "Expected profile")

theorem notArmP_pr_cons (t : Tok) (r) :
    (notArmP (t :: r)).pr = ⟨tk t :: (notTail r).nodes, (notTail r).errs, (notTail r).rest⟩ := by
  simp [notArmP, notTail, bump1, PR.andThen]

theorem notArmP_np {ts} (h : ts ≠ []) : NP (notArmP ts) :=
  np_andThen (bumpP_np h) (np_andThen (skipWsP_np _) (expectP_np _ _ _))

/-- the inner `loop` of a profiles block (relations.rs:279-306): `skip_ws()`, then
    `Some(IDENT) => bump()` (S21); `Some(NOT) => …` (S22, S23); `Some(R_ANGLE) => { bump(); break }`
    (S24); `None => { error(…); break }`; `_ => error(…)` -/
def profLoopP (ts : List Tok) : PRP :=
  (skipWsP ts).seq
    (if h1 : cur (skipWsP ts).pr.rest = some .IDENT then
      (bumpP (skipWsP ts).pr.rest).seq (profLoopP (bumpP (skipWsP ts).pr.rest).pr.rest)
    else if h2 : cur (skipWsP ts).pr.rest = some .NOT then
      (notArmP (skipWsP ts).pr.rest).seq (profLoopP (notArmP (skipWsP ts).pr.rest).pr.rest)
    else if cur (skipWsP ts).pr.rest = some .R_ANGLE then bumpP (skipWsP ts).pr.rest
    else if h3 : cur (skipWsP ts).pr.rest = none then
      errorP "Expected profile or '>'" (skipWsP ts).pr.rest
    else
      (errorP "Expected profile or '!' or '>'" (skipWsP ts).pr.rest).seq
        (profLoopP (errorP "Expected profile or '!' or '>'" (skipWsP ts).pr.rest).pr.rest))
termination_by ts.length
decreasing_by
  · have hl := skipWs_len ts
    have := bump1_lt (ts := (skipWsP ts).pr.rest) (cur_ne_nil h1)
    rw [bumpP_pr]; rw [skipWsP_pr] at this ⊢; omega
  · have hl := skipWs_len ts
    rw [skipWsP_pr] at h2 ⊢
    cases hr : (skipWs ts).rest with
    | nil => rw [hr] at h2; simp [cur] at h2
    | cons t r =>
      rw [notArmP_pr_cons]
      have := (notTail_ok r).len
      rw [hr] at hl; simp at hl ⊢; omega
  · have hl := skipWs_len ts
    have := errorTok_lt (ts := (skipWsP ts).pr.rest) "Expected profile or '!' or '>'"
      (by intro h; rw [h] at h3; simp [cur] at h3)
    rw [errorP_pr]; rw [skipWsP_pr] at this ⊢; omega

@[simp] theorem profLoopP_pr (ts) : (profLoopP ts).pr = profLoop ts := by
  fun_induction profLoop ts
  next x h => rw [profLoopP]; simp [h, cur, errorTok, skipWs_errs']
  next x t r h hk ih => rw [profLoopP]; simp [h, cur, hk, bump1, ih, skipWs_errs']
  next x t r h hk hn ih =>
    rw [profLoopP]; simp [h, cur, hk, hn, notArmP_pr_cons, ih, skipWs_errs']
  next x t r h hk hn hb =>
    rw [profLoopP]; simp [h, cur, hk, hn, hb, bump1, skipWs_errs']
  next x t r h hk hn hb ih =>
    rw [profLoopP]; simp [h, cur, hk, hn, hb, errorTok, ih, skipWs_errs']

theorem profLoopP_np (ts) : NP (profLoopP ts) := by
  fun_induction profLoopP ts
  next x ih3 ih2 ih1 =>
    refine np_seq (skipWsP_np _) ?_
    split
    · rename_i h1; exact np_seq (bumpP_np (cur_ne_nil h1)) (ih3 h1)
    · split
      · rename_i h1 h2; exact np_seq (notArmP_np (cur_ne_nil h2)) (ih2 h2)
      · split
        · rename_i h; exact bumpP_np (cur_ne_nil h)
        · split
          · exact errorP_np _ _
          · rename_i h1 h2 hb h3; exact np_seq (errorP_np _ _) (ih1 h3)

/-- one profiles block (relations.rs:275-308): `skip_ws(); start_node(PROFILES); bump()` (S20 — guarded
    by the `while peek_past_ws() == Some(L_ANGLE)` of the caller) `; loop {…}; finish_node()` -/
def profBlockP (ts : List Tok) : PRP :=
  (skipWsP ts).andThen fun ts => ((bumpP ts).andThen profLoopP).wrap .PROFILES

@[simp] theorem profBlockP_pr (ts) : (profBlockP ts).pr = profBlock ts := by
  simp [profBlockP, profBlock]

theorem profBlockP_np {ts k} (h : peekPastWs ts = some k) : NP (profBlockP ts) :=
  np_andThen (skipWsP_np _) (np_wrap _ (np_andThen (bump_after_skip_np h) (profLoopP_np _)))

/-- `while self.peek_past_ws() == Some(L_ANGLE) { … }` (relations.rs:274-309) -/
def profilesLoopP (ts : List Tok) : PRP :=
  if h : peekPastWs ts = some .L_ANGLE then
    (profBlockP ts).seq (profilesLoopP (profBlockP ts).pr.rest)
  else PRP.nil ts
termination_by ts.length
decreasing_by rw [profBlockP_pr]; exact profBlock_progress h

@[simp] theorem profilesLoopP_pr (ts) : (profilesLoopP ts).pr = profilesLoop ts := by
  fun_induction profilesLoop ts
  next x h ih => rw [profilesLoopP]; simp [h, ih]
  next x h => rw [profilesLoopP]; simp [h]

theorem profilesLoopP_np (ts) : NP (profilesLoopP ts) := by
  fun_induction profilesLoopP ts
  next x h ih => exact np_seq (profBlockP_np h) ih
  next x h => exact np_nil x

/-- `parse_relation` (relations.rs:166-312) -/
def parseRelationP (ts : List Tok) : PRP :=
  ((expectP .IDENT "Expected package name" ts).andThen fun ts => (archqualPartP ts).andThen fun ts =>
    (versionPartP ts).andThen fun ts => (archPartP ts).andThen profilesLoopP).wrap .RELATION

@[simp] theorem parseRelationP_pr (ts) : (parseRelationP ts).pr = parseRelation ts := by
  simp [parseRelationP, parseRelation]

theorem parseRelationP_np (ts) : NP (parseRelationP ts) :=
  np_wrap _ (np_andThen (expectP_np _ _ _) (np_andThen (archqualPartP_np _)
    (np_andThen (versionPartP_np _) (np_andThen (archPartP_np _) (profilesLoopP_np _)))))

/-! ### `parse_entry` (relations.rs:118-155) -/

/-- the `Some(PIPE)` arm (relations.rs:127-131): `skip_ws(); bump(); skip_ws()` (S5) -/
def pipeSepP (ts : List Tok) : PRP :=
  (skipWsP ts).andThen fun ts => (bumpP ts).andThen skipWsP

@[simp] theorem pipeSepP_pr (ts) : (pipeSepP ts).pr = pipeSep ts := by
  simp [pipeSepP, pipeSep]

theorem pipeSepP_np {ts k} (h : peekPastWs ts = some k) : NP (pipeSepP ts) :=
  np_andThen (skipWsP_np _) (np_andThen (bump_after_skip_np h) (skipWsP_np _))

/-- the `_` arm (relations.rs:136-151): `skip_ws()`, then `match self.tokens.pop()` — the popped
    `Option` is matched, not unwrapped, so this is not a panic site -/
def junkSepP (ts : List Tok) : PRP := (skipWsP ts).andThen fun ts => ⟨popErr ts, false⟩

@[simp] theorem junkSepP_pr (ts) : (junkSepP ts).pr = junkSep ts := by
  simp [junkSepP, junkSep]

theorem junkSepP_np (ts) : NP (junkSepP ts) := np_andThen (skipWsP_np _) rfl

/-- the `loop` of `parse_entry` (relations.rs:121-153) -/
def entryLoopP (ts : List Tok) : PRP :=
  (parseRelationP ts).seq
    (if peekPastWs (parseRelationP ts).pr.rest = some .COMMA then PRP.nil (parseRelationP ts).pr.rest
    else if hp : peekPastWs (parseRelationP ts).pr.rest = some .PIPE then
      (pipeSepP (parseRelationP ts).pr.rest).seq
        (entryLoopP (pipeSepP (parseRelationP ts).pr.rest).pr.rest)
    else if hn : peekPastWs (parseRelationP ts).pr.rest = none then skipWsP (parseRelationP ts).pr.rest
    else
      (junkSepP (parseRelationP ts).pr.rest).seq
        (entryLoopP (junkSepP (parseRelationP ts).pr.rest).pr.rest))
termination_by ts.length
decreasing_by
  · have h1 := (parseRelation_ok ts).len
    rw [parseRelationP_pr] at hp ⊢
    have h2 := pipeSep_progress hp
    rw [pipeSepP_pr]; omega
  · have h1 := (parseRelation_ok ts).len
    rw [parseRelationP_pr] at hn ⊢
    rw [junkSepP_pr]
    cases hk : peekPastWs (parseRelation ts).rest with
    | none => exact absurd hk hn
    | some k =>
      have h2 := junkSep_progress hk
      omega

@[simp] theorem entryLoopP_pr (ts) : (entryLoopP ts).pr = entryLoop ts := by
  fun_induction entryLoop ts
  next x hc => rw [entryLoopP]; simp [hc, PR.nil]
  next x hc hp ih => rw [entryLoopP]; simp [hc, hp, ih]
  next x hc hp hn => rw [entryLoopP]; simp [hc, hp, hn, PR.andThen]
  next x hc hp hn ih => rw [entryLoopP]; simp [hc, hp, hn, ih]

theorem entryLoopP_np (ts) : NP (entryLoopP ts) := by
  fun_induction entryLoopP ts
  next x ih2 ih1 =>
    refine np_seq (parseRelationP_np _) ?_
    split
    · exact np_nil _
    · split
      · rename_i hp; exact np_seq (pipeSepP_np hp) (ih2 hp)
      · split
        · exact skipWsP_np _
        · rename_i hn; exact np_seq (junkSepP_np _) (ih1 hn)

/-- `parse_entry`: `skip_ws(); start_node(ENTRY); loop {…}; finish_node()` -/
def parseEntryP (ts : List Tok) : PRP :=
  (skipWsP ts).andThen fun ts => (entryLoopP ts).wrap .ENTRY

@[simp] theorem parseEntryP_pr (ts) : (parseEntryP ts).pr = parseEntry ts := by
  simp [parseEntryP, parseEntry]

theorem parseEntryP_np (ts) : NP (parseEntryP ts) :=
  np_andThen (skipWsP_np _) (np_wrap _ (entryLoopP_np _))

/-! ### the root loop (relations.rs:314-361) -/

/-- the first `match self.current()` of the loop body (relations.rs:320-338); `parse_substvar` is
    entered only under `Some(DOLLAR)`: that is the guard of S1. The `None` arm is dead (loop condition). -/
def rootFirstP (allow : Bool) (ts : List Tok) : PRP :=
  if cur ts = some .IDENT then parseEntryP ts
  else if cur ts = some .DOLLAR then
    if allow then parseSubstvarP ts else errorP "Substvars are not allowed" ts
  else if cur ts = some .COMMA then PRP.nil ts
  else
    match cur ts with
    | some c => errorP s!"expected $ or identifier but got {kindName c}" ts
    | none => errorP "expected identifier but got end of file" ts

@[simp] theorem rootFirstP_pr (allow t r) : (rootFirstP allow (t :: r)).pr = rootFirst allow t r := by
  unfold rootFirstP rootFirst
  simp only [cur, Option.some.injEq]
  (repeat' split) <;> simp

theorem rootFirstP_np (allow ts) : NP (rootFirstP allow ts) := by
  unfold rootFirstP; (repeat' split)
  · exact parseEntryP_np _
  · rename_i h _; exact parseSubstvarP_np (cur_ne_nil h)
  · exact errorP_np _ _
  · exact np_nil _
  · exact errorP_np _ _
  · exact errorP_np _ _

/-- the second `match self.current()` (relations.rs:341-351) when there is a token:
    `Some(COMMA) => bump()` (S25); `c => error(…)`. (`None => break` is in `rootLoopP`.) -/
def rootSepP (ts : List Tok) : PRP :=
  if cur ts = some .COMMA then bumpP ts
  else errorP s!"expected comma or end of file but got {optName (cur ts)}" ts

theorem rootSepP_pr (c : Tok) (r) : (rootSepP (c :: r)).pr = ⟨(rootSep c).1, (rootSep c).2, r⟩ := by
  unfold rootSepP rootSep
  simp only [cur, Option.some.injEq]
  split <;> simp [bump1, errorTok]

theorem rootSepP_np (ts) : NP (rootSepP ts) := by
  unfold rootSepP; split
  · rename_i h; exact bumpP_np (cur_ne_nil h)
  · exact errorP_np _ _

/-- first half of the loop body: the first `match`, then `skip_ws()` -/
def rootHeadP (allow : Bool) (ts : List Tok) : PRP := (rootFirstP allow ts).andThen skipWsP
/-- second half of the loop body: the second `match` (not `None`), then `skip_ws()` -/
def rootTailP (ts : List Tok) : PRP := (rootSepP ts).andThen skipWsP

theorem rootHeadP_pr (allow t r) :
    (rootHeadP allow (t :: r)).pr = (rootFirst allow t r).andThen skipWs := by
  simp [rootHeadP]

theorem rootTailP_pr (c : Tok) (r) :
    (rootTailP (c :: r)).pr = ⟨(rootSep c).1 ++ (skipWs r).nodes, (rootSep c).2, (skipWs r).rest⟩ := by
  simp [rootTailP, rootSepP_pr, PR.andThen, skipWs_errs']

theorem rootHeadP_le (allow) {ts} (h : ts ≠ []) : (rootHeadP allow ts).pr.rest.length ≤ ts.length := by
  cases ts with
  | nil => exact absurd rfl h
  | cons t r =>
    rw [rootHeadP_pr]
    have h1 := (rootFirst_ok allow t r).len
    have h2 := skipWs_len (rootFirst allow t r).rest
    simp only [PR.andThen]; omega

theorem rootTailP_lt {ts} (h : ts ≠ []) : (rootTailP ts).pr.rest.length < ts.length := by
  cases ts with
  | nil => exact absurd rfl h
  | cons t r =>
    rw [rootTailP_pr]
    have h2 := skipWs_len r
    simp; omega

/-- `while self.current().is_some() { … }` (relations.rs:319-353) -/
def rootLoopP (allow : Bool) (ts : List Tok) : PRP :=
  if h : (cur ts).isSome then
    (rootHeadP allow ts).seq
      (if h2 : cur (rootHeadP allow ts).pr.rest = none then PRP.nil (rootHeadP allow ts).pr.rest
      else
        (rootTailP (rootHeadP allow ts).pr.rest).seq
          (rootLoopP allow (rootTailP (rootHeadP allow ts).pr.rest).pr.rest))
  else PRP.nil ts
termination_by ts.length
decreasing_by
  have h1 := rootHeadP_le allow (cur_isSome_ne_nil h)
  have h3 := rootTailP_lt (ts := (rootHeadP allow ts).pr.rest) (by intro e; rw [e] at h2; simp [cur] at h2)
  omega

@[simp] theorem rootLoopP_pr (allow ts) : (rootLoopP allow ts).pr = rootLoop allow ts := by
  fun_induction rootLoop allow ts
  next => rw [rootLoopP]; simp [cur, PR.nil]
  next t r h =>
    rw [rootLoopP]; simp [cur, rootHeadP_pr, PR.andThen, h, PR.nil, skipWs_errs']
  next t r c r2 h ih =>
    rw [rootLoopP]; simp [cur, rootHeadP_pr, PR.andThen, h, rootTailP_pr, ih, skipWs_errs']

theorem rootLoopP_np (allow ts) : NP (rootLoopP allow ts) := by
  fun_induction rootLoopP allow ts
  next x h ih =>
    refine np_seq (np_andThen (rootFirstP_np _ _) (skipWsP_np _)) ?_
    split
    · exact np_nil _
    · rename_i h2
      exact np_seq (np_andThen (rootSepP_np _) (skipWsP_np _)) (ih h2)
  next x h => exact np_nil x

/-- `Parse { green_node, errors }` plus the flag -/
structure ParsedP where
  parsed : Parsed
  panicked : Bool

/-- `Parser::parse` (relations.rs:314-361) on a token list:
    `start_node(ROOT); skip_ws(); while … {…}; finish_node()` -/
def parseTokensP (allow : Bool) (ts : List Tok) : ParsedP :=
  ⟨⟨Node.node .ROOT ((skipWsP ts).andThen (rootLoopP allow)).pr.nodes,
    ((skipWsP ts).andThen (rootLoopP allow)).pr.errs⟩,
   ((skipWsP ts).andThen (rootLoopP allow)).panicked⟩

/-- `parse(text, allow_substvar)` with the flag -/
def parseP (s : Str) (allow : Bool) : ParsedP := parseTokensP allow (lex s)

/-- (i) the twin computes the model's result, for every token list -/
theorem parseTokensP_parsed (allow ts) : (parseTokensP allow ts).parsed = parseTokens allow ts := by
  simp [parseTokensP, parseTokens, PR.andThen, skipWs_errs']

theorem parseP_parsed (s allow) : (parseP s allow).parsed = parse s allow := parseTokensP_parsed _ _

/-- (ii) no `bump()` finds the stack empty, for every token list -/
theorem parseTokensP_np (allow ts) : (parseTokensP allow ts).panicked = false :=
  np_andThen (skipWsP_np _) (rootLoopP_np _ _)

end Deb822Verif.Rel
