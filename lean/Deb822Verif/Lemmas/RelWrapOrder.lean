import Deb822Verif.Model.RelWrap
import Deb822Verif.Lemmas.PreCmp
/-!
  The orderings of wrap-and-sort (`Ord for Relation`, `Ord for Entry`, and the comparators with
  the text tie-break) are total preorders; what `List.mergeSort` needs follows.
-/
namespace Deb822Verif.Rel.Wrap
open Deb822Verif Rel DebVersion
universe u

theorem lexCmp_pre {α : Type u} {cmp : α → α → Ordering} (h : PreCmp cmp) : PreCmp (lexCmp cmp) := by
  constructor
  · intro l1
    induction l1 with
    | nil => intro l2; cases l2 <;> rfl
    | cons a as ih =>
      intro l2
      cases l2 with
      | nil => rfl
      | cons b bs => simp only [lexCmp, swap_then, ← h.swap, ih bs]
  · intro l1
    induction l1 with
    | nil =>
      intro l2 l3 _ _
      cases l3 <;> simp [lexCmp]
    | cons a as ih =>
      intro l2 l3
      cases l2 with
      | nil => simp [lexCmp]
      | cons b bs =>
        cases l3 with
        | nil => intro _ h2; simp [lexCmp] at h2
        | cons c cs =>
          simp only [lexCmp]
          exact then_le_trans_core (A := cmp a b) (B := cmp b c) (C := cmp a c)
            (fun e l => h.lt_of_lt_of_le e l) (fun l e => h.lt_of_le_of_lt l e)
            (fun e e' => h.eq_trans e e') (ih bs cs)

theorem optCmp_pre {α : Type u} {cmp : α → α → Ordering} (h : PreCmp cmp) : PreCmp (optCmp cmp) := by
  constructor
  · intro a b; cases a <;> cases b <;> first | rfl | exact h.swap _ _
  · intro a b c; cases a <;> cases b <;> cases c <;> simp [optCmp]
    exact h.le_trans _ _ _

theorem strCmp_pre : PreCmp strCmp := lexCmp_pre (natCmp_pre.comap Char.toNat)

theorem versionCmp_pre : PreCmp versionCmp :=
  PreCmp.andThen (natCmp_pre.comap fun p : VC × Version => vcRank p.1)
    (compare_pre.comap fun p : VC × Version => p.2)

/-- **the new `Ord for Relation` is a total preorder** -/
theorem relCmp_pre : PreCmp relCmp :=
  PreCmp.andThen (strCmp_pre.comap fun r : RV => r.name)
    (PreCmp.andThen ((optCmp_pre versionCmp_pre).comap fun r : RV => r.version)
      (PreCmp.andThen ((optCmp_pre strCmp_pre).comap fun r : RV => r.archqual)
        (PreCmp.andThen ((optCmp_pre (lexCmp_pre strCmp_pre)).comap sortedArchs)
          ((lexCmp_pre (lexCmp_pre strCmp_pre)).comap profStrs))))

/-- **the new `Ord for Entry` is a total preorder** -/
theorem entryCmp_pre : PreCmp entryCmp := lexCmp_pre relCmp_pre

/-- `String::cmp` is antisymmetric: equal rank means equal strings -/
theorem strCmp_eq {a b : Str} (h : strCmp a b = .eq) : a = b := by
  unfold strCmp at h
  induction a generalizing b with
  | nil => cases b <;> simp [lexCmp] at h ⊢
  | cons x xs ih =>
    cases b with
    | nil => simp [lexCmp] at h
    | cons y ys =>
      simp only [lexCmp] at h
      cases hc : natCmp x.toNat y.toNat with
      | lt => simp [hc, Ordering.then] at h
      | gt => simp [hc, Ordering.then] at h
      | eq =>
        simp only [hc, Ordering.then] at h
        have : x.toNat = y.toNat := by
          unfold natCmp at hc; (repeat' split at hc) <;> simp_all
        rw [Char.toNat_inj.1 this, ih h]

/-! ### from a total preorder to the hypotheses of `List.pairwise_mergeSort` -/

theorem leOf_trans {α : Type u} {cmp : α → α → Ordering} (h : PreCmp cmp) (a b c : α) :
    leOf cmp a b = true → leOf cmp b c = true → leOf cmp a c = true := by
  simp only [leOf, bne_iff_ne, ne_eq]
  exact h.le_trans a b c

theorem leOf_total {α : Type u} {cmp : α → α → Ordering} (h : PreCmp cmp) (a b : α) :
    (leOf cmp a b || leOf cmp b a) = true := by
  simp only [leOf, Bool.or_eq_true, bne_iff_ne, ne_eq]
  exact h.total a b

theorem pairwise_sort {α : Type u} {cmp : α → α → Ordering} (h : PreCmp cmp) (l : List α) :
    (l.mergeSort (leOf cmp)).Pairwise fun a b => leOf cmp a b = true :=
  List.pairwise_mergeSort (leOf_trans h) (leOf_total h) l

end Deb822Verif.Rel.Wrap
