import Deb822Verif.Lemmas.RelEditField
/-!
  Trees of well-formed fields (`FieldA.tree`, Spec/RelGrammar.lean) under the abstraction of
  Lemmas/RelEditField.lean: what `abs` reads from them, and the shape facts the removal
  operations need (at most one VERSION / ARCHITECTURES node per relation).
-/
namespace Deb822Verif.Rel.Edit
open Deb822Verif Rel Node Build Lossy RelSpec

theorem validVersion_parse (v : Version) (h : validVersion v = true) : Version.parse v.display = some v := by
  simp only [validVersion, Bool.and_eq_true, decide_eq_true_eq] at h
  rw [← versionAOf_str, Version.parse_written _ h.1, h.2]

theorem validVersion_display_ne (v : Version) (h : validVersion v = true) : v.display ≠ [] := by
  simp only [validVersion, Bool.and_eq_true, decide_eq_true_eq] at h
  have hb := ((VersionA.ok_iff _).1 h.1).1
  rw [← versionAOf_str]
  intro he
  have : (versionAOf v).first = [] := by
    rw [VersionA.str_eq] at he
    exact (List.append_eq_nil_iff.1 he).1
  simp [this, isIdent] at hb

/-- the record of the RELATION node of a well-formed relation is its `view` -/
theorem recOf_rel (r : RelA) (tail : List Tok) (hr : r.ok = true) :
    recOf (r.node tail) = RelRec.ofLossy r.view := by
  simp [recOf, RelRec.ofLossy, name_rel, version_rel r tail hr, archqual_rel, architectures_rel,
    profiles_rel r tail hr, RelA.view]

/-- the items of a field, as written -/
def itemA (s : Seg) : Option ItemS :=
  match s.entry with
  | .alts r rest => some (.alts ((r.view :: rest.map fun a => a.rel.view).map RelRec.ofLossy))
  | .substvar p ps => some (.subst (EntryA.substvar p ps).str)
  | .empty => none

def itemsA (f : FieldA) : FieldS := f.segs.filterMap itemA

theorem rels_alts (r : RelA) (rest : List AltA) (post : Gap) (fl : Follow)
    (hr : r.ok = true) (hrest : ∀ a ∈ rest, a.rel.ok = true) :
    (cn .RELATION (altsNodes r rest post fl).1).map recOf
      = (r.view :: rest.map fun a => a.rel.view).map RelRec.ofLossy := by
  induction rest generalizing r with
  | nil =>
    simp only [altsNodes]
    (repeat' split) <;> simp [cn_rel_node, recOf_rel r _ hr]
  | cons a as ih =>
    have ih' := ih a.rel (hrest a (by simp)) (fun b hb => hrest b (by simp [hb]))
    simp only [altsNodes]
    split <;> simp [cn_rel_node, recOf_rel r _ hr, ih']

theorem absKids_tks (ts : List Tok) : absKids (tks ts) = [] := by
  apply absKids_none
  intro x hx
  simp only [tks, List.mem_map] at hx
  obtain ⟨t, _, rfl⟩ := hx
  rfl

theorem absKids_tk (t : Tok) (l : List RNode) : absKids (tk t :: l) = absKids l := by
  rw [absKids_cons, absKids_none [tk t] (by intro x hx; simp at hx; subst hx; rfl)]; rfl

theorem substvar_text (p : Str) (ps : List Str) :
    textList (tks (substvarToks p ps)) = (EntryA.substvar p ps).str := by
  have h1 : ∀ (qs : List Str), textList (tks ((qs.map fun q => [(Kind.COLON, [':']), (Kind.IDENT, q)]).flatten))
      = (qs.map fun q => ':' :: q).flatten := by
    intro qs
    induction qs with
    | nil => rfl
    | cons q qs ih => simp [tks, tk] at ih ⊢; exact ih
  simp [substvarToks, EntryA.str, tks_append, h1, tk]

theorem absKids_seg (s : Seg) (fl : Follow) (hs : segRelsOk s) :
    absKids (s.nodes fl) = (match itemA s with | some v => [v] | none => []) := by
  simp only [Seg.nodes, absKids_append, absKids_tks, List.nil_append, itemA]
  cases he : s.entry with
  | empty => simp [absKids_tks]
  | substvar p ps =>
    simp only
    rw [absKids_cons, absKids_tks]
    simp [absKids, itemOf, isNodeOf, substvar_text]
  | alts r rest =>
    have hr : r.ok = true := hs r (by simp [he, EntryA.rels])
    have hrest : ∀ a ∈ rest, a.rel.ok = true := fun a ha => hs a.rel (by
      simp only [he, EntryA.rels, List.mem_cons, List.mem_map]; exact Or.inr ⟨a, ha, rfl⟩)
    simp only
    rw [absKids_cons, absKids_tks, absKids_entry _ (by simp [isNodeOf]), relsOf_node,
      rels_alts r rest s.post fl hr hrest]
    rfl

theorem absKids_segs (ss : List Seg) (h : ∀ s ∈ ss, segRelsOk s) :
    absKids (segsNodes ss) = ss.filterMap itemA := by
  induction ss with
  | nil => simp [segsNodes, absKids]
  | cons s ss ih =>
    have hs := h s (by simp)
    have ih' := ih (fun x hx => h x (by simp [hx]))
    cases ss with
    | nil =>
      simp only [segsNodes, List.filterMap_cons, List.filterMap_nil]
      rw [absKids_seg s .eof hs]
      cases itemA s <;> rfl
    | cons t ts =>
      simp only [segsNodes]
      rw [absKids_append, absKids_tk, ih', absKids_seg s .comma hs]
      cases hi : itemA s <;> simp [List.filterMap_cons, hi]

theorem segRelsOk_of_WF (f : FieldA) (h : f.WF) : ∀ s ∈ f.segs, segRelsOk s := by
  have hok : ∀ s ∈ f.segs, s.ok = true := by
    simpa [FieldA.WF, FieldA.ok, List.all_eq_true] using h
  intro s hs r hr
  have hso := ((Seg.ok_iff s).1 (hok s hs)).2.2.1
  cases he : s.entry with
  | empty => simp [he, EntryA.rels] at hr
  | substvar p ps => simp [he, EntryA.rels] at hr
  | alts r0 rest =>
    rw [he] at hso hr
    simp only [EntryA.ok, Bool.and_eq_true, List.all_eq_true] at hso
    simp only [EntryA.rels, List.mem_cons, List.mem_map] at hr
    rcases hr with rfl | ⟨a, ha, rfl⟩
    · exact hso.1
    · exact ((AltA.ok_iff a).1 (hso.2 a ha)).2.2

/-- what the abstraction reads from the tree of a well-formed field: its items, in order -/
theorem abs_tree (f : FieldA) (h : f.WF) : abs f.tree = itemsA f :=
  absKids_segs f.segs (segRelsOk_of_WF f h)

/-! ### shape -/

/-- at most one VERSION and one ARCHITECTURES node -/
def relShape (r : RNode) : Prop :=
  (cn .VERSION r.children).length ≤ 1 ∧ (cn .ARCHITECTURES r.children).length ≤ 1

/-- every relation of every entry has `relShape` -/
def Shaped (cs : List RNode) : Prop :=
  ∀ e ∈ cs, ∀ r ∈ e.children, isNodeOf .RELATION r = true → relShape r

theorem RelA.node_shape (r : RelA) (tail : List Tok) : relShape (r.node tail) := by
  rw [RelA.node_eq']
  simp only [relShape, Node.children, cn_cons_tok, Rel.cn_append, cn_aqNodes, cn_verNodes, cn_archNodes,
    cn_profsNodes, cn_tks]
  constructor
  · cases r.version <;> simp
  · cases r.archs <;> simp

theorem tks_mem_isNode {x : RNode} {ts : List Tok} (h : x ∈ tks ts) : x.isNode = false := by
  simp only [tks, List.mem_map] at h
  obtain ⟨t, _, rfl⟩ := h
  rfl

theorem tks_mem_children {x : RNode} {ts : List Tok} (h : x ∈ tks ts) : x.children = [] := by
  simp only [tks, List.mem_map] at h
  obtain ⟨t, _, rfl⟩ := h
  rfl

theorem altsNodes_mem (r : RelA) (rest : List AltA) (post : Gap) (fl : Follow) (x : RNode)
    (hx : x ∈ (altsNodes r rest post fl).1) (hn : x.isNode = true) : ∃ r' t, x = RelA.node r' t := by
  induction rest generalizing r with
  | nil =>
    simp only [altsNodes] at hx
    split at hx
    · simp at hx; exact ⟨_, _, hx⟩
    · split at hx
      · simp only [List.mem_cons] at hx
        rcases hx with rfl | hx
        · exact ⟨_, _, rfl⟩
        · rw [tks_mem_isNode hx] at hn; cases hn
      · simp at hx; exact ⟨_, _, hx⟩
  | cons a as ih =>
    simp only [altsNodes, List.mem_append, List.mem_cons] at hx
    rcases hx with hx | rfl | hx | hx
    · split at hx
      · simp at hx; exact ⟨_, _, hx⟩
      · simp only [List.mem_cons] at hx
        rcases hx with rfl | hx
        · exact ⟨_, _, rfl⟩
        · rw [tks_mem_isNode hx] at hn; cases hn
    · cases hn
    · rw [tks_mem_isNode hx] at hn; cases hn
    · exact ih a.rel hx

theorem seg_shaped (s : Seg) (fl : Follow) : Shaped (s.nodes fl) := by
  intro e he r hr hrel
  simp only [Seg.nodes, List.mem_append] at he
  rcases he with he | he
  · rw [tks_mem_children he] at hr; cases hr
  · cases hent : s.entry with
    | empty =>
      rw [hent] at he
      rw [tks_mem_children he] at hr; cases hr
    | substvar p ps =>
      rw [hent] at he
      simp only [List.mem_cons] at he
      rcases he with rfl | he
      · have := tks_mem_isNode hr
        simp only [isNodeOf, this, Bool.false_and] at hrel; cases hrel
      · rw [tks_mem_children he] at hr; cases hr
    | alts r0 rest =>
      rw [hent] at he
      simp only [List.mem_cons] at he
      rcases he with rfl | he
      · have hn : r.isNode = true := by
          simp only [isNodeOf, Bool.and_eq_true] at hrel; exact hrel.1
        obtain ⟨r', t, rfl⟩ := altsNodes_mem r0 rest s.post fl r hr hn
        exact RelA.node_shape r' t
      · rw [tks_mem_children he] at hr; cases hr

theorem segs_shaped (ss : List Seg) : Shaped (segsNodes ss) := by
  induction ss with
  | nil => intro e he; simp [segsNodes] at he
  | cons s ss ih =>
    cases ss with
    | nil => simpa [segsNodes] using seg_shaped s .eof
    | cons t ts =>
      intro e he
      simp only [segsNodes, List.mem_append, List.mem_cons] at he
      rcases he with he | rfl | he
      · exact seg_shaped s .comma e he
      · intro r hr; cases hr
      · exact ih e he

/-- the tree of any field of the grammar is `Shaped` -/
theorem tree_shaped (f : FieldA) : Shaped f.tree.children := segs_shaped f.segs

/-- the relation at a position of a `Shaped` field -/
theorem shaped_at {f : Field} (hs : Shaped f.kids) {p q : Nat} {r : RNode}
    (h : (f.entryKids p)[q]? = some r) (hr : isNodeOf .RELATION r = true) : relShape r := by
  unfold Field.entryKids at h
  cases he : f.kids[p]? with
  | none => rw [he] at h; simp at h
  | some e =>
    rw [he] at h
    exact hs e (List.mem_of_getElem? he) r (List.mem_of_getElem? h) hr

end Deb822Verif.Rel.Edit
