import Deb822Verif.Lemmas.RelEditLayoutOps
/-!
  The layouts of Lemmas/RelEditLayout.lean are closed under the operations inside an entry:
  `Entry::push` / `replace` / `remove_relation` (`Relation::remove`) and the relation setters.
-/
set_option linter.unusedSimpArgs false
set_option linter.unusedVariables false
namespace Deb822Verif.Rel.Edit
open Deb822Verif Rel Node Build Lossy RelSpec
open Deb822Verif.Props.C10

/-! ### the children of a RELATION node -/

/-- the children of a RELATION node without the blanks at its end -/
def core (r : RelA) : List RNode :=
  tk (.IDENT, r.name) :: (aqNodes r.archqual ++ (verNodes r.version ++ (archNodes r.archs ++ profsNodes r.profiles)))

theorem node_core (r : RelA) (tail : List Tok) : r.node tail = .node .RELATION (core r ++ tks tail) := by
  rw [RelA.node_eq']; simp [core]

theorem core_last (r : RelA) : ∀ x, (core r).getLast? = some x → isWsElem x = false := by
  intro x hx
  unfold core at hx
  rcases List.eq_nil_or_concat r.profiles with hp | ⟨ps, pl, hp⟩
  · rw [hp] at hx
    simp only [profsNodes, List.map_nil, List.flatten_nil, List.append_nil] at hx
    cases ha : r.archs with
    | none =>
      rw [ha] at hx
      simp only [archNodes, List.append_nil] at hx
      rw [← List.cons_append] at hx
      exact last_head2 r.name r.archqual r.version x (by simpa using hx)
    | some ab =>
      rw [ha] at hx
      simp only [archNodes, ← List.append_assoc, ← List.cons_append] at hx
      rw [List.getLast?_append] at hx
      simp at hx; subst hx; rfl
  · rw [List.concat_eq_append] at hp
    rw [hp, profsNodes_snoc] at hx
    simp only [← List.append_assoc, ← List.cons_append] at hx
    rw [List.getLast?_append] at hx
    simp at hx; subst hx; rfl

theorem core_head (r : RelA) : (core r).takeWhile isWsElem = [] := by
  simp [core, List.takeWhile, isWs_tk_ident]

theorem takeWhile_all {α} (p : α → Bool) (a b : List α) (ha : ∀ x ∈ a, p x = true)
    (hb : ∀ x, b.head? = some x → p x = false) : (a ++ b).takeWhile p = a := by
  induction a with
  | nil =>
    cases b with
    | nil => rfl
    | cons x xs => simp [List.takeWhile, hb x rfl]
  | cons x a ih => simp [List.takeWhile, ha x (by simp), ih (fun y hy => ha y (by simp [hy]))]

theorem takeWhile_core_tail (r : RelA) (t : Gap) :
    (core r ++ tks (gapToks t)).takeWhile isWsElem = [] := by
  simp [core, List.takeWhile, isWs_tk_ident]

theorem takeWhile_rev_core_tail (r : RelA) (t : Gap) :
    ((core r ++ tks (gapToks t)).reverse.takeWhile isWsElem) = (tks (gapToks t)).reverse := by
  rw [List.reverse_append]
  exact takeWhile_all isWsElem _ _ (fun x hx => tks_gap_ws t x (by simpa using hx))
    (fun x hx => core_last r x (by simpa [List.head?_reverse] using hx))

/-- `Entry::replace` grafts the old node's trailing blanks onto the new relation -/
theorem graftWs_lay (old new : LRel) : (graftWs old.node new.node).1 = (⟨new.r, old.tail⟩ : LRel).node := by
  simp only [LRel.node, node_core, graftWs, children_node, kind_node, takeWhile_core_tail, takeWhile_rev_core_tail,
    List.length_nil, List.drop_zero, List.length_reverse, List.reverse_reverse, List.nil_append]
  have : (core new.r ++ tks (gapToks new.tail)).take ((core new.r ++ tks (gapToks new.tail)).length - (tks (gapToks new.tail)).length)
      = core new.r := by
    rw [List.length_append, Nat.add_sub_cancel, List.take_left]
  rw [this]

/-! ### finding the alternatives of an entry -/

/-- what stands between the previous RELATION node and this alternative's -/
def altPre (a : LAlt) : List RNode := tks (gapToks a.gb) ++ tk pipeTok :: tks (gapToks a.ga)

theorem LAlt.nodes_eq (a : LAlt) : a.nodes = altPre a ++ [a.x.node] := by simp [LAlt.nodes, altPre]

theorem altsKids_append (R1 R2 : List LAlt) : altsKids (R1 ++ R2) = altsKids R1 ++ altsKids R2 := by simp [altsKids]
theorem altsKids_cons (a : LAlt) (R : List LAlt) : altsKids (a :: R) = a.nodes ++ altsKids R := by simp [altsKids]
theorem altsKids_nil : altsKids [] = [] := rfl

theorem isRel_LRel (x : LRel) : isNodeOf .RELATION x.node = true := rfl

theorem countR_altPre (a : LAlt) : (altPre a).countP (isNodeOf .RELATION) = 0 := by
  simp [altPre, List.countP_append, List.countP_cons, countP_tks, isNodeOf_tk]

theorem countR_altsKids (R : List LAlt) : (altsKids R).countP (isNodeOf .RELATION) = R.length := by
  induction R with
  | nil => rfl
  | cons a R ih =>
    rw [altsKids_cons, List.countP_append, ih, LAlt.nodes_eq, List.countP_append, countR_altPre]
    simp [List.countP_cons, isRel_LRel]; omega

theorem countR_kids (e : LEnt) : e.kids.countP (isNodeOf .RELATION) = e.rest.length + 1 := by
  simp [LEnt.kids, List.countP_cons, List.countP_append, countR_altsKids, countP_tks, isRel_LRel]

/-- the children of an entry around the RELATION node of a further alternative -/
theorem kids_at_alt (e : LEnt) (R1 : List LAlt) (a : LAlt) (R2 : List LAlt) (h : e.rest = R1 ++ a :: R2) :
    e.kids = (e.x.node :: (altsKids R1 ++ altPre a)) ++ a.x.node :: (altsKids R2 ++ tks (gapToks e.post)) := by
  simp [LEnt.kids, h, altsKids_append, altsKids_cons, LAlt.nodes_eq]

theorem count_before_alt (e : LEnt) (R1 : List LAlt) (a : LAlt) :
    (e.x.node :: (altsKids R1 ++ altPre a)).countP (isNodeOf .RELATION) = R1.length + 1 := by
  simp [List.countP_cons, List.countP_append, countR_altsKids, countR_altPre, isRel_LRel]

/-- `get_relation(j)` on the layout of an entry -/
theorem nthRel_lay (e : LEnt) (j q : Nat) (h : nthNode .RELATION e.kids j = some q) :
    (j = 0 ∧ q = 0) ∨ ∃ R1 a R2, e.rest = R1 ++ a :: R2 ∧ R1.length + 1 = j
      ∧ q = (e.x.node :: (altsKids R1 ++ altPre a)).length := by
  cases j with
  | zero =>
    left
    have : nthNode .RELATION e.kids 0 = some 0 := by simp [nthNode, nthPos, LEnt.kids, isRel_LRel]
    exact ⟨rfl, Option.some.inj (h.symm.trans this)⟩
  | succ j' =>
    right
    obtain ⟨pre, x, post, hk, hl, hx, hc⟩ := nthPos_some h
    have hlt : j' < e.rest.length := by
      have := countR_kids e
      rw [hk, List.countP_append, List.countP_cons, hc] at this
      simp [hx] at this; omega
    have hsplit : e.rest = e.rest.take j' ++ e.rest[j'] :: e.rest.drop (j' + 1) := by
      rw [List.getElem_cons_drop, List.take_append_drop]
    have hlen : (e.rest.take j').length = j' := by rw [List.length_take]; omega
    refine ⟨_, _, _, hsplit, by rw [hlen], ?_⟩
    have := nthPos_split (P := isNodeOf .RELATION) (e.x.node :: (altsKids (e.rest.take j') ++ altPre e.rest[j']))
      e.rest[j'].x.node (altsKids (e.rest.drop (j' + 1)) ++ tks (gapToks e.post)) rfl
    rw [count_before_alt, hlen, ← kids_at_alt e _ _ _ hsplit] at this
    exact Option.some.inj (h.symm.trans this)

theorem LEnt.ok_split {e : LEnt} {R1 : List LAlt} {a : LAlt} {R2 : List LAlt} (h : e.rest = R1 ++ a :: R2)
    (hok : e.ok = true) : e.x.ok = true ∧ (∀ b ∈ R1, b.ok = true) ∧ a.ok = true ∧ (∀ b ∈ R2, b.ok = true)
      ∧ gapOkL e.post = true := by
  obtain ⟨h1, h2, h3⟩ := (LEnt.ok_iff e).1 hok
  rw [h] at h2
  exact ⟨h1, fun b hb => h2 b (by simp [hb]), h2 a (by simp), fun b hb => h2 b (by simp [hb]), h3⟩

theorem alts_ok_join {R1 : List LAlt} {a : LAlt} {R2 : List LAlt} (h1 : ∀ b ∈ R1, b.ok = true) (ha : a.ok = true)
    (h2 : ∀ b ∈ R2, b.ok = true) : ∀ b ∈ R1 ++ a :: R2, b.ok = true := by
  intro b hb
  simp only [List.mem_append, List.mem_cons] at hb
  rcases hb with hb | rfl | hb
  · exact h1 b hb
  · exact ha
  · exact h2 b hb

/-- the RELATION node `get_relation(j)` finds, and the entry with another node in its place -/
theorem rel_ctx (e : LEnt) (j q : Nat) (h : nthNode .RELATION e.kids j = some q) (hok : e.ok = true) :
    ∃ (pre' : List RNode) (x : LRel) (post' : List RNode), e.kids = pre' ++ x.node :: post' ∧ pre'.length = q ∧ x.ok = true
      ∧ ∀ x' : LRel, x'.ok = true → ∃ e' : LEnt, e'.kids = pre' ++ x'.node :: post' ∧ e'.ok = true := by
  rcases nthRel_lay e j q h with ⟨rfl, rfl⟩ | ⟨R1, a, R2, hr, hj, hq⟩
  · obtain ⟨h1, h2, h3⟩ := (LEnt.ok_iff e).1 hok
    refine ⟨[], e.x, altsKids e.rest ++ tks (gapToks e.post), rfl, rfl, h1, ?_⟩
    intro x' hx'
    exact ⟨⟨x', e.rest, e.post⟩, rfl, (LEnt.ok_iff _).2 ⟨hx', h2, h3⟩⟩
  · obtain ⟨h1, h2, h3, h4, h5⟩ := LEnt.ok_split hr hok
    obtain ⟨a1, a2, a3⟩ := (LAlt.ok_iff a).1 h3
    refine ⟨_, a.x, _, kids_at_alt e R1 a R2 hr, hq.symm, a3, ?_⟩
    intro x' hx'
    refine ⟨⟨e.x, R1 ++ { a with x := x' } :: R2, e.post⟩, ?_, ?_⟩
    · rw [kids_at_alt _ R1 { a with x := x' } R2 rfl]; rfl
    · exact (LEnt.ok_iff _).2 ⟨h1, alts_ok_join h2 ((LAlt.ok_iff _).2 ⟨a1, a2, hx'⟩) h4, h5⟩

/-! ### an edit of the children of one entry -/

/-- the root after the children of the entry of a segment were replaced by those of another entry -/
theorem lay_entryEdit (f : Field) (l : List LSeg) (hk : f.kids = lkids l) (A : List LSeg) (s : LSeg) (B : List LSeg)
    (e : LEnt) (e1 : l = A ++ s :: B) (e2 : s.item = .ent e) (c : Cut) (lost : Nat → Option Str) (e' : LEnt)
    (hc : c.kids = e'.kids) :
    (f.entryEdit (lkidsC A ++ tks (gapToks s.pre)).length c lost).kids = lkids (A ++ { s with item := .ent e' } :: B) := by
  rw [entryEdit_kids f _ c lost (lkidsC A ++ tks (gapToks s.pre)) e.node (tks (gapToks s.post) ++ restKids B)
    (by rw [hk, e1, lkids_at_ent A s B e e2]) rfl]
  rw [lkids_at_ent A _ B e' rfl, hc]
  simp [LEnt.node]

theorem entryKids_lay (f : Field) (l : List LSeg) (hk : f.kids = lkids l) (A : List LSeg) (s : LSeg) (B : List LSeg)
    (e : LEnt) (e1 : l = A ++ s :: B) (e2 : s.item = .ent e) :
    f.entryKids (lkidsC A ++ tks (gapToks s.pre)).length = e.kids := by
  rw [entryKids_split f (lkidsC A ++ tks (gapToks s.pre)) e.node (tks (gapToks s.post) ++ restKids B)
    (by rw [hk, e1, lkids_at_ent A s B e e2])]
  rfl

theorem lay_with_entry {l A : List LSeg} {s : LSeg} {B : List LSeg} (e1 : l = A ++ s :: B) (hok : ∀ x ∈ l, x.ok = true)
    (e' : LEnt) (he' : e'.ok = true) : ∀ x ∈ A ++ { s with item := .ent e' } :: B, x.ok = true := by
  obtain ⟨okA, oks, okB⟩ := mem_split_ok e1 hok
  obtain ⟨s1, s2, _⟩ := (LSeg.ok_iff s).1 oks
  intro x hx
  simp only [List.mem_append, List.mem_cons] at hx
  rcases hx with hx | rfl | hx
  · exact okA x hx
  · exact (LSeg.ok_iff _).2 ⟨s1, s2, he'⟩
  · exact okB x hx

theorem seg_ent_ok {l A : List LSeg} {s : LSeg} {B : List LSeg} {e : LEnt} (e1 : l = A ++ s :: B)
    (e2 : s.item = .ent e) (hok : ∀ x ∈ l, x.ok = true) : e.ok = true := by
  have := ((LSeg.ok_iff s).1 (mem_split_ok e1 hok).2.1).2.2
  rw [e2] at this; exact this

/-! ### `Entry::push` -/

theorem lastRel_LEnt (e : LEnt) :
    ∃ last, lastPos (isNodeOf .RELATION) e.kids = some last ∧ last + 1 = (e.x.node :: altsKids e.rest).length := by
  have hpost : ∀ y ∈ tks (gapToks e.post), isNodeOf .RELATION y = false := by
    intro y hy
    simp only [tks, List.mem_map] at hy
    obtain ⟨t, _, rfl⟩ := hy; rfl
  rcases List.eq_nil_or_concat e.rest with hr | ⟨R, a, hr⟩
  · refine ⟨0, ?_, by simp [hr, altsKids]⟩
    have := lastPos_split (isNodeOf .RELATION) [] e.x.node (tks (gapToks e.post)) rfl hpost
    simpa [LEnt.kids, hr, altsKids] using this
  · rw [List.concat_eq_append] at hr
    refine ⟨(e.x.node :: (altsKids R ++ altPre a)).length, ?_, ?_⟩
    · have := lastPos_split (isNodeOf .RELATION) (e.x.node :: (altsKids R ++ altPre a)) a.x.node (tks (gapToks e.post)) rfl hpost
      rw [kids_at_alt e R a [] hr]
      simpa [altsKids] using this
    · simp [hr, altsKids_append, altsKids_cons, LAlt.nodes_eq, altsKids_nil]; omega

theorem entryPushIn_lay (e : LEnt) (x : LRel) :
    (entryPushIn e.kids x.node).kids = (⟨e.x, e.rest ++ [⟨sp, sp, x⟩], e.post⟩ : LEnt).kids := by
  obtain ⟨last, hlast, hlen⟩ := lastRel_LEnt e
  have hne : (e.kids.any fun c => c.kind == Kind.PIPE || c.kind == Kind.RELATION) = true := by
    simp [LEnt.kids, LRel.node, RelA.node]
  unfold entryPushIn
  simp only [hne, Bool.not_true, hlast, Bool.false_eq_true, ↓reduceIte]
  rw [hlen]
  have : e.kids = (e.x.node :: altsKids e.rest) ++ tks (gapToks e.post) := by simp [LEnt.kids]
  rw [this, insertAt_split]
  simp [LEnt.kids, altsKids_append, altsKids_cons, altsKids_nil, LAlt.nodes, tks_sp', T, tk, pipeTok, sp, gapToks,
    GapPiece.tok, tks]

theorem lay_entryPushAt (f : Field) (hl : Lay f) (i p : Nat) (hp : nthNode .ENTRY f.kids i = some p)
    (R : RNode) (hR : RelOperand R) : Lay (f.entryPushAt p R) := by
  obtain ⟨l, hok, hk⟩ := hl
  obtain ⟨x, hx, rfl⟩ := hR
  rw [hk] at hp
  obtain ⟨A, s, B, e, e1, e2, e3, e4⟩ := nthEntry_lay l i p hp
  have heok := seg_ent_ok e1 e2 hok
  obtain ⟨h1, h2, h3⟩ := (LEnt.ok_iff e).1 heok
  let e' : LEnt := ⟨e.x, e.rest ++ [⟨sp, sp, x⟩], e.post⟩
  refine ⟨A ++ { s with item := .ent e' } :: B, lay_with_entry e1 hok e' ?_, ?_⟩
  · refine (LEnt.ok_iff _).2 ⟨h1, ?_, h3⟩
    intro b hb
    simp only [e', List.mem_append, List.mem_singleton] at hb
    rcases hb with hb | rfl
    · exact h2 b hb
    · exact (LAlt.ok_iff _).2 ⟨gapOkL_sp, gapOkL_sp, hx⟩
  · unfold Field.entryPushAt
    rw [e4, entryKids_lay f l hk A s B e e1 e2]
    exact lay_entryEdit f l hk A s B e e1 e2 _ _ e' (entryPushIn_lay e x)

/-! ### `Entry::replace` -/

theorem lay_entryReplaceAt (f : Field) (hl : Lay f) (i j p q : Nat) (hp : nthNode .ENTRY f.kids i = some p)
    (hq : nthNode .RELATION (f.entryKids p) j = some q) (R : RNode) (hR : RelOperand R) :
    ∃ f', f.entryReplaceAt p j R = .ok f' ∧ Lay f' := by
  obtain ⟨l, hok, hk⟩ := hl
  obtain ⟨x, hx, rfl⟩ := hR
  rw [hk] at hp
  obtain ⟨A, s, B, e, e1, e2, e3, e4⟩ := nthEntry_lay l i p hp
  have heok := seg_ent_ok e1 e2 hok
  have hek := entryKids_lay f l hk A s B e e1 e2
  rw [e4, hek] at hq
  obtain ⟨pre', xo, post', hkids, hlen, hxo, hctx⟩ := rel_ctx e j q hq heok
  obtain ⟨xt, ht⟩ := (LRel.ok_iff xo).1 hxo
  obtain ⟨e', he'k, he'ok⟩ := hctx ⟨x.r, xo.tail⟩ ((LRel.ok_iff _).2 ⟨((LRel.ok_iff x).1 hx).1, ht⟩)
  have hget : e.kids[q]? = some xo.node := by rw [hkids, ← hlen]; exact getElem?_split _ _ _
  have hrep : entryReplaceIn e.kids q x.node = .ok (e'.kids, (graftWs xo.node x.node).2) := by
    unfold entryReplaceIn
    rw [hget]
    simp only [graftWs_lay, Outcome.ok.injEq, Prod.mk.injEq, and_true]
    rw [hkids, ← hlen, replaceAt_split, he'k]; simp
  subst e4
  -- the second edit acts on the field after the first one
  let c1 : Cut := ⟨e.kids.take q ++ e.kids.drop (q + 1), Remap.cut q (q + 1)⟩
  let f1 := f.entryEdit (lkidsC A ++ tks (gapToks s.pre)).length c1 (fun y => if y = q then some (graftWs xo.node x.node).2.text else none)
  have hres : f.entryReplaceAt (lkidsC A ++ tks (gapToks s.pre)).length j x.node
      = .ok (f1.entryEdit (lkidsC A ++ tks (gapToks s.pre)).length ⟨e'.kids, Remap.ins q 1⟩) := by
    unfold Field.entryReplaceAt
    rw [hek, hq]
    simp only [hrep]; rfl
  refine ⟨_, hres, A ++ { s with item := .ent e' } :: B, lay_with_entry e1 hok e' he'ok, ?_⟩
  have hk1 : f1.kids = (lkidsC A ++ tks (gapToks s.pre)) ++ [Node.node .ENTRY c1.kids] ++ (tks (gapToks s.post) ++ restKids B) :=
    entryEdit_kids f _ c1 _ (lkidsC A ++ tks (gapToks s.pre)) e.node (tks (gapToks s.post) ++ restKids B)
      (by rw [hk, e1, lkids_at_ent A s B e e2]) rfl
  have hk2 := entryEdit_kids f1 (lkidsC A ++ tks (gapToks s.pre)).length ⟨e'.kids, Remap.ins q 1⟩ (fun _ => none)
    (lkidsC A ++ tks (gapToks s.pre)) (Node.node .ENTRY c1.kids) (tks (gapToks s.post) ++ restKids B)
    (by rw [hk1]; simp) rfl
  rw [hk2, lkids_at_ent A _ B e' rfl]
  simp [LEnt.node]

/-! ### `Relation::remove` -/

theorem any_rel_kids (e : LEnt) : e.kids.any (isNodeOf .RELATION) = true := by
  simp [LEnt.kids, isRel_LRel]

theorem dropWhile_append_all {α} (p : α → Bool) (a b : List α) (ha : ∀ x ∈ a, p x = true) :
    (a ++ b).dropWhile p = b.dropWhile p := by
  induction a with
  | nil => rfl
  | cons x a ih => simp [List.dropWhile, ha x (by simp), ih (fun y hy => ha y (by simp [hy]))]

theorem dropTrailing_tks (P0 : List RNode) (g : Gap) :
    (P0 ++ tks (gapToks g)).reverse.dropWhile isWsElem = P0.reverse.dropWhile isWsElem := by
  rw [List.reverse_append]
  exact dropWhile_append_all isWsElem _ _ (fun x hx => tks_gap_ws g x (by simpa using hx))

theorem dropTrailing_rel (P0 : List RNode) (x : LRel) :
    (P0 ++ [x.node]).reverse.dropWhile isWsElem = (P0 ++ [x.node]).reverse := by
  simp [List.dropWhile, isWsElem, LRel.node, RelA.node]

/-- the children of the entry after `Relation::remove` on the node `get_relation(j)` finds: the entry
    without that alternative, or no child at all when it was the only one -/
theorem relationRemoveIn_lay (e : LEnt) (j q : Nat) (h : nthNode .RELATION e.kids j = some q) (hok : e.ok = true) :
    ∃ c, relationRemoveIn e.kids q = .ok c
      ∧ ((e.rest = [] ∧ c.kids = []) ∨ ∃ e' : LEnt, e'.ok = true ∧ c.kids = e'.kids) := by
  rcases nthRel_lay e j q h with ⟨rfl, rfl⟩ | ⟨R1, a, R2, hr, hj, hq⟩
  · -- the first alternative
    obtain ⟨h1, h2, h3⟩ := (LEnt.ok_iff e).1 hok
    unfold relationRemoveIn
    simp only [List.take_zero, List.any_nil, Bool.not_false, Bool.not_true, Bool.false_eq_true, ↓reduceIte]
    cases hrest : e.rest with
    | nil =>
      have : (e.kids.drop (0 + 1)).dropWhile isWsElem = [] := by
        simp only [LEnt.kids, hrest, altsKids_nil, List.nil_append, Nat.zero_add, List.drop_one, List.tail_cons]
        have := dropWhile_tks_gap e.post []
        simpa using this
      simp only [this]
      exact ⟨_, rfl, Or.inl ⟨trivial, rfl⟩⟩
    | cons a as =>
      have hd : (e.kids.drop (0 + 1)).dropWhile isWsElem
          = tk pipeTok :: (tks (gapToks a.ga) ++ (a.x.node :: (altsKids as ++ tks (gapToks e.post)))) := by
        simp only [LEnt.kids, hrest, altsKids_cons, LAlt.nodes, Nat.zero_add, List.drop_one, List.tail_cons,
          List.append_assoc, dropWhile_tks_gap, List.cons_append, List.nil_append]
        rw [List.dropWhile_cons, show isWsElem (tk pipeTok) = false from rfl]; rfl
      simp only [hd]
      have hp : ((tk pipeTok).kind == Kind.PIPE) = true := rfl
      simp only [hp, ↓reduceIte]
      refine ⟨_, rfl, Or.inr ⟨⟨a.x, as, e.post⟩, ?_, ?_⟩⟩
      · rw [hrest] at h2
        exact (LEnt.ok_iff _).2 ⟨((LAlt.ok_iff a).1 (h2 a (by simp))).2.2, fun b hb => h2 b (by simp [hb]), h3⟩
      · simp only [List.nil_append, dropWhile_tks_gap]
        rw [List.dropWhile_cons, show isWsElem a.x.node = false from rfl]; rfl
  · -- a later alternative: its `|` goes with it
    obtain ⟨h1, h2, h3, h4, h5⟩ := LEnt.ok_split hr hok
    have hk := kids_at_alt e R1 a R2 hr
    obtain ⟨t1, t2, _⟩ := take_drop_of_split (e.x.node :: (altsKids R1 ++ altPre a)) a.x.node (altsKids R2 ++ tks (gapToks e.post))
    rw [← hk, ← hq] at t1 t2
    have hany : (e.x.node :: (altsKids R1 ++ altPre a)).any (isNodeOf .RELATION) = true := by simp [isRel_LRel]
    -- the children before the `|`, ending in a RELATION node
    obtain ⟨P0, y, hP0⟩ : ∃ P0 y, e.x.node :: altsKids R1 = P0 ++ [LRel.node y] := by
      rcases List.eq_nil_or_concat R1 with rfl | ⟨R, b, rfl⟩
      · exact ⟨[], e.x, by simp [altsKids]⟩
      · refine ⟨e.x.node :: (altsKids R ++ altPre b), b.x, ?_⟩
        simp [List.concat_eq_append, altsKids_append, altsKids_cons, altsKids_nil, LAlt.nodes_eq]
    have hb1 : (e.x.node :: (altsKids R1 ++ altPre a)).reverse.dropWhile isWsElem
        = tk pipeTok :: ((e.x.node :: altsKids R1) ++ tks (gapToks a.gb)).reverse := by
      have : e.x.node :: (altsKids R1 ++ altPre a)
          = ((e.x.node :: altsKids R1) ++ tks (gapToks a.gb) ++ [tk pipeTok]) ++ tks (gapToks a.ga) := by
        simp [altPre]
      rw [this, dropTrailing_tks]
      simp [List.dropWhile, show isWsElem (tk pipeTok) = false from rfl]
    have hb3 : (((e.x.node :: altsKids R1) ++ tks (gapToks a.gb)).reverse.dropWhile isWsElem).reverse
        = e.x.node :: altsKids R1 := by
      rw [dropTrailing_tks, hP0, dropTrailing_rel, List.reverse_reverse]
    unfold relationRemoveIn
    simp only [t1, t2, hany, Bool.not_true, Bool.not_false, ↓reduceIte, hb1]
    have hp : ((tk pipeTok).kind == Kind.PIPE) = true := rfl
    simp only [hp, ↓reduceIte, hb3]
    refine ⟨_, rfl, Or.inr ⟨⟨e.x, R1 ++ R2, e.post⟩, ?_, ?_⟩⟩
    · refine (LEnt.ok_iff _).2 ⟨h1, ?_, h5⟩
      intro b hb
      simp only [List.mem_append] at hb
      rcases hb with hb | hb
      · exact h2 b hb
      · exact h4 b hb
    · simp [LEnt.kids, altsKids_append]

theorem lay_removeRelationAt (f : Field) (hl : Lay f) (i j p q : Nat) (hp : nthNode .ENTRY f.kids i = some p)
    (hq : nthNode .RELATION (f.entryKids p) j = some q) :
    ∃ f', f.removeRelationAt p q = .ok f' ∧ Lay f' := by
  obtain ⟨l, hok, hk⟩ := hl
  rw [hk] at hp
  obtain ⟨A, s, B, e, e1, e2, e3, e4⟩ := nthEntry_lay l i p hp
  have heok := seg_ent_ok e1 e2 hok
  have hek := entryKids_lay f l hk A s B e e1 e2
  subst e4
  rw [hek] at hq
  obtain ⟨c, hc, hcase⟩ := relationRemoveIn_lay e j q hq heok
  obtain ⟨okA, oks, okB⟩ := mem_split_ok e1 hok
  obtain ⟨s1, s2, s3⟩ := (LSeg.ok_iff s).1 oks
  have hk1 : (f.entryEdit (lkidsC A ++ tks (gapToks s.pre)).length c).kids
      = (lkidsC A ++ tks (gapToks s.pre)) ++ [Node.node .ENTRY c.kids] ++ (tks (gapToks s.post) ++ restKids B) :=
    entryEdit_kids f _ c _ (lkidsC A ++ tks (gapToks s.pre)) e.node (tks (gapToks s.post) ++ restKids B)
      (by rw [hk, e1, lkids_at_ent A s B e e2]) rfl
  have hek1 : (f.entryEdit (lkidsC A ++ tks (gapToks s.pre)).length c).entryKids (lkidsC A ++ tks (gapToks s.pre)).length = c.kids := by
    rw [entryKids_split _ (lkidsC A ++ tks (gapToks s.pre)) (Node.node .ENTRY c.kids) (tks (gapToks s.post) ++ restKids B)
      (by rw [hk1]; simp)]
    rfl
  unfold Field.removeRelationAt
  rw [hek, hc]
  simp only [Outcome.bind, hek1]
  rcases hcase with ⟨_, hnil⟩ | ⟨e', he', hck⟩
  · -- the only alternative: the entry goes too
    rw [hnil]
    simp only [List.any_nil, Bool.not_false, ↓reduceIte]
    obtain ⟨c2, l', hc2, hck2, hl'⟩ := entryRemove_lay (f.entryEdit (lkidsC A ++ tks (gapToks s.pre)).length c).kids
      (Node.node .ENTRY c.kids) A s B (by rw [hk1]; simp) okA s1 okB
    refine ⟨(f.entryEdit (lkidsC A ++ tks (gapToks s.pre)).length c).rootEdit c2, ?_, l', hl', hck2⟩
    unfold Field.removeEntryAt
    rw [hc2]; rfl
  · have hany : c.kids.any (isNodeOf .RELATION) = true := by rw [hck]; exact any_rel_kids e'
    simp only [hany, Bool.not_true, Bool.false_eq_true, ↓reduceIte]
    refine ⟨_, rfl, A ++ { s with item := .ent e' } :: B, lay_with_entry e1 hok e' he', ?_⟩
    exact lay_entryEdit f l hk A s B e e1 e2 c _ e' hck

/-! ### the relation setters -/

/-- a node function that maps layouts of relations to layouts of relations -/
def KeepsRel (g : RNode → RNode) : Prop := ∀ x : LRel, x.ok = true → ∃ x' : LRel, x'.ok = true ∧ g x.node = x'.node

theorem lay_relEdit (f : Field) (hl : Lay f) (i j p q : Nat) (hp : nthNode .ENTRY f.kids i = some p)
    (hq : nthNode .RELATION (f.entryKids p) j = some q) (g : RNode → RNode) (hg : KeepsRel g) :
    Lay (f.relEdit p q g) := by
  obtain ⟨l, hok, hk⟩ := hl
  rw [hk] at hp
  obtain ⟨A, s, B, e, e1, e2, e3, e4⟩ := nthEntry_lay l i p hp
  have heok := seg_ent_ok e1 e2 hok
  have hek := entryKids_lay f l hk A s B e e1 e2
  subst e4
  rw [hek] at hq
  obtain ⟨pre', xo, post', hkids, hlen, hxo, hctx⟩ := rel_ctx e j q hq heok
  obtain ⟨x', hx', hgx⟩ := hg xo hxo
  obtain ⟨e', he'k, he'ok⟩ := hctx x' hx'
  have hkf : f.kids = (lkidsC A ++ tks (gapToks s.pre)) ++ e.node :: (tks (gapToks s.post) ++ restKids B) := by
    rw [hk, e1, lkids_at_ent A s B e e2]
  refine ⟨A ++ { s with item := .ent e' } :: B, lay_with_entry e1 hok e' he'ok, ?_⟩
  unfold Field.relEdit
  rw [hkf, getElem?_split]
  simp only [LEnt.node, children_node, kind_node]
  rw [hkids, ← hlen, getElem?_split]
  simp only [replaceAt_split, hgx]
  rw [lkids_at_ent A _ B e' rfl]
  simp only [LEnt.node, he'k]
  simp

end Deb822Verif.Rel.Edit
