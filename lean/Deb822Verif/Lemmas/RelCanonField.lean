import Deb822Verif.Spec.RelCanon
import Deb822Verif.Lemmas.RelLossyField
/-! The text the lossy printer writes for a valid value is the text of a well-formed field in the
    canonical layout (`RelSpec.canon`), whose `view` is the value (C14, stage 1). -/
set_option linter.unusedSimpArgs false
set_option linter.unusedVariables false
namespace Deb822Verif.RelSpec
open Deb822Verif Rel Lossy

/-! ### joins -/

theorem join_cons_map' (sep pre p : Str) (x : Str) (xs : List Str) :
    Text.join sep ((p ++ x) :: xs.map (pre ++ ·)) = p ++ Text.join (sep ++ pre) (x :: xs) := by
  induction xs generalizing x p with
  | nil => simp [Text.join]
  | cons y ys ih =>
    simp only [List.map_cons, Text.join, List.append_assoc]
    rw [ih pre y]

theorem join_cons_map (sep pre : Str) (x : Str) (xs : List Str) :
    Text.join sep (x :: xs.map (pre ++ ·)) = Text.join (sep ++ pre) (x :: xs) := by
  simpa using join_cons_map' sep pre [] x xs

theorem filterMap_eq_self {α β} (f : α → Option β) (g : β → α) (l : List β)
    (h : ∀ x ∈ l, f (g x) = some x) : (l.map g).filterMap f = l := by
  induction l with
  | nil => rfl
  | cons x xs ih =>
    simp [List.filterMap_cons, h x (by simp), ih (fun y hy => h y (by simp [hy]))]

theorem flatten_cons_map (pre : Str) (x : Str) (xs : List Str) :
    x ++ (xs.map (pre ++ ·)).flatten = Text.join pre (x :: xs) := by
  induction xs generalizing x with
  | nil => simp [Text.join]
  | cons y ys ih =>
    simp only [List.map_cons, List.flatten_cons, Text.join, List.append_assoc]
    rw [ih y]

/-! ### text -/

theorem versionAOf_str (v : Version) : (versionAOf v).str = v.display := by
  cases v with
  | mk e u r => cases e <;> cases r <;> simp [versionAOf, VersionA.str, Version.display]

theorem gapStr_sp : gapStr sp = [' '] := rfl
theorem gapStr_nil : gapStr [] = [] := rfl

theorem archItem_text (g : Gap) (a : Str) : (archItem g a).text = a := by
  unfold archItem
  split <;> simp [Item.text]

theorem archItem_gap (g : Gap) (a : Str) : (archItem g a).gap = g := by
  unfold archItem; split <;> rfl

theorem profItem_text (g : Gap) (p : BuildProfile) : (profItem g p).text = showProfile p := by
  cases p <;> simp [profItem, Item.text, showProfile]

theorem profItem_gap (g : Gap) (p : BuildProfile) : (profItem g p).gap = g := by cases p <;> rfl

theorem canonItems_str {α} (mk : Gap → α → Item) (txt : α → Str)
    (htxt : ∀ g x, (mk g x).text = txt x) (hgap : ∀ g x, (mk g x).gap = g) (xs : List α) :
    ((canonItems mk xs).map Item.str).flatten = Text.join [' '] (xs.map txt) := by
  cases xs with
  | nil => rfl
  | cons x xs =>
    have : ∀ y, (mk sp y).str = [' '] ++ txt y := by
      intro y; simp [Item.str, htxt, hgap, gapStr_sp]
    simp only [canonItems, List.map_cons, List.flatten_cons, List.map_map]
    have e : (xs.map (Item.str ∘ mk sp)) = (xs.map txt).map ([' '] ++ ·) := by
      simp [List.map_map, Function.comp_def, this]
    rw [e, Item.str, htxt, hgap, gapStr_nil, List.nil_append]
    exact flatten_cons_map [' '] (txt x) (xs.map txt)

theorem canonRel_str (r : Lossy.Relation) : (canonRel r).str = showRelation r := by
  cases r with
  | mk name aq archs ver profs =>
    have hp : ∀ ps : List (List BuildProfile),
        ((ps.map fun g => (⟨sp, canonItems profItem g, []⟩ : Bracket)).map (Bracket.str '<' '>')).flatten
          = (ps.map fun g => [' ', '<'] ++ Text.join [' '] (g.map showProfile) ++ ['>']).flatten := by
      intro ps
      induction ps with
      | nil => rfl
      | cons g gs ih =>
        simp only [List.map_cons, List.flatten_cons, ih]
        simp [Bracket.str, gapStr_sp, gapStr_nil, canonItems_str profItem showProfile profItem_text profItem_gap]
    simp only [RelA.str, canonRel, showRelation, hp]
    cases aq <;> cases ver <;> cases archs <;>
      simp [VerPart.str, Bracket.str, gapStr_sp, gapStr_nil, versionAOf_str,
        canonItems_str archItem id archItem_text archItem_gap]

theorem canonEntry_str (e : List Lossy.Relation) :
    (canonEntry e).str = Text.join [' ', '|', ' '] (e.map showRelation) := by
  cases e with
  | nil => rfl
  | cons r rs =>
    simp only [canonEntry, EntryA.str, List.map_map, canonRel_str]
    have e : (rs.map (AltA.str ∘ fun x => (⟨sp, sp, canonRel x⟩ : AltA)))
        = (rs.map showRelation).map ([' ', '|', ' '] ++ ·) := by
      simp [List.map_map, Function.comp_def, AltA.str, gapStr_sp, canonRel_str]
    rw [e]
    exact flatten_cons_map [' ', '|', ' '] (showRelation r) (rs.map showRelation)

/-- the canonical field is written exactly as the lossy printer writes the value -/
theorem canon_str (rs : List (List Lossy.Relation)) : (canon rs).str = showRelations rs := by
  cases rs with
  | nil => rfl
  | cons e es =>
    simp only [canon, FieldA.str, canonSegs, List.map_cons, List.map_map, showRelations]
    have h1 : (Seg.str ⟨[], canonEntry e, []⟩) = Text.join [' ', '|', ' '] (e.map showRelation) := by
      simp [Seg.str, gapStr_nil, canonEntry_str]
    have h2 : (es.map (Seg.str ∘ fun x => (⟨sp, canonEntry x, []⟩ : Seg)))
        = (es.map fun x => Text.join [' ', '|', ' '] (x.map showRelation)).map ([' '] ++ ·) := by
      simp [List.map_map, Function.comp_def, Seg.str, gapStr_sp, gapStr_nil, canonEntry_str]
    rw [h1, h2]
    exact join_cons_map [','] [' '] _ _

/-! ### what it exposes -/

theorem canonItems_map {α β} (mk : Gap → α → Item) (f : Item → β) (g : α → β)
    (h : ∀ gp x, f (mk gp x) = g x) (xs : List α) : (canonItems mk xs).map f = xs.map g := by
  cases xs with
  | nil => rfl
  | cons x xs => simp [canonItems, h, List.map_map, Function.comp_def]

theorem profItem_profile (g : Gap) (p : BuildProfile) : (profItem g p).profile = p := by
  cases p <;> simp [profItem, Item.profile]

theorem validR_iff (r : Lossy.Relation) : validR r = true ↔
    isIdent r.name = true ∧ (∀ a, r.archqual = some a → isIdent a = true)
      ∧ (∀ c v, r.version = some (c, v) → validVersion v = true)
      ∧ (∀ as, r.architectures = some as → ∀ a ∈ as, validArch a = true)
      ∧ (∀ g ∈ r.profiles, ∀ p ∈ g, isIdent (profName p) = true) := by
  cases r with
  | mk name aq archs ver profs =>
    cases aq <;> cases archs <;> rcases ver with _ | ⟨c, v⟩ <;>
      simp [validR, and_assoc, List.all_eq_true, List.isEmpty_iff]

theorem validR_of_validRS {r : Lossy.Relation} (h : validRS r = true) : validR r = true := by
  simp only [validRS, Bool.and_eq_true] at h; exact h.1

theorem validRS_iff (r : Lossy.Relation) : validRS r = true ↔
    isIdent r.name = true ∧ (∀ a, r.archqual = some a → isIdent a = true)
      ∧ (∀ c v, r.version = some (c, v) → validVersion v = true)
      ∧ (∀ as, r.architectures = some as → as ≠ [] ∧ ∀ a ∈ as, validArch a = true)
      ∧ (∀ g ∈ r.profiles, ∀ p ∈ g, isIdent (profName p) = true) := by
  simp only [validRS, Bool.and_eq_true, validR_iff]
  cases r with
  | mk name aq archs ver profs =>
    cases archs with
    | none => simp
    | some as =>
      simp only [Option.some.injEq, forall_eq', Bool.not_eq_true', List.isEmpty_eq_false_iff]
      constructor
      · rintro ⟨⟨h1, h2, h3, h4, h5⟩, hne⟩; exact ⟨h1, h2, h3, ⟨hne, h4⟩, h5⟩
      · rintro ⟨h1, h2, h3, ⟨hne, h4⟩, h5⟩; exact ⟨⟨h1, h2, h3, h4, h5⟩, hne⟩

theorem validRs_of_validRSs {rs : List (List Lossy.Relation)} (h : validRSs rs = true) : validRs rs = true := by
  simp only [validRSs, validRs, List.all_eq_true, Bool.and_eq_true] at h ⊢
  intro e he
  exact ⟨(h e he).1, fun r hr => validR_of_validRS ((h e he).2 r hr)⟩

theorem validVersion_iff (v : Version) : validVersion v = true ↔
    (versionAOf v).ok = true ∧ (versionAOf v).value = v := by
  simp [validVersion]

theorem canonRel_view (r : Lossy.Relation) (h : validR r = true) : (canonRel r).view = r := by
  obtain ⟨_, _, hv, _, _⟩ := (validR_iff r).1 h
  cases r with
  | mk name aq archs ver profs =>
    simp only [RelA.view, canonRel, Lossy.Relation.mk.injEq, true_and]
    refine ⟨?_, ?_, ?_⟩
    · cases archs with
      | none => rfl
      | some as => simp [canonItems_map archItem Item.text id archItem_text]
    · cases ver with
      | none => rfl
      | some cv =>
        obtain ⟨c, v⟩ := cv
        simp [((validVersion_iff v).1 (hv c v rfl)).2]
    · simp only [List.map_map]
      have : ∀ g : List BuildProfile, ((fun g : Bracket => g.items.map Item.profile) ∘
          fun g => (⟨sp, canonItems profItem g, []⟩ : Bracket)) g = g := by
        intro g; simp [canonItems_map profItem Item.profile id profItem_profile]
      simp [List.map_congr_left (fun g _ => this g)]

theorem canon_view (rs : List (List Lossy.Relation)) (h : validRs rs = true) : (canon rs).view = rs := by
  have hent : ∀ e : List Lossy.Relation, e ≠ [] → (∀ r ∈ e, validR r = true) →
      (canonEntry e).view = some e := by
    intro e hne hall
    cases e with
    | nil => exact absurd rfl hne
    | cons r rs =>
      simp only [canonEntry, EntryA.view, List.map_map, Option.some.injEq, List.cons.injEq]
      refine ⟨canonRel_view r (hall r (by simp)), ?_⟩
      have : ∀ x ∈ rs, ((fun a : AltA => a.rel.view) ∘ fun x => (⟨sp, sp, canonRel x⟩ : AltA)) x = x :=
        fun x hx => canonRel_view x (hall x (by simp [hx]))
      simpa using List.map_congr_left this
  simp only [validRs, List.all_eq_true, Bool.and_eq_true, Bool.not_eq_true', List.isEmpty_eq_false_iff] at h
  cases rs with
  | nil => rfl
  | cons e es =>
    simp only [canon, FieldA.view, canonSegs, List.filterMap_cons]
    rw [hent e (h e (by simp)).1 (h e (by simp)).2]
    simp only [List.cons.injEq, true_and]
    exact filterMap_eq_self (fun s : Seg => s.entry.view) (fun x => (⟨sp, canonEntry x, []⟩ : Seg)) es
      (fun x hx => hent x (h x (by simp [hx])).1 (h x (by simp [hx])).2)

theorem canon_noSubstvar (rs : List (List Lossy.Relation)) : (canon rs).hasSubstvar = false := by
  have : ∀ e : List Lossy.Relation, (canonEntry e).isSubstvar = false := by
    intro e; cases e <;> rfl
  cases rs with
  | nil => rfl
  | cons e es => simp [canon, FieldA.hasSubstvar, canonSegs, this, List.any_map, Function.comp_def]

/-! ### well-formed -/

theorem sp_ok : gapOk sp = true := by decide

theorem canonItems_later {α} (mk : Gap → α → Item) (hgap : ∀ g x, (mk g x).gap = g) (xs : List α) :
    laterGapsOk (canonItems mk xs) = true := by
  cases xs with
  | nil => rfl
  | cons x xs => simp [canonItems, laterGapsOk, hgap, sp]

theorem canonRel_ok (r : Lossy.Relation) (h : validR r = true) : (canonRel r).ok = true := by
  obtain ⟨h1, h2, h3, h4, h5⟩ := (validR_iff r).1 h
  rw [RelA.ok_iff]
  refine ⟨h1, ?_, ?_, ?_, ?_⟩
  · intro a ha; exact h2 a (by simpa [canonRel] using ha)
  · intro vp hvp
    cases hver : r.version with
    | none => simp [canonRel, hver] at hvp
    | some cv =>
      obtain ⟨c, v⟩ := cv
      simp [canonRel, hver] at hvp; subst hvp
      simp [VerPart.ok, sp_ok, gapOk, ((validVersion_iff v).1 (h3 c v hver)).1]
  · intro b hb
    cases ha : r.architectures with
    | none => simp [canonRel, ha] at hb
    | some as =>
      simp [canonRel, ha] at hb; subst hb
      rw [Bracket.ok_iff]
      refine ⟨sp_ok, rfl, ?_, canonItems_later archItem archItem_gap as⟩
      intro i hi
      have hall := h4 as ha
      have : ∀ g a, a ∈ as → gapOk g = true → (archItem g a).ok = true := by
        intro g a hm hgo
        have hv := hall a hm
        simp only [validArch] at hv
        unfold archItem at hv ⊢
        split <;> simp_all [Item.ok]
      cases as with
      | nil => simp [canonItems] at hi
      | cons x xs =>
        simp only [canonItems, List.mem_cons, List.mem_map] at hi
        rcases hi with rfl | ⟨y, hy, rfl⟩
        · exact this [] x (by simp) rfl
        · exact this sp y (by simp [hy]) sp_ok
  · intro b hb
    simp only [canonRel, List.mem_map] at hb
    obtain ⟨g, hg, rfl⟩ := hb
    rw [Bracket.ok_iff]
    refine ⟨sp_ok, rfl, ?_, canonItems_later profItem profItem_gap g⟩
    intro i hi
    have hall := h5 g hg
    have : ∀ gp p, p ∈ g → gapOk gp = true → (profItem gp p).ok = true := by
      intro gp p hm hgo
      have := hall p hm
      cases p <;> simp_all [profItem, Item.ok, profName]
    cases g with
    | nil => simp [canonItems] at hi
    | cons x xs =>
      simp only [canonItems, List.mem_cons, List.mem_map] at hi
      rcases hi with rfl | ⟨y, hy, rfl⟩
      · exact this [] x (by simp) rfl
      · exact this sp y (by simp [hy]) sp_ok

theorem canon_wf (rs : List (List Lossy.Relation)) (h : validRs rs = true) : (canon rs).WF := by
  simp only [validRs, List.all_eq_true, Bool.and_eq_true, Bool.not_eq_true', List.isEmpty_eq_false_iff] at h
  have hent : ∀ e : List Lossy.Relation, (∀ r ∈ e, validR r = true) → (canonEntry e).ok = true := by
    intro e hall
    cases e with
    | nil => rfl
    | cons r rs =>
      simp only [canonEntry, EntryA.ok, Bool.and_eq_true, List.all_eq_true, List.mem_map]
      refine ⟨canonRel_ok r (hall r (by simp)), ?_⟩
      rintro a ⟨x, hx, rfl⟩
      simp [AltA.ok, sp_ok, canonRel_ok x (hall x (by simp [hx]))]
  have hseg : ∀ (g : Gap) (e : List Lossy.Relation), gapOk g = true → (∀ r ∈ e, validR r = true) →
      Seg.ok ⟨g, canonEntry e, []⟩ = true := by
    intro g e hg hall
    simp [Seg.ok, hg, gapOk, hent e hall]
  simp only [FieldA.WF, FieldA.ok, canon, List.all_eq_true]
  intro s hs
  cases rs with
  | nil => simp [canonSegs] at hs
  | cons e es =>
    simp only [canonSegs, List.mem_cons, List.mem_map] at hs
    rcases hs with rfl | ⟨x, hx, rfl⟩
    · exact hseg [] e rfl (h e (by simp)).2
    · exact hseg sp x sp_ok (h x (by simp [hx])).2

end Deb822Verif.RelSpec
