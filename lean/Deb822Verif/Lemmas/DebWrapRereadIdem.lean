import Deb822Verif.Lemmas.DebWrapReread
import Deb822Verif.Lemmas.DebWrapIdem
/-!
  Idempotence of wrap-and-sort THROUGH THE PRINTED FORM (property C07, no formatter): the result of
  `deb822Wrap` on the tree of a well-formed document, printed, re-read and reformatted again, prints
  the same text.

  The live result `root'` and the re-read tree differ: comment lines in front of the first field of a
  paragraph are children of the PARAGRAPH node in `root'` and top-level tokens after re-reading; the
  comment lines behind the last paragraph are top-level in `root'` and belong to the last paragraph
  after re-reading.  The second pass is computed on the re-read document `mkDoc zs tr` explicitly
  (`reGroups`, `reZs`): every field is a fixed point of `entryWrap`, the fields and the paragraphs are
  already sorted, and the comment lines come back to the same places.

  The paragraph comparator sees different nodes in the two passes (with / without the leading
  comments): it has to depend on the fields of the paragraphs only (`ParaInv`) — as every comparator
  that looks at field values (`Paragraph::get`) does.
-/
set_option linter.unusedSimpArgs false
set_option linter.unusedVariables false
namespace Deb822Verif.Deb
open Deb822Verif Node Spec

/-! ### sorted lists -/

/-- pairwise in order under the comparator, when there is one -/
def SortedBy (le : Option (DNode → DNode → Bool)) (ns : List DNode) : Prop :=
  ∀ f, le = some f → ns.Pairwise (fun a b => f a b = true)

theorem sortBy_of_sorted (le) (ws : List (List DNode × DNode)) (h : SortedBy le (ws.map (·.2))) :
    sortBy le ws = ws := by
  cases le with
  | none => rfl
  | some f =>
    simp only [sortBy]
    apply List.mergeSort_of_pairwise
    have := h f rfl
    rw [List.pairwise_map] at this
    exact this

theorem sortedBy_sortBy (le) (hle : OrderOK le) (ws : List (List DNode × DNode)) :
    SortedBy le ((sortBy le ws).map (·.2)) := by
  intro f hf
  subst hf
  obtain ⟨htrans, htot⟩ := hle f rfl
  rw [List.pairwise_map]
  simp only [sortBy]
  exact List.pairwise_mergeSort (le := fun a b => f a.2 b.2)
    (fun a b c => htrans a.2 b.2 c.2) (fun a b => htot a.2 b.2) ws

/-- the comparator depends on the fields of the paragraphs only -/
def ParaInv (le : Option (DNode → DNode → Bool)) : Prop :=
  ∀ f, le = some f → ∀ a a' b b', entries a = entries a' → entries b = entries b' → f a b = f a' b'

/-! ### a rendered paragraph that came out of `paragraphWrap` -/

/-- every field is a fixed point of `entryWrap`, the fields are in order -/
structure PG.Fixed (cfg : WrapCfg) (le : Option (DNode → DNode → Bool)) (pg : PG) : Prop where
  fp : ∀ y ∈ pg.groups, entryWrap cfg none y.2.node = some y.2.node
  sorted : SortedBy le (pg.groups.map fun y => y.2.node)

theorem egrp_pre (xs : List (List Str × EntryS)) : ∀ w ∈ xs.map egrp, ∀ c ∈ w.1, isTrivTok c = true := by
  intro w hw
  simp only [List.mem_map] at hw
  obtain ⟨x, _, rfl⟩ := hw
  exact cTok_trivs _

theorem egrp_ent (xs : List (List Str × EntryS)) : ∀ w ∈ xs.map egrp, isEntryNode w.2 = true := by
  intro w hw
  simp only [List.mem_map] at hw
  obtain ⟨x, _, rfl⟩ := hw
  rfl

theorem paraGroups_pg (pg : PG) : paraGroups pg.node = (pg.groups.map egrp, pg.trailing.map cTok) :=
  groupBy_paraOut _ _ (egrp_pre _) (egrp_ent _) (cTok_trivs _)

theorem pg_fixed_of_output (cfg : WrapCfg) (le : Option (DNode → DNode → Bool)) (hle : OrderOK le)
    (p : DNode) (pg : PG) (h : paragraphWrap cfg le none p = some pg.node) : pg.Fixed cfg le := by
  obtain ⟨ws, hpw, hpre, hent, htr, he⟩ := paragraphWrap_spec cfg le none p pg.node h
  have hpre' : ∀ w ∈ sortBy le ws, ∀ c ∈ w.1, isTrivTok c = true :=
    fun w hw => hpre w ((mem_sortBy le ws w).1 hw)
  have hent' : ∀ w ∈ sortBy le ws, isEntryNode w.2 = true :=
    fun w hw => hent w ((mem_sortBy le ws w).1 hw)
  have hg : paraGroups (.node .PARAGRAPH (paraOut (sortBy le ws) (paraGroups p).2))
      = (sortBy le ws, (paraGroups p).2) := groupBy_paraOut _ _ hpre' hent' htr
  have hg2 := paraGroups_pg pg
  rw [he, hg] at hg2
  have hgroups : sortBy le ws = pg.groups.map egrp := (Prod.mk.inj hg2).1
  constructor
  · intro y hy
    have hmem : egrp y ∈ sortBy le ws := by rw [hgroups]; exact List.mem_map_of_mem hy
    obtain ⟨g, _, hr⟩ := Pointwise.mem_right hpw (egrp y) ((mem_sortBy le ws _).1 hmem)
    exact entryWrap_idem cfg g.2 _ hr.2
  · have : (pg.groups.map fun y => y.2.node) = (sortBy le ws).map (·.2) := by
      rw [hgroups, List.map_map]; rfl
    rw [this]
    exact sortedBy_sortBy le hle ws

/-! ### the second pass on one re-read paragraph -/

theorem groupItems_cItems (cs : List Str) (is : List PItem) (cur : List Str) :
    groupItems (cItems cs ++ is) cur = groupItems is (cur ++ cs) := by
  induction cs generalizing cur with
  | nil => simp [cItems]
  | cons c cs ih =>
    simp only [cItems, List.map_cons, List.cons_append, groupItems]
    have := ih (cur ++ [c])
    simp only [cItems] at this
    rw [this]
    simp

theorem groupItems_restItems (xs : List (List Str × EntryS)) (tr : List Str) :
    groupItems (restItems xs ++ cItems tr) [] = (xs, tr) := by
  induction xs with
  | nil =>
    have := groupItems_cItems tr [] []
    simp only [List.append_nil, List.nil_append] at this
    simp [restItems, this, groupItems]
  | cons y xs ih =>
    have hr : restItems (y :: xs) ++ cItems tr = cItems y.1 ++ (PItem.entry y.2 :: (restItems xs ++ cItems tr)) := by
      simp [restItems]
    rw [hr, groupItems_cItems]
    simp only [List.nil_append, groupItems, ih]

/-- the paragraph as the second pass renders it: no comment in front of the first field (they are
    top-level after re-reading), the trailing comments of the document with the last paragraph -/
def PG.rebody (pg : PG) (extra : List Str) : PG :=
  match pg.groups with
  | [] => ⟨[], pg.trailing ++ extra⟩
  | x :: xs => ⟨([], x.2) :: xs, pg.trailing ++ extra⟩

theorem rebody_ok (pg : PG) (hok : pg.OK) (extra : List Str) (hex : ∀ c ∈ extra, NoNl c) :
    (pg.rebody extra).OK := by
  obtain ⟨hne, hent, htr⟩ := hok
  cases hg : pg.groups with
  | nil => exact absurd hg hne
  | cons x xs =>
    simp only [PG.rebody, hg]
    refine ⟨by simp, ?_, ?_⟩
    · intro y hy
      simp only [List.mem_cons] at hy
      rcases hy with rfl | hy
      · obtain ⟨h1, h2, _⟩ := hent x (by rw [hg]; simp)
        exact ⟨h1, h2, by simp⟩
      · exact hent y (by rw [hg]; simp [hy])
    · intro c hc
      simp only [List.mem_append] at hc
      rcases hc with hc | hc
      · exact htr c hc
      · exact hex c hc

theorem rebody_nodes (pg : PG) (extra : List Str) :
    (pg.rebody extra).groups.map (fun y => y.2.node) = pg.groups.map fun y => y.2.node := by
  cases hg : pg.groups with
  | nil => simp [PG.rebody, hg]
  | cons x xs => simp [PG.rebody, hg]

theorem entries_pg (pg : PG) : entries pg.node = pg.groups.map fun y => y.2.node := by
  have := entries_paraOut (pg.groups.map egrp) (pg.trailing.map cTok) (egrp_pre _) (egrp_ent _) (cTok_trivs _)
  rw [PG.node, this, List.map_map]
  rfl

theorem entries_rebody (pg : PG) (extra : List Str) : entries (pg.rebody extra).node = entries pg.node := by
  rw [entries_pg, entries_pg, rebody_nodes]

/-- **the second pass on a re-read paragraph**: the fields are fixed points and in order, so the
    paragraph is rendered as it stands -/
theorem paragraphWrap_body (cfg : WrapCfg) (le : Option (DNode → DNode → Bool)) (pg : PG)
    (hok : pg.OK) (hfix : pg.Fixed cfg le) (extra : List Str) :
    paragraphWrap cfg le none (pg.body extra).node = some (pg.rebody extra).node := by
  obtain ⟨hne, _, _⟩ := hok
  cases hg : pg.groups with
  | nil => exact absurd hg hne
  | cons x xs =>
    have hgroups : paraGroups (pg.body extra).node
        = ((([], x.2) :: xs).map egrp, (pg.trailing ++ extra).map cTok) := by
      rw [paraGroups_node]
      simp only [PG.body, hg, groupItems_restItems]
    have hfp : ∀ a ∈ (([], x.2) :: xs : List (List Str × EntryS)).map egrp,
        a.1 = a.1 ∧ entryWrap cfg none a.2 = some a.2 := by
      intro a ha
      simp only [List.map_cons, List.mem_cons, List.mem_map] at ha
      refine ⟨rfl, ?_⟩
      rcases ha with rfl | ⟨y, hy, rfl⟩
      · exact hfix.fp x (by rw [hg]; simp)
      · exact hfix.fp y (by rw [hg]; simp [hy])
    have hres := paragraphWrap_intro cfg le none (pg.body extra).node ((([], x.2) :: xs).map egrp)
      (by rw [hgroups]; exact pointwise_self _ hfp) (egrp_pre _) (by rw [hgroups]; exact cTok_trivs _)
    rw [hres, hgroups]
    have hsorted : SortedBy le (((([], x.2) :: xs : List (List Str × EntryS)).map egrp).map (·.2)) := by
      have := hfix.sorted
      rw [hg] at this
      have e : ((([], x.2) :: xs : List (List Str × EntryS)).map egrp).map (·.2)
          = (x :: xs).map fun y => y.2.node := by
        simp only [List.map_map, List.map_cons]
        rfl
      rw [e]; exact this
    rw [sortBy_of_sorted le _ hsorted]
    simp only [PG.rebody, hg, PG.node]

/-! ### the document: what came out of `deb822Wrap` -/

theorem zgrp_pre (zs : List (List Str × PG)) : ∀ w ∈ zs.map zgrp, ∀ c ∈ w.1, isTrivTok c = true := by
  intro w hw
  simp only [List.mem_map] at hw
  obtain ⟨z, _, rfl⟩ := hw
  exact cTok_trivs _

theorem zgrp_para (zs : List (List Str × PG)) : ∀ w ∈ zs.map zgrp, isParaNode w.2 = true := by
  intro w hw
  simp only [List.mem_map] at hw
  obtain ⟨z, _, rfl⟩ := hw
  rfl

theorem rootGroups_docOut_zs (zs : List (List Str × PG)) (tr : List Str) :
    rootGroups (.node .ROOT (docOut (zs.map zgrp) (tr.map cTok))) = (zs.map zgrp, tr.map cTok) :=
  groupRoot_docOut _ _ (zgrp_pre zs) (zgrp_para zs) (cTok_trivs _)

theorem zs_fixed_of_output (cfg : WrapCfg) (ele ple : Option (DNode → DNode → Bool))
    (hele : OrderOK ele) (hple : OrderOK ple) (root : DNode) (zs : List (List Str × PG)) (tr : List Str)
    (h : deb822Wrap ple (some (paragraphWrap cfg ele none)) root
      = some (.node .ROOT (docOut (zs.map zgrp) (tr.map cTok)))) :
    (∀ z ∈ zs, z.2.Fixed cfg ele) ∧ SortedBy ple (zs.map fun z => z.2.node) := by
  obtain ⟨ws, hpw, hpre, htr, he⟩ := deb822Wrap_spec ple _ root _ h
  have hsrc : ∀ w ∈ ws, ∃ g : DNode, paragraphWrap cfg ele none g = some w.2 := by
    intro w hw
    obtain ⟨g, _, hr⟩ := Pointwise.mem_right hpw w hw
    exact ⟨g.2, hr.2⟩
  have hpre' : ∀ w ∈ sortBy ple ws, ∀ c ∈ w.1, isTrivTok c = true :=
    fun w hw => hpre w ((mem_sortBy ple ws w).1 hw)
  have hpara' : ∀ w ∈ sortBy ple ws, isParaNode w.2 = true := by
    intro w hw
    obtain ⟨g, hg⟩ := hsrc w ((mem_sortBy ple ws w).1 hw)
    obtain ⟨_, _, _, _, _, hp⟩ := paragraphWrap_spec cfg ele none g w.2 hg
    rw [hp]; rfl
  have hg : rootGroups (.node .ROOT (docOut (sortBy ple ws) (rootGroups root).2))
      = (sortBy ple ws, (rootGroups root).2) := groupRoot_docOut _ _ hpre' hpara' htr
  have hg2 := rootGroups_docOut_zs zs tr
  rw [he, hg] at hg2
  have hgroups : sortBy ple ws = zs.map zgrp := (Prod.mk.inj hg2).1
  constructor
  · intro z hz
    have hmem : zgrp z ∈ sortBy ple ws := by rw [hgroups]; exact List.mem_map_of_mem hz
    obtain ⟨g, hg⟩ := hsrc (zgrp z) ((mem_sortBy ple ws _).1 hmem)
    exact pg_fixed_of_output cfg ele hele g z.2 hg
  · have : (zs.map fun z => z.2.node) = (sortBy ple ws).map (·.2) := by
      rw [hgroups, List.map_map]; rfl
    rw [this]
    exact sortedBy_sortBy ple hple ws

/-! ### the second pass on the re-read document `mkDoc zs tr` -/

theorem gapComments_cGaps (cs : List Str) : gapComments (cGaps cs) = cs := by
  induction cs with
  | nil => rfl
  | cons c cs ih => simp only [cGaps, List.map_cons, gapComments] at ih ⊢; rw [ih]

/-- the groups of the re-read document: the comments in front of a paragraph (those that stood in
    front of its first field included), the paragraph from its first field on -/
def reGroups : List (List Str × PG) → List Str → List (List Str × ParaS)
  | [], _ => []
  | [z], tr => [(zlead z, z.2.body tr)]
  | z :: z' :: zs, tr => (zlead z, z.2.body []) :: reGroups (z' :: zs) tr

/-- … and what the second pass makes of them -/
def reZs : List (List Str × PG) → List Str → List (List Str × PG)
  | [], _ => []
  | [z], tr => [(zlead z, z.2.rebody tr)]
  | z :: z' :: zs, tr => (zlead z, z.2.rebody []) :: reZs (z' :: zs) tr

theorem groupParas_mkParas (z : List Str × PG) (zs : List (List Str × PG)) (tr : List Str) :
    groupParas (mkParas (z :: zs) tr) (zlead z) = (reGroups (z :: zs) tr, []) := by
  induction zs generalizing z with
  | nil => simp [mkParas, groupParas, reGroups, gapComments]
  | cons z' zs ih =>
    simp only [mkParas, groupParas, reGroups, gapComments, gapComments_cGaps]
    rw [ih z']

theorem rootGroups_mkDoc (zs : List (List Str × PG)) (tr : List Str) (hne : zs ≠ []) :
    rootGroups (mkDoc zs tr).tree = ((reGroups zs tr).map pgrp, []) := by
  cases zs with
  | nil => exact absurd rfl hne
  | cons z zs =>
    rw [rootGroups_tree]
    simp only [mkDoc, gapComments_cGaps, groupParas_mkParas, List.map_nil]

theorem reZs_mem (zs : List (List Str × PG)) (tr : List Str) :
    ∀ w ∈ reZs zs tr, ∃ z ∈ zs, ∃ extra, (extra = [] ∨ extra = tr) ∧ w = (zlead z, z.2.rebody extra) := by
  cases zs with
  | nil => intro w hw; cases hw
  | cons z zs =>
    induction zs generalizing z with
    | nil =>
      intro w hw
      simp only [reZs, List.mem_cons, List.not_mem_nil, or_false] at hw
      exact ⟨z, by simp, tr, Or.inr rfl, hw⟩
    | cons z' zs ih =>
      intro w hw
      simp only [reZs, List.mem_cons] at hw
      rcases hw with rfl | hw
      · exact ⟨z, by simp, [], Or.inl rfl, rfl⟩
      · obtain ⟨y, hy, ex, hex, rfl⟩ := ih z' w hw
        exact ⟨y, by simp [hy], ex, hex, rfl⟩

/-- paragraph by paragraph, the second pass turns the re-read groups into `reZs` -/
theorem reGroups_pointwise (cfg : WrapCfg) (ele : Option (DNode → DNode → Bool)) (zs : List (List Str × PG))
    (tr : List Str) (hok : ∀ z ∈ zs, z.2.OK) (hfix : ∀ z ∈ zs, z.2.Fixed cfg ele) :
    Pointwise (fun g w => w.1 = g.1 ∧ applyW (some (paragraphWrap cfg ele none)) g.2 = some w.2)
      ((reGroups zs tr).map pgrp) ((reZs zs tr).map zgrp) := by
  cases zs with
  | nil => trivial
  | cons z zs =>
    induction zs generalizing z with
    | nil =>
      simp only [reGroups, reZs, List.map_cons, List.map_nil]
      exact ⟨⟨rfl, paragraphWrap_body cfg ele z.2 (hok z (by simp)) (hfix z (by simp)) tr⟩, trivial⟩
    | cons z' zs ih =>
      simp only [reGroups, reZs, List.map_cons]
      refine ⟨⟨rfl, paragraphWrap_body cfg ele z.2 (hok z (by simp)) (hfix z (by simp)) []⟩, ?_⟩
      exact ih z' (fun y hy => hok y (by simp [hy])) (fun y hy => hfix y (by simp [hy]))

theorem pairwise_transfer {α} (R : DNode → DNode → Prop) (g : α → DNode) :
    ∀ (l : List α) (l' : List DNode), Pointwise (fun a b => entries (g a) = entries b) l l' →
      (∀ a a' b b', entries a = entries a' → entries b = entries b' → (R a b ↔ R a' b')) →
      (l.map g).Pairwise R → l'.Pairwise R := by
  intro l
  induction l with
  | nil => intro l' h _ _; cases l' with | nil => exact List.Pairwise.nil | cons _ _ => exact h.elim
  | cons a l ih =>
    intro l' h hR hp
    cases l' with
    | nil => exact h.elim
    | cons b l' =>
      obtain ⟨hab, hrest⟩ := h
      simp only [List.map_cons, List.pairwise_cons] at hp
      refine List.Pairwise.cons ?_ (ih l' hrest hR hp.2)
      intro y hy
      obtain ⟨x, hx, hxy⟩ := Pointwise.mem_right hrest y hy
      exact (hR _ _ _ _ hab hxy).1 (hp.1 (g x) (List.mem_map_of_mem hx))

theorem reZs_entries (zs : List (List Str × PG)) (tr : List Str) :
    Pointwise (fun (a : List Str × PG) (b : DNode) => entries a.2.node = entries b) zs
      ((reZs zs tr).map fun w => w.2.node) := by
  cases zs with
  | nil => trivial
  | cons z zs =>
    induction zs generalizing z with
    | nil => simp only [reZs, List.map_cons, List.map_nil]; exact ⟨(entries_rebody _ _).symm, trivial⟩
    | cons z' zs ih =>
      simp only [reZs, List.map_cons]
      exact ⟨(entries_rebody _ _).symm, ih z'⟩

theorem reZs_ok (zs : List (List Str × PG)) (tr : List Str) (hok : ∀ z ∈ zs, z.2.OK ∧ ∀ c ∈ z.1, NoNl c)
    (htr : ∀ c ∈ tr, NoNl c) : ∀ w ∈ reZs zs tr, w.2.OK := by
  intro w hw
  obtain ⟨z, hz, ex, hex, rfl⟩ := reZs_mem zs tr w hw
  apply rebody_ok _ (hok z hz).1
  rcases hex with rfl | rfl
  · simp
  · exact htr

/-- the document the second result prints as is the document the first result prints as -/
theorem mkDoc_reZs (zs : List (List Str × PG)) (tr : List Str) (hne : zs ≠ []) (hok : ∀ z ∈ zs, z.2.OK) :
    (mkDoc (reZs zs tr) []).toks = (mkDoc zs tr).toks := by
  have hbody : ∀ (pg : PG) (ex : List Str), pg.OK → (pg.rebody ex).body [] = pg.body ex := by
    intro pg ex ⟨hne', _, _⟩
    cases hg : pg.groups with
    | nil => exact absurd hg hne'
    | cons x xs => simp [PG.rebody, PG.body, hg]
  have hlead : ∀ (z : List Str × PG) (ex : List Str), z.2.OK → zlead (zlead z, z.2.rebody ex) = zlead z := by
    intro z ex ⟨hne', _, _⟩
    cases hg : z.2.groups with
    | nil => exact absurd hg hne'
    | cons x xs => simp [zlead, PG.rebody, PG.lead, hg]
  have hparas : ∀ (z : List Str × PG) (zs : List (List Str × PG)), (∀ y ∈ z :: zs, y.2.OK) →
      mkParas (reZs (z :: zs) tr) [] = mkParas (z :: zs) tr := by
    intro z zs
    induction zs generalizing z with
    | nil =>
      intro h
      simp only [reZs, mkParas]
      rw [hbody z.2 tr (h z (by simp))]
    | cons z' zs ih =>
      intro h
      have := ih z' (fun y hy => h y (by simp [hy]))
      cases zs with
      | nil =>
        simp only [reZs, mkParas] at this ⊢
        rw [hbody z.2 [] (h z (by simp)), hbody z'.2 tr (h z' (by simp)), hlead z' tr (h z' (by simp))]
      | cons z'' zs' =>
        simp only [reZs, mkParas] at this ⊢
        rw [hbody z.2 [] (h z (by simp)), hlead z' [] (h z' (by simp)), this]
  cases zs with
  | nil => exact absurd rfl hne
  | cons z zs =>
    have hp := hparas z zs hok
    cases zs with
    | nil =>
      simp only [reZs] at hp ⊢
      simp only [mkDoc, DocS.toks, hp, hlead z tr (hok z (by simp))]
    | cons z' zs' =>
      simp only [reZs] at hp ⊢
      simp only [mkDoc, DocS.toks, hp, hlead z [] (hok z (by simp))]

/-- **the second pass on the re-read result prints the same text** -/
theorem deb822Wrap_reread_idem (cfg : WrapCfg) (ele ple : Option (DNode → DNode → Bool))
    (hele : OrderOK ele) (hple : OrderOK ple) (hinv : ParaInv ple)
    (d : DocS) (hwf : d.WF) (hc : IndentOK cfg) :
    ∃ (root' : DNode) (d' : DocS) (root'' : DNode),
      deb822Wrap ple (some (paragraphWrap cfg ele none)) d.tree = some root'
      ∧ d'.WF ∧ root'.text = d'.str
      ∧ deb822Wrap ple (some (paragraphWrap cfg ele none)) d'.tree = some root''
      ∧ root''.text = root'.text := by
  obtain ⟨zs, tr, hzs, htr, hlen, hres⟩ := deb822Wrap_docS cfg ele ple d hwf hc
  have hok : ∀ z ∈ zs, z.2.OK := fun z hz => (hzs z hz).1
  have hd' := mkDoc_wf zs tr hzs htr
  have hleaves : (Node.node Kind.ROOT (docOut (zs.map zgrp) (tr.map cTok))).leaves = (mkDoc zs tr).toks := by
    rw [leaves_node]; exact leaves_docOut zs tr hok
  have htext : (Node.node Kind.ROOT (docOut (zs.map zgrp) (tr.map cTok))).text = (mkDoc zs tr).str := by
    rw [← tokText_leaves, hleaves, tokText_docToks _ hd']
  obtain ⟨hfix, hsorted⟩ := zs_fixed_of_output cfg ele ple hele hple d.tree zs tr hres
  by_cases hne : zs = []
  · -- no paragraph: the re-read tree regroups to the same (empty) groups and the same trailing comments
    subst hne
    have hg : rootGroups (mkDoc [] tr).tree = ([], tr.map cTok) := by
      rw [rootGroups_tree]; simp [mkDoc, groupParas, gapComments_cGaps]
    have h2 := deb822Wrap_intro ple (some (paragraphWrap cfg ele none)) (mkDoc [] tr).tree []
      (by rw [hg]; trivial) (by intro w hw; cases hw) (by rw [hg]; exact cTok_trivs _)
    rw [hg] at h2
    have e : sortBy ple ([] : List (List DNode × DNode)) = [] := by cases ple <;> simp [sortBy]
    rw [e] at h2
    exact ⟨_, mkDoc [] tr, _, hres, hd', htext, h2, rfl⟩
  · have hg := rootGroups_mkDoc zs tr hne
    have h2 := deb822Wrap_intro ple (some (paragraphWrap cfg ele none)) (mkDoc zs tr).tree ((reZs zs tr).map zgrp)
      (by rw [hg]; exact reGroups_pointwise cfg ele zs tr hok hfix) (zgrp_pre _)
      (by rw [hg]; intro c hc'; cases hc')
    rw [hg] at h2
    have hsorted2 : SortedBy ple (((reZs zs tr).map zgrp).map (·.2)) := by
      intro f hf
      have h1 := hsorted f hf
      have e : ((reZs zs tr).map zgrp).map (·.2) = (reZs zs tr).map fun w => w.2.node := by
        rw [List.map_map]; rfl
      rw [e]
      exact pairwise_transfer (fun a b => f a b = true) (fun z : List Str × PG => z.2.node) zs _
        (reZs_entries zs tr)
        (fun a a' b b' ha hb => by rw [hinv f hf a a' b b' ha hb]) h1
    rw [sortBy_of_sorted ple _ hsorted2] at h2
    refine ⟨_, mkDoc zs tr, _, hres, hd', htext, h2, ?_⟩
    have hl2 : (Node.node Kind.ROOT (docOut ((reZs zs tr).map zgrp) ([] : List DNode))).leaves
        = (mkDoc (reZs zs tr) []).toks := by
      rw [leaves_node]
      have := leaves_docOut (reZs zs tr) [] (reZs_ok zs tr hzs htr)
      simpa using this
    rw [← tokText_leaves, hl2, mkDoc_reZs zs tr hne hok, ← hleaves, tokText_leaves]

end Deb822Verif.Deb
