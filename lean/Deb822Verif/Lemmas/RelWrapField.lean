import Deb822Verif.Model.RelWrap
import Deb822Verif.Lemmas.RelWrapOrder
import Deb822Verif.Lemmas.RelCanonField
import Deb822Verif.Lemmas.RelAccessField
import Deb822Verif.Lemmas.SplitOn
/-!
  Wrap-and-sort on the tree of a well-formed field (`RelSpec.FieldA`): the nodes it builds are the
  canonical-layout nodes of `RelSpec.canonRel`, so the accessor facts of C10 apply to them.
-/
set_option linter.unusedSimpArgs false
set_option linter.unusedVariables false
namespace Deb822Verif.Rel.Wrap
open Deb822Verif Rel Node RelSpec DebVersion Lossy

/-! ### `sepBy` -/

theorem sepBy_cons (sep : List RNode) (x : List RNode) (xs : List (List RNode)) :
    sepBy sep (x :: xs) = x ++ (xs.map (sep ++ ·)).flatten := by
  induction xs generalizing x with
  | nil => simp [sepBy]
  | cons y ys ih => simp [sepBy, ih y]

theorem textList_flatten_map {α} (f : α → List RNode) (xs : List α) :
    textList (xs.map f).flatten = (xs.map fun x => textList (f x)).flatten := by
  induction xs with
  | nil => rfl
  | cons x xs ih => simp [ih]

theorem join_cons (sep x : Str) (xs : List Str) :
    Text.join sep (x :: xs) = x ++ (xs.map (sep ++ ·)).flatten := by
  induction xs generalizing x with
  | nil => simp [Text.join]
  | cons y ys ih => simp [Text.join, ih y]

theorem join_splitOn (sep : Char) (s : Str) : Text.join [sep] (Text.splitOn sep s) = s := by
  have h := splitOn_flatten sep s
  cases hs : Text.splitOn sep s with
  | nil => rw [hs] at h; simp at h
  | cons x xs =>
    rw [hs] at h
    rw [join_cons]
    simpa using h

/-- text of items joined by a separator -/
theorem sepBy_text (sep : List RNode) (xs : List (List RNode)) :
    textList (sepBy sep xs) = Text.join (textList sep) (xs.map textList) := by
  cases xs with
  | nil => rfl
  | cons x xs =>
    rw [sepBy_cons, List.map_cons, join_cons]
    simp [textList_flatten_map, List.map_map, Function.comp_def]

/-! ### digits of an epoch -/

theorem digitsVal_eq_ofDigitChars (l : Str) : digitsVal l = Nat.ofDigitChars 10 l 0 := by
  rw [Nat.ofDigitChars_eq_foldl]
  unfold digitsVal
  congr 1
  funext acc c
  show acc * 10 + (c.toNat - 48) = 10 * acc + (c.toNat - '0'.toNat)
  rw [Nat.mul_comm]; rfl

theorem toString_nat_toList (n : Nat) : (toString n).toList = Nat.toDigits 10 n := by
  rw [Nat.toString_eq_repr, Nat.toList_repr]

theorem digitsVal_toDigits (n : Nat) : digitsVal (Nat.toDigits 10 n) = n := by
  rw [digitsVal_eq_ofDigitChars, Nat.ofDigitChars_ten_toDigits]

theorem digitsVal_toString (n : Nat) : digitsVal (toString n).toList = n := by
  rw [toString_nat_toList, digitsVal_eq_ofDigitChars, Nat.ofDigitChars_ten_toDigits]

theorem isAsciiDigit_of_isDigit {c : Char} (h : c.isDigit = true) : isAsciiDigit c = true := by
  unfold Char.isDigit at h
  unfold isAsciiDigit
  simp only [Bool.and_eq_true, decide_eq_true_eq] at h ⊢
  obtain ⟨h1, h2⟩ := h
  constructor
  · exact UInt32.le_iff_toNat_le.1 h1
  · exact UInt32.le_iff_toNat_le.1 h2

theorem isDigits_toString (n : Nat) : isDigits (toString n).toList = true := by
  rw [toString_nat_toList]
  simp only [isDigits, Bool.and_eq_true, Bool.not_eq_true', List.isEmpty_eq_false_iff, List.all_eq_true]
  exact ⟨Nat.toDigits_ne_nil, fun c hc => isAsciiDigit_of_isDigit (Nat.isDigit_of_mem_toDigits (by decide) (by decide) hc)⟩


/-! ### what the accessors return on a well-formed field is a valid value (`RelSpec.validR`) -/

theorem splitRev_join (body : Str) :
    (splitRev body).1 ++ (match (splitRev body).2 with | some r => '-' :: r | none => []) = body := by
  unfold splitRev
  cases hs : splitLastDash body with
  | none => simp
  | some p =>
    obtain ⟨b, a⟩ := p
    simp only
    split
    · simp [splitLastDash_eq hs]
    · simp

/-- the value of a written version prints as a well-formed version text of the same value -/
theorem value_valid (v : VersionA) (hv : v.ok = true) : validVersion v.value = true := by
  obtain ⟨hb, hm, he⟩ := (VersionA.ok_iff v).1 hv
  rw [validVersion_iff]
  have hvA : versionAOf v.value = ⟨v.epoch.map fun e => (toString (digitsVal e)).toList, v.body⟩ := by
    simp only [versionAOf, VersionA.value, VersionA.mk.injEq]
    exact ⟨by simp [Option.map_map, Function.comp_def], splitRev_join v.body⟩
  constructor
  · rw [hvA, VersionA.ok_iff]
    cases hve : v.epoch with
    | none =>
      simp only [VersionA.first, VersionA.more, hve, Option.map_none] at hb hm ⊢
      exact ⟨hb, by simp, by simp⟩
    | some e =>
      simp only [VersionA.first, VersionA.more, hve, Option.map_some] at hb hm ⊢
      refine ⟨isIdent_of_digits (isDigits_toString _), hm, ?_⟩
      intro e' he'
      simp only [Option.some.injEq] at he'
      subst he'
      exact ⟨isDigits_toString _, by rw [digitsVal_toString]; exact (he e hve).2⟩
  · rw [hvA]
    simp [VersionA.value, Option.map_map, Function.comp_def, digitsVal_toString, digitsVal_toDigits]

theorem ident_head_ne_bang {s : Str} (h : isIdent s = true) : ∀ n, s ≠ '!' :: n := by
  intro n e
  subst e
  have := ((isIdent_iff _).1 h).2 '!' (by simp)
  exact absurd this (by decide)

theorem item_text_validArch (i : Item) (hi : isIdent i.name = true) : validArch i.text = true := by
  unfold validArch Item.text
  cases hn : i.neg with
  | true => simpa [archItem] using hi
  | false =>
    simp only [Bool.false_eq_true, if_false, List.nil_append]
    cases hname : i.name with
    | nil => simp [hname, isIdent] at hi
    | cons c cs =>
      have hc : c ≠ '!' := fun e => ident_head_ne_bang hi cs (by rw [hname, e])
      have : archItem [] (c :: cs) = ⟨[], false, c :: cs⟩ := by
        unfold archItem; split
        · rename_i n hh; injection hh with h1 _; exact absurd h1 hc
        · rfl
      rw [this, ← hname]; exact hi

/-- **every relation of a well-formed field is exposed as a valid value** -/
theorem view_valid (r : RelA) (hr : r.ok = true) : validR r.view = true := by
  obtain ⟨hn, haq, hver, harch, hprof⟩ := (RelA.ok_iff r).1 hr
  rw [validR_iff]
  refine ⟨hn, haq, ?_, ?_, ?_⟩
  · intro c v hcv
    simp only [RelA.view] at hcv
    cases hv : r.version with
    | none => simp [hv] at hcv
    | some p =>
      simp only [hv, Option.map_some, Option.some.injEq, Prod.mk.injEq] at hcv
      rw [← hcv.2]
      exact value_valid p.ver ((VerPart.ok_iff p).1 (hver p hv)).2.2.2.2
  · intro as has a ha
    simp only [RelA.view] at has
    cases hb : r.archs with
    | none => simp [hb] at has
    | some b =>
      simp only [hb, Option.map_some, Option.some.injEq] at has
      subst has
      obtain ⟨i, hi, rfl⟩ := List.mem_map.1 ha
      have hok := ((Bracket.ok_iff b).1 (harch b hb)).2.2.1 i hi
      exact item_text_validArch i ((Item.ok_iff i).1 hok).2
  · intro g hg p hp
    simp only [RelA.view] at hg
    obtain ⟨b, hb, rfl⟩ := List.mem_map.1 hg
    obtain ⟨i, hi, rfl⟩ := List.mem_map.1 hp
    have hok := ((Bracket.ok_iff b).1 (hprof b hb)).2.2.1 i hi
    have := ((Item.ok_iff i).1 hok).2
    unfold Item.profile; split <;> simpa [profName] using this


/-! ### the nodes `Relation::wrap_and_sort` builds are the canonical-layout nodes -/

theorem constraintToks_eq (c : VC) : constraintToks c = tks (opToks c) := by
  cases c <;> simp [constraintToks, VC.display, opToks, tks, tk]

theorem colon_not_digit : isAsciiDigit ':' = false := by decide

theorem colon_notin_toString (n : Nat) : ':' ∉ (toString n).toList := by
  intro h
  have := isDigits_toString n
  simp only [isDigits, Bool.and_eq_true, List.all_eq_true] at this
  have := this.2 ':' h
  rw [colon_not_digit] at this; exact absurd this (by decide)

/-- `IDENT first (COLON IDENT)*` as `version_tokens` writes it -/
theorem sepBy_colon (p : Str) (ps : List Str) :
    sepBy [.tok .COLON [':']] ((p :: ps).map fun q => [Node.tok .IDENT q])
      = tks ((.IDENT, p) :: colonTail ps) := by
  rw [List.map_cons, sepBy_cons]
  induction ps with
  | nil => simp [tk]
  | cons q qs ih => simp [tk] at ih ⊢; exact ih

theorem versionToks_eq (v : Version) : versionToks v = tks (versionAOf v).toks := by
  cases v with
  | mk epoch upstream revision =>
    cases epoch with
    | none =>
      simp [versionToks, versionAOf, VersionA.toks, VersionA.first, VersionA.more, Version.display, tks, tk]
      cases revision <;> rfl
    | some e =>
      have : Text.splitOn ':' (Version.display ⟨some e, upstream, revision⟩)
          = (toString e).toList
            :: Text.splitOn ':' (upstream ++ (match revision with | some r => '-' :: r | none => [])) := by
        simp only [Version.display, List.append_assoc]
        exact Text.splitOn_cons ':' _ _ (colon_notin_toString e)
      simp only [versionToks, this, sepBy_colon]
      simp [versionAOf, VersionA.toks, VersionA.first, VersionA.more]
      cases revision <;> rfl

theorem archToks_eq (g : Gap) (a : Str) : tks (archItem g a).toks = tks (gapToks g) ++ archToks a := by
  unfold archItem archToks
  split <;> simp [Item.toks, tks, tk]

theorem termToks_eq (g : Gap) (p : BuildProfile) : tks (profItem g p).toks = tks (gapToks g) ++ termToks p := by
  cases p <;> simp [profItem, termToks, Item.toks, tks, tk]

theorem laterItems_toks {α} (mk : Gap → α → Item) (toks : α → List RNode)
    (h : ∀ g x, tks (mk g x).toks = tks (gapToks g) ++ toks x) (xs : List α) :
    tks ((xs.map fun x => (mk sp x).toks).flatten) = (xs.map fun x => [ws] ++ toks x).flatten := by
  induction xs with
  | nil => rfl
  | cons y ys ih =>
    simp only [List.map_cons, List.flatten_cons, tks_append, h, ih]
    rfl

theorem canonItems_toks {α} (mk : Gap → α → Item) (toks : α → List RNode)
    (h : ∀ g x, tks (mk g x).toks = tks (gapToks g) ++ toks x) (xs : List α) :
    tks (itemsToks (canonItems mk xs)) = sepBy [ws] (xs.map toks) := by
  cases xs with
  | nil => rfl
  | cons x xs =>
    rw [List.map_cons, sepBy_cons]
    simp only [canonItems, itemsToks, List.map_cons, List.flatten_cons, tks_append, h, List.map_map,
      Function.comp_def]
    rw [laterItems_toks mk toks h xs]
    simp [gapToks]

theorem architecturesNode_eq (as : List Str) :
    architecturesNode as = Node.node .ARCHITECTURES (tks (archBody ⟨sp, canonItems archItem as, []⟩)) := by
  simp only [architecturesNode, archBody, Bracket.body, tks_cons, tks_append,
    canonItems_toks archItem archToks archToks_eq]
  simp [tk, gapToks, tks]

theorem profilesNode_eq (g : List BuildProfile) :
    profilesNode g = Node.node .PROFILES (tks (profBody ⟨sp, canonItems profItem g, []⟩)) := by
  simp only [profilesNode, profBody, Bracket.body, tks_cons, tks_append,
    canonItems_toks profItem termToks termToks_eq]
  simp [tk, gapToks, tks]

theorem versionNode_eq (c : VC) (v : Version) :
    versionNode c v = (⟨sp, [], c, sp, versionAOf v, []⟩ : VerPart).node := by
  simp [versionNode, VerPart.node, constraintToks_eq, versionToks_eq, gapToks, sp, GapPiece.tok, tks, tk, ws]

theorem wsTok : tks (gapToks sp) = [ws] := rfl

/-- the relation node built from the accessor values is the parser's node for the canonical
    layout of the same relation -/
theorem buildRel_eq (r : RV) : buildRel r = (canonRel r).node [] := by
  rw [RelA.node_eq']
  cases r with
  | mk name aq archs ver profs =>
    have hD : (profs.map fun g => [ws, profilesNode g]).flatten
        = profsNodes (profs.map fun g => ⟨sp, canonItems profItem g, []⟩) := by
      simp only [profsNodes, List.map_map, Function.comp_def, wsTok, profilesNode_eq]
      rfl
    simp only [buildRel, canonRel, hD, tks_nil, List.append_nil, List.append_assoc]
    cases aq <;> rcases ver with _ | ⟨c, v⟩ <;> cases archs <;>
      simp [aqNodes, verNodes, archNodes, versionNode_eq, architecturesNode_eq, wsTok, tk]

/-- the accessors on a node built by `Relation::wrap_and_sort` return the values it was built from -/
theorem acc_buildRel (r : RV) (h : validR r = true) : accRelation (buildRel r) = some r := by
  rw [buildRel_eq, accRelation_rel (canonRel r) [] (canonRel_ok r h), canonRel_view r h]


/-! ### the text of the built nodes -/

theorem constraintToks_text (c : VC) : textList (constraintToks c) = c.display := by
  cases c <;> simp [constraintToks, VC.display]

theorem versionToks_text (v : Version) : textList (versionToks v) = v.display := by
  unfold versionToks
  split
  · rw [sepBy_text]
    simp only [List.map_map, Function.comp_def, textList_cons, text_tok, textList_nil, List.append_nil]
    simpa using join_splitOn ':' v.display
  · simp

theorem archToks_text (a : Str) : textList (archToks a) = a := by
  unfold archToks; split <;> simp

theorem termToks_text (p : BuildProfile) : textList (termToks p) = showProfile p := by
  cases p <;> simp [termToks, showProfile]

theorem buildRel_text (r : RV) : (buildRel r).text = showRelation r := by
  cases r with
  | mk name aq archs ver profs =>
    have hD : textList (profs.map fun g => [ws, profilesNode g]).flatten
        = (profs.map fun g => [' ', '<'] ++ Text.join [' '] (g.map showProfile) ++ ['>']).flatten := by
      rw [textList_flatten_map]
      congr 1
      apply List.map_congr_left
      intro g _
      simp [profilesNode, ws, sepBy_text, List.map_map, Function.comp_def, termToks_text]
    simp only [buildRel, showRelation, text_node, textList_cons, text_tok, textList_append, hD]
    cases aq <;> rcases ver with _ | ⟨c, v⟩ <;> cases archs <;>
      simp [versionNode, architecturesNode, ws, constraintToks_text, versionToks_text, sepBy_text,
        List.map_map, Function.comp_def, archToks_text]

/-- text of an entry: alternatives joined by ` | ` -/
theorem buildEntry_text (rs : List RNode) :
    (buildEntry rs).text = Text.join [' ', '|', ' '] (rs.map Node.text) := by
  simp [buildEntry, sepBy_text, ws, List.map_map, Function.comp_def]

/-- text of the root: items joined by `, ` -/
theorem buildRoot_text (items : List RNode) :
    (buildRoot items).text = Text.join [',', ' '] (items.map Node.text) := by
  simp [buildRoot, sepBy_text, ws, List.map_map, Function.comp_def]


/-! ### the normalised structure, on the level of the accessor values -/

/-- the comparator of `Entry::wrap_and_sort` on accessor values: `Ord for Relation`, ties by text -/
def relKeyCmp (a b : RV) : Ordering := (relCmp a b).then (strCmp (showRelation a) (showRelation b))
/-- the alternatives of one entry, sorted -/
def sortRels (e : List RV) : List RV := e.mergeSort (leOf relKeyCmp)
/-- an entry as it prints: alternatives joined by ` | ` -/
def entryText (e : List RV) : Str := Text.join [' ', '|', ' '] (e.map showRelation)
/-- the comparator of `Relations::wrap_and_sort`: `Ord for Entry`, ties by text -/
def entryKeyCmp (a b : List RV) : Ordering := (entryCmp a b).then (strCmp (entryText a) (entryText b))
/-- the entries, each sorted, then sorted -/
def sortEntries (V : List (List RV)) : List (List RV) := (V.map sortRels).mergeSort (leOf entryKeyCmp)
/-- the substitution variables sorted by their text -/
def sortStrs (S : List Str) : List Str := S.mergeSort (leOf strCmp)
/-- the ENTRY node for sorted alternatives -/
def buildEntryV (e : List RV) : RNode := buildEntry (e.map buildRel)

theorem relKeyCmp_pre : PreCmp relKeyCmp :=
  PreCmp.andThen relCmp_pre (strCmp_pre.comap showRelation)
theorem entryKeyCmp_pre : PreCmp entryKeyCmp :=
  PreCmp.andThen entryCmp_pre (strCmp_pre.comap entryText)

/-! ### `childNodes` of the built nodes -/

theorem cn_sepBy (k : Kind) (sep : List RNode) (hsep : cn k sep = []) (xs : List (List RNode)) :
    cn k (sepBy sep xs) = (xs.map (cn k)).flatten := by
  cases xs with
  | nil => rfl
  | cons x xs =>
    rw [sepBy_cons, cn_append]
    simp only [List.map_cons, List.flatten_cons]
    congr 1
    induction xs with
    | nil => rfl
    | cons y ys ih => simp [cn_append, hsep, ih]

theorem cn_ws_pipe (k : Kind) : cn k [ws, .tok .PIPE ['|'], ws] = [] := by simp [cn, ws, Node.isNode]
theorem cn_comma_ws (k : Kind) : cn k [.tok .COMMA [','], ws] = [] := by simp [cn, ws, Node.isNode]

theorem cn_singletons (k : Kind) (rs : List RNode) :
    ((rs.map fun r => [r]).map (cn k)).flatten = rs.filter fun c => c.isNode && c.kind == k := by
  induction rs with
  | nil => rfl
  | cons r rs ih =>
    simp only [List.map_cons, List.flatten_cons, ih, List.filter_cons]
    simp only [cn, List.filter_cons, List.filter_nil]
    split <;> rfl

theorem buildRel_isRel (r : RV) : ((buildRel r).isNode && (buildRel r).kind == .RELATION) = true := rfl

theorem relations_buildEntryV (e : List RV) : relations (buildEntryV e) = e.map buildRel := by
  simp only [relations, buildEntryV, buildEntry, childNodes_node, cn_sepBy _ _ (cn_ws_pipe _), cn_singletons]
  apply List.filter_eq_self.2
  intro x hx
  obtain ⟨r, _, rfl⟩ := List.mem_map.1 hx
  exact buildRel_isRel r

/-! ### `mapM` / `mapO` plumbing -/

theorem mapM_some_cons {α β} {g : α → Option β} {a : α} {l : List α} {ys : List β}
    (h : (a :: l).mapM g = some ys) : ∃ y ys', ys = y :: ys' ∧ g a = some y ∧ l.mapM g = some ys' := by
  simp only [List.mapM_cons, Option.bind_eq_bind] at h
  cases hg : g a with
  | none => simp [hg] at h
  | some y =>
    cases hl : l.mapM g with
    | none => simp [hg, hl] at h
    | some ys' =>
      simp [hg, hl] at h
      exact ⟨y, ys', h.symm, rfl, rfl⟩

/-- from the accessor results (an `Option` `mapM`) to the wrap results (an `Outcome` `mapO`) -/
theorem mapO_of_mapM {α β γ} {g : α → Option β} {p : α → Outcome γ} {q : β → γ} {P : β → Prop}
    (hpq : ∀ a y, g a = some y → P y → p a = .ok (q y)) :
    ∀ (l : List α) (ys : List β), l.mapM g = some ys → (∀ y ∈ ys, P y) → mapO p l = .ok (ys.map q) := by
  intro l
  induction l with
  | nil => intro ys h _; simp at h; subst h; rfl
  | cons a l ih =>
    intro ys h hP
    obtain ⟨y, ys', rfl, hy, hrest⟩ := mapM_some_cons h
    simp [mapO, hpq a y hy (hP y (by simp)), ih ys' hrest (fun z hz => hP z (by simp [hz]))]

theorem mapM_some_mem {α β} {g : α → Option β} :
    ∀ (l : List α) (ys : List β), l.mapM g = some ys → ∀ a ∈ l, ∃ y ∈ ys, g a = some y := by
  intro l
  induction l with
  | nil => intro ys _ a ha; simp at ha
  | cons b l ih =>
    intro ys h a ha
    obtain ⟨y, ys', rfl, hy, hrest⟩ := mapM_some_cons h
    rcases List.mem_cons.1 ha with rfl | ha
    · exact ⟨y, by simp, hy⟩
    · obtain ⟨z, hz, hgz⟩ := ih ys' hrest a ha
      exact ⟨z, by simp [hz], hgz⟩

theorem lexCmp_map {α β} (f : α → β) (c : β → β → Ordering) (c' : α → α → Ordering) :
    ∀ (a b : List α), (∀ x ∈ a, ∀ y ∈ b, c (f x) (f y) = c' x y) →
      lexCmp c (a.map f) (b.map f) = lexCmp c' a b := by
  intro a
  induction a with
  | nil => intro b _; cases b <;> rfl
  | cons x xs ih =>
    intro b h
    cases b with
    | nil => rfl
    | cons y ys =>
      simp only [List.map_cons, lexCmp, h x (by simp) y (by simp)]
      rw [ih ys (fun u hu v hv => h u (by simp [hu]) v (by simp [hv]))]

/-! ### one entry -/

theorem relNodeCmp_build (a b : RV) (ha : validR a = true) (hb : validR b = true) :
    relNodeCmp (buildRel a) (buildRel b) = relKeyCmp a b := by
  simp [relNodeCmp, relNodeOrd, acc_buildRel a ha, acc_buildRel b hb, buildRel_text, relKeyCmp]

theorem relNodeOrd_build (a b : RV) (ha : validR a = true) (hb : validR b = true) :
    relNodeOrd (buildRel a) (buildRel b) = relCmp a b := by
  simp [relNodeOrd, acc_buildRel a ha, acc_buildRel b hb]

/-- `Entry::wrap_and_sort` on an entry whose alternatives the accessors read as `vs` -/
theorem entryWrap_of_acc (e : RNode) (vs : List RV) (hacc : (relations e).mapM accRelation = some vs)
    (hv : ∀ v ∈ vs, validR v = true) : entryWrap e = .ok (buildEntryV (sortRels vs)) := by
  have h1 : mapO relationWrap (relations e) = .ok (vs.map buildRel) :=
    mapO_of_mapM (P := fun _ => True) (fun a y hy _ => by simp [relationWrap, hy]) _ _ hacc (fun _ _ => trivial)
  have h2 : ((vs.map buildRel).all fun r => (accRelation r).isSome) = true := by
    simp only [List.all_eq_true, List.mem_map]
    rintro _ ⟨v, hvm, rfl⟩
    simp [acc_buildRel v (hv v hvm)]
  have h3 : (vs.map buildRel).mergeSort (leOf relNodeCmp) = (sortRels vs).map buildRel := by
    unfold sortRels
    rw [List.map_mergeSort (s := leOf relNodeCmp)]
    intro a ha b hb
    simp [leOf, relNodeCmp_build a b (hv a ha) (hv b hb)]
  simp only [entryWrap, h1, h2, if_true, h3, buildEntryV]


/-! ### the whole field -/

theorem buildEntryV_text (e : List RV) : (buildEntryV e).text = entryText e := by
  simp [buildEntryV, buildEntry_text, entryText, List.map_map, Function.comp_def, buildRel_text]

theorem entryNodeCmp_build (a b : List RV) (ha : ∀ v ∈ a, validR v = true) (hb : ∀ v ∈ b, validR v = true) :
    entryNodeCmp (buildEntryV a) (buildEntryV b) = entryKeyCmp a b := by
  simp only [entryNodeCmp, entryNodeOrd, relations_buildEntryV, buildEntryV_text, entryKeyCmp, entryCmp]
  rw [lexCmp_map buildRel relNodeOrd relCmp a b (fun x hx y hy => relNodeOrd_build x y (ha x hx) (hb y hy))]

theorem mem_sortRels {e : List RV} {v : RV} : v ∈ sortRels e ↔ v ∈ e := List.mem_mergeSort

/-- every value the accessors return on a well-formed field is valid, and no entry is empty -/
theorem field_view_valid (f : FieldA) (h : f.WF) :
    ∀ e ∈ f.view, e ≠ [] ∧ ∀ v ∈ e, validR v = true := by
  intro e he
  simp only [FieldA.view, List.mem_filterMap] at he
  obtain ⟨s, hs, hse⟩ := he
  have hok : s.ok = true := by
    have : ∀ s ∈ f.segs, s.ok = true := by simpa [FieldA.WF, FieldA.ok, List.all_eq_true] using h
    exact this s hs
  have hent := ((Seg.ok_iff s).1 hok).2.2.1
  cases hentry : s.entry with
  | empty => simp [hentry, EntryA.view] at hse
  | substvar p ps => simp [hentry, EntryA.view] at hse
  | alts r rest =>
    rw [hentry] at hse hent
    simp only [EntryA.view, Option.some.injEq] at hse
    simp only [EntryA.ok, Bool.and_eq_true, List.all_eq_true] at hent
    subst hse
    refine ⟨by simp, ?_⟩
    intro v hv
    rcases List.mem_cons.1 hv with rfl | hv
    · exact view_valid r hent.1
    · obtain ⟨a, ha, rfl⟩ := List.mem_map.1 hv
      exact view_valid a.rel ((AltA.ok_iff a).1 (hent.2 a ha)).2.2

/-- the SUBSTVAR nodes of the output: those of the input, sorted by their text -/
def sortedSubstNodes (root : RNode) : List RNode :=
  (childNodes .SUBSTVAR root).mergeSort fun a b => leOf strCmp a.text b.text

theorem sortedSubstNodes_text (f : FieldA) :
    (sortedSubstNodes f.tree).map Node.text = sortStrs f.substvars := by
  unfold sortedSubstNodes sortStrs
  rw [List.map_mergeSort (s := leOf strCmp) (fun a _ b _ => rfl)]
  congr 1
  exact substvars_field f

/-- wrap-and-sort on any root whose entries the accessors read as `V` (valid values, no empty
    entry): no panic; the sorted entries (alternatives sorted), then the sorted SUBSTVAR nodes -/
theorem relationsWrap_of_acc (root : RNode) (V : List (List RV))
    (hacc : (entries root).mapM (fun e => (relations e).mapM accRelation) = some V)
    (hval : ∀ e ∈ V, e ≠ [] ∧ ∀ v ∈ e, validR v = true) :
    relationsWrap root
      = .ok (buildRoot ((sortEntries V).map buildEntryV ++ sortedSubstNodes root)) := by
  -- no entry of the tree is without alternatives
  have hfilter : (entries root).filter (fun e => !(relations e).isEmpty) = entries root := by
    apply List.filter_eq_self.2
    intro e he
    obtain ⟨vs, hvs, hm⟩ := mapM_some_mem _ _ hacc e he
    cases hr : relations e with
    | nil => rw [hr] at hm; simp at hm; exact absurd hm (hval vs hvs).1
    | cons x xs => rfl
  have h1 : mapO entryWrap (entries root) = .ok (V.map fun vs => buildEntryV (sortRels vs)) :=
    mapO_of_mapM (P := fun vs => ∀ v ∈ vs, validR v = true)
      (fun e vs hvs hP => entryWrap_of_acc e vs hvs hP) _ _ hacc (fun vs hvs => (hval vs hvs).2)
  have h2 : (V.map fun vs => buildEntryV (sortRels vs)).mergeSort (leOf entryNodeCmp)
      = (sortEntries V).map buildEntryV := by
    unfold sortEntries
    rw [List.map_mergeSort (s := leOf entryNodeCmp), List.map_map]
    · rfl
    · intro a ha b hb
      obtain ⟨a', ha', rfl⟩ := List.mem_map.1 ha
      obtain ⟨b', hb', rfl⟩ := List.mem_map.1 hb
      simp [leOf, entryNodeCmp_build _ _
        (fun v hv => (hval a' ha').2 v (mem_sortRels.1 hv))
        (fun v hv => (hval b' hb').2 v (mem_sortRels.1 hv))]
  simp only [relationsWrap, hfilter, h1, h2, sortedSubstNodes]

/-- **wrap-and-sort on the tree of a well-formed field** -/
theorem relationsWrap_field (f : FieldA) (h : f.WF) :
    relationsWrap f.tree
      = .ok (buildRoot ((sortEntries f.view).map buildEntryV ++ sortedSubstNodes f.tree)) :=
  relationsWrap_of_acc f.tree f.view (accEntries_field f h) (field_view_valid f h)

/-! ### sorting again changes nothing -/

theorem sortRels_sorted (e : List RV) : (sortRels e).Pairwise fun a b => leOf relKeyCmp a b = true :=
  pairwise_sort relKeyCmp_pre e

theorem sortEntries_sorted (V : List (List RV)) :
    (sortEntries V).Pairwise fun a b => leOf entryKeyCmp a b = true :=
  pairwise_sort entryKeyCmp_pre _

theorem sortRels_idem (e : List RV) : sortRels (sortRels e) = sortRels e :=
  List.mergeSort_of_pairwise (sortRels_sorted e)

theorem mem_sortEntries {V : List (List RV)} {e : List RV} (h : e ∈ sortEntries V) :
    ∃ e' ∈ V, e = sortRels e' := by
  unfold sortEntries at h
  obtain ⟨e', he', rfl⟩ := List.mem_map.1 (List.mem_mergeSort.1 h)
  exact ⟨e', he', rfl⟩

theorem sortEntries_idem (V : List (List RV)) : sortEntries (sortEntries V) = sortEntries V := by
  have hmap : (sortEntries V).map sortRels = sortEntries V := by
    conv => rhs; rw [← List.map_id (sortEntries V)]
    apply List.map_congr_left
    intro e he
    obtain ⟨e', _, rfl⟩ := mem_sortEntries he
    exact sortRels_idem e'
  have : sortEntries (sortEntries V) = ((sortEntries V).map sortRels).mergeSort (leOf entryKeyCmp) := rfl
  rw [this, hmap]
  exact List.mergeSort_of_pairwise (sortEntries_sorted V)

theorem sortStrs_idem (S : List Str) : sortStrs (sortStrs S) = sortStrs S :=
  List.mergeSort_of_pairwise (pairwise_sort strCmp_pre S)

theorem sortEntries_valid {V : List (List RV)} (hval : ∀ e ∈ V, e ≠ [] ∧ ∀ v ∈ e, validR v = true) :
    ∀ e ∈ sortEntries V, e ≠ [] ∧ ∀ v ∈ e, validR v = true := by
  intro e he
  obtain ⟨e', he', rfl⟩ := mem_sortEntries he
  refine ⟨?_, fun v hv => (hval e' he').2 v (mem_sortRels.1 hv)⟩
  intro hnil
  have hp : (sortRels e').Perm e' := List.mergeSort_perm _ _
  rw [hnil] at hp
  exact (hval e' he').1 (List.Perm.nil_eq hp).symm


/-! ### reading the output tree back -/

theorem mem_childNodes {k : Kind} {n c : RNode} (h : c ∈ childNodes k n) :
    (c.isNode && c.kind == k) = true := by
  simp only [childNodes, List.mem_filter] at h
  exact h.2

theorem substNodes_kind {root c : RNode} (h : c ∈ sortedSubstNodes root) :
    (c.isNode && c.kind == .SUBSTVAR) = true :=
  mem_childNodes (List.mem_mergeSort.1 h)

theorem buildEntryV_isEntry (e : List RV) : ((buildEntryV e).isNode && (buildEntryV e).kind == .ENTRY) = true := rfl

/-- the ENTRY children of the output are the built entries -/
theorem entries_out (V : List (List RV)) (N : List RNode)
    (hN : ∀ c ∈ N, (c.isNode && c.kind == .SUBSTVAR) = true) :
    entries (buildRoot (V.map buildEntryV ++ N)) = V.map buildEntryV := by
  simp only [entries, buildRoot, childNodes_node, cn_sepBy _ _ (cn_comma_ws _), cn_singletons,
    List.filter_append]
  have h1 : (V.map buildEntryV).filter (fun c => c.isNode && c.kind == .ENTRY) = V.map buildEntryV := by
    apply List.filter_eq_self.2
    intro x hx
    obtain ⟨e, _, rfl⟩ := List.mem_map.1 hx
    exact buildEntryV_isEntry e
  have h2 : N.filter (fun c => c.isNode && c.kind == .ENTRY) = [] := by
    apply List.filter_eq_nil_iff.2
    intro c hc
    have := hN c hc
    cases c with
    | tok k t => simp [Node.isNode]
    | node k cs =>
      simp only [Node.isNode, Node.kind, Bool.true_and, beq_iff_eq] at this ⊢
      subst this; decide
  rw [h1, h2, List.append_nil]

/-- the SUBSTVAR children of the output are the sorted SUBSTVAR nodes -/
theorem substNodes_out (V : List (List RV)) (N : List RNode)
    (hN : ∀ c ∈ N, (c.isNode && c.kind == .SUBSTVAR) = true) :
    childNodes .SUBSTVAR (buildRoot (V.map buildEntryV ++ N)) = N := by
  simp only [buildRoot, childNodes_node, cn_sepBy _ _ (cn_comma_ws _), cn_singletons, List.filter_append]
  have h1 : (V.map buildEntryV).filter (fun c => c.isNode && c.kind == .SUBSTVAR) = [] := by
    apply List.filter_eq_nil_iff.2
    intro x hx
    obtain ⟨e, _, rfl⟩ := List.mem_map.1 hx
    simp [buildEntryV, buildEntry, Node.isNode, Node.kind]
  have h2 : N.filter (fun c => c.isNode && c.kind == .SUBSTVAR) = N := List.filter_eq_self.2 hN
  rw [h1, h2, List.nil_append]

theorem mapM_map_some {α β} (g : α → Option β) (f : β → α) :
    ∀ (l : List β), (∀ x ∈ l, g (f x) = some x) → (l.map f).mapM g = some l := by
  intro l
  induction l with
  | nil => intro _; rfl
  | cons x xs ih =>
    intro h
    simp [List.mapM_cons, h x (by simp), ih (fun y hy => h y (by simp [hy]))]

/-- the accessors on the output read the normalised structure -/
theorem acc_out (V : List (List RV)) (N : List RNode)
    (hN : ∀ c ∈ N, (c.isNode && c.kind == .SUBSTVAR) = true)
    (hval : ∀ e ∈ V, ∀ v ∈ e, validR v = true) :
    (entries (buildRoot (V.map buildEntryV ++ N))).mapM (fun e => (relations e).mapM accRelation) = some V := by
  rw [entries_out V N hN]
  apply mapM_map_some
  intro e he
  rw [relations_buildEntryV]
  exact mapM_map_some accRelation buildRel e (fun v hv => acc_buildRel v (hval e he v hv))

/-- **idempotence on trees**: wrap-and-sort of an output of wrap-and-sort is that same tree -/
theorem relationsWrap_out (root : RNode) (V : List (List RV))
    (hval : ∀ e ∈ V, e ≠ [] ∧ ∀ v ∈ e, validR v = true) :
    let out := buildRoot ((sortEntries V).map buildEntryV ++ sortedSubstNodes root)
    relationsWrap out = .ok out := by
  intro out
  have hN : ∀ c ∈ sortedSubstNodes root, (c.isNode && c.kind == .SUBSTVAR) = true :=
    fun c hc => substNodes_kind hc
  have hval' := sortEntries_valid hval
  have hacc := acc_out (sortEntries V) (sortedSubstNodes root) hN (fun e he => (hval' e he).2)
  rw [relationsWrap_of_acc out (sortEntries V) hacc hval', sortEntries_idem]
  have hs : sortedSubstNodes out = sortedSubstNodes root := by
    show (childNodes .SUBSTVAR out).mergeSort _ = _
    rw [show childNodes .SUBSTVAR out = sortedSubstNodes root from substNodes_out _ _ hN]
    exact List.mergeSort_of_pairwise
      (pairwise_sort (cmp := fun a b : RNode => strCmp a.text b.text) (strCmp_pre.comap Node.text) _)
  rw [hs]

end Deb822Verif.Rel.Wrap
