import Deb822Verif.Lemmas.DebWrapFmt
/-!
  The printed text of `rebuild_value` on the formatter path, line by line (property C07, the clause
  "indents continuation lines by exactly the requested width … or exactly the formatter's output").

  The formatter's output, cut at `'\n'` into lines `L₀` without CR, is lexed to `linesToks L₀`
  (`fmtToks_eq`).  `rebuild_value` strips leading NEWLINE / WHITESPACE tokens — the leading blank lines
  and the leading blanks of the first remaining line (`stripLead`) — and then writes every line that
  follows a line feed as INDENT + the tokens of the line: the indentation FOLLOWED BY THE LINE AS IT IS
  (`bodyText`); a final empty line only says that the output ended with a line feed
  (`dropFinalEmpty`).
-/
set_option linter.unusedSimpArgs false
set_option linter.unusedVariables false
namespace Deb822Verif.Deb
open Deb822Verif Node Spec

/-- value lines that follow a line feed, as they are printed: each behind the indentation, as it
    is, ended by a line feed -/
def bodyText (ind : Nat) (ls : List Str) : Str :=
  (ls.map fun m => List.replicate ind ' ' ++ m ++ ['\n']).flatten

/-- a final empty line is not a line: the text ended with a line feed -/
def dropFinalEmpty : List Str → List Str
  | [] => []
  | [l] => if l = [] then [] else [l]
  | l :: m :: ls => l :: dropFinalEmpty (m :: ls)

/-- a line of spaces and tabs only -/
def blankLine (l : Str) : Bool := (l.dropWhile isIndent).isEmpty

/-- what `rebuild_value` keeps of the lines: the leading blank lines dropped, the first remaining
    line without its leading blanks -/
def stripLead (ls : List Str) : List Str :=
  match ls.dropWhile blankLine with
  | [] => []
  | l :: r => l.dropWhile isIndent :: r

theorem mem_takeWhile_true {α} (p : α → Bool) : ∀ (l : List α) (b : α), b ∈ l.takeWhile p → p b = true := by
  intro l
  induction l with
  | nil => intro b hb; cases hb
  | cons a as ih =>
    intro b hb
    by_cases ha : p a = true
    · simp only [List.takeWhile_cons, ha, if_true, List.mem_cons] at hb
      rcases hb with rfl | hb
      · exact ha
      · exact ih b hb
    · simp [List.takeWhile_cons, ha] at hb

theorem stripLead_spec (ls : List Str) :
    stripLead ls = [] ∨ ∃ pre l r, ls = pre ++ l :: r ∧ (∀ b ∈ pre, blankLine b = true)
      ∧ l.dropWhile isIndent ≠ [] ∧ stripLead ls = l.dropWhile isIndent :: r := by
  unfold stripLead
  cases h : ls.dropWhile blankLine with
  | nil => exact Or.inl rfl
  | cons l r =>
    refine Or.inr ⟨ls.takeWhile blankLine, l, r, ?_, ?_, ?_, rfl⟩
    · rw [← h, List.takeWhile_append_dropWhile]
    · intro b hb; exact mem_takeWhile_true _ _ b hb
    · have := List.head?_dropWhile_not blankLine ls
      rw [h] at this
      simp only [List.head?_cons, Option.all_some, Bool.not_eq_eq_eq_not, Bool.not_true] at this
      intro he
      simp [blankLine, he] at this

theorem lineToks_text (l : Str) : tokText (lineToks l) = l := by
  have h := List.takeWhile_append_dropWhile (p := isIndent) (l := l)
  unfold lineToks optTok
  by_cases h1 : l.takeWhile isIndent = [] <;> by_cases h2 : l.dropWhile isIndent = []
  · rw [h1, h2] at h; simp [h1, h2, tokText]; exact h.symm
  · rw [h1] at h; simp [h1, h2, tokText]; try simpa using h
  · rw [h2] at h; simp [h1, h2, tokText]; try simpa using h
  · simp [h1, h2, tokText]; try exact h

theorem lineToks_nil_iff (l : Str) : lineToks l = [] ↔ l = [] := by
  constructor
  · intro h
    have := lineToks_text l
    rw [h] at this
    simpa [tokText] using this.symm
  · intro h; subst h; rfl

theorem kindV_ne : (Kind.VALUE == Kind.NEWLINE) = false := by decide
theorem kindW_ne : (Kind.WHITESPACE == Kind.NEWLINE) = false := by decide

theorem rbGo_lineToks (ind : Nat) (l : Str) (T : List Tok) (b : Bool) :
    textList (rbGo ind (lineToks l ++ T) b).1
        = (if l = [] then textList (rbGo ind T b).1
           else (if b then List.replicate ind ' ' else []) ++ l ++ textList (rbGo ind T false).1)
      ∧ (rbGo ind (lineToks l ++ T) b).2 = (if l = [] then (rbGo ind T b).2 else (rbGo ind T false).2) := by
  by_cases hl : l = []
  · subst hl; simp [lineToks, optTok]
  · have htext := lineToks_text l
    simp only [hl, if_false]
    unfold lineToks optTok at htext ⊢
    by_cases h1 : l.takeWhile isIndent = [] <;> by_cases h2 : l.dropWhile isIndent = []
    · exfalso
      have := List.takeWhile_append_dropWhile (p := isIndent) (l := l)
      rw [h1, h2] at this; exact hl this.symm
    · simp only [h1, h2, if_true, if_false, List.nil_append, List.cons_append, tokText, List.map_cons,
        List.map_nil, List.flatten_cons, List.flatten_nil, List.append_nil] at htext ⊢
      cases b <;> simp [rbGo, tk, htext, kindV_ne]
    · simp only [h1, h2, if_true, if_false, List.nil_append, List.cons_append, List.append_nil, tokText,
        List.map_cons, List.map_nil, List.flatten_cons, List.flatten_nil] at htext ⊢
      cases b <;> simp [rbGo, tk, htext, kindW_ne]
    · simp only [h1, h2, if_false, List.cons_append, List.nil_append, tokText, List.map_cons, List.map_nil,
        List.flatten_cons, List.flatten_nil, List.append_nil] at htext ⊢
      have e1 : l ++ textList (rbGo ind T false).1 = List.takeWhile isIndent l ++ (List.dropWhile isIndent l ++ textList (rbGo ind T false).1) := by
        rw [← List.append_assoc, htext]
      cases b <;> simp [rbGo, tk, kindV_ne, kindW_ne, e1]
theorem lineToks_kinds (l : Str) : ∀ t ∈ lineToks l, t.1 = .WHITESPACE ∨ t.1 = .VALUE := by
  intro t ht; exact mem_lineToks ht

/-- **the token loop started behind a line feed**: every line behind the indentation, as it is; the
    closing line feed included -/
theorem rbGo_lines_true (ind : Nat) :
    ∀ L : List Str, textList (rbGo ind (linesToks L) true).1 ++ textList (rbClose (rbGo ind (linesToks L) true).2)
      = bodyText ind (dropFinalEmpty L) := by
  intro L
  induction L with
  | nil => simp [linesToks, rbGo, rbClose, bodyText, dropFinalEmpty]
  | cons l r ih =>
    cases r with
    | nil =>
      have h := rbGo_lineToks ind l [] true
      simp only [List.append_nil] at h
      simp only [linesToks]
      by_cases hl : l = []
      · subst hl; simp [lineToks, optTok, rbGo, rbClose, bodyText, dropFinalEmpty]
      · rw [h.1, h.2]
        simp [hl, rbGo, rbClose, bodyText, dropFinalEmpty]
    | cons m r' =>
      have h := rbGo_lineToks ind l ((Kind.NEWLINE, ['\n']) :: linesToks (m :: r')) true
      simp only [linesToks]
      rw [h.1, h.2]
      have hstep : ∀ b : Bool, textList (rbGo ind ((Kind.NEWLINE, ['\n']) :: linesToks (m :: r')) b).1
            = (if b then List.replicate ind ' ' else []) ++ '\n' :: textList (rbGo ind (linesToks (m :: r')) true).1
          ∧ (rbGo ind ((Kind.NEWLINE, ['\n']) :: linesToks (m :: r')) b).2 = (rbGo ind (linesToks (m :: r')) true).2 := by
        intro b
        cases b <;> simp [rbGo, tk]
      by_cases hl : l = []
      · subst hl
        simp only [if_true, (hstep true).1, (hstep true).2]
        have e : bodyText ind (dropFinalEmpty ([] :: m :: r'))
            = List.replicate ind ' ' ++ '\n' :: bodyText ind (dropFinalEmpty (m :: r')) := by
          simp [dropFinalEmpty, bodyText]
        rw [e, ← ih]
        simp [List.append_assoc]
      · simp only [hl, if_false, if_true, (hstep false).1, (hstep false).2, List.nil_append]
        have e : bodyText ind (dropFinalEmpty (l :: m :: r'))
            = List.replicate ind ' ' ++ l ++ '\n' :: bodyText ind (dropFinalEmpty (m :: r')) := by
          simp [dropFinalEmpty, bodyText]
        rw [e, ← ih]
        simp [List.append_assoc]

/-- **the token loop started on the line of the field name** (the tokens do not start with a blank line:
    they were stripped): the first line as it is, the others behind the indentation -/
theorem rbGo_lines_false (ind : Nat) (l : Str) (r : List Str) (hl : l ≠ []) :
    textList (rbGo ind (linesToks (l :: r)) false).1 ++ textList (rbClose (rbGo ind (linesToks (l :: r)) false).2)
      = l ++ '\n' :: bodyText ind (dropFinalEmpty r) := by
  cases r with
  | nil =>
    have h := rbGo_lineToks ind l [] false
    simp only [List.append_nil] at h
    simp only [linesToks]
    rw [h.1, h.2]
    simp [hl, rbGo, rbClose, bodyText, dropFinalEmpty]
  | cons m r' =>
    have h := rbGo_lineToks ind l ((Kind.NEWLINE, ['\n']) :: linesToks (m :: r')) false
    simp only [linesToks]
    rw [h.1, h.2]
    simp only [hl, if_false, Bool.false_eq_true, List.nil_append]
    have h1 : textList (rbGo ind ((Kind.NEWLINE, ['\n']) :: linesToks (m :: r')) false).1
        = '\n' :: textList (rbGo ind (linesToks (m :: r')) true).1 := by simp [rbGo, tk]
    have h2 : (rbGo ind ((Kind.NEWLINE, ['\n']) :: linesToks (m :: r')) false).2
        = (rbGo ind (linesToks (m :: r')) true).2 := by simp [rbGo]
    rw [h1, h2, ← rbGo_lines_true ind (m :: r')]
    simp [List.append_assoc]

/-! ### `rbStrip` on lines -/

theorem lineToks_value (l : Str) (h : l.dropWhile isIndent ≠ []) :
    lineToks (l.dropWhile isIndent) = [(.VALUE, l.dropWhile isIndent)] := by
  have hf := headFails_dropWhile isIndent l
  have h1 : (l.dropWhile isIndent).takeWhile isIndent = [] := by
    cases hd : l.dropWhile isIndent with
    | nil => rfl
    | cons c cs =>
      have := hf c (by rw [hd]; rfl)
      simp [List.takeWhile_cons, this]
  have h2 : (l.dropWhile isIndent).dropWhile isIndent = l.dropWhile isIndent := by
    cases hd : l.dropWhile isIndent with
    | nil => rfl
    | cons c cs =>
      have := hf c (by rw [hd]; rfl)
      simp [List.dropWhile_cons, this]
  unfold lineToks optTok
  rw [h1, h2]
  simp [h]

theorem rbStrip_lineToks_blank (l : Str) (h : blankLine l = true) (T : List Tok) :
    rbStrip (lineToks l ++ T) = rbStrip T := by
  have h' : l.dropWhile isIndent = [] := by simpa [blankLine] using h
  unfold lineToks optTok
  rw [h']
  by_cases h1 : l.takeWhile isIndent = []
  · simp [h1]
  · simp [h1, rbStrip, List.dropWhile_cons]

theorem rbStrip_lineToks_text (l : Str) (h : blankLine l = false) (T : List Tok) :
    rbStrip (lineToks l ++ T) = (.VALUE, l.dropWhile isIndent) :: T := by
  have h' : l.dropWhile isIndent ≠ [] := by
    intro he; simp [blankLine, he] at h
  unfold lineToks optTok
  by_cases h1 : l.takeWhile isIndent = []
  · simp [h1, h', rbStrip, List.dropWhile_cons]
  · simp [h1, h', rbStrip, List.dropWhile_cons]

/-- **stripping the leading NEWLINE / WHITESPACE tokens is `stripLead` on the lines** -/
theorem rbStrip_linesToks : ∀ L : List Str, rbStrip (linesToks L) = linesToks (stripLead L) := by
  intro L
  induction L with
  | nil => rfl
  | cons l r ih =>
    by_cases hb : blankLine l = true
    · have hs : stripLead (l :: r) = stripLead r := by simp [stripLead, List.dropWhile_cons, hb]
      rw [hs, ← ih]
      cases r with
      | nil =>
        simp only [linesToks]
        have := rbStrip_lineToks_blank l hb []
        simpa using this
      | cons m r' =>
        simp only [linesToks]
        rw [rbStrip_lineToks_blank l hb]
        simp [rbStrip, List.dropWhile_cons]
    · have hb' : blankLine l = false := by simpa using hb
      have hne : l.dropWhile isIndent ≠ [] := by intro he; simp [blankLine, he] at hb'
      have hs : stripLead (l :: r) = l.dropWhile isIndent :: r := by
        simp [stripLead, List.dropWhile_cons, hb']
      rw [hs]
      cases r with
      | nil =>
        simp only [linesToks]
        have := rbStrip_lineToks_text l hb' []
        simp only [List.append_nil] at this
        rw [this, lineToks_value l hne]
      | cons m r' =>
        simp only [linesToks]
        rw [rbStrip_lineToks_text l hb', lineToks_value l hne]
        rfl

theorem linesToks_text : ∀ L : List Str, tokText (linesToks L) = Text.join ['\n'] L := by
  intro L
  induction L with
  | nil => rfl
  | cons l r ih =>
    cases r with
    | nil => simp only [linesToks, Text.join]; exact lineToks_text l
    | cons m r' =>
      simp only [linesToks, Text.join]
      have : tokText (lineToks l ++ (Kind.NEWLINE, ['\n']) :: linesToks (m :: r'))
          = tokText (lineToks l) ++ '\n' :: tokText (linesToks (m :: r')) := by
        simp [tokText]
      rw [this, lineToks_text, ih]
      simp

theorem textList_map_tk (ts : List Tok) : textList (ts.map tk) = tokText ts := by
  induction ts with
  | nil => rfl
  | cons t ts ih => simp [tk, tokText] at ih ⊢; rw [ih]

/-- **the printed value of `rebuild_value` on lines** (`L₀` = the formatter's output cut at `'\n'`,
    `L = stripLead L₀`): on one line as it is; or behind a line feed, every line behind the
    indentation; or the first line behind one space and the others behind the indentation -/
theorem rebuildValue_lines_text (L₀ : List Str) (kl ind : Nat) (imm : Bool) (mx : Option Nat) :
    textList (rebuildValue (linesToks L₀) kl ind imm mx) = Text.join ['\n'] L₀ ++ ['\n']
      ∨ textList (rebuildValue (linesToks L₀) kl ind imm mx) = '\n' :: bodyText ind (dropFinalEmpty (stripLead L₀))
      ∨ (stripLead L₀ = [] ∧ textList (rebuildValue (linesToks L₀) kl ind imm mx) = [' ', '\n'])
      ∨ ∃ l r, stripLead L₀ = l :: r ∧ l ≠ []
          ∧ textList (rebuildValue (linesToks L₀) kl ind imm mx) = ' ' :: (l ++ '\n' :: bodyText ind (dropFinalEmpty r)) := by
  unfold rebuildValue
  split
  · left
    simp [textList_map_tk, linesToks_text]
  · split
    · right; left
      rw [rbStrip_linesToks]
      rw [← rbGo_lines_true]
      simp [Node.text, List.append_assoc]
    · right; right
      rw [rbStrip_linesToks]
      rcases stripLead_spec L₀ with h | ⟨pre, l, r, _, _, hne, h⟩
      · left
        refine ⟨h, ?_⟩
        rw [h]
        simp [linesToks, rbGo, rbClose]
      · right
        refine ⟨_, _, h, hne, ?_⟩
        rw [h]
        rw [← rbGo_lines_false ind _ r hne]
        simp [Node.text, List.append_assoc]

/-- the lines of `bodyText`: each line behind the indentation — cut at line feeds, `bodyText` gives
    back exactly these, and an empty piece behind the last line feed -/
theorem bodyText_lines (ind : Nat) :
    ∀ ls : List Str, (∀ l ∈ ls, '\n' ∉ l) →
      Text.splitOn '\n' (bodyText ind ls) = ls.map (List.replicate ind ' ' ++ ·) ++ [[]] := by
  intro ls
  induction ls with
  | nil => intro _; rfl
  | cons l r ih =>
    intro h
    have hl : '\n' ∉ List.replicate ind ' ' ++ l := by
      intro hm
      rcases List.mem_append.1 hm with hm | hm
      · have := (List.mem_replicate.1 hm).2
        cases this
      · exact h l (by simp) hm
    have : bodyText ind (l :: r) = (List.replicate ind ' ' ++ l) ++ '\n' :: bodyText ind r := by
      simp [bodyText]
    rw [this, Text.splitOn_cons '\n' _ _ hl, ih fun x hx => h x (by simp [hx])]
    rfl

end Deb822Verif.Deb
