import Deb822Verif.Lemmas.RelEditBuilt
import Deb822Verif.Lemmas.RelEditFrame
import Deb822Verif.Spec.RelHist
/-!
  `Shaped` (at most one VERSION and one ARCHITECTURES node per relation) is kept by every operation
  of the editing API, on arbitrary trees.
-/
set_option linter.unusedSimpArgs false
set_option linter.unusedVariables false
namespace Deb822Verif.Rel.Edit
open Deb822Verif Rel Node Build Lossy RelSpec

/-! ### the setters keep `relShape` -/

theorem children_onChildren (r : RNode) (f : List RNode → List RNode) : (onChildren r f).children = f r.children := rfl

theorem len_tail_le {α} (l : List α) : l.tail.length ≤ l.length := by cases l <;> simp

theorem relShape_setArchqual (r : RNode) (q : Str) (h : relShape r) : relShape (setArchqual r q) := by
  have e : Node.node Kind.ARCHQUAL [T .COLON ":", .tok .IDENT q] = Node.node .ARCHQUAL [T .COLON ":", .tok .IDENT q] := rfl
  unfold setArchqual
  cases hi : nodeIdx .ARCHQUAL r.children with
  | some i =>
    simp only [relShape, children_onChildren, cn_replace_first hi, Kind.noConfusion, reduceCtorEq, ↓reduceIte]
    exact h
  | none =>
    have hn : ∀ k, k ≠ Kind.ARCHQUAL → cn k [Node.node .ARCHQUAL [T .COLON ":", Node.tok .IDENT q]] = [] := by
      intro k hk; rw [cn_single_node]; simp [Ne.symm hk]
    simp only [relShape, children_onChildren, cn_insertAt_other _ _ _ _ (hn .VERSION (by decide)),
      cn_insertAt_other _ _ _ _ (hn .ARCHITECTURES (by decide))]
    exact h

theorem relShape_setVersion (r : RNode) (vc : Option (VC × Version)) (h : relShape r) : relShape (setVersion r vc) := by
  rcases vc with _ | ⟨c, v⟩
  · simp only [setVersion]
    cases hi : nodeIdx .VERSION r.children with
    | none => exact h
    | some i =>
      have e1 := cn_removeWithWs hi .VERSION (by decide)
      have e2 := cn_removeWithWs hi .ARCHITECTURES (by decide)
      simp only [reduceCtorEq, ↓reduceIte] at e1 e2
      simp only [relShape, children_onChildren, e1, e2]
      exact ⟨Nat.le_trans (len_tail_le _) h.1, h.2⟩
  · have e : versionNode c v = Node.node .VERSION ([T .L_PARENS "(", .node .CONSTRAINT (constraintToks c), T .WHITESPACE " "]
      ++ versionTokens v ++ [T .R_PARENS ")"]) := rfl
    simp only [setVersion]
    cases hi : nodeIdx .VERSION r.children with
    | some i =>
      rw [e]
      simp only [relShape, children_onChildren, cn_replace_first hi, Kind.noConfusion, reduceCtorEq, ↓reduceIte,
        List.length_cons]
      refine ⟨?_, h.2⟩
      have := h.1
      cases hc : cn Kind.VERSION r.children with
      | nil => simp
      | cons x xs => rw [hc] at this; simp at this ⊢; omega
    | none =>
      have hnone := nodeIdx_none hi
      have hv : cn .VERSION [T .WHITESPACE " ", versionNode c v] = [versionNode c v] := by
        rw [e, cn_T, cn_single_node]; simp
      have ha : cn .ARCHITECTURES [T .WHITESPACE " ", versionNode c v] = [] := by
        rw [e, cn_T, cn_single_node]; simp
      simp only [relShape, children_onChildren, cn_insertAt_other _ _ _ _ ha]
      refine ⟨?_, h.2⟩
      rw [cn_insertAt, hv]
      have h1 := cn_split .VERSION r.children (versionAnchor r.children)
      rw [hnone] at h1
      have h2 := List.append_eq_nil_iff.1 h1.symm
      rw [h2.1, h2.2]; simp

theorem relShape_dropConstraint (r : RNode) (h : relShape r) : relShape (dropConstraint r).1 := by
  have : (dropConstraint r).1 = setVersion r none := by
    simp only [dropConstraint, setVersion]; cases nodeIdx Kind.VERSION r.children <;> rfl
  rw [this]; exact relShape_setVersion r none h

theorem relShape_setArchitectures (r : RNode) (as : List Str) (h : relShape r) : relShape (setArchitectures r as) := by
  have e := architecturesNode_eq as
  cases as with
  | nil =>
    simp only [setArchitectures, List.isEmpty_nil, ↓reduceIte]
    cases hi : nodeIdx .ARCHITECTURES r.children with
    | none => exact h
    | some i =>
      have e1 := cn_removeWithWs hi .VERSION (by decide)
      have e2 := cn_removeWithWs hi .ARCHITECTURES (by decide)
      simp only [reduceCtorEq, ↓reduceIte] at e1 e2
      simp only [relShape, children_onChildren, e1, e2]
      exact ⟨h.1, Nat.le_trans (len_tail_le _) h.2⟩
  | cons a as =>
    simp only [setArchitectures, List.isEmpty_cons, Bool.false_eq_true, ↓reduceIte]
    have hv : ∀ k, k ≠ Kind.ARCHITECTURES → cn k [architecturesNode (a :: as)] = [] := by
      intro k hk; rw [e, cn_single_node]; simp [Ne.symm hk]
    have ha : cn .ARCHITECTURES [architecturesNode (a :: as)] = [architecturesNode (a :: as)] := by
      rw [e, cn_single_node]; simp
    cases hi : nodeIdx .ARCHITECTURES r.children with
    | some i =>
      rw [e]
      simp only [relShape, children_onChildren, cn_replace_first hi, Kind.noConfusion, reduceCtorEq, ↓reduceIte,
        List.length_cons]
      refine ⟨h.1, ?_⟩
      have := h.2
      cases hc : cn Kind.ARCHITECTURES r.children with
      | nil => simp
      | cons x xs => rw [hc] at this; simp at this ⊢; omega
    | none =>
      have hnone := nodeIdx_none hi
      have key : ∀ (idx : Nat) (new : List RNode), cn .VERSION new = [] →
          cn .ARCHITECTURES new = [architecturesNode (a :: as)] →
          relShape (onChildren r fun cs => insertAt cs idx new) := by
        intro idx new h1 h2
        simp only [relShape, children_onChildren, cn_insertAt_other _ _ _ _ h1]
        refine ⟨h.1, ?_⟩
        rw [cn_insertAt, h2]
        have h3 := cn_split .ARCHITECTURES r.children idx
        rw [hnone] at h3
        have h4 := List.append_eq_nil_iff.1 h3.symm
        rw [h4.1, h4.2]; simp
      simp only
      cases hp : nodeIdx .PROFILES r.children with
      | some j =>
        exact key j _ (by rw [cn_cons, hv _ (by decide), cn_T]; rfl) (by rw [cn_cons, ha, cn_T]; rfl)
      | none =>
        simp only
        have := key r.children.length [T .WHITESPACE " ", architecturesNode (a :: as)]
          (by rw [cn_T, hv _ (by decide)]) (by rw [cn_T, ha])
        exact this

theorem relShape_addProfile (r : RNode) (g : List BuildProfile) (h : relShape r) : relShape (addProfile r g) := by
  have e : profilesNode g = Node.node .PROFILES
      (T .L_ANGLE "<" :: (sepBy [T .WHITESPACE " "] (g.map termToks) ++ [T .R_ANGLE ">"])) := rfl
  have hn : ∀ k, k ≠ Kind.PROFILES → cn k [T .WHITESPACE " ", profilesNode g] = [] := by
    intro k hk; rw [e, cn_T, cn_single_node]; simp [Ne.symm hk]
  simp only [addProfile, relShape, children_onChildren, cn_insertAt_other _ _ _ _ (hn .VERSION (by decide)),
    cn_insertAt_other _ _ _ _ (hn .ARCHITECTURES (by decide))]
  exact h

/-- `Entry::replace` keeps the shape of the operand -/
theorem relShape_graftWs (old new : RNode) (h : relShape new) : relShape (graftWs old new).1 := by
  obtain ⟨hd, tl, hh, ht, e⟩ := strip_spec new.children
  have key : ∀ k, (k ≠ Kind.WHITESPACE ∧ k ≠ Kind.NEWLINE) → cn k (graftWs old new).1.children = cn k new.children := by
    intro k hk
    have a1 : cn k hd = [] := wsElem_cn k hk hd hh
    have a2 : cn k tl = [] := wsElem_cn k hk tl ht
    have a3 : cn k (old.children.takeWhile isWsElem) = [] := wsElem_cn k hk _ (fun x hx => mem_takeWhile_imp hx)
    have a4 : cn k (old.children.reverse.takeWhile isWsElem).reverse = [] :=
      wsElem_cn k hk _ (fun x hx => mem_takeWhile_imp (by simpa using hx))
    conv => rhs; rw [e]
    simp only [graftWs, children_node, Rel.cn_append, a1, a2, a3, a4]
  have k1 := key .VERSION (by decide)
  have k2 := key .ARCHITECTURES (by decide)
  simp only [relShape, k1, k2]
  exact h

/-! ### `Shaped` under the field operations -/

/-- every relation of the entry has the shape -/
def entryShaped (e : RNode) : Prop := ∀ r ∈ e.children, isNodeOf .RELATION r = true → relShape r

theorem shaped_iff (cs : List RNode) : Shaped cs ↔ ∀ e ∈ cs, entryShaped e := Iff.rfl

theorem mem_replaceAt {cs new : List RNode} {i : Nat} {x : RNode} (h : x ∈ replaceAt cs i new) : x ∈ cs ∨ x ∈ new := by
  simp only [replaceAt, List.mem_append] at h
  rcases h with (h | h) | h
  · exact Or.inl (List.mem_of_mem_take h)
  · exact Or.inr h
  · exact Or.inl (List.mem_of_mem_drop h)

theorem mem_insertAt {cs new : List RNode} {i : Nat} {x : RNode} (h : x ∈ insertAt cs i new) : x ∈ cs ∨ x ∈ new := by
  simp only [insertAt, List.mem_append] at h
  rcases h with (h | h) | h
  · exact Or.inl (List.mem_of_mem_take h)
  · exact Or.inr h
  · exact Or.inl (List.mem_of_mem_drop h)

theorem entryShaped_tok (k : Kind) (t : Str) : entryShaped (.tok k t) := by
  intro r hr; cases hr

theorem shaped_entryEdit (f : Field) (p : Nat) (c : Cut) (lost : Nat → Option Str) (hs : Shaped f.kids)
    (hc : ∀ r ∈ c.kids, isNodeOf .RELATION r = true → relShape r) : Shaped (f.entryEdit p c lost).kids := by
  simp only [Field.entryEdit]
  cases he : f.kids[p]? with
  | none => exact hs
  | some e =>
    intro e' he'
    rcases mem_replaceAt he' with h | h
    · exact hs e' h
    · simp only [List.mem_singleton] at h; subst h; exact hc

theorem shaped_relEdit (f : Field) (p q : Nat) (g : RNode → RNode) (hs : Shaped f.kids)
    (hg : ∀ r, relShape r → relShape (g r)) (hk : ∀ r, (g r).kind = r.kind) :
    Shaped (f.relEdit p q g).kids := by
  simp only [Field.relEdit]
  cases he : f.kids[p]? with
  | none => exact hs
  | some e =>
    cases hr : e.children[q]? with
    | none => simp only [hr]; exact hs
    | some r =>
      simp only [hr]
      intro e' he'
      rcases mem_replaceAt he' with h | h
      · exact hs e' h
      · simp only [List.mem_singleton] at h; subst h
        intro r' hr' hrel
        rcases mem_replaceAt hr' with h2 | h2
        · exact hs e (List.mem_of_getElem? he) r' h2 hrel
        · simp only [List.mem_singleton] at h2; subst h2
          apply hg r
          cases hn : r.isNode with
          | false => cases r <;> simp_all [relShape, Node.children, Node.isNode]
          | true =>
            apply hs e (List.mem_of_getElem? he) r (List.mem_of_getElem? hr)
            have : (g r).kind = Kind.RELATION := isNodeOf_kind hrel
            rw [hk r] at this
            simp [isNodeOf, hn, this]

theorem isNodeOf_of_onChildren {k : Kind} {r : RNode} (f : List RNode → List RNode)
    (h : isNodeOf k (onChildren r f) = true) : r.kind = k := by
  simpa [isNodeOf, onChildren] using h


theorem mem_dropWhile {α} {p : α → Bool} {l : List α} {x : α} (h : x ∈ l.dropWhile p) : x ∈ l :=
  (List.dropWhile_suffix p).subset h

theorem entryRemove_subset (cs : List RNode) (p : Nat) (c : Cut) (h : entryRemove cs p = .ok c) :
    ∀ x ∈ c.kids, x ∈ cs := by
  obtain ⟨A, B, e, hA, hB⟩ := frame_entryRemove cs p c h
  intro x hx
  rw [e, List.mem_append] at hx
  rcases hx with hx | hx
  · exact List.mem_of_mem_take (hA.subset hx)
  · exact List.mem_of_mem_drop (hB.subset hx)

theorem relationRemoveIn_subset (es : List RNode) (q : Nat) (c : Cut) (h : relationRemoveIn es q = .ok c) :
    ∀ x ∈ c.kids, x ∈ es := by
  unfold relationRemoveIn at h
  simp only at h
  intro x hx
  split at h
  · simp only [Outcome.ok.injEq] at h
    rw [← h] at hx
    simp only [List.mem_append, List.mem_reverse] at hx
    rcases hx with hx | hx
    · have h1 := mem_dropWhile hx
      have : x ∈ (es.take q).reverse.dropWhile isWsElem := by
        split at h1
        · rename_i y r heq
          split at h1
          · rw [heq]; exact List.mem_cons_of_mem _ h1
          · exact h1
        · cases h1
      exact List.mem_of_mem_take (by simpa using mem_dropWhile this)
    · exact List.mem_of_mem_drop hx
  · split at h
    · split at h
      · simp only [Outcome.ok.injEq] at h
        rw [← h] at hx
        simp only [List.mem_append] at hx
        rcases hx with hx | hx
        · exact List.mem_of_mem_take hx
        · rename_i x' r' heq _
          have h1 := mem_dropWhile hx
          have : x ∈ (es.drop (q + 1)).dropWhile isWsElem := by rw [heq]; exact List.mem_cons_of_mem _ h1
          exact List.mem_of_mem_drop (mem_dropWhile this)
      · cases h
    · simp only [Outcome.ok.injEq] at h
      rw [← h] at hx
      exact List.mem_of_mem_take hx

theorem shaped_rootEdit (f : Field) (c : Cut) (h : Shaped c.kids) : Shaped (f.rootEdit c).kids := h

theorem shaped_of_subset {cs cs' : List RNode} (h : ∀ x ∈ cs', x ∈ cs) (hs : Shaped cs) : Shaped cs' :=
  fun e he => hs e (h e he)

theorem shaped_removeEntryAt (f f' : Field) (p : Nat) (hs : Shaped f.kids) (h : f.removeEntryAt p = .ok f') :
    Shaped f'.kids := by
  unfold Field.removeEntryAt at h
  cases hc : entryRemove f.kids p with
  | panic s => rw [hc] at h; simp [Outcome.map] at h
  | ok c =>
    rw [hc] at h
    simp only [Outcome.map, Outcome.ok.injEq] at h
    rw [← h]
    exact shaped_of_subset (entryRemove_subset f.kids p c hc) hs

theorem entryKids_shaped (f : Field) (p : Nat) (hs : Shaped f.kids) :
    ∀ r ∈ f.entryKids p, isNodeOf .RELATION r = true → relShape r := by
  unfold Field.entryKids
  cases he : f.kids[p]? with
  | none => intro r hr; cases hr
  | some e => exact hs e (List.mem_of_getElem? he)

theorem shaped_removeRelationAt (f f' : Field) (p q : Nat) (hs : Shaped f.kids)
    (h : f.removeRelationAt p q = .ok f') : Shaped f'.kids := by
  unfold Field.removeRelationAt at h
  cases hc : relationRemoveIn (f.entryKids p) q with
  | panic s => rw [hc] at h; simp [Outcome.bind] at h
  | ok c =>
    rw [hc] at h
    simp only [Outcome.bind] at h
    have h1 : Shaped (f.entryEdit p c).kids :=
      shaped_entryEdit f p c _ hs (fun r hr => entryKids_shaped f p hs r (relationRemoveIn_subset _ q c hc r hr))
    split at h
    · exact shaped_removeEntryAt _ f' p h1 h
    · simp only [Outcome.ok.injEq] at h; rw [← h]; exact h1

theorem shaped_relationsInsert (cs : List RNode) (i : Nat) (entry : RNode) (hs : Shaped cs) (he : entryShaped entry) :
    Shaped (relationsInsert cs i entry).kids := by
  have key : ∀ (pos : Nat) (new : List RNode), (∀ x ∈ new, entryShaped x) → Shaped (insertAt cs pos new) := by
    intro pos new hn e he'
    rcases mem_insertAt he' with h | h
    · exact hs e h
    · exact hn e h
  have ht : ∀ k t, entryShaped (T k t) := fun k t => entryShaped_tok _ _
  unfold relationsInsert
  split
  · exact key _ _ (by intro x hx; simp at hx; rcases hx with rfl | rfl | rfl <;> first | exact he | exact ht _ _)
  · split
    · exact key _ _ (by intro x hx; simp at hx; subst hx; exact he)
    · simp only
      have hb : ∀ b : Bool, ∀ x ∈ (if b = true then [entry] else [T .WHITESPACE " ", entry]), entryShaped x := by
        intro b x hx
        cases b <;> simp at hx
        · rcases hx with rfl | rfl
          · exact ht _ _
          · exact he
        · subst hx; exact he
      split
      · simp only
        exact key _ _ (hb _)
      · exact key _ _ (by intro x hx; simp at hx; rcases hx with rfl | rfl | rfl <;> first | exact he | exact ht _ _)

theorem shaped_replace (f f' : Field) (i : Nat) (entry : RNode) (hs : Shaped f.kids) (he : entryShaped entry)
    (h : f.replace i entry = .ok f') : Shaped f'.kids := by
  unfold Field.replace at h
  split at h
  · cases h
  · simp only [Outcome.ok.injEq] at h
    rw [← h]
    intro e he'
    simp only [Field.rootEdit] at he'
    rcases mem_insertAt he' with h1 | h1
    · rw [List.mem_append] at h1
      rcases h1 with h1 | h1
      · exact hs e (List.mem_of_mem_take h1)
      · exact hs e (List.mem_of_mem_drop h1)
    · simp only [List.mem_singleton] at h1; subst h1; exact he

theorem shaped_entryPushAt (f : Field) (p : Nat) (rel : RNode) (hs : Shaped f.kids) (hr : relShape rel) :
    Shaped (f.entryPushAt p rel).kids := by
  unfold Field.entryPushAt
  apply shaped_entryEdit f p _ _ hs
  have key : ∀ (pos : Nat) (new : List RNode), (∀ x ∈ new, isNodeOf .RELATION x = true → relShape x) →
      ∀ r ∈ insertAt (f.entryKids p) pos new, isNodeOf .RELATION r = true → relShape r := by
    intro pos new hn r hr'
    rcases mem_insertAt hr' with h | h
    · exact entryKids_shaped f p hs r h
    · exact hn r h
  have hnew : ∀ new : List RNode, (∀ x ∈ new, x = rel ∨ x.isNode = false) →
      ∀ x ∈ new, isNodeOf .RELATION x = true → relShape x := by
    intro new hn x hx hrel
    rcases hn x hx with rfl | h
    · exact hr
    · simp [isNodeOf, h] at hrel
  unfold entryPushIn
  simp only
  split
  · simp only
    split
    · exact key _ _ (hnew _ (by intro x hx; simp at hx; exact Or.inl hx))
    · exact key _ _ (hnew _ (by intro x hx; simp at hx; rcases hx with rfl | rfl | rfl | rfl <;> simp [T]))
  · simp only
    split
    · exact key _ _ (hnew _ (by intro x hx; simp at hx; exact Or.inl hx))
    · exact key _ _ (hnew _ (by intro x hx; simp at hx; rcases hx with rfl | rfl | rfl <;> simp [T]))

theorem shaped_entryReplaceAt (f f' : Field) (p j : Nat) (rel : RNode) (hs : Shaped f.kids) (hr : relShape rel)
    (h : f.entryReplaceAt p j rel = .ok f') : Shaped f'.kids := by
  unfold Field.entryReplaceAt at h
  split at h
  · cases h
  · rename_i q hq
    unfold entryReplaceIn at h
    split at h
    · simp [Outcome.map] at h
    · rename_i old hold
      simp only [Outcome.map, Outcome.ok.injEq] at h
      rw [← h]
      apply shaped_entryEdit
      · apply shaped_entryEdit _ _ _ _ hs
        intro r hr' hrel
        simp only [List.mem_append] at hr'
        rcases hr' with h1 | h1
        · exact entryKids_shaped f p hs r (List.mem_of_mem_take h1) hrel
        · exact entryKids_shaped f p hs r (List.mem_of_mem_drop h1) hrel
      · intro r hr' hrel
        rcases mem_replaceAt hr' with h1 | h1
        · exact entryKids_shaped f p hs r h1 hrel
        · simp only [List.mem_singleton] at h1; subst h1
          exact relShape_graftWs old rel hr

/-! ### histories -/

/-- the operands are shaped too -/
def Op.shaped : Op → Prop
  | .entryPush _ rel => relShape rel
  | .entryReplace _ _ rel => relShape rel
  | .insert _ entry => entryShaped entry
  | .push entry => entryShaped entry
  | .replace _ entry => entryShaped entry
  | _ => True

theorem shaped_step (f f' : Field) (op : Op) (hs : Shaped f.kids) (ho : op.shaped) (h : step f op = .ok f') :
    Shaped f'.kids := by
  cases op with
  | setArchqual p q aq =>
    simp only [step, Outcome.ok.injEq] at h; rw [← h]
    exact shaped_relEdit f p q _ hs (fun r => relShape_setArchqual r aq)
      (fun r => by unfold setArchqual; split <;> rfl)
  | setVersion p q vc =>
    simp only [step, Outcome.ok.injEq] at h; rw [← h]
    exact shaped_relEdit f p q _ hs (fun r => relShape_setVersion r vc)
      (fun r => by unfold setVersion; split <;> split <;> rfl)
  | dropConstraint p q =>
    simp only [step, Outcome.ok.injEq] at h; rw [← h]
    exact shaped_relEdit f p q _ hs (fun r => relShape_dropConstraint r)
      (fun r => by unfold dropConstraint; split <;> rfl)
  | setArchitectures p q as =>
    simp only [step, Outcome.ok.injEq] at h; rw [← h]
    exact shaped_relEdit f p q _ hs (fun r => relShape_setArchitectures r as)
      (fun r => by unfold setArchitectures; split <;> split <;> (try split) <;> rfl)
  | addProfile p q g =>
    simp only [step, Outcome.ok.injEq] at h; rw [← h]
    exact shaped_relEdit f p q _ hs (fun r => relShape_addProfile r g) (fun r => rfl)
  | entryPush p rel =>
    simp only [step, Outcome.ok.injEq] at h; rw [← h]
    exact shaped_entryPushAt f p rel hs ho
  | entryReplace p j rel => exact shaped_entryReplaceAt f f' p j rel hs ho h
  | removeRelationAt p q => exact shaped_removeRelationAt f f' p q hs h
  | removeRelation i j =>
    simp only [step, Field.removeRelation] at h
    split at h
    · cases h
    · split at h
      · cases h
      · exact shaped_removeRelationAt f f' _ _ hs h
  | insert i entry =>
    simp only [step, Outcome.ok.injEq] at h; rw [← h]
    exact shaped_relationsInsert f.kids i entry hs ho
  | push entry =>
    simp only [step, Outcome.ok.injEq] at h; rw [← h]
    exact shaped_relationsInsert f.kids _ entry hs ho
  | replace i entry => exact shaped_replace f f' i entry hs ho h
  | removeEntry i =>
    simp only [step, Field.removeEntry] at h
    split at h
    · exact shaped_removeEntryAt f f' _ hs h
    · cases h
  | removeEntryAt p => exact shaped_removeEntryAt f f' p hs h

/-- `Shaped` is an invariant of every history -/
theorem shaped_run (f f' : Field) (ops : List Op) (hs : Shaped f.kids) (ho : ∀ op ∈ ops, op.shaped)
    (h : run f ops = .ok f') : Shaped f'.kids := by
  induction ops generalizing f with
  | nil => simp only [run, Outcome.ok.injEq] at h; rw [← h]; exact hs
  | cons op ops ih =>
    simp only [run] at h
    cases hst : step f op with
    | panic s => rw [hst] at h; simp [Outcome.bind] at h
    | ok f1 =>
      rw [hst] at h
      simp only [Outcome.bind] at h
      exact ih f1 (shaped_step f f1 op hs (ho op (by simp)) hst) (fun o ho' => ho o (by simp [ho'])) h

theorem mem_sepBy_singletons {sep A : List RNode} {x : RNode} (h : x ∈ sepBy sep (A.map fun r => [r])) :
    x ∈ A ∨ x ∈ sep := by
  cases A with
  | nil => cases h
  | cons a A =>
    rw [sepBy_singletons] at h
    simp only [List.mem_cons] at h
    rcases h with rfl | h
    · exact Or.inl (by simp)
    · simp only [postOf, List.mem_flatten, List.mem_map] at h
      obtain ⟨l, ⟨b, hb, rfl⟩, hx⟩ := h
      simp only [List.mem_append, List.mem_singleton] at hx
      rcases hx with hx | rfl
      · exact Or.inr hx
      · exact Or.inl (by simp [hb])

theorem cn_profsPart (k : Kind) (hk : k ≠ .PROFILES) (ps : List (List BuildProfile)) : cn k (profsPart ps) = [] := by
  apply cn_none
  intro y hy
  simp only [profsPart, List.mem_flatten, List.mem_map] at hy
  obtain ⟨l, ⟨p, _, rfl⟩, hy⟩ := hy
  simp only [List.mem_cons, List.not_mem_nil, or_false] at hy
  rcases hy with rfl | rfl
  · rfl
  · simp [isNodeOf, Ne.symm hk]

theorem relShape_built (r : Lossy.Relation) : relShape (toLossless r) := by
  rw [toLossless_eq]
  cases r with
  | mk name aq archs ver profs =>
    simp only [relShape, children_node, builtChildren]
    constructor
    · cases aq <;> rcases ver with _ | ⟨c', v'⟩ <;> rcases archs with _ | _ | ⟨a', as'⟩ <;>
        simp [Build.aqPart, Build.verPart, Build.archPart, cn_cons_node, T,
          cn_profsPart .VERSION (by decide), architecturesNode_eq, versionNode]
    · cases aq <;> rcases ver with _ | ⟨c', v'⟩ <;> rcases archs with _ | _ | ⟨a', as'⟩ <;>
        simp [Build.aqPart, Build.verPart, Build.archPart, cn_cons_node, T,
          cn_profsPart .ARCHITECTURES (by decide), architecturesNode_eq, versionNode]

theorem entryShaped_built (E : List Lossy.Relation) : entryShaped (entryFromLossy E) := by
  intro r hr hrel
  rw [entryFromLossy_eq] at hr
  rcases mem_sepBy_singletons hr with h | h
  · simp only [List.mem_map] at h
    obtain ⟨x, _, rfl⟩ := h
    exact relShape_built x
  · rw [sepR_notRel r h] at hrel; cases hrel

/-- a field the constructors build is `Shaped` -/
theorem built_shaped (rs : List (List Lossy.Relation)) : Shaped (built rs).children := by
  intro e he
  rw [built_children] at he
  rcases mem_sepBy_singletons he with h | h
  · simp only [List.mem_map] at h
    obtain ⟨E, _, rfl⟩ := h
    exact entryShaped_built E
  · simp only [sepE, List.mem_cons, List.not_mem_nil, or_false] at h
    rcases h with rfl | rfl <;> exact entryShaped_tok _ _

end Deb822Verif.Rel.Edit
