import Deb822Verif.Model.CtlWrap
import Deb822Verif.Props.C13
/-!
  `format_field` on relationship fields, through C13: on the text of a well-formed field
  (`RelSpec.FieldA`) it returns the canonical text; the canonical text is a single line that does not
  start with a space; formatting the canonical text again — also with one space in front, which is
  what a second wrap-and-sort pass hands to the formatter — returns it unchanged.
-/
namespace Deb822Verif.Ctl
open Deb822Verif Deb Rel RelSpec Rel.Wrap Props.C13

theorem uploaders_not_rel : relFields.contains kUploaders = false := by decide

theorem rel_ne_uploaders (k : Str) (hk : relFields.contains k = true) : k ≠ kUploaders := by
  intro e; subst e; rw [uploaders_not_rel] at hk; cases hk

/-- the canonical text of a well-formed field -/
def canonOf (f : FieldA) : Str := canonText (outView f) (outSubst f)

/-- **`format_field` on a well-formed relationship field**: no panic, the canonical text -/
theorem formatFieldO_rel (k : Str) (hk : relFields.contains k = true) (f : FieldA) (hwf : f.WF) :
    formatFieldO k f.str = some (canonOf f) := by
  unfold formatFieldO
  rw [if_neg (rel_ne_uploaders k hk), if_pos hk, Props.C10.C10_parse_inverts f hwf true (Or.inl rfl)]
  simp only [List.isEmpty_nil, Bool.not_true, Bool.false_eq_true, ↓reduceIte, C13_total f hwf, outTree_text]
  rfl

theorem formatField_rel (k : Str) (hk : relFields.contains k = true) (f : FieldA) (hwf : f.WF) :
    formatField k f.str = canonOf f := by
  simp [formatField, formatFieldO_rel k hk f hwf]

/-- any well-formed field with the normalised structure of `f` is formatted to the canonical text
    of `f` (sorting twice is sorting once) -/
theorem formatFieldO_same_view (k : Str) (hk : relFields.contains k = true) (f g : FieldA) (hg : g.WF)
    (hv : g.view = outView f) (hs : g.substvars = outSubst f) :
    formatFieldO k g.str = some (canonOf f) := by
  rw [formatFieldO_rel k hk g hg]
  unfold canonOf outView outSubst
  rw [hv, hs]
  unfold outView outSubst
  rw [sortEntries_idem, sortStrs_idem]

/-- **`format_field` is idempotent on relationship fields**: its output is formatted to itself -/
theorem formatFieldO_canon (k : Str) (hk : relFields.contains k = true) (f : FieldA) (hwf : f.WF) :
    formatFieldO k (canonOf f) = some (canonOf f) := by
  have h1 : (outField f).str = canonOf f := by rw [outField_str, outTree_text]; rfl
  have := formatFieldO_same_view k hk f (outField f) (outField_wf f hwf) (outField_view f hwf)
    (outField_substvars f)
  rw [h1] at this
  exact this

/-! ### one space in front -/

/-- the field with a space in front of its first segment -/
def leadSp (g : FieldA) : FieldA :=
  match g.segs with
  | [] => g
  | s :: ss => ⟨{ s with pre := sp } :: ss⟩

theorem join_cons_app (sep a x : Str) (xs : List Str) :
    Text.join sep ((a ++ x) :: xs) = a ++ Text.join sep (x :: xs) := by
  cases xs with
  | nil => rfl
  | cons y ys => simp [Text.join]

theorem outField_segs (f : FieldA) :
    (outField f).segs = segsOf ((outView f).map canonEntry ++ (sortSubstA (substA f)).map substEntry) := rfl

theorem leadSp_outField (f : FieldA) (hwf : f.WF) :
    (leadSp (outField f)).WF ∧ (leadSp (outField f)).view = outView f
      ∧ (leadSp (outField f)).substvars = outSubst f
      ∧ ((outField f).segs ≠ [] → (leadSp (outField f)).str = ' ' :: (outField f).str) := by
  have hwf' := outField_wf f hwf
  have hview := outField_view f hwf
  have hsub := outField_substvars f
  unfold leadSp
  cases hsegs : (outField f).segs with
  | nil =>
    simp only
    exact ⟨hwf', hview, hsub, fun h => absurd rfl h⟩
  | cons s ss =>
    simp only
    have hspre : s.pre = [] := by
      have := outField_segs f
      rw [hsegs] at this
      cases hes : ((outView f).map canonEntry ++ (sortSubstA (substA f)).map substEntry) with
      | nil => rw [hes] at this; simp [segsOf] at this
      | cons e es =>
        rw [hes] at this
        simp only [segsOf, List.cons.injEq] at this
        rw [this.1]
    have hallok : ∀ x ∈ s :: ss, x.ok = true := by
      have : (outField f).ok = true := hwf'
      simp only [FieldA.ok, hsegs, List.all_eq_true] at this
      exact this
    refine ⟨?_, ?_, ?_, ?_⟩
    · show (FieldA.ok _) = true
      simp only [FieldA.ok, List.all_cons, Bool.and_eq_true, List.all_eq_true]
      refine ⟨?_, fun x hx => hallok x (by simp [hx])⟩
      have hs := hallok s (by simp)
      simp only [Seg.ok, Bool.and_eq_true] at hs ⊢
      exact ⟨⟨⟨sp_ok, hs.1.1.2⟩, hs.1.2⟩, hs.2⟩
    · rw [← hview]
      simp only [FieldA.view, hsegs, List.filterMap_cons]
    · rw [← hsub]
      simp only [FieldA.substvars, hsegs, List.filterMap_cons]
    · intro _
      simp only [FieldA.str, hsegs, List.map_cons, Seg.str, hspre, gapStr_nil, List.nil_append, gapStr_sp]
      rw [List.append_assoc, join_cons_app]
      rfl

/-- the canonical text with one space in front — the raw text of the reformatted field when its
    value stands behind `": "` — is formatted to the canonical text -/
theorem formatFieldO_sp_canon (k : Str) (hk : relFields.contains k = true) (f : FieldA) (hwf : f.WF)
    (hne : canonOf f ≠ []) : formatFieldO k (' ' :: canonOf f) = some (canonOf f) := by
  have h1 : (outField f).str = canonOf f := by rw [outField_str, outTree_text]; rfl
  obtain ⟨h2, h3, h4, h5⟩ := leadSp_outField f hwf
  have hsegs : (outField f).segs ≠ [] := by
    intro hnil
    apply hne
    rw [← h1]
    simp [FieldA.str, hnil, Text.join]
  have := formatFieldO_same_view k hk f _ h2 h3 h4
  rw [h5 hsegs, h1] at this
  exact this

/-! ### the canonical text is one line and does not start with a space -/

/-- characters that can occur in a canonical text -/
def canonChar (c : Char) : Bool :=
  isIdentChar c || [' ', ',', '|', ':', '(', ')', '[', ']', '<', '>', '=', '!', '$', '{', '}'].contains c

theorem canonChar_plain (c : Char) (h : canonChar c = true) : isNewline c = false ∧ c ≠ '\t' := by
  constructor
  · cases hn : isNewline c with
    | false => rfl
    | true =>
      simp only [isNewline, Bool.or_eq_true, beq_iff_eq] at hn
      rcases hn with rfl | rfl <;> simp [canonChar, isIdentChar, isAsciiAlnum] at h
  · intro e; subst e; simp [canonChar, isIdentChar, isAsciiAlnum] at h

theorem mem_join {sep : Str} {xs : List Str} {c : Char} (h : c ∈ Text.join sep xs) :
    c ∈ sep ∨ ∃ x ∈ xs, c ∈ x := by
  induction xs with
  | nil => simp [Text.join] at h
  | cons x r ih =>
    cases r with
    | nil => exact Or.inr ⟨x, by simp, by simpa [Text.join] using h⟩
    | cons y r' =>
      simp only [Text.join, List.mem_append] at h
      rcases h with (h | h) | h
      · exact Or.inr ⟨x, by simp, h⟩
      · exact Or.inl h
      · rcases ih h with h | ⟨z, hz, hc⟩
        · exact Or.inl h
        · exact Or.inr ⟨z, by simp [hz], hc⟩

theorem ident_chars (s : Str) (h : isIdent s = true) : ∀ c ∈ s, canonChar c = true := by
  intro c hc
  simp only [isIdent, Bool.and_eq_true, List.all_eq_true] at h
  simp [canonChar, h.2 c hc]

theorem digit_chars (s : Str) (h : isDigits s = true) : ∀ c ∈ s, canonChar c = true := by
  intro c hc
  simp only [isDigits, Bool.and_eq_true, List.all_eq_true] at h
  have := h.2 c hc
  simp only [isAsciiDigit, Bool.and_eq_true, decide_eq_true_eq] at this
  have h2 : isAsciiAlnum c = true := by
    simp only [isAsciiAlnum, Bool.or_eq_true, Bool.and_eq_true, decide_eq_true_eq]
    exact Or.inl (Or.inl this)
  simp [canonChar, isIdentChar, h2]

theorem vc_chars (vc : VC) : ∀ c ∈ vc.display, canonChar c = true := by
  cases vc <;> decide

theorem version_chars (v : Version) (h : validVersion v = true) : ∀ c ∈ v.display, canonChar c = true := by
  rw [← versionAOf_str]
  obtain ⟨hb, hm, _⟩ := (VersionA.ok_iff _).1 ((validVersion_iff v).1 h).1
  intro c hc
  rw [VersionA.str_eq] at hc
  simp only [List.mem_append, List.mem_flatten, List.mem_map] at hc
  rcases hc with hc | ⟨l, ⟨q, hq, rfl⟩, hcl⟩
  · exact ident_chars _ hb c hc
  · rcases List.mem_cons.1 hcl with rfl | hcq
    · decide
    · exact ident_chars q (hm q hq) c hcq

theorem arch_chars (a : Str) (h : validArch a = true) : ∀ c ∈ a, canonChar c = true := by
  unfold validArch archItem at h
  split at h
  · rename_i n
    intro c hc
    simp only [List.mem_cons] at hc
    rcases hc with rfl | hc
    · decide
    · exact ident_chars n h c hc
  · exact ident_chars a h

theorem prof_chars (p : BuildProfile) (h : isIdent (profName p) = true) :
    ∀ c ∈ Lossy.showProfile p, canonChar c = true := by
  cases p with
  | Enabled n => exact ident_chars n h
  | Disabled n =>
    intro c hc
    simp only [Lossy.showProfile, List.mem_cons] at hc
    rcases hc with rfl | hc
    · decide
    · exact ident_chars n h c hc

theorem showRelation_chars (r : RV) (h : validR r = true) :
    ∀ c ∈ Lossy.showRelation r, canonChar c = true := by
  simp only [validR, Bool.and_eq_true] at h
  obtain ⟨⟨⟨⟨hn, haq⟩, hv⟩, ha⟩, hp⟩ := h
  intro c hc
  simp only [Lossy.showRelation, List.mem_append] at hc
  rcases hc with (((hc | hc) | hc) | hc) | hc
  · exact ident_chars _ hn c hc
  · cases hq : r.archqual with
    | none => rw [hq] at hc; simp at hc
    | some q =>
      rw [hq] at hc haq
      simp only [List.mem_cons] at hc
      rcases hc with rfl | hc
      · decide
      · exact ident_chars q haq c hc
  · cases hvv : r.version with
    | none => rw [hvv] at hc; simp at hc
    | some cv =>
      obtain ⟨vc, v⟩ := cv
      rw [hvv] at hc hv
      simp only [List.mem_append, List.mem_cons, List.not_mem_nil, or_false] at hc
      rcases hc with (((hc | hc) | hc) | hc) | hc
      · rcases hc with rfl | rfl <;> decide
      · exact vc_chars vc c hc
      · subst hc; decide
      · exact version_chars v hv c hc
      · subst hc; decide
  · cases haa : r.architectures with
    | none => rw [haa] at hc; simp at hc
    | some as =>
      rw [haa] at hc ha
      simp only [List.mem_append, List.mem_cons, List.not_mem_nil, or_false] at hc
      rcases hc with (hc | hc) | hc
      · rcases hc with rfl | rfl <;> decide
      · rcases mem_join hc with hc | ⟨a, ham, hca⟩
        · simp only [List.mem_cons, List.not_mem_nil, or_false] at hc; subst hc; decide
        · exact arch_chars a (List.all_eq_true.1 ha a ham) c hca
      · subst hc; decide
  · simp only [List.mem_flatten, List.mem_map] at hc
    obtain ⟨l, ⟨g, hg, rfl⟩, hcl⟩ := hc
    simp only [List.mem_append, List.mem_cons, List.not_mem_nil, or_false] at hcl
    rcases hcl with (hcl | hcl) | hcl
    · rcases hcl with rfl | rfl <;> decide
    · rcases mem_join hcl with hcl | ⟨x, hx, hcx⟩
      · simp only [List.mem_cons, List.not_mem_nil, or_false] at hcl; subst hcl; decide
      · simp only [List.mem_map] at hx
        obtain ⟨p, hpm, rfl⟩ := hx
        have := List.all_eq_true.1 (List.all_eq_true.1 hp g hg) p hpm
        exact prof_chars p this c hcx
    · subst hcl; decide

theorem subst_chars (x : SubstA) (h : substOk x = true) : ∀ c ∈ substTextOf x, canonChar c = true := by
  simp only [substOk, Bool.and_eq_true, List.all_eq_true] at h
  intro c hc
  simp only [substTextOf, substEntry, EntryA.str, List.mem_cons, List.mem_append, List.mem_flatten,
    List.mem_map, List.not_mem_nil, or_false] at hc
  rcases hc with rfl | rfl | (hc | ⟨l, ⟨q, hq, rfl⟩, hcl⟩) | rfl
  · decide
  · decide
  · exact ident_chars _ h.1 c hc
  · simp only [List.mem_cons] at hcl
    rcases hcl with rfl | hcl
    · decide
    · exact ident_chars q (h.2 q hq) c hcl
  · decide

/-- every character of the canonical text of a well-formed field is an identifier character, a
    space or one of the punctuation marks of the grammar: no line break, no tab -/
theorem canonOf_chars (f : FieldA) (hwf : f.WF) : ∀ c ∈ canonOf f, canonChar c = true := by
  have hval := sortEntries_valid (field_view_valid f hwf)
  intro c hc
  rcases mem_join hc with hc | ⟨x, hx, hcx⟩
  · simp only [List.mem_cons, List.not_mem_nil, or_false] at hc
    rcases hc with rfl | rfl <;> decide
  · simp only [List.mem_append, List.mem_map] at hx
    rcases hx with ⟨e, he, rfl⟩ | hx
    · rcases mem_join hcx with hcx | ⟨y, hy, hcy⟩
      · simp only [List.mem_cons, List.not_mem_nil, or_false] at hcx
        rcases hcx with rfl | rfl | rfl <;> decide
      · simp only [List.mem_map] at hy
        obtain ⟨r, hr, rfl⟩ := hy
        exact showRelation_chars r ((hval e he).2 r hr) c hcy
    · have hx' : x ∈ f.substvars := (List.mergeSort_perm _ _).mem_iff.1 hx
      rw [substvars_eq] at hx'
      simp only [List.mem_map] at hx'
      obtain ⟨sa, hsa, rfl⟩ := hx'
      exact subst_chars sa (substA_ok f hwf sa hsa) c hcx

theorem head_join (sep x : Str) (xs : List Str) (hx : x ≠ []) : (Text.join sep (x :: xs)).head? = x.head? := by
  cases x with
  | nil => exact absurd rfl hx
  | cons c cs => cases xs <;> simp [Text.join]

/-- the canonical text does not start with a space or a tab -/
theorem canonOf_head (f : FieldA) (hwf : f.WF) : ∀ c, (canonOf f).head? = some c → isIndent c = false := by
  have hval := sortEntries_valid (field_view_valid f hwf)
  intro c hc
  unfold canonOf canonText at hc
  cases hV : outView f with
  | nil =>
    rw [hV] at hc
    simp only [List.map_nil, List.nil_append] at hc
    cases hS : outSubst f with
    | nil => rw [hS] at hc; simp [Text.join] at hc
    | cons s ss =>
      rw [hS] at hc
      have hs : s ∈ f.substvars := (List.mergeSort_perm _ _).mem_iff.1 (by
        show s ∈ outSubst f; rw [hS]; simp)
      rw [substvars_eq] at hs
      simp only [List.mem_map] at hs
      obtain ⟨sa, _, rfl⟩ := hs
      rw [head_join _ _ _ (by simp [substTextOf, substEntry, EntryA.str])] at hc
      simp only [substTextOf, substEntry, EntryA.str, List.head?_cons, Option.some.injEq] at hc
      subst hc; decide
  | cons e es =>
    rw [hV] at hc
    have he := hval e (by show e ∈ outView f; rw [hV]; simp)
    cases hee : e with
    | nil => exact absurd hee he.1
    | cons r rs =>
      have hr : validR r = true := he.2 r (by rw [hee]; simp)
      have hname : isIdent r.name = true := by
        simp only [validR, Bool.and_eq_true] at hr; exact hr.1.1.1.1
      have hnn : r.name ≠ [] := by
        intro hnil; rw [hnil] at hname; simp [isIdent] at hname
      have hsr : Lossy.showRelation r ≠ [] := by
        simp [Lossy.showRelation, hnn]
      have het : entryText (r :: rs) ≠ [] := by
        intro hnil
        have := head_join [' ', '|', ' '] (Lossy.showRelation r) (rs.map Lossy.showRelation) hsr
        simp only [entryText, List.map_cons] at hnil
        rw [hnil] at this
        cases hh : Lossy.showRelation r with
        | nil => exact hsr hh
        | cons a b => rw [hh] at this; simp at this
      simp only [List.map_cons, List.cons_append] at hc
      rw [hee, head_join _ _ _ het] at hc
      simp only [entryText, List.map_cons] at hc
      rw [head_join _ _ _ hsr] at hc
      have hh : (Lossy.showRelation r).head? = r.name.head? := by
        cases hn : r.name with
        | nil => exact absurd hn hnn
        | cons a b => simp [Lossy.showRelation, hn]
      rw [hh] at hc
      have hcm : c ∈ r.name := List.mem_of_head? hc
      have := ident_chars _ hname c hcm
      have hid : isIdentChar c = true := by
        simp only [isIdent, Bool.and_eq_true, List.all_eq_true] at hname
        exact hname.2 c hcm
      cases hi : isIndent c with
      | false => rfl
      | true =>
        simp only [isIndent, Bool.or_eq_true, beq_iff_eq] at hi
        rcases hi with rfl | rfl <;> simp [isIdentChar, isAsciiAlnum] at hid

end Deb822Verif.Ctl
