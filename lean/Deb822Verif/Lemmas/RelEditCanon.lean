import Deb822Verif.Lemmas.RelEditTree
/-!
  The relation setters on a relation in the canonical layout (`toLossless r`, the tree
  `RelationBuilder::build` and the parser agree on): the result is again the canonical relation
  node, of the changed value.
-/
set_option linter.unusedSimpArgs false
namespace Deb822Verif.Rel.Edit
open Deb822Verif Rel Node Build Lossy RelSpec

theorem profsPart_findIdx (k : Kind) (hk : k ≠ .PROFILES) (ps : List (List BuildProfile)) :
    (profsPart ps).findIdx? (fun c => c.isNode && c.kind == k) = none := by
  rw [List.findIdx?_eq_none_iff]
  intro c hc
  simp only [profsPart, List.mem_flatten, List.mem_map] at hc
  obtain ⟨l, ⟨p, _, rfl⟩, hc⟩ := hc
  simp only [List.mem_cons, List.not_mem_nil, or_false] at hc
  rcases hc with rfl | rfl
  · simp [T]
  · simp [Ne.symm hk]

theorem profsPart_elemIdx (k : Kind) (hk : k ≠ .PROFILES ∧ k ≠ .WHITESPACE) (ps : List (List BuildProfile)) :
    (profsPart ps).findIdx? (fun c => c.kind == k) = none := by
  rw [List.findIdx?_eq_none_iff]
  intro c hc
  simp only [profsPart, List.mem_flatten, List.mem_map] at hc
  obtain ⟨l, ⟨p, _, rfl⟩, hc⟩ := hc
  simp only [List.mem_cons, List.not_mem_nil, or_false] at hc
  rcases hc with rfl | rfl
  · simp [T, Ne.symm hk.2]
  · simp [Ne.symm hk.1]

theorem setArchqual_canon (r : Lossy.Relation) (q : Str) :
    setArchqual (toLossless r) q = toLossless { r with archqual := some q } := by
  rw [toLossless_eq, toLossless_eq]
  cases r with
  | mk name aq archs ver profs =>
    cases aq <;> rcases ver with _ | ⟨c, v⟩ <;> rcases archs with _ | _ | ⟨a, as⟩ <;>
      simp [setArchqual, builtChildren, nodeIdx, elemIdx, afterName, onChildren, insertAt, replaceAt, Build.aqPart,
        Build.verPart, Build.archPart, List.findIdx?_cons, List.findIdx?_append, T,
        profsPart_findIdx .ARCHQUAL (by decide)]


theorem setVersion_canon (r : Lossy.Relation) (c : VC) (v : Version) :
    setVersion (toLossless r) (some (c, v)) = toLossless { r with version := some (c, v) } := by
  rw [toLossless_eq, toLossless_eq]
  cases r with
  | mk name aq archs ver profs =>
    cases aq <;> rcases ver with _ | ⟨c', v'⟩ <;> rcases archs with _ | _ | ⟨a, as⟩ <;>
      simp [setVersion, versionAnchor, builtChildren, nodeIdx, elemIdx, afterName, onChildren, insertAt, replaceAt,
        Build.aqPart, Build.verPart, Build.archPart, List.findIdx?_cons, List.findIdx?_append, T,
        profsPart_findIdx .VERSION (by decide), profsPart_elemIdx .ARCHQUAL (by decide)]

theorem setVersion_none_canon (r : Lossy.Relation) :
    setVersion (toLossless r) none = toLossless { r with version := none } := by
  rw [toLossless_eq, toLossless_eq]
  cases r with
  | mk name aq archs ver profs =>
    cases aq <;> rcases ver with _ | ⟨c', v'⟩ <;> rcases archs with _ | _ | ⟨a, as⟩ <;>
      simp [setVersion, removeWithWsBefore, isWsElem, builtChildren, nodeIdx, elemIdx, onChildren,
        Build.aqPart, Build.verPart, Build.archPart, List.findIdx?_cons, List.findIdx?_append, T,
        profsPart_findIdx .VERSION (by decide)]

theorem dropConstraint_canon (r : Lossy.Relation) :
    (dropConstraint (toLossless r)).1 = toLossless { r with version := none } := by
  have : (dropConstraint (toLossless r)).1 = setVersion (toLossless r) none := by
    simp only [dropConstraint, setVersion]; cases nodeIdx Kind.VERSION (toLossless r).children <;> rfl
  rw [this, setVersion_none_canon]

theorem profsPart_cons (p : List BuildProfile) (ps : List (List BuildProfile)) :
    profsPart (p :: ps) = T .WHITESPACE " " :: profilesNode p :: profsPart ps := by
  simp [profsPart]

theorem setArchitectures_canon (r : Lossy.Relation) (a : Str) (as : List Str) :
    setArchitectures (toLossless r) (a :: as) = toLossless { r with architectures := some (a :: as) } := by
  rw [toLossless_eq, toLossless_eq]
  cases r with
  | mk name aq archs ver profs =>
    cases profs with
    | nil =>
      cases aq <;> rcases ver with _ | ⟨c', v'⟩ <;> rcases archs with _ | _ | ⟨a', as'⟩ <;>
        simp [setArchitectures, builtChildren, nodeIdx, elemIdx, onChildren, insertAt, replaceAt,
          Build.aqPart, Build.verPart, Build.archPart, List.findIdx?_cons, List.findIdx?_append, T, profsPart]
    | cons p ps =>
      cases aq <;> rcases ver with _ | ⟨c', v'⟩ <;> rcases archs with _ | _ | ⟨a', as'⟩ <;>
        simp [setArchitectures, builtChildren, nodeIdx, elemIdx, onChildren, insertAt, replaceAt,
          Build.aqPart, Build.verPart, Build.archPart, List.findIdx?_cons, List.findIdx?_append, T, profsPart_cons,
          profsPart_findIdx .ARCHITECTURES (by decide)]

theorem setArchitectures_nil_canon (r : Lossy.Relation) :
    setArchitectures (toLossless r) [] = toLossless { r with architectures := none } := by
  rw [toLossless_eq, toLossless_eq]
  cases r with
  | mk name aq archs ver profs =>
    cases aq <;> rcases ver with _ | ⟨c', v'⟩ <;> rcases archs with _ | _ | ⟨a', as'⟩ <;>
      simp [setArchitectures, removeWithWsBefore, isWsElem, builtChildren, nodeIdx, elemIdx, onChildren,
        Build.aqPart, Build.verPart, Build.archPart, List.findIdx?_cons, List.findIdx?_append, T,
        profsPart_findIdx .ARCHITECTURES (by decide)]

theorem profsPart_snoc (ps : List (List BuildProfile)) (p : List BuildProfile) :
    profsPart (ps ++ [p]) = profsPart ps ++ [T .WHITESPACE " ", profilesNode p] := by
  simp [profsPart]

theorem addProfile_canon (r : Lossy.Relation) (p : List BuildProfile) :
    addProfile (toLossless r) p = toLossless { r with profiles := r.profiles ++ [p] } := by
  rw [toLossless_eq, toLossless_eq]
  cases r with
  | mk name aq archs ver profs =>
    simp only [builtChildren]
    rw [addProfile_end]
    · simp only [profsPart_snoc]; simp
    · rcases List.eq_nil_or_concat profs with rfl | ⟨ps, q, rfl⟩
      · left
        intro c hc
        cases aq <;> rcases ver with _ | ⟨c', v'⟩ <;> rcases archs with _ | _ | ⟨a', as'⟩ <;>
          simp [Build.aqPart, Build.verPart, Build.archPart, profsPart, T] at hc <;>
          (rcases hc with rfl | hc <;> try rfl) <;> (try (rcases hc with rfl | hc <;> try rfl)) <;>
          (try (rcases hc with rfl | hc <;> try rfl)) <;> (try (rcases hc with rfl | hc <;> try rfl)) <;>
          (try (rcases hc with rfl | hc <;> try rfl)) <;> (try subst hc; rfl)
      · right
        refine ⟨Node.tok .IDENT name :: (Build.aqPart aq ++ (Build.verPart ver ++ (Build.archPart archs
          ++ (profsPart ps ++ [T .WHITESPACE " "])))), profilesNode q, ?_, rfl⟩
        rw [List.concat_eq_append, profsPart_snoc]; simp

end Deb822Verif.Rel.Edit
