import Deb822Verif.Model.CtlWrap
import Deb822Verif.Lemmas.DebWrapReread
import Deb822Verif.Lemmas.SplitOn
/-!
  The formatter path of wrap-and-sort (`entryWrap cfg (some f)`): the formatter's output is split at
  `'\n'` and every piece re-lexed by `lex_inline`. On a piece without line-break characters that
  gives at most a WHITESPACE token (its leading spaces / tabs) and at most a VALUE token (the rest).
-/
namespace Deb822Verif.Deb
open Deb822Verif Node Spec

/-! ### `lex_inline` on one line -/

/-- the tokens of one line of formatter output -/
def lineToks (l : Str) : List Tok :=
  optTok .WHITESPACE (l.takeWhile isIndent) ++ optTok .VALUE (l.dropWhile isIndent)

theorem headFails_dropWhile {α} (p : α → Bool) (l : List α) : HeadFails p (l.dropWhile p) := by
  intro x hx
  have := List.head?_dropWhile_not p l
  rw [hx] at this
  exact this

theorem lexAux_valuePart (r : Str) (hn : NoNl r) (hh : HeadFails isIndent r) :
    lexAux stLine r = optTok .VALUE r := by
  cases r with
  | nil => simp [lexAux_nil, optTok]
  | cons c v =>
    have h1 : isNewline c = false := hn c (by simp)
    have h2 : isIndent c = false := hh c rfl
    have hv : NoNl v := fun x hx => hn x (by simp [hx])
    have := step_value c v [] stLine h1 h2 hv lineEnd_nil (Or.inl ⟨rfl, by decide⟩)
    rw [List.append_nil] at this
    rw [lexAux_cons, this]
    simp [lexAux_nil, optTok]

/-- **`lex_inline` on a piece without `\n` / `\r`**: leading spaces and tabs as one WHITESPACE token,
    everything after them as one VALUE token -/
theorem lexInline_line (l : Str) (hn : NoNl l) : lexInline l = lineToks l := by
  show lexAux stLine l = _
  unfold lineToks
  cases l with
  | nil => simp [lexAux_nil, optTok]
  | cons c rest =>
    by_cases hc : isIndent c = true
    · have hsplit : rest = rest.takeWhile isIndent ++ rest.dropWhile isIndent :=
        (List.takeWhile_append_dropWhile).symm
      have hws : ∀ x ∈ rest.takeWhile isIndent, isIndent x = true := fun x hx =>
        List.all_eq_true.1 (List.all_takeWhile (p := isIndent) (l := rest)) x hx
      have hstep := step_ws c (rest.takeWhile isIndent) (rest.dropWhile isIndent) stLine rfl hc hws
        (headFails_dropWhile _ _)
      rw [← hsplit] at hstep
      rw [lexAux_cons, hstep]
      simp only [List.takeWhile_cons, hc, ↓reduceIte, List.dropWhile_cons]
      rw [lexAux_valuePart _ (fun x hx => hn x (by
        have := (List.dropWhile_sublist isIndent).subset hx
        simp [this])) (headFails_dropWhile _ _)]
      simp [optTok]
    · have hc' : isIndent c = false := by simpa using hc
      simp only [List.takeWhile_cons, hc', Bool.false_eq_true, ↓reduceIte, List.dropWhile_cons]
      rw [lexAux_valuePart (c :: rest) hn (by intro x hx; simp at hx; subst hx; exact hc')]
      simp [optTok]

/-- the tokens `lexLines` builds when every piece is lexed as `lineToks` -/
def linesToks : List Str → List Tok
  | [] => []
  | [l] => lineToks l
  | l :: m :: ls => lineToks l ++ (.NEWLINE, ['\n']) :: linesToks (m :: ls)

theorem lexLines_eq (ls : List Str) (h : ∀ l ∈ ls, NoNl l) : lexLines ls = linesToks ls := by
  induction ls with
  | nil => rfl
  | cons l r ih =>
    cases r with
    | nil => simp only [lexLines, linesToks]; exact lexInline_line l (h l (by simp))
    | cons m r' =>
      simp only [lexLines, linesToks]
      rw [lexInline_line l (h l (by simp)), ih fun x hx => h x (by simp [hx])]

/-- the value a line contributes: the line without its leading spaces / tabs, if anything is left -/
def lineValue (l : Str) : Option Str := if l.dropWhile isIndent = [] then none else some (l.dropWhile isIndent)

theorem valuesOfToks_append (a b : List Tok) : valuesOfToks (a ++ b) = valuesOfToks a ++ valuesOfToks b := by
  simp [valuesOfToks]

theorem valuesOfToks_lineToks (l : Str) : valuesOfToks (lineToks l) = (lineValue l).toList := by
  unfold lineToks lineValue optTok
  by_cases h1 : l.takeWhile isIndent = [] <;> by_cases h2 : l.dropWhile isIndent = [] <;>
    simp [h1, h2, valuesOfToks]

theorem valuesOfToks_linesToks (ls : List Str) : valuesOfToks (linesToks ls) = ls.filterMap lineValue := by
  induction ls with
  | nil => rfl
  | cons l r ih =>
    cases r with
    | nil =>
      simp only [linesToks, valuesOfToks_lineToks, List.filterMap_cons, List.filterMap_nil]
      cases lineValue l <;> rfl
    | cons m r' =>
      simp only [linesToks, valuesOfToks_append, valuesOfToks_lineToks]
      rw [show valuesOfToks ((Kind.NEWLINE, ['\n']) :: linesToks (m :: r')) = valuesOfToks (linesToks (m :: r')) from by
        simp [valuesOfToks], ih]
      simp only [List.filterMap_cons]
      cases lineValue l <;> rfl

theorem mem_lineToks {l : Str} {t : Tok} (h : t ∈ lineToks l) : t.1 = .WHITESPACE ∨ t.1 = .VALUE := by
  simp only [lineToks, List.mem_append] at h
  rcases h with h | h
  · rw [mem_optTok h]; exact Or.inl rfl
  · rw [mem_optTok h]; exact Or.inr rfl

theorem mem_linesToks {ls : List Str} {t : Tok} (h : t ∈ linesToks ls) :
    t.1 = .WHITESPACE ∨ t.1 = .VALUE ∨ t.1 = .NEWLINE := by
  induction ls with
  | nil => simp [linesToks] at h
  | cons l r ih =>
    cases r with
    | nil =>
      rcases mem_lineToks h with h | h
      · exact Or.inl h
      · exact Or.inr (Or.inl h)
    | cons m r' =>
      simp only [linesToks, List.mem_append, List.mem_cons] at h
      rcases h with h | rfl | h
      · rcases mem_lineToks h with h | h
        · exact Or.inl h
        · exact Or.inr (Or.inl h)
      · exact Or.inr (Or.inr rfl)
      · exact ih h

/-! ### pieces of `split('\n')` -/

theorem splitOn_mem_nosep (sep : Char) (v : Str) : ∀ l ∈ Text.splitOn sep v, sep ∉ l := by
  induction v with
  | nil => simp [Text.splitOn]
  | cons c cs ih =>
    simp only [Text.splitOn]
    split
    · intro l hl
      simp only [List.mem_cons] at hl
      rcases hl with rfl | hl
      · simp
      · exact ih l hl
    · rename_i hc
      split
      · intro l hl
        simp only [List.mem_cons, List.not_mem_nil, or_false] at hl
        subst hl
        simp [Ne.symm hc]
      · rename_i l0 ls heq
        intro l hl
        simp only [List.mem_cons] at hl
        rcases hl with rfl | hl
        · intro hmem
          simp only [List.mem_cons] at hmem
          rcases hmem with h | h
          · exact hc h.symm
          · exact ih l0 (by rw [heq]; simp) h
        · exact ih l (by rw [heq]; simp [hl])

theorem splitOn_mem_sub (sep : Char) (v : Str) : ∀ l ∈ Text.splitOn sep v, ∀ c ∈ l, c ∈ v := by
  induction v with
  | nil => simp [Text.splitOn]
  | cons c cs ih =>
    simp only [Text.splitOn]
    split
    · intro l hl x hx
      simp only [List.mem_cons] at hl
      rcases hl with rfl | hl
      · simp at hx
      · simp [ih l hl x hx]
    · split
      · intro l hl x hx
        simp only [List.mem_cons, List.not_mem_nil, or_false] at hl
        subst hl
        simp only [List.mem_cons, List.not_mem_nil, or_false] at hx
        simp [hx]
      · rename_i l0 ls heq
        intro l hl x hx
        simp only [List.mem_cons] at hl
        rcases hl with rfl | hl
        · simp only [List.mem_cons] at hx
          rcases hx with rfl | hx
          · simp
          · simp [ih l0 (by rw [heq]; simp) x hx]
        · simp [ih l (by rw [heq]; simp [hl]) x hx]

/-- no `\r` in the text: its `\n`-pieces contain no line-break character at all -/
theorem splitOn_nonl (out : Str) (hcr : '\r' ∉ out) : ∀ l ∈ Text.splitOn '\n' out, NoNl l := by
  intro l hl c hc
  have h1 : c ≠ '\n' := fun e => splitOn_mem_nosep '\n' out l hl (e ▸ hc)
  have h2 : c ≠ '\r' := fun e => hcr (e ▸ splitOn_mem_sub '\n' out l hl c hc)
  simp [isNewline, h1, h2]

/-! ### what the formatter's output is read as -/

/-- the value lines the formatter's output is read as: its `\n`-pieces without leading spaces and
    tabs, empty ones dropped -/
def fmtLines (out : Str) : List Str := (Text.splitOn '\n' out).filterMap lineValue

/-- the value (`Entry::value`) the formatter's output is read as -/
def fmtValue (out : Str) : Str := Text.join ['\n'] (fmtLines out)

/-- the tokens handed to `rebuild_value` on the formatter path -/
def fmtToks (out : Str) : List Tok := lexLines (Text.splitOn '\n' out)

theorem fmtToks_eq (out : Str) (hcr : '\r' ∉ out) : fmtToks out = linesToks (Text.splitOn '\n' out) :=
  lexLines_eq _ (splitOn_nonl out hcr)

theorem fmtToks_values (out : Str) (hcr : '\r' ∉ out) : valuesOfToks (fmtToks out) = fmtLines out := by
  rw [fmtToks_eq out hcr, valuesOfToks_linesToks]; rfl

theorem fmtToks_kinds (out : Str) (hcr : '\r' ∉ out) :
    ∀ t ∈ fmtToks out, t.1 = .WHITESPACE ∨ t.1 = .VALUE ∨ t.1 = .NEWLINE := by
  intro t ht
  rw [fmtToks_eq out hcr] at ht
  exact mem_linesToks ht

/-! ### `entryWrap` with a formatter -/

/-- `ewTokens` on the formatter path, in the vocabulary of `Ctl.fmtArg` -/
theorem ewTokens_fmt (f : Str → Str → Str) (e : DNode) :
    ewTokens (some f) e =
      match Ctl.fmtArg e with
      | none => ewTokens none e
      | some arg => (entryKey e).map fun k => fmtToks (f k arg) := by
  unfold ewTokens Ctl.fmtArg
  by_cases h : ((ewContent e.children).any fun c => c.kind == .ERROR || c.kind == .COMMENT) = true
  · simp only [h, Bool.not_true, Bool.false_eq_true, ↓reduceIte]
  · have h' : ((ewContent e.children).any fun c => c.kind == .ERROR || c.kind == .COMMENT) = false := by
      simpa using h
    simp only [h', Bool.not_false, ↓reduceIte, Bool.false_eq_true]
    cases entryKey e <;> rfl

/-- **the two cases of `Entry::wrap_and_sort` with a formatter**: a comment or error token in the
    value — the formatter is not called, the result is that of the no-formatter path; otherwise the
    field needs a name, and the value is rebuilt from the re-lexed formatter output -/
theorem entryWrap_fmt_cases (cfg : WrapCfg) (f : Str → Str → Str) (e e' : DNode)
    (h : entryWrap cfg (some f) e = some e') :
    (Ctl.fmtArg e = none ∧ entryWrap cfg none e = some e')
    ∨ ∃ k arg, entryKey e = some k ∧ Ctl.fmtArg e = some arg
        ∧ e' = .node .ENTRY (e.children.filterMap headOf ++
            rebuildValue (fmtToks (f k arg)) (utf8Len k) (ewIndent cfg e.children)
              cfg.immediateEmptyLine cfg.maxLineLengthOneLiner) := by
  unfold entryWrap at h ⊢
  rw [ewTokens_fmt] at h
  cases harg : Ctl.fmtArg e with
  | none =>
    rw [harg] at h
    exact Or.inl ⟨rfl, h⟩
  | some arg =>
    rw [harg] at h
    refine Or.inr ?_
    split at h
    · simp at h
    · split at h
      · simp at h
      · cases hk : entryKey e with
        | none => simp [hk] at h
        | some k =>
          simp only [hk, Option.map_some, Option.some.injEq] at h
          refine ⟨k, arg, rfl, rfl, ?_⟩
          rw [← h]
          simp [ewKeyLen, hk]

theorem rebuildValue_heads (ts : List Tok) (kl ind : Nat) (imm : Bool) (mx : Option Nat)
    (h : ∀ t ∈ ts, t.1 ≠ .KEY ∧ t.1 ≠ .COLON) :
    (rebuildValue ts kl ind imm mx).filterMap headOf = [] := by
  apply List.filterMap_eq_nil_iff.2
  intro c hc
  rcases rebuildValue_mem _ _ _ _ _ c hc with rfl | rfl | rfl | ⟨t, ht, rfl⟩
  · rfl
  · rfl
  · rfl
  · have := h t ht
    cases t with
    | mk k s =>
      simp only at this
      unfold headOf
      split <;> simp_all

/-- **formatter path, entry level** (any formatter whose output has no `\r`; any setting):
    the name is kept, the KEY / COLON tokens are kept, no other KEY or COLON token appears, and the
    value of the result is the formatter's output read line by line (`fmtValue`): leading spaces and
    tabs of every line removed, lines that are empty after that dropped, joined by `\n` -/
theorem entryWrap_fmt (cfg : WrapCfg) (f : Str → Str → Str) (e e' : DNode) (k arg : Str)
    (hk : entryKey e = some k) (harg : Ctl.fmtArg e = some arg) (hcr : '\r' ∉ f k arg)
    (h : entryWrap cfg (some f) e = some e') :
    entryKey e' = some k
      ∧ e'.children.filterMap headOf = e.children.filterMap headOf
      ∧ entryValue e' = fmtValue (f k arg)
      ∧ (valuesOf e'.children) = fmtLines (f k arg) := by
  rcases entryWrap_fmt_cases cfg f e e' h with ⟨h0, _⟩ | ⟨k', arg', hk', harg', he'⟩
  · rw [harg] at h0; cases h0
  · rw [hk] at hk'; rw [harg] at harg'
    cases hk'; cases harg'
    have hkinds := fmtToks_kinds (f k arg) hcr
    have hnokey : ∀ t ∈ fmtToks (f k arg), t.1 ≠ .KEY := by
      intro t ht hkk
      rcases hkinds t ht with h1 | h1 | h1 <;> rw [hkk] at h1 <;> cases h1
    have hnohead : ∀ t ∈ fmtToks (f k arg), t.1 ≠ .KEY ∧ t.1 ≠ .COLON := by
      intro t ht
      rcases hkinds t ht with h1 | h1 | h1 <;> rw [h1] <;> exact ⟨by decide, by decide⟩
    have hvals : valuesOf e'.children = fmtLines (f k arg) := by
      rw [he']
      show valuesOf (e.children.filterMap headOf ++ rebuildValue _ _ _ _ _) = _
      rw [valuesOf_append, heads_values, rebuildValue_values, List.nil_append, fmtToks_values _ hcr]
    refine ⟨?_, ?_, ?_, hvals⟩
    · rw [he']
      simp only [entryKey, Node.children, List.find?_append, heads_key,
        rebuildValue_no_key _ _ _ _ _ hnokey, Option.or_none]
      exact hk
    · rw [he']
      show (e.children.filterMap headOf ++ rebuildValue _ _ _ _ _).filterMap headOf = _
      rw [List.filterMap_append, heads_filterMap, rebuildValue_heads _ _ _ _ _ hnohead, List.append_nil]
    · show Text.join ['\n'] (valuesOf e'.children) = _
      rw [hvals]; rfl


/-- the name of a field survives `Entry::wrap_and_sort` with any formatter (no hypothesis on its
    output: the KEY token is re-emitted before anything the formatter returns) -/
theorem entryWrap_fmt_key (cfg : WrapCfg) (f : Str → Str → Str) (e e' : DNode)
    (h : entryWrap cfg (some f) e = some e') : entryKey e' = entryKey e := by
  rcases entryWrap_fmt_cases cfg f e e' h with ⟨_, h0⟩ | ⟨k, arg, hk, _, he'⟩
  · exact (entryWrap_content cfg e e' h0).1
  · rw [he']
    have hk2 : (e.children.find? (isTokOf .KEY)).map tokTextOf = some k := hk
    show ((e.children.filterMap headOf ++ rebuildValue _ _ _ _ _).find? (isTokOf .KEY)).map tokTextOf
      = (e.children.find? (isTokOf .KEY)).map tokTextOf
    rw [List.find?_append, heads_key]
    cases hf : e.children.find? (isTokOf .KEY) with
    | none => rw [hf] at hk2; simp at hk2
    | some x => simp

theorem entryWrap_any_isEntry (cfg : WrapCfg) (fmt) (e e' : DNode) (h : entryWrap cfg fmt e = some e') :
    isEntryNode e' = true := entryWrap_isEntry cfg fmt e e' h

theorem Pointwise.map {α β γ δ} {R : α → β → Prop} {S : γ → δ → Prop} (f : α → γ) (g : β → δ)
    (hi : ∀ a b, R a b → S (f a) (g b)) :
    ∀ {l : List α} {r : List β}, Pointwise R l r → Pointwise S (l.map f) (r.map g)
  | [], [], _ => trivial
  | _ :: _, _ :: _, h => ⟨hi _ _ h.1, Pointwise.map f g hi h.2⟩
  | [], _ :: _, h => h.elim
  | _ :: _, [], h => h.elim

/-- **paragraph level with a formatter** (any formatter, any setting, any comparator): the result
    is again `paraOut` of the groups — same comments in front of every field, every field passed
    through `entryWrap cfg (some f)` (its name kept), stably sorted —, regrouping returns them, and
    the comment texts and the field names are a permutation of the input's (equal without order) -/
theorem paragraphWrap_fmt (cfg : WrapCfg) (le : Option (DNode → DNode → Bool)) (f : Str → Str → Str)
    (p p' : DNode) (h : paragraphWrap cfg le (some f) p = some p') :
    ∃ ws : List (List DNode × DNode),
      Pointwise (fun g w => w.1 = g.1 ∧ entryWrap cfg (some f) g.2 = some w.2 ∧ entryKey w.2 = entryKey g.2)
        (paraGroups p).1 ws
      ∧ p' = .node .PARAGRAPH (paraOut (sortBy le ws) (paraGroups p).2)
      ∧ paraGroups p' = (sortBy le ws, (paraGroups p).2)
      ∧ entries p' = (sortBy le ws).map (·.2)
      ∧ entries p = (paraGroups p).1.map (·.2)
      ∧ (commentTexts p'.children).Perm (commentTexts p.children)
      ∧ (le = none → commentTexts p'.children = commentTexts p.children)
      ∧ (keys p').Perm (keys p)
      ∧ (le = none → keys p' = keys p) := by
  obtain ⟨ws, hpw, hpre, hent, htr, rfl⟩ := paragraphWrap_spec cfg le (some f) p p' h
  have hpre' : ∀ w ∈ sortBy le ws, ∀ c ∈ w.1, isTrivTok c = true :=
    fun w hw => hpre w ((mem_sortBy le ws w).1 hw)
  have hent' : ∀ w ∈ sortBy le ws, isEntryNode w.2 = true :=
    fun w hw => hent w ((mem_sortBy le ws w).1 hw)
  have hpw2 : Pointwise (fun g w => w.1 = g.1 ∧ entryWrap cfg (some f) g.2 = some w.2
      ∧ entryKey w.2 = entryKey g.2) (paraGroups p).1 ws :=
    Pointwise.imp (fun g w hgw => ⟨hgw.1, hgw.2, entryWrap_fmt_key cfg f g.2 w.2 hgw.2⟩) hpw
  have hg : paraGroups (.node .PARAGRAPH (paraOut (sortBy le ws) (paraGroups p).2))
      = (sortBy le ws, (paraGroups p).2) := groupBy_paraOut _ _ hpre' hent' htr
  have hc' : commentTexts (paraOut (sortBy le ws) (paraGroups p).2)
      = groupsComments (sortBy le ws) (paraGroups p).2 :=
    commentTexts_paraOut _ _ fun w hw => isEntryNode_isNode w.2 (hent' w hw)
  have hc : commentTexts p.children = groupsComments ws (paraGroups p).2 := by
    have := groupBy_comments p.children []
    rw [show commentTexts ([] : List DNode) = [] from rfl, List.nil_append] at this
    rw [← this]
    exact (groupsComments_congr (paraGroups p).1 ws _ (Pointwise.imp (fun _ _ h => h.1) hpw)).symm
  have he' : entries (.node .PARAGRAPH (paraOut (sortBy le ws) (paraGroups p).2)) = (sortBy le ws).map (·.2) :=
    entries_paraOut _ _ hpre' hent' htr
  have he : entries p = (paraGroups p).1.map (·.2) := (groupBy_units p.children []).symm
  have hk' : keys (.node .PARAGRAPH (paraOut (sortBy le ws) (paraGroups p).2))
      = (sortBy le ws).filterMap (fun w => entryKey w.2) := by
    simp only [keys, he', List.filterMap_map]; rfl
  have hk : keys p = ws.filterMap (fun w => entryKey w.2) := by
    simp only [keys, he, List.filterMap_map]
    have h2 : (paraGroups p).1.map (fun g => entryKey g.2) = ws.map (fun w => entryKey w.2) :=
      Pointwise.map_eq _ _ (fun g w hgw => hgw.2.2.symm) hpw2
    have e1 : List.filterMap (entryKey ∘ fun x : List DNode × DNode => x.2) (paraGroups p).1
        = ((paraGroups p).1.map (fun g => entryKey g.2)).filterMap id := by
      rw [List.filterMap_map]; rfl
    have e2 : ws.filterMap (fun w => entryKey w.2) = (ws.map (fun w => entryKey w.2)).filterMap id := by
      rw [List.filterMap_map]; rfl
    rw [e1, e2, h2]
  refine ⟨ws, hpw2, rfl, hg, he', he, ?_, ?_, ?_, ?_⟩
  · show (commentTexts (paraOut _ _)).Perm _
    rw [hc', hc]
    exact groupsComments_perm _ _ _ (sortBy_perm le ws)
  · intro hle; subst hle
    show commentTexts (paraOut _ _) = _
    rw [hc', hc]; rfl
  · rw [hk', hk]
    exact List.Perm.filterMap _ (sortBy_perm le ws)
  · intro hle; subst hle
    rw [hk', hk]; rfl


/-! ### well-formed fields: the raw text handed to the formatter, and the identity formatter -/

/-- the raw text of a well-formed field: what stands behind the colon, continuation lines without
    their indentation, trailing whitespace and line breaks stripped -/
def rawText (e : EntryS) : Str := tokText e.cts

theorem cts_kinds (e : EntryS) : ∀ t ∈ e.cts, t.1 = .WHITESPACE ∨ t.1 = .VALUE ∨ t.1 = .NEWLINE := by
  intro t ht
  unfold EntryS.cts at ht
  split at ht
  · split at ht
    · simp at ht
    · simp only [List.mem_append, List.mem_cons, List.not_mem_nil, or_false] at ht
      rcases ht with ht | rfl
      · rw [mem_optTok ht]; exact Or.inl rfl
      · exact Or.inr (Or.inl rfl)
  · simp only [List.mem_append, List.mem_cons] at ht
    rcases ht with (ht | ht) | rfl | ht
    · rw [mem_optTok ht]; exact Or.inl rfl
    · rw [mem_optTok ht]; exact Or.inr (Or.inl rfl)
    · exact Or.inr (Or.inr rfl)
    · rcases mem_joinNL ht with h | h
      · exact Or.inr (Or.inl h)
      · exact Or.inr (Or.inr h)

theorem texts_map_tk (g : DNode → Option Str) (hg : ∀ t : Tok, g (tk t) = some t.2) (ts : List Tok) :
    ((ts.map tk).filterMap g).flatten = tokText ts := by
  induction ts with
  | nil => rfl
  | cons t r ih => simp only [List.map_cons, List.filterMap_cons, hg, List.flatten_cons, ih, tokText_cons]

theorem fmtArg_node (e : EntryS) (more : Bool) (ht : e.Term more) : Ctl.fmtArg e.node = some (rawText e) := by
  unfold Ctl.fmtArg
  rw [node_content e more ht]
  have : ((e.cts.map tk).any fun c => c.kind == .ERROR || c.kind == .COMMENT) = false := by
    apply List.any_eq_false.2
    intro c hc
    simp only [List.mem_map] at hc
    obtain ⟨t, ht', rfl⟩ := hc
    rcases cts_kinds e t ht' with h | h | h <;> simp [Node.kind, h]
  rw [this]
  simp only [Bool.false_eq_true, ↓reduceIte, rawText]
  rw [texts_map_tk _ (fun t => rfl)]

theorem nl_notin_of_nonl (s : Str) (h : NoNl s) : '\n' ∉ s := by
  intro hm
  have := h '\n' hm
  simp [isNewline] at this

theorem tokText_joinNL_split (L : List Str) (hne : L ≠ []) (h : ∀ l ∈ L, NoNl l) :
    Text.splitOn '\n' (tokText (joinNL L)) = L := by
  induction L with
  | nil => exact absurd rfl hne
  | cons l r ih =>
    cases r with
    | nil =>
      simp only [joinNL, tokText_cons, tokText_nil, List.append_nil]
      exact Text.splitOn_none _ _ (nl_notin_of_nonl l (h l (by simp)))
    | cons u r' =>
      simp only [joinNL, tokText_cons]
      rw [show l ++ (['\n'] ++ tokText (joinNL (u :: r'))) = l ++ '\n' :: tokText (joinNL (u :: r')) from rfl,
        Text.splitOn_cons _ _ _ (nl_notin_of_nonl l (h l (by simp))), ih (by simp) fun x hx => h x (by simp [hx])]

theorem lineToks_cont (t : Str) (h : ValidCont t) : lineToks t = [(.VALUE, t)] := by
  obtain ⟨_, c, cs, rfl, hi, _⟩ := h
  simp [lineToks, List.takeWhile_cons, List.dropWhile_cons, hi, optTok]

theorem linesToks_conts (L : List Str) (h : ∀ l ∈ L, ValidCont l) : linesToks L = joinNL L := by
  induction L with
  | nil => rfl
  | cons l r ih =>
    cases r with
    | nil => simp only [linesToks, joinNL]; exact lineToks_cont l (h l (by simp))
    | cons u r' =>
      simp only [linesToks, joinNL]
      rw [lineToks_cont l (h l (by simp)), ih fun x hx => h x (by simp [hx])]
      rfl

theorem lineToks_first (ws v : Str) (hws : AllIndent ws) (hv : ValidFirst v) :
    lineToks (ws ++ v) = optTok .WHITESPACE ws ++ optTok .VALUE v := by
  have hh : HeadFails isIndent v := by
    intro x hx; exact hv.2 x hx
  unfold lineToks
  rw [takeWhile_app _ _ _ hws hh, dropWhile_app _ _ _ hws hh]

theorem nonl_first (ws v : Str) (hws : AllIndent ws) (hv : ValidFirst v) : NoNl (ws ++ v) := by
  intro c hc
  simp only [List.mem_append] at hc
  rcases hc with hc | hc
  · exact indent_not_newline c (hws c hc)
  · exact hv.1 c hc

/-- **re-lexing the raw text of a well-formed field gives back its content tokens** -/
theorem fmtToks_rawText (e : EntryS) (hwf : e.WF) : fmtToks (rawText e) = e.cts := by
  unfold fmtToks rawText
  have hfirst := nonl_first e.ws e.v hwf.ws_ok hwf.v_ok
  by_cases hc : e.conts = []
  · by_cases hv : e.v = []
    · simp [EntryS.cts, hc, hv, Text.splitOn, lexLines, lexInline, lexAux_nil]
    · have hcts : e.cts = optTok .WHITESPACE e.ws ++ [(.VALUE, e.v)] := by simp [EntryS.cts, hc, hv]
      have htxt : tokText e.cts = e.ws ++ e.v := by
        rw [hcts]; unfold optTok; split <;> simp_all
      rw [htxt, Text.splitOn_none _ _ (nl_notin_of_nonl _ hfirst)]
      simp only [lexLines]
      rw [lexInline_line _ hfirst, lineToks_first _ _ hwf.ws_ok hwf.v_ok, hcts]
      simp [optTok, hv]
  · have hcts : e.cts = optTok .WHITESPACE e.ws ++ optTok .VALUE e.v
        ++ (.NEWLINE, ['\n']) :: joinNL (e.conts.map ContS.text) := by simp [EntryS.cts, hc]
    have htxt : tokText e.cts = (e.ws ++ e.v) ++ '\n' :: tokText (joinNL (e.conts.map ContS.text)) := by
      rw [hcts]
      simp only [tokText_append, tokText_cons]
      have h1 : tokText (optTok Kind.WHITESPACE e.ws) = e.ws := by unfold optTok; split <;> simp_all
      have h2 : tokText (optTok Kind.VALUE e.v) = e.v := by unfold optTok; split <;> simp_all
      rw [h1, h2]; simp
    have hne : e.conts.map ContS.text ≠ [] := by simpa using hc
    have hvc : ∀ l ∈ e.conts.map ContS.text, ValidCont l := by
      intro l hl
      simp only [List.mem_map] at hl
      obtain ⟨c, hcm, rfl⟩ := hl
      exact (hwf.conts_ok c hcm).text_ok
    have hnn : ∀ l ∈ e.conts.map ContS.text, NoNl l := fun l hl => (hvc l hl).1
    rw [htxt, Text.splitOn_cons _ _ _ (nl_notin_of_nonl _ hfirst), tokText_joinNL_split _ hne hnn]
    rw [lexLines_eq _ (by
      intro l hl
      simp only [List.mem_cons] at hl
      rcases hl with rfl | hl
      · exact hfirst
      · exact hnn l hl)]
    cases hL : e.conts.map ContS.text with
    | nil => exact absurd hL hne
    | cons u r =>
      simp only [linesToks]
      rw [← hL, linesToks_conts _ hvc, lineToks_first _ _ hwf.ws_ok hwf.v_ok, hcts]

/-- `entryWrap` with a formatter on a well-formed field: `rebuild_value` of the re-lexed formatter
    output for the field's raw text -/
theorem entryWrap_fmt_node (cfg : WrapCfg) (f : Str → Str → Str) (e : EntryS) (more : Bool)
    (hwf : e.WF) (ht : e.Term more) (hc : IndentOK cfg) :
    entryWrap cfg (some f) e.node = some (.node .ENTRY (Node.tok .KEY e.key :: Node.tok .COLON [':'] ::
      rebuildValue (fmtToks (f e.key (rawText e))) (utf8Len e.key) (indOf cfg e)
        cfg.immediateEmptyLine cfg.maxLineLengthOneLiner)) := by
  unfold entryWrap
  rw [node_badKinds, node_indent, ewTokens_fmt, fmtArg_node e more ht]
  simp only [Bool.false_eq_true, ↓reduceIte, indOf_pos cfg e hc hwf.key_ok, entryKey_node, Option.map_some,
    node_heads, node_keyLen]
  rfl

/-- **a formatter that leaves the raw text of a well-formed field alone gives the result of the
    no-formatter path** — so every no-formatter theorem transfers to such fields -/
theorem entryWrap_fmt_id (cfg : WrapCfg) (f : Str → Str → Str) (e : EntryS) (more : Bool)
    (hwf : e.WF) (ht : e.Term more) (hc : IndentOK cfg) (hid : f e.key (rawText e) = rawText e) :
    entryWrap cfg (some f) e.node = entryWrap cfg none e.node := by
  rw [entryWrap_fmt_node cfg f e more hwf ht hc, hid, fmtToks_rawText e hwf, entryWrap_node_eq cfg e more hwf ht hc]

end Deb822Verif.Deb
