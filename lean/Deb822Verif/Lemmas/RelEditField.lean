import Deb822Verif.Lemmas.RelEditNode
/-!
  The list model of a relationship field and the lifting of the node-level facts of
  Lemmas/RelEditNode.lean to the field operations of Model/RelEdit.lean.
-/
namespace Deb822Verif.Rel.Edit
open Deb822Verif Rel Node Build Lossy RelSpec

namespace S

theorem updEntry_at (G : List RelRec → List ItemS) (A : FieldS) (rs : List RelRec) (B : FieldS) :
    updEntry G (A ++ .alts rs :: B) (nEntries A) = A ++ G rs ++ B := by
  induction A with
  | nil => simp [nEntries, updEntry]
  | cons a A ih =>
    cases a with
    | subst t => simpa [nEntries, updEntry, ItemS.isAlts] using ih
    | alts r =>
      have : nEntries (ItemS.alts r :: A) = nEntries A + 1 := by simp [nEntries, List.countP_cons, ItemS.isAlts]
      rw [this]
      simpa [updEntry] using ih

theorem updEntry_none (G : List RelRec → List ItemS) (s : FieldS) (i : Nat) (h : nEntries s ≤ i) :
    updEntry G s i = s := by
  induction s generalizing i with
  | nil => simp [updEntry]
  | cons a A ih =>
    cases a with
    | subst t =>
      simp only [updEntry, List.cons.injEq, true_and]
      exact ih i (by simpa [nEntries, ItemS.isAlts] using h)
    | alts r =>
      have e : nEntries (ItemS.alts r :: A) = nEntries A + 1 := by simp [nEntries, List.countP_cons, ItemS.isAlts]
      cases i with
      | zero => omega
      | succ i =>
        simp only [updEntry, List.cons.injEq, true_and]
        exact ih i (by omega)

theorem entry?_at (A : FieldS) (rs : List RelRec) (B : FieldS) :
    entry? (A ++ .alts rs :: B) (nEntries A) = some rs := by
  induction A with
  | nil => simp [nEntries, entry?]
  | cons a A ih =>
    cases a with
    | subst t => simpa [nEntries, entry?, ItemS.isAlts] using ih
    | alts r =>
      have : nEntries (ItemS.alts r :: A) = nEntries A + 1 := by simp [nEntries, List.countP_cons, ItemS.isAlts]
      rw [this]
      simpa [entry?] using ih

end S

/-! ### positions -/

theorem nthPos_some {P : RNode → Bool} {cs : List RNode} {i p : Nat} (h : nthPos P cs i = some p) :
    ∃ pre x post, cs = pre ++ x :: post ∧ pre.length = p ∧ P x = true ∧ pre.countP P = i := by
  induction cs generalizing i p with
  | nil => simp [nthPos] at h
  | cons c cs ih =>
    simp only [nthPos] at h
    by_cases hc : P c = true
    · rw [if_pos hc] at h
      cases i with
      | zero =>
        simp only [Option.some.injEq] at h
        exact ⟨[], c, cs, rfl, by simp [← h], hc, rfl⟩
      | succ i =>
        simp only [Option.map_eq_some_iff] at h
        obtain ⟨p', hp', rfl⟩ := h
        obtain ⟨pre, x, post, e, hl, hx, hcnt⟩ := ih hp'
        exact ⟨c :: pre, x, post, by simp [e], by simp [hl], hx, by simp [List.countP_cons, hc, hcnt]⟩
    · rw [if_neg hc] at h
      simp only [Option.map_eq_some_iff] at h
      obtain ⟨p', hp', rfl⟩ := h
      obtain ⟨pre, x, post, e, hl, hx, hcnt⟩ := ih hp'
      exact ⟨c :: pre, x, post, by simp [e], by simp [hl], hx, by simp [List.countP_cons, hc, hcnt]⟩

theorem nthPos_none {P : RNode → Bool} {cs : List RNode} {i : Nat} (h : nthPos P cs i = none) :
    cs.countP P ≤ i := by
  induction cs generalizing i with
  | nil => simp
  | cons c cs ih =>
    simp only [nthPos] at h
    by_cases hc : P c = true
    · rw [if_pos hc] at h
      cases i with
      | zero => simp at h
      | succ i =>
        simp only [Option.map_eq_none_iff] at h
        have := ih h
        simp [List.countP_cons, hc]; omega
    · rw [if_neg hc] at h
      simp only [Option.map_eq_none_iff] at h
      have := ih h
      simp [List.countP_cons, hc]; omega

theorem nthPos_split {P : RNode → Bool} (pre : List RNode) (x : RNode) (post : List RNode) (hx : P x = true) :
    nthPos P (pre ++ x :: post) (pre.countP P) = some pre.length := by
  induction pre with
  | nil => simp [nthPos, hx]
  | cons c pre ih =>
    by_cases hc : P c = true
    · simp [nthPos, hc, List.countP_cons, ih]
    · simp [nthPos, hc, List.countP_cons, ih]

theorem lastPos_some {P : RNode → Bool} {cs : List RNode} {p : Nat} (h : lastPos P cs = some p) :
    ∃ pre x post, cs = pre ++ x :: post ∧ pre.length = p ∧ P x = true ∧ ∀ y ∈ post, P y = false := by
  induction cs generalizing p with
  | nil => simp [lastPos] at h
  | cons c cs ih =>
    simp only [lastPos] at h
    cases hl : lastPos P cs with
    | some p' =>
      rw [hl] at h
      simp only [Option.some.injEq] at h
      obtain ⟨pre, x, post, e, hlen, hx, hpost⟩ := ih hl
      exact ⟨c :: pre, x, post, by simp [e], by simp [hlen, ← h], hx, hpost⟩
    | none =>
      rw [hl] at h
      by_cases hc : P c = true
      · rw [if_pos hc] at h
        simp only [Option.some.injEq] at h
        refine ⟨[], c, cs, rfl, by simp [← h], hc, ?_⟩
        clear ih h
        induction cs with
        | nil => simp
        | cons d ds ih2 =>
          simp only [lastPos] at hl
          cases hd : lastPos P ds with
          | some _ => rw [hd] at hl; simp at hl
          | none =>
            rw [hd] at hl
            by_cases hP : P d = true
            · rw [if_pos hP] at hl; simp at hl
            · intro y hy
              rcases List.mem_cons.mp hy with rfl | hy
              · simpa using hP
              · exact ih2 hd y hy
      · rw [if_neg hc] at h; simp at h

theorem lastPos_none {P : RNode → Bool} {cs : List RNode} (h : lastPos P cs = none) :
    ∀ y ∈ cs, P y = false := by
  induction cs with
  | nil => simp
  | cons d ds ih =>
    simp only [lastPos] at h
    cases hd : lastPos P ds with
    | some _ => rw [hd] at h; simp at h
    | none =>
      rw [hd] at h
      by_cases hP : P d = true
      · rw [if_pos hP] at h; simp at h
      · intro y hy
        rcases List.mem_cons.mp hy with rfl | hy
        · simpa using hP
        · exact ih hd y hy

/-! ### the abstraction and lists -/

theorem absKids_append (a b : List RNode) : absKids (a ++ b) = absKids a ++ absKids b := by
  simp [absKids]

theorem absKids_cons (a : RNode) (b : List RNode) : absKids (a :: b) = absKids [a] ++ absKids b := by
  rw [← absKids_append]; rfl

theorem itemOf_isSome (c : RNode) : (itemOf c).isSome = isItemNode c := by
  unfold itemOf isNodeOf isItemNode
  split
  · rename_i h; simp only [Bool.and_eq_true] at h; simp [h.1, h.2]
  · split
    · rename_i h; simp only [Bool.and_eq_true] at h; simp [h.1, h.2]
    · rename_i h1 h2
      cases hn : c.isNode
      · simp
      · simp only [hn, Bool.true_and] at h1 h2
        simp [h1, h2]

theorem absKids_none (l : List RNode) (h : ∀ x ∈ l, isItemNode x = false) : absKids l = [] := by
  simp only [absKids, List.filterMap_eq_nil_iff]
  intro x hx
  have := itemOf_isSome x
  rw [h x hx] at this
  cases hi : itemOf x with
  | none => rfl
  | some _ => rw [hi] at this; simp at this

theorem isItemNode_of_kind {x : RNode} {k : Kind} (h : (x.kind == k) = true)
    (hk : k ≠ .ENTRY ∧ k ≠ .SUBSTVAR) : isItemNode x = false := by
  have : x.kind = k := by simpa using h
  simp only [isItemNode, this]
  cases k <;> simp_all

theorem ws_not_item {x : RNode} (h : isWsElem x = true) : isItemNode x = false := by
  simp only [isWsElem, Bool.or_eq_true] at h
  rcases h with h | h
  · exact isItemNode_of_kind h (by decide)
  · exact isItemNode_of_kind h (by decide)

theorem absKids_ws (l : List RNode) (h : ∀ x ∈ l, isWsElem x = true) : absKids l = [] :=
  absKids_none l fun x hx => ws_not_item (h x hx)

theorem absKids_tok (k : Kind) (s : Str) (l : List RNode) : absKids (Node.tok k s :: l) = absKids l := by
  simp [absKids, itemOf, isNodeOf]

theorem absKids_T (k : Kind) (s : String) (l : List RNode) : absKids (T k s :: l) = absKids l := absKids_tok _ _ _

theorem nEntries_abs (cs : List RNode) : S.nEntries (absKids cs) = cs.countP (isNodeOf .ENTRY) := by
  induction cs with
  | nil => rfl
  | cons c cs ih =>
    rw [absKids_cons, S.nEntries, List.countP_append, List.countP_cons]
    rw [S.nEntries] at ih
    rw [ih]
    by_cases h : isNodeOf .ENTRY c = true
    · simp [absKids, itemOf, h, ItemS.isAlts]; omega
    · by_cases h2 : isNodeOf .SUBSTVAR c = true
      · simp [absKids, itemOf, h, h2, ItemS.isAlts]
      · simp [absKids, itemOf, h, h2]

theorem absKids_entry (e : RNode) (h : isNodeOf .ENTRY e = true) : absKids [e] = [.alts (relsOf e)] := by
  simp [absKids, itemOf, h]

theorem absKids_dropWhile_ws (l : List RNode) : absKids (l.dropWhile isWsElem) = absKids l := by
  conv => rhs; rw [← List.takeWhile_append_dropWhile (p := isWsElem) (l := l)]
  rw [absKids_append, absKids_ws _ (fun x hx => mem_takeWhile_imp hx), List.nil_append]

theorem absKids_dropTrailing_ws (l : List RNode) :
    absKids (l.reverse.dropWhile isWsElem).reverse = absKids l := by
  obtain ⟨ws, e, hws⟩ := dropTrailing_spec isWsElem l
  conv => rhs; rw [e]
  rw [absKids_append, absKids_ws _ hws, List.append_nil]

/-! ### lists -/

theorem modify_at {α} (A : List α) (x : α) (B : List α) (g : α → α) :
    (A ++ x :: B).modify A.length g = A ++ g x :: B := by
  induction A with
  | nil => simp
  | cons a A ih => simpa using ih

theorem eraseIdx_at {α} (A : List α) (x : α) (B : List α) : (A ++ x :: B).eraseIdx A.length = A ++ B := by
  rw [List.eraseIdx_append_of_length_le (Nat.le_refl _)]; simp

theorem replaceAt_split (pre : List RNode) (x : RNode) (post new : List RNode) :
    replaceAt (pre ++ x :: post) pre.length new = pre ++ new ++ post := by
  simp [replaceAt]

theorem insertAt_split (pre post new : List RNode) :
    insertAt (pre ++ post) pre.length new = pre ++ new ++ post := by
  simp [insertAt]

theorem getElem?_split {α} (pre : List α) (x : α) (post : List α) : (pre ++ x :: post)[pre.length]? = some x := by
  simp

theorem cn_length_countP (k : Kind) (l : List RNode) : (cn k l).length = l.countP (isNodeOf k) := by
  rw [List.countP_eq_length_filter]; rfl

theorem cn_of_isNodeOf {k : Kind} {x : RNode} (h : isNodeOf k x = true) : cn k [x] = [x] := by
  rw [cn_elem]; simp only [isNodeOf] at h; simp [h]

theorem cn_none {k : Kind} (l : List RNode) (h : ∀ y ∈ l, isNodeOf k y = false) : cn k l = [] := by
  simp only [cn, List.filter_eq_nil_iff]
  intro x hx
  have := h x hx
  simpa [isNodeOf] using this

theorem relsOf_node (k : Kind) (cs : List RNode) : relsOf (.node k cs) = (cn .RELATION cs).map recOf := rfl

theorem relsOf_eq (e : RNode) : relsOf e = (cn .RELATION e.children).map recOf := rfl

theorem isNodeOf_node (k k' : Kind) (cs : List RNode) : isNodeOf k (.node k' cs) = (k' == k) := by
  simp [isNodeOf]

theorem isNodeOf_kind {k : Kind} {x : RNode} (h : isNodeOf k x = true) : x.kind = k := by
  simp only [isNodeOf, Bool.and_eq_true, beq_iff_eq] at h; exact h.2

/-! ### an edit of one entry's children -/

/-- shape of the root after the children of the entry at `p` were replaced -/
theorem entryEdit_kids (f : Field) (p : Nat) (c : Cut) (lost : Nat → Option Str)
    (pre : List RNode) (e : RNode) (post : List RNode) (hk : f.kids = pre ++ e :: post) (hl : pre.length = p) :
    (f.entryEdit p c lost).kids = pre ++ [.node e.kind c.kids] ++ post := by
  subst hl
  simp only [Field.entryEdit, hk, getElem?_split, replaceAt_split]

theorem entryKids_split (f : Field) (pre : List RNode) (e : RNode) (post : List RNode)
    (hk : f.kids = pre ++ e :: post) : f.entryKids pre.length = e.children := by
  simp [Field.entryKids, hk]

/-- an edit of the children of the `i`-th entry changes that entry's alternatives only -/
theorem abs_entryEdit (f : Field) (i p : Nat) (c : Cut) (lost : Nat → Option Str)
    (g : List RelRec → List RelRec)
    (hp : nthNode .ENTRY f.kids i = some p)
    (hc : (cn .RELATION c.kids).map recOf = g ((cn .RELATION (f.entryKids p)).map recOf)) :
    absKids (f.entryEdit p c lost).kids = S.modEntry (absKids f.kids) i g := by
  obtain ⟨pre, e, post, hk, hl, he, hcnt⟩ := nthPos_some hp
  rw [entryEdit_kids f p c lost pre e post hk hl, hk]
  subst hl
  rw [entryKids_split f pre e post hk] at hc
  have hek : e.kind = .ENTRY := isNodeOf_kind he
  rw [absKids_append, absKids_append, absKids_append, absKids_cons e post,
    absKids_entry e he, absKids_entry _ (by simp [isNodeOf_node, hek]), relsOf_node, hc, ← relsOf_eq]
  have : i = S.nEntries (absKids pre) := by rw [nEntries_abs, hcnt]
  rw [this, S.modEntry]
  simpa using (S.updEntry_at (fun rs => [ItemS.alts (g rs)]) (absKids pre) (relsOf e) (absKids post)).symm

/-- the relation at `(p, q)` is rewritten: the list model changes at `(i, j)` only -/
theorem abs_relEdit (f : Field) (i j p q : Nat) (g : RNode → RNode) (G : RelRec → RelRec)
    (hp : nthNode .ENTRY f.kids i = some p) (hq : nthNode .RELATION (f.entryKids p) j = some q)
    (hg : ∀ r, (f.entryKids p)[q]? = some r → isNodeOf .RELATION r = true →
      isNodeOf .RELATION (g r) = true ∧ recOf (g r) = G (recOf r)) :
    absKids (f.relEdit p q g).kids = S.modRel (absKids f.kids) i j G := by
  obtain ⟨pre, e, post, hk, hl, he, hcnt⟩ := nthPos_some hp
  obtain ⟨pre', r, post', hk', hl', hr, hcnt'⟩ := nthPos_some hq
  subst hl
  have hek := entryKids_split f pre e post hk
  rw [hek] at hk'
  have hrel : (f.relEdit pre.length q g).kids
      = (f.entryEdit pre.length ⟨replaceAt e.children q [g r], Remap.id⟩).kids := by
    subst hl'
    simp only [Field.relEdit, Field.entryEdit, hk, getElem?_split, hk']
  rw [hrel, S.modRel]
  apply abs_entryEdit f i pre.length _ _ _ hp
  rw [hek, hk'] at hg ⊢
  subst hl'
  obtain ⟨hg1, hg2⟩ := hg r (getElem?_split _ _ _) hr
  rw [replaceAt_split, cn_split .RELATION (pre' ++ r :: post') pre'.length]
  simp only [List.take_left', List.drop_left', List.append_assoc]
  rw [cn_cons .RELATION r post', cn_of_isNodeOf hr]
  rw [show pre' ++ ([g r] ++ post') = pre' ++ g r :: post' from rfl,
    cn_split .RELATION (pre' ++ g r :: post') pre'.length]
  simp only [List.take_left', List.drop_left']
  rw [cn_cons .RELATION (g r) post', cn_of_isNodeOf hg1]
  have hj : j = ((cn .RELATION pre').map recOf).length := by
    rw [List.length_map, cn_length_countP, hcnt']
  simp only [List.map_append, List.map_cons, List.map_nil, List.singleton_append]
  rw [hj, modify_at, hg2]


/-! ### decompositions used by the structural operations -/

theorem abs_split {cs : List RNode} {i p : Nat} (hp : nthNode .ENTRY cs i = some p) :
    ∃ pre e post, cs = pre ++ e :: post ∧ pre.length = p ∧ isNodeOf .ENTRY e = true
      ∧ pre.countP (isNodeOf .ENTRY) = i ∧ S.nEntries (absKids pre) = i
      ∧ absKids cs = absKids pre ++ .alts (relsOf e) :: absKids post := by
  obtain ⟨pre, e, post, hk, hl, he, hcnt⟩ := nthPos_some hp
  refine ⟨pre, e, post, hk, hl, he, hcnt, by rw [nEntries_abs, hcnt], ?_⟩
  rw [hk, absKids_append, absKids_cons, absKids_entry e he]; rfl

theorem cn_append (k : Kind) (a b : List RNode) : cn k (a ++ b) = cn k a ++ cn k b := by simp [cn]

theorem cn_T (k k' : Kind) (s : String) (l : List RNode) : cn k (T k' s :: l) = cn k l := cn_tok _ _ _ _

theorem cn_dropWhile_ws (k : Kind) (hk : k ≠ .WHITESPACE ∧ k ≠ .NEWLINE) (l : List RNode) :
    cn k (l.dropWhile isWsElem) = cn k l := by
  conv => rhs; rw [← List.takeWhile_append_dropWhile (p := isWsElem) (l := l)]
  rw [cn_append, wsElem_cn k hk _ (fun x hx => mem_takeWhile_imp hx), List.nil_append]

theorem cn_dropTrailing_ws (k : Kind) (hk : k ≠ .WHITESPACE ∧ k ≠ .NEWLINE) (l : List RNode) :
    cn k (l.reverse.dropWhile isWsElem).reverse = cn k l := by
  obtain ⟨ws, e, hws⟩ := dropTrailing_spec isWsElem l
  conv => rhs; rw [e]
  rw [cn_append, wsElem_cn k hk _ hws, List.append_nil]

theorem cn_of_kind {k k' : Kind} {x : RNode} (h : (x.kind == k') = true) (hne : k' ≠ k) : cn k [x] = [] := by
  rw [cn_elem]
  have : x.kind = k' := by simpa using h
  simp [this, hne]

/-! ### `Entry::push` -/

theorem cn_entryPushIn (es : List RNode) (rel : RNode) (hr : isNodeOf .RELATION rel = true) :
    cn .RELATION (entryPushIn es rel).kids = cn .RELATION es ++ [rel] := by
  have hnew1 : ∀ b : Bool, cn .RELATION (if b then [rel]
      else [T .WHITESPACE " ", T .PIPE "|", T .WHITESPACE " ", rel]) = [rel] := by
    intro b; cases b <;> simp [cn_T, cn_of_isNodeOf hr]
  have hnew2 : ∀ b : Bool, cn .RELATION (if b then [rel]
      else [T .PIPE "|", T .WHITESPACE " ", rel]) = [rel] := by
    intro b; cases b <;> simp [cn_T, cn_of_isNodeOf hr]
  unfold entryPushIn
  cases hl : lastPos (isNodeOf .RELATION) es with
  | some last =>
    obtain ⟨pre, x, post, e, hlen, hx, hpost⟩ := lastPos_some hl
    have e2 : es = (pre ++ [x]) ++ post := by simp [e]
    have hl2 : (pre ++ [x]).length = last + 1 := by simp [hlen]
    simp only
    rw [e2, ← hl2, insertAt_split, cn_append, cn_append, cn_append, cn_none post hpost, hnew1]
    simp only [List.append_nil, List.append_assoc, List.cons_append, List.nil_append, List.append_cancel_left_eq]
    rw [cn_append, cn_cons .RELATION x post, cn_none post hpost]; simp
  | none =>
    have happ : ∀ new, insertAt es es.length new = es ++ new := by intro new; simp [insertAt]
    simp only
    rw [happ, cn_append, hnew2]

theorem abs_entryPushAt (f : Field) (i p : Nat) (rel : RNode)
    (hp : nthNode .ENTRY f.kids i = some p) (hr : isNodeOf .RELATION rel = true) :
    absKids (f.entryPushAt p rel).kids = S.entryPush (absKids f.kids) i (recOf rel) := by
  unfold Field.entryPushAt S.entryPush
  apply abs_entryEdit f i p _ _ _ hp
  rw [cn_entryPushIn _ _ hr]; simp

/-! ### `Relations::insert` / `push` / `replace` -/

theorem nEntries_append (a b : FieldS) : S.nEntries (a ++ b) = S.nEntries a + S.nEntries b := by
  simp [S.nEntries]

theorem abs_relationsInsert (cs : List RNode) (i : Nat) (entry : RNode) (he : isNodeOf .ENTRY entry = true) :
    absKids (relationsInsert cs i entry).kids = S.insert (absKids cs) i (relsOf entry) := by
  unfold relationsInsert
  cases hn : nthNode .ENTRY cs i with
  | some pos =>
    obtain ⟨pre, x, post, hk, hl, hx, hcnt, hne, habs⟩ := abs_split hn
    have hlt : i < S.nEntries (absKids cs) := by
      rw [habs, nEntries_append, hne]; simp [S.nEntries, List.countP_cons, ItemS.isAlts]
    simp only [S.insert, if_pos hlt]
    subst hl
    rw [habs, ← hne, S.updEntry_at]
    rw [hk, insertAt_split, absKids_append, absKids_append, absKids_cons entry, absKids_entry entry he,
      absKids_T, absKids_T, absKids_cons x, absKids_entry x hx]
    simp [absKids]
  | none =>
    have hle := nthPos_none hn
    have hnl : ¬ i < S.nEntries (absKids cs) := by rw [nEntries_abs]; omega
    simp only [S.insert, if_neg hnl]
    have happ : ∀ new, insertAt cs cs.length new = cs ++ new := by intro new; simp [insertAt]
    cases hlast : lastPos isItemNode cs with
    | none =>
      simp only
      rw [happ, absKids_append, absKids_entry entry he]
    | some last =>
      simp only
      have hnew : ∀ b : Bool, absKids (if b then [entry] else [T .WHITESPACE " ", entry])
          = [.alts (relsOf entry)] := by
        intro b; cases b <;> simp [absKids_T, absKids_entry entry he]
      by_cases htc : ((cs.drop (last + 1)).any fun c => c.kind == Kind.COMMA) = true
      · rw [if_pos htc]
        simp only
        rw [happ, absKids_append, hnew]
      · rw [if_neg htc]
        obtain ⟨pre, x, post, e, hlen, hx, hpost⟩ := lastPos_some hlast
        have e2 : cs = (pre ++ [x]) ++ post := by simp [e]
        have hl2 : (pre ++ [x]).length = last + 1 := by simp [hlen]
        rw [← hl2]
        conv => lhs; rw [e2, insertAt_split]
        rw [absKids_append, absKids_append, absKids_T, absKids_T, absKids_entry entry he,
          absKids_none post hpost]
        conv => rhs; rw [e2, absKids_append, absKids_none post hpost]
        simp

theorem abs_insert (f : Field) (i : Nat) (entry : RNode) (he : isNodeOf .ENTRY entry = true) :
    absKids (f.insert i entry).kids = S.insert (absKids f.kids) i (relsOf entry) :=
  abs_relationsInsert f.kids i entry he

theorem abs_push (f : Field) (entry : RNode) (he : isNodeOf .ENTRY entry = true) :
    absKids (f.push entry).kids = S.push (absKids f.kids) (relsOf entry) := by
  have : absKids (f.push entry).kids = S.insert (absKids f.kids) (f.kids.countP (isNodeOf .ENTRY)) (relsOf entry) :=
    abs_relationsInsert f.kids (f.kids.countP (isNodeOf .ENTRY)) entry he
  rw [this, ← nEntries_abs]
  simp [S.insert, S.push]

theorem abs_replace (f f' : Field) (i : Nat) (entry : RNode) (he : isNodeOf .ENTRY entry = true)
    (h : f.replace i entry = .ok f') :
    absKids f'.kids = S.replace (absKids f.kids) i (relsOf entry) := by
  unfold Field.replace at h
  cases hn : nthNode .ENTRY f.kids i with
  | none => rw [hn] at h; simp at h
  | some p =>
    rw [hn] at h
    simp only [Outcome.ok.injEq] at h
    obtain ⟨pre, x, post, hk, hl, hx, hcnt, hne, habs⟩ := abs_split hn
    subst hl
    have hk2 : f'.kids = pre ++ [entry] ++ post := by
      rw [← h]
      simp only [Field.rootEdit, hk]
      rw [show List.take pre.length (pre ++ x :: post) ++ List.drop (pre.length + 1) (pre ++ x :: post)
        = pre ++ post from by simp, insertAt_split]
    rw [hk2, habs, ← hne, S.replace, S.updEntry_at, absKids_append, absKids_append, absKids_entry entry he]

theorem replace_panics (f : Field) (i : Nat) (entry : RNode) (h : f.kids.countP (isNodeOf .ENTRY) ≤ i) :
    f.replace i entry = .panic "Relations::replace: unwrap" := by
  unfold Field.replace
  cases hn : nthNode .ENTRY f.kids i with
  | none => rfl
  | some p =>
    obtain ⟨pre, x, post, hk, hl, hx, hcnt⟩ := nthPos_some hn
    rw [hk] at h
    simp [List.countP_cons, hx, hcnt] at h
    omega


/-! ### `Entry::remove` -/

theorem absKids_kind {x : RNode} {k : Kind} (h : (x.kind == k) = true) (hk : k ≠ .ENTRY ∧ k ≠ .SUBSTVAR)
    (l : List RNode) : absKids (x :: l) = absKids l := by
  rw [absKids_cons, absKids_none [x] (by intro y hy; simp at hy; subst hy; exact isItemNode_of_kind h hk)]; rfl

theorem abs_entryRemove (pre : List RNode) (x : RNode) (post : List RNode) (c : Cut)
    (h : entryRemove (pre ++ x :: post) pre.length = .ok c) :
    absKids c.kids = absKids pre ++ absKids post := by
  have ht : (pre ++ x :: post).take pre.length = pre := by simp
  have hd : (pre ++ x :: post).drop (pre.length + 1) = post := by simp
  have hpost : absKids post = absKids (post.dropWhile isWsElem) := (absKids_dropWhile_ws post).symm
  have hb : ∀ b : Bool, absKids (if b then (pre.reverse.dropWhile isWsElem).reverse else pre) = absKids pre := by
    intro b; cases b <;> simp [absKids_dropTrailing_ws]
  unfold entryRemove at h
  simp only [ht, hd] at h
  cases hdw : post.dropWhile isWsElem with
  | nil =>
    rw [hdw] at h hpost
    simp only [Outcome.ok.injEq] at h
    rw [← h, hpost]
    simp only [absKids, List.filterMap_nil, List.append_nil]
    have hdt := absKids_dropTrailing_ws pre
    simp only [absKids] at hdt
    split
    · split
      · rename_i y r hb1
        rw [hb1] at hdt
        split
        · rename_i hy
          rw [← hdt, List.reverse_cons, List.filterMap_append]
          have := absKids_kind hy (by decide) []
          simp only [absKids] at this
          rw [this]; simp
        · rw [hb1]; exact hdt
      · rename_i hb1
        rw [hb1] at hdt
        exact hdt
    · rfl
  | cons x' rest =>
    rw [hdw] at h hpost
    simp only at h
    by_cases hc : (x'.kind == Kind.COMMA) = true
    · rw [if_pos hc] at h
      simp only [Outcome.ok.injEq] at h
      rw [← h, absKids_append, hb, hpost, absKids_kind hc (by decide)]
      congr 1
      split
      · simp
      · simp [absKids_dropWhile_ws]
    · rw [if_neg hc] at h; cases h

theorem abs_removeEntryAt (f f' : Field) (i p : Nat) (hp : nthNode .ENTRY f.kids i = some p)
    (h : f.removeEntryAt p = .ok f') :
    absKids f'.kids = S.removeEntry (absKids f.kids) i := by
  obtain ⟨pre, x, post, hk, hl, hx, hcnt, hne, habs⟩ := abs_split hp
  subst hl
  unfold Field.removeEntryAt at h
  cases hc : entryRemove f.kids pre.length with
  | panic s => rw [hc] at h; simp [Outcome.map] at h
  | ok c =>
    rw [hc] at h
    simp only [Outcome.map, Outcome.ok.injEq] at h
    rw [hk] at hc
    rw [← h, habs, ← hne, S.removeEntry, S.updEntry_at]
    simpa [Field.rootEdit] using abs_entryRemove pre x post c hc

theorem abs_removeEntry (f f' : Field) (i : Nat) (h : f.removeEntry i = .ok f') :
    absKids f'.kids = S.removeEntry (absKids f.kids) i := by
  unfold Field.removeEntry at h
  cases hn : nthNode .ENTRY f.kids i with
  | none => rw [hn] at h; simp at h
  | some p => rw [hn] at h; exact abs_removeEntryAt f f' i p hn h

/-! ### `Relation::remove` -/

theorem cn_relationRemoveIn (pre : List RNode) (r : RNode) (post : List RNode) (c : Cut)
    (h : relationRemoveIn (pre ++ r :: post) pre.length = .ok c) :
    cn .RELATION c.kids = cn .RELATION pre ++ cn .RELATION post := by
  have ht : (pre ++ r :: post).take pre.length = pre := by simp
  have hd : (pre ++ r :: post).drop (pre.length + 1) = post := by simp
  have hk : (Kind.RELATION ≠ .WHITESPACE ∧ Kind.RELATION ≠ .NEWLINE) := by decide
  unfold relationRemoveIn at h
  simp only [ht, hd] at h
  have hrev : ∀ l : List RNode, cn .RELATION (l.dropWhile isWsElem).reverse = cn .RELATION l.reverse := by
    intro l
    have := cn_dropTrailing_ws .RELATION hk l.reverse
    rwa [List.reverse_reverse] at this
  split at h
  · simp only [Outcome.ok.injEq] at h
    rw [← h, cn_append]
    congr 1
    have hdt := cn_dropTrailing_ws .RELATION hk pre
    rw [hrev]
    split
    · rename_i y r' hb1
      rw [hb1] at hdt
      split
      · rename_i hy
        rw [← hdt, List.reverse_cons, cn_append, cn_of_kind hy (by decide), List.append_nil]
      · rw [hb1]; exact hdt
    · rename_i hb1
      rw [hb1] at hdt
      exact hdt
  · split at h
    · split at h
      · rename_i x' r' hdw hx'
        simp only [Outcome.ok.injEq] at h
        rw [← h, cn_append, cn_dropWhile_ws .RELATION hk]
        congr 1
        have := cn_dropWhile_ws .RELATION hk post
        rw [hdw, cn_cons, cn_of_kind hx' (by decide), List.nil_append] at this
        exact this
      · cases h
    · rename_i hdw
      simp only [Outcome.ok.injEq] at h
      have := cn_dropWhile_ws .RELATION hk post
      rw [hdw] at this
      rw [← h, ← this]; simp [cn]


theorem cn_isEmpty_any (k : Kind) (l : List RNode) : (cn k l).isEmpty = !(l.any (isNodeOf k)) := by
  induction l with
  | nil => rfl
  | cons a l ih =>
    rw [cn_cons, List.any_cons]
    by_cases h : isNodeOf k a = true
    · rw [cn_of_isNodeOf h, h]; simp
    · have h' : isNodeOf k a = false := by simpa using h
      rw [cn_none [a] (by intro y hy; simp at hy; subst hy; exact h'), h']
      simpa using ih

theorem abs_removeRelationAt (f f' : Field) (i j p q : Nat)
    (hp : nthNode .ENTRY f.kids i = some p) (hq : nthNode .RELATION (f.entryKids p) j = some q)
    (h : f.removeRelationAt p q = .ok f') :
    absKids f'.kids = S.removeRel (absKids f.kids) i j := by
  obtain ⟨pre, e, post, hk, hl, he, hcnt, hne, habs⟩ := abs_split hp
  obtain ⟨pre', r, post', hk', hl', hr, hcnt'⟩ := nthPos_some hq
  subst hl; subst hl'
  have hek := entryKids_split f pre e post hk
  rw [hek] at hk'
  unfold Field.removeRelationAt at h
  rw [hek, hk'] at h
  cases hc : relationRemoveIn (pre' ++ r :: post') pre'.length with
  | panic s => rw [hc] at h; simp [Outcome.bind] at h
  | ok c =>
    rw [hc] at h
    simp only [Outcome.bind] at h
    have hcn := cn_relationRemoveIn pre' r post' c hc
    have hf1 : (f.entryEdit pre.length c).kids = pre ++ [.node e.kind c.kids] ++ post :=
      entryEdit_kids f _ c _ pre e post hk rfl
    have hrs : relsOf e = (cn .RELATION pre').map recOf ++ recOf r :: (cn .RELATION post').map recOf := by
      rw [relsOf_eq, hk', cn_append, cn_cons, cn_of_isNodeOf hr]; simp
    have her : (relsOf e).eraseIdx j = (cn .RELATION c.kids).map recOf := by
      have : j = ((cn .RELATION pre').map recOf).length := by rw [List.length_map, cn_length_countP, hcnt']
      rw [hrs, hcn, this, eraseIdx_at]; simp
    have hek1 : (f.entryEdit pre.length c).entryKids pre.length = c.kids := by
      simp [Field.entryKids, hf1]
    rw [hek1] at h
    have hemp : ((relsOf e).eraseIdx j).isEmpty = !(c.kids.any (isNodeOf .RELATION)) := by
      rw [her, ← cn_isEmpty_any]; simp
    rw [habs, ← hne, S.removeRel, S.updEntry_at, hemp]
    have hab1 : absKids (f.entryEdit pre.length c).kids
        = absKids pre ++ .alts ((relsOf e).eraseIdx j) :: absKids post := by
      rw [hf1, absKids_append, absKids_append,
        absKids_entry _ (by simp [isNodeOf_node, isNodeOf_kind he]), relsOf_node, her]; simp
    by_cases hany : c.kids.any (isNodeOf .RELATION) = true
    · rw [hany] at h ⊢
      simp only [Bool.not_true, Bool.false_eq_true, ↓reduceIte, Outcome.ok.injEq] at h ⊢
      rw [← h, hab1]; simp
    · have hany' : c.kids.any (isNodeOf .RELATION) = false := by simpa using hany
      rw [hany'] at h ⊢
      simp only [Bool.not_false, ↓reduceIte] at h ⊢
      have hp1 : nthNode .ENTRY (f.entryEdit pre.length c).kids i = some pre.length := by
        rw [hf1, ← hcnt, show pre ++ [Node.node e.kind c.kids] ++ post = pre ++ Node.node e.kind c.kids :: post
          from by simp]
        exact nthPos_split pre _ post (by simp [isNodeOf_node, isNodeOf_kind he])
      rw [abs_removeEntryAt _ f' i pre.length hp1 h, hab1, ← hne, S.removeEntry, S.updEntry_at]

theorem abs_removeRelation (f f' : Field) (i j : Nat) (h : f.removeRelation i j = .ok f') :
    absKids f'.kids = S.removeRel (absKids f.kids) i j := by
  unfold Field.removeRelation at h
  cases hn : nthNode .ENTRY f.kids i with
  | none => rw [hn] at h; simp at h
  | some p =>
    rw [hn] at h
    simp only at h
    cases hm : nthNode .RELATION (f.entryKids p) j with
    | none => rw [hm] at h; simp at h
    | some q => rw [hm] at h; exact abs_removeRelationAt f f' i j p q hn hm h

/-! ### `Entry::replace` -/

/-- no whitespace token at either end of the node -/
def trimmed (rel : RNode) : Prop :=
  rel.children.takeWhile isWsElem = [] ∧ rel.children.reverse.takeWhile isWsElem = []

theorem recC_wrap (h n t : List RNode) (hh : ∀ x ∈ h, isWsElem x = true) (ht : ∀ x ∈ t, isWsElem x = true) :
    recC (h ++ n ++ t) = recC n := by
  have hc : ∀ k, (k ≠ Kind.WHITESPACE ∧ k ≠ Kind.NEWLINE) → cn k (h ++ n ++ t) = cn k n := by
    intro k hk
    rw [cn_append, cn_append, wsElem_cn k hk h hh, wsElem_cn k hk t ht]; simp
  have e1 := hc .ARCHQUAL (by decide)
  have e2 := hc .VERSION (by decide)
  have e3 := hc .ARCHITECTURES (by decide)
  have e4 := hc .PROFILES (by decide)
  simp only [recC, aqC, verC, archC, profC, e1, e2, e3, e4, RelRec.mk.injEq, and_true]
  rw [List.findSome?_append, List.findSome?_append, wsElem_identF h hh, wsElem_identF t ht]
  simp

/-- stripping the whitespace run at the front and then as many elements at the back as the
    whitespace run there is long: what goes is whitespace -/
theorem strip_spec (n : List RNode) :
    ∃ h t, (∀ x ∈ h, isWsElem x = true) ∧ (∀ x ∈ t, isWsElem x = true)
      ∧ n = h ++ ((n.drop (n.takeWhile isWsElem).length).take
            ((n.drop (n.takeWhile isWsElem).length).length - (n.reverse.takeWhile isWsElem).length)) ++ t := by
  have hd : n.drop (n.takeWhile isWsElem).length = n.dropWhile isWsElem := by
    have := congrArg (List.drop (n.takeWhile isWsElem).length)
      (List.takeWhile_append_dropWhile (p := isWsElem) (l := n))
    exact this.symm.trans (List.drop_left' rfl)
  have hn : n = n.takeWhile isWsElem ++ n.drop (n.takeWhile isWsElem).length := by
    rw [hd]; exact (List.takeWhile_append_dropWhile (p := isWsElem) (l := n)).symm
  generalize hn1 : n.drop (n.takeWhile isWsElem).length = n1 at hn ⊢
  refine ⟨n.takeWhile isWsElem, n1.drop (n1.length - (n.reverse.takeWhile isWsElem).length),
    fun x hx => mem_takeWhile_imp hx, ?_, ?_⟩
  · -- the dropped tail is a suffix of the trailing whitespace run
    have hT : (n.reverse.takeWhile isWsElem).reverse <:+ n := by
      have h2 := congrArg List.reverse (List.takeWhile_append_dropWhile (p := isWsElem) (l := n.reverse))
      simp only [List.reverse_append, List.reverse_reverse] at h2
      exact ⟨_, h2⟩
    have ht1 : n1.drop (n1.length - (n.reverse.takeWhile isWsElem).length) <:+ n :=
      List.IsSuffix.trans (List.drop_suffix _ _) ⟨_, hn.symm⟩
    have hlen : (n1.drop (n1.length - (n.reverse.takeWhile isWsElem).length)).length
        ≤ ((n.reverse.takeWhile isWsElem).reverse).length := by
      simp only [List.length_drop, List.length_reverse]; omega
    have hsuf := List.suffix_of_suffix_length_le ht1 hT hlen
    intro x hx
    have : x ∈ n.reverse.takeWhile isWsElem := by
      have := hsuf.subset hx
      simpa using this
    exact mem_takeWhile_imp this
  · conv => lhs; rw [hn]
    rw [List.append_assoc, List.take_append_drop]

/-- the record of the grafted relation is the record of the operand -/
theorem recOf_graftWs (old new : RNode) : recOf (graftWs old new).1 = recOf new := by
  obtain ⟨h, t, hh, ht, e⟩ := strip_spec new.children
  rw [recOf_eq, recOf_eq new]
  conv => rhs; rw [e]
  simp only [graftWs, children_node]
  rw [recC_wrap _ _ _ hh ht]
  exact recC_wrap _ _ _ (fun x hx => mem_takeWhile_imp hx) (fun x hx => mem_takeWhile_imp (by simpa using hx))

theorem graftWs_kind (old new : RNode) : (graftWs old new).1.kind = new.kind := rfl

theorem graftWs_trimmed_eq (old new : RNode) (hn : trimmed new) :
    (graftWs old new).1 = .node new.kind (old.children.takeWhile isWsElem ++ new.children
        ++ (old.children.reverse.takeWhile isWsElem).reverse) := by
  simp [graftWs, hn.1, hn.2]

theorem abs_entryReplaceAt (f f' : Field) (i j p : Nat) (rel : RNode)
    (hp : nthNode .ENTRY f.kids i = some p) (hr : isNodeOf .RELATION rel = true)
    (h : f.entryReplaceAt p j rel = .ok f') :
    absKids f'.kids = S.entryReplace (absKids f.kids) i j (recOf rel) := by
  obtain ⟨pre, e, post, hk, hl, he, hcnt, hne, habs⟩ := abs_split hp
  subst hl
  have hek := entryKids_split f pre e post hk
  unfold Field.entryReplaceAt at h
  rw [hek] at h
  cases hq : nthNode .RELATION e.children j with
  | none => rw [hq] at h; simp at h
  | some q =>
    rw [hq] at h
    obtain ⟨pre', r, post', hk', hl', hr', hcnt'⟩ := nthPos_some hq
    subst hl'
    simp only [entryReplaceIn, hk', getElem?_split, Outcome.map, Outcome.ok.injEq] at h
    have hf1 := entryEdit_kids f pre.length
      ⟨List.take pre'.length (pre' ++ r :: post') ++ List.drop (pre'.length + 1) (pre' ++ r :: post'),
        Remap.cut pre'.length (pre'.length + 1)⟩
      (fun x => if x = pre'.length then some (graftWs r rel).2.text else none) pre e post hk rfl
    have hk2 : f'.kids = pre ++ [.node e.kind (replaceAt (pre' ++ r :: post') pre'.length
        [(graftWs r rel).1])] ++ post := by
      rw [← h]
      rw [entryEdit_kids _ pre.length _ _ pre (Node.node e.kind (List.take pre'.length (pre' ++ r :: post')
        ++ List.drop (pre'.length + 1) (pre' ++ r :: post'))) post (by rw [hf1]; simp) rfl]
      rfl
    have hnew : isNodeOf .RELATION (graftWs r rel).1 = true := by
      simp [graftWs, isNodeOf_node, isNodeOf_kind hr]
    have hrec := recOf_graftWs r rel
    rw [hk2, habs, ← hne, S.entryReplace, S.modRel, S.modEntry, S.updEntry_at,
      absKids_append, absKids_append, absKids_entry _ (by simp [isNodeOf_node, isNodeOf_kind he]),
      relsOf_node, replaceAt_split, relsOf_eq, hk']
    simp only [cn_append, cn_cons .RELATION r post', cn_of_isNodeOf hr', cn_of_isNodeOf hnew,
      List.map_append, List.map_cons, List.map_nil]
    have hj : j = ((cn .RELATION pre').map recOf).length := by
      rw [List.length_map, cn_length_countP, hcnt']
    rw [show List.map recOf (cn Kind.RELATION pre') ++ ([recOf r] ++ List.map recOf (cn Kind.RELATION post'))
      = List.map recOf (cn Kind.RELATION pre') ++ recOf r :: List.map recOf (cn Kind.RELATION post') from rfl,
      hj, modify_at, hrec]
    simp

end Deb822Verif.Rel.Edit
