import Deb822Verif.Lemmas.DebWrapPara
/-!
  Idempotence of the wrap-and-sort model, entry level: reading back the tokens of a rebuilt value
  and rebuilding them again gives the same token sequence (`rebuildValue_reread`), hence
  `entryWrap` is the identity on its own results (`entryWrap_idem`).
-/
namespace Deb822Verif.Deb
open Deb822Verif Node

abbrev nlwsT : Tok → Bool := fun t => t.1 == .NEWLINE || t.1 == .WHITESPACE
abbrev nlwsN : DNode → Bool := fun c => c.kind == .NEWLINE || c.kind == .WHITESPACE

/-- the last token is neither NEWLINE nor WHITESPACE -/
def NoTrail (ts : List Tok) : Prop := ∀ t, ts.getLast? = some t → nlwsT t = false
/-- only ERROR / COMMENT / VALUE / WHITESPACE / NEWLINE tokens -/
def ContentToks (ts : List Tok) : Prop := ∀ t ∈ ts, contentKinds (tk t) = true

theorem dropTrailing_concat_pos (q : DNode → Bool) (l : List DNode) (x : DNode) (h : q x = true) :
    dropTrailing q (l ++ [x]) = dropTrailing q l := by
  simp [dropTrailing, List.reverse_append, h]

theorem dropTrailing_nil (q : DNode → Bool) : dropTrailing q [] = [] := rfl

theorem dropTrailing_map_tk (ts : List Tok) (h : NoTrail ts) : dropTrailing nlwsN (ts.map tk) = ts.map tk := by
  cases hl : ts.getLast? with
  | none => rw [List.getLast?_eq_none_iff] at hl; subst hl; rfl
  | some b =>
    obtain ⟨ys, rfl⟩ := List.getLast?_eq_some_iff.1 hl
    have hb : nlwsT b = false := h b hl
    have hb' : nlwsN (tk b) = false := hb
    simp only [dropTrailing, List.map_append, List.map_cons, List.map_nil, List.reverse_append,
      List.reverse_cons, List.reverse_nil, List.nil_append, List.singleton_append]
    rw [List.dropWhile_cons_of_neg (by simp [hb'])]
    simp

theorem noTrail_of_dropTrailing (l : List DNode) (ts : List Tok) (h : dropTrailing nlwsN l = ts.map tk) :
    NoTrail ts := by
  intro t ht
  have h1 : (ts.map tk).getLast? = some (tk t) := by simp [ht]
  rw [← h] at h1
  simp only [dropTrailing, List.getLast?_reverse] at h1
  have := List.head?_dropWhile_not nlwsN l.reverse
  rw [h1] at this
  exact this

theorem noTrail_cons (t : Tok) (s : List Tok) (hs : s ≠ []) (h : NoTrail s) : NoTrail (t :: s) := by
  intro x hx
  cases s with
  | nil => exact absurd rfl hs
  | cons a r => rw [List.getLast?_cons_cons] at hx; exact h x hx

theorem noTrail_tail (t : Tok) (s : List Tok) (hs : s ≠ []) (h : NoTrail (t :: s)) : NoTrail s := by
  intro x hx
  cases s with
  | nil => exact absurd rfl hs
  | cons a r => exact h x (by rw [List.getLast?_cons_cons]; exact hx)

/-! ### `rbStrip` -/

theorem rbStrip_cons_pos (t : Tok) (ts : List Tok) (h : nlwsT t = true) : rbStrip (t :: ts) = rbStrip ts := by
  unfold rbStrip; exact List.dropWhile_cons_of_pos h

theorem rbStrip_cons_neg (t : Tok) (ts : List Tok) (h : nlwsT t = false) : rbStrip (t :: ts) = t :: ts := by
  unfold rbStrip; exact List.dropWhile_cons_of_neg (by simp [h])

theorem rbStrip_head (ts : List Tok) : ∀ t r, rbStrip ts = t :: r → nlwsT t = false := by
  intro t r h
  have := List.head?_dropWhile_not nlwsT ts
  unfold rbStrip at h
  rw [h] at this
  exact this

theorem rbStrip_idem (ts : List Tok) : rbStrip (rbStrip ts) = rbStrip ts := by
  cases h : rbStrip ts with
  | nil => rfl
  | cons t r => exact rbStrip_cons_neg t r (rbStrip_head ts t r h)

theorem rbStrip_suffix (ts : List Tok) : ∃ pre, ts = pre ++ rbStrip ts ∧ ∀ t ∈ pre, nlwsT t = true := by
  refine ⟨ts.takeWhile nlwsT, ?_, ?_⟩
  · unfold rbStrip; exact (List.takeWhile_append_dropWhile).symm
  · intro t ht; exact List.all_eq_true.1 (List.all_takeWhile (p := nlwsT) (l := ts)) t ht

theorem noTrail_strip (ts : List Tok) (h : NoTrail ts) : NoTrail (rbStrip ts) := by
  obtain ⟨pre, he, _⟩ := rbStrip_suffix ts
  intro t ht
  apply h t
  rw [he, List.getLast?_append, ht]; rfl

theorem strip_nil (ts : List Tok) (h : NoTrail ts) (hs : rbStrip ts = []) : ts = [] := by
  obtain ⟨pre, he, hp⟩ := rbStrip_suffix ts
  rw [hs, List.append_nil] at he
  cases hl : ts.getLast? with
  | none => exact List.getLast?_eq_none_iff.1 hl
  | some b =>
    have h1 := h b hl
    have h2 := hp b (by rw [← he]; exact List.mem_of_getLast? hl)
    rw [h1] at h2; cases h2

theorem hasNewline_strip (ts : List Tok) (h : rbHasNewline (rbStrip ts) = true) : rbHasNewline ts = true := by
  obtain ⟨pre, he, _⟩ := rbStrip_suffix ts
  unfold rbHasNewline at h ⊢
  rw [he, List.any_append, h, Bool.or_true]

theorem firstIsComment_cons_pos (t : Tok) (ts : List Tok) (h : nlwsT t = true) :
    rbFirstIsComment (t :: ts) = rbFirstIsComment ts := by
  unfold rbFirstIsComment
  have : (t.1 != Kind.NEWLINE && t.1 != Kind.WHITESPACE) = false := by
    simp only [Bool.or_eq_true, beq_iff_eq] at h
    rcases h with h | h <;> simp [h]
  simp only [List.find?_cons, this]

theorem firstIsComment_strip (ts : List Tok) : rbFirstIsComment (rbStrip ts) = rbFirstIsComment ts := by
  induction ts with
  | nil => rfl
  | cons t ts ih =>
    by_cases h : nlwsT t = true
    · rw [rbStrip_cons_pos t ts h, firstIsComment_cons_pos t ts h, ih]
    · rw [rbStrip_cons_neg t ts (by simpa using h)]

theorem firstIsHash_cons_pos (t : Tok) (ts : List Tok) (h : nlwsT t = true) :
    rbFirstIsHash (t :: ts) = rbFirstIsHash ts := by
  unfold rbFirstIsHash
  rw [firstIsComment_cons_pos t ts h]
  have : (t.1 != Kind.NEWLINE && t.1 != Kind.WHITESPACE) = false := by
    simp only [Bool.or_eq_true, beq_iff_eq] at h
    rcases h with h | h <;> simp [h]
  simp only [List.find?_cons, this]

theorem firstIsHash_strip (ts : List Tok) : rbFirstIsHash (rbStrip ts) = rbFirstIsHash ts := by
  induction ts with
  | nil => rfl
  | cons t ts ih =>
    by_cases h : nlwsT t = true
    · rw [rbStrip_cons_pos t ts h, firstIsHash_cons_pos t ts h, ih]
    · rw [rbStrip_cons_neg t ts (by simpa using h)]

/-! ### `rbGo` -/

theorem go_flag (ind : Nat) (s : List Tok) (b : Bool) (hs : s ≠ []) (h : NoTrail s) :
    (rbGo ind s b).2 = false := by
  induction s generalizing b with
  | nil => exact absurd rfl hs
  | cons t r ih =>
    simp only [rbGo]
    cases r with
    | nil =>
      simp only [rbGo]
      have := h t rfl
      simp only [Bool.or_eq_false_iff] at this
      exact this.1
    | cons a r' => exact ih _ (by simp) (noTrail_tail t _ (by simp) h)

theorem go_filter (ind : Nat) (s : List Tok) (b : Bool) (h : ContentToks s) :
    (rbGo ind s b).1.filter contentKinds = s.map tk := by
  induction s generalizing b with
  | nil => rfl
  | cons t r ih =>
    simp only [rbGo, List.filter_append, List.map_cons]
    rw [ih _ (fun x hx => h x (by simp [hx]))]
    have h1 : (if b = true then [Node.tok Kind.INDENT (List.replicate ind ' ')] else []).filter contentKinds = [] := by
      split <;> simp [contentKinds, Node.kind]
    rw [h1]
    simp [List.filter_cons, h t (by simp)]

theorem go_noNewline (ind : Nat) (s : List Tok) (h : rbHasNewline s = false) :
    (rbGo ind s false).1 = s.map tk := by
  induction s with
  | nil => rfl
  | cons t r ih =>
    simp only [rbHasNewline, List.any_cons, Bool.or_eq_false_iff] at h
    simp only [rbGo, Bool.false_eq_true, ↓reduceIte, List.nil_append, List.map_cons, h.1]
    rw [ih (by simpa [rbHasNewline] using h.2)]
    rfl

theorem map_tk_filter (s : List Tok) (h : ContentToks s) : (s.map tk).filter contentKinds = s.map tk := by
  apply List.filter_eq_self.2
  intro c hc
  simp only [List.mem_map] at hc
  obtain ⟨t, ht, rfl⟩ := hc
  exact h t ht

/-! ### rebuilding what was rebuilt -/

/-- **`rebuild_value` is idempotent**: the content tokens of a rebuilt value (INDENTs discarded,
    trailing NEWLINE / WHITESPACE stripped — exactly what `Entry::wrap_and_sort` collects) are
    tokens `ts'` that rebuild to the same sequence, whatever the settings -/
theorem rebuildValue_reread (ts : List Tok) (kl ind : Nat) (imm : Bool) (mx : Option Nat)
    (hc : ContentToks ts) (hn : NoTrail ts) :
    ∃ ts', dropTrailing nlwsN ((rebuildValue ts kl ind imm mx).filter contentKinds) = ts'.map tk
      ∧ rebuildValue ts' kl ind imm mx = rebuildValue ts kl ind imm mx := by
  have hcs : ContentToks (rbStrip ts) := fun t ht => hc t ((List.dropWhile_sublist _).subset ht)
  have hns := noTrail_strip ts hn
  have hnlk : contentKinds (Node.tok Kind.NEWLINE ['\n']) = true := by simp [contentKinds, Node.kind]
  have hwsk : contentKinds (Node.tok Kind.WHITESPACE [' ']) = true := by simp [contentKinds, Node.kind]
  have hnlq : nlwsN (Node.tok Kind.NEWLINE ['\n']) = true := by simp [Node.kind]
  by_cases hA : (rbFits ts kl mx && !rbHasNewline ts) = true
  · -- one-liner: the tokens are copied
    refine ⟨ts, ?_, rfl⟩
    simp only [rebuildValue, hA, ↓reduceIte, List.filter_append, map_tk_filter ts hc]
    rw [show [Node.tok Kind.NEWLINE ['\n']].filter contentKinds = [Node.tok Kind.NEWLINE ['\n']] from by
      simp [List.filter_cons, hnlk]]
    rw [dropTrailing_concat_pos _ _ _ hnlq, dropTrailing_map_tk ts hn]
  · by_cases hB : (rbFirstIsComment ts || (imm && rbHasNewline ts && !rbFirstIsHash ts)) = true
    · -- value starting on a line of its own (multi-line with the setting on, or a leading comment)
      have hne : rbStrip ts ≠ [] := by
        intro he
        have := strip_nil ts hn he
        subst this
        simp [rbHasNewline, rbFirstIsComment] at hB
      have hflag := go_flag ind (rbStrip ts) true hne hns
      refine ⟨(.NEWLINE, ['\n']) :: rbStrip ts, ?_, ?_⟩
      · simp only [rebuildValue, hA, hB, ↓reduceIte, Bool.false_eq_true, hflag, rbClose,
          List.filter_cons, hnlk, List.filter_append, go_filter ind _ _ hcs, List.filter_nil]
        rw [dropTrailing_concat_pos _ _ _ hnlq]
        exact dropTrailing_map_tk ((Kind.NEWLINE, ['\n']) :: rbStrip ts) (noTrail_cons _ _ hne hns)
      · have hnl' : rbHasNewline ((Kind.NEWLINE, ['\n']) :: rbStrip ts) = true := by simp [rbHasNewline]
        have hA' : (rbFits ((Kind.NEWLINE, ['\n']) :: rbStrip ts) kl mx
            && !rbHasNewline ((Kind.NEWLINE, ['\n']) :: rbStrip ts)) = false := by simp [hnl']
        have hh : rbFirstIsHash ((Kind.NEWLINE, ['\n']) :: rbStrip ts) = rbFirstIsHash ts := by
          rw [firstIsHash_cons_pos _ _ (by rfl), firstIsHash_strip]
        have hcm : rbFirstIsComment ((Kind.NEWLINE, ['\n']) :: rbStrip ts) = rbFirstIsComment ts := by
          rw [firstIsComment_cons_pos _ _ (by rfl), firstIsComment_strip]
        have hB' : (rbFirstIsComment ((Kind.NEWLINE, ['\n']) :: rbStrip ts)
            || (imm && rbHasNewline ((Kind.NEWLINE, ['\n']) :: rbStrip ts)
            && !rbFirstIsHash ((Kind.NEWLINE, ['\n']) :: rbStrip ts))) = true := by
          rw [hh, hnl', hcm]
          cases hcc : rbFirstIsComment ts with
          | true => rfl
          | false =>
            rw [hcc] at hB
            have h1 : imm = true := by cases imm <;> simp_all
            have h2 : rbFirstIsHash ts = false := by cases hx : rbFirstIsHash ts <;> simp_all
            simp [h1, h2]
        have hst : rbStrip ((Kind.NEWLINE, ['\n']) :: rbStrip ts) = rbStrip ts := by
          rw [rbStrip_cons_pos _ _ (by rfl), rbStrip_idem]
        simp only [rebuildValue, hA', hB', hA, hB, hst, ↓reduceIte, Bool.false_eq_true]
    · -- value starting on the line of the field name
      by_cases hne : rbStrip ts = []
      · have := strip_nil ts hn hne
        subst this
        refine ⟨[], ?_, rfl⟩
        simp only [rebuildValue, hA, hB, ↓reduceIte, Bool.false_eq_true, rbStrip, List.dropWhile_nil, rbGo, rbClose,
          List.nil_append, List.filter_cons, hwsk, hnlk, List.filter_nil]
        rfl
      · have hflag := go_flag ind (rbStrip ts) false hne hns
        refine ⟨(.WHITESPACE, [' ']) :: rbStrip ts, ?_, ?_⟩
        · simp only [rebuildValue, hA, hB, ↓reduceIte, Bool.false_eq_true, hflag, rbClose,
            List.filter_cons, hwsk, hnlk, List.filter_append, go_filter ind _ _ hcs, List.filter_nil]
          rw [dropTrailing_concat_pos _ _ _ hnlq]
          exact dropTrailing_map_tk ((Kind.WHITESPACE, [' ']) :: rbStrip ts) (noTrail_cons _ _ hne hns)
        · have hnl' : rbHasNewline ((Kind.WHITESPACE, [' ']) :: rbStrip ts) = rbHasNewline (rbStrip ts) := by
            simp [rbHasNewline]
          have hh : rbFirstIsHash ((Kind.WHITESPACE, [' ']) :: rbStrip ts) = rbFirstIsHash ts := by
            rw [firstIsHash_cons_pos _ _ (by rfl), firstIsHash_strip]
          have hcm : rbFirstIsComment ((Kind.WHITESPACE, [' ']) :: rbStrip ts) = rbFirstIsComment ts := by
            rw [firstIsComment_cons_pos _ _ (by rfl), firstIsComment_strip]
          have hst : rbStrip ((Kind.WHITESPACE, [' ']) :: rbStrip ts) = rbStrip ts := by
            rw [rbStrip_cons_pos _ _ (by rfl), rbStrip_idem]
          have hcF : rbFirstIsComment ts = false := by
            cases hcc : rbFirstIsComment ts with
            | false => rfl
            | true => rw [hcc] at hB; simp at hB
          have hB' : (rbFirstIsComment ((Kind.WHITESPACE, [' ']) :: rbStrip ts)
              || (imm && rbHasNewline ((Kind.WHITESPACE, [' ']) :: rbStrip ts)
              && !rbFirstIsHash ((Kind.WHITESPACE, [' ']) :: rbStrip ts))) = false := by
            rw [hh, hnl', hcm, hcF]
            cases hsn : rbHasNewline (rbStrip ts) with
            | false => simp
            | true =>
              have := hasNewline_strip ts hsn
              rw [this, hcF] at hB
              simpa using hB
          have hfirst : rebuildValue ts kl ind imm mx =
              Node.tok .WHITESPACE [' '] :: (rbGo ind (rbStrip ts) false).1 ++ [Node.tok .NEWLINE ['\n']] := by
            simp only [rebuildValue, hA, hB, ↓reduceIte, Bool.false_eq_true, hflag, rbClose]
          rw [hfirst]
          by_cases hA' : (rbFits ((Kind.WHITESPACE, [' ']) :: rbStrip ts) kl mx
              && !rbHasNewline ((Kind.WHITESPACE, [' ']) :: rbStrip ts)) = true
          · have hno : rbHasNewline (rbStrip ts) = false := by
              rw [hnl'] at hA'
              simp only [Bool.and_eq_true, Bool.not_eq_true'] at hA'
              exact hA'.2
            simp only [rebuildValue, hA', ↓reduceIte, go_noNewline ind _ hno, List.map_cons]
          · simp only [rebuildValue, hA', hB', hst, ↓reduceIte, Bool.false_eq_true, hflag, rbClose]

/-! ### `entryWrap` on its own result -/

theorem headOf_fixed (c x : DNode) (h : headOf c = some x) :
    headOf x = some x ∧ contentKinds x = false ∧ x.isNode = false
      ∧ (x.kind = .KEY ∨ x.kind = .COLON) := by
  unfold headOf at h
  split at h <;> simp at h <;> subst h <;> simp [headOf, contentKinds, Node.kind, Node.isNode]

theorem heads_filterMap (cs : List DNode) :
    (cs.filterMap headOf).filterMap headOf = cs.filterMap headOf := by
  induction cs with
  | nil => rfl
  | cons c cs ih =>
    simp only [List.filterMap_cons]
    cases h : headOf c with
    | none => simpa using ih
    | some x => simp [List.filterMap_cons, (headOf_fixed c x h).1, ih]

theorem heads_content (cs : List DNode) : (cs.filterMap headOf).filter contentKinds = [] := by
  apply List.filter_eq_nil_iff.2
  intro x hx
  simp only [List.mem_filterMap] at hx
  obtain ⟨c, _, hc⟩ := hx
  simp [(headOf_fixed c x hc).2.1]

/-- the nodes `rebuild_value` appends are tokens of the kinds NEWLINE / WHITESPACE / INDENT or one
    of the input tokens -/
theorem go_mem (ind : Nat) (s : List Tok) (b : Bool) :
    ∀ n ∈ (rbGo ind s b).1, n = Node.tok .INDENT (List.replicate ind ' ') ∨ ∃ t ∈ s, n = tk t := by
  induction s generalizing b with
  | nil => simp [rbGo]
  | cons t r ih =>
    intro n hn
    simp only [rbGo, List.mem_append, List.mem_cons, List.not_mem_nil, or_false] at hn
    rcases hn with (hn | hn) | hn
    · split at hn
      · simp only [List.mem_cons, List.not_mem_nil, or_false] at hn; exact Or.inl hn
      · simp at hn
    · exact Or.inr ⟨t, by simp, hn⟩
    · rcases ih _ n hn with h | ⟨t', ht', h⟩
      · exact Or.inl h
      · exact Or.inr ⟨t', by simp [ht'], h⟩

theorem rebuildValue_mem (ts : List Tok) (kl ind : Nat) (imm : Bool) (mx : Option Nat) :
    ∀ n ∈ rebuildValue ts kl ind imm mx,
      n = Node.tok .INDENT (List.replicate ind ' ') ∨ n = Node.tok .NEWLINE ['\n']
        ∨ n = Node.tok .WHITESPACE [' '] ∨ ∃ t ∈ ts, n = tk t := by
  intro n hn
  have hsub : ∀ t ∈ rbStrip ts, t ∈ ts := fun t ht => (List.dropWhile_sublist _).subset ht
  have hclose : ∀ b, n ∈ rbClose b → n = Node.tok .NEWLINE ['\n'] := by
    intro b hb; cases b <;> simp [rbClose] at hb; exact hb
  unfold rebuildValue at hn
  split at hn
  · simp only [List.mem_append, List.mem_map, List.mem_cons, List.not_mem_nil, or_false] at hn
    rcases hn with ⟨t, ht, rfl⟩ | hn
    · exact Or.inr (Or.inr (Or.inr ⟨t, ht, rfl⟩))
    · exact Or.inr (Or.inl hn)
  · split at hn
    all_goals
      simp only [List.cons_append, List.mem_cons, List.mem_append] at hn
      rcases hn with hn | hn | hn
      · first
          | exact Or.inr (Or.inl hn)
          | exact Or.inr (Or.inr (Or.inl hn))
      · rcases go_mem ind _ _ n hn with h | ⟨t, ht, h⟩
        · exact Or.inl h
        · exact Or.inr (Or.inr (Or.inr ⟨t, hsub t ht, h⟩))
      · exact Or.inr (Or.inl (hclose _ hn))

/-- **entry level idempotence** (no formatter, every setting): reformatting a reformatted field
    returns it unchanged -/
theorem entryWrap_idem (cfg : WrapCfg) (e e' : DNode) (h : entryWrap cfg none e = some e') :
    entryWrap cfg none e' = some e' := by
  have hkv := entryWrap_content cfg e e' h
  unfold entryWrap at h
  split at h
  · simp at h
  · rename_i hbad
    split at h
    · simp at h
    · rename_i hind
      split at h
      · simp at h
      · rename_i ts hts
        simp only [Option.some.injEq] at h
        simp only [ewTokens] at hts
        have hcontent := allTokens_eq hts
        have hnt : NoTrail ts := noTrail_of_dropTrailing _ ts hcontent
        have hct : ContentToks ts := by
          intro t ht
          have hm : tk t ∈ ts.map tk := List.mem_map_of_mem ht
          rw [← hcontent] at hm
          have h1 := (List.dropWhile_sublist _).subset (List.mem_reverse.1 (by simpa [ewContent, dropTrailing] using hm))
          exact (List.mem_filter.1 (List.mem_reverse.1 h1)).2
        obtain ⟨ts', hre, hsame⟩ := rebuildValue_reread ts (ewKeyLen e) (ewIndent cfg e.children)
          cfg.immediateEmptyLine cfg.maxLineLengthOneLiner hct hnt
        -- the pieces of the second application
        have hch : e'.children = e.children.filterMap headOf ++
            rebuildValue ts (ewKeyLen e) (ewIndent cfg e.children) cfg.immediateEmptyLine cfg.maxLineLengthOneLiner := by
          rw [← h]; rfl
        have hkeyfind : e'.children.find? (isTokOf .KEY) = e.children.find? (isTokOf .KEY) := by
          have hnokey : ∀ t ∈ ts, t.1 ≠ .KEY := by
            intro t ht hk
            have := hct t ht
            simp [contentKinds, Node.kind, hk] at this
          rw [hch, List.find?_append, heads_key, rebuildValue_no_key _ _ _ _ _ hnokey, Option.or_none]
        have hind' : ewIndent cfg e'.children = ewIndent cfg e.children := by
          unfold ewIndent; rw [hkeyfind]
        have hkl' : ewKeyLen e' = ewKeyLen e := by unfold ewKeyLen; rw [hkv.1]
        have hbad' : ewBadKinds e'.children = false := by
          rw [hch]
          unfold ewBadKinds
          apply Bool.eq_false_iff.2
          intro hany
          simp only [List.any_eq_true, List.mem_append] at hany
          obtain ⟨c, hc, hk⟩ := hany
          rcases hc with hc | hc
          · simp only [List.mem_filterMap] at hc
            obtain ⟨c0, _, hc0⟩ := hc
            rcases (headOf_fixed c0 c hc0).2.2.2 with hk' | hk' <;> simp [hk'] at hk
          · rcases rebuildValue_mem _ _ _ _ _ c hc with rfl | rfl | rfl | ⟨t, ht, rfl⟩
            · simp [Node.kind] at hk
            · simp [Node.kind] at hk
            · simp [Node.kind] at hk
            · have := hct t ht
              simp only [contentKinds, Bool.or_eq_true, beq_iff_eq] at this
              rcases this with (((h1 | h1) | h1) | h1) | h1 <;> simp [h1] at hk
        have htoks' : ewTokens none e' = some ts' := by
          simp only [ewTokens, ewContent, hch, List.filter_append, heads_content, List.nil_append]
          rw [show (fun c : DNode => c.kind == Kind.NEWLINE || c.kind == Kind.WHITESPACE) = nlwsN from rfl, hre]
          clear hre hsame
          induction ts' with
          | nil => rfl
          | cons t r ih => simp [allTokens, ih]
        have hheads' : e'.children.filterMap headOf = e.children.filterMap headOf := by
          rw [hch, List.filterMap_append, heads_filterMap]
          have : (rebuildValue ts (ewKeyLen e) (ewIndent cfg e.children) cfg.immediateEmptyLine
              cfg.maxLineLengthOneLiner).filterMap headOf = [] := by
            apply List.filterMap_eq_nil_iff.2
            intro c hc
            rcases rebuildValue_mem _ _ _ _ _ c hc with rfl | rfl | rfl | ⟨t, ht, rfl⟩
            · rfl
            · rfl
            · rfl
            · have := hct t ht
              simp only [contentKinds, Bool.or_eq_true, beq_iff_eq, Node.kind] at this
              rcases this with (((h1 | h1) | h1) | h1) | h1 <;> simp [headOf, h1]
          rw [this, List.append_nil]
        unfold entryWrap
        rw [hbad']
        simp only [Bool.false_eq_true, ↓reduceIte, hind', hind, htoks', hheads', hkl', hsame]
        rw [← h]

/-! ### paragraph level -/

/-- **paragraph level idempotence** (no formatter; entry order absent or a total preorder) -/
theorem paragraphWrap_idem (cfg : WrapCfg) (le : Option (DNode → DNode → Bool)) (hle : OrderOK le)
    (p p' : DNode) (h : paragraphWrap cfg le none p = some p') :
    paragraphWrap cfg le none p' = some p' := by
  obtain ⟨ws, hpw, hpre, hent, htr, rfl⟩ := paragraphWrap_spec cfg le none p p' h
  have hpre' : ∀ w ∈ sortBy le ws, ∀ c ∈ w.1, isTrivTok c = true :=
    fun w hw => hpre w ((mem_sortBy le ws w).1 hw)
  have hent' : ∀ w ∈ sortBy le ws, isEntryNode w.2 = true :=
    fun w hw => hent w ((mem_sortBy le ws w).1 hw)
  have hg : paraGroups (.node .PARAGRAPH (paraOut (sortBy le ws) (paraGroups p).2))
      = (sortBy le ws, (paraGroups p).2) := groupBy_paraOut _ _ hpre' hent' htr
  have := paragraphWrap_intro cfg le none (.node .PARAGRAPH (paraOut (sortBy le ws) (paraGroups p).2))
    (sortBy le ws)
    (by
      rw [hg]
      apply pointwise_self
      intro w hw
      refine ⟨rfl, ?_⟩
      obtain ⟨g, _, hr⟩ := Pointwise.mem_right hpw w ((mem_sortBy le ws w).1 hw)
      exact entryWrap_idem cfg g.2 w.2 hr.2)
    hpre' (by rw [hg]; exact htr)
  rw [this, hg, sortBy_idem le hle]

end Deb822Verif.Deb
