import Deb822Verif.Lemmas.DebWrapSpec
import Deb822Verif.Lemmas.DebParseDoc
import Deb822Verif.Lemmas.DebLexLines
import Deb822Verif.Lemmas.DebReject
/-!
  Wrap-and-sort on well-formed documents, paragraph and document level: the result of
  `deb822Wrap` on the tree of a well-formed `DocS` prints as a well-formed, fully LF-terminated
  `DocS` (`mkDoc`) with the same fields per paragraph — hence it parses strictly and reads back to
  the content of the returned tree.
-/
namespace Deb822Verif.Deb
open Deb822Verif Node Spec

def cTok (t : Str) : DNode := Node.tok .COMMENT ('#' :: t)
def cToks (cs : List Str) : List Tok := (cs.map fun t => [(Kind.COMMENT, '#' :: t), (Kind.NEWLINE, ['\n'])]).flatten

/-- a rendered paragraph: groups (comments in front of a field, field), trailing comments -/
structure PG where
  groups : List (List Str × EntryS)
  trailing : List Str

def egrp (x : List Str × EntryS) : List DNode × DNode := (x.1.map cTok, x.2.node)
def PG.node (pg : PG) : DNode := .node .PARAGRAPH (paraOut (pg.groups.map egrp) (pg.trailing.map cTok))

structure PG.OK (pg : PG) : Prop where
  ne : pg.groups ≠ []
  entries : ∀ x ∈ pg.groups, x.2.WF ∧ x.2.TermAll ∧ ∀ c ∈ x.1, NoNl c
  trailing : ∀ c ∈ pg.trailing, NoNl c

theorem cTok_triv (t : Str) : isTrivTok (cTok t) = true := rfl
theorem cTok_trivs (cs : List Str) : ∀ c ∈ cs.map cTok, isTrivTok c = true := by
  intro c hc
  simp only [List.mem_map] at hc
  obtain ⟨t, _, rfl⟩ := hc; rfl

theorem node_isEntry (e : EntryS) : isEntryNode e.node = true := rfl

/-! ### generic helpers -/

theorem pointwise_map {α β γ} {R : β → γ → Prop} (f : α → β) (g : α → γ) :
    ∀ (xs : List α), (∀ x ∈ xs, R (f x) (g x)) → Pointwise R (xs.map f) (xs.map g)
  | [], _ => trivial
  | x :: xs, h => ⟨h x (by simp), pointwise_map f g xs fun y hy => h y (by simp [hy])⟩

theorem lift_map {α β} (P : α → Prop) (f : α → β) :
    ∀ (l : List β), (∀ w ∈ l, ∃ y, P y ∧ w = f y) → ∃ ys : List α, (∀ y ∈ ys, P y) ∧ l = ys.map f
  | [], _ => ⟨[], by simp, rfl⟩
  | w :: l, h => by
    obtain ⟨y, hy, rfl⟩ := h w (by simp)
    obtain ⟨ys, hys, rfl⟩ := lift_map P f l fun w hw => h w (by simp [hw])
    exact ⟨y :: ys, by
      intro z hz
      simp only [List.mem_cons] at hz
      rcases hz with rfl | hz
      · exact hy
      · exact hys z hz, rfl⟩

/-! ### the grouping of a well-formed paragraph -/

def groupItems : List PItem → List Str → List (List Str × EntryS) × List Str
  | [], cur => ([], cur)
  | .comment t _ :: is, cur => groupItems is (cur ++ [t])
  | .entry e :: is, cur => ((cur, e) :: (groupItems is []).1, (groupItems is []).2)

theorem groupBy_skip_nlTok (b : Bool) (rest cur : List DNode) :
    groupBy isEntryNode isTriviaNode ((nlTok b).map tk ++ rest) cur = groupBy isEntryNode isTriviaNode rest cur := by
  cases b
  · rfl
  · simp [nlTok, groupBy, isEntryNode, isTriviaNode, Node.isNode, Node.kind]

theorem groupBy_items (is : List PItem) (cur : List Str) :
    groupBy isEntryNode isTriviaNode (itemsNodes is) (cur.map cTok)
      = ((groupItems is cur).1.map egrp, (groupItems is cur).2.map cTok) := by
  induction is generalizing cur with
  | nil => simp [itemsNodes, groupBy, groupItems]
  | cons i is ih =>
    rw [itemsNodes_cons]
    cases i with
    | comment t nl =>
      simp only [PItem.nodes, List.map_cons, List.cons_append, groupItems]
      rw [show groupBy isEntryNode isTriviaNode (tk (Kind.COMMENT, '#' :: t) :: ((nlTok nl).map tk ++ itemsNodes is)) (cur.map cTok)
          = groupBy isEntryNode isTriviaNode ((nlTok nl).map tk ++ itemsNodes is) (cur.map cTok ++ [cTok t]) from by
        simp [groupBy, isEntryNode, isTriviaNode, Node.isNode, Node.kind, cTok]]
      rw [groupBy_skip_nlTok]
      have := ih (cur ++ [t])
      simpa using this
    | entry e =>
      simp only [PItem.nodes, List.cons_append, List.nil_append, groupItems]
      have h0 := ih []
      simp only [List.map_nil] at h0
      simp only [groupBy, node_isEntry, ↓reduceIte, h0, List.map_cons, egrp]

theorem paraGroups_node (p : ParaS) :
    paraGroups p.node = ((([], p.first) :: (groupItems p.rest []).1).map egrp, (groupItems p.rest []).2.map cTok) := by
  have h0 := groupBy_items p.rest []
  simp only [List.map_nil] at h0
  simp only [paraGroups, ParaS.node, Node.children, groupBy, node_isEntry, ↓reduceIte, h0, List.map_cons, egrp,
    List.map_nil]

theorem groupItems_props (is : List PItem) (more : Bool) (cur : List Str)
    (hwf : ∀ i ∈ is, i.WF) (ht : itemsTerm is more) (hc : ∀ c ∈ cur, NoNl c) :
    (∀ x ∈ (groupItems is cur).1, x.2.WF ∧ (∃ m, x.2.Term m) ∧ ∀ c ∈ x.1, NoNl c)
      ∧ ∀ c ∈ (groupItems is cur).2, NoNl c := by
  induction is generalizing cur with
  | nil => simp [groupItems]; exact hc
  | cons i is ih =>
    have hwf' : ∀ j ∈ is, j.WF := fun j hj => hwf j (by simp [hj])
    cases i with
    | comment t nl =>
      simp only [groupItems]
      have hti : NoNl t := hwf (.comment t nl) (by simp)
      exact ih _ hwf' ht.2 (by
        intro c hcm
        simp only [List.mem_append, List.mem_cons, List.not_mem_nil, or_false] at hcm
        rcases hcm with h | rfl
        · exact hc c h
        · exact hti)
    | entry e =>
      simp only [groupItems]
      have hewf : e.WF := hwf (.entry e) (by simp)
      have := ih [] hwf' ht.2 (by simp)
      refine ⟨?_, this.2⟩
      intro x hx
      simp only [List.mem_cons] at hx
      rcases hx with rfl | hx
      · exact ⟨hewf, ⟨_, ht.1⟩, hc⟩
      · exact this.1 x hx

/-- **a well-formed paragraph is reformatted to a rendered paragraph** whose fields are well
    formed and fully terminated (any comparator; no formatter; indentation ≥ 1) -/
theorem paragraphWrap_paraS (cfg : WrapCfg) (le : Option (DNode → DNode → Bool)) (p : ParaS) (more : Bool)
    (hwf : p.WF) (ht : p.Term more) (hc : IndentOK cfg) :
    ∃ pg : PG, pg.OK ∧ paragraphWrap cfg le none p.node = some pg.node := by
  -- the groups of the input and their properties
  let xs : List (List Str × EntryS) := ([], p.first) :: (groupItems p.rest []).1
  have hprops := groupItems_props p.rest more [] hwf.rest_ok ht.2 (by simp)
  have hxs : ∀ x ∈ xs, x.2.WF ∧ (∃ m, x.2.Term m) ∧ ∀ c ∈ x.1, NoNl c := by
    intro x hx
    simp only [xs, List.mem_cons] at hx
    rcases hx with rfl | hx
    · exact ⟨hwf.first_ok, ⟨_, ht.1⟩, by simp⟩
    · exact hprops.1 x hx
  have hg := paraGroups_node p
  let ws : List (List DNode × DNode) := xs.map fun x => (x.1.map cTok, (x.2.wrap cfg).node)
  have hpw : Pointwise (fun g w => w.1 = g.1 ∧ entryWrap cfg none g.2 = some w.2) (paraGroups p.node).1 ws := by
    rw [hg]
    apply pointwise_map
    intro x hx
    obtain ⟨h1, ⟨m, h2⟩, _⟩ := hxs x hx
    exact ⟨rfl, entryWrap_node cfg x.2 m h1 h2 hc⟩
  have hpre : ∀ w ∈ ws, ∀ c ∈ w.1, isTrivTok c = true := by
    intro w hw
    simp only [ws, List.mem_map] at hw
    obtain ⟨x, _, rfl⟩ := hw
    exact cTok_trivs _
  have htr : ∀ c ∈ (paraGroups p.node).2, isTrivTok c = true := by
    rw [hg]; exact cTok_trivs _
  have hres := paragraphWrap_intro cfg le none p.node ws hpw hpre htr
  -- the sorted groups are still groups of well-formed, terminated fields
  obtain ⟨ys, hys, hsort⟩ := lift_map
    (fun y : List Str × EntryS => y.2.WF ∧ y.2.TermAll ∧ ∀ c ∈ y.1, NoNl c) egrp (sortBy le ws) (by
      intro w hw
      have hw' := (mem_sortBy le ws w).1 hw
      simp only [ws, List.mem_map] at hw'
      obtain ⟨x, hx, rfl⟩ := hw'
      obtain ⟨h1, _, h3⟩ := hxs x hx
      exact ⟨(x.1, x.2.wrap cfg), ⟨wrap_wf cfg x.2 h1 hc, wrap_termAll cfg x.2, h3⟩, rfl⟩)
  refine ⟨⟨ys, (groupItems p.rest []).2⟩, ⟨?_, hys, hprops.2⟩, ?_⟩
  · intro hnil
    have hnil' : ys = [] := hnil
    have h1 : (sortBy le ws).length = ws.length := (sortBy_perm le ws).length_eq
    rw [hsort, hnil'] at h1
    simp [ws, xs] at h1
  · rw [hres, hsort, hg]
    rfl

/-! ### the grouping of a well-formed document -/

def gapComments : List Gap → List Str
  | [] => []
  | .blank :: gs => gapComments gs
  | .comment t _ :: gs => t :: gapComments gs

def groupParas : List (ParaS × List Gap) → List Str → List (List Str × ParaS) × List Str
  | [], cur => ([], cur)
  | pg :: ps, cur =>
    ((cur, pg.1) :: (groupParas ps (gapComments pg.2)).1, (groupParas ps (gapComments pg.2)).2)

def pgrp (x : List Str × ParaS) : List DNode × DNode := (x.1.map cTok, x.2.node)

theorem groupRoot_gaps (gs : List Gap) (rest : List DNode) (cur : List Str) :
    groupRoot (gs.map Gap.node ++ rest) (cur.map cTok) = groupRoot rest ((cur ++ gapComments gs).map cTok) := by
  induction gs generalizing cur with
  | nil => simp [gapComments]
  | cons g gs ih =>
    cases g with
    | blank =>
      simp only [List.map_cons, List.cons_append, gapComments]
      rw [show groupRoot (Gap.node Gap.blank :: (gs.map Gap.node ++ rest)) (cur.map cTok)
          = groupRoot (gs.map Gap.node ++ rest) (cur.map cTok) from by
        simp [groupRoot, Gap.node, Gap.toks, Node.isNode, Node.kind, emptyLineKeep, Node.children]]
      exact ih cur
    | comment t nl =>
      simp only [List.map_cons, List.cons_append, gapComments]
      rw [show groupRoot (Gap.node (Gap.comment t nl) :: (gs.map Gap.node ++ rest)) (cur.map cTok)
          = groupRoot (gs.map Gap.node ++ rest) ((cur ++ [t]).map cTok) from by
        cases nl <;>
          simp [groupRoot, Gap.node, Gap.toks, Node.isNode, Node.kind, emptyLineKeep, Node.children, nlTok, cTok]]
      rw [ih]; simp

theorem groupRoot_parasNodes (ps : List (ParaS × List Gap)) (cur : List Str) :
    groupRoot (parasNodes ps) (cur.map cTok)
      = ((groupParas ps cur).1.map pgrp, (groupParas ps cur).2.map cTok) := by
  induction ps generalizing cur with
  | nil => simp [parasNodes, groupRoot, groupParas]
  | cons pg ps ih =>
    rw [parasNodes_cons]
    have hp : (pg.1.node.isNode && pg.1.node.kind == Kind.PARAGRAPH) = true := rfl
    simp only [groupRoot, hp, ↓reduceIte, groupParas]
    have h1 := groupRoot_gaps pg.2 (parasNodes ps) []
    simp only [List.map_nil, List.nil_append] at h1
    rw [h1, ih]
    simp [pgrp]

theorem rootGroups_tree (d : DocS) :
    rootGroups d.tree = ((groupParas d.paras (gapComments d.lead)).1.map pgrp,
      (groupParas d.paras (gapComments d.lead)).2.map cTok) := by
  have h1 := groupRoot_gaps d.lead (parasNodes d.paras) []
  simp only [List.map_nil, List.nil_append] at h1
  simp only [rootGroups, DocS.tree, Node.children]
  rw [h1, groupRoot_parasNodes]

theorem gapComments_nonl (gs : List Gap) (h : ∀ g ∈ gs, g.WF) : ∀ c ∈ gapComments gs, NoNl c := by
  induction gs with
  | nil => simp [gapComments]
  | cons g gs ih =>
    have ih' := ih fun x hx => h x (by simp [hx])
    cases g with
    | blank => exact ih'
    | comment t nl =>
      intro c hc
      simp only [gapComments, List.mem_cons] at hc
      rcases hc with rfl | hc
      · exact h (.comment c nl) (by simp)
      · exact ih' c hc

theorem parasTerm_each (ps : List (ParaS × List Gap)) (h : parasTerm ps) : ∀ pg ∈ ps, ∃ m, pg.1.Term m := by
  induction ps with
  | nil => simp
  | cons pg ps ih =>
    obtain ⟨p, g⟩ := pg
    cases ps with
    | nil =>
      intro x hx
      simp only [List.mem_cons, List.not_mem_nil, or_false] at hx
      subst hx; exact ⟨_, h.1⟩
    | cons q ps' =>
      intro x hx
      simp only [List.mem_cons] at hx
      rcases hx with rfl | hx
      · exact ⟨_, h.1⟩
      · exact ih h.2.2.2 x (by simpa using hx)

theorem groupParas_props (ps : List (ParaS × List Gap)) (cur : List Str)
    (hwf : ∀ pg ∈ ps, pg.1.WF ∧ ∀ g ∈ pg.2, g.WF) (ht : ∀ pg ∈ ps, ∃ m, pg.1.Term m) (hc : ∀ c ∈ cur, NoNl c) :
    (∀ x ∈ (groupParas ps cur).1, x.2.WF ∧ (∃ m, x.2.Term m) ∧ ∀ c ∈ x.1, NoNl c)
      ∧ ∀ c ∈ (groupParas ps cur).2, NoNl c := by
  induction ps generalizing cur with
  | nil => simp [groupParas]; exact hc
  | cons pg ps ih =>
    simp only [groupParas]
    have h0 := hwf pg (by simp)
    have := ih (gapComments pg.2) (fun x hx => hwf x (by simp [hx])) (fun x hx => ht x (by simp [hx]))
      (gapComments_nonl pg.2 h0.2)
    refine ⟨?_, this.2⟩
    intro x hx
    simp only [List.mem_cons] at hx
    rcases hx with rfl | hx
    · exact ⟨h0.1, ht pg (by simp), hc⟩
    · exact this.1 x hx

def zgrp (z : List Str × PG) : List DNode × DNode := (z.1.map cTok, z.2.node)

/-- **a well-formed document is reformatted to a list of rendered paragraphs** with their leading
    comments, and trailing comments -/
theorem deb822Wrap_docS (cfg : WrapCfg) (ele ple : Option (DNode → DNode → Bool)) (d : DocS)
    (hwf : d.WF) (hc : IndentOK cfg) :
    ∃ (zs : List (List Str × PG)) (tr : List Str),
      (∀ z ∈ zs, z.2.OK ∧ ∀ c ∈ z.1, NoNl c) ∧ (∀ c ∈ tr, NoNl c)
      ∧ zs.length = d.paras.length
      ∧ deb822Wrap ple (some (paragraphWrap cfg ele none)) d.tree
          = some (.node .ROOT (docOut (zs.map zgrp) (tr.map cTok))) := by
  let gp := groupParas d.paras (gapComments d.lead)
  have hprops := groupParas_props d.paras (gapComments d.lead) hwf.paras_ok
    (parasTerm_each d.paras hwf.paras_term) (gapComments_nonl d.lead hwf.lead_ok)
  have hg := rootGroups_tree d
  -- one rendered paragraph per input paragraph
  have hex : ∀ x ∈ gp.1, ∃ pg : PG, pg.OK ∧ paragraphWrap cfg ele none x.2.node = some pg.node := by
    intro x hx
    obtain ⟨h1, ⟨m, h2⟩, _⟩ := hprops.1 x hx
    exact paragraphWrap_paraS cfg ele x.2 m h1 h2 hc
  have hchoose : ∀ (l : List (List Str × ParaS)),
      (∀ x ∈ l, (∃ pg : PG, pg.OK ∧ paragraphWrap cfg ele none x.2.node = some pg.node) ∧ ∀ c ∈ x.1, NoNl c) →
      ∃ us : List (List Str × PG), (∀ z ∈ us, z.2.OK ∧ ∀ c ∈ z.1, NoNl c) ∧ us.length = l.length ∧
        Pointwise (fun g w => w.1 = g.1 ∧ applyW (some (paragraphWrap cfg ele none)) g.2 = some w.2)
          (l.map pgrp) (us.map zgrp) := by
    intro l
    induction l with
    | nil => intro _; exact ⟨[], by simp, rfl, trivial⟩
    | cons x l ih =>
      intro h
      obtain ⟨⟨pg, hok, hpg⟩, hcn⟩ := h x (by simp)
      obtain ⟨us, hus, hlen, hpw⟩ := ih fun y hy => h y (by simp [hy])
      refine ⟨(x.1, pg) :: us, ?_, by simp [hlen], ⟨rfl, hpg⟩, hpw⟩
      intro z hz
      simp only [List.mem_cons] at hz
      rcases hz with rfl | hz
      · exact ⟨hok, hcn⟩
      · exact hus z hz
  obtain ⟨us, hus, hlen, hpw⟩ := hchoose gp.1 fun x hx => ⟨hex x hx, (hprops.1 x hx).2.2⟩
  have hpre : ∀ w ∈ us.map zgrp, ∀ c ∈ w.1, isTrivTok c = true := by
    intro w hw
    simp only [List.mem_map] at hw
    obtain ⟨z, _, rfl⟩ := hw
    exact cTok_trivs _
  have htr : ∀ c ∈ (rootGroups d.tree).2, isTrivTok c = true := by rw [hg]; exact cTok_trivs _
  have hres := deb822Wrap_intro ple (some (paragraphWrap cfg ele none)) d.tree (us.map zgrp)
    (by rw [hg]; exact hpw) hpre htr
  obtain ⟨zs, hzs, hsort⟩ := lift_map (fun z : List Str × PG => z.2.OK ∧ ∀ c ∈ z.1, NoNl c) zgrp
    (sortBy ple (us.map zgrp)) (by
      intro w hw
      have hw' := (mem_sortBy ple _ w).1 hw
      simp only [List.mem_map] at hw'
      obtain ⟨z, hz, rfl⟩ := hw'
      exact ⟨z, hus z hz, rfl⟩)
  refine ⟨zs, gp.2, hzs, hprops.2, ?_, ?_⟩
  · have h1 : (sortBy ple (us.map zgrp)).length = (us.map zgrp).length := (sortBy_perm ple _).length_eq
    rw [hsort] at h1
    have h2 : gp.1.length = d.paras.length := by
      have : ∀ (ps : List (ParaS × List Gap)) cur, (groupParas ps cur).1.length = ps.length := by
        intro ps
        induction ps with
        | nil => intro cur; rfl
        | cons pg ps ih => intro cur; simp [groupParas, ih]
      exact this _ _
    simp only [List.length_map] at h1
    omega
  · rw [hres, hsort, hg]


/-! ### the printed result as a well-formed document -/

def cItems (cs : List Str) : List PItem := cs.map fun t => PItem.comment t true
def cGaps (cs : List Str) : List Gap := cs.map fun t => Gap.comment t true
def dummyEntry : EntryS := ⟨[], [], [], true, []⟩

/-- comments in front of the first field of a rendered paragraph: on re-reading they are top-level -/
def PG.lead (pg : PG) : List Str := match pg.groups with | [] => [] | x :: _ => x.1
def restItems (xs : List (List Str × EntryS)) : List PItem :=
  (xs.map fun y => cItems y.1 ++ [PItem.entry y.2]).flatten
/-- the paragraph as it is re-read: from its first field on; `extra` = comment lines that follow
    the last paragraph of the document without a blank line in between -/
def PG.body (pg : PG) (extra : List Str) : ParaS :=
  match pg.groups with
  | [] => ⟨dummyEntry, []⟩
  | x :: xs => ⟨x.2, restItems xs ++ cItems (pg.trailing ++ extra)⟩

def zlead (z : List Str × PG) : List Str := z.1 ++ z.2.lead

def mkParas : List (List Str × PG) → List Str → List (ParaS × List Gap)
  | [], _ => []
  | [z], tr => [(z.2.body tr, [])]
  | z :: z' :: zs, tr => (z.2.body [], Gap.blank :: cGaps (zlead z')) :: mkParas (z' :: zs) tr

/-- the document the printed result is read as -/
def mkDoc (zs : List (List Str × PG)) (tr : List Str) : DocS :=
  match zs with
  | [] => ⟨cGaps tr, []⟩
  | z :: _ => ⟨cGaps (zlead z), mkParas zs tr⟩

/-! #### tokens -/

theorem leavesList_map_tk (ts : List Tok) : leavesList (ts.map tk) = ts := by
  induction ts with
  | nil => rfl
  | cons t r ih => simp [ih]

theorem cToks_append (a b : List Str) : cToks (a ++ b) = cToks a ++ cToks b := by simp [cToks]

theorem leaves_commentLines (cs : List Str) : leavesList (commentLines (cs.map cTok)) = cToks cs := by
  induction cs with
  | nil => rfl
  | cons c cs ih =>
    simp only [List.map_cons, commentLines, cTok, Node.kind, ↓reduceIte, leavesList_append]
    rw [ih]
    simp [cToks]

theorem itemsToks_append (a b : List PItem) : itemsToks (a ++ b) = itemsToks a ++ itemsToks b := by
  simp [itemsToks]

theorem itemsToks_cItems (cs : List Str) : itemsToks (cItems cs) = cToks cs := by
  induction cs with
  | nil => rfl
  | cons c cs ih =>
    have : cItems (c :: cs) = [PItem.comment c true] ++ cItems cs := rfl
    rw [this, itemsToks_append, ih]
    simp [itemsToks, PItem.toks, nlTok, cToks]

theorem gapsToks_cGaps (cs : List Str) : gapsToks (cGaps cs) = cToks cs := by
  induction cs with
  | nil => rfl
  | cons c cs ih =>
    simp only [gapsToks, cGaps, List.map_cons, List.flatten_cons] at ih ⊢
    rw [ih]
    simp [Gap.toks, nlTok, cToks]

def groupsToks (xs : List (List Str × EntryS)) : List Tok := (xs.map fun y => cToks y.1 ++ y.2.toks).flatten

theorem itemsToks_restItems (xs : List (List Str × EntryS)) : itemsToks (restItems xs) = groupsToks xs := by
  induction xs with
  | nil => rfl
  | cons y xs ih =>
    have : restItems (y :: xs) = cItems y.1 ++ [PItem.entry y.2] ++ restItems xs := by simp [restItems]
    rw [this, itemsToks_append, itemsToks_append, ih, itemsToks_cItems]
    simp [groupsToks, itemsToks, PItem.toks]

theorem leaves_paraOut (xs : List (List Str × EntryS)) (tr : List Str) :
    leavesList (paraOut (xs.map egrp) (tr.map cTok)) = groupsToks xs ++ cToks tr := by
  unfold paraOut
  rw [leavesList_append, leaves_commentLines]
  congr 1
  induction xs with
  | nil => rfl
  | cons y xs ih =>
    simp only [List.map_cons, List.flatten_cons, leavesList_append, ih, egrp, leaves_commentLines,
      leavesList_cons, leavesList_nil, List.append_nil, EntryS.node, leaves_node, leavesList_map_tk]
    simp [groupsToks]

theorem pg_leaves (pg : PG) (hne : pg.groups ≠ []) : pg.node.leaves = cToks pg.lead ++ (pg.body []).toks := by
  obtain ⟨groups, trailing⟩ := pg
  cases groups with
  | nil => exact absurd rfl hne
  | cons x xs =>
    simp only [PG.node, leaves_node, leaves_paraOut, PG.lead, PG.body, ParaS.toks, itemsToks_append,
      itemsToks_restItems, itemsToks_cItems, List.append_nil]
    simp [groupsToks]

theorem body_toks_extra (pg : PG) (hne : pg.groups ≠ []) (extra : List Str) :
    (pg.body extra).toks = (pg.body []).toks ++ cToks extra := by
  obtain ⟨groups, trailing⟩ := pg
  cases groups with
  | nil => exact absurd rfl hne
  | cons x xs =>
    simp only [PG.body, ParaS.toks, itemsToks_append, itemsToks_cItems, cToks_append, List.append_nil,
      List.append_assoc]

/-! #### the rendered paragraph ends with a line terminator -/

def EndsNL (ts : List Tok) : Prop := ∃ a, ts = a ++ [(Kind.NEWLINE, ['\n'])]

theorem EndsNL.append (a : List Tok) {b : List Tok} (h : EndsNL b) : EndsNL (a ++ b) := by
  obtain ⟨c, rfl⟩ := h
  exact ⟨a ++ c, by simp⟩

theorem endsNL_cToks (cs : List Str) (h : cs ≠ []) : EndsNL (cToks cs) := by
  induction cs with
  | nil => exact absurd rfl h
  | cons c cs ih =>
    cases cs with
    | nil => exact ⟨[(Kind.COMMENT, '#' :: c)], rfl⟩
    | cons c' r =>
      have := ih (by simp)
      rw [show cToks (c :: c' :: r) = [(Kind.COMMENT, '#' :: c), (Kind.NEWLINE, ['\n'])] ++ cToks (c' :: r) from by
        simp [cToks]]
      exact this.append _

theorem endsNL_entry (e : EntryS) (h : e.TermAll) : EndsNL e.toks := by
  rw [EntryS.toks_eq]
  rcases List.eq_nil_or_concat e.conts with hc | ⟨cs, c, hc⟩
  · refine ⟨(.KEY, e.key) :: (.COLON, [':']) :: (optTok .WHITESPACE e.ws ++ optTok .VALUE e.v), ?_⟩
    simp [EntryS.tailToks, hc, h.1, nlTok, contsToks]
  · have hcn : c.nl = true := h.2 c (by rw [hc]; simp)
    have : contsToks e.conts = contsToks cs ++ [(.INDENT, c.indent), (.VALUE, c.text)] ++ [(.NEWLINE, ['\n'])] := by
      rw [hc]
      simp [contsToks, ContS.toks, hcn, nlTok]
    simp only [EntryS.tailToks, this]
    exact ⟨(.KEY, e.key) :: (.COLON, [':']) :: (optTok .WHITESPACE e.ws ++ optTok .VALUE e.v ++ nlTok e.nl
      ++ contsToks cs ++ [(.INDENT, c.indent), (.VALUE, c.text)]), by simp⟩

theorem endsNL_groups (xs : List (List Str × EntryS)) (hne : xs ≠ []) (h : ∀ x ∈ xs, x.2.TermAll) :
    EndsNL (groupsToks xs) := by
  rcases List.eq_nil_or_concat xs with hc | ⟨ys, y, hc⟩
  · exact absurd hc hne
  · rw [hc]
    have : groupsToks (ys.concat y) = groupsToks ys ++ (cToks y.1 ++ y.2.toks) := by
      simp [groupsToks]
    rw [this]
    exact ((endsNL_entry y.2 (h y (by rw [hc]; simp))).append _).append _

theorem termOf_pg (pg : PG) (hok : pg.OK) : termOf pg.node = [] := by
  have hends : EndsNL pg.node.leaves := by
    simp only [PG.node, leaves_node, leaves_paraOut]
    by_cases ht : pg.trailing = []
    · rw [ht]
      simp only [cToks, List.map_nil, List.flatten_nil, List.append_nil]
      exact endsNL_groups _ hok.ne fun x hx => (hok.entries x hx).2.1
    · exact (endsNL_cToks _ ht).append _
  obtain ⟨a, ha⟩ := hends
  unfold termOf
  cases hl : lastTok pg.node.children with
  | none => rfl
  | some t =>
    have h1 := lastTok_leaves _ _ hl
    have hlv : leavesList pg.node.children = pg.node.leaves := by simp [PG.node, Node.children]
    rw [hlv, ha] at h1
    simp only [List.getLast?_concat, List.getLast?_append, List.getLast?_singleton, Option.some.injEq] at h1
    have : t = (Kind.NEWLINE, ['\n']) := by simpa using h1.symm
    subst this; rfl

/-! #### the token sequence of the result -/

theorem parasToks_cons' (pg : ParaS × List Gap) (ps : List (ParaS × List Gap)) :
    parasToks (pg :: ps) = pg.1.toks ++ gapsToks pg.2 ++ parasToks ps := by
  simp [parasToks]

theorem leaves_docGroup (z : List Str × PG) (hok : z.2.OK) :
    leavesList (docGroup (zgrp z)) = cToks (zlead z) ++ (z.2.body []).toks := by
  simp only [docGroup, zgrp, termOf_pg z.2 hok, List.append_nil, leavesList_append, leaves_commentLines,
    leavesList_cons, leavesList_nil, pg_leaves z.2 hok.ne, zlead, cToks_append, List.append_assoc]

theorem leaves_docOut_cons (z : List Str × PG) (zs : List (List Str × PG)) (tr : List Str)
    (hok : ∀ y ∈ z :: zs, y.2.OK) :
    leavesList (docOut ((z :: zs).map zgrp) (tr.map cTok))
      = cToks (zlead z) ++ parasToks (mkParas (z :: zs) tr) := by
  unfold docOut
  rw [leavesList_append, leaves_commentLines]
  induction zs generalizing z with
  | nil =>
    simp only [List.map_cons, List.map_nil, joinParas, mkParas, parasToks_cons', parasToks, List.flatten_nil,
      List.append_nil, gapsToks]
    rw [leaves_docGroup z (hok z (by simp)), body_toks_extra _ (hok z (by simp)).ne tr]
    simp
  | cons z' zs ih =>
    have ih' := ih z' (fun y hy => hok y (by simp [hy]))
    simp only [List.map_cons] at ih' ⊢
    simp only [joinParas, mkParas, parasToks_cons', leavesList_append, leavesList_cons, List.append_assoc]
    rw [leaves_docGroup z (hok z (by simp))]
    have hel : joinParas.emptyLine'.leaves = [(Kind.NEWLINE, ['\n'])] := by
      simp [joinParas.emptyLine']
    rw [hel]
    have hgap : gapsToks (Gap.blank :: cGaps (zlead z')) = (Kind.NEWLINE, ['\n']) :: cToks (zlead z') := by
      have := gapsToks_cGaps (zlead z')
      simp only [gapsToks, List.map_cons, List.flatten_cons, Gap.toks] at this ⊢
      rw [this]; rfl
    rw [hgap]
    simp only [List.append_assoc, List.cons_append, List.nil_append]
    rw [ih']

theorem leaves_docOut (zs : List (List Str × PG)) (tr : List Str) (hok : ∀ y ∈ zs, y.2.OK) :
    leavesList (docOut (zs.map zgrp) (tr.map cTok)) = (mkDoc zs tr).toks := by
  cases zs with
  | nil =>
    simp only [docOut, List.map_nil, joinParas, List.nil_append, leaves_commentLines, mkDoc, DocS.toks,
      gapsToks_cGaps, parasToks, List.flatten_nil, List.append_nil]
  | cons z zs =>
    rw [leaves_docOut_cons z zs tr hok]
    simp only [mkDoc, DocS.toks, gapsToks_cGaps]

/-! #### well-formedness -/

theorem cItems_wf (cs : List Str) (h : ∀ c ∈ cs, NoNl c) : ∀ i ∈ cItems cs, i.WF := by
  intro i hi
  simp only [cItems, List.mem_map] at hi
  obtain ⟨t, ht, rfl⟩ := hi
  exact h t ht

theorem cGaps_wf (cs : List Str) (h : ∀ c ∈ cs, NoNl c) : ∀ g ∈ cGaps cs, g.WF := by
  intro g hg
  simp only [cGaps, List.mem_map] at hg
  obtain ⟨t, ht, rfl⟩ := hg
  exact h t ht

theorem gapsTerm_cGaps (cs : List Str) (more : Bool) : gapsTerm (cGaps cs) more := by
  induction cs with
  | nil => trivial
  | cons c cs ih => exact ⟨Or.inl rfl, ih⟩

/-- every item is LF-terminated -/
def ItemsAll (is : List PItem) : Prop :=
  ∀ i ∈ is, match i with | .comment _ nl => nl = true | .entry e => e.TermAll

theorem itemsTerm_all (is : List PItem) (h : ItemsAll is) (more : Bool) : itemsTerm is more := by
  induction is with
  | nil => trivial
  | cons i is ih =>
    have ih' := ih fun j hj => h j (by simp [hj])
    have hi := h i (by simp)
    cases i with
    | comment t nl => exact ⟨Or.inl hi, ih'⟩
    | entry e => exact ⟨termAll_term e hi _, ih'⟩

theorem itemsAll_cItems (cs : List Str) : ItemsAll (cItems cs) := by
  intro i hi
  simp only [cItems, List.mem_map] at hi
  obtain ⟨t, _, rfl⟩ := hi
  rfl

theorem itemsAll_append (a b : List PItem) (ha : ItemsAll a) (hb : ItemsAll b) : ItemsAll (a ++ b) := by
  intro i hi
  simp only [List.mem_append] at hi
  rcases hi with hi | hi
  · exact ha i hi
  · exact hb i hi

theorem restItems_mem (xs : List (List Str × EntryS)) (i : PItem) (hi : i ∈ restItems xs) :
    ∃ y ∈ xs, i ∈ cItems y.1 ∨ i = .entry y.2 := by
  simp only [restItems, List.mem_flatten, List.mem_map] at hi
  obtain ⟨l, ⟨y, hy, rfl⟩, hil⟩ := hi
  simp only [List.mem_append, List.mem_cons, List.not_mem_nil, or_false] at hil
  exact ⟨y, hy, hil⟩

theorem body_wf_term (pg : PG) (hok : pg.OK) (extra : List Str) (hex : ∀ c ∈ extra, NoNl c) (more : Bool) :
    (pg.body extra).WF ∧ (pg.body extra).Term more := by
  obtain ⟨groups, trailing⟩ := pg
  cases groups with
  | nil => exact absurd rfl hok.ne
  | cons x xs =>
    have hx := hok.entries x (by simp)
    have hxs : ∀ y ∈ xs, y.2.WF ∧ y.2.TermAll ∧ ∀ c ∈ y.1, NoNl c := fun y hy => hok.entries y (by simp [hy])
    have hall : ItemsAll (restItems xs ++ cItems (trailing ++ extra)) := by
      apply itemsAll_append _ _ _ (itemsAll_cItems _)
      intro i hi
      obtain ⟨y, hy, h | rfl⟩ := restItems_mem xs i hi
      · exact itemsAll_cItems _ i h
      · exact (hxs y hy).2.1
    refine ⟨⟨hx.1, ?_⟩, termAll_term _ hx.2.1 _, itemsTerm_all _ hall _⟩
    intro i hi
    simp only [PG.body, List.mem_append] at hi
    rcases hi with hi | hi
    · obtain ⟨y, hy, h | rfl⟩ := restItems_mem xs i hi
      · exact cItems_wf _ (hxs y hy).2.2 i h
      · exact (hxs y hy).1
    · refine cItems_wf _ ?_ i hi
      intro c hc
      simp only [List.mem_append] at hc
      rcases hc with hc | hc
      · exact hok.trailing c hc
      · exact hex c hc

theorem zlead_nonl (z : List Str × PG) (hok : z.2.OK) (hz : ∀ c ∈ z.1, NoNl c) : ∀ c ∈ zlead z, NoNl c := by
  intro c hc
  simp only [zlead, List.mem_append] at hc
  rcases hc with hc | hc
  · exact hz c hc
  · have hne := hok.ne
    cases hg : z.2.groups with
    | nil => exact absurd hg hne
    | cons x xs =>
      simp only [PG.lead, hg] at hc
      exact (hok.entries x (by rw [hg]; simp)).2.2 c hc

theorem mkParas_wf (zs : List (List Str × PG)) (tr : List Str)
    (hok : ∀ z ∈ zs, z.2.OK ∧ ∀ c ∈ z.1, NoNl c) (htr : ∀ c ∈ tr, NoNl c) :
    (∀ pg ∈ mkParas zs tr, pg.1.WF ∧ ∀ g ∈ pg.2, g.WF) ∧ parasTerm (mkParas zs tr) := by
  cases zs with
  | nil => exact ⟨by simp [mkParas], trivial⟩
  | cons z zs =>
    induction zs generalizing z with
    | nil =>
      have hz := hok z (by simp)
      have hb := body_wf_term z.2 hz.1 tr htr false
      simp only [mkParas]
      refine ⟨?_, ?_⟩
      · intro pg hpg
        simp only [List.mem_cons, List.not_mem_nil, or_false] at hpg
        subst hpg
        exact ⟨hb.1, by simp⟩
      · exact ⟨hb.2, Or.inl rfl, trivial⟩
    | cons z' zs ih =>
      have hz := hok z (by simp)
      have hz' := hok z' (by simp)
      have hb := body_wf_term z.2 hz.1 [] (by simp) true
      have ih' := ih z' (fun y hy => hok y (by simp [hy]))
      simp only [mkParas]
      refine ⟨?_, ?_⟩
      · intro pg hpg
        simp only [List.mem_cons] at hpg
        rcases hpg with rfl | hpg
        · refine ⟨hb.1, ?_⟩
          intro g hg
          simp only [List.mem_cons] at hg
          rcases hg with rfl | hg
          · trivial
          · exact cGaps_wf _ (zlead_nonl z' hz'.1 hz'.2) g hg
        · exact ih'.1 pg hpg
      · have hrest : parasTerm (mkParas (z' :: zs) tr) := ih'.2
        cases hm : mkParas (z' :: zs) tr with
        | nil => cases zs <;> simp [mkParas] at hm
        | cons q ps =>
          rw [hm] at hrest
          exact ⟨hb.2, ⟨_, rfl⟩, gapsTerm_cGaps _ _, hrest⟩

theorem mkDoc_wf (zs : List (List Str × PG)) (tr : List Str)
    (hok : ∀ z ∈ zs, z.2.OK ∧ ∀ c ∈ z.1, NoNl c) (htr : ∀ c ∈ tr, NoNl c) : (mkDoc zs tr).WF := by
  cases zs with
  | nil =>
    exact ⟨cGaps_wf _ htr, gapsTerm_cGaps _ _, by simp [mkDoc], trivial⟩
  | cons z zs =>
    have hz := hok z (by simp)
    have := mkParas_wf (z :: zs) tr hok htr
    exact ⟨cGaps_wf _ (zlead_nonl z hz.1 hz.2), gapsTerm_cGaps _ _, this.1, this.2⟩


theorem mkParas_termR (zs : List (List Str × PG)) (tr : List Str)
    (hok : ∀ z ∈ zs, z.2.OK ∧ ∀ c ∈ z.1, NoNl c) (htr : ∀ c ∈ tr, NoNl c) : parasTermR (mkParas zs tr) := by
  cases zs with
  | nil => trivial
  | cons z zs =>
    induction zs generalizing z with
    | nil =>
      have hz := hok z (by simp)
      exact ⟨(body_wf_term z.2 hz.1 tr htr true).2, Or.inl rfl, trivial⟩
    | cons z' zs ih =>
      have hz := hok z (by simp)
      have hb := body_wf_term z.2 hz.1 [] (by simp) true
      have hrest : parasTermR (mkParas (z' :: zs) tr) := ih z' (fun y hy => hok y (by simp [hy]))
      simp only [mkParas]
      cases hm : mkParas (z' :: zs) tr with
      | nil => cases zs <;> simp [mkParas] at hm
      | cons q ps =>
        rw [hm] at hrest
        exact ⟨hb.2, ⟨_, rfl⟩, gapsTerm_cGaps _ _, hrest⟩

/-- every line of the printed result is LF-terminated -/
theorem mkDoc_termAll (zs : List (List Str × PG)) (tr : List Str)
    (hok : ∀ z ∈ zs, z.2.OK ∧ ∀ c ∈ z.1, NoNl c) (htr : ∀ c ∈ tr, NoNl c) : DocTermAll (mkDoc zs tr) := by
  cases zs with
  | nil => exact ⟨gapsTerm_cGaps _ _, trivial⟩
  | cons z zs => exact ⟨gapsTerm_cGaps _ _, mkParas_termR (z :: zs) tr hok htr⟩

/-! #### same fields per paragraph -/

theorem itemEntries_append (a b : List PItem) : itemEntries (a ++ b) = itemEntries a ++ itemEntries b := by
  induction a with
  | nil => rfl
  | cons i a ih => cases i <;> simp [itemEntries, ih]

theorem itemEntries_cItems (cs : List Str) : itemEntries (cItems cs) = [] := by
  induction cs with
  | nil => rfl
  | cons c cs ih => simpa [cItems, itemEntries] using ih

theorem itemEntries_restItems (xs : List (List Str × EntryS)) : itemEntries (restItems xs) = xs.map (·.2) := by
  induction xs with
  | nil => rfl
  | cons y xs ih =>
    have : restItems (y :: xs) = cItems y.1 ++ [PItem.entry y.2] ++ restItems xs := by simp [restItems]
    rw [this, itemEntries_append, itemEntries_append, itemEntries_cItems, ih]
    simp [itemEntries]

theorem entries_paraOut (ws : List (List DNode × DNode)) (tr : List DNode)
    (hpre : ∀ w ∈ ws, ∀ c ∈ w.1, isTrivTok c = true) (hent : ∀ w ∈ ws, isEntryNode w.2 = true)
    (htr : ∀ c ∈ tr, isTrivTok c = true) :
    entries (.node .PARAGRAPH (paraOut ws tr)) = ws.map (·.2) := by
  have := groupBy_units (paraOut ws tr) []
  rw [groupBy_paraOut ws tr hpre hent htr] at this
  exact this.symm

theorem entries_body (pg : PG) (hne : pg.groups ≠ []) (extra : List Str) :
    entries (pg.body extra).node = entries pg.node := by
  obtain ⟨groups, trailing⟩ := pg
  have h2 : entries (PG.node ⟨groups, trailing⟩) = (groups.map egrp).map (·.2) := by
    apply entries_paraOut
    · intro w hw
      simp only [List.mem_map] at hw
      obtain ⟨x, _, rfl⟩ := hw
      exact cTok_trivs _
    · intro w hw
      simp only [List.mem_map] at hw
      obtain ⟨x, _, rfl⟩ := hw
      rfl
    · exact cTok_trivs _
  cases groups with
  | nil => exact absurd rfl hne
  | cons x xs =>
    rw [h2, entries_para]
    simp only [PG.body, itemEntries_append, itemEntries_restItems, itemEntries_cItems, List.append_nil,
      List.map_cons, List.map_map, egrp]
    rfl

theorem items_body (pg : PG) (hne : pg.groups ≠ []) (extra : List Str) :
    items (pg.body extra).node = items pg.node := by
  simp only [items, entries_body pg hne extra]

theorem mkParas_items (zs : List (List Str × PG)) (tr : List Str) (hok : ∀ z ∈ zs, z.2.OK) :
    (mkParas zs tr).map (fun pg => items pg.1.node) = zs.map (fun z => items z.2.node) := by
  cases zs with
  | nil => rfl
  | cons z zs =>
    induction zs generalizing z with
    | nil => simp [mkParas, items_body z.2 (hok z (by simp)).ne]
    | cons z' zs ih =>
      have := ih z' (fun y hy => hok y (by simp [hy]))
      simp only [mkParas, List.map_cons, items_body z.2 (hok z (by simp)).ne] at this ⊢
      rw [this]

theorem mkDoc_items (zs : List (List Str × PG)) (tr : List Str) (hok : ∀ z ∈ zs, z.2.OK) :
    docItems (mkDoc zs tr).tree = zs.map (fun z => items z.2.node) := by
  simp only [docItems, paragraphs_tree, List.map_map]
  cases zs with
  | nil => rfl
  | cons z zs => exact mkParas_items (z :: zs) tr hok

theorem paragraphs_docOut (zs : List (List Str × PG)) (tr : List Str) :
    paragraphs (.node .ROOT (docOut (zs.map zgrp) (tr.map cTok))) = zs.map (fun z => z.2.node) := by
  rw [paragraphs_of_groups]
  have : rootGroups (.node .ROOT (docOut (zs.map zgrp) (tr.map cTok))) = (zs.map zgrp, tr.map cTok) := by
    apply groupRoot_docOut
    · intro w hw
      simp only [List.mem_map] at hw
      obtain ⟨z, _, rfl⟩ := hw
      exact cTok_trivs _
    · intro w hw
      simp only [List.mem_map] at hw
      obtain ⟨z, _, rfl⟩ := hw
      rfl
    · exact cTok_trivs _
  rw [this]
  simp [zgrp]

/-! #### the text -/

theorem lexAux_tokText (st : LexState) (input : Str) : tokText (lexAux st input) = input := by
  fun_induction lexAux st input with
  | case1 => simp
  | case2 st c rest r ih =>
    have hs : (lexStep st c rest).1.2 ++ (lexStep st c rest).2.2 = c :: rest := by
      unfold lexStep; (repeat' split) <;> simp [List.takeWhile_append_dropWhile]
    simp only [tokText_cons, ih]; exact hs

theorem tokText_docToks (d : DocS) (h : d.WF) : tokText d.toks = d.str := by
  rw [← lex_doc d h]; exact lexAux_tokText _ _

/-- the blank lines of `mkDoc`: the lead has none, every paragraph but the last is followed by
    exactly one (then only comment lines), the last by nothing -/
theorem mkDoc_shape (zs : List (List Str × PG)) (tr : List Str) :
    (∃ cs, (mkDoc zs tr).lead = cGaps cs)
      ∧ ∀ pg ∈ (mkDoc zs tr).paras, pg.2 = [] ∨ ∃ cs, pg.2 = Gap.blank :: cGaps cs := by
  have hp : ∀ zs : List (List Str × PG), ∀ pg ∈ mkParas zs tr, pg.2 = [] ∨ ∃ cs, pg.2 = Gap.blank :: cGaps cs := by
    intro zs
    cases zs with
    | nil => simp [mkParas]
    | cons z zs =>
      induction zs generalizing z with
      | nil => intro pg hpg; simp only [mkParas, List.mem_cons, List.not_mem_nil, or_false] at hpg; subst hpg; exact Or.inl rfl
      | cons z' zs ih =>
        intro pg hpg
        simp only [mkParas, List.mem_cons] at hpg
        rcases hpg with rfl | hpg
        · exact Or.inr ⟨_, rfl⟩
        · exact ih z' pg hpg
  cases zs with
  | nil => exact ⟨⟨tr, rfl⟩, by simp [mkDoc]⟩
  | cons z zs => exact ⟨⟨_, rfl⟩, hp (z :: zs)⟩

/-- **strict re-read**: wrap-and-sort of (the tree of) a well-formed document succeeds; its printed
    text is the text of the well-formed document `d'`, which has the same fields per paragraph as
    the returned tree -/
theorem deb822Wrap_reread (cfg : WrapCfg) (ele ple : Option (DNode → DNode → Bool)) (d : DocS)
    (hwf : d.WF) (hc : IndentOK cfg) :
    ∃ (root' : DNode) (d' : DocS),
      deb822Wrap ple (some (paragraphWrap cfg ele none)) d.tree = some root'
      ∧ d'.WF ∧ DocTermAll d' ∧ root'.text = d'.str ∧ root'.leaves = d'.toks
      ∧ docItems d'.tree = docItems root'
      ∧ (paragraphs root').length = d.paras.length
      ∧ (∃ cs, d'.lead = cGaps cs)
      ∧ (∀ pg ∈ d'.paras, pg.2 = [] ∨ ∃ cs, pg.2 = Gap.blank :: cGaps cs) := by
  obtain ⟨zs, tr, hzs, htr, hlen, hres⟩ := deb822Wrap_docS cfg ele ple d hwf hc
  have hok : ∀ z ∈ zs, z.2.OK := fun z hz => (hzs z hz).1
  have hd' := mkDoc_wf zs tr hzs htr
  have hleaves : (Node.node Kind.ROOT (docOut (zs.map zgrp) (tr.map cTok))).leaves = (mkDoc zs tr).toks := by
    rw [leaves_node]; exact leaves_docOut zs tr hok
  refine ⟨_, mkDoc zs tr, hres, hd', mkDoc_termAll zs tr hzs htr, ?_, hleaves, ?_, ?_, (mkDoc_shape zs tr).1, (mkDoc_shape zs tr).2⟩
  · rw [← tokText_leaves, hleaves, tokText_docToks _ hd']
  · rw [mkDoc_items zs tr hok]
    simp only [docItems, paragraphs_docOut, List.map_map]
    rfl
  · rw [paragraphs_docOut, List.length_map, hlen]

end Deb822Verif.Deb
