import Deb822Verif.Spec.DocS
/-! Parser inversion: on the token list of a well-formed document the parser produces exactly
    `DocS.tree` and no error. -/
namespace Deb822Verif.Deb
open Deb822Verif Node Spec

/-- head of a token list is not of the given kinds -/
def HeadNot (ks : List Kind) (ts : List Tok) : Prop := ∀ t, ts.head? = some t → t.1 ∉ ks

theorem headNot_nil (ks) : HeadNot ks [] := by intro t h; simp at h
theorem headNot_cons (ks) (t : Tok) (ts) (h : t.1 ∉ ks) : HeadNot ks (t :: ts) := by
  intro t' h'; simp at h'; subst h'; exact h

theorem skipWs_stop (ts : List Tok) (h : HeadNot [.WHITESPACE, .COMMENT] ts) : skipWs ts = ([], ts) := by
  cases ts with
  | nil => simp [skipWs]
  | cons t ts =>
    have := h t (by simp)
    simp only [List.mem_cons, List.not_mem_nil, or_false, not_or] at this
    simp [skipWs, this.1, this.2]

theorem skipWs_optWs (ws : Str) (rest : List Tok) (h : HeadNot [.WHITESPACE, .COMMENT] rest) :
    skipWs (optTok .WHITESPACE ws ++ rest) = ((optTok .WHITESPACE ws).map tk, rest) := by
  unfold optTok
  split
  · simpa using skipWs_stop rest h
  · simp [skipWs, skipWs_stop rest h]

theorem bumpVals_stop (ts : List Tok) (h : HeadNot [.WHITESPACE, .VALUE] ts) : bumpVals ts = ([], ts) := by
  cases ts with
  | nil => simp [bumpVals]
  | cons t ts =>
    have := h t (by simp)
    simp only [List.mem_cons, List.not_mem_nil, or_false, not_or] at this
    simp [bumpVals, this.1, this.2]

theorem bumpVals_optVal (v : Str) (rest : List Tok) (h : HeadNot [.WHITESPACE, .VALUE] rest) :
    bumpVals (optTok .VALUE v ++ rest) = ((optTok .VALUE v).map tk, rest) := by
  unfold optTok
  split
  · simpa using bumpVals_stop rest h
  · simp [bumpVals, bumpVals_stop rest h]

/-- token-level termination of continuation lines: a missing NEWLINE only at the very end -/
def contsTermT : List ContS → List Tok → Prop
  | [], _ => True
  | c :: cs, rest => (c.nl = true ∨ (cs = [] ∧ rest = [])) ∧ contsTermT cs rest

theorem contsTermT_of (cs : List ContS) (more : Bool) (rest : List Tok) (h : contsTerm cs more)
    (hm : more = false → rest = []) : contsTermT cs rest := by
  induction cs with
  | nil => trivial
  | cons c cs ih =>
    obtain ⟨h1, h2⟩ := h
    refine ⟨?_, ih h2⟩
    rcases h1 with h | ⟨ha, hb⟩
    · exact Or.inl h
    · exact Or.inr ⟨ha, hm hb⟩

/-! `entryLines` unfolded according to what `bumpVals` leaves -/
theorem entryLines_of_nil (ts : List Tok) (vals) (h : bumpVals ts = (vals, [])) :
    entryLines ts = ⟨vals, [], []⟩ := by
  rw [entryLines]; split <;> simp_all

theorem entryLines_of_one (ts : List Tok) (vals) (t : Tok) (h : bumpVals ts = (vals, [t])) :
    entryLines ts = ⟨vals ++ nlNodes t, nlErrs t, []⟩ := by
  rw [entryLines]; split <;> simp_all

theorem entryLines_of_stop (ts : List Tok) (vals) (t i : Tok) (r3)
    (h : bumpVals ts = (vals, t :: i :: r3)) (hi : i.1 ≠ .INDENT) :
    entryLines ts = ⟨vals ++ nlNodes t, nlErrs t, i :: r3⟩ := by
  rw [entryLines]; split <;> simp_all

theorem entryLines_of_indent (ts : List Tok) (vals) (t i : Tok) (r3)
    (h : bumpVals ts = (vals, t :: i :: r3)) (hi : i.1 = .INDENT) :
    entryLines ts = ⟨vals ++ nlNodes t ++ [tk i] ++ (skipWs r3).1 ++ (entryLines (skipWs r3).2).nodes,
      nlErrs t ++ (entryLines (skipWs r3).2).errs, (entryLines (skipWs r3).2).rest⟩ := by
  rw [entryLines]; split <;> simp_all

theorem nlNodes_nl (s : Str) : nlNodes (.NEWLINE, s) = [tk (.NEWLINE, s)] := by simp [nlNodes]
theorem nlErrs_nl (s : Str) : nlErrs (.NEWLINE, s) = [] := by simp [nlErrs]

/-- the value/continuation loop of `parse_entry` on `vals NEWLINE? (INDENT VALUE NEWLINE?)*` -/
theorem entryLines_conts (cs : List ContS) (hne : ∀ c ∈ cs, c.text ≠ []) :
    ∀ (v : Str) (nl : Bool) (rest : List Tok),
    (nl = true ∨ (cs = [] ∧ rest = [])) → contsTermT cs rest →
    HeadNot [.INDENT] rest →
    entryLines (optTok .VALUE v ++ nlTok nl ++ contsToks cs ++ rest) =
      ⟨(optTok .VALUE v ++ nlTok nl ++ contsToks cs).map tk, [], rest⟩ := by
  induction cs with
  | nil =>
    intro v nl rest hnl _ hrest
    cases nl with
    | false =>
      rcases hnl with h | ⟨_, h⟩
      · simp at h
      · subst h
        have hb := bumpVals_optVal v [] (headNot_nil _)
        simp only [nlTok, contsToks, List.map_nil, List.flatten_nil, List.append_nil,
          Bool.false_eq_true, ↓reduceIte] at hb ⊢
        rw [entryLines_of_nil _ _ hb]
    | true =>
      simp only [nlTok, contsToks, List.map_nil, List.flatten_nil, List.append_nil, ↓reduceIte,
        List.append_assoc, List.cons_append, List.nil_append]
      cases rest with
      | nil =>
        have hb := bumpVals_optVal v [(.NEWLINE, ['\n'])] (headNot_cons _ _ _ (by simp))
        rw [entryLines_of_one _ _ _ hb]; simp [nlNodes_nl, nlErrs_nl]
      | cons i r3 =>
        have hb := bumpVals_optVal v ((.NEWLINE, ['\n']) :: i :: r3) (headNot_cons _ _ _ (by simp))
        have hi : i.1 ≠ .INDENT := by simpa using hrest i (by simp)
        rw [entryLines_of_stop _ _ _ _ _ hb hi]; simp [nlNodes_nl, nlErrs_nl]
  | cons c cs ih =>
    intro v nl rest hnl hterm hrest
    have hnl' : nl = true := by
      rcases hnl with h | ⟨h, _⟩
      · exact h
      · simp at h
    subst hnl'
    obtain ⟨hc, hcs⟩ := hterm
    have hrec := ih (fun x hx => hne x (by simp [hx])) c.text c.nl rest hc hcs hrest
    have hct : optTok .VALUE c.text = [(.VALUE, c.text)] := by simp [optTok, hne c (by simp)]
    rw [hct] at hrec
    have hin : optTok .VALUE v ++ nlTok true ++ contsToks (c :: cs) ++ rest =
        optTok .VALUE v ++ (.NEWLINE, ['\n']) :: (.INDENT, c.indent) ::
          ((.VALUE, c.text) :: (nlTok c.nl ++ contsToks cs ++ rest)) := by
      simp [nlTok, contsToks, ContS.toks]
    have hb := bumpVals_optVal v ((.NEWLINE, ['\n']) :: (.INDENT, c.indent) ::
          ((.VALUE, c.text) :: (nlTok c.nl ++ contsToks cs ++ rest))) (headNot_cons _ _ _ (by simp))
    rw [hin, entryLines_of_indent _ _ _ _ _ hb rfl]
    have hsk : skipWs ((.VALUE, c.text) :: (nlTok c.nl ++ contsToks cs ++ rest)) =
        ([], (.VALUE, c.text) :: (nlTok c.nl ++ contsToks cs ++ rest)) :=
      skipWs_stop _ (headNot_cons _ _ _ (by simp))
    rw [hsk]
    simp only [List.cons_append, List.nil_append, List.append_assoc] at hrec ⊢
    rw [hrec]
    simp [nlNodes_nl, nlErrs_nl, contsToks, ContS.toks, nlTok]

/-- token-level termination of an entry -/
def EntryS.TermT (e : EntryS) (rest : List Tok) : Prop :=
  (e.nl = true ∨ (e.conts = [] ∧ rest = [])) ∧ contsTermT e.conts rest

theorem headNot_valuePart (v : Str) (nl : Bool) (cs : List ContS) (rest : List Tok)
    (h : nl = true ∨ (cs = [] ∧ rest = [])) :
    HeadNot [.WHITESPACE, .COMMENT] (optTok .VALUE v ++ nlTok nl ++ contsToks cs ++ rest) := by
  intro t ht
  unfold optTok at ht
  split at ht
  · cases nl with
    | true => simp [nlTok] at ht; subst ht; simp
    | false =>
      rcases h with h | ⟨h1, h2⟩
      · simp at h
      · subst h1 h2; simp [nlTok, contsToks] at ht
  · simp at ht; subst ht; simp

theorem entryBody_entry (e : EntryS) (rest : List Tok) (hne : ∀ c ∈ e.conts, c.text ≠ [])
    (hterm : EntryS.TermT e rest) (hrest : HeadNot [.INDENT] rest) :
    entryBody (e.toks ++ rest) = ⟨[e.node], [], rest⟩ := by
  obtain ⟨h1, h2⟩ := hterm
  have hk : keyPart (e.toks ++ rest) =
      ⟨[tk (.KEY, e.key)], [], (.COLON, [':']) :: (optTok .WHITESPACE e.ws ++
        (optTok .VALUE e.v ++ nlTok e.nl ++ contsToks e.conts ++ rest))⟩ := by
    simp only [EntryS.toks, List.cons_append, keyPart, ↓reduceIte]
    rw [skipWs_stop _ (headNot_cons _ _ _ (by simp))]
    simp
  have hc : colonPart ((.COLON, [':']) :: (optTok .WHITESPACE e.ws ++
        (optTok .VALUE e.v ++ nlTok e.nl ++ contsToks e.conts ++ rest))) =
      ⟨tk (.COLON, [':']) :: (optTok .WHITESPACE e.ws).map tk, [],
        optTok .VALUE e.v ++ nlTok e.nl ++ contsToks e.conts ++ rest⟩ := by
    simp only [colonPart, ↓reduceIte]
    rw [skipWs_optWs _ _ (headNot_valuePart e.v e.nl e.conts rest h1)]
  have hl := entryLines_conts e.conts hne e.v e.nl rest h1 h2 hrest
  simp only [entryBody, hk, hc, hl]
  simp [EntryS.node, EntryS.toks]

theorem commentLoop_notComment (ts : List Tok) (h : HeadNot [.COMMENT] ts) :
    commentLoop ts = ⟨[], [], ts, false⟩ := by
  cases ts with
  | nil => simp [commentLoop]
  | cons t ts =>
    have : t.1 ≠ .COMMENT := by simpa using h t (by simp)
    exact commentLoop_id t ts this

theorem parseEntry_entry (e : EntryS) (rest : List Tok) (hne : ∀ c ∈ e.conts, c.text ≠ [])
    (hterm : EntryS.TermT e rest) (hrest : HeadNot [.INDENT] rest) :
    parseEntry (e.toks ++ rest) = ⟨[e.node], [], rest⟩ := by
  have hcl : commentLoop (e.toks ++ rest) = ⟨[], [], e.toks ++ rest, false⟩ := by
    apply commentLoop_notComment
    simp only [EntryS.toks, List.cons_append]
    exact headNot_cons _ _ _ (by simp)
  have hep : endsParagraph (e.toks ++ rest) = false := by
    simp [EntryS.toks, endsParagraph]
  simp only [parseEntry, hcl, hep, entryBody_entry e rest hne hterm hrest]
  simp

theorem parseEntry_nil : parseEntry [] = ⟨[], [], []⟩ := by
  simp [parseEntry, commentLoop, endsParagraph]

theorem parseEntry_newline (t : Tok) (ts) (h : t.1 = .NEWLINE) : parseEntry (t :: ts) = ⟨[], [], t :: ts⟩ := by
  have hc : t.1 ≠ .COMMENT := by rw [h]; simp
  simp [parseEntry, commentLoop_id t ts hc, endsParagraph, h]

/-- a terminated comment line in front: `parse_entry` copies it and carries on -/
theorem parseEntry_comment (c n : Str) (rest : List Tok) :
    parseEntry ((.COMMENT, c) :: (.NEWLINE, n) :: rest) =
      ⟨tk (.COMMENT, c) :: tk (.NEWLINE, n) :: (parseEntry rest).nodes, (parseEntry rest).errs,
        (parseEntry rest).rest⟩ := by
  simp only [parseEntry, commentLoop, ↓reduceIte, nlNodes_nl, nlErrs_nl, List.nil_append,
    List.cons_append]
  split <;> simp

theorem parseEntry_comment_eof (c : Str) : parseEntry [(.COMMENT, c)] = ⟨[tk (.COMMENT, c)], [], []⟩ := by
  simp [parseEntry, commentLoop]

theorem paraLoop_nil : paraLoop [] = ⟨[], [], []⟩ := by rw [paraLoop]

theorem paraLoop_newline (t : Tok) (ts) (h : t.1 = .NEWLINE) : paraLoop (t :: ts) = ⟨[], [], t :: ts⟩ := by
  rw [paraLoop]; simp [h]

theorem paraLoop_step (t : Tok) (ts) (h : t.1 ≠ .NEWLINE) :
    paraLoop (t :: ts) =
      ⟨(parseEntry (t :: ts)).nodes ++ (paraLoop (parseEntry (t :: ts)).rest).nodes,
        (parseEntry (t :: ts)).errs ++ (paraLoop (parseEntry (t :: ts)).rest).errs,
        (paraLoop (parseEntry (t :: ts)).rest).rest⟩ := by
  rw [paraLoop]; simp [h]

theorem paraLoop_step' (ts : List Tok) (h : endsParagraph ts = false) :
    paraLoop ts =
      ⟨(parseEntry ts).nodes ++ (paraLoop (parseEntry ts).rest).nodes,
        (parseEntry ts).errs ++ (paraLoop (parseEntry ts).rest).errs,
        (paraLoop (parseEntry ts).rest).rest⟩ := by
  cases ts with
  | nil => simp [endsParagraph] at h
  | cons t ts => exact paraLoop_step t ts (by simpa [endsParagraph] using h)

/-- the paragraph loop in terms of one `parse_entry` call, for every input -/
theorem paraLoop_unfold (ts : List Tok) :
    paraLoop ts =
      ⟨(parseEntry ts).nodes ++ (paraLoop (parseEntry ts).rest).nodes,
        (parseEntry ts).errs ++ (paraLoop (parseEntry ts).rest).errs,
        (paraLoop (parseEntry ts).rest).rest⟩ ∨ (endsParagraph ts = true ∧ paraLoop ts = ⟨[], [], ts⟩) := by
  cases ts with
  | nil => right; simp [endsParagraph, paraLoop_nil]
  | cons t ts =>
    by_cases h : t.1 = .NEWLINE
    · right; simp [endsParagraph, h, paraLoop_newline t ts h]
    · left; exact paraLoop_step t ts h

theorem paraLoop_comment (c n : Str) (rest : List Tok) :
    paraLoop ((.COMMENT, c) :: (.NEWLINE, n) :: rest) =
      ⟨tk (.COMMENT, c) :: tk (.NEWLINE, n) :: (paraLoop rest).nodes, (paraLoop rest).errs,
        (paraLoop rest).rest⟩ := by
  rw [paraLoop_step _ _ (by simp), parseEntry_comment]
  simp only [List.cons_append]
  rcases paraLoop_unfold rest with h | ⟨h1, h2⟩
  · rw [h]
  · -- the paragraph ends right after the comment
    have hpe : parseEntry rest = ⟨[], [], rest⟩ := by
      cases rest with
      | nil => exact parseEntry_nil
      | cons t ts =>
        have : t.1 = .NEWLINE := by simpa [endsParagraph] using h1
        exact parseEntry_newline t ts this
    rw [hpe, h2]; simp

/-- token-level termination of paragraph items -/
def itemsTermT : List PItem → List Tok → Prop
  | [], _ => True
  | .comment _ nl :: is, rest => (nl = true ∨ (is = [] ∧ rest = [])) ∧ itemsTermT is rest
  | .entry e :: is, rest => EntryS.TermT e (itemsToks is ++ rest) ∧ itemsTermT is rest

theorem itemsToks_cons (i : PItem) (is) : itemsToks (i :: is) = i.toks ++ itemsToks is := by
  simp [itemsToks]
theorem itemsNodes_cons (i : PItem) (is) : itemsNodes (i :: is) = i.nodes ++ itemsNodes is := by
  simp [itemsNodes]

theorem headNot_items (is : List PItem) (rest : List Tok) (hr : HeadNot [.INDENT] rest) :
    HeadNot [.INDENT] (itemsToks is ++ rest) := by
  cases is with
  | nil => simpa [itemsToks] using hr
  | cons i is =>
    cases i with
    | comment t nl => simp only [itemsToks_cons, PItem.toks, List.cons_append]; exact headNot_cons _ _ _ (by simp)
    | entry e => simp only [itemsToks_cons, PItem.toks, EntryS.toks, List.cons_append]; exact headNot_cons _ _ _ (by simp)

/-- the paragraph loop over the items of a paragraph; what follows ends the paragraph -/
theorem paraLoop_items (is : List PItem) (rest : List Tok)
    (hne : ∀ i ∈ is, ∀ e, i = .entry e → ∀ c ∈ e.conts, c.text ≠ [])
    (hterm : itemsTermT is rest) (hrest : endsParagraph rest = true) :
    paraLoop (itemsToks is ++ rest) = ⟨itemsNodes is, [], rest⟩ := by
  have hri : HeadNot [.INDENT] rest := by
    intro t ht
    cases rest with
    | nil => simp at ht
    | cons x xs => simp at ht; subst ht; simp [endsParagraph] at hrest; simp [hrest]
  induction is with
  | nil =>
    simp only [itemsToks, List.map_nil, List.flatten_nil, List.nil_append, itemsNodes]
    cases rest with
    | nil => exact paraLoop_nil
    | cons t ts => exact paraLoop_newline t ts (by simpa [endsParagraph] using hrest)
  | cons i is ih =>
    have hrec := fun ht => ih (fun x hx => hne x (by simp [hx])) ht
    cases i with
    | comment t nl =>
      obtain ⟨h1, h2⟩ := hterm
      cases nl with
      | true =>
        simp only [itemsToks_cons, PItem.toks, nlTok, ↓reduceIte, List.cons_append, List.nil_append,
          itemsNodes_cons, PItem.nodes, List.map_cons, List.map_nil]
        rw [paraLoop_comment, hrec h2]
      | false =>
        rcases h1 with h | ⟨ha, hb⟩
        · simp at h
        · subst ha hb
          simp only [itemsToks, PItem.toks, nlTok, List.map_cons, List.map_nil, List.flatten_cons,
            List.flatten_nil, List.append_nil, Bool.false_eq_true, ↓reduceIte, itemsNodes, PItem.nodes]
          rw [paraLoop_step _ _ (by simp), parseEntry_comment_eof]
          simp [paraLoop_nil]
    | entry e =>
      obtain ⟨h1, h2⟩ := hterm
      have hne' := hne (.entry e) (by simp) e rfl
      simp only [itemsToks_cons, PItem.toks, List.append_assoc, itemsNodes_cons, PItem.nodes]
      have hpe := parseEntry_entry e (itemsToks is ++ rest) hne' h1 (headNot_items is rest hri)
      rw [paraLoop_step' _ (by simp [EntryS.toks, endsParagraph]), hpe, hrec h2]
      simp

/-! ### blank / comment lines between paragraphs -/

def gapsTermT : List Gap → List Tok → Prop
  | [], _ => True
  | .blank :: gs, rest => gapsTermT gs rest
  | .comment _ nl :: gs, rest => (nl = true ∨ (gs = [] ∧ rest = [])) ∧ gapsTermT gs rest

theorem skipWsNl_nil : skipWsNl [] = ([], []) := by rw [skipWsNl]

theorem skipWsNl_stop (ts : List Tok) (h : HeadNot [.WHITESPACE, .COMMENT, .NEWLINE] ts) :
    skipWsNl ts = ([], ts) := by
  cases ts with
  | nil => exact skipWsNl_nil
  | cons t ts =>
    have := h t (by simp)
    simp only [List.mem_cons, List.not_mem_nil, or_false, not_or] at this
    rw [skipWsNl]; simp [isBlankStart, this.1, this.2.1, this.2.2]

theorem skipWsNl_gaps (gs : List Gap) (rest : List Tok) (hterm : gapsTermT gs rest)
    (hrest : HeadNot [.WHITESPACE, .COMMENT, .NEWLINE] rest) :
    skipWsNl (gapsToks gs ++ rest) = (gs.map Gap.node, rest) := by
  induction gs with
  | nil => simpa [gapsToks] using skipWsNl_stop rest hrest
  | cons g gs ih =>
    cases g with
    | blank =>
      have := ih hterm
      simp only [gapsToks, List.map_cons, List.flatten_cons, Gap.toks, List.cons_append,
        List.nil_append] at this ⊢
      rw [skipWsNl]
      simp [isBlankStart, untilNl, this, Gap.node, Gap.toks]
    | comment t nl =>
      obtain ⟨h1, h2⟩ := hterm
      have := ih h2
      cases nl with
      | true =>
        simp only [gapsToks, List.map_cons, List.flatten_cons, Gap.toks, nlTok, ↓reduceIte,
          List.cons_append, List.nil_append] at this ⊢
        rw [skipWsNl]
        simp [isBlankStart, untilNl, this, Gap.node, Gap.toks, nlTok]
      | false =>
        rcases h1 with h | ⟨ha, hb⟩
        · simp at h
        · subst ha hb
          simp only [gapsToks, Gap.toks, nlTok, List.map_cons, List.map_nil, List.flatten_cons,
            List.flatten_nil, List.append_nil, Bool.false_eq_true, ↓reduceIte]
          rw [skipWsNl]
          simp [isBlankStart, untilNl, skipWsNl_nil, Gap.node, Gap.toks, nlTok]

end Deb822Verif.Deb

namespace Deb822Verif.Deb
open Deb822Verif Node Spec

/-! ### from the document-level termination predicates to the token-level ones -/

theorem EntryS.termT_of (e : EntryS) (more : Bool) (rest : List Tok) (h : e.Term more)
    (hm : more = false → rest = []) : EntryS.TermT e rest := by
  obtain ⟨h1, h2⟩ := h
  refine ⟨?_, contsTermT_of e.conts more rest h2 hm⟩
  rcases h1 with h | ⟨ha, hb⟩
  · exact Or.inl h
  · exact Or.inr ⟨ha, hm hb⟩

theorem itemsTermT_of (is : List PItem) (more : Bool) (rest : List Tok) (h : itemsTerm is more)
    (hm : more = false → rest = []) : itemsTermT is rest := by
  induction is with
  | nil => trivial
  | cons i is ih =>
    cases i with
    | comment t nl =>
      obtain ⟨h1, h2⟩ := h
      refine ⟨?_, ih h2⟩
      rcases h1 with h | ⟨ha, hb⟩
      · exact Or.inl h
      · exact Or.inr ⟨ha, hm hb⟩
    | entry e =>
      obtain ⟨h1, h2⟩ := h
      refine ⟨EntryS.termT_of e _ _ h1 ?_, ih h2⟩
      intro hf
      simp only [Bool.or_eq_false_iff, Bool.not_eq_eq_eq_not, Bool.not_false, List.isEmpty_iff] at hf
      rw [hf.1, hm hf.2]; simp [itemsToks]

theorem gapsTermT_of (gs : List Gap) (more : Bool) (rest : List Tok) (h : gapsTerm gs more)
    (hm : more = false → rest = []) : gapsTermT gs rest := by
  induction gs with
  | nil => trivial
  | cons g gs ih =>
    cases g with
    | blank => exact ih h
    | comment t nl =>
      obtain ⟨h1, h2⟩ := h
      refine ⟨?_, ih h2⟩
      rcases h1 with h | ⟨ha, hb⟩
      · exact Or.inl h
      · exact Or.inr ⟨ha, hm hb⟩

/-- a whole paragraph -/
theorem paraLoop_para (p : ParaS) (more : Bool) (rest : List Tok) (hwf : p.WF) (hterm : p.Term more)
    (hm : more = false → rest = []) (hrest : endsParagraph rest = true) :
    paraLoop (p.toks ++ rest) = ⟨p.first.node :: itemsNodes p.rest, [], rest⟩ := by
  have hne : ∀ i ∈ PItem.entry p.first :: p.rest, ∀ e, i = .entry e → ∀ c ∈ e.conts, c.text ≠ [] := by
    intro i hi e he c hc
    have hewf : e.WF := by
      simp only [List.mem_cons] at hi
      rcases hi with h | h
      · rw [h] at he; cases he; exact hwf.first_ok
      · have := hwf.rest_ok i h; rw [he] at this; exact this
    obtain ⟨_, x, xs, hx, _⟩ := (hewf.conts_ok c hc).text_ok
    rw [hx]; simp
  have ht : itemsTermT (PItem.entry p.first :: p.rest) rest := by
    obtain ⟨h1, h2⟩ := hterm
    refine ⟨EntryS.termT_of _ _ _ h1 ?_, itemsTermT_of _ _ _ h2 hm⟩
    intro hf
    simp only [Bool.or_eq_false_iff, Bool.not_eq_eq_eq_not, Bool.not_false, List.isEmpty_iff] at hf
    rw [hf.1, hm hf.2]; simp [itemsToks]
  have := paraLoop_items (PItem.entry p.first :: p.rest) rest hne ht hrest
  simpa [itemsToks_cons, itemsNodes_cons, PItem.toks, PItem.nodes, ParaS.toks] using this

/-! ### the root loop -/

theorem rootLoop_nil : rootLoop [] = ⟨[], [], []⟩ := by rw [rootLoop]

theorem rootLoop_of_nil (ts : List Tok) (hne : ts ≠ []) (nodes) (h : skipWsNl ts = (nodes, [])) :
    rootLoop ts = ⟨nodes, [], []⟩ := by
  cases ts with
  | nil => exact absurd rfl hne
  | cons t0 ts0 => rw [rootLoop]; split <;> simp_all

theorem rootLoop_of_cons (ts : List Tok) (hne : ts ≠ []) (nodes) (t : Tok) (r)
    (h : skipWsNl ts = (nodes, t :: r)) :
    rootLoop ts =
      ⟨nodes ++ [Node.node .PARAGRAPH (paraLoop (t :: r)).nodes] ++ (rootLoop (paraLoop (t :: r)).rest).nodes,
        (paraLoop (t :: r)).errs ++ (rootLoop (paraLoop (t :: r)).rest).errs,
        (rootLoop (paraLoop (t :: r)).rest).rest⟩ := by
  cases ts with
  | nil => exact absurd rfl hne
  | cons t0 ts0 => rw [rootLoop]; split <;> simp_all

theorem parasToks_cons (pg : ParaS × List Gap) (ps) :
    parasToks (pg :: ps) = pg.1.toks ++ (gapsToks pg.2 ++ parasToks ps) := by
  simp [parasToks]

theorem parasNodes_cons (pg : ParaS × List Gap) (ps) :
    parasNodes (pg :: ps) = pg.1.node :: (pg.2.map Gap.node ++ parasNodes ps) := by
  simp [parasNodes]

theorem para_toks_head (p : ParaS) (rest : List Tok) :
    ∃ r, p.toks ++ rest = (.KEY, p.first.key) :: r := by
  simp [ParaS.toks, EntryS.toks]

theorem gapsToks_ne (g : Gap) (gs) (rest : List Tok) : gapsToks (g :: gs) ++ rest ≠ [] := by
  cases g <;> simp [gapsToks, Gap.toks]

theorem rootLoop_doc (ps : List (ParaS × List Gap)) : ∀ (g0 : List Gap),
    (∀ pg ∈ ps, pg.1.WF) → parasTerm ps → gapsTermT g0 (parasToks ps) →
    rootLoop (gapsToks g0 ++ parasToks ps) = ⟨g0.map Gap.node ++ parasNodes ps, [], []⟩ := by
  induction ps with
  | nil =>
    intro g0 _ _ hg
    simp only [parasToks, List.map_nil, List.flatten_nil, List.append_nil, parasNodes] at hg ⊢
    cases g0 with
    | nil => simpa [gapsToks] using rootLoop_nil
    | cons g gs =>
      have hs := skipWsNl_gaps (g :: gs) [] hg (headNot_nil _)
      simp only [List.append_nil] at hs
      exact rootLoop_of_nil _ (by simpa using gapsToks_ne g gs []) _ hs
  | cons pg ps ih =>
    obtain ⟨p, g⟩ := pg
    intro g0 hwf hterm hg
    obtain ⟨r, hr⟩ := para_toks_head p (gapsToks g ++ parasToks ps)
    have hne : gapsToks g0 ++ parasToks ((p, g) :: ps) ≠ [] := by
      rw [parasToks_cons]; simp only [hr]; simp
    have hs := skipWsNl_gaps g0 (parasToks ((p, g) :: ps)) hg (by
      rw [parasToks_cons]; simp only [hr]; exact headNot_cons _ _ _ (by simp))
    -- what follows the paragraph ends it; and its termination flags
    have hpl : paraLoop (p.toks ++ (gapsToks g ++ parasToks ps)) =
        ⟨p.first.node :: itemsNodes p.rest, [], gapsToks g ++ parasToks ps⟩ ∧
        gapsTermT g (parasToks ps) ∧ parasTerm ps := by
      cases ps with
      | nil =>
        obtain ⟨h1, h2, h3⟩ := hterm
        refine ⟨?_, ?_, trivial⟩
        · apply paraLoop_para p (!g.isEmpty) _ (hwf (p, g) (by simp)) h1
          · intro hf; simp at hf; subst hf; simp [gapsToks, parasToks]
          · rcases h2 with h | ⟨g', h⟩
            · subst h; simp [gapsToks, parasToks, endsParagraph]
            · subst h; simp [gapsToks, Gap.toks, endsParagraph]
        · exact gapsTermT_of g false _ h3 (fun _ => by simp [parasToks])
      | cons q ps' =>
        obtain ⟨h1, ⟨g', h2⟩, h3, h4⟩ := hterm
        refine ⟨?_, ?_, h4⟩
        · apply paraLoop_para p true _ (hwf (p, g) (by simp)) h1 (by simp)
          subst h2; simp [gapsToks, Gap.toks, endsParagraph]
        · exact gapsTermT_of g true _ h3 (by simp)
    obtain ⟨hpl, hgt, hpt⟩ := hpl
    have hrec := ih g (fun x hx => hwf x (by simp [hx])) hpt hgt
    rw [parasToks_cons] at hs hne ⊢
    simp only [hr] at hs hpl hne ⊢
    rw [rootLoop_of_cons _ hne _ _ _ hs, hpl, hrec]
    simp [parasNodes_cons, ParaS.node]

/-- **Parser inversion**: the token list of a well-formed document parses, without error, to
    exactly `DocS.tree`. -/
theorem parse_doc (d : DocS) (h : d.WF) : parseTokens d.toks = ⟨d.tree, []⟩ := by
  have hg : gapsTermT d.lead (parasToks d.paras) := by
    apply gapsTermT_of d.lead _ _ h.lead_term
    intro hf; simp at hf; rw [hf]; simp [parasToks]
  have := rootLoop_doc d.paras d.lead (fun pg hpg => (h.paras_ok pg hpg).1) h.paras_term hg
  simp [parseTokens, DocS.toks, DocS.tree, this]

end Deb822Verif.Deb
