import Deb822Verif.Model.RelWrap
/-!
  Model of `==` on the lossless relation types, `debian-control/src/lossless/relations.rs`:
  `PartialEq for Relations` (450-454), `PartialEq for Entry` (456-460), `PartialEq for Relation`
  (462-472), next to the orderings of Model/RelWrap.lean (`PartialOrd for Relation` 1738-1781,
  `PartialOrd for Entry` 746-763), in the evaluation order of the code: `&&` and `Vec == Vec`
  short-circuit, so an accessor `unwrap()` that would panic is only reached when everything before
  it was equal. `none` = panic.

  `Relation ==` compares the architectures as `HashSet<String>` (duplicates and order do not count)
  while `cmp` compares the SORTED `Vec<String>` (duplicates count): the two are not coherent on
  `a [x x]` / `a [x]` (Props/C13Eq). `Version ==` is `cmp == Equal` (debversion 0.4.4), modelled by
  the total `DebVersion.compare` (numeric components above i32::MAX panic in the code: F-C12-1; the
  generator of `rel.eqcmp` has none).
-/
namespace Deb822Verif.Rel.Eq
open Deb822Verif Rel Node Rel.Wrap DebVersion

/-- `HashSet<String> == HashSet<String>` -/
def setEq (a b : List Str) : Bool := a.all (fun x => b.contains x) && b.all (fun x => a.contains x)

/-- `Option<(VersionConstraint, Version)> ==` (derived for option / tuple / enum; `Version::eq` is
    `cmp == Equal`) -/
def versionEq : Option (VC × Version) → Option (VC × Version) → Bool
  | none, none => true
  | some a, some b => decide (a.1 = b.1) && (DebVersion.compare a.2 b.2 == .eq)
  | _, _ => false

/-- `Option<HashSet<String>> ==` -/
def optSetEq : Option (List Str) → Option (List Str) → Bool
  | none, none => true
  | some a, some b => setEq a b
  | _, _ => false

/-- `PartialEq for Relation` on the accessor values -/
def relEq (a b : RV) : Bool :=
  decide (a.name = b.name) && (versionEq a.version b.version && (decide (a.archqual = b.archqual)
    && (optSetEq a.architectures b.architectures && decide (a.profiles = b.profiles))))

/-- `PartialEq for Relation` on two RELATION nodes, in evaluation order -/
def relNodeEqO (a b : RNode) : Option Bool :=
  match name a, name b with
  | some na, some nb =>
    if na ≠ nb then some false
    else
      match version a, version b with
      | .ok va, .ok vb =>
        some (versionEq va vb && (decide (archqual a = archqual b)
          && (optSetEq (architectures a) (architectures b) && decide (profiles a = profiles b))))
      | _, _ => none
  | _, _ => none

/-- `Ord for Relation` on two RELATION nodes, in evaluation order (early return on the name) -/
def relNodeCmpO (a b : RNode) : Option Ordering :=
  match name a, name b with
  | some na, some nb =>
    if strCmp na nb ≠ .eq then some (strCmp na nb)
    else
      match version a, version b with
      | .ok va, .ok vb =>
        some ((optCmp versionCmp va vb).then
          ((optCmp strCmp (archqual a) (archqual b)).then
            ((optCmp (lexCmp strCmp) ((architectures a).map (·.mergeSort (leOf strCmp)))
                ((architectures b).map (·.mergeSort (leOf strCmp)))).then
              (lexCmp (lexCmp strCmp) ((profiles a).map (·.map Lossy.showProfile))
                ((profiles b).map (·.map Lossy.showProfile))))))
      | _, _ => none
  | _, _ => none

/-- `[T] == [T]`: lengths first, then element by element until the first difference -/
def allEqO {α} (eq : α → α → Option Bool) : List α → List α → Option Bool
  | a :: as, b :: bs =>
    match eq a b with
    | some true => allEqO eq as bs
    | r => r
  | _, _ => some true

def sliceEqO {α} (eq : α → α → Option Bool) (x y : List α) : Option Bool :=
  if x.length ≠ y.length then some false else allEqO eq x y

/-- `PartialEq for Entry` -/
def entryNodeEqO (a b : RNode) : Option Bool := sliceEqO relNodeEqO (relations a) (relations b)

/-- `PartialEq for Relations`: the ENTRY children only (substitution variables, empty entries and
    stray tokens do not count) -/
def relationsNodeEqO (a b : RNode) : Option Bool := sliceEqO entryNodeEqO (entries a) (entries b)

/-- `Ord for Entry`: the loop of relations.rs:750-761 -/
def entryNodeCmpO : List RNode → List RNode → Option Ordering
  | [], [] => some .eq
  | [], _ :: _ => some .lt
  | _ :: _, [] => some .gt
  | a :: as, b :: bs =>
    match relNodeCmpO a b with
    | some .eq => entryNodeCmpO as bs
    | r => r

end Deb822Verif.Rel.Eq
