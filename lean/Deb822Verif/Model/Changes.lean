import Deb822Verif.Model.DebAccess
import Deb822Verif.Model.DebEdit
import Deb822Verif.Model.Codec
import Deb822Verif.Model.Outcome
/-!
  `debian_control::lossless::changes::Changes` (debian-control/src/lossless/changes.rs): the four
  readers `read` / `read_relaxed` / `from_file` / `from_file_relaxed` (:194-251), the three getters
  the readers' results are observed through (`format` :84, `source` :94, `files` :157) and
  `get_pool_path` (:164-184, with its three panic sites).

  A `Changes` value is a handle on ONE paragraph of a deb822 document (`struct Changes(Paragraph)`);
  the document stays alive through the paragraph's parent pointer. As in `Model/DebEdit.lean` a
  handle is a position among the ROOT's children.
-/
namespace Deb822Verif.Changes
open Deb822Verif Deb Text Codec

/-- `changes::ParseError` (:8-17). `io` = `Deb822(Error::IoError(_))`: the bytes are not UTF-8
    (`read_to_string` fails; the only I/O error an in-memory reader can produce). -/
inductive ParseError where
  | io
  | deb822 (errs : List String)
  | noParagraphs
  | multipleParagraphs
  deriving DecidableEq, Repr

/-- `Display for ParseError` (:19-27) of the two variants that are constants -/
def ParseError.display? : ParseError → Option String
  | .noParagraphs => some "no paragraphs found"
  | .multipleParagraphs => some "multiple paragraphs found"
  | _ => none

/-- the message `read_relaxed` pushes (:218, :248) -/
def multipleMsg : String := "multiple paragraphs found"

/-- `Changes::read` (:224-235) after UTF-8 decoding: `Deb822::read(&mut r)?`, then
    `paras.next()` must be `Some` and a second `paras.next()` must be `None`. -/
def read (s : Str) : Except ParseError DNode :=
  match readStrict s with
  | .error e => .error (.deb822 e)
  | .ok t =>
    match paragraphs t with
    | [] => .error .noParagraphs
    | p :: rest => if rest.isEmpty then .ok p else .error .multipleParagraphs

/-- result of the tolerant reader: the document after the call (it is MUTATED when it had no
    paragraph), the wrapped paragraph = handle 0 of `doc`, and the error list -/
structure Relaxed where
  doc : Doc
  para : DNode
  errors : List String
  deriving Inhabited

/-- `Changes::read_relaxed` (:238-251) after UTF-8 decoding.
    * a first paragraph exists: it is wrapped; `paras.next().is_some()` then looks at the paragraphs
      after it and the message is pushed when there is one;
    * no paragraph: `deb822.add_paragraph()` (lossless.rs:591 = `insert_empty_paragraph(None)`,
      `DebEdit.addParagraph`) creates an empty PARAGRAPH node — preceded by a separator line when the
      ROOT has child nodes (comments / blank lines) — and that node is wrapped. The iterator `paras`
      is a rowan `SyntaxNodeChildren`: it ended with `next = None` and stays exhausted
      (cursor.rs:1393-1401 `self.next.take().and_then(..)`), so the second `paras.next()` does NOT
      see the paragraph just added and no message is pushed. -/
def readRelaxed (s : Str) : Relaxed :=
  let r := Deb.readRelaxed s
  let kids := r.1.children
  match paragraphs r.1 with
  | p :: rest =>
    ⟨⟨kids, [convertIndex kids 0]⟩, p, r.2 ++ (if rest.isEmpty then [] else [multipleMsg])⟩
  | [] => ⟨addParagraph ⟨kids, []⟩, .node .PARAGRAPH [], r.2⟩

/-- `std::io::Read::read_to_string`: the bytes as text, `none` = not UTF-8 -/
def decodeUtf8 (b : ByteArray) : Option Str := b.utf8Decode?.map Array.toList

/-- `Changes::read` on bytes (what the `R: std::io::Read` delivers) -/
def readBytes (b : ByteArray) : Except ParseError DNode :=
  match decodeUtf8 b with
  | none => .error .io
  | some s => read s

/-- `Changes::read_relaxed` on bytes; `none` = `Err(io error)` -/
def readBytesRelaxed (b : ByteArray) : Option Relaxed := (decodeUtf8 b).map readRelaxed

/-- `Changes::from_file` (:194-205): `Deb822::from_file` = `std::fs::read_to_string(path)` then
    `from_str`; the paragraph-count logic is a textual copy of `read`. `content` = the bytes of the
    file (a file that cannot be opened is outside the model). -/
def fromFile (content : ByteArray) : Except ParseError DNode := readBytes content

/-- `Changes::from_file_relaxed` (:208-221): a textual copy of `read_relaxed` -/
def fromFileRelaxed (content : ByteArray) : Option Relaxed := readBytesRelaxed content

/-! ### getters used to observe the wrapped paragraph -/

/-- `Changes::format` (:84) -/
def format (p : DNode) : Option Str := Deb.get p "Format".toList
/-- `Changes::source` (:94) -/
def source (p : DNode) : Option Str := Deb.get p "Source".toList

/-- `Changes::files` (:157-161): `get("Files").map(|s| s.lines().map(|l| l.parse().unwrap()).collect())`;
    the `unwrap` panics on the first line `File::from_str` rejects. -/
def files (p : DNode) : Outcome (Option (List ChangesFile)) :=
  match Deb.get p "Files".toList with
  | none => .ok none
  | some v =>
    if (lines v).all fun l => (ChangesFile.parse l).isSome then
      .ok (some ((lines v).filterMap ChangesFile.parse))
    else .panic "changes.rs:160 line.parse().unwrap()"

/-! ### `get_pool_path` -/

def poolFmt (sec subdir source : Str) : Str :=
  "pool/".toList ++ sec ++ '/' :: subdir ++ '/' :: source

/-- `section.split_once('/')`: the part before the first '/', else "main" (:169-173) -/
def poolSection (sec : Str) : Str :=
  match splitOnFirst ['/'] sec with
  | some r => r.1
  | none => "main".toList

def libPrefix : Str := "lib".toList

/-- `Changes::get_pool_path` (:164-184), panics included:
    * `self.files()?` — `None` without a Files field, panic of `files()` on an ill-formed line;
    * `files.first().unwrap()` — panic on a Files field without lines (:167);
    * `self.source()?` — `None` without a Source field (evaluated AFTER the two above);
    * `source[..1]` — byte slice: panics on an empty Source value and on one whose first character
      takes more than one byte (:180); not evaluated when the name starts with "lib". -/
def poolPath (p : DNode) : Outcome (Option Str) :=
  match files p with
  | .panic s => .panic s
  | .ok none => .ok none
  | .ok (some []) => .panic "changes.rs:167 files.first().unwrap()"
  | .ok (some (f :: _)) =>
    match source p with
    | none => .ok none
    | some src =>
      if libPrefix.isPrefixOf src then .ok (some (poolFmt (poolSection f.section_) libPrefix src))
      else
        match src with
        | [] => .panic "changes.rs:180 source[..1] on an empty string"
        | c :: _ =>
          if c.toNat < 128 then .ok (some (poolFmt (poolSection f.section_) [c.toLower] src))
          else .panic "changes.rs:180 source[..1] inside a multi-byte character"

end Deb822Verif.Changes
