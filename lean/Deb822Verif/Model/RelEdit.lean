import Deb822Verif.Model.RelBuild
/-!
  Model of the editing API of the lossless relation types
  (`debian-control/src/lossless/relations.rs`, as of commit bfca743), branch for branch:

  * `Relations::{get_entry (615), remove_entry (620), insert (627), replace (672), push (681)}`,
  * `Entry::{get_relation (863), remove_relation (879), remove (931), push (994), replace (781)}`,
  * `Relation::{remove (1495), set_version (1373), drop_constraint (1243), set_archqual (1311),
    set_architectures (1562), add_profile (1620)}` (the last five are the node functions of
    Model/RelBuild.lean applied at a path).

  rowan as modelled: a mutable tree is the green tree itself; a handle is the PATH of its node —
  the position of an ENTRY among the root's children, of a RELATION among its entry's children —
  renumbered by every operation (`Field.ehs`, `Field.rhs`); a handle whose node was detached keeps
  the text the node had when it left the tree. Facts used:
  * `splice_children(a..b, new)` detaches only the FIRST child of the range (its loop runs over the
    lazy `children_with_tokens()` iterator, which stops once the current element is detached) and
    then attaches the new elements at `a, a+1, …`, detaching each from wherever it is;
  * `siblings()` / `children()` see nodes only, `*_or_token` / `children_with_tokens()` everything;
  * no call site of `replace_with` or `SyntaxNode::new_root` is left.
-/
namespace Deb822Verif.Rel.Edit
open Deb822Verif Rel Node Build

/-- old position → new position (`none` = the element left the tree) -/
abbrev Remap := Nat → Option Nat

def Remap.id : Remap := fun i => some i

/-- `k` elements inserted at `p` -/
def Remap.ins (p k : Nat) : Remap := fun i => if i < p then some i else some (i + k)

/-- the elements `[a, b)` removed -/
def Remap.cut (a b : Nat) : Remap := fun i => if i < a then some i else if i < b then none else some (i - (b - a))

def Remap.comp (g f : Remap) : Remap := fun i => (f i).bind g

def isKind (k : Kind) (c : RNode) : Bool := c.kind == k
def isNodeOf (k : Kind) (c : RNode) : Bool := c.isNode && c.kind == k

/-- positions of the child nodes of kind `k` -/
def nodePositions (k : Kind) (cs : List RNode) : List Nat :=
  ((cs.zipIdx).filter fun ci => isNodeOf k ci.1).map (·.2)

/-- position of the `i`-th element satisfying `P` (`iter().filter(P).nth(i)`) -/
def nthPos (P : RNode → Bool) : List RNode → Nat → Option Nat
  | [], _ => none
  | x :: xs, i =>
    if P x then
      match i with
      | 0 => some 0
      | i + 1 => (nthPos P xs i).map (· + 1)
    else (nthPos P xs i).map (· + 1)

/-- position of the last element satisfying `P` (`iter().filter(P).last()`) -/
def lastPos (P : RNode → Bool) : List RNode → Option Nat
  | [] => none
  | x :: xs =>
    match lastPos P xs with
    | some p => some (p + 1)
    | none => if P x then some 0 else none

/-- `Relations::get_entry(i)` / `Entry::get_relation(j)` as a position -/
def nthNode (k : Kind) (cs : List RNode) (i : Nat) : Option Nat := nthPos (isNodeOf k) cs i

/-- result of an edit of a child list: the new list and where the old elements went -/
structure Cut where
  kids : List RNode
  remap : Remap

/-! ### `Entry::remove` (relations.rs:931-970) on the root's children -/

def isItemNode (c : RNode) : Bool := c.isNode && (c.kind == Kind.ENTRY || c.kind == Kind.SUBSTVAR)

/-- the entry at position `p` of `cs` is removed together with its separator -/
def entryRemove (cs : List RNode) (p : Nat) : Outcome Cut :=
  let before := cs.take p
  let after := cs.drop (p + 1)
  -- `siblings(Prev).skip(1).any(ENTRY | SUBSTVAR)`
  let isFirst := !(before.any isItemNode)
  -- forwards: whitespace, then the comma
  let after1 := after.dropWhile isWsElem
  match after1 with
  | x :: _ =>
    if x.kind == Kind.COMMA then
      -- `removed_comma = true`
      let after2 := after1.drop 1
      let before' := if !isFirst then (before.reverse.dropWhile isWsElem).reverse else before
      let after3 := if !isFirst then after2 else after2.dropWhile isWsElem
      .ok ⟨before' ++ after3, Remap.cut before'.length (cs.length - after3.length)⟩
    else .panic "Entry::remove: Unexpected node"
  | [] =>
    -- nothing but whitespace follows: `removed_comma = false`
    let before' :=
      if !isFirst then
        let b1 := before.reverse.dropWhile isWsElem
        match b1 with
        | y :: r => if y.kind == Kind.COMMA then r.reverse else b1.reverse
        | [] => []
      else before
    .ok ⟨before', Remap.cut before'.length cs.length⟩

/-! ### `Relation::remove` (relations.rs:1495-1550) on an entry's children -/

/-- the relation at position `q` of the entry children `es` is removed with its `|` -/
def relationRemoveIn (es : List RNode) (q : Nat) : Outcome Cut :=
  let before := es.take q
  let after := es.drop (q + 1)
  let isFirst := !(before.any (isNodeOf .RELATION))
  if !isFirst then
    let b1 := before.reverse.dropWhile isWsElem
    let b2 := match b1 with
      | y :: r => if y.kind == Kind.PIPE then r else b1
      | [] => []
    let b3 := (b2.dropWhile isWsElem).reverse
    .ok ⟨b3 ++ after, Remap.cut b3.length (q + 1)⟩
  else
    let a1 := after.dropWhile isWsElem
    match a1 with
    | x :: r =>
      if x.kind == Kind.PIPE then
        let a2 := r.dropWhile isWsElem
        .ok ⟨before ++ a2, Remap.cut q (es.length - a2.length)⟩
      else .panic "Relation::remove: Unexpected node"
    | [] => .ok ⟨before, Remap.cut q es.length⟩

/-! ### `Entry::push` (relations.rs:994-1032) on an entry's children -/

def entryPushIn (es : List RNode) (rel : RNode) : Cut :=
  let isEmpty := !(es.any fun c => c.kind == Kind.PIPE || c.kind == Kind.RELATION)
  match lastPos (isNodeOf .RELATION) es with
  | some last =>
    let new := if isEmpty then [rel] else [T .WHITESPACE " ", T .PIPE "|", T .WHITESPACE " ", rel]
    ⟨insertAt es (last + 1) new, Remap.ins (last + 1) new.length⟩
  | none =>
    let new := if isEmpty then [rel] else [T .PIPE "|", T .WHITESPACE " ", rel]
    ⟨insertAt es es.length new, Remap.ins es.length new.length⟩

/-- `Entry::push` on an entry node -/
def entryPush (e : RNode) (rel : RNode) : RNode := .node e.kind (entryPushIn e.children rel).kids

/-! ### `Entry::replace` (relations.rs:781-848) -/

/-- the new relation with its own leading / trailing whitespace tokens detached one at a time
    (`first_child_or_token().detach()` × `new_head_len`, `last_child_or_token().detach()` ×
    `new_tail_len`, each guarded by `if let Some`) and the old one's leading / trailing whitespace
    attached at both ends (`splice_children(0..0, ..)`, `splice_children(end..end, ..)`); and what is
    left of the old relation -/
def graftWs (old new : RNode) : RNode × RNode :=
  let n := new.children
  let o := old.children
  let newHeadLen := (n.takeWhile isWsElem).length
  let newTailLen := (n.reverse.takeWhile isWsElem).length
  let oldHead := o.takeWhile isWsElem
  -- collected from the end backwards, then `.rev()`
  let oldTail := (o.reverse.takeWhile isWsElem).reverse
  -- the old relation loses the tokens that are attached to the new one (a token can be in one
  -- tree only)
  let oMid := (o.drop oldHead.length)
  let oRest := (oMid.reverse.dropWhile isWsElem).reverse
  let n1 := n.drop newHeadLen
  let n2 := n1.take (n1.length - newTailLen)
  (.node new.kind (oldHead ++ n2 ++ oldTail), .node old.kind oRest)

/-- the relation at position `q` of `es` is replaced by `rel`; also what is left of the old one -/
def entryReplaceIn (es : List RNode) (q : Nat) (rel : RNode) : Outcome (List RNode × RNode) :=
  match es[q]? with
  | none => .panic "Entry::replace: unwrap"
  | some old => .ok (replaceAt es q [(graftWs old rel).1], (graftWs old rel).2)

/-! ### `Relations::insert` / `push` / `replace` on the root's children -/

/-- `Relations::insert(idx, entry)` (relations.rs:627-669) -/
def relationsInsert (cs : List RNode) (idx : Nat) (entry : RNode) : Cut :=
  match nthNode .ENTRY cs idx with
  | some pos =>
    -- before an existing entry: the new entry brings its separator along
    ⟨insertAt cs pos [entry, T .COMMA ",", T .WHITESPACE " "], Remap.ins pos 3⟩
  | none =>
    match lastPos isItemNode cs with
    | none => ⟨insertAt cs cs.length [entry], Remap.ins cs.length 1⟩
    | some last =>
      let trailingComma := (cs.drop (last + 1)).any fun c => c.kind == Kind.COMMA
      if trailingComma then
        let endsWithSpace := match cs.getLast? with | some c => isWsElem c | none => false
        let new := if endsWithSpace then [entry] else [T .WHITESPACE " ", entry]
        ⟨insertAt cs cs.length new, Remap.ins cs.length new.length⟩
      else
        ⟨insertAt cs (last + 1) [T .COMMA ",", T .WHITESPACE " ", entry], Remap.ins (last + 1) 3⟩

/-- `Relations::push(entry)` (relations.rs:681-684) -/
def relationsPush (cs : List RNode) (entry : RNode) : Cut :=
  relationsInsert cs (cs.countP (isNodeOf .ENTRY)) entry

/-! ### the field with its live handles -/

inductive ERef
  | at (pos : Nat)
  | gone (text : Str)
  deriving Repr

inductive RRef
  | at (epos rpos : Nat)
  | gone (text : Str)
  deriving Repr

structure Field where
  /-- children of the ROOT node -/
  kids : List RNode
  /-- entry handles, by id -/
  ehs : List (Nat × ERef)
  /-- relation handles, by id -/
  rhs : List (Nat × RRef)
  deriving Repr

def Field.root (f : Field) : RNode := .node .ROOT f.kids

def childText (cs : List RNode) (p : Nat) : Str := match cs[p]? with | some n => n.text | none => []

def Field.entryKids (f : Field) (p : Nat) : List RNode := match f.kids[p]? with | some e => e.children | none => []

def Field.erefText (f : Field) : ERef → Str
  | .at p => childText f.kids p
  | .gone t => t

def Field.rrefText (f : Field) : RRef → Str
  | .at p q => childText (f.entryKids p) q
  | .gone t => t

/-- the root's children change; handles follow `remap`, the ones that leave keep the text they had
    (in the tree before the edit) -/
def Field.rootEdit (f : Field) (c : Cut) : Field :=
  { kids := c.kids
    ehs := f.ehs.map fun (id, r) => (id, match r with
      | .at p => (match c.remap p with | some p' => ERef.at p' | none => .gone (childText f.kids p))
      | g => g)
    rhs := f.rhs.map fun (id, r) => (id, match r with
      | .at p q => (match c.remap p with | some p' => RRef.at p' q | none => .gone (childText (f.entryKids p) q))
      | g => g) }

/-- the children of the entry at `p` change; `lost q` overrides the text a detached relation keeps -/
def Field.entryEdit (f : Field) (p : Nat) (c : Cut) (lost : Nat → Option Str := fun _ => none) : Field :=
  { kids := match f.kids[p]? with
      | some e => replaceAt f.kids p [.node e.kind c.kids]
      | none => f.kids
    ehs := f.ehs
    rhs := f.rhs.map fun (id, r) => (id, match r with
      | .at p' q =>
        if p' = p then
          (match c.remap q with
            | some q' => RRef.at p q'
            | none => .gone ((lost q).getD (childText (f.entryKids p) q)))
        else .at p' q
      | g => g) }

/-- the relation node at `(p, q)` is rewritten in place -/
def Field.relEdit (f : Field) (p q : Nat) (g : RNode → RNode) : Field :=
  match f.kids[p]? with
  | some e =>
    (match e.children[q]? with
      | some r => { f with kids := replaceAt f.kids p [.node e.kind (replaceAt e.children q [g r])] }
      | none => f)
  | none => f

/-! ### the operations, addressed the way the API addresses them -/

/-- `Entry::remove` on the entry at position `p` -/
def Field.removeEntryAt (f : Field) (p : Nat) : Outcome Field :=
  (entryRemove f.kids p).map f.rootEdit

/-- `Relations::remove_entry(i)` / `get_entry(i).remove()`: `unwrap` of a missing entry panics -/
def Field.removeEntry (f : Field) (i : Nat) : Outcome Field :=
  match nthNode .ENTRY f.kids i with
  | some p => f.removeEntryAt p
  | none => .panic "Relations::remove_entry: unwrap"

/-- `Relation::remove` on the relation at `(p, q)`: the relation leaves its entry; an entry left
    without relation is removed too -/
def Field.removeRelationAt (f : Field) (p q : Nat) : Outcome Field :=
  (relationRemoveIn (f.entryKids p) q).bind fun c =>
    let f1 := f.entryEdit p c
    if !((f1.entryKids p).any (isNodeOf .RELATION)) then f1.removeEntryAt p else .ok f1

/-- `Entry::remove_relation(j)` on the `i`-th entry -/
def Field.removeRelation (f : Field) (i j : Nat) : Outcome Field :=
  match nthNode .ENTRY f.kids i with
  | none => .panic "get_entry: unwrap"
  | some p =>
    match nthNode .RELATION (f.entryKids p) j with
    | none => .panic "Entry::remove_relation: unwrap"
    | some q => f.removeRelationAt p q

/-- `Relations::insert(i, entry)` -/
def Field.insert (f : Field) (i : Nat) (entry : RNode) : Field := f.rootEdit (relationsInsert f.kids i entry)

/-- `Relations::push(entry)` -/
def Field.push (f : Field) (entry : RNode) : Field := f.rootEdit (relationsPush f.kids entry)

/-- `Relations::replace(i, entry)`: the old entry is detached, the new one takes its place -/
def Field.replace (f : Field) (i : Nat) (entry : RNode) : Outcome Field :=
  match nthNode .ENTRY f.kids i with
  | none => .panic "Relations::replace: unwrap"
  | some p =>
    -- as a removal of the old node followed by an insertion at the same place
    let f1 := f.rootEdit ⟨f.kids.take p ++ f.kids.drop (p + 1), Remap.cut p (p + 1)⟩
    .ok (f1.rootEdit ⟨insertAt f1.kids p [entry], Remap.ins p 1⟩)

/-- `Entry::push(rel)` on the entry at position `p` -/
def Field.entryPushAt (f : Field) (p : Nat) (rel : RNode) : Field :=
  f.entryEdit p (entryPushIn (f.entryKids p) rel)

/-- `Entry::replace(j, rel)` on the entry at position `p` -/
def Field.entryReplaceAt (f : Field) (p j : Nat) (rel : RNode) : Outcome Field :=
  match nthNode .RELATION (f.entryKids p) j with
  | none => .panic "Entry::replace: unwrap"
  | some q =>
    (entryReplaceIn (f.entryKids p) q rel).map fun (kids', old') =>
      -- the old relation is detached (after losing its outer whitespace), the new one attached
      let f1 := f.entryEdit p ⟨(f.entryKids p).take q ++ (f.entryKids p).drop (q + 1), Remap.cut q (q + 1)⟩
        (fun x => if x = q then some old'.text else none)
      f1.entryEdit p ⟨kids', Remap.ins q 1⟩

end Deb822Verif.Rel.Edit
