import Deb822Verif.Model.RelAccess
import Deb822Verif.Model.Outcome
/-!
  Model of the Debian version ordering as implemented by `debversion` 0.4.4
  (`~/.cargo/registry/src/*/debversion-0.4.4/src/lib.rs`): `non_digit_cmp` (46-71),
  `version_cmp_part` (98-158), `Ord for Version` (160-175), `Version::explicit` (256-264).
  Third-party code: trusted base, cross-checked against the real `Version::cmp` by the harness op
  `ver.cmp` on every check.

  The loop of `version_cmp_part` cuts both strings into (non-digit run, digit run) chunks and
  compares chunk by chunk, an exhausted string supplying the chunk ("", "") — i.e. it is the
  padded lexicographic comparison of the two chunk lists. `compare` is written with exactly these
  combinators (`lexPad`, `Ordering.then`), which is what makes the order properties provable;
  `compareO` is the same computation with the one place where the Rust code can panic
  (`a_digit.parse::<i32>().unwrap()`, lib.rs:134-143) made explicit.
-/
namespace Deb822Verif.DebVersion
open Deb822Verif.Rel (Version isAsciiDigit digitsVal)

/-! ### comparison combinators -/

/-- `Ord::cmp` on numbers -/
def natCmp (a b : Nat) : Ordering := if a < b then .lt else if a = b then .eq else .gt
def intCmp (a b : Int) : Ordering := if a < b then .lt else if a = b then .eq else .gt

/-- `lexPad` when the first list is exhausted -/
def lexPadNil {α} (cmp : α → α → Ordering) (pad : α) : List α → Ordering
  | [] => .eq
  | b :: bs => (cmp pad b).then (lexPadNil cmp pad bs)

/-- lexicographic comparison of two lists, the shorter one continued with `pad` -/
def lexPad {α} (cmp : α → α → Ordering) (pad : α) : List α → List α → Ordering
  | [], bs => lexPadNil cmp pad bs
  | a :: as, [] => (cmp a pad).then (lexPad cmp pad as [])
  | a :: as, b :: bs => (cmp a b).then (lexPad cmp pad as bs)

/-! ### `non_digit_cmp` -/

def isAsciiAlpha (c : Char) : Bool :=
  (65 ≤ c.toNat && c.toNat ≤ 90) || (97 ≤ c.toNat && c.toNat ≤ 122)

/-- `order` (lib.rs:47-54): `~` before everything (the end of the string counts 0), letters by
    their code, every other character after all letters. (Digits are `unreachable!()` there: a
    non-digit run has none.) -/
def order (c : Char) : Int :=
  if c = '~' then -1 else if isAsciiAlpha c then (c.toNat : Int) else (c.toNat : Int) + 256

/-- `non_digit_cmp` (lib.rs:46-71): element-wise, the shorter run continued with 0 -/
def nonDigitCmp (a b : Str) : Ordering := lexPad intCmp 0 (a.map order) (b.map order)

/-! ### `version_cmp_part` -/

/-- (non-digit run, digit run) -/
abbrev Chunk := Str × Str

/-- what the iterations of the `while` loop (lib.rs:99-156) cut off one string: maximal non-digit
    run, then maximal digit run, repeatedly. (Built from the right so that it is structural.) -/
def chunks : Str → List Chunk
  | [] => []
  | c :: cs =>
    match chunks cs with
    | [] => if isAsciiDigit c then [([], [c])] else [([c], [])]
    | (nd, d) :: rest =>
      if isAsciiDigit c then
        if nd.isEmpty then ([], c :: d) :: rest else ([], [c]) :: (nd, d) :: rest
      else (c :: nd, d) :: rest

/-- the value of a digit run, the empty run counting 0 (lib.rs:131-143) — as a natural number -/
def runVal (d : Str) : Nat := digitsVal d

/-- one iteration: non-digit runs first, then the numbers -/
def chunkCmp (x y : Chunk) : Ordering :=
  (nonDigitCmp x.1 y.1).then (natCmp (runVal x.2) (runVal y.2))

/-- `version_cmp_part` -/
def cmpPart (a b : Str) : Ordering := lexPad chunkCmp ([], []) (chunks a) (chunks b)

/-- `Version::explicit` (lib.rs:256-264) -/
def epochOf (v : Version) : Nat := v.epoch.getD 0
def revOf (v : Version) : Str := v.revision.getD ['0']

/-- **the Debian version ordering**, `Ord::cmp for Version` (lib.rs:160-175): epoch numerically,
    then upstream version, then revision (absent = "0") -/
def compare (v w : Version) : Ordering :=
  (natCmp (epochOf v) (epochOf w)).then
    ((cmpPart v.upstream w.upstream).then (cmpPart (revOf v) (revOf w)))

/-! ### the same with the panic of `parse::<i32>().unwrap()` -/

def i32Max : Nat := 2147483647

/-- `if d.is_empty() { 0 } else { d.parse::<i32>().unwrap() }` -/
def parseI32 (d : Str) : Outcome Nat :=
  if d.isEmpty then .ok 0
  else if digitsVal d ≤ i32Max then .ok (digitsVal d)
  else .panic "debversion lib.rs:137/143 unwrap: number too large to fit in target type"

def chunkCmpO (x y : Chunk) : Outcome Ordering :=
  match nonDigitCmp x.1 y.1 with
  | .eq =>
    match parseI32 x.2 with
    | .panic s => .panic s
    | .ok a =>
      match parseI32 y.2 with
      | .panic s => .panic s
      | .ok b => .ok (natCmp a b)
  | o => .ok o

def lexPadNilO {α} (cmp : α → α → Outcome Ordering) (pad : α) : List α → Outcome Ordering
  | [] => .ok .eq
  | b :: bs =>
    match cmp pad b with
    | .ok .eq => lexPadNilO cmp pad bs
    | r => r

/-- `lexPad` evaluated left to right, stopping at the first difference or panic -/
def lexPadO {α} (cmp : α → α → Outcome Ordering) (pad : α) : List α → List α → Outcome Ordering
  | [], bs => lexPadNilO cmp pad bs
  | a :: as, [] =>
    match cmp a pad with
    | .ok .eq => lexPadO cmp pad as []
    | r => r
  | a :: as, b :: bs =>
    match cmp a b with
    | .ok .eq => lexPadO cmp pad as bs
    | r => r

def cmpPartO (a b : Str) : Outcome Ordering := lexPadO chunkCmpO ([], []) (chunks a) (chunks b)

/-- `Version::cmp` as it runs: panics when a digit run above `i32::MAX` is reached -/
def compareO (v w : Version) : Outcome Ordering :=
  if epochOf v ≠ epochOf w then .ok (natCmp (epochOf v) (epochOf w))
  else
    match cmpPartO v.upstream w.upstream with
    | .ok .eq => cmpPartO (revOf v) (revOf w)
    | r => r

/-- every digit run of the string fits an `i32` -/
def smallStr (s : Str) : Bool := (chunks s).all fun c => digitsVal c.2 ≤ i32Max
/-- every numeric component of the version fits an `i32` (then `Version::cmp` cannot panic) -/
def small (v : Version) : Bool := smallStr v.upstream && smallStr (revOf v)

end Deb822Verif.DebVersion
