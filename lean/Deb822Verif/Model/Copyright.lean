import Deb822Verif.Model.Glob
/-
  Model of the copyright lookup of `debian-copyright` (src/lossless.rs, src/lossy.rs, src/lib.rs).

  A copyright file is taken abstractly: an ordered list of paragraphs, each an ordered list of
  (field name, value) pairs — what `Deb822::paragraphs()` / `Paragraph::items()` return. Both views
  read fields through the same `deb822_lossless::Paragraph::get` (the lossy structs are filled by
  `FromDeb822Paragraph<lossless::Paragraph>`, deb822-derive/src/lib.rs:168-196), modelled by
  `Para.get`. The deb822 reader itself is a parameter (`read`); the harness supplies what the real
  reader returns.

  `matches` is a Lean keyword: `FilesParagraph::matches` is `paraMatches` here.
-/
namespace Deb822Verif.Copyright
open Deb822Verif Text Glob

abbrev Para := List (Str × Str)
abbrev Doc := List Para

/-- `Paragraph::get` (src/lossless.rs:776-780): value of the first entry whose key is exactly `key` -/
def Para.get (p : Para) (key : Str) : Option Str :=
  match p with
  | [] => none
  | e :: es => if e.1 = key then some e.2 else Para.get es key

/-- `Paragraph::contains_key` (src/lossless.rs:783-785) -/
def Para.containsKey (p : Para) (key : Str) : Bool := (p.get key).isSome

def kFormat : Str := "Format".toList
def kFiles : Str := "Files".toList
def kLicense : Str := "License".toList
def kCopyright : Str := "Copyright".toList
def kComment : Str := "Comment".toList
def kFilesExcluded : Str := "Files-Excluded".toList
def kSource : Str := "Source".toList
def kUpstreamContact : Str := "Upstream-Contact".toList

/-- `License` (lib.rs:55-66) -/
inductive License where
  | name (n : Str)
  | text (t : Str)
  | named (n t : Str)
  deriving DecidableEq, Repr

/-- lib.rs:70-76 -/
def License.name? : License → Option Str
  | .name n => some n
  | .text _ => none
  | .named n _ => some n

/-- lib.rs:79-85 -/
def License.text? : License → Option Str
  | .name _ => none
  | .text t => some t
  | .named _ t => some t

/-- Rust `str::split_once(c)` -/
def splitOnce (sep : Char) : Str → Option (Str × Str)
  | [] => none
  | c :: cs =>
    if c = sep then some ([], cs)
    else match splitOnce sep cs with
      | none => none
      | some r => some (c :: r.1, r.2)

/-- the same three-way split is written out three times: `License::from_str` (lib.rs:91-101),
    `FilesParagraph::license` (lossless.rs:340-353), `From<LicenseParagraph>` (lossless.rs:369-383) -/
def License.ofValue (x : Str) : License :=
  match splitOnce '\n' x with
  | none => .name x
  | some r => if r.1 = [] then .text r.2 else .named r.1 r.2

def formatPrefix : Str := "Format:".toList

/-- the machine-readable gate: `s.starts_with("Format:")` and nothing else
    (lossless.rs:112, lossless.rs:190, lossy.rs:106) -/
def gate (s : Str) : Bool := startsWith s formatPrefix

/-- `patterns.iter().any(|f| glob_to_regex(f).is_match(path))` (lossless.rs:308-312,
    lossy.rs:187-191): `any` stops at the first match, so a later pattern is not compiled -/
def anyMatch (gs : List Str) (path : Str) : Outcome Bool :=
  match gs with
  | [] => .ok false
  | g :: rest =>
    match matchGlob g path with
    | .panic s => .panic s
    | .ok true => .ok true
    | .ok false => anyMatch rest path

/-- `iter.filter(pred)` driven to the end (`.last()` folds over the whole filter): the predicate
    runs on every element in order; the first panic ends everything -/
def filterO {α} (f : α → Outcome Bool) : List α → Outcome (List α)
  | [] => .ok []
  | a :: as =>
    match f a with
    | .panic s => .panic s
    | .ok b =>
      match filterO f as with
      | .panic s => .panic s
      | .ok r => .ok (if b then a :: r else r)

/-! ## lossless view (src/lossless.rs) -/
namespace Lossless

inductive Err where
  | notMachineReadable
  | parseError
  deriving DecidableEq, Repr

/-- `Copyright::from_str` (lossless.rs:186-195); `read` = `Deb822::from_str` (`none` = ParseError) -/
def fromStr (read : Str → Option Doc) (s : Str) : Except Err Doc :=
  if !gate s then .error .notMachineReadable
  else match read s with
    | none => .error .parseError
    | some d => .ok d

/-- `Copyright::from_str_relaxed` (lossless.rs:111-118); `read` = `Deb822::from_str_relaxed` -/
def fromStrRelaxed (read : Str → Doc) (s : Str) : Except Err Doc :=
  if !gate s then .error .notMachineReadable else .ok (read s)

/-- `iter_files` lossless.rs:68-74 (since b19e977: `paragraphs().skip(1)`, the header paragraph is
    set aside whatever fields it has) -/
def iterFiles (c : Doc) : List Para := (c.drop 1).filter (·.containsKey kFiles)

/-- `iter_licenses` lossless.rs:77-83 (since b19e977: `paragraphs().skip(1)`) -/
def iterLicenses (c : Doc) : List Para :=
  (c.drop 1).filter fun x => !x.containsKey kFiles && x.containsKey kLicense

/-- `FilesParagraph::files` (lossless.rs:298-305): `get("Files").unwrap().split_whitespace()` -/
def files (fp : Para) : Outcome (List Str) :=
  match fp.get kFiles with
  | none => .panic "lossless.rs:301 unwrap on None"
  | some v => .ok (splitWhitespace v)

/-- `FilesParagraph::matches` (lossless.rs:308-312) -/
def paraMatches (fp : Para) (path : Str) : Outcome Bool :=
  match files fp with
  | .panic s => .panic s
  | .ok gs => anyMatch gs path

/-- `Copyright::find_files` (lossless.rs:87-89): `iter_files().filter(matches).last()` -/
def findFiles (c : Doc) (path : Str) : Outcome (Option Para) :=
  (filterO (paraMatches · path) (iterFiles c)).map List.getLast?

/-- `FilesParagraph::license` (lossless.rs:340-353) -/
def license (fp : Para) : Option License := (fp.get kLicense).map License.ofValue

/-- `LicenseParagraph::name` (lossless.rs:392-398, after fix d2a6901): the first line of the
    field, whether or not text follows -/
def licName (p : Para) : Option Str :=
  (p.get kLicense).map fun x =>
    match splitOnce '\n' x with
    | none => x
    | some r => r.1

/-- `LicenseParagraph::text` (lossless.rs:401-405) -/
def licText (p : Para) : Option Str :=
  match p.get kLicense with
  | none => none
  | some x => (splitOnce '\n' x).map (·.2)

/-- `From<LicenseParagraph> for License` (lossless.rs:369-383): `get("License").unwrap()` -/
def intoLicense (p : Para) : Outcome License :=
  match p.get kLicense with
  | none => .panic "lossless.rs:371 unwrap on None"
  | some x => .ok (License.ofValue x)

/-- `Copyright::find_license_by_name` (lossless.rs:94-98) -/
def findLicenseByName (c : Doc) (name : Str) : Outcome (Option License) :=
  match (iterLicenses c).find? (fun p => licName p == some name) with
  | none => .ok none
  | some p => (intoLicense p).map some

/-- `Copyright::find_license_for_file` (lossless.rs:101-108) -/
def findLicenseForFile (c : Doc) (path : Str) : Outcome (Option License) :=
  match findFiles c path with
  | .panic s => .panic s
  | .ok none => .ok none                                   -- `?`
  | .ok (some fp) =>
    match license fp with
    | none => .ok none                                     -- `?`
    | some l =>
      if l.text?.isSome then .ok (some l)
      else match l.name? with
        | none => .ok none                                 -- `license.name()?`
        | some n => findLicenseByName c n

end Lossless

/-! ## lossy view (src/lossy.rs) -/
namespace Lossy

/-- lossy.rs:173-183 (`copyright`, `comment` carried but not used by the lookup) -/
structure FilesParagraph where
  files : List Str
  license : License
  copyright : List Str
  comment : Option Str
  deriving DecidableEq, Repr

/-- lossy.rs:146-155 -/
structure LicenseParagraph where
  license : License
  comment : Option Str
  deriving DecidableEq, Repr

/-- lossy.rs:50-67 -/
structure Header where
  format : Str
  filesExcluded : Option (List Str)
  source : Option Str
  upstreamContact : Option Str
  deriving DecidableEq, Repr

/-- lossy.rs:89-100 -/
structure Copyright where
  header : Header
  files : List FilesParagraph
  licenses : List LicenseParagraph
  deriving DecidableEq, Repr

inductive Err where
  | notMachineReadable
  | parseError
  /-- every other `Err(String)` of `from_str` -/
  | msg (m : Str)
  deriving DecidableEq, Repr

/-- `deserialize_file_list` (lossy.rs:41-44, after fix 546a36f): `text.split_whitespace()` -/
def deserializeFileList (text : Str) : List Str := splitWhitespace text

def missing (key : Str) : Err := .msg ("missing field: ".toList ++ key)

/-- derived `from_paragraph` of a required field (deb822-derive/src/lib.rs:187-190) -/
def required (p : Para) (key : Str) : Except Err Str :=
  match p.get key with
  | none => .error (missing key)
  | some v => .ok v

/-- derived `Header::from_paragraph`; fields in declaration order; `String::from_str`,
    `deserialize_file_list` never fail -/
def Header.ofPara (p : Para) : Except Err Header :=
  match required p kFormat with
  | .error e => .error e
  | .ok f => .ok {
      format := f
      filesExcluded := (p.get kFilesExcluded).map deserializeFileList
      source := p.get kSource
      upstreamContact := p.get kUpstreamContact }

/-- `deserialize_copyrights` (lossy.rs:163-169): the empty field is the empty list (not the list
    holding one empty line, which `str::split` returns), otherwise `text.split('\n')` -/
def deserializeCopyrights (text : Str) : List Str := if text = [] then [] else splitOn '\n' text

/-- derived `FilesParagraph::from_paragraph`: Files, License, Copyright (required, in this
    order), Comment (optional) -/
def FilesParagraph.ofPara (p : Para) : Except Err FilesParagraph :=
  match required p kFiles with
  | .error e => .error e
  | .ok f =>
    match required p kLicense with
    | .error e => .error e
    | .ok l =>
      match required p kCopyright with
      | .error e => .error e
      | .ok c => .ok {
          files := deserializeFileList f
          license := License.ofValue l
          copyright := deserializeCopyrights c
          comment := p.get kComment }

/-- derived `LicenseParagraph::from_paragraph` -/
def LicenseParagraph.ofPara (p : Para) : Except Err LicenseParagraph :=
  match required p kLicense with
  | .error e => .error e
  | .ok l => .ok { license := License.ofValue l, comment := p.get kComment }

/-- the `while let Some(para) = paragraphs.next()` loop (lossy.rs:127-135) -/
def classify : List Para → Except Err (List FilesParagraph × List LicenseParagraph)
  | [] => .ok ([], [])
  | p :: rest =>
    if (p.get kFiles).isSome then
      match FilesParagraph.ofPara p with
      | .error e => .error e
      | .ok f =>
        match classify rest with
        | .error e => .error e
        | .ok r => .ok (f :: r.1, r.2)
    else if (p.get kLicense).isSome then
      match LicenseParagraph.ofPara p with
      | .error e => .error e
      | .ok l =>
        match classify rest with
        | .error e => .error e
        | .ok r => .ok (r.1, l :: r.2)
    else .error (.msg "Paragraph is neither License nor Files".toList)

/-- `Copyright::from_str` (lossy.rs:105-143); `read` = `Deb822::from_str` -/
def fromStr (read : Str → Option Doc) (s : Str) : Except Err Copyright :=
  if !gate s then .error .notMachineReadable
  else match read s with
    | none => .error .parseError
    | some [] => .error (.msg "No paragraphs".toList)
    | some (first :: rest) =>
      match Header.ofPara first with
      | .error e => .error e
      | .ok h =>
        match classify rest with
        | .error e => .error e
        | .ok r => .ok { header := h, files := r.1, licenses := r.2 }

/-- `FilesParagraph::matches` (lossy.rs:187-191) -/
def paraMatches (fp : FilesParagraph) (path : Str) : Outcome Bool := anyMatch fp.files path

/-- `Copyright::find_files` (lossy.rs:224-226) -/
def findFiles (c : Copyright) (path : Str) : Outcome (Option FilesParagraph) :=
  (filterO (paraMatches · path) c.files).map List.getLast?

/-- `Copyright::find_license_by_name` (lossy.rs:243-248) -/
def findLicenseByName (c : Copyright) (name : Str) : Option License :=
  (c.licenses.find? (fun p => p.license.name? == some name)).map (·.license)

/-- `Copyright::find_license_for_file` (lossy.rs:229-235) -/
def findLicenseForFile (c : Copyright) (path : Str) : Outcome (Option License) :=
  match findFiles c path with
  | .panic s => .panic s
  | .ok none => .ok none
  | .ok (some fp) =>
    if fp.license.text?.isSome then .ok (some fp.license)
    else match fp.license.name? with
      | none => .panic "lossy.rs:234 unwrap on None"
      | some n => .ok (findLicenseByName c n)

end Lossy

/-! ## what the property says (executable form; `Props/C17.lean` ties it to `GlobSpec.Matches`) -/
namespace Spec

/-- the whitespace-separated patterns of a Files paragraph -/
def patterns (fp : Para) : List Str := splitWhitespace ((fp.get kFiles).getD [])

/-- pattern `g` matches the whole of `path` (decided with the modelled matcher; equal to the
    declarative `GlobSpec.Matches` by `C17_glob`) -/
def globB (g path : Str) : Bool := matchGlob g path == .ok true

def paraMatchesB (fp : Para) (path : Str) : Bool := (patterns fp).any (globB · path)

/-- the Files paragraphs, in file order: paragraphs after the header (the first paragraph of a
    machine-readable file is its header, DEP-5) that have a Files field -/
def filesParas (c : Doc) : List Para := (c.drop 1).filter (·.containsKey kFiles)

/-- the stand-alone licence paragraphs, in file order: paragraphs after the header with a License
    and without a Files field (a License field in the header is the licence of the package as a
    whole, not a stand-alone licence paragraph) -/
def standalone (c : Doc) : List Para :=
  (c.drop 1).filter fun x => !x.containsKey kFiles && x.containsKey kLicense

/-- "the last Files paragraph, in file order, one of whose patterns matches" -/
def findFiles (c : Doc) (path : Str) : Option Para :=
  ((filesParas c).filter (paraMatchesB · path)).getLast?

/-- a licence value carries text iff it has more than its first line -/
def hasText (v : Str) : Bool := (splitOnce '\n' v).isSome

/-- the name of a licence value: its first line -/
def firstLine (v : Str) : Str :=
  match splitOnce '\n' v with
  | none => v
  | some r => r.1

/-- "that paragraph's own licence when it carries text, otherwise the first stand-alone licence
    paragraph with the same name" -/
def licenseFor (c : Doc) (fp : Para) : Option License :=
  match fp.get kLicense with
  | none => none
  | some v =>
    if hasText v then some (License.ofValue v)
    else
      match (standalone c).find? (fun p => (p.get kLicense).map firstLine == some v) with
      | none => none
      | some p => (p.get kLicense).map License.ofValue

def findLicenseForFile (c : Doc) (path : Str) : Option License :=
  (findFiles c path).bind (licenseFor c)

/-! ### the property's domain, one named condition per clause -/

/-- a paragraph after the header is a Files paragraph with License and Copyright, or a
    stand-alone licence paragraph (License, no Files) -/
def shapePara (p : Para) : Bool :=
  match p.get kFiles, p.get kLicense with
  | some _, some _ => (p.get kCopyright).isSome
  | none, some _ => true
  | _, _ => false

/-- **shape** ("a machine-readable file"): a header paragraph with a Format field first, every
    other paragraph a Files paragraph or a stand-alone licence paragraph. This is exactly what the
    lossy reader accepts (`Props.C17.C17_lossy_accepts_iff`); the lossless reader asks for nothing.
    Nothing else is asked of the header: it may carry a `License` field (licence of the package as
    a whole, DEP-5) or any other field — both readers set the first paragraph aside (the lossless
    one since fix b19e977, `Props.C17.C17_header_set_aside`). -/
def lossyShape (c : Doc) : Bool :=
  match c with
  | [] => false
  | h :: rest => (h.get kFormat).isSome && rest.all shapePara

/-- **licences named**: no stand-alone licence field begins with an empty line. (Lossless: the
    name of such a paragraph is the empty string; lossy: `License::Text` has no name. The deb822
    reader never returns such a value — its values are non-empty lines joined by `\n` — so this is
    a condition on abstract paragraph lists only.) -/
def licenceNamed (c : Doc) : Bool :=
  (standalone c).all fun p => ((p.get kLicense).getD []).head? != some '\n'

/-- **valid escapes**: every backslash of every pattern is followed by `*`, `?` or a backslash -/
def patternsValid (c : Doc) : Bool :=
  (filesParas c).all fun p => (patterns p).all validEscapes

/-- inside the property's quantifier -/
def wellFormed (c : Doc) : Bool :=
  lossyShape c && licenceNamed c && patternsValid c

end Spec

/-! ## observable answers (what the driver prints and the findings compare) -/

/-- index of the last element satisfying `f` -/
def lastIdxWhere {α} (f : α → Bool) (l : List α) : Option Nat :=
  ((l.zipIdx.filter fun x => f x.1).getLast?).map (·.2)

structure Answer where
  idx : Outcome (Option Nat)
  lic : Outcome (Option License)
  deriving DecidableEq, Repr

/-- what the public API shows of a lossless Files paragraph: `files()`, `copyright()`,
    `comment()`, `license()` (the harness identifies the paragraph found by these) -/
def Lossless.obsKey (q : Para) : List Str × List Str × Option Str × Option License :=
  (splitWhitespace ((q.get kFiles).getD []), splitOn '\n' ((q.get kCopyright).getD []),
    q.get kComment, Lossless.license q)

def Lossless.answer (c : Doc) (path : Str) : Answer where
  idx := (Lossless.findFiles c path).map fun o =>
    o.bind fun fp => lastIdxWhere (fun q => Lossless.obsKey q == Lossless.obsKey fp) (Lossless.iterFiles c)
  lic := Lossless.findLicenseForFile c path

def Lossy.answer (c : Lossy.Copyright) (path : Str) : Answer where
  idx := (Lossy.findFiles c path).map fun o => o.bind fun fp => lastIdxWhere (· == fp) c.files
  lic := Lossy.findLicenseForFile c path

/-- `FilesParagraph::copyright()` of the paragraph `find_files` returns (lossless.rs:317-324:
    `get("Copyright").unwrap_or_default().split('\n')` — one empty holder for an empty field) -/
def Lossless.foundCopyright (c : Doc) (path : Str) : Outcome (Option (List Str)) :=
  (Lossless.findFiles c path).map fun o => o.map fun fp => splitOn '\n' ((fp.get kCopyright).getD [])

/-- the `copyright` list stored in the lossy paragraph `find_files` returns
    (`deserialize_copyrights`: no holder for an empty field) -/
def Lossy.foundCopyright (c : Lossy.Copyright) (path : Str) : Outcome (Option (List Str)) :=
  (Lossy.findFiles c path).map fun o => o.map (·.copyright)

def Spec.answer (c : Doc) (path : Str) : Answer where
  idx := .ok (lastIdxWhere (Spec.paraMatchesB · path) (Spec.filesParas c))
  lic := .ok (Spec.findLicenseForFile c path)

end Deb822Verif.Copyright
