import Deb822Verif.Model.RelLossy
import Deb822Verif.Model.Outcome
/-!
  Constructors of the lossless relation types (`debian-control/src/lossless/relations.rs`, as of
  commit 27115b9) as pure functions producing the green trees the Rust code builds, token kinds and
  texts exactly as emitted:

  * helpers `version_tokens` (1059), `version_node` (1072), `architectures_node` (1095),
    `profiles_node` (1114),
  * `Relation::new` (1172-1191), `Relation::simple` (1229),
  * `RelationBuilder::{new, version_constraint, archqual, architectures, profiles, add_profile, build}`
    (1658-1720), `Relation::build` (1640),
  * `From<Vec<Relation>> for Entry` (1135-1150), `Entry::new` (773), `From<Vec<Entry>> for Relations`
    (716-730), `Relations::new` (569),
  * `From<lossy::Relation> for Relation` (1830-1850), `From<Relation> for lossy::Relation`
    (1852-1862), `Entry ↔ Vec<lossy::Relation>` (1864-1875),
  * the mutators those constructors call — `set_archqual` (1311), `set_version` (1373),
    `drop_constraint` (1243), `set_architectures` (1562), `add_profile` (1620) — on a relation node
    (they all edit the node in place with `splice_children` / `detach`; since fix 6949717 no handle is
    ever re-rooted and no tree is created with the immutable `SyntaxNode::new_root`, so a handle
    is just the tree and none of these functions can panic).
-/
namespace Deb822Verif.Rel.Build
open Deb822Verif Rel Node

abbrev T (k : Kind) (s : String) : RNode := .tok k s.toList

/-- `for (i, x) in xs.enumerate() { if i > 0 { sep }; x }` -/
def sepBy (sep : List RNode) : List (List RNode) → List RNode
  | [] => []
  | [x] => x
  | x :: y :: rest => x ++ sep ++ sepBy sep (y :: rest)

/-- the tokens `vc.to_string().chars()` mapped to R_ANGLE / L_ANGLE / EQUAL (relations.rs:1076-1086) -/
def constraintToks (vc : VC) : List RNode :=
  vc.display.map fun c =>
    if c = '>' then Node.tok .R_ANGLE [c] else if c = '<' then Node.tok .L_ANGLE [c] else Node.tok .EQUAL [c]

/-- `version_tokens` (relations.rs:1059-1069 at 27115b9; rewritten by fix 4ba50b0): `IDENT`, or — when the version has
    an epoch — `IDENT (COLON IDENT)*`: the pieces of `text.split(':')` as IDENT tokens with a COLON
    before every piece but the first (what the lexer makes of the same text) -/
def versionTokens (v : Version) : List RNode :=
  if v.epoch.isSome then
    sepBy [T .COLON ":"] ((Text.splitOn ':' v.display).map fun p => [Node.tok .IDENT p])
  else [Node.tok .IDENT v.display]

/-- `version_node` (relations.rs:1072-1092): `(` CONSTRAINT(op chars) ` ` version tokens `)` -/
def versionNode (c : VC) (v : Version) : RNode :=
  .node .VERSION ([T .L_PARENS "(", .node .CONSTRAINT (constraintToks c), T .WHITESPACE " "]
    ++ versionTokens v ++ [T .R_PARENS ")"])

/-- `Relation::new(name, version_constraint)`: `name [" " VERSION]` -/
def relationNew (name : Str) (vc : Option (VC × Version)) : RNode :=
  .node .RELATION (.tok .IDENT name ::
    (match vc with
      | some (c, v) => [T .WHITESPACE " ", versionNode c v]
      | none => []))

/-- `Relation::simple(name)` -/
def relationSimple (name : Str) : RNode := relationNew name none

/-- `children().find(|n| n.kind() == k)` as an index into `children_with_tokens()` -/
def nodeIdx (k : Kind) (cs : List RNode) : Option Nat := cs.findIdx? fun c => c.isNode && c.kind == k
/-- `children_with_tokens().find(|n| n.kind() == k)` as an index -/
def elemIdx (k : Kind) (cs : List RNode) : Option Nat := cs.findIdx? fun c => c.kind == k
/-- `children().filter(|n| n.kind() == k).last()` as an index -/
def lastNodeIdx (k : Kind) (cs : List RNode) : Option Nat :=
  match (cs.reverse.findIdx? fun c => c.isNode && c.kind == k) with
  | some j => some (cs.length - 1 - j)
  | none => none

def replaceAt (cs : List RNode) (i : Nat) (new : List RNode) : List RNode := cs.take i ++ new ++ cs.drop (i + 1)
def insertAt (cs : List RNode) (i : Nat) (new : List RNode) : List RNode := cs.take i ++ new ++ cs.drop i

/-- apply a function to the children of a node -/
def onChildren (n : RNode) (f : List RNode → List RNode) : RNode := .node n.kind (f n.children)

/-- index right after the first element of kind IDENT (the package name), or 0 (relations.rs:1324-1329) -/
def afterName (cs : List RNode) : Nat := match elemIdx .IDENT cs with | some i => i + 1 | none => 0

/-- `Relation::set_archqual`: replace the ARCHQUAL node or insert one right after the name -/
def setArchqual (r : RNode) (aq : Str) : RNode :=
  let node := Node.node .ARCHQUAL [T .COLON ":", .tok .IDENT aq]
  match nodeIdx .ARCHQUAL r.children with
  | some i => onChildren r fun cs => replaceAt cs i [node]
  | none => onChildren r fun cs => insertAt cs (afterName cs) [node]

def isWsElem (c : RNode) : Bool := c.kind == .WHITESPACE || c.kind == .NEWLINE

/-- detach the node at `i` and the whitespace / newline tokens directly before it
    (relations.rs:1246-1254, 1406-1415, 1567-1576) -/
def removeWithWsBefore (cs : List RNode) (i : Nat) : List RNode :=
  ((cs.take i).reverse.dropWhile isWsElem).reverse ++ cs.drop (i + 1)

/-- index right after the ARCHQUAL element if there is one, else after the name, else 0
    (relations.rs:1388-1394) -/
def versionAnchor (cs : List RNode) : Nat :=
  match elemIdx .ARCHQUAL cs with
  | some i => i + 1
  | none => afterName cs

/-- `Relation::set_version`.
    * `Some`, a VERSION node exists: replaced in place;
    * `Some`, none exists: `" " VERSION` inserted after the qualifier (or the name);
    * `None`, a VERSION node exists: it and the whitespace before it are detached;
    * `None`, none exists: nothing. -/
def setVersion (r : RNode) (vc : Option (VC × Version)) : RNode :=
  match vc with
  | some (c, v) =>
    match nodeIdx .VERSION r.children with
    | some i => onChildren r fun cs => replaceAt cs i [versionNode c v]
    | none => onChildren r fun cs => insertAt cs (versionAnchor cs) [T .WHITESPACE " ", versionNode c v]
  | none =>
    match nodeIdx .VERSION r.children with
    | some i => onChildren r fun cs => removeWithWsBefore cs i
    | none => r

/-- `Relation::drop_constraint` (relations.rs:1243-1260): the tree and the returned flag -/
def dropConstraint (r : RNode) : RNode × Bool :=
  match nodeIdx .VERSION r.children with
  | some i => (onChildren r fun cs => removeWithWsBefore cs i, true)
  | none => (r, false)

/-- one architecture: `!name` is written NOT IDENT (relations.rs:1102-1107) -/
def archToks (a : Str) : List RNode :=
  match a with
  | '!' :: n => [T .NOT "!", Node.tok .IDENT n]
  | _ => [Node.tok .IDENT a]

/-- `architectures_node`: `[` arch (` ` arch)* `]` -/
def architecturesNode (archs : List Str) : RNode :=
  .node .ARCHITECTURES (T .L_BRACKET "[" ::
    (sepBy [T .WHITESPACE " "] (archs.map archToks) ++ [T .R_BRACKET "]"]))

/-- `Relation::set_architectures` (relations.rs:1562-1608).
    * empty list: an existing ARCHITECTURES node (and the whitespace before it) is removed;
    * an ARCHITECTURES node exists: replaced in place;
    * a PROFILES node exists: `ARCHITECTURES " "` inserted right before the first one;
    * otherwise `" " ARCHITECTURES` appended. -/
def setArchitectures (r : RNode) (archs : List Str) : RNode :=
  if archs.isEmpty then
    match nodeIdx .ARCHITECTURES r.children with
    | some i => onChildren r fun cs => removeWithWsBefore cs i
    | none => r
  else
    match nodeIdx .ARCHITECTURES r.children with
    | some i => onChildren r fun cs => replaceAt cs i [architecturesNode archs]
    | none =>
      match nodeIdx .PROFILES r.children with
      | some i => onChildren r fun cs => insertAt cs i [architecturesNode archs, T .WHITESPACE " "]
      | none => onChildren r fun cs => insertAt cs cs.length [T .WHITESPACE " ", architecturesNode archs]

/-- one term of a restriction list: a disabled profile is NOT + IDENT (relations.rs:1121-1129) -/
def termToks (p : BuildProfile) : List RNode :=
  match p with
  | .Disabled n => [T .NOT "!", Node.tok .IDENT n]
  | .Enabled n => [Node.tok .IDENT n]

/-- `profiles_node`: `<` term (` ` term)* `>` -/
def profilesNode (profile : List BuildProfile) : RNode :=
  .node .PROFILES (T .L_ANGLE "<" :: (sepBy [T .WHITESPACE " "] (profile.map termToks) ++ [T .R_ANGLE ">"]))

/-- `Relation::add_profile` (relations.rs:1620-1637): `" " PROFILES` inserted after the last
    PROFILES node, or appended -/
def addProfile (r : RNode) (profile : List BuildProfile) : RNode :=
  let idx := match lastNodeIdx .PROFILES r.children with
    | some i => i + 1
    | none => r.children.length
  onChildren r fun cs => insertAt cs idx [T .WHITESPACE " ", profilesNode profile]

/-- `RelationBuilder` (relations.rs:1658-1664); `architectures` is a plain `Vec` (no `Option`) -/
structure RelationBuilder where
  name : Str
  versionConstraint : Option (VC × Version)
  archqual : Option Str
  architectures : List Str
  profiles : List (List BuildProfile)
  deriving Repr

namespace RelationBuilder
/-- `RelationBuilder::new` / `Relation::build(name)` -/
def new (name : Str) : RelationBuilder := ⟨name, none, none, [], []⟩
def setVersionConstraint (b : RelationBuilder) (vc : VC) (v : Version) : RelationBuilder :=
  { b with versionConstraint := some (vc, v) }
def setArchqual (b : RelationBuilder) (aq : Str) : RelationBuilder := { b with archqual := some aq }
def setArchitectures (b : RelationBuilder) (as : List Str) : RelationBuilder := { b with architectures := as }
def setProfiles (b : RelationBuilder) (ps : List (List BuildProfile)) : RelationBuilder := { b with profiles := ps }
def addProfile (b : RelationBuilder) (p : List BuildProfile) : RelationBuilder :=
  { b with profiles := b.profiles ++ [p] }

/-- `RelationBuilder::build` (relations.rs:1709-1719): `set_architectures` is still called
    unconditionally, but an empty list now leaves the relation alone -/
def build (b : RelationBuilder) : RNode :=
  let r0 := relationNew b.name b.versionConstraint
  let r1 := match b.archqual with | some aq => Build.setArchqual r0 aq | none => r0
  let r2 := Build.setArchitectures r1 b.architectures
  b.profiles.foldl Build.addProfile r2
end RelationBuilder

/-- `inject(builder, node)` copies the subtree: the green tree is the same value -/
def inject (n : RNode) : RNode := n

/-- `From<Vec<Relation>> for Entry`: relations separated by WHITESPACE `" "`, PIPE `"|"`,
    WHITESPACE `" "` -/
def entryFromRelations (rs : List RNode) : RNode :=
  .node .ENTRY (sepBy [T .WHITESPACE " ", T .PIPE "|", T .WHITESPACE " "] (rs.map fun r => [inject r]))

/-- `Entry::new()` -/
def entryNew : RNode := .node .ENTRY []

/-- `From<Vec<Entry>> for Relations`: entries separated by COMMA `","`, WHITESPACE `" "` -/
def relationsFromEntries (es : List RNode) : RNode :=
  .node .ROOT (sepBy [T .COMMA ",", T .WHITESPACE " "] (es.map fun e => [inject e]))

/-- `Relations::new()` = `Relations::from(vec![])` -/
def relationsNew : RNode := relationsFromEntries []

/-- `From<lossy::Relation> for lossless::Relation` (relations.rs:1830-1850): through the builder;
    `architectures: None` leaves the builder's empty `Vec` -/
def toLossless (r : Lossy.Relation) : RNode :=
  let b0 := RelationBuilder.new r.name
  let b1 := match r.version with | some (c, v) => b0.setVersionConstraint c v | none => b0
  let b2 := match r.archqual with | some a => b1.setArchqual a | none => b1
  let b3 := match r.architectures with | some as => b2.setArchitectures as | none => b2
  (b3.setProfiles r.profiles).build

/-- `From<lossless::Relation> for lossy::Relation` (relations.rs:1852-1862): the five accessors;
    `panic` when `name()` or `version()` does -/
def toLossy (n : RNode) : Outcome Lossy.Relation :=
  match accRelation n with
  | some r => .ok r
  | none => .panic "Relation::name / Relation::version unwrap"

/-- `iter.map(f).collect()` where `f` may panic: the first panic wins -/
def collect {α β} (f : α → Outcome β) : List α → Outcome (List β)
  | [] => .ok []
  | x :: xs => (f x).bind fun y => (collect f xs).map (y :: ·)

/-- `From<Vec<lossy::Relation>> for Entry` -/
def entryFromLossy (rs : List Lossy.Relation) : RNode := entryFromRelations (rs.map toLossless)

/-- `From<Entry> for Vec<lossy::Relation>` -/
def entryToLossy (e : RNode) : Outcome (List Lossy.Relation) := collect toLossy (relations e)

end Deb822Verif.Rel.Build
