import Deb822Verif.Model.RelLossy
import Deb822Verif.Model.Outcome
/-!
  Constructors of the lossless relation types (`debian-control/src/lossless/relations.rs`) as pure
  functions producing the green trees the Rust code builds, token kinds and texts exactly as
  emitted:

  * `Relation::new` (1084-1126), `Relation::simple` (1203-1205),
  * `RelationBuilder::{new, version_constraint, archqual, architectures, profiles, add_profile, build}`
    (1704-1767), `Relation::build` (1686-1688),
  * `From<Vec<Relation>> for Entry` (1047-1062), `Entry::new` (753-758),
    `From<Vec<Entry>> for Relations` (692-706), `Relations::new` (569-571),
  * `From<lossy::Relation> for Relation` (1858-1878), `From<Relation> for lossy::Relation`
    (1880-1890), `Entry ↔ Vec<lossy::Relation>` (1892-1903),
  * the mutators those constructors call — `set_archqual` (1285-1309), `set_version` (1347-1420),
    `set_architectures` (1574-1620), `add_profile` (1633-1683) — ON A ROOT HANDLE ONLY
    (`self.0.parent()` is `None`).

  A handle is a tree plus the mutability of its root: rowan's `splice_children` / `detach` panic on
  a tree created with `SyntaxNode::new_root` ("immutable tree"); several mutators replace the
  handle by a fresh `new_root` (immutable!) or `new_root_mut` one. Panics are `Outcome.panic`.
-/
namespace Deb822Verif.Rel.Build
open Deb822Verif Rel Node

/-- a root handle: the tree and whether it was created with `new_root_mut` -/
structure Handle where
  tree : RNode
  mutable : Bool
  deriving Repr

abbrev T (k : Kind) (s : String) : RNode := .tok k s.toList

/-- the tokens `vc.to_string().chars()` mapped to R_ANGLE / L_ANGLE / EQUAL (relations.rs:1093-1103) -/
def constraintToks (vc : VC) : List RNode :=
  vc.display.map fun c =>
    if c = '>' then Node.tok .R_ANGLE [c] else if c = '<' then Node.tok .L_ANGLE [c] else Node.tok .EQUAL [c]

/-- `Relation::new(name, version_constraint)`: `name [" " VERSION( "(" CONSTRAINT(op chars) " " IDENT(version) ")" )]`;
    the whole version text — epoch included — is ONE IDENT token. Root: `new_root_mut`. -/
def relationNew (name : Str) (vc : Option (VC × Version)) : Handle :=
  ⟨.node .RELATION (.tok .IDENT name ::
      (match vc with
        | some (c, v) =>
          [T .WHITESPACE " ",
           .node .VERSION [T .L_PARENS "(", .node .CONSTRAINT (constraintToks c), T .WHITESPACE " ",
             .tok .IDENT v.display, T .R_PARENS ")"]]
        | none => [])), true⟩

/-- `Relation::simple(name)` -/
def relationSimple (name : Str) : Handle := relationNew name none

/-- `children().find(|n| n.kind() == k)` as an index into `children_with_tokens()` -/
def nodeIdx (k : Kind) (cs : List RNode) : Option Nat := cs.findIdx? fun c => c.isNode && c.kind == k
/-- `children_with_tokens().find(|n| n.kind() == k)` as an index -/
def elemIdx (k : Kind) (cs : List RNode) : Option Nat := cs.findIdx? fun c => c.kind == k

def replaceAt (cs : List RNode) (i : Nat) (new : List RNode) : List RNode := cs.take i ++ new ++ cs.drop (i + 1)
def insertAt (cs : List RNode) (i : Nat) (new : List RNode) : List RNode := cs.take i ++ new ++ cs.drop i

def immutablePanic {α} (site : String) : Outcome α := .panic s!"immutable tree ({site})"

/-- `self.0.splice_children(range, new)` on the root: panics on an immutable tree -/
def spliceRoot (h : Handle) (site : String) (f : List RNode → List RNode) : Outcome Handle :=
  if h.mutable then .ok ⟨.node h.tree.kind (f h.tree.children), true⟩ else immutablePanic site

/-- index right after the first element of kind IDENT (the package name), or 0
    (relations.rs:1298-1303, 1389-1394) -/
def afterName (cs : List RNode) : Nat := match elemIdx .IDENT cs with | some i => i + 1 | none => 0

/-- `Relation::set_archqual` on a root handle: replace the ARCHQUAL node or insert one right after
    the name; both branches splice in place (mutable tree required) -/
def setArchqual (h : Handle) (aq : Str) : Outcome Handle :=
  let node := Node.node .ARCHQUAL [T .COLON ":", .tok .IDENT aq]
  match nodeIdx .ARCHQUAL h.tree.children with
  | some i => spliceRoot h "set_archqual" fun cs => replaceAt cs i [node]
  | none => spliceRoot h "set_archqual" fun cs => insertAt cs (afterName cs) [node]

/-- the CONSTRAINT tokens of `set_version` (relations.rs:1354-1371): `GreaterThan` and `LessThan`
    are emitted as a SINGLE `>` / `<` (not `>>` / `<<` as `Relation::new` does) -/
def setVersionConstraintToks : VC → List RNode
  | .GreaterThanEqual => [T .R_ANGLE ">", T .EQUAL "="]
  | .LessThanEqual => [T .L_ANGLE "<", T .EQUAL "="]
  | .Equal => [T .EQUAL "="]
  | .GreaterThan => [T .R_ANGLE ">"]
  | .LessThan => [T .L_ANGLE "<"]

def isWsElem (c : RNode) : Bool := c.kind == .WHITESPACE || c.kind == .NEWLINE

/-- `Relation::set_version` on a root handle.
    * `Some`, a VERSION node exists: replaced in place (mutable tree required);
    * `Some`, none exists: `" " VERSION` inserted after the name on the green tree, the handle becomes
      a fresh `new_root_mut` (mutable);
    * `None`, a VERSION node exists: the whitespace before it and the node are `detach`ed
      (mutable tree required);
    * `None`, none exists: nothing. -/
def setVersion (h : Handle) (vc : Option (VC × Version)) : Outcome Handle :=
  match vc with
  | some (c, v) =>
    let node := Node.node .VERSION [T .L_PARENS "(", .node .CONSTRAINT (setVersionConstraintToks c),
      T .WHITESPACE " ", .tok .IDENT v.display, T .R_PARENS ")"]
    match nodeIdx .VERSION h.tree.children with
    | some i => spliceRoot h "set_version" fun cs => replaceAt cs i [node]
    | none =>
      .ok ⟨.node h.tree.kind (insertAt h.tree.children (afterName h.tree.children) [T .WHITESPACE " ", node]), true⟩
  | none =>
    match nodeIdx .VERSION h.tree.children with
    | some i =>
      if h.mutable then
        .ok ⟨.node h.tree.kind (((h.tree.children.take i).reverse.dropWhile isWsElem).reverse
          ++ h.tree.children.drop (i + 1)), true⟩
      else immutablePanic "set_version: detach"
    | none => .ok h

/-- `for (i, x) in xs.enumerate() { if i > 0 { sep }; x }` -/
def sepBy (sep : List RNode) : List (List RNode) → List RNode
  | [] => []
  | [x] => x
  | x :: y :: rest => x ++ sep ++ sepBy sep (y :: rest)

/-- `[` arch (` ` arch)* `]`: every architecture string is ONE IDENT token, a leading `!` included
    (relations.rs:1575-1585) -/
def architecturesNode (archs : List Str) : RNode :=
  .node .ARCHITECTURES (T .L_BRACKET "[" ::
    (sepBy [T .WHITESPACE " "] (archs.map fun a => [Node.tok .IDENT a]) ++ [T .R_BRACKET "]"]))

/-- `Relation::set_architectures` on a root handle.
    * an ARCHITECTURES node exists: replaced in place (mutable tree required);
    * none exists: `" " ARCHITECTURES` inserted before the first PROFILES node (or at the end) on the
      green tree, and the handle becomes a fresh `SyntaxNode::new_root` — IMMUTABLE. -/
def setArchitectures (h : Handle) (archs : List Str) : Outcome Handle :=
  match nodeIdx .ARCHITECTURES h.tree.children with
  | some i => spliceRoot h "set_architectures" fun cs => replaceAt cs i [architecturesNode archs]
  | none =>
    let idx := match nodeIdx .PROFILES h.tree.children with
      | some i => i
      | none => h.tree.children.length
    .ok ⟨.node h.tree.kind (insertAt h.tree.children idx [T .WHITESPACE " ", architecturesNode archs]), false⟩

/-- one term of a restriction list: a disabled profile is NOT + IDENT (relations.rs:1641-1650) -/
def termToks (p : BuildProfile) : List RNode :=
  match p with
  | .Disabled n => [T .NOT "!", Node.tok .IDENT n]
  | .Enabled n => [Node.tok .IDENT n]

/-- `<` term (` ` term)* `>` (relations.rs:1634-1652) -/
def profilesNode (profile : List BuildProfile) : RNode :=
  .node .PROFILES (T .L_ANGLE "<" :: (sepBy [T .WHITESPACE " "] (profile.map termToks) ++ [T .R_ANGLE ">"]))

/-- `Relation::add_profile` on a root handle.
    * a PROFILES node exists: the FIRST one is *replaced* in place (mutable tree required) — the
      method does not add a second group;
    * none exists: `" " PROFILES` appended on the green tree, the handle becomes a fresh
      `SyntaxNode::new_root` — IMMUTABLE. -/
def addProfile (h : Handle) (profile : List BuildProfile) : Outcome Handle :=
  match nodeIdx .PROFILES h.tree.children with
  | some i => spliceRoot h "add_profile" fun cs => replaceAt cs i [profilesNode profile]
  | none =>
    .ok ⟨.node h.tree.kind (insertAt h.tree.children h.tree.children.length
      [T .WHITESPACE " ", profilesNode profile]), false⟩

/-- `RelationBuilder` (relations.rs:1704-1710); `architectures` is a plain `Vec` (no `Option`) -/
structure RelationBuilder where
  name : Str
  versionConstraint : Option (VC × Version)
  archqual : Option Str
  architectures : List Str
  profiles : List (List BuildProfile)
  deriving Repr

namespace RelationBuilder
/-- `RelationBuilder::new` / `Relation::build(name)` -/
def new (name : Str) : RelationBuilder := ⟨name, none, none, [], []⟩
def setVersionConstraint (b : RelationBuilder) (vc : VC) (v : Version) : RelationBuilder :=
  { b with versionConstraint := some (vc, v) }
def setArchqual (b : RelationBuilder) (aq : Str) : RelationBuilder := { b with archqual := some aq }
def setArchitectures (b : RelationBuilder) (as : List Str) : RelationBuilder := { b with architectures := as }
def setProfiles (b : RelationBuilder) (ps : List (List BuildProfile)) : RelationBuilder := { b with profiles := ps }
def addProfile (b : RelationBuilder) (p : List BuildProfile) : RelationBuilder :=
  { b with profiles := b.profiles ++ [p] }

/-- the `for profile in &self.profiles { relation.add_profile(profile) }` loop -/
def addProfiles (h : Handle) : List (List BuildProfile) → Outcome Handle
  | [] => .ok h
  | p :: ps => (Build.addProfile h p).bind fun h' => addProfiles h' ps

/-- `RelationBuilder::build` (relations.rs:1755-1766): `set_architectures` is called unconditionally
    (an empty list appends ` []`), then one `add_profile` per group (the second one hits an
    immutable tree) -/
def build (b : RelationBuilder) : Outcome Handle :=
  let r0 := relationNew b.name b.versionConstraint
  (match b.archqual with
    | some aq => Build.setArchqual r0 aq
    | none => .ok r0).bind fun r1 =>
  (Build.setArchitectures r1 b.architectures).bind fun r2 =>
  addProfiles r2 b.profiles
end RelationBuilder

/-- `inject(builder, node)` copies the subtree: the green tree is the same value -/
def inject (n : RNode) : RNode := n

/-- `From<Vec<Relation>> for Entry`: relations separated by WHITESPACE `" "`, a token of kind
    **COMMA** with text `"|"` (relations.rs:1054), WHITESPACE `" "`. Root: `new_root_mut`. -/
def entryFromRelations (rs : List RNode) : Handle :=
  ⟨.node .ENTRY (sepBy [T .WHITESPACE " ", T .COMMA "|", T .WHITESPACE " "] (rs.map fun r => [inject r])), true⟩

/-- `Entry::new()` -/
def entryNew : Handle := ⟨.node .ENTRY [], true⟩

/-- `From<Vec<Entry>> for Relations`: entries separated by COMMA `","`, WHITESPACE `" "`.
    Root: `new_root_mut`. -/
def relationsFromEntries (es : List RNode) : Handle :=
  ⟨.node .ROOT (sepBy [T .COMMA ",", T .WHITESPACE " "] (es.map fun e => [inject e])), true⟩

/-- `Relations::new()` = `Relations::from(vec![])` -/
def relationsNew : Handle := relationsFromEntries []

/-- `From<lossy::Relation> for lossless::Relation` (relations.rs:1858-1878): through the builder;
    `architectures: None` leaves the builder's empty `Vec` -/
def toLossless (r : Lossy.Relation) : Outcome Handle :=
  let b0 := RelationBuilder.new r.name
  let b1 := match r.version with | some (c, v) => b0.setVersionConstraint c v | none => b0
  let b2 := match r.archqual with | some a => b1.setArchqual a | none => b1
  let b3 := match r.architectures with | some as => b2.setArchitectures as | none => b2
  (b3.setProfiles r.profiles).build

/-- `From<lossless::Relation> for lossy::Relation` (relations.rs:1880-1890): the five accessors;
    `panic` when `name()` or `version()` does -/
def toLossy (n : RNode) : Outcome Lossy.Relation :=
  match accRelation n with
  | some r => .ok r
  | none => .panic "Relation::name / Relation::version unwrap"

/-- `iter.map(f).collect()` where `f` may panic: the first panic wins -/
def collect {α β} (f : α → Outcome β) : List α → Outcome (List β)
  | [] => .ok []
  | x :: xs => (f x).bind fun y => (collect f xs).map (y :: ·)

/-- `From<Vec<lossy::Relation>> for Entry` -/
def entryFromLossy (rs : List Lossy.Relation) : Outcome Handle :=
  (collect (fun r => (toLossless r).map (·.tree)) rs).map entryFromRelations

/-- `From<Entry> for Vec<lossy::Relation>` -/
def entryToLossy (e : RNode) : Outcome (List Lossy.Relation) := collect toLossy (relations e)

end Deb822Verif.Rel.Build
