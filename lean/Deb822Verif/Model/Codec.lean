import Deb822Verif.Model.Text
import Deb822Verif.Model.Enum
import Deb822Verif.Model.Outcome
import Deb822Verif.Gen.Enums
/-
  Hand models of the typed field values that are records / keyword-or-text values (property C18).
  Each `parse` mirrors the Rust `FromStr` (or parsing function) branch for branch, each `print` the
  `Display` impl.  Keyword sub-fields (Priority inside PackageListEntry / changes File, the category
  of an Origin field, the keywords of Forwarded) go through the *generated* tables of
  `Gen/Enums.lean`; a variant is represented by its Rust name.

  Sites:
    Checksum            debian-control/src/fields.rs   Md5/Sha1/Sha256/Sha512Checksum (four identical impls)
    PkgEntry            debian-control/src/fields.rs   PackageListEntry
    ChangesFile         debian-control/src/lossless/changes.rs  File
    BuildProfile        debian-control/src/relations.rs
    ParsedVcs, Vcs      debian-control/src/vcs.rs
    identity            debian-control/src/lib.rs      parse_identity
    Forwarded, Origin, AppliedUpstream, parseOrigin/formatOrigin   dep3/src/fields.rs
    License             debian-copyright/src/lib.rs
    Signature           apt-sources/src/signature.rs
-/
namespace Deb822Verif.Codec
open Deb822Verif Text Enum

/-! ## text helpers used only here -/

/-- first occurrence of `pat` (non-empty): (text before, text after the occurrence).
    Rust: `s.find(pat)` + slicing, `split_once(pat)`, `splitn(2, pat)` -/
def splitOnFirst (pat : Str) : Str → Option (Str × Str)
  | [] => none
  | c :: cs =>
    if pat.isPrefixOf (c :: cs) then some ([], (c :: cs).drop pat.length)
    else match splitOnFirst pat cs with
      | none => none
      | some r => some (c :: r.1, r.2)

/-! ## `usize` in decimal -/

/-- 64-bit targets (trusted: `usize` is 64 bits wide on the platform of interest) -/
def usizeBound : Nat := 2 ^ 64

def digitVal (c : Char) : Option Nat :=
  if '0' ≤ c ∧ c ≤ '9' then some (c.toNat - 48) else none

/-- the digit loop of `core::num::from_str_radix` with `checked_mul` / `checked_add` -/
def parseDigits : Nat → Str → Option Nat
  | acc, [] => some acc
  | acc, c :: cs =>
    match digitVal c with
    | none => none
    | some d => if acc * 10 + d < usizeBound then parseDigits (acc * 10 + d) cs else none

/-- `usize::from_str`: empty → Err; a lone sign → Err; one leading `+` is accepted, `-` is not;
    then one or more ASCII digits, Err on overflow -/
def parseUsize (s : Str) : Option Nat :=
  match s with
  | [] => none
  | ['+'] => none
  | ['-'] => none
  | '+' :: rest => parseDigits 0 rest
  | _ => parseDigits 0 s

def digitChar (d : Nat) : Char := Char.ofNat (48 + d)

/-- `Display` of an unsigned integer -/
def decDigits (n : Nat) : Str :=
  if n < 10 then [digitChar n] else decDigits (n / 10) ++ [digitChar (n % 10)]
termination_by n
decreasing_by omega

/-! ## checksum records `hash size filename` -/

structure Checksum where
  hash : Str
  size : Nat
  filename : Str
  deriving DecidableEq, Repr

def Checksum.print (c : Checksum) : Str :=
  c.hash ++ ' ' :: (decDigits c.size ++ ' ' :: c.filename)

/-- `split_whitespace`, first three pieces; further pieces are ignored -/
def Checksum.parse (s : Str) : Option Checksum :=
  match splitWhitespace s with
  | h :: sz :: f :: _ =>
    match parseUsize sz with
    | none => none
    | some n => some ⟨h, n, f⟩
  | _ => none

/-! ## changes-file entry `md5sum size section priority filename` -/

structure ChangesFile where
  md5sum : Str
  size : Nat
  section_ : Str
  /-- Rust variant name of `Priority` -/
  priority : Str
  filename : Str
  deriving DecidableEq, Repr

def priorityText (v : Str) : Str := (printOf Gen.Enums.priority v).getD []

def ChangesFile.print (c : ChangesFile) : Str :=
  c.md5sum ++ ' ' :: (decDigits c.size ++ ' ' :: (c.section_ ++ ' ' :: (priorityText c.priority ++ ' ' :: c.filename)))

def ChangesFile.parse (s : Str) : Option ChangesFile :=
  match splitWhitespace s with
  | m :: sz :: sec :: pr :: f :: _ =>
    match parseUsize sz with
    | none => none
    | some n =>
      match parseOf Gen.Enums.priority pr with
      | none => none
      | some p => some ⟨m, n, sec, p, f⟩
  | _ => none

/-! ## package-list entry `package type section priority [key=value …]` -/

/-- code-point lexicographic order = Rust `str` ordering (UTF-8 byte order) -/
def strLt : Str → Str → Bool
  | [], [] => false
  | [], _ :: _ => true
  | _ :: _, [] => false
  | a :: as, b :: bs => if a.toNat < b.toNat then true else if b.toNat < a.toNat then false else strLt as bs

/-- `HashMap::insert` on the canonical representation of a map: key-sorted association list -/
def mapInsert (k v : Str) : List (Str × Str) → List (Str × Str)
  | [] => [(k, v)]
  | p :: r =>
    if k = p.1 then (k, v) :: r
    else if strLt k p.1 then (k, v) :: p :: r
    else p :: mapInsert k v r

structure PkgEntry where
  package : Str
  ptype : Str
  section_ : Str
  priority : Str
  /-- the `HashMap<String,String>`, as a key-sorted association list -/
  extra : List (Str × Str)
  deriving DecidableEq, Repr

/-- `for part in parts { let (k, v) = part.split_once('=').ok_or("Missing value")?; insert(k, v) }`
    (only the first `=` separates key and value) -/
def parseExtras : List Str → List (Str × Str) → Option (List (Str × Str))
  | [], m => some m
  | p :: ps, m =>
    match splitOnFirst ['='] p with
    | some kv => parseExtras ps (mapInsert kv.1 kv.2 m)
    | none => none

def PkgEntry.parse (s : Str) : Option PkgEntry :=
  match splitWhitespace s with
  | a :: b :: c :: d :: rest =>
    match parseOf Gen.Enums.priority d with
    | none => none
    | some pr =>
      match parseExtras rest [] with
      | none => none
      | some m => some ⟨a, b, c, pr, m⟩
  | _ => none

def extraPieces (m : List (Str × Str)) : List Str := m.map fun p => ' ' :: (p.1 ++ '=' :: p.2)

/-- the part printed before the extras -/
def PkgEntry.printBase (e : PkgEntry) : Str :=
  e.package ++ ' ' :: (e.ptype ++ ' ' :: (e.section_ ++ ' ' :: priorityText e.priority))

/-- `Ord` of `(&String, &String)`: lexicographic on (key, value), each in code-point order -/
def pairLe (a b : Str × Str) : Bool :=
  strLt a.1 b.1 || (a.1 == b.1 && !strLt b.2 a.2)

/-- `let mut extra = self.extra.iter().collect::<Vec<_>>(); extra.sort();` — the sort is modelled
    by `List.mergeSort` (trusted: Rust's stable `sort` returns the sorted permutation) -/
def sortedExtras (m : List (Str × Str)) : List (Str × Str) := m.mergeSort pairLe

def PkgEntry.print (e : PkgEntry) : Str := e.printBase ++ (extraPieces (sortedExtras e.extra)).flatten

/-! ## build profile -/

inductive BuildProfile
  | enabled (s : Str)
  | disabled (s : Str)
  deriving DecidableEq, Repr

def BuildProfile.print : BuildProfile → Str
  | .enabled s => s
  | .disabled s => '!' :: s

def BuildProfile.parse (s : Str) : BuildProfile :=
  match s with
  | '!' :: r => .disabled r
  | _ => .enabled s

/-! ## VCS locations -/

structure ParsedVcs where
  repoUrl : Str
  branch : Option Str
  subpath : Option Str
  deriving DecidableEq, Repr

def branchMark : Str := " -b ".toList

/-- the character class `[^] ]` -/
def subChar (c : Char) : Bool := c != ']' && c != ' '

/-- regex ` \[([^] ]+)\]` anchored at the head of the input: (captured group, text after the match).
    The class excludes `]`, so the greedy run is the only candidate (no backtracking can succeed). -/
def matchSubAt : Str → Option (Str × Str)
  | ' ' :: '[' :: t =>
    match t.takeWhile subChar, t.dropWhile subChar with
    | [], _ => none
    | run, ']' :: rest => some (run, rest)
    | _, _ => none
  | _ => none

/-- leftmost match of the regex: (text before, group, text after) -/
def findSub : Str → Option (Str × Str × Str)
  | [] => none
  | c :: cs =>
    match matchSubAt (c :: cs) with
    | some r => some ([], r.1, r.2)
    | none =>
      match findSub cs with
      | none => none
      | some r => some (c :: r.1, r.2.1, r.2.2)

def ParsedVcs.parse (s0 : Str) : ParsedVcs :=
  let s := trim s0
  let sub := findSub s
  let s1 := match sub with | some r => r.1 ++ r.2.2 | none => s
  let subpath := match sub with | some r => some r.2.1 | none => none
  match splitOnFirst branchMark s1 with
  | some r => ⟨r.1, some r.2, subpath⟩
  | none => ⟨s1, none, subpath⟩

def branchPart : Option Str → Str
  | some b => branchMark ++ b
  | none => []

def subPart : Option Str → Str
  | some p => ' ' :: '[' :: (p ++ [']'])
  | none => []

def ParsedVcs.print (v : ParsedVcs) : Str := v.repoUrl ++ branchPart v.branch ++ subPart v.subpath

inductive Vcs
  | git (repoUrl : Str) (branch subpath : Option Str)
  | bzr (repoUrl : Str) (subpath : Option Str)
  | hg (repoUrl : Str)
  | svn (url : Str)
  | cvs (root : Str) (module : Option Str)
  deriving DecidableEq, Repr

def nGit : Str := "Git".toList
def nBzr : Str := "Bzr".toList
def nHg : Str := "Hg".toList
def nSvn : Str := "Svn".toList
def nCvs : Str := "Cvs".toList

/-- `Vcs::from_field`; `none` = `Err` -/
def Vcs.fromField (name value : Str) : Option Vcs :=
  if name = nGit then
    let p := ParsedVcs.parse value
    some (.git p.repoUrl p.branch p.subpath)
  else if name = nBzr then
    let p := ParsedVcs.parse value
    if p.branch.isSome then none else some (.bzr p.repoUrl p.subpath)
  else if name = nHg then some (.hg value)
  else if name = nSvn then some (.svn value)
  else if name = nCvs then
    match splitOnFirst [' '] value with
    | some r => some (.cvs r.1 (some r.2))
    | none => some (.cvs value none)
  else none

def Vcs.toField : Vcs → Str × Str
  | .git u b p => (nGit, ParsedVcs.print ⟨u, b, p⟩)
  | .bzr u p => (nBzr, match p with | some p => u ++ ' ' :: '[' :: (p ++ [']']) | none => u)
  | .hg u => (nHg, u)
  | .svn u => (nSvn, u)
  | .cvs r m => (nCvs, match m with | some m => r ++ ' ' :: m | none => r)

/-- `Vcs::subpath` (vcs.rs:200-206) -/
def Vcs.subpath : Vcs → Option Str
  | .git _ _ p => p
  | .bzr _ p => p
  | _ => none

def branchUrlMark : Str := ",branch=".toList

/-- `Vcs::to_branch_url` (vcs.rs:209-225): `format!("{},branch={}", repo_url, branch.as_ref().unwrap())`
    for Git — the `unwrap` panics when there is no branch —, the repository URL for Bzr / Hg / Svn,
    `None` for Cvs. The subpath is not used. -/
def Vcs.toBranchUrl : Vcs → Outcome (Option Str)
  | .git u (some b) _ => .ok (some (u ++ branchUrlMark ++ b))
  | .git _ none _ => .panic "vcs.rs:216 branch.as_ref().unwrap()"
  | .bzr u _ => .ok (some u)
  | .hg u => .ok (some u)
  | .svn u => .ok (some u)
  | .cvs _ _ => .ok none

/-! ## `parse_identity` (the text form `Name <email>` has no printer in the crate; `identityText`
    is the conventional form the harness builds) -/

def identityParse (s : Str) : Option (Str × Str) :=
  match splitOnFirst ['<'] s with
  | some r =>
    match stripSuffix ['>'] r.2 with
    | some e => some (trim r.1, trim e)
    | none => none
  | none => if s.contains '@' then some ([], trim s) else none

def identityText (name email : Str) : Str := name ++ ' ' :: '<' :: (email ++ ['>'])

/-! ## DEP-3 values -/

def commitPrefix : Str := "commit:".toList
def originSep : Str := ", ".toList

/-- `Origin` and `AppliedUpstream` (same code twice in dep3/src/fields.rs) -/
inductive Origin
  | commit (s : Str)
  | other (s : Str)
  deriving DecidableEq, Repr

def Origin.print : Origin → Str
  | .commit s => commitPrefix ++ s
  | .other s => s

def Origin.parse (s : Str) : Origin :=
  match stripPrefix commitPrefix s with
  | some r => .commit r
  | none => .other s

/-- first piece of `s.splitn(2, ", ")`: the text before the first `, ` (all of it when there is none) -/
def firstPiece (s : Str) : Str :=
  match splitOnFirst originSep s with
  | some r => r.1
  | none => s

/-- second piece of `s.splitn(2, ", ")`, `unwrap_or("")` -/
def restPiece (s : Str) : Str :=
  match splitOnFirst originSep s with
  | some r => r.2
  | none => []

/-- `parse_origin`: a first piece that is a category keyword is consumed even when there is no
    second piece -/
def parseOrigin (s : Str) : Option Str × Origin :=
  match lookup (firstPiece s) Gen.Enums.originPrefix with
  | some cat => (some cat, Origin.parse (restPiece s))
  | none => (none, Origin.parse s)

def categoryText (v : Str) : Str := (printOf Gen.Enums.originCategory v).getD []

def formatOrigin (cat : Option Str) (o : Origin) : Str :=
  (match cat with | some c => categoryText c ++ originSep | none => []) ++ o.print

/-- `Forwarded`: unit variants by their Rust name (keywords from the generated table), or `Yes(text)` -/
inductive Forwarded
  | kw (variant : Str)
  | yes (s : Str)
  deriving DecidableEq, Repr

def Forwarded.print : Forwarded → Str
  | .kw v => (printOf Gen.Enums.forwarded v).getD []
  | .yes s => s

def Forwarded.parse (s : Str) : Forwarded :=
  match lookup s Gen.Enums.forwarded.parseTab with
  | some v => .kw v
  | none => .yes s

/-! ## licence -/

inductive License
  | name (n : Str)
  | text (t : Str)
  | named (n t : Str)
  deriving DecidableEq, Repr

def License.print : License → Str
  | .name n => n
  | .text t => '\n' :: t
  | .named n t => n ++ '\n' :: t

def License.parse (s : Str) : License :=
  match splitOnFirst ['\n'] s with
  | some r => if r.1 = [] then .text r.2 else .named r.1 r.2
  | none => .name s

/-! ## Signed-By -/

inductive Signature
  | keyBlock (s : Str)
  | keyPath (p : Str)
  deriving DecidableEq, Repr

/-- `KeyPath` holds a `PathBuf`; `String → PathBuf → to_string_lossy` is the identity on valid UTF-8 -/
def Signature.print : Signature → Str
  | .keyBlock s => '\n' :: s
  | .keyPath p => p

/-- multi-line text: a key block, minus the one leading newline that `Display` puts in front of it
    (`text.strip_prefix('\n').unwrap_or(text)`); a single line is a path -/
def Signature.parse (s : Str) : Signature :=
  if s.contains '\n' then
    .keyBlock (match s with | '\n' :: r => r | _ => s)
  else .keyPath s

end Deb822Verif.Codec
