import Deb822Verif.Model.DebLex
/-!
  Model of `src/lossy.rs`: the lossy reader (`FromStr for Deb822`, lines 251-370, a token walk over
  the same lexer), the printer (`Display`, lines 125-159) and the `Vec`-backed edit methods
  (lines 57-123).
-/
namespace Deb822Verif.Deb.Lossy
open Deb822Verif Deb

abbrev Field := Str × Str
abbrev Para := List Field
abbrev Doc := List Para

inductive Err
  | UnexpectedToken | UnexpectedEof | ExpectedEof
  /-- the `unreachable!()` arm for composite kinds, which the lexer never produces -/
  | Unreachable
  deriving DecidableEq, Repr

/-- lossy.rs:292-302 `for (k, t) in tokens.by_ref()`: VALUE overwrites the value, NEWLINE ends the
    line, anything else is an error; running out of tokens just ends the loop -/
def firstLine (val : Str) : List Tok → Except Err (Str × List Tok)
  | [] => .ok (val, [])
  | (k, t) :: ts =>
    if k = .VALUE then firstLine t ts
    else if k = .NEWLINE then .ok (val, ts)
    else .error .UnexpectedToken

/-- lossy.rs:309-334, the inner `loop` after an INDENT token -/
def contLine (acc : Str) : List Tok → Except Err (Str × List Tok)
  | [] => .ok (acc, [])
  | (k, t) :: ts =>
    if k = .VALUE then contLine (acc ++ t) ts
    else if k = .COMMENT then contLine acc ts
    else if k = .NEWLINE then .ok (acc ++ ['\n'], ts)
    else if k = .KEY then .ok (acc, (k, t) :: ts)
    else .error .UnexpectedToken

theorem firstLine_len (val ts v r) (h : firstLine val ts = .ok (v, r)) : r.length ≤ ts.length := by
  induction ts generalizing val with
  | nil => simp [firstLine] at h; simp [h.2]
  | cons t ts ih =>
    obtain ⟨k, s⟩ := t
    simp only [firstLine] at h
    split at h
    · have := ih _ h; simp; omega
    · split at h
      · simp at h; simp [← h.2]
      · simp at h

theorem contLine_len (acc ts v r) (h : contLine acc ts = .ok (v, r)) : r.length ≤ ts.length := by
  induction ts generalizing acc with
  | nil => simp [contLine] at h; simp [h.2]
  | cons t ts ih =>
    obtain ⟨k, s⟩ := t
    simp only [contLine] at h
    split at h
    · have := ih _ h; simp; omega
    · split at h
      · have := ih _ h; simp; omega
      · split at h
        · simp at h; simp [← h.2]
        · split at h
          · simp at h; simp [← h.2]
          · simp at h

/-- lossy.rs:307-335 `while peek == INDENT` -/
def contLines (acc : Str) (ts : List Tok) : Except Err (Str × List Tok) :=
  match ts with
  | [] => .ok (acc, [])
  | (k, t) :: ts' =>
    if k = .INDENT then
      match h : contLine acc ts' with
      | .error e => .error e
      | .ok (acc', rest) => contLines acc' rest
    else .ok (acc, (k, t) :: ts')
termination_by ts.length
decreasing_by
  have := contLine_len _ _ _ _ h
  simp; omega

theorem contLines_len (acc ts v r) (h : contLines acc ts = .ok (v, r)) : r.length ≤ ts.length := by
  fun_induction contLines acc ts
  all_goals first
    | (simp at h; done)
    | (simp at h; simp [h.2]; done)
    | (simp at h; simp [← h.2]; done)
    | skip
  rename_i he ih
  have h1 := contLine_len _ _ _ _ he
  have h2 := ih h
  simp; omega

/-- lossy.rs:337-341 after the fix: strip one trailing line terminator if present -/
def trimNl (v : Str) : Str :=
  match v.getLast? with
  | some c => if isNewline c then v.dropLast else v
  | none => v

/-- lossy.rs:347-351 the rest of a comment line, through the NEWLINE -/
def skipComment : List Tok → List Tok
  | [] => []
  | (k, _) :: ts => if k = .NEWLINE then ts else skipComment ts

theorem skipComment_len (ts) : (skipComment ts).length ≤ ts.length := by
  induction ts with
  | nil => simp [skipComment]
  | cons t ts ih => obtain ⟨k, s⟩ := t; simp only [skipComment]; split <;> simp <;> omega

def flush (paras : Doc) (cur : Para) : Doc := if cur = [] then paras else paras ++ [cur]

/-- everything after `KEY`: COLON, optional WHITESPACE, first line, continuation lines
    (lossy.rs:278-341). Returns the value and the remaining tokens. -/
def fieldValue (ts : List Tok) : Except Err (Str × List Tok) :=
  match ts with
  | [] => .error .UnexpectedEof
  | (k, _) :: ts1 =>
    if k = .COLON then
      match firstLine [] (ts1.dropWhile fun t => t.1 = .WHITESPACE) with
      | .error e => .error e
      | .ok (v, ts3) =>
        match contLines (v ++ ['\n']) ts3 with
        | .error e => .error e
        | .ok (v2, ts4) => .ok (trimNl v2, ts4)
    else .error .UnexpectedToken

theorem fieldValue_len (ts v r) (h : fieldValue ts = .ok (v, r)) : r.length < ts.length := by
  cases ts with
  | nil => simp [fieldValue] at h
  | cons t ts1 =>
    obtain ⟨k, s⟩ := t
    simp only [fieldValue] at h
    split at h
    · split at h
      · simp at h
      · rename_i v1 ts3 h1
        split at h
        · simp at h
        · rename_i v2 ts4 h2
          simp at h
          have a := firstLine_len _ _ _ _ h1
          have b := contLines_len _ _ _ _ h2
          have c := length_dropWhile_le (fun t : Tok => decide (t.1 = Kind.WHITESPACE)) ts1
          rw [← h.2]; simp; omega
    · simp at h

/-- the main `while let Some((k, t)) = tokens.next()` loop (lossy.rs:260-362) -/
def loop (paras : Doc) (cur : Para) (ts : List Tok) : Except Err Doc :=
  match ts with
  | [] => .ok (flush paras cur)
  | (k, t) :: ts' =>
    match k with
    | .EMPTY_LINE | .PARAGRAPH | .ROOT | .ENTRY => .error .Unreachable
    | .INDENT | .COLON | .ERROR => .error .UnexpectedToken
    | .WHITESPACE => loop paras cur ts'
    | .KEY =>
      match h : fieldValue ts' with
      | .error e => .error e
      | .ok (v, rest) => loop paras (cur ++ [(t, v)]) rest
    | .VALUE => .error .UnexpectedToken
    | .COMMENT => loop paras cur (skipComment ts')
    | .NEWLINE => loop (flush paras cur) [] ts'
termination_by ts.length
decreasing_by
  · simp
  · have := fieldValue_len _ _ _ h; simp; omega
  · have := skipComment_len ts'; simp; omega
  · simp

/-- `lossy::Deb822::from_str` -/
def read (s : Str) : Except Err Doc := loop [] [] (lex s)

/-- `lossy::Paragraph::from_str` (lossy.rs:161-174) -/
def readPara (s : Str) : Except Err Para :=
  match read s with
  | .error _ => .error .ExpectedEof
  | .ok [] => .error .UnexpectedEof
  | .ok [p] => .ok p
  | .ok _ => .error .ExpectedEof

/-! ### printer (lossy.rs:125-159) -/

/-- `Display for Field`: `Name:` + ` line\n` for every piece of `value.split('\n')` -/
def printField (f : Field) : Str :=
  f.1 ++ ':' :: ((Text.splitOn '\n' f.2).map fun l => ' ' :: l ++ ['\n']).flatten

def printPara (p : Para) : Str := (p.map printField).flatten

/-- paragraphs separated by one blank line -/
def printDoc : Doc → Str
  | [] => []
  | [p] => printPara p
  | p :: q :: ps => printPara p ++ '\n' :: printDoc (q :: ps)

/-! ### edits on a paragraph (lossy.rs:57-123): plain list operations -/

def pget (p : Para) (name : Str) : Option Str := (p.find? fun f => f.1 == name).map (·.2)
def pinsert (p : Para) (name value : Str) : Para := p ++ [(name, value)]
def pset : Para → Str → Str → Para
  | [], name, value => [(name, value)]
  | f :: fs, name, value => if f.1 = name then (f.1, value) :: fs else f :: pset fs name value
def premove (p : Para) (name : Str) : Para := p.filter fun f => f.1 != name

end Deb822Verif.Deb.Lossy
