import Deb822Verif.Model.DeriveCodecs
import Deb822Verif.Model.DebAccess
import Deb822Verif.Model.DebLossy
/-
  Typed lossy documents (property C20): per document type the composition
      deb822 reader  →  per-type assembly  →  derived `from_paragraph`
  and   derived `to_paragraph`  →  lossy paragraph printer  →  per-type layout.
  Which reader a type uses is part of the model:

    control    debian-control/src/lossy/control.rs:172-204   LOSSLESS `Deb822::from_str`, Package? → Binary,
               else Source? → the one Source, else error; Display :161-170 (source, then "\n" + binary …)
    copyright  debian-copyright/src/lossy.rs:102-142          gate `starts_with("Format:")`, LOSSLESS reader,
               first paragraph = Header, then Files? / License? / error; Display :250-263 (files before licences)
    release / source / package   debian-control/src/lossy/apt.rs  LOSSY `Paragraph::from_str` (exactly one
               paragraph) + from_paragraph; Display = lossy paragraph (Release: composed, it has neither impl)
    removal    lossy/ftpmaster.rs:46-54   LOSSLESS `Paragraph::from_str` (first paragraph); printed as lossy paragraph
    buildinfo  lossy/buildinfo.rs:129-137 the same (not in the property's list; kept for the Environment codec)
    dep3       dep3/src/lossy.rs:97-110   LOSSLESS `Paragraph::from_str`, Author←From, Description←Subject
    repos      apt-sources/src/lib.rs:305-325  LOSSLESS `Deb822::from_str`, every paragraph a Repository;
               `to_string` = lossy paragraphs joined by "\n"

  A struct value is `List (Option Val)` (Model/Derive.lean); the field specs are parameters, so that
  the theorems of Props/C20 hold for every spec; the driver instantiates them from `Gen/Structs.lean`.
-/
namespace Deb822Verif.TypedDoc
open Deb822Verif Deb Derive

abbrev SV := List (Option Val)
abbrev Spec := List (FieldSpec Val)

inductive TV
  | single (v : SV)
  | control (src : SV) (bins : List SV)
  | copyright (header : SV) (files lics : List SV)
  | repos (l : List SV)
  deriving DecidableEq

/-- `reader`: the deb822 reader rejected the text (message not modelled); `msg`: exact error text -/
inductive PErr
  | reader
  | msg (m : Str)
  deriving DecidableEq

def kPackage : Str := c!"Package"
def kSource : Str := c!"Source"
def kFiles : Str := c!"Files"
def kLicense : Str := c!"License"
def kAuthor : Str := c!"Author"
def kFrom : Str := c!"From"
def kDescription : Str := c!"Description"
def kSubject : Str := c!"Subject"

def eNoSource : Str := c!"no source paragraph"
def eManySource : Str := c!"more than one source paragraph"
def eNeitherControl : Str := c!"paragraph without Source or Package field"
def eNotMachine : Str := c!"Not machine readable"
def eNoParagraphs : Str := c!"No paragraphs"
def eNeitherCopyright : Str := c!"Paragraph is neither License nor Files"
/-- `ParseError(vec!["no paragraphs"])` displayed: one line per error -/
def eNoParagraphsLL : Str := c!"no paragraphs\n"
def eExpectedEof : Str := c!"Expected end-of-file"
def eUnexpectedEof : Str := c!"Unexpected end-of-file"
def formatGate : Str := c!"Format:"

/-! ### readers -/

/-- `s.parse::<deb822_lossless::Deb822>()` then `.paragraphs()` -/
def llParas (s : Str) : Except PErr (List DNode) :=
  match readStrict s with
  | .error _ => .error .reader
  | .ok t => .ok (paragraphs t)

/-- `lossless::Paragraph::from_str` -/
def llPara (s : Str) : Except PErr DNode :=
  match readStrict s with
  | .error _ => .error .reader
  | .ok t =>
    match paragraphs t with
    | [] => .error (.msg eNoParagraphsLL)
    | p :: _ => .ok p

/-- `lossy::Paragraph::from_str` with the `Display` of its error -/
def lyPara (s : Str) : Except PErr Lossy.Para :=
  match Lossy.readPara s with
  | .ok p => .ok p
  | .error .UnexpectedEof => .error (.msg eUnexpectedEof)
  | .error _ => .error (.msg eExpectedEof)

def liftMsg {α : Type} : Except Str α → Except PErr α
  | .ok v => .ok v
  | .error m => .error (.msg m)

/-- derived `from_paragraph` on a lossless paragraph -/
def fromLL (spec : Spec) (p : DNode) : Except PErr SV := liftMsg (fromFields (Deb.get p) spec)

/-- derived `from_paragraph` on a lossy paragraph -/
def fromLY (spec : Spec) (p : Lossy.Para) : Except PErr SV := liftMsg (fromFields (Lossy.pget p) spec)

/-- `to_paragraph::<lossy::Paragraph>()` then `Display` -/
def paraOf (spec : Spec) (v : SV) : Lossy.Para := toFields spec v

/-! ### control file -/

def controlLoop (S B : Spec) : List DNode → Option SV → List SV → Except PErr TV
  | [], src, bins =>
    match src with
    | none => .error (.msg eNoSource)
    | some s => .ok (.control s bins)
  | p :: ps, src, bins =>
    if (Deb.get p kPackage).isSome then
      match fromLL B p with
      | .error e => .error e
      | .ok b => controlLoop S B ps src (bins ++ [b])
    else if (Deb.get p kSource).isSome then
      if src.isSome then .error (.msg eManySource)
      else
        match fromLL S p with
        | .error e => .error e
        | .ok s => controlLoop S B ps (some s) bins
    else .error (.msg eNeitherControl)

def parseControl (S B : Spec) (s : Str) : Except PErr TV :=
  match llParas s with
  | .error e => .error e
  | .ok ps => controlLoop S B ps none []

def docControl (S B : Spec) (src : SV) (bins : List SV) : Lossy.Doc :=
  paraOf S src :: bins.map (paraOf B)

/-! ### copyright file -/

def copyrightLoop (F L : Spec) : List DNode → List SV → List SV → Except PErr (List SV × List SV)
  | [], fs, ls => .ok (fs, ls)
  | p :: ps, fs, ls =>
    if (Deb.get p kFiles).isSome then
      match fromLL F p with
      | .error e => .error e
      | .ok f => copyrightLoop F L ps (fs ++ [f]) ls
    else if (Deb.get p kLicense).isSome then
      match fromLL L p with
      | .error e => .error e
      | .ok l => copyrightLoop F L ps fs (ls ++ [l])
    else .error (.msg eNeitherCopyright)

def parseCopyright (H F L : Spec) (s : Str) : Except PErr TV :=
  if formatGate.isPrefixOf s = false then .error (.msg eNotMachine)
  else
    match llParas s with
    | .error e => .error e
    | .ok [] => .error (.msg eNoParagraphs)
    | .ok (p :: ps) =>
      match fromLL H p with
      | .error e => .error e
      | .ok h =>
        match copyrightLoop F L ps [] [] with
        | .error e => .error e
        | .ok r => .ok (.copyright h r.1 r.2)

def docCopyright (H F L : Spec) (h : SV) (fs ls : List SV) : Lossy.Doc :=
  paraOf H h :: (fs.map (paraOf F) ++ ls.map (paraOf L))

/-! ### one-paragraph documents -/

/-- apt Release / Sources / Packages stanza: the lossy paragraph reader -/
def parseLossyPara (spec : Spec) (s : Str) : Except PErr TV :=
  match lyPara s with
  | .error e => .error e
  | .ok p =>
    match fromLY spec p with
    | .error e => .error e
    | .ok v => .ok (.single v)

/-- removal record, buildinfo: the first paragraph of the lossless reader -/
def parseLosslessPara (spec : Spec) (s : Str) : Except PErr TV :=
  match llPara s with
  | .error e => .error e
  | .ok p =>
    match fromLL spec p with
    | .error e => .error e
    | .ok v => .ok (.single v)

/-- `if header.f.is_none() { header.f = paragraph.get(K).map(|v| v.to_string()) }` for the field
    stored under `key` -/
def fallback (key : Str) (alt : Option Str) : Spec → SV → SV
  | f :: fs, v :: vs =>
    if f.key = key then (match v with | none => alt.map Val.str | some x => some x) :: vs
    else v :: fallback key alt fs vs
  | _, vs => vs

def parseDep3 (spec : Spec) (s : Str) : Except PErr TV :=
  match llPara s with
  | .error e => .error e
  | .ok p =>
    match fromLL spec p with
    | .error e => .error e
    | .ok v =>
      .ok (.single (fallback kDescription (Deb.get p kSubject) spec
        (fallback kAuthor (Deb.get p kFrom) spec v)))

/-! ### APT sources list -/

def reposLoop (R : Spec) : List DNode → Except PErr (List SV)
  | [] => .ok []
  | p :: ps =>
    match fromLL R p with
    | .error e => .error e
    | .ok r =>
      match reposLoop R ps with
      | .error e => .error e
      | .ok rs => .ok (r :: rs)

def parseRepos (R : Spec) (s : Str) : Except PErr TV :=
  match llParas s with
  | .error e => .error e
  | .ok ps =>
    match reposLoop R ps with
    | .error e => .error e
    | .ok rs => .ok (.repos rs)

/-! ### the document kinds -/

inductive DocKind
  | control (S B : Spec)
  | copyright (H F L : Spec)
  | lossyPara (spec : Spec)
  | losslessPara (spec : Spec)
  | dep3 (spec : Spec)
  | repos (R : Spec)

def parse : DocKind → Str → Except PErr TV
  | .control S B, s => parseControl S B s
  | .copyright H F L, s => parseCopyright H F L s
  | .lossyPara spec, s => parseLossyPara spec s
  | .losslessPara spec, s => parseLosslessPara spec s
  | .dep3 spec, s => parseDep3 spec s
  | .repos R, s => parseRepos R s

/-- the paragraphs a value prints as -/
def docOf : DocKind → TV → Lossy.Doc
  | .control S B, .control src bins => docControl S B src bins
  | .copyright H F L, .copyright h fs ls => docCopyright H F L h fs ls
  | .lossyPara spec, .single v => [paraOf spec v]
  | .losslessPara spec, .single v => [paraOf spec v]
  | .dep3 spec, .single v => [paraOf spec v]
  | .repos R, .repos l => l.map (paraOf R)
  | _, _ => []

/-- `Display` / `to_string`: paragraphs printed by the lossy printer, one blank line apart -/
def print (k : DocKind) (v : TV) : Str := Lossy.printDoc (docOf k v)

end Deb822Verif.TypedDoc
