import Deb822Verif.Model.Text
/-! Green tree (rowan `GreenNode`/`GreenToken`) as a plain inductive, generic in the kind type. -/
namespace Deb822Verif

inductive Node (κ : Type) where
  | tok : κ → Str → Node κ
  | node : κ → List (Node κ) → Node κ
  deriving Repr, Inhabited

namespace Node
variable {κ : Type}

mutual
/-- `SyntaxNode::text()` -/
def text : Node κ → Str
  | .tok _ t => t
  | .node _ cs => textList cs
def textList : List (Node κ) → Str
  | [] => []
  | n :: ns => n.text ++ textList ns
end

mutual
/-- all tokens, in order -/
def leaves : Node κ → List (κ × Str)
  | .tok k t => [(k, t)]
  | .node _ cs => leavesList cs
def leavesList : List (Node κ) → List (κ × Str)
  | [] => []
  | n :: ns => n.leaves ++ leavesList ns
end

mutual
/-- `NodeOrToken::last_token()` (rowan 0.16.1 cursor.rs:1180-1185): a token is its own last token,
    a node's is `SyntaxNode::last_token()` of its children -/
def lastTokN : Node κ → Option (κ × Str)
  | .tok k t => some (k, t)
  | .node _ cs => lastTok cs
/-- `SyntaxNode::last_token()` on a child list (rowan 0.16.1 cursor.rs:832-834):
    `self.last_child_or_token()?.last_token()` — the LAST child, and if that is a node ITS last
    token, recursively; `none` when this chain of last children ends in a node without children
    (it does not fall back to an earlier sibling). -/
def lastTok : List (Node κ) → Option (κ × Str)
  | [] => none
  | n :: ns =>
    match ns with
    | [] => lastTokN n
    | _ :: _ => lastTok ns
end

def kind : Node κ → κ
  | .tok k _ => k
  | .node k _ => k

def isNode : Node κ → Bool
  | .tok _ _ => false
  | .node _ _ => true

def children : Node κ → List (Node κ)
  | .tok _ _ => []
  | .node _ cs => cs

def tokText (ts : List (κ × Str)) : Str := (ts.map (·.2)).flatten

@[simp] theorem textList_nil : textList ([] : List (Node κ)) = [] := by simp [textList]
@[simp] theorem textList_cons (n : Node κ) (ns) : textList (n :: ns) = n.text ++ textList ns := by
  simp [textList]
@[simp] theorem leavesList_nil : leavesList ([] : List (Node κ)) = [] := by simp [leavesList]
@[simp] theorem leavesList_cons (n : Node κ) (ns) : leavesList (n :: ns) = n.leaves ++ leavesList ns := by
  simp [leavesList]
@[simp] theorem text_tok (k : κ) (t) : (Node.tok k t).text = t := by simp [text]
@[simp] theorem text_node (k : κ) (cs) : (Node.node k cs).text = textList cs := by simp [text]
@[simp] theorem leaves_tok (k : κ) (t) : (Node.tok k t).leaves = [(k, t)] := by simp [leaves]
@[simp] theorem leaves_node (k : κ) (cs) : (Node.node k cs).leaves = leavesList cs := by simp [leaves]

@[simp] theorem textList_append (a b : List (Node κ)) : textList (a ++ b) = textList a ++ textList b := by
  induction a with
  | nil => simp
  | cons x xs ih => simp [ih]

@[simp] theorem leavesList_append (a b : List (Node κ)) :
    leavesList (a ++ b) = leavesList a ++ leavesList b := by
  induction a with
  | nil => simp
  | cons x xs ih => simp [ih]

@[simp] theorem tokText_nil : tokText ([] : List (κ × Str)) = [] := by simp [tokText]
@[simp] theorem tokText_cons (t : κ × Str) (ts) : tokText (t :: ts) = t.2 ++ tokText ts := by
  simp [tokText]
@[simp] theorem tokText_append (a b : List (κ × Str)) : tokText (a ++ b) = tokText a ++ tokText b := by
  simp [tokText]

theorem lastTok_nil : lastTok ([] : List (Node κ)) = none := by simp [lastTok]
theorem lastTok_single (n : Node κ) : lastTok [n] = lastTokN n := by simp [lastTok]
theorem lastTok_cons_cons (c d : Node κ) (cs) : lastTok (c :: d :: cs) = lastTok (d :: cs) := by
  rw [lastTok]
theorem lastTokN_tok (k : κ) (t : Str) : lastTokN (Node.tok k t) = some (k, t) := by simp [lastTokN]
theorem lastTokN_node (k : κ) (cs) : lastTokN (Node.node k cs) = lastTok cs := by simp [lastTokN]

/-- only the last child matters -/
theorem lastTok_append (X Y : List (Node κ)) (h : Y ≠ []) : lastTok (X ++ Y) = lastTok Y := by
  induction X with
  | nil => rfl
  | cons x X ih =>
    cases hXY : X ++ Y with
    | nil => simp at hXY; exact absurd hXY.2 h
    | cons z Z =>
      rw [List.cons_append, hXY, lastTok_cons_cons, ← hXY]; exact ih

theorem lastTok_snoc_tok (X : List (Node κ)) (k : κ) (t : Str) : lastTok (X ++ [.tok k t]) = some (k, t) := by
  rw [lastTok_append _ _ (by simp), lastTok_single, lastTokN_tok]

theorem lastTok_snoc_node (X : List (Node κ)) (k : κ) (cs : List (Node κ)) :
    lastTok (X ++ [.node k cs]) = lastTok cs := by
  rw [lastTok_append _ _ (by simp), lastTok_single, lastTokN_node]

mutual
/-- the last token, when there is one, is the last leaf -/
theorem lastTokN_leaves : ∀ (n : Node κ) (t : κ × Str), lastTokN n = some t → n.leaves.getLast? = some t
  | .tok k t', t, h => by simp [lastTokN] at h; subst h; simp
  | .node k cs, t, h => by
    rw [lastTokN_node] at h
    simpa using lastTok_leaves cs t h
theorem lastTok_leaves : ∀ (cs : List (Node κ)) (t : κ × Str), lastTok cs = some t →
    (leavesList cs).getLast? = some t
  | [], t, h => by simp [lastTok] at h
  | [n], t, h => by
    rw [lastTok_single] at h
    simpa using lastTokN_leaves n t h
  | c :: d :: cs, t, h => by
    rw [lastTok_cons_cons] at h
    have := lastTok_leaves (d :: cs) t h
    rw [leavesList_cons, List.getLast?_append, this]; rfl
end

/-! `last_token()` against "the last leaf": they agree when no node of the tree is empty (every
    parsed well-formed document, every built one); an empty node at the end of the chain of last
    children — the parser's empty ERROR node behind a key at the end of the input — makes
    `last_token()` `None` although the tree has tokens. -/

mutual
def noEmptyN : Node κ → Bool
  | .tok _ _ => true
  | .node _ cs => !cs.isEmpty && noEmptyL cs
def noEmptyL : List (Node κ) → Bool
  | [] => true
  | n :: ns => noEmptyN n && noEmptyL ns
end

mutual
theorem leaves_ne_of_noEmptyN : ∀ n : Node κ, noEmptyN n = true → n.leaves ≠ []
  | .tok k t, _ => by simp
  | .node k cs, h => by
    simp only [noEmptyN, Bool.and_eq_true, Bool.not_eq_eq_eq_not, Bool.not_true] at h
    rw [leaves_node]
    exact leavesList_ne_of_noEmptyL cs h.2 (by intro e; simp [e] at h)
theorem leavesList_ne_of_noEmptyL : ∀ cs : List (Node κ), noEmptyL cs = true → cs ≠ [] → leavesList cs ≠ []
  | [], _, h => absurd rfl h
  | n :: ns, h, _ => by
    simp only [noEmptyL, Bool.and_eq_true] at h
    have := leaves_ne_of_noEmptyN n h.1
    simp [this]
end

mutual
theorem lastTokN_of_noEmpty : ∀ n : Node κ, noEmptyN n = true → lastTokN n = n.leaves.getLast?
  | .tok k t, _ => by simp [lastTokN]
  | .node k cs, h => by
    simp only [noEmptyN, Bool.and_eq_true] at h
    rw [lastTokN_node, leaves_node]
    exact lastTok_of_noEmpty cs h.2
/-- **without empty nodes `last_token()` is the last leaf** -/
theorem lastTok_of_noEmpty : ∀ cs : List (Node κ), noEmptyL cs = true → lastTok cs = (leavesList cs).getLast?
  | [], _ => by simp [lastTok]
  | [n], h => by
    simp only [noEmptyL, Bool.and_eq_true] at h
    rw [lastTok_single, lastTokN_of_noEmpty n h.1]; simp
  | c :: d :: cs, h => by
    simp only [noEmptyL, Bool.and_eq_true] at h
    have hd : noEmptyL (d :: cs) = true := by simp [noEmptyL, h.2.1, h.2.2]
    have hne := leavesList_ne_of_noEmptyL (d :: cs) hd (by simp)
    rw [lastTok_cons_cons, lastTok_of_noEmpty (d :: cs) hd, leavesList_cons (n := c), List.getLast?_append]
    cases hl : (leavesList (d :: cs)).getLast? with
    | none => exact absurd (List.getLast?_eq_none_iff.1 hl) hne
    | some x => rfl
end

mutual
/-- the text of a tree is the concatenation of its tokens -/
theorem tokText_leaves : ∀ n : Node κ, tokText n.leaves = n.text
  | .tok k t => by simp
  | .node k cs => by simp [tokText_leavesList cs]
theorem tokText_leavesList : ∀ ns : List (Node κ), tokText (leavesList ns) = textList ns
  | [] => by simp
  | n :: ns => by simp [tokText_leaves n, tokText_leavesList ns]
end

end Node
end Deb822Verif
