import Deb822Verif.Model.Text
/-! Green tree (rowan `GreenNode`/`GreenToken`) as a plain inductive, generic in the kind type. -/
namespace Deb822Verif

inductive Node (κ : Type) where
  | tok : κ → Str → Node κ
  | node : κ → List (Node κ) → Node κ
  deriving Repr, Inhabited

namespace Node
variable {κ : Type}

mutual
/-- `SyntaxNode::text()` -/
def text : Node κ → Str
  | .tok _ t => t
  | .node _ cs => textList cs
def textList : List (Node κ) → Str
  | [] => []
  | n :: ns => n.text ++ textList ns
end

mutual
/-- all tokens, in order -/
def leaves : Node κ → List (κ × Str)
  | .tok k t => [(k, t)]
  | .node _ cs => leavesList cs
def leavesList : List (Node κ) → List (κ × Str)
  | [] => []
  | n :: ns => n.leaves ++ leavesList ns
end

def kind : Node κ → κ
  | .tok k _ => k
  | .node k _ => k

def isNode : Node κ → Bool
  | .tok _ _ => false
  | .node _ _ => true

def children : Node κ → List (Node κ)
  | .tok _ _ => []
  | .node _ cs => cs

def tokText (ts : List (κ × Str)) : Str := (ts.map (·.2)).flatten

@[simp] theorem textList_nil : textList ([] : List (Node κ)) = [] := by simp [textList]
@[simp] theorem textList_cons (n : Node κ) (ns) : textList (n :: ns) = n.text ++ textList ns := by
  simp [textList]
@[simp] theorem leavesList_nil : leavesList ([] : List (Node κ)) = [] := by simp [leavesList]
@[simp] theorem leavesList_cons (n : Node κ) (ns) : leavesList (n :: ns) = n.leaves ++ leavesList ns := by
  simp [leavesList]
@[simp] theorem text_tok (k : κ) (t) : (Node.tok k t).text = t := by simp [text]
@[simp] theorem text_node (k : κ) (cs) : (Node.node k cs).text = textList cs := by simp [text]
@[simp] theorem leaves_tok (k : κ) (t) : (Node.tok k t).leaves = [(k, t)] := by simp [leaves]
@[simp] theorem leaves_node (k : κ) (cs) : (Node.node k cs).leaves = leavesList cs := by simp [leaves]

@[simp] theorem textList_append (a b : List (Node κ)) : textList (a ++ b) = textList a ++ textList b := by
  induction a with
  | nil => simp
  | cons x xs ih => simp [ih]

@[simp] theorem leavesList_append (a b : List (Node κ)) :
    leavesList (a ++ b) = leavesList a ++ leavesList b := by
  induction a with
  | nil => simp
  | cons x xs ih => simp [ih]

@[simp] theorem tokText_nil : tokText ([] : List (κ × Str)) = [] := by simp [tokText]
@[simp] theorem tokText_cons (t : κ × Str) (ts) : tokText (t :: ts) = t.2 ++ tokText ts := by
  simp [tokText]
@[simp] theorem tokText_append (a b : List (κ × Str)) : tokText (a ++ b) = tokText a ++ tokText b := by
  simp [tokText]

mutual
/-- the text of a tree is the concatenation of its tokens -/
theorem tokText_leaves : ∀ n : Node κ, tokText n.leaves = n.text
  | .tok k t => by simp
  | .node k cs => by simp [tokText_leavesList cs]
theorem tokText_leavesList : ∀ ns : List (Node κ), tokText (leavesList ns) = textList ns
  | [] => by simp
  | n :: ns => by simp [tokText_leaves n, tokText_leavesList ns]
end

end Node
end Deb822Verif
