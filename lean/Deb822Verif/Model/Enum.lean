import Deb822Verif.Model.Text
/-
  Generic model of the keyword enumerations (Priority, MultiArch, Urgency, VersionConstraint,
  OriginCategory, RepositoryType, YesNoForce …).  The per-type tables are *generated* from the Rust
  match arms by `tools/translate.py enums` into `Gen/Enums.lean`; `printOf` / `parseOf` below are the
  only code, written once.

  Rust shape being modelled:
      fn from_str(s) { match NORM(s) { "kw1" => Ok(T::V1), …, _ => Err(..) | Ok(T::Default) } }
      fn fmt(&self)  { match self { T::V1 => "kw1", … } }
-/
namespace Deb822Verif.Enum

/-- what is done to the input before it is matched against the keyword literals -/
inductive Norm
  | exact          -- `match s`
  | lowerAscii     -- `match s.to_ascii_lowercase().as_str()`
  | lowerUnicode   -- `match s.to_lowercase().as_str()`
  deriving DecidableEq, Repr

/-- what the catch-all arm of `from_str` does -/
inductive CatchAll
  | reject                 -- `_ => Err(..)`
  | default (v : Str)      -- `_ => Ok(T::V)`: unknown keywords silently become `V` (violates C18)
  | payload (v : Str)      -- `s => Ok(T::V(s.to_string()))`: keyword-or-free-text types (Forwarded)
  deriving DecidableEq, Repr

structure EnumSpec where
  name : Str
  /-- the unit variants of the `enum` declaration -/
  variants : List Str
  /-- (variant, printed keyword), in source order -/
  printTab : List (Str × Str)
  /-- (accepted keyword, variant), in source order (first match wins, as in Rust) -/
  parseTab : List (Str × Str)
  norm : Norm
  catchAll : CatchAll
  deriving Repr

/-- first row with the given key -/
def lookup (k : Str) : List (Str × Str) → Option Str
  | [] => none
  | p :: r => if p.1 = k then some p.2 else lookup k r

def lowerAsciiChar (c : Char) : Char :=
  if 'A' ≤ c ∧ c ≤ 'Z' then Char.ofNat (c.toNat + 32) else c

/-- `char::to_lowercase` restricted to what can matter for a comparison with an ASCII keyword:
    `A-Z` ↦ `a-z`, U+212A KELVIN SIGN ↦ `k` (the only non-ASCII scalar whose lower-case expansion is
    pure ASCII); every other scalar is kept, which keeps a non-ASCII scalar in the result exactly
    when Rust's result contains one.  (Trusted: that fact about Unicode's lower-case mapping.) -/
def lowerUnicodeChar (c : Char) : Char :=
  if c = Char.ofNat 0x212A then 'k' else lowerAsciiChar c

def normalise : Norm → Str → Str
  | .exact, s => s
  | .lowerAscii, s => s.map lowerAsciiChar
  | .lowerUnicode, s => s.map lowerUnicodeChar

/-- `v.to_string()`; `none` only for a name that is not a variant -/
def printOf (e : EnumSpec) (v : Str) : Option Str := lookup v e.printTab

/-- `T::from_str(s).ok()` as the variant's name -/
def parseOf (e : EnumSpec) (s : Str) : Option Str :=
  match lookup (normalise e.norm s) e.parseTab with
  | some v => some v
  | none =>
    match e.catchAll with
    | .reject => none
    | .default v => some v
    | .payload v => some v

/-- the accepted keyword literals -/
def accepted (e : EnumSpec) : List Str := e.parseTab.map (·.1)

/-- the printed keywords -/
def printed (e : EnumSpec) : List Str := e.printTab.map (·.2)

end Deb822Verif.Enum
