import Deb822Verif.Model.RelLossy
import Deb822Verif.Model.DebVersion
/-!
  Model of relation wrap-and-sort (property C13), `debian-control/src/lossless/relations.rs` as of
  commit 27115b9:
  `Relation::wrap_and_sort` (1194-1222) with its helpers `version_tokens` (1059-1070),
  `version_node` (1072-1092), `architectures_node` (1095-1111), `profiles_node` (1114-1133);
  `From<Vec<Relation>> for Entry` (1135-1150); `Entry::wrap_and_sort` (842-850);
  `Relations::wrap_and_sort` (575-604); `PartialOrd for Relation` (1722-1768) and
  `PartialOrd for Entry` (744-763); Rust's stable `sort_by` as `List.mergeSort`.

  A relation is rebuilt from what its accessors return (`accRelation`: name, archqual, version,
  architectures, profiles — the record `Lossy.Relation`); `.panic` where `name()` / `version()`
  unwrap fails. `inject` (a deep copy) is the identity on these immutable trees.

  Not modelled: `debversion::Version::cmp` panics on numeric components above `i32::MAX`
  (finding F-C12-1); the driver and the worker both answer `BIGNUM` for such inputs.
-/
namespace Deb822Verif.Rel.Wrap
open Deb822Verif Rel Node DebVersion

abbrev RV := Lossy.Relation

/-! ## the orderings -/

/-- `Ord for [T]` / `Vec<T>` / `str`: lexicographic, a proper prefix first -/
def lexCmp {α} (cmp : α → α → Ordering) : List α → List α → Ordering
  | [], [] => .eq
  | [], _ :: _ => .lt
  | _ :: _, [] => .gt
  | a :: as, b :: bs => (cmp a b).then (lexCmp cmp as bs)

/-- `Ord for Option<T>`: `None` first -/
def optCmp {α} (cmp : α → α → Ordering) : Option α → Option α → Ordering
  | none, none => .eq
  | none, some _ => .lt
  | some _, none => .gt
  | some a, some b => cmp a b

/-- `Ord for String`: by UTF-8 bytes, which is by scalar values -/
def strCmp : Str → Str → Ordering := lexCmp fun a b => natCmp a.toNat b.toNat

/-- derived `Ord for VersionConstraint` (src/relations.rs:38-49): declaration order -/
def vcRank : VC → Nat
  | .LessThan => 0 | .LessThanEqual => 1 | .Equal => 2 | .GreaterThan => 3 | .GreaterThanEqual => 4

/-- `self_vc.cmp(&other_vc).then_with(|| self_version.cmp(&other_version))` -/
def versionCmp (a b : VC × Version) : Ordering :=
  (natCmp (vcRank a.1) (vcRank b.1)).then (DebVersion.compare a.2 b.2)

/-- `≤` of a three-way comparison -/
def leOf {α} (cmp : α → α → Ordering) (a b : α) : Bool := cmp a b != .gt

/-- `a.sort()` on the architecture names (relations.rs:1752-1756) -/
def sortedArchs (r : RV) : Option (List Str) := r.architectures.map (·.mergeSort (leOf strCmp))

/-- profile terms as they print (`p.to_string()`, relations.rs:1758-1762) -/
def profStrs (r : RV) : List (List Str) := r.profiles.map (·.map Lossy.showProfile)

/-- `PartialOrd for Relation` (relations.rs:1722-1768): name, then (operator, version) with "no
    version" first, then archqual, sorted architectures, profile groups -/
def relCmp (a b : RV) : Ordering :=
  (strCmp a.name b.name).then
    ((optCmp versionCmp a.version b.version).then
      ((optCmp strCmp a.archqual b.archqual).then
        ((optCmp (lexCmp strCmp) (sortedArchs a) (sortedArchs b)).then
          (lexCmp (lexCmp strCmp) (profStrs a) (profStrs b)))))

/-- `PartialOrd for Entry` (relations.rs:744-763): alternative by alternative, a proper prefix first -/
def entryCmp : List RV → List RV → Ordering := lexCmp relCmp

/-! ## building the canonical nodes -/

def ws : RNode := .tok .WHITESPACE [' ']

/-- items joined by a separator -/
def sepBy (sep : List RNode) : List (List RNode) → List RNode
  | [] => []
  | [x] => x
  | x :: y :: rest => x ++ sep ++ sepBy sep (y :: rest)

/-- the operator, one token per character (relations.rs:1076-1086) -/
def constraintToks (vc : VC) : List RNode :=
  vc.display.map fun c =>
    .tok (if c = '>' then .R_ANGLE else if c = '<' then .L_ANGLE else .EQUAL) [c]

/-- `version_tokens` (after fix 4ba50b0): `IDENT`, or `IDENT (COLON IDENT)*` when the version has an
    epoch — the pieces of `text.split(':')`, a COLON before every piece but the first -/
def versionToks (v : Version) : List RNode :=
  match v.epoch with
  | some _ => sepBy [.tok .COLON [':']] ((Text.splitOn ':' v.display).map fun p => [.tok .IDENT p])
  | none => [.tok .IDENT v.display]

/-- `version_node` -/
def versionNode (vc : VC) (v : Version) : RNode :=
  .node .VERSION ([.tok .L_PARENS ['('], .node .CONSTRAINT (constraintToks vc), ws]
    ++ versionToks v ++ [.tok .R_PARENS [')']])

/-- one architecture: `arch.strip_prefix('!')` -/
def archToks (a : Str) : List RNode :=
  match a with
  | '!' :: n => [.tok .NOT ['!'], .tok .IDENT n]
  | _ => [.tok .IDENT a]

/-- `architectures_node` -/
def architecturesNode (as : List Str) : RNode :=
  .node .ARCHITECTURES (.tok .L_BRACKET ['['] :: (sepBy [ws] (as.map archToks) ++ [.tok .R_BRACKET [']']]))

def termToks : BuildProfile → List RNode
  | .Disabled n => [.tok .NOT ['!'], .tok .IDENT n]
  | .Enabled n => [.tok .IDENT n]

/-- `profiles_node` -/
def profilesNode (g : List BuildProfile) : RNode :=
  .node .PROFILES (.tok .L_ANGLE ['<'] :: (sepBy [ws] (g.map termToks) ++ [.tok .R_ANGLE ['>']]))

/-- the node `Relation::wrap_and_sort` builds from the accessor values -/
def buildRel (r : RV) : RNode :=
  .node .RELATION (.tok .IDENT r.name ::
    ((match r.archqual with
      | some q => [Node.node .ARCHQUAL [.tok .COLON [':'], .tok .IDENT q]]
      | none => [])
    ++ (match r.version with
      | some (vc, v) => [ws, versionNode vc v]
      | none => [])
    ++ (match r.architectures with
      | some as => [ws, architecturesNode as]
      | none => [])
    ++ (r.profiles.map fun g => [ws, profilesNode g]).flatten))

/-- `From<Vec<Relation>> for Entry`: alternatives joined by ` | ` -/
def buildEntry (rs : List RNode) : RNode :=
  .node .ENTRY (sepBy [ws, .tok .PIPE ['|'], ws] (rs.map fun r => [r]))

/-- the root loop of `Relations::wrap_and_sort`: items joined by `, ` -/
def buildRoot (items : List RNode) : RNode :=
  .node .ROOT (sepBy [.tok .COMMA [','], ws] (items.map fun r => [r]))

/-! ## wrap-and-sort -/

def mapO {α β} (f : α → Outcome β) : List α → Outcome (List β)
  | [] => .ok []
  | a :: as =>
    match f a with
    | .panic s => .panic s
    | .ok b =>
      match mapO f as with
      | .panic s => .panic s
      | .ok bs => .ok (b :: bs)

/-- `Relation::wrap_and_sort` -/
def relationWrap (r : RNode) : Outcome RNode :=
  match accRelation r with
  | none => .panic "relations.rs Relation::name / Relation::version unwrap"
  | some v => .ok (buildRel v)

/-- `a.cmp(b)` on two RELATION nodes (through the accessors; they do not fail on a node built by
    `relationWrap`, see `Props.C13.acc_buildRel`) -/
def relNodeOrd (a b : RNode) : Ordering :=
  match accRelation a, accRelation b with
  | some x, some y => relCmp x y
  | _, _ => .eq

/-- the comparator of `Entry::wrap_and_sort`:
    `a.cmp(b).then_with(|| a.to_string().cmp(&b.to_string()))` -/
def relNodeCmp (a b : RNode) : Ordering := (relNodeOrd a b).then (strCmp a.text b.text)

/-- `Entry::wrap_and_sort` -/
def entryWrap (e : RNode) : Outcome RNode :=
  match mapO relationWrap (relations e) with
  | .panic s => .panic s
  | .ok rs =>
    if rs.all fun r => (accRelation r).isSome then .ok (buildEntry (rs.mergeSort (leOf relNodeCmp)))
    else .panic "relations.rs Relation::cmp: accessor unwrap on a wrapped relation"

/-- `Entry::cmp` on two ENTRY nodes -/
def entryNodeOrd (a b : RNode) : Ordering := lexCmp relNodeOrd (relations a) (relations b)

/-- the comparator of `Relations::wrap_and_sort` -/
def entryNodeCmp (a b : RNode) : Ordering := (entryNodeOrd a b).then (strCmp a.text b.text)

/-- `Relations::wrap_and_sort`: non-empty entries wrapped and sorted, then the substitution
    variables sorted by their text -/
def relationsWrap (root : RNode) : Outcome RNode :=
  match mapO entryWrap ((entries root).filter fun e => !(relations e).isEmpty) with
  | .panic s => .panic s
  | .ok es =>
    .ok (buildRoot (es.mergeSort (leOf entryNodeCmp)
      ++ (childNodes .SUBSTVAR root).mergeSort fun a b => leOf strCmp a.text b.text))

/-! ## the inputs on which `Version::cmp` may panic (F-C12-1) -/

def relBig (r : RNode) : Bool :=
  match version r with
  | .ok (some (_, v)) => !DebVersion.small v
  | _ => false

/-- some version of the field has a numeric component above `i32::MAX` -/
def hasBigNumber (root : RNode) : Bool :=
  (entries root).any fun e => (relations e).any relBig

end Deb822Verif.Rel.Wrap
