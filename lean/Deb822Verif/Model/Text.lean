/-
  Text helpers mirroring the Rust `str` methods the code base uses.
  One text representation everywhere: `List Char` (Unicode scalar values).
  Import-free (core only) so that the driver links as a `lean_exe`.
-/
namespace Deb822Verif

abbrev Str := List Char

instance {ε α} [DecidableEq ε] [DecidableEq α] : DecidableEq (Except ε α) := fun a b =>
  match a, b with
  | .ok x, .ok y => if h : x = y then isTrue (by rw [h]) else isFalse (by intro e; cases e; exact h rfl)
  | .error x, .error y => if h : x = y then isTrue (by rw [h]) else isFalse (by intro e; cases e; exact h rfl)
  | .ok _, .error _ => isFalse (by intro e; cases e)
  | .error _, .ok _ => isFalse (by intro e; cases e)

namespace Text

/-- pieces of Rust `split_inclusive('\n')` with the `\n` removed; flag = piece was `\n`-terminated -/
def rawLines : Str → List (Str × Bool)
  | [] => []
  | c :: cs =>
    if c = '\n' then ([], true) :: rawLines cs
    else match rawLines cs with
      | [] => [([c], false)]
      | (l, t) :: ls => (c :: l, t) :: ls

/-- strip one trailing `\r` -/
def stripCR (l : Str) : Str := if l.getLast? = some '\r' then l.dropLast else l

/-- Rust `str::lines()` (1.77+): split_inclusive('\n'), strip `\n`, then one `\r` — a bare
    trailing `\r` on an unterminated last line is kept. -/
def lines (s : Str) : List Str := (rawLines s).map fun p => if p.2 then stripCR p.1 else p.1

/-- each line followed by `\n` -/
def unlinesNL (ls : List Str) : Str := (ls.map (· ++ ['\n'])).flatten

/-- Rust `str::split(c)`: always at least one piece -/
def splitOn (sep : Char) : Str → List Str
  | [] => [[]]
  | c :: cs =>
    if c = sep then [] :: splitOn sep cs
    else match splitOn sep cs with
      | [] => [[c]]
      | l :: ls => (c :: l) :: ls

def join (sep : Str) : List Str → Str
  | [] => []
  | [x] => x
  | x :: y :: rest => x ++ sep ++ join sep (y :: rest)

/-- Unicode White_Space (what Rust `char::is_whitespace` tests) -/
def isWhitespace (c : Char) : Bool :=
  let n := c.toNat
  (9 ≤ n && n ≤ 13) || n == 32 || n == 0x85 || n == 0xA0 || n == 0x1680 ||
  (0x2000 ≤ n && n ≤ 0x200A) || n == 0x2028 || n == 0x2029 || n == 0x202F || n == 0x205F || n == 0x3000

def trimStart (s : Str) : Str := s.dropWhile isWhitespace
def trimEnd (s : Str) : Str := (s.reverse.dropWhile isWhitespace).reverse
def trim (s : Str) : Str := trimEnd (trimStart s)

/-- Rust `split_whitespace` -/
def splitWhitespace (s : Str) : List Str :=
  go s [] where
  go : Str → Str → List Str
    | [], cur => if cur = [] then [] else [cur.reverse]
    | c :: cs, cur =>
      if isWhitespace c then (if cur = [] then go cs [] else cur.reverse :: go cs [])
      else go cs (c :: cur)

def utf8Len (s : Str) : Nat := (s.map Char.utf8Size).sum

def startsWith (s p : Str) : Bool := p.isPrefixOf s

def stripPrefix (p s : Str) : Option Str := if p.isPrefixOf s then some (s.drop p.length) else none
def stripSuffix (p s : Str) : Option Str :=
  if p.isSuffixOf s then some (s.take (s.length - p.length)) else none

end Text

/-! ## hex line protocol helpers (driver side) -/
namespace Hex

def digit (n : Nat) : Char := if n < 10 then Char.ofNat (48 + n) else Char.ofNat (87 + n)

def encodeBytes (bs : List UInt8) : String :=
  String.ofList (bs.flatMap fun b => [digit (b.toNat / 16), digit (b.toNat % 16)])

def encode (s : Str) : String :=
  let str := String.ofList s
  if s.isEmpty then "-" else encodeBytes str.toUTF8.toList

def val (c : Char) : Option Nat :=
  if '0' ≤ c ∧ c ≤ '9' then some (c.toNat - 48)
  else if 'a' ≤ c ∧ c ≤ 'f' then some (c.toNat - 87)
  else if 'A' ≤ c ∧ c ≤ 'F' then some (c.toNat - 55)
  else none

def decodeBytes : List Char → Option (List UInt8)
  | [] => some []
  | a :: b :: rest => do
    let x ← val a
    let y ← val b
    let r ← decodeBytes rest
    pure (UInt8.ofNat (x * 16 + y) :: r)
  | _ => none

/-- "-" is the empty string -/
def decode (h : String) : Option Str :=
  if h == "-" then some [] else do
    let bs ← decodeBytes h.toList
    let ba := ByteArray.mk bs.toArray
    match String.fromUTF8? ba with
    | some s => some s.toList
    | none => none

end Hex
end Deb822Verif
