import Deb822Verif.Model.RelAccess
/-!
  Model of the *lossy* relation reader and printer, `debian-control/src/lossy/relations.rs`:
  `FromStr for Relation` (lines 292-421), `FromStr for Relations` (lines 423-448),
  `Display for Relation` (lines 158-182), `Display for Relations` (lines 275-290),
  branch for branch, bugs included. The `Peekable` token iterator is a token list consumed from
  the front (`peek` = head, `next` = head + tail).

  Error strings are modelled (approximately where a `{:?}` is involved); only `Ok`/`Err` is observable.
-/
set_option linter.unusedVariables false
namespace Deb822Verif.Rel.Lossy
open Deb822Verif Rel

/-- `lossy::Relation` (relations.rs:27-39) -/
structure Relation where
  name : Str
  archqual : Option Str
  architectures : Option (List Str)
  version : Option (VC × Version)
  profiles : List (List BuildProfile)
  deriving DecidableEq, Repr

abbrev R := Except String

/-- `eat_whitespace` (relations.rs:299-304, after fix 6884e80): WHITESPACE and NEWLINE -/
def eatWs : List Tok → List Tok
  | [] => []
  | t :: ts => if t.1 = .WHITESPACE ∨ t.1 = .NEWLINE then eatWs ts else t :: ts

theorem eatWs_len (ts) : (eatWs ts).length ≤ ts.length := by
  induction ts with
  | nil => simp [eatWs]
  | cons t ts ih => unfold eatWs; split <;> simp <;> omega

/-- relations.rs:305-308 -/
def readName : List Tok → R (Str × List Tok)
  | [] => .error "Expected package name"
  | t :: ts => if t.1 = .IDENT then .ok (t.2, ts) else .error "Expected package name"

/-- relations.rs:312-320 (the caller has already eaten whitespace) -/
def readArchqual : List Tok → R (Option Str × List Tok)
  | [] => .ok (none, [])
  | t :: ts =>
    if t.1 = .COLON then
      match ts with
      | [] => .error "Expected architecture qualifier"
      | q :: r => if q.1 = .IDENT then .ok (some q.2, r) else .error "Expected architecture qualifier"
    else .ok (none, t :: ts)

/-- relations.rs:327-335: `while let Some((EQUAL | L_ANGLE | R_ANGLE, t)) = peek { push; next }` -/
def constraintSpan : List Tok → Str × List Tok
  | [] => ([], [])
  | t :: ts =>
    if t.1 = .EQUAL ∨ t.1 = .L_ANGLE ∨ t.1 = .R_ANGLE then
      (t.2 ++ (constraintSpan ts).1, (constraintSpan ts).2)
    else ([], t :: ts)

/-- relations.rs:340-348 (after fix 23e6f67): IDENT and COLON texts up to (not including) R_PARENS,
    WHITESPACE or NEWLINE; any other token is an error; running out of tokens just ends the loop -/
def versionSpan : List Tok → R (Str × List Tok)
  | [] => .ok ([], [])
  | t :: ts =>
    if t.1 = .R_PARENS ∨ t.1 = .WHITESPACE ∨ t.1 = .NEWLINE then .ok ([], t :: ts)
    else if t.1 = .IDENT ∨ t.1 = .COLON then
      match versionSpan ts with
      | .ok (s, r) => .ok (t.2 ++ s, r)
      | .error e => .error e
    else .error s!"Unexpected token: {kindName t.1}"

/-- relations.rs:323-358 (the caller has already eaten whitespace) -/
def readVersion : List Tok → R (Option (VC × Version) × List Tok)
  | [] => .ok (none, [])
  | t :: ts =>
    if t.1 = .L_PARENS then
      match VC.parse (constraintSpan (eatWs ts)).1 with
      | none => .error s!"Invalid version constraint: {String.ofList (constraintSpan (eatWs ts)).1}"
      | some vc =>
        match versionSpan (eatWs (constraintSpan (eatWs ts)).2) with
        | .error e => .error e
        | .ok (vs, r) =>
          match Version.parse vs with
          | none => .error s!"Invalid version string: {String.ofList vs}"
          | some v =>
            match eatWs r with
            | [] => .error "Expected ')', found None"
            | c :: r2 => if c.1 = .R_PARENS then .ok (some (vc, v), r2) else .error "Expected ')'"
    else .ok (none, t :: ts)

/-- relations.rs:367-380 (after fixes 6884e80, f607859): the `loop` after `[` — a negated
    architecture is stored with its `!` -/
def archLoop : List Tok → R (List Str × List Tok)
  | [] => .error "Expected architecture name"
  | t :: ts =>
    if t.1 = .IDENT then
      match archLoop ts with
      | .ok (as, r) => .ok (t.2 :: as, r)
      | .error e => .error e
    else if t.1 = .NOT then
      match ts with
      | [] => .error "Expected architecture name"
      | n :: r =>
        if n.1 = .IDENT then
          match archLoop r with
          | .ok (as, r') => .ok (('!' :: n.2) :: as, r')
          | .error e => .error e
        else .error "Expected architecture name"
    else if t.1 = .WHITESPACE ∨ t.1 = .NEWLINE then archLoop ts
    else if t.1 = .R_BRACKET then .ok ([], ts)
    else .error "Expected architecture name"

/-- unfolding equation of `archLoop` on a non-empty list -/
theorem archLoop_cons (t : Tok) (ts : List Tok) :
    archLoop (t :: ts) =
      if t.1 = .IDENT then
        match archLoop ts with
        | .ok (as, r) => .ok (t.2 :: as, r)
        | .error e => .error e
      else if t.1 = .NOT then
        match ts with
        | [] => .error "Expected architecture name"
        | n :: r =>
          if n.1 = .IDENT then
            match archLoop r with
            | .ok (as, r') => .ok (('!' :: n.2) :: as, r')
            | .error e => .error e
          else .error "Expected architecture name"
      else if t.1 = .WHITESPACE ∨ t.1 = .NEWLINE then archLoop ts
      else if t.1 = .R_BRACKET then .ok ([], ts)
      else .error "Expected architecture name" := by
  cases ts <;> simp [archLoop]

/-- relations.rs:362-377 (the caller has already eaten whitespace) -/
def readArchs : List Tok → R (Option (List Str) × List Tok)
  | [] => .ok (none, [])
  | t :: ts =>
    if t.1 = .L_BRACKET then
      match archLoop ts with
      | .ok (as, r) => .ok (some as, r)
      | .error e => .error e
    else .ok (none, t :: ts)

/-- the `loop` of one restriction list (relations.rs:388-401, after fix 99661af): possibly negated
    terms separated by WHITESPACE / NEWLINE, up to and including `>` -/
def profTerms : List Tok → R (List BuildProfile × List Tok)
  | [] => .error "Expected profile name"
  | t :: ts =>
    if t.1 = .NOT then
      match ts with
      | [] => .error "Expected profile name"
      | n :: r =>
        if n.1 = .IDENT then
          match profTerms r with
          | .ok (ps, r') => .ok (.Disabled n.2 :: ps, r')
          | .error e => .error e
        else .error "Expected profile name"
    else if t.1 = .IDENT then
      match profTerms ts with
      | .ok (ps, r) => .ok (.Enabled t.2 :: ps, r)
      | .error e => .error e
    else if t.1 = .WHITESPACE ∨ t.1 = .NEWLINE then profTerms ts
    else if t.1 = .R_ANGLE then .ok ([], ts)
    else .error "Expected profile name"

/-- unfolding equation of `profTerms` on a non-empty list -/
theorem profTerms_cons (t : Tok) (ts : List Tok) :
    profTerms (t :: ts) =
      if t.1 = .NOT then
        match ts with
        | [] => .error "Expected profile name"
        | n :: r =>
          if n.1 = .IDENT then
            match profTerms r with
            | .ok (ps, r') => .ok (.Disabled n.2 :: ps, r')
            | .error e => .error e
          else .error "Expected profile name"
      else if t.1 = .IDENT then
        match profTerms ts with
        | .ok (ps, r) => .ok (.Enabled t.2 :: ps, r)
        | .error e => .error e
      else if t.1 = .WHITESPACE ∨ t.1 = .NEWLINE then profTerms ts
      else if t.1 = .R_ANGLE then .ok ([], ts)
      else .error "Expected profile name" := by
  cases ts <;> simp [profTerms]

theorem profTerms_len (ts) : ∀ {ps r}, profTerms ts = .ok (ps, r) → r.length < ts.length := by
  fun_induction profTerms ts <;> intro ps r hh <;> simp_all <;> try omega
  all_goals (first | (obtain ⟨_, rfl⟩ := hh; omega) | skip)

/-- `while let Some((L_ANGLE, _)) = tokens.peek()` (relations.rs:385-404): one list per `<…>`,
    then `eat_whitespace` -/
def profilesLoop (ts : List Tok) : R (List (List BuildProfile) × List Tok) :=
  match ts with
  | [] => .ok ([], [])
  | t :: r =>
    if t.1 = .L_ANGLE then
      match h : profTerms r with
      | .error e => .error e
      | .ok (p, r2) =>
        match profilesLoop (eatWs r2) with
        | .ok (more, r3) => .ok (p :: more, r3)
        | .error e => .error e
    else .ok ([], t :: r)
termination_by ts.length
decreasing_by
  have h1 := profTerms_len r h
  have h2 := eatWs_len r2
  simp; omega

/-- `<lossy::Relation as FromStr>::from_str` on the token list -/
def readRelationToks (ts : List Tok) : R Relation :=
  match readName ts with
  | .error e => .error e
  | .ok (name, r1) =>
    match readArchqual (eatWs r1) with
    | .error e => .error e
    | .ok (aq, r2) =>
      match readVersion (eatWs r2) with
      | .error e => .error e
      | .ok (ver, r3) =>
        match readArchs (eatWs r3) with
        | .error e => .error e
        | .ok (archs, r4) =>
          match profilesLoop (eatWs r4) with
          | .error e => .error e
          | .ok (profs, r5) =>
            match eatWs r5 with
            | [] => .ok ⟨name, aq, archs, ver, profs⟩
            | t :: _ => .error s!"Unexpected token: {kindName t.1}"

/-- `<lossy::Relation as FromStr>::from_str` -/
def readRelation (s : Str) : R Relation := readRelationToks (lex s)

/-- relations.rs:435-441: one `|`-separated piece of an entry -/
def readAlt (piece : Str) : R Relation :=
  if (Text.trim piece).isEmpty then .error "Empty relation" else readRelation (Text.trim piece)

/-- the body of the `for entry in s.split(',')` loop (relations.rs:430-443): `none` = `continue` -/
def readEntry (piece : Str) : R (Option (List Relation)) :=
  if (Text.trim piece).isEmpty then .ok none
  else
    match (Text.splitOn '|' (Text.trim piece)).mapM readAlt with
    | .ok rs => .ok (some rs)
    | .error e => .error e

/-- `<lossy::Relations as FromStr>::from_str` (relations.rs:423-448): split on `,` first -/
def readRelations (s : Str) : R (List (List Relation)) :=
  if s.isEmpty then .ok []
  else
    match (Text.splitOn ',' s).mapM readEntry with
    | .ok es => .ok (es.filterMap id)
    | .error e => .error e

/-! ### printing -/

/-- `Display for BuildProfile` (src/relations.rs:15-22) -/
def showProfile : BuildProfile → Str
  | .Enabled s => s
  | .Disabled s => '!' :: s

/-- `Display for lossy::Relation` (relations.rs:158-183; after fix 9fbb64b the terms of a restriction
    list are separated by one space) -/
def showRelation (r : Relation) : Str :=
  r.name
    ++ (match r.archqual with | some a => ':' :: a | none => [])
    ++ (match r.version with
        | some (c, v) => [' ', '('] ++ c.display ++ [' '] ++ v.display ++ [')']
        | none => [])
    ++ (match r.architectures with
        | some as => [' ', '['] ++ Text.join [' '] as ++ [']']
        | none => [])
    ++ (r.profiles.map fun g => [' ', '<'] ++ Text.join [' '] (g.map showProfile) ++ ['>']).flatten

/-- `Display for lossy::Relations` (relations.rs:275-290) -/
def showRelations (rs : List (List Relation)) : Str :=
  Text.join [',', ' '] (rs.map fun e => Text.join [' ', '|', ' '] (e.map showRelation))

end Deb822Verif.Rel.Lossy

namespace Deb822Verif.Rel
/-- everything the lossless read accessors say about one RELATION node, in the shape of
    `lossy::Relation`; `none` = `name()` or `version()` panics -/
def accRelation (r : RNode) : Option Lossy.Relation :=
  match name r, version r with
  | some n, .ok v => some ⟨n, archqual r, architectures r, v, profiles r⟩
  | _, _ => none

/-- `entries()` → `relations()` → accessors -/
def accEntries (root : RNode) : Option (List (List Lossy.Relation)) :=
  (entries root).mapM fun e => (relations e).mapM accRelation
end Deb822Verif.Rel
