import Deb822Verif.Model.DebLex
/-!
  Model of `parse()` in `src/lossless.rs:125-282`: one Lean function per Rust function/loop.
  The reversed token `Vec` + `pop()` is a token list consumed from the front; `builder` calls
  become the returned node lists.
-/
namespace Deb822Verif.Deb
open Node

def kindName : Kind → String
  | .KEY => "KEY" | .VALUE => "VALUE" | .COLON => "COLON" | .INDENT => "INDENT"
  | .NEWLINE => "NEWLINE" | .WHITESPACE => "WHITESPACE" | .COMMENT => "COMMENT" | .ERROR => "ERROR"
  | .ROOT => "ROOT" | .PARAGRAPH => "PARAGRAPH" | .ENTRY => "ENTRY" | .EMPTY_LINE => "EMPTY_LINE"

/-- result of a parser fragment: nodes appended to the current branch, errors pushed, tokens left -/
structure PR where
  nodes : List DNode
  errs : List String
  rest : List Tok

abbrev tk (t : Tok) : DNode := Node.tok t.1 t.2

/-- `skip_ws` (lossless.rs:250-254): bump WHITESPACE and COMMENT -/
def skipWs : List Tok → List DNode × List Tok
  | [] => ([], [])
  | t :: ts =>
    if t.1 = .WHITESPACE ∨ t.1 = .COMMENT then
      let r := skipWs ts
      (tk t :: r.1, r.2)
    else ([], t :: ts)

/-- lossless.rs:185-187: `while current == WHITESPACE || current == VALUE { bump }` -/
def bumpVals : List Tok → List DNode × List Tok
  | [] => ([], [])
  | t :: ts =>
    if t.1 = .WHITESPACE ∨ t.1 = .VALUE then
      let r := bumpVals ts
      (tk t :: r.1, r.2)
    else ([], t :: ts)

theorem skipWs_leaves (ts) : leavesList (skipWs ts).1 ++ (skipWs ts).2 = ts := by
  induction ts with
  | nil => simp [skipWs]
  | cons t ts ih => unfold skipWs; split <;> simp [ih]

theorem bumpVals_leaves (ts) : leavesList (bumpVals ts).1 ++ (bumpVals ts).2 = ts := by
  induction ts with
  | nil => simp [bumpVals]
  | cons t ts ih => unfold bumpVals; split <;> simp [ih]

theorem skipWs_len (ts) : (skipWs ts).2.length ≤ ts.length := by
  have := congrArg List.length (skipWs_leaves ts); simp at this; omega

theorem bumpVals_len (ts) : (bumpVals ts).2.length ≤ ts.length := by
  have := congrArg List.length (bumpVals_leaves ts); simp at this; omega

/-- the token after the value tokens: NEWLINE is bumped, anything else is wrapped in ERROR
    (lossless.rs:189-202) -/
def nlNodes (t : Tok) : List DNode :=
  if t.1 = .NEWLINE then [tk t] else [Node.node .ERROR [tk t]]
def nlErrs (t : Tok) : List String :=
  if t.1 = .NEWLINE then [] else [s!"expected newline, got {kindName t.1}"]

/-- the `loop { … }` of `parse_entry` (lossless.rs:184-209): value line, then INDENT-led lines -/
def entryLines (ts : List Tok) : PR :=
  match h : (bumpVals ts).2 with
  | [] => ⟨(bumpVals ts).1, [], []⟩
  | [t] => ⟨(bumpVals ts).1 ++ nlNodes t, nlErrs t, []⟩
  | t :: i :: r3 =>
    if i.1 = .INDENT then
      ⟨(bumpVals ts).1 ++ nlNodes t ++ [tk i] ++ (skipWs r3).1 ++ (entryLines (skipWs r3).2).nodes,
        nlErrs t ++ (entryLines (skipWs r3).2).errs, (entryLines (skipWs r3).2).rest⟩
    else ⟨(bumpVals ts).1 ++ nlNodes t, nlErrs t, i :: r3⟩
termination_by ts.length
decreasing_by
  all_goals
    have h1 := bumpVals_len ts
    have h3 := skipWs_len r3
    rw [h] at h1
    simp at h1 ⊢
    omega

/-- result of the leading-comment loop; `early` = the `None => return` arm was taken -/
structure CL where
  nodes : List DNode
  errs : List String
  rest : List Tok
  early : Bool

/-- lossless.rs:139-156 -/
def commentLoop : List Tok → CL
  | [] => ⟨[], [], [], false⟩
  | [t] => if t.1 = .COMMENT then ⟨[tk t], [], [], true⟩ else ⟨[], [], [t], false⟩
  | t :: n :: ts =>
    if t.1 = .COMMENT then
      let r := commentLoop ts
      ⟨tk t :: (nlNodes n ++ r.nodes), nlErrs n ++ r.errs, r.rest, r.early⟩
    else ⟨[], [], t :: n :: ts, false⟩

/-- lossless.rs:160-171 -/
def keyPart : List Tok → PR
  | [] => ⟨[Node.node .ERROR []], ["expected key"], []⟩
  | t :: ts =>
    if t.1 = .KEY then ⟨tk t :: (skipWs ts).1, [], (skipWs ts).2⟩
    else ⟨[Node.node .ERROR [tk t]], ["expected key"], ts⟩

def currentName : List Tok → String
  | [] => "None"
  | t :: _ => s!"Some({kindName t.1})"

/-- lossless.rs:172-183 (the message is formatted after the bump) -/
def colonPart : List Tok → PR
  | [] => ⟨[Node.node .ERROR []], ["expected ':', got None"], []⟩
  | t :: ts =>
    if t.1 = .COLON then ⟨tk t :: (skipWs ts).1, [], (skipWs ts).2⟩
    else ⟨[Node.node .ERROR [tk t]], [s!"expected ':', got {currentName ts}"], ts⟩

/-- the ENTRY node of `parse_entry` (lossless.rs:158-210) -/
def entryBody (ts : List Tok) : PR :=
  ⟨[Node.node .ENTRY ((keyPart ts).nodes ++ (colonPart (keyPart ts).rest).nodes
      ++ (entryLines (colonPart (keyPart ts).rest).rest).nodes)],
    (keyPart ts).errs ++ (colonPart (keyPart ts).rest).errs
      ++ (entryLines (colonPart (keyPart ts).rest).rest).errs,
    (entryLines (colonPart (keyPart ts).rest).rest).rest⟩

/-- `parse_entry` (lossless.rs:138-211). The nodes of the comment loop are siblings of the ENTRY. -/
def endsParagraph : List Tok → Bool
  | [] => true
  | t :: _ => t.1 == .NEWLINE

def parseEntry (ts : List Tok) : PR :=
  if (commentLoop ts).early || endsParagraph (commentLoop ts).rest then
    ⟨(commentLoop ts).nodes, (commentLoop ts).errs, (commentLoop ts).rest⟩
  else
    ⟨(commentLoop ts).nodes ++ (entryBody (commentLoop ts).rest).nodes,
      (commentLoop ts).errs ++ (entryBody (commentLoop ts).rest).errs,
      (entryBody (commentLoop ts).rest).rest⟩

theorem nlNodes_leaves (t : Tok) : leavesList (nlNodes t) = [t] := by
  unfold nlNodes; split <;> simp

theorem entryLines_leaves (ts) : leavesList (entryLines ts).nodes ++ (entryLines ts).rest = ts := by
  fun_induction entryLines ts
  next x h =>
    have := bumpVals_leaves x
    rw [h] at this; simpa using this
  next x t h =>
    have h1 := bumpVals_leaves x
    rw [h] at h1
    simp only [leavesList_append, List.append_assoc, nlNodes_leaves]
    simpa using h1
  next x t i r3 h hi ih =>
    have h1 := bumpVals_leaves x
    have h2 := skipWs_leaves r3
    rw [h] at h1
    simp only [leavesList_append, List.append_assoc, nlNodes_leaves]
    rw [ih, h2]
    simpa using h1
  next x t i r3 h hi =>
    have h1 := bumpVals_leaves x
    rw [h] at h1
    simp only [leavesList_append, List.append_assoc, nlNodes_leaves]
    simpa using h1

theorem commentLoop_leaves : ∀ ts, leavesList (commentLoop ts).nodes ++ (commentLoop ts).rest = ts
  | [] => by simp [commentLoop]
  | [t] => by simp only [commentLoop]; split <;> simp
  | t :: n :: ts => by
    simp only [commentLoop]; split
    · simp [nlNodes_leaves, commentLoop_leaves ts]
    · simp

theorem keyPart_leaves (ts) : leavesList (keyPart ts).nodes ++ (keyPart ts).rest = ts := by
  cases ts with
  | nil => simp [keyPart]
  | cons t ts => simp only [keyPart]; split <;> simp [skipWs_leaves]

theorem colonPart_leaves (ts) : leavesList (colonPart ts).nodes ++ (colonPart ts).rest = ts := by
  cases ts with
  | nil => simp [colonPart]
  | cons t ts => simp only [colonPart]; split <;> simp [skipWs_leaves]

theorem entryBody_leaves (ts) : leavesList (entryBody ts).nodes ++ (entryBody ts).rest = ts := by
  simp only [entryBody, leavesList_cons, leaves_node, leavesList_nil, List.append_nil,
    leavesList_append, List.append_assoc]
  rw [entryLines_leaves, colonPart_leaves, keyPart_leaves]

theorem parseEntry_leaves (ts) : leavesList (parseEntry ts).nodes ++ (parseEntry ts).rest = ts := by
  simp only [parseEntry]
  split
  · exact commentLoop_leaves ts
  · simp only [leavesList_append, List.append_assoc]
    rw [entryBody_leaves, commentLoop_leaves]

theorem len_of_leaves {nodes : List DNode} {rest ts : List Tok} (h : leavesList nodes ++ rest = ts) :
    rest.length ≤ ts.length := by
  have := congrArg List.length h; simp at this; omega

theorem keyPart_progress (t : Tok) (ts) : (keyPart (t :: ts)).rest.length < (t :: ts).length := by
  simp only [keyPart]; split
  · have := skipWs_len ts; simp; omega
  · simp

theorem commentLoop_progress (t : Tok) (ts) (hc : t.1 = .COMMENT) :
    (commentLoop (t :: ts)).rest.length < (t :: ts).length := by
  cases ts with
  | nil => simp only [commentLoop, if_pos hc]; simp
  | cons n ts =>
    simp only [commentLoop, if_pos hc]
    have := len_of_leaves (commentLoop_leaves ts)
    simp; omega

theorem commentLoop_id (t : Tok) (ts) (hc : t.1 ≠ .COMMENT) :
    commentLoop (t :: ts) = ⟨[], [], t :: ts, false⟩ := by
  cases ts with
  | nil => simp only [commentLoop, if_neg hc]
  | cons n ts => simp only [commentLoop, if_neg hc]

theorem entryBody_len (ts) : (entryBody ts).rest.length ≤ ts.length := len_of_leaves (entryBody_leaves ts)

theorem entryBody_progress (t : Tok) (ts) : (entryBody (t :: ts)).rest.length < (t :: ts).length := by
  have h1 := keyPart_progress t ts
  have h2 := len_of_leaves (colonPart_leaves (keyPart (t :: ts)).rest)
  have h3 := len_of_leaves (entryLines_leaves (colonPart (keyPart (t :: ts)).rest).rest)
  simp only [entryBody]
  omega

/-- `parse_entry` makes progress when called as `parse_paragraph` calls it: on a token list
    that does not start with NEWLINE -/
theorem parseEntry_progress (t : Tok) (ts : List Tok) (hn : t.1 ≠ .NEWLINE) :
    (parseEntry (t :: ts)).rest.length < (t :: ts).length := by
  by_cases hc : t.1 = .COMMENT
  · have h1 := commentLoop_progress t ts hc
    have h2 := entryBody_len (commentLoop (t :: ts)).rest
    simp only [parseEntry]; split <;> simp only [] <;> omega
  · have h2 := entryBody_progress t ts
    have he : endsParagraph (t :: ts) = false := by simp [endsParagraph, hn]
    simp only [parseEntry, commentLoop_id t ts hc, he]
    simpa using h2

/-- body of `parse_paragraph` (lossless.rs:215-217): entries until NEWLINE or end -/
def paraLoop (ts : List Tok) : PR :=
  match ts with
  | [] => ⟨[], [], []⟩
  | t :: ts' =>
    if h : t.1 = .NEWLINE then ⟨[], [], t :: ts'⟩
    else
      let e := parseEntry (t :: ts')
      let r := paraLoop e.rest
      ⟨e.nodes ++ r.nodes, e.errs ++ r.errs, r.rest⟩
termination_by ts.length
decreasing_by exact parseEntry_progress t ts' h

theorem paraLoop_leaves (ts) : leavesList (paraLoop ts).nodes ++ (paraLoop ts).rest = ts := by
  fun_induction paraLoop ts
  case case1 => simp
  case case2 => simp
  case case3 t ts' hn e r ih =>
    simp only [leavesList_append, List.append_assoc]
    rw [ih]; exact parseEntry_leaves _

/-- inner loop of `skip_ws_and_newlines` (lossless.rs:261-266): everything up to and including
    the next NEWLINE -/
def untilNl : List Tok → List DNode × List Tok
  | [] => ([], [])
  | t :: ts =>
    if t.1 = .NEWLINE then ([tk t], ts)
    else
      let r := untilNl ts
      (tk t :: r.1, r.2)

theorem untilNl_leaves (ts) : leavesList (untilNl ts).1 ++ (untilNl ts).2 = ts := by
  induction ts with
  | nil => simp [untilNl]
  | cons t ts ih => unfold untilNl; split <;> simp [ih]

theorem untilNl_progress (t : Tok) (ts) : (untilNl (t :: ts)).2.length ≤ ts.length := by
  unfold untilNl; split
  · simp
  · have := congrArg List.length (untilNl_leaves ts); simp at this; simp; omega

def isBlankStart (k : Kind) : Bool := k == .WHITESPACE || k == .COMMENT || k == .NEWLINE

/-- `skip_ws_and_newlines` (lossless.rs:255-269) -/
def skipWsNl (ts : List Tok) : List DNode × List Tok :=
  match ts with
  | [] => ([], [])
  | t :: ts' =>
    if isBlankStart t.1 then
      let b := untilNl (t :: ts')
      let r := skipWsNl b.2
      (Node.node .EMPTY_LINE b.1 :: r.1, r.2)
    else ([], t :: ts')
termination_by ts.length
decreasing_by
  have := untilNl_progress t ts'
  simp; omega

theorem skipWsNl_leaves (ts) : leavesList (skipWsNl ts).1 ++ (skipWsNl ts).2 = ts := by
  fun_induction skipWsNl ts
  case case1 => simp
  case case2 t ts' hb b r ih =>
    simp only [leavesList_cons, leaves_node, List.append_assoc]
    rw [ih]; exact untilNl_leaves _
  case case3 => simp

/-- what is left after `skip_ws_and_newlines` does not start a blank line -/
theorem skipWsNl_head (ts) : ∀ t r, (skipWsNl ts).2 = t :: r → isBlankStart t.1 = false := by
  fun_induction skipWsNl ts
  case case1 => simp
  case case2 t ts' hb b r ih => exact ih
  case case3 t ts' hb =>
    intro t' r' h; simp at h; rw [← h.1]; simpa using hb

theorem paraLoop_progress (t : Tok) (ts) (h : t.1 ≠ .NEWLINE) :
    (paraLoop (t :: ts)).rest.length < (t :: ts).length := by
  have h1 := parseEntry_progress t ts h
  have h2 := congrArg List.length (paraLoop_leaves (parseEntry (t :: ts)).rest)
  unfold paraLoop
  simp only [h, ↓reduceDIte]
  simp only [List.length_append] at h2
  omega

/-- the `while self.current().is_some()` loop of `Parser::parse` (lossless.rs:224-229) -/
def rootLoop (ts : List Tok) : PR :=
  match ts with
  | [] => ⟨[], [], []⟩
  | t0 :: ts0 =>
    let s := skipWsNl (t0 :: ts0)
    match h : s.2 with
    | [] => ⟨s.1, [], []⟩
    | t :: r =>
      let p := paraLoop (t :: r)
      let q := rootLoop p.rest
      ⟨s.1 ++ [Node.node .PARAGRAPH p.nodes] ++ q.nodes, p.errs ++ q.errs, q.rest⟩
termination_by ts.length
decreasing_by
  have hb := skipWsNl_head (t0 :: ts0) t r h
  have hn : t.1 ≠ .NEWLINE := by
    intro e; rw [e] at hb; simp [isBlankStart] at hb
  have h1 := paraLoop_progress t r hn
  have h2 := congrArg List.length (skipWsNl_leaves (t0 :: ts0))
  simp only [s] at h
  rw [h] at h2
  simp only [List.length_append, List.length_cons] at h2 h1 ⊢
  omega

theorem rootLoop_leaves (ts) : leavesList (rootLoop ts).nodes ++ (rootLoop ts).rest = ts := by
  fun_induction rootLoop ts
  case case1 => simp
  case case2 t0 ts0 s h =>
    have := skipWsNl_leaves (t0 :: ts0)
    simp only [s] at h
    rw [h] at this; simpa using this
  case case3 t0 ts0 s t r h p q ih =>
    have h1 := skipWsNl_leaves (t0 :: ts0)
    have h2 := paraLoop_leaves (t :: r)
    simp only [s] at h
    rw [h] at h1
    simp only [leavesList_append, leavesList_cons, leaves_node, leavesList_nil, List.append_nil,
      List.append_assoc]
    rw [ih, h2]; exact h1

theorem rootLoop_rest (ts) : (rootLoop ts).rest = [] := by
  fun_induction rootLoop ts
  case case1 => rfl
  case case2 => rfl
  case case3 t0 ts0 s t r h p q ih => exact ih

/-- `parse(text)`: green tree and errors. (The trailing `skip_ws_and_newlines` at lossless.rs:231
    is a no-op: the loop only exits when no token is left.) -/
structure Parsed where
  tree : DNode
  errors : List String

def parseTokens (ts : List Tok) : Parsed :=
  let r := rootLoop ts
  ⟨Node.node .ROOT r.nodes, r.errs⟩

def parse (s : Str) : Parsed := parseTokens (lex s)

/-- `Deb822::from_str_relaxed` -/
def readRelaxed (s : Str) : DNode × List String := ((parse s).tree, (parse s).errors)

/-- `Deb822::from_str`: `Ok(root)` iff no errors -/
def readStrict (s : Str) : Except (List String) DNode :=
  if (parse s).errors.isEmpty then .ok (parse s).tree else .error (parse s).errors

end Deb822Verif.Deb
