import Deb822Verif.Model.Tree
/-!
  Model of `debian-control/src/relations.rs`: `SyntaxKind` (lines 80-113) and the character-level
  lexer `Lexer::next_token` / `lex()` (lines 124-255), branch for branch.
  The lexer has no state besides the remaining input (`Peekable<Chars>`).
-/
namespace Deb822Verif.Rel

/-- `SyntaxKind`, same constructor names as Rust prints with `{:?}` -/
inductive Kind
  | IDENT | COLON | PIPE | COMMA | L_PARENS | R_PARENS | L_BRACKET | R_BRACKET | NOT
  | L_ANGLE | R_ANGLE | EQUAL | WHITESPACE | NEWLINE | DOLLAR | L_CURLY | R_CURLY | ERROR
  | ROOT | ENTRY | RELATION | ARCHQUAL | VERSION | CONSTRAINT | ARCHITECTURES | PROFILES | SUBSTVAR
  deriving DecidableEq, Repr, Inhabited

abbrev Tok := Kind × Str
abbrev RNode := Node Kind

/-- `Lexer::is_whitespace` (relations.rs:137-139) -/
def isWs (c : Char) : Bool := c == ' ' || c == '\t' || c == '\r'

/-- `char::is_ascii_alphanumeric` -/
def isAsciiAlnum (c : Char) : Bool :=
  (48 ≤ c.toNat && c.toNat ≤ 57) || (65 ≤ c.toNat && c.toNat ≤ 90) || (97 ≤ c.toNat && c.toNat ≤ 122)

/-- `Lexer::is_valid_ident_char` (relations.rs:141-143) -/
def isIdentChar (c : Char) : Bool :=
  isAsciiAlnum c || c == '-' || c == '.' || c == '+' || c == '~'

/-- the fourteen single-character arms plus `'\n'` of `next_token` (relations.rs:163-222) -/
def punct (c : Char) : Option Kind :=
  if c == ':' then some .COLON
  else if c == '|' then some .PIPE
  else if c == ',' then some .COMMA
  else if c == '(' then some .L_PARENS
  else if c == ')' then some .R_PARENS
  else if c == '[' then some .L_BRACKET
  else if c == ']' then some .R_BRACKET
  else if c == '!' then some .NOT
  else if c == '$' then some .DOLLAR
  else if c == '{' then some .L_CURLY
  else if c == '}' then some .R_CURLY
  else if c == '<' then some .L_ANGLE
  else if c == '>' then some .R_ANGLE
  else if c == '=' then some .EQUAL
  else if c == '\n' then some .NEWLINE
  else none

/-- one call of `next_token` on the non-empty input `c :: rest` (relations.rs:161-240):
    the token and the remaining input. `read_while p` starts at the peeked `c`, which satisfies `p`. -/
def lexStep (c : Char) (rest : Str) : Tok × Str :=
  match punct c with
  | some k => ((k, [c]), rest)
  | none =>
    if isWs c then ((.WHITESPACE, c :: rest.takeWhile isWs), rest.dropWhile isWs)
    else if isIdentChar c then ((.IDENT, c :: rest.takeWhile isIdentChar), rest.dropWhile isIdentChar)
    else ((.ERROR, [c]), rest)

theorem length_dropWhile_le {α} (p : α → Bool) (l : List α) : (l.dropWhile p).length ≤ l.length :=
  (List.dropWhile_sublist p).length_le

theorem lexStep_len (c rest) : (lexStep c rest).2.length ≤ rest.length := by
  unfold lexStep
  (repeat' split) <;> simp [length_dropWhile_le]

/-- `lex()` (relations.rs:252-255): collect `next_token` until the input is exhausted -/
def lex (input : Str) : List Tok :=
  match input with
  | [] => []
  | c :: rest => (lexStep c rest).1 :: lex (lexStep c rest).2
termination_by input.length
decreasing_by
  have := lexStep_len c rest
  simp; omega

end Deb822Verif.Rel
