import Deb822Verif.Model.RelLex
/-!
  Model of `parse(text, allow_substvar)` in `debian-control/src/lossless/relations.rs:74-384`:
  one Lean function per Rust function / loop, branch for branch.

  The reversed token `Vec` + `pop()` is a token list consumed from the front. Every parser fragment
  returns a `PR`: the nodes it appended to the *current* builder branch, the errors it pushed, and
  the tokens left. `start_node(k) … finish_node()` is `PR.wrap k`; sequencing is `PR.andThen`.

  Line numbers are those of commit afa5e0c; fix 3b0cae0 (epoch versions) inserted nine lines at 221 and
  fix 4ba50b0 (colons in the upstream part: the `if` became a `while`) two more, so everything after
  `versionTok` is eleven lines further down in the current file.

  Error messages are modelled as strings (exact, except the `{:?}` of a `(kind, text)` pair in
  `parse_entry`, whose text is not Rust-escaped here); only their number is observable.
-/
set_option linter.unusedVariables false
namespace Deb822Verif.Rel
open Node

/-- `{:?}` of a `SyntaxKind` -/
def kindName : Kind → String
  | .IDENT => "IDENT" | .COLON => "COLON" | .PIPE => "PIPE" | .COMMA => "COMMA"
  | .L_PARENS => "L_PARENS" | .R_PARENS => "R_PARENS" | .L_BRACKET => "L_BRACKET"
  | .R_BRACKET => "R_BRACKET" | .NOT => "NOT" | .L_ANGLE => "L_ANGLE" | .R_ANGLE => "R_ANGLE"
  | .EQUAL => "EQUAL" | .WHITESPACE => "WHITESPACE" | .NEWLINE => "NEWLINE" | .DOLLAR => "DOLLAR"
  | .L_CURLY => "L_CURLY" | .R_CURLY => "R_CURLY" | .ERROR => "ERROR"
  | .ROOT => "ROOT" | .ENTRY => "ENTRY" | .RELATION => "RELATION" | .ARCHQUAL => "ARCHQUAL"
  | .VERSION => "VERSION" | .CONSTRAINT => "CONSTRAINT" | .ARCHITECTURES => "ARCHITECTURES"
  | .PROFILES => "PROFILES" | .SUBSTVAR => "SUBSTVAR"

/-- `{:?}` of an `Option<SyntaxKind>` -/
def optName : Option Kind → String
  | none => "None"
  | some k => s!"Some({kindName k})"

/-- result of a parser fragment: nodes appended to the current branch, errors pushed, tokens left -/
structure PR where
  nodes : List RNode
  errs : List String
  rest : List Tok

abbrev tk (t : Tok) : RNode := Node.tok t.1 t.2

namespace PR
/-- nothing happens -/
def nil (ts : List Tok) : PR := ⟨[], [], ts⟩
/-- run `f` on what `a` left -/
def andThen (a : PR) (f : List Tok → PR) : PR :=
  ⟨a.nodes ++ (f a.rest).nodes, a.errs ++ (f a.rest).errs, (f a.rest).rest⟩
/-- `start_node(k)` before, `finish_node()` after -/
def wrap (k : Kind) (a : PR) : PR := ⟨[Node.node k a.nodes], a.errs, a.rest⟩
/-- the fragment consumed a prefix of `ts` and put exactly those tokens, in order, into its nodes -/
def Ok (p : PR) (ts : List Tok) : Prop := leavesList p.nodes ++ p.rest = ts

theorem ok_nil (ts) : (nil ts).Ok ts := by simp [Ok, nil]
theorem ok_andThen {a : PR} {f : List Tok → PR} {ts} (ha : a.Ok ts) (hf : ∀ x, (f x).Ok x) :
    (a.andThen f).Ok ts := by
  have h := hf a.rest
  simp only [Ok, andThen, leavesList_append, List.append_assoc] at *
  rw [h, ha]
theorem ok_wrap {a : PR} {ts} (k : Kind) (ha : a.Ok ts) : (a.wrap k).Ok ts := by
  simpa [Ok, wrap] using ha
theorem Ok.len {p : PR} {ts} (h : p.Ok ts) : p.rest.length ≤ ts.length := by
  have := congrArg List.length h; simp at this; omega
end PR
open PR

def isWsKind (k : Kind) : Bool := k == .WHITESPACE || k == .NEWLINE

/-- `current()` (relations.rs:349-351) -/
def cur : List Tok → Option Kind
  | [] => none
  | t :: _ => some t.1

/-- `peek_past_ws()` (relations.rs:358-369) -/
def peekPastWs : List Tok → Option Kind
  | [] => none
  | t :: ts => if isWsKind t.1 then peekPastWs ts else some t.1

/-- `skip_ws()` (relations.rs:352-356): bump WHITESPACE and NEWLINE -/
def skipWs : List Tok → PR
  | [] => ⟨[], [], []⟩
  | t :: ts =>
    if isWsKind t.1 then ⟨tk t :: (skipWs ts).nodes, [], (skipWs ts).rest⟩
    else ⟨[], [], t :: ts⟩

/-- `bump()` (relations.rs:344-347). On an empty token list the Rust code would panic
    (`pop().unwrap()`); every call site is guarded (`peek_some` below), the `[]` arm is never taken. -/
def bump1 : List Tok → PR
  | [] => ⟨[], [], []⟩
  | t :: ts => ⟨[tk t], [], ts⟩

/-- `error(msg)` (relations.rs:160-167): push the message, wrap the current token (if any) in ERROR -/
def errorTok (msg : String) : List Tok → PR
  | [] => ⟨[Node.node .ERROR []], [msg], []⟩
  | t :: ts => ⟨[Node.node .ERROR [tk t]], [msg], ts⟩

/-- `if self.current() == Some(k) { self.bump() } else { self.error(msg) }` -/
def expect (k : Kind) (msg : String) (ts : List Tok) : PR :=
  if cur ts = some k then bump1 ts else errorTok msg ts

theorem skipWs_ok (ts) : (skipWs ts).Ok ts := by
  induction ts with
  | nil => simp [skipWs, Ok]
  | cons t ts ih =>
    simp only [Ok] at ih
    unfold skipWs; split <;> simp [Ok, ih]

theorem bump1_ok (ts) : (bump1 ts).Ok ts := by
  cases ts <;> simp [bump1, Ok]

theorem errorTok_ok (msg ts) : (errorTok msg ts).Ok ts := by
  cases ts <;> simp [errorTok, Ok]

theorem expect_ok (k msg ts) : (expect k msg ts).Ok ts := by
  unfold expect; split
  · exact bump1_ok ts
  · exact errorTok_ok msg ts

/-- `peek_past_ws()` is `current()` after `skip_ws()` -/
theorem peek_eq_cur_skip (ts) : peekPastWs ts = cur (skipWs ts).rest := by
  induction ts with
  | nil => simp [peekPastWs, skipWs, cur]
  | cons t ts ih => unfold peekPastWs skipWs; split <;> simp [ih, cur]

/-- every `skip_ws(); bump()` that follows a successful `peek_past_ws()` finds a token of the
    peeked kind: the `unwrap()` in `bump` cannot fail there -/
theorem peek_some {ts k} (h : peekPastWs ts = some k) :
    ∃ t r, (skipWs ts).rest = t :: r ∧ t.1 = k := by
  rw [peek_eq_cur_skip] at h
  cases hr : (skipWs ts).rest with
  | nil => rw [hr] at h; simp [cur] at h
  | cons t r => rw [hr] at h; simp [cur] at h; exact ⟨t, r, rfl, h⟩

/-! ### `parse_substvar` (relations.rs:89-116) -/

/-- the `loop` of `parse_substvar` (relations.rs:97-109, after fix F-C09-1: `None => break`) -/
def substLoop : List Tok → PR
  | [] => ⟨[], [], []⟩
  | t :: ts =>
    if t.1 = .IDENT ∨ t.1 = .COLON then ⟨tk t :: (substLoop ts).nodes, (substLoop ts).errs, (substLoop ts).rest⟩
    else if t.1 = .R_CURLY then ⟨[], [], t :: ts⟩
    else ⟨Node.node .ERROR [tk t] :: (substLoop ts).nodes,
      s!"expected identifier or : but got {optName (some t.1)}" :: (substLoop ts).errs, (substLoop ts).rest⟩

theorem substLoop_ok (ts) : (substLoop ts).Ok ts := by
  induction ts with
  | nil => simp [substLoop, Ok]
  | cons t ts ih =>
    simp only [Ok] at ih
    unfold substLoop; (repeat' split) <;> simp [Ok, ih]

/-- relations.rs:92-96 -/
def substOpen (ts : List Tok) : PR :=
  if cur ts ≠ some .L_CURLY then errorTok s!"expected \{ but got {optName (cur ts)}" ts else bump1 ts

/-- relations.rs:110-114 -/
def substClose (ts : List Tok) : PR :=
  if cur ts ≠ some .R_CURLY then errorTok s!"expected } but got {optName (cur ts)}" ts else bump1 ts

/-- `parse_substvar`; only called with `current() == Some(DOLLAR)` -/
def parseSubstvar (ts : List Tok) : PR :=
  ((bump1 ts).andThen fun ts => (substOpen ts).andThen fun ts =>
    (substLoop ts).andThen substClose).wrap .SUBSTVAR

theorem substOpen_ok (ts) : (substOpen ts).Ok ts := by
  unfold substOpen; split
  · exact errorTok_ok _ ts
  · exact bump1_ok ts

theorem substClose_ok (ts) : (substClose ts).Ok ts := by
  unfold substClose; split
  · exact errorTok_ok _ ts
  · exact bump1_ok ts

theorem parseSubstvar_ok (ts) : (parseSubstvar ts).Ok ts :=
  ok_wrap _ (ok_andThen (bump1_ok _) fun _ => ok_andThen (substOpen_ok _) fun _ =>
    ok_andThen (substLoop_ok _) substClose_ok)

/-! ### `parse_relation` (relations.rs:169-297) -/

/-- relations.rs:176-203: the `match self.peek_past_ws()` after the package name -/
def archqualPart (ts : List Tok) : PR :=
  if peekPastWs ts = some .COLON then
    (skipWs ts).andThen fun ts =>
      (((bump1 ts).andThen fun ts => (skipWs ts).andThen
          (expect .IDENT "Expected architecture name")).wrap .ARCHQUAL).andThen skipWs
  else if peekPastWs ts = some .PIPE ∨ peekPastWs ts = some .COMMA then PR.nil ts
  else if peekPastWs ts = none ∨ peekPastWs ts = some .L_PARENS ∨ peekPastWs ts = some .L_BRACKET
      ∨ peekPastWs ts = some .L_ANGLE then skipWs ts
  else
    (skipWs ts).andThen
      (errorTok s!"Expected ':' or '|' or '[' or '<' or ',' but got {optName (peekPastWs ts)}")

theorem archqualPart_ok (ts) : (archqualPart ts).Ok ts := by
  unfold archqualPart; (repeat' split)
  · exact ok_andThen (skipWs_ok _) fun _ =>
      ok_andThen (ok_wrap _ (ok_andThen (bump1_ok _) fun _ => ok_andThen (skipWs_ok _) (expect_ok _ _)))
        skipWs_ok
  · exact ok_nil ts
  · exact skipWs_ok ts
  · exact ok_andThen (skipWs_ok _) (errorTok_ok _)

/-- relations.rs:212-217: `while current is L_ANGLE | R_ANGLE | EQUAL { bump }` -/
def constraintLoop : List Tok → PR
  | [] => ⟨[], [], []⟩
  | t :: ts =>
    if t.1 = .L_ANGLE ∨ t.1 = .R_ANGLE ∨ t.1 = .EQUAL then
      ⟨tk t :: (constraintLoop ts).nodes, [], (constraintLoop ts).rest⟩
    else ⟨[], [], t :: ts⟩

theorem constraintLoop_ok (ts) : (constraintLoop ts).Ok ts := by
  induction ts with
  | nil => simp [constraintLoop, Ok]
  | cons t ts ih =>
    simp only [Ok] at ih
    unfold constraintLoop; split <;> simp [Ok, ih]

/-- relations.rs:224-231 (after fix 4ba50b0, colons in the upstream part): the loop
    `while current() == Some(COLON) { bump(); if current() == Some(IDENT) { bump() } else { error("Expected version") } }`
    — two tokens per round (the COLON and whatever `bump`/`error` takes after it), so the recursion is
    structural on the token list. `[c]` with a COLON: `error` on an empty token list leaves an empty
    ERROR node and the loop ends. -/
def versionLoop : List Tok → PR
  | [] => ⟨[], [], []⟩
  | [c] =>
    if c.1 = .COLON then ⟨[tk c, Node.node .ERROR []], ["Expected version"], []⟩ else ⟨[], [], [c]⟩
  | c :: t :: ts =>
    if c.1 = .COLON then
      if t.1 = .IDENT then
        ⟨tk c :: tk t :: (versionLoop ts).nodes, (versionLoop ts).errs, (versionLoop ts).rest⟩
      else
        ⟨tk c :: Node.node .ERROR [tk t] :: (versionLoop ts).nodes,
          "Expected version" :: (versionLoop ts).errs, (versionLoop ts).rest⟩
    else ⟨[], [], c :: t :: ts⟩

theorem versionLoop_ok (ts) : (versionLoop ts).Ok ts := by
  fun_induction versionLoop ts <;> simp only [Ok] at * <;> simp <;> assumption

/-- relations.rs:219-235 (after fixes 3b0cae0, 4ba50b0): the version is `IDENT (COLON IDENT)*` — one
    IDENT, or with an epoch `IDENT COLON IDENT`, and further `COLON IDENT` for every colon of the
    upstream part; a COLON not followed by IDENT is an error -/
def versionTok (ts : List Tok) : PR :=
  if cur ts = some .IDENT then (bump1 ts).andThen versionLoop
  else errorTok "Expected version" ts

theorem versionTok_ok (ts) : (versionTok ts).Ok ts := by
  unfold versionTok; split
  · exact ok_andThen (bump1_ok _) versionLoop_ok
  · exact errorTok_ok _ ts

/-- relations.rs:205-247 (after fix 23e6f67: `skip_ws()` before the closing `)`) -/
def versionPart (ts : List Tok) : PR :=
  if peekPastWs ts = some .L_PARENS then
    (skipWs ts).andThen fun ts =>
      ((bump1 ts).andThen fun ts => (skipWs ts).andThen fun ts =>
        ((constraintLoop ts).wrap .CONSTRAINT).andThen fun ts => (skipWs ts).andThen fun ts =>
        (versionTok ts).andThen fun ts => (skipWs ts).andThen (expect .R_PARENS "Expected ')'")).wrap .VERSION
  else PR.nil ts

theorem versionPart_ok (ts) : (versionPart ts).Ok ts := by
  unfold versionPart; split
  · exact ok_andThen (skipWs_ok _) fun _ => ok_wrap _ (ok_andThen (bump1_ok _) fun _ =>
      ok_andThen (skipWs_ok _) fun _ => ok_andThen (ok_wrap _ (constraintLoop_ok _)) fun _ =>
      ok_andThen (skipWs_ok _) fun _ => ok_andThen (versionTok_ok _) fun _ =>
      ok_andThen (skipWs_ok _) (expect_ok _ _))
  · exact ok_nil ts

def archMsg : String := "Expected architecture name or '!' or ']'"

/-- the `loop` of the architectures block (relations.rs:242-263, after fix F-C09-2:
    `None => { error; break }`) -/
def archLoop (ts : List Tok) : PR :=
  match h : (skipWs ts).rest with
  | [] => ⟨(skipWs ts).nodes ++ [Node.node .ERROR []], [archMsg], []⟩
  | t :: r =>
    if t.1 = .NOT ∨ t.1 = .IDENT then
      ⟨(skipWs ts).nodes ++ tk t :: (archLoop r).nodes, (archLoop r).errs, (archLoop r).rest⟩
    else if t.1 = .R_BRACKET then ⟨(skipWs ts).nodes ++ [tk t], [], r⟩
    else
      ⟨(skipWs ts).nodes ++ Node.node .ERROR [tk t] :: (archLoop r).nodes,
        archMsg :: (archLoop r).errs, (archLoop r).rest⟩
termination_by ts.length
decreasing_by
  all_goals
    have h1 := (skipWs_ok ts).len
    rw [h] at h1
    simp at h1 ⊢
    omega

theorem archLoop_ok (ts) : (archLoop ts).Ok ts := by
  fun_induction archLoop ts
  next x h =>
    have h1 := skipWs_ok x
    simp only [Ok] at h1 ⊢
    rw [h] at h1; simpa using h1
  next x t r h hk ih =>
    have h1 := skipWs_ok x
    simp only [Ok] at h1 ih ⊢
    rw [h] at h1
    simp only [leavesList_append, leavesList_cons, leaves_tok, List.append_assoc]
    simpa [ih] using h1
  next x t r h hk hb =>
    have h1 := skipWs_ok x
    simp only [Ok] at h1 ⊢
    rw [h] at h1
    simpa using h1
  next x t r h hk hb ih =>
    have h1 := skipWs_ok x
    simp only [Ok] at h1 ih ⊢
    rw [h] at h1
    simp only [leavesList_append, leavesList_cons, leaves_node, leaves_tok, leavesList_nil,
      List.append_assoc]
    simpa [ih] using h1

/-- relations.rs:238-265 -/
def archPart (ts : List Tok) : PR :=
  if peekPastWs ts = some .L_BRACKET then
    (skipWs ts).andThen fun ts => ((bump1 ts).andThen archLoop).wrap .ARCHITECTURES
  else PR.nil ts

theorem archPart_ok (ts) : (archPart ts).Ok ts := by
  unfold archPart; split
  · exact ok_andThen (skipWs_ok _) fun _ => ok_wrap _ (ok_andThen (bump1_ok _) archLoop_ok)
  · exact ok_nil ts

/-- relations.rs:277-284: after `NOT`: `bump(); skip_ws(); IDENT or error("Expected profile")`
    (the bump of the `!` itself is done by the caller) -/
def notTail (ts : List Tok) : PR := (skipWs ts).andThen (expect .IDENT "Expected profile")

theorem notTail_ok (ts) : (notTail ts).Ok ts := ok_andThen (skipWs_ok _) (expect_ok _ _)

/-- the inner `loop` of a profiles block (relations.rs:272-295) -/
def profLoop (ts : List Tok) : PR :=
  match h : (skipWs ts).rest with
  | [] => ⟨(skipWs ts).nodes ++ [Node.node .ERROR []], ["Expected profile or '>'"], []⟩
  | t :: r =>
    if t.1 = .IDENT then
      ⟨(skipWs ts).nodes ++ tk t :: (profLoop r).nodes, (profLoop r).errs, (profLoop r).rest⟩
    else if t.1 = .NOT then
      ⟨(skipWs ts).nodes ++ tk t :: ((notTail r).nodes ++ (profLoop (notTail r).rest).nodes),
        (notTail r).errs ++ (profLoop (notTail r).rest).errs, (profLoop (notTail r).rest).rest⟩
    else if t.1 = .R_ANGLE then ⟨(skipWs ts).nodes ++ [tk t], [], r⟩
    else
      ⟨(skipWs ts).nodes ++ Node.node .ERROR [tk t] :: (profLoop r).nodes,
        "Expected profile or '!' or '>'" :: (profLoop r).errs, (profLoop r).rest⟩
termination_by ts.length
decreasing_by
  all_goals
    have h1 := (skipWs_ok ts).len
    have h2 := (notTail_ok r).len
    rw [h] at h1
    simp at h1 ⊢
    omega

theorem profLoop_ok (ts) : (profLoop ts).Ok ts := by
  fun_induction profLoop ts
  next x h =>
    have h1 := skipWs_ok x
    simp only [Ok] at h1 ⊢
    rw [h] at h1; simpa using h1
  next x t r h hk ih =>
    have h1 := skipWs_ok x
    simp only [Ok] at h1 ih ⊢
    rw [h] at h1
    simp only [leavesList_append, leavesList_cons, leaves_tok, List.append_assoc]
    simpa [ih] using h1
  next x t r h hk hn ih =>
    have h1 := skipWs_ok x
    have h2 := notTail_ok r
    simp only [Ok] at h1 h2 ih ⊢
    rw [h] at h1
    simp only [leavesList_append, leavesList_cons, leaves_tok, List.append_assoc]
    rw [ih, h2]; simpa using h1
  next x t r h hk hn hb =>
    have h1 := skipWs_ok x
    simp only [Ok] at h1 ⊢
    rw [h] at h1
    simpa using h1
  next x t r h hk hn hb ih =>
    have h1 := skipWs_ok x
    simp only [Ok] at h1 ih ⊢
    rw [h] at h1
    simp only [leavesList_append, leavesList_cons, leaves_node, leaves_tok, leavesList_nil,
      List.append_assoc]
    simpa [ih] using h1

/-- one profiles block: `skip_ws(); start_node(PROFILES); bump(); loop {…}; finish_node()`
    (relations.rs:268-296) -/
def profBlock (ts : List Tok) : PR :=
  (skipWs ts).andThen fun ts => ((bump1 ts).andThen profLoop).wrap .PROFILES

theorem profBlock_ok (ts) : (profBlock ts).Ok ts :=
  ok_andThen (skipWs_ok _) fun _ => ok_wrap _ (ok_andThen (bump1_ok _) profLoop_ok)

theorem profBlock_progress {ts k} (h : peekPastWs ts = some k) :
    (profBlock ts).rest.length < ts.length := by
  obtain ⟨t, r, hr, _⟩ := peek_some h
  have h1 := (skipWs_ok ts).len
  have h2 := (profLoop_ok r).len
  rw [hr] at h1
  simp only [profBlock, PR.andThen, PR.wrap, hr, bump1]
  simp at h1 ⊢
  omega

/-- `while self.peek_past_ws() == Some(L_ANGLE) { … }` (relations.rs:267-296) -/
def profilesLoop (ts : List Tok) : PR :=
  if h : peekPastWs ts = some .L_ANGLE then
    ⟨(profBlock ts).nodes ++ (profilesLoop (profBlock ts).rest).nodes,
      (profBlock ts).errs ++ (profilesLoop (profBlock ts).rest).errs,
      (profilesLoop (profBlock ts).rest).rest⟩
  else PR.nil ts
termination_by ts.length
decreasing_by exact profBlock_progress h

theorem profilesLoop_ok (ts) : (profilesLoop ts).Ok ts := by
  fun_induction profilesLoop ts
  next x h ih =>
    have h1 := profBlock_ok x
    simp only [Ok] at h1 ih ⊢
    simp only [leavesList_append, List.append_assoc]
    rw [ih, h1]
  next x h => exact ok_nil x

/-- `parse_relation` -/
def parseRelation (ts : List Tok) : PR :=
  ((expect .IDENT "Expected package name" ts).andThen fun ts => (archqualPart ts).andThen fun ts =>
    (versionPart ts).andThen fun ts => (archPart ts).andThen profilesLoop).wrap .RELATION

theorem parseRelation_ok (ts) : (parseRelation ts).Ok ts :=
  ok_wrap _ (ok_andThen (expect_ok _ _ _) fun _ => ok_andThen (archqualPart_ok _) fun _ =>
    ok_andThen (versionPart_ok _) fun _ => ok_andThen (archPart_ok _) profilesLoop_ok)

/-! ### `parse_entry` (relations.rs:118-158) -/

/-- the `Some(PIPE)` arm (relations.rs:127-131): `skip_ws(); bump(); skip_ws()` -/
def pipeSep (ts : List Tok) : PR :=
  (skipWs ts).andThen fun ts => (bump1 ts).andThen skipWs

/-- relations.rs:140-152: `match self.tokens.pop()` inside the ERROR node -/
def popErr : List Tok → PR
  | [] => ⟨[Node.node .ERROR []], ["Expected comma or pipe, got end of file"], []⟩
  | t :: ts =>
    ⟨[Node.node .ERROR [tk t]],
      [s!"Expected comma or pipe, not ({kindName t.1}, \"{String.ofList t.2}\")"], ts⟩

/-- the `_` arm (relations.rs:137-153): `skip_ws()`, then one token wrapped in ERROR -/
def junkSep (ts : List Tok) : PR := (skipWs ts).andThen popErr

theorem pipeSep_ok (ts) : (pipeSep ts).Ok ts :=
  ok_andThen (skipWs_ok _) fun _ => ok_andThen (bump1_ok _) skipWs_ok

theorem popErr_ok (ts) : (popErr ts).Ok ts := by
  cases ts <;> simp [popErr, Ok]

theorem junkSep_ok (ts) : (junkSep ts).Ok ts := ok_andThen (skipWs_ok _) popErr_ok

theorem pipeSep_progress {ts k} (h : peekPastWs ts = some k) :
    (pipeSep ts).rest.length < ts.length := by
  obtain ⟨t, r, hr, _⟩ := peek_some h
  have h1 := (skipWs_ok ts).len
  have h2 := (skipWs_ok r).len
  rw [hr] at h1
  simp only [pipeSep, PR.andThen, hr, bump1]
  simp at h1 ⊢
  omega

theorem junkSep_progress {ts k} (h : peekPastWs ts = some k) :
    (junkSep ts).rest.length < ts.length := by
  obtain ⟨t, r, hr, _⟩ := peek_some h
  have h1 := (skipWs_ok ts).len
  rw [hr] at h1
  simp only [junkSep, PR.andThen, hr, popErr]
  simp at h1 ⊢
  omega

/-- the `loop` of `parse_entry` (relations.rs:121-155) -/
def entryLoop (ts : List Tok) : PR :=
  if hc : peekPastWs (parseRelation ts).rest = some .COMMA then parseRelation ts
  else if hp : peekPastWs (parseRelation ts).rest = some .PIPE then
    ⟨(parseRelation ts).nodes ++ (pipeSep (parseRelation ts).rest).nodes
        ++ (entryLoop (pipeSep (parseRelation ts).rest).rest).nodes,
      (parseRelation ts).errs ++ (pipeSep (parseRelation ts).rest).errs
        ++ (entryLoop (pipeSep (parseRelation ts).rest).rest).errs,
      (entryLoop (pipeSep (parseRelation ts).rest).rest).rest⟩
  else if hn : peekPastWs (parseRelation ts).rest = none then (parseRelation ts).andThen skipWs
  else
    ⟨(parseRelation ts).nodes ++ (junkSep (parseRelation ts).rest).nodes
        ++ (entryLoop (junkSep (parseRelation ts).rest).rest).nodes,
      (parseRelation ts).errs ++ (junkSep (parseRelation ts).rest).errs
        ++ (entryLoop (junkSep (parseRelation ts).rest).rest).errs,
      (entryLoop (junkSep (parseRelation ts).rest).rest).rest⟩
termination_by ts.length
decreasing_by
  · have h1 := (parseRelation_ok ts).len
    have h2 := pipeSep_progress hp
    omega
  · have h1 := (parseRelation_ok ts).len
    cases hk : peekPastWs (parseRelation ts).rest with
    | none => exact absurd hk hn
    | some k =>
      have h2 := junkSep_progress hk
      omega

theorem entryLoop_ok (ts) : (entryLoop ts).Ok ts := by
  fun_induction entryLoop ts
  next x hc => exact parseRelation_ok x
  next x hc hp ih =>
    have h1 := parseRelation_ok x
    have h2 := pipeSep_ok (parseRelation x).rest
    simp only [Ok] at h1 h2 ih ⊢
    simp only [leavesList_append, List.append_assoc]
    rw [ih, h2, h1]
  next x hc hp hn => exact ok_andThen (parseRelation_ok x) skipWs_ok
  next x hc hp hn ih =>
    have h1 := parseRelation_ok x
    have h2 := junkSep_ok (parseRelation x).rest
    simp only [Ok] at h1 h2 ih ⊢
    simp only [leavesList_append, List.append_assoc]
    rw [ih, h2, h1]

/-- `parse_entry`: the leading `skip_ws()` happens *before* `start_node(ENTRY)`, so its tokens
    are siblings of the ENTRY node -/
def parseEntry (ts : List Tok) : PR :=
  (skipWs ts).andThen fun ts => (entryLoop ts).wrap .ENTRY

theorem parseEntry_ok (ts) : (parseEntry ts).Ok ts :=
  ok_andThen (skipWs_ok _) fun _ => ok_wrap _ (entryLoop_ok _)

/-! ### the root loop (relations.rs:299-342) -/

/-- the first `match self.current()` of the loop body (relations.rs:305-322), on the non-empty
    token list `t :: r`. (`None => …` at relations.rs:319 is dead: the loop condition excludes it.) -/
def rootFirst (allow : Bool) (t : Tok) (r : List Tok) : PR :=
  if t.1 = .IDENT then parseEntry (t :: r)
  else if t.1 = .DOLLAR then
    if allow then parseSubstvar (t :: r) else errorTok "Substvars are not allowed" (t :: r)
  else if t.1 = .COMMA then PR.nil (t :: r)
  else errorTok s!"expected $ or identifier but got {kindName t.1}" (t :: r)

theorem rootFirst_ok (allow t r) : (rootFirst allow t r).Ok (t :: r) := by
  unfold rootFirst; (repeat' split)
  · exact parseEntry_ok _
  · exact parseSubstvar_ok _
  · exact errorTok_ok _ _
  · exact ok_nil _
  · exact errorTok_ok _ _

/-- the second `match self.current()` (relations.rs:325-335) on a non-empty list: COMMA is bumped,
    anything else is an error -/
def rootSep (c : Tok) : List RNode × List String :=
  if c.1 = .COMMA then ([tk c], [])
  else ([Node.node .ERROR [tk c]], [s!"expected comma or end of file but got {optName (some c.1)}"])

theorem rootSep_leaves (c : Tok) : leavesList (rootSep c).1 = [c] := by
  unfold rootSep; split <;> simp

/-- `while self.current().is_some() { … }` (relations.rs:304-337) -/
def rootLoop (allow : Bool) (ts : List Tok) : PR :=
  match ts with
  | [] => ⟨[], [], []⟩
  | t :: r =>
    match h : (skipWs (rootFirst allow t r).rest).rest with
    | [] => ⟨(rootFirst allow t r).nodes ++ (skipWs (rootFirst allow t r).rest).nodes,
        (rootFirst allow t r).errs, []⟩
    | c :: r2 =>
      ⟨(rootFirst allow t r).nodes ++ (skipWs (rootFirst allow t r).rest).nodes ++ (rootSep c).1
          ++ (skipWs r2).nodes ++ (rootLoop allow (skipWs r2).rest).nodes,
        (rootFirst allow t r).errs ++ (rootSep c).2 ++ (rootLoop allow (skipWs r2).rest).errs,
        (rootLoop allow (skipWs r2).rest).rest⟩
termination_by ts.length
decreasing_by
  have h1 := (rootFirst_ok allow t r).len
  have h2 := (skipWs_ok (rootFirst allow t r).rest).len
  have h3 := (skipWs_ok r2).len
  rw [h] at h2
  simp at h1 h2 ⊢
  omega

theorem rootLoop_ok (allow ts) : (rootLoop allow ts).Ok ts := by
  fun_induction rootLoop allow ts
  next => simp [Ok]
  next t r h =>
    have h1 := rootFirst_ok allow t r
    have h2 := skipWs_ok (rootFirst allow t r).rest
    simp only [Ok] at h1 h2 ⊢
    rw [h] at h2
    simp only [leavesList_append, List.append_assoc]
    simp only [List.append_nil] at h2 ⊢
    rw [h2, h1]
  next t r c r2 h ih =>
    have h1 := rootFirst_ok allow t r
    have h2 := skipWs_ok (rootFirst allow t r).rest
    have h3 := skipWs_ok r2
    simp only [Ok] at h1 h2 h3 ih ⊢
    rw [h] at h2
    simp only [leavesList_append, List.append_assoc, rootSep_leaves]
    rw [ih, h3]
    simp only [List.singleton_append]
    rw [h2, h1]

theorem rootLoop_rest (allow ts) : (rootLoop allow ts).rest = [] := by
  fun_induction rootLoop allow ts
  next => rfl
  next => rfl
  next t r c r2 h ih => exact ih

/-- `Parse { green_node, errors }` -/
structure Parsed where
  tree : RNode
  errors : List String

/-- `Parser::parse` (relations.rs:299-343) on a token list -/
def parseTokens (allow : Bool) (ts : List Tok) : Parsed :=
  ⟨Node.node .ROOT ((skipWs ts).nodes ++ (rootLoop allow (skipWs ts).rest).nodes),
    (rootLoop allow (skipWs ts).rest).errs⟩

/-- `parse(text, allow_substvar)` -/
def parse (s : Str) (allow : Bool) : Parsed := parseTokens allow (lex s)

/-- `Relations::parse_relaxed(s, allow_substvar)` -/
def readRelaxed (s : Str) (allow : Bool) : RNode × List String :=
  ((parse s allow).tree, (parse s allow).errors)

/-- `<Relations as FromStr>::from_str` (relations.rs:1774-1785): `parse(s, false)`, `Ok` iff no errors -/
def readStrict (s : Str) : Except (List String) RNode :=
  if (parse s false).errors.isEmpty then .ok (parse s false).tree else .error (parse s false).errors

/-- `node.children().filter_map(X::cast)`: child *nodes* (not tokens) of kind `k` -/
def childNodes (k : Kind) (n : RNode) : List RNode :=
  n.children.filter fun c => c.isNode && c.kind == k

/-- `<Entry as FromStr>::from_str` (relations.rs:1787-1806): strict-parse the whole text as a
    field, then take the one and only ENTRY child of the root -/
def readEntry (s : Str) : Except String RNode :=
  match readStrict s with
  | .error es => .error ("\n".intercalate es)
  | .ok root =>
    match childNodes .ENTRY root with
    | [] => .error "No entry found"
    | [e] => .ok e
    | _ :: _ :: _ => .error "Multiple entries found"

/-- `<Relation as FromStr>::from_str` (relations.rs:1808-1827): `Entry::from_str`, then the one and
    only RELATION child -/
def readRelation (s : Str) : Except String RNode :=
  match readEntry s with
  | .error e => .error e
  | .ok entry =>
    match childNodes .RELATION entry with
    | [] => .error "No relation found"
    | [r] => .ok r
    | _ :: _ :: _ => .error "Multiple relations found"

end Deb822Verif.Rel
