import Deb822Verif.Model.RelLossy
import Deb822Verif.Model.Outcome
/-!
  Constructors, builder and container methods of the *lossy* relation types,
  `debian-control/src/lossy/relations.rs` lines 42-274 — everything public in that file that is not
  the reader / printer (`Model/RelLossy.lean`) or `satisfied_by` (`Model/RelSat.lean`):

  * `Default for Relation` (42-46), `Relation::new` (50-58), `Relation::build` (61-63),
  * `RelationBuilder::{new (112-120), archqual (123-126), architectures (129-132), version (135-138),
    profile (141-144), build (147-155)}`,
  * `Index<usize> for Relations` (210-216), `IndexMut<usize>` (218-222),
    `FromIterator<Vec<Relation>>` (224-228), `Default for Relations` (230-234),
    `Relations::{new (238-240), remove (243-245), iter (248-250), len (253-255), is_empty (258-260)}`,
    `FromIterator<Relation>` (270-274).

  One Lean function per Rust function, on the record `Lossy.Relation` and on
  `List (List Lossy.Relation)` (the `Vec<Vec<Relation>>` inside the newtype `Relations`).
  A Rust call that can panic returns an `Outcome`:
  * `RelationBuilder::version` — `version.parse().unwrap()` (line 136): panics exactly when
    `debversion::Version::from_str` is `Err` (model: `Version.parse = none`);
  * `Relations::remove`, `Index`, `IndexMut` — `Vec::remove` / slice indexing out of range.
  Everything else is total.

  Not here: `#[derive(Debug, Clone, PartialEq, Eq, Hash)]` on both types (structural; `PartialEq` with
  `debversion::Version`'s `cmp`-based `eq` inside: `Props/C14More.relEqO`), the `serde` impls (lines
  185-204, 455-474: feature-gated, `to_string` / `parse` of the modelled printer / reader).
-/
namespace Deb822Verif.Rel.LossyBuild
open Deb822Verif Rel

/-! ### `Relation` -/

/-- `Relation::new()` (relations.rs:50-58): empty name, nothing else -/
def relationNew : Lossy.Relation :=
  { name := [], archqual := none, architectures := none, version := none, profiles := [] }

/-- `<Relation as Default>::default()` (relations.rs:42-46): `Self::new()` -/
def relationDefault : Lossy.Relation := relationNew

/-- `RelationBuilder` (relations.rs:101-108): the same five fields as `Relation` (here the
    architecture list IS an `Option`, unlike the lossless builder's) -/
structure RelationBuilder where
  name : Str
  archqual : Option Str
  architectures : Option (List Str)
  version : Option (VC × Version)
  profiles : List (List BuildProfile)
  deriving DecidableEq, Repr
-- (the setters below are named `setArchqual` / `setArchitectures` / `setVersion` / `addProfile`
-- because the Rust method names `archqual` / `architectures` / `version` / `profile(s)` are the
-- field projections of this structure)

/-- the message of the only panic of the builder (relations.rs:136) -/
def versionPanic : String := "lossy RelationBuilder::version: version.parse().unwrap() on Err"

namespace RelationBuilder

/-- `RelationBuilder::new(name)` (relations.rs:112-120) -/
def new (name : Str) : RelationBuilder :=
  { name := name, archqual := none, architectures := none, version := none, profiles := [] }

/-- `RelationBuilder::archqual(self, archqual)` (relations.rs:123-126): overwrites -/
def setArchqual (b : RelationBuilder) (aq : Str) : RelationBuilder := { b with archqual := some aq }

/-- `RelationBuilder::architectures(self, Vec<&str>)` (relations.rs:129-132): overwrites;
    `into_iter().map(|s| s.to_string()).collect()` is the same list -/
def setArchitectures (b : RelationBuilder) (archs : List Str) : RelationBuilder :=
  { b with architectures := some (archs.map fun s => s) }

/-- `RelationBuilder::version(self, constraint, version: &str)` (relations.rs:135-138): overwrites;
    the text is parsed HERE with `debversion::Version::from_str(..).unwrap()` -/
def setVersion (b : RelationBuilder) (c : VC) (text : Str) : Outcome RelationBuilder :=
  match Version.parse text with
  | some v => .ok { b with version := some (c, v) }
  | none => .panic versionPanic

/-- `RelationBuilder::profile(self, Vec<BuildProfile>)` (relations.rs:141-144): `push` — accumulates -/
def addProfile (b : RelationBuilder) (p : List BuildProfile) : RelationBuilder :=
  { b with profiles := b.profiles ++ [p] }

/-- `RelationBuilder::build(self)` (relations.rs:147-155): field for field -/
def build (b : RelationBuilder) : Lossy.Relation :=
  { name := b.name, archqual := b.archqual, architectures := b.architectures, version := b.version,
    profiles := b.profiles }

end RelationBuilder

/-- `Relation::build(name)` (relations.rs:61-63): `RelationBuilder::new(name)` -/
def relationBuild (name : Str) : RelationBuilder := RelationBuilder.new name

/-! ### `Relations` (`pub struct Relations(pub Vec<Vec<Relation>>)`, relations.rs:208) -/

abbrev Relations := List (List Lossy.Relation)

def indexPanic : String := "lossy Relations: index out of bounds"
def removePanic : String := "lossy Relations::remove: Vec::remove index out of bounds"

/-- `Relations::new()` (relations.rs:238-240) -/
def relationsNew : Relations := []

/-- `<Relations as Default>::default()` (relations.rs:230-234) -/
def relationsDefault : Relations := relationsNew

/-- `Relations::remove(&mut self, index)` (relations.rs:243-245): `Vec::remove` panics when
    `index >= len` (before touching the vector) -/
def remove (rs : Relations) (index : Nat) : Outcome Relations :=
  if index < rs.length then .ok (rs.eraseIdx index) else .panic removePanic

/-- `Relations::iter(&self)` (relations.rs:248-250): `self.0.iter().map(|entry| entry.iter().collect())`
    — every entry as the vector of (references to) its relations -/
def iter (rs : Relations) : List (List Lossy.Relation) := rs.map fun entry => entry.map fun r => r

/-- `Relations::len(&self)` (relations.rs:253-255) -/
def len (rs : Relations) : Nat := rs.length

/-- `Relations::is_empty(&self)` (relations.rs:258-260) -/
def isEmpty (rs : Relations) : Bool := rs.isEmpty

/-- `<Relations as Index<usize>>::index` (relations.rs:210-216): `&self.0[index]` -/
def index (rs : Relations) (i : Nat) : Outcome (List Lossy.Relation) :=
  match rs[i]? with
  | some e => .ok e
  | none => .panic indexPanic

/-- `<Relations as IndexMut<usize>>::index_mut` (relations.rs:218-222): `&mut self.0[index]`; the
    caller's use of the reference is the function `f` on that entry -/
def indexMut (rs : Relations) (i : Nat) (f : List Lossy.Relation → List Lossy.Relation) : Outcome Relations :=
  match rs[i]? with
  | some e => .ok (rs.set i (f e))
  | none => .panic indexPanic

/-- `<Relations as FromIterator<Vec<Relation>>>::from_iter` (relations.rs:224-228):
    `Self(iter.into_iter().collect())` -/
def fromIterEntries (it : List (List Lossy.Relation)) : Relations := it.map fun e => e

/-- `<Relations as FromIterator<Relation>>::from_iter` (relations.rs:270-274): every relation becomes
    an entry of its own, `vec![r]` -/
def fromIterRelations (it : List Lossy.Relation) : Relations := it.map fun r => [r]

/-! ### the script language of the harness (`harness/src/lossybuild.rs`): not Rust functions, the
    interpreter of the request lines, shared by the driver and the theorems -/

/-- one setter call on a `RelationBuilder` -/
inductive Call
  | archqual (aq : Str)
  | architectures (archs : List Str)
  | version (c : VC) (text : Str)
  | profile (p : List BuildProfile)
  deriving DecidableEq, Repr

/-- the call applied to a builder -/
def Call.apply (b : RelationBuilder) : Call → Outcome RelationBuilder
  | .archqual aq => .ok (b.setArchqual aq)
  | .architectures as => .ok (b.setArchitectures as)
  | .version c t => b.setVersion c t
  | .profile p => .ok (b.addProfile p)

/-- a chain of setter calls `b.c1(..).c2(..)…`: a panic ends it -/
def run (b : RelationBuilder) : List Call → Outcome RelationBuilder
  | [] => .ok b
  | c :: cs => (c.apply b).bind fun b' => run b' cs

/-- `Relation::build(name).c1(..).c2(..)….build()` -/
def runBuild (name : Str) (cs : List Call) : Outcome Lossy.Relation :=
  (run (relationBuild name) cs).map RelationBuilder.build

/-- one method call on a `Relations` value (observation or mutation) -/
inductive Op
  | len | isEmpty | iter | show
  | remove (i : Nat)
  | index (i : Nat)
  /-- `rs[i] = entry` -/
  | assign (i : Nat) (e : List Lossy.Relation)
  /-- `rs[i].push(r)` -/
  | push (i : Nat) (r : Lossy.Relation)
  deriving Repr

/-- state after the call (`none` of the observation-only calls change it) -/
def Op.step (rs : Relations) : Op → Outcome Relations
  | .remove i => LossyBuild.remove rs i
  | .index i => (LossyBuild.index rs i).map fun _ => rs
  | .assign i e => LossyBuild.indexMut rs i fun _ => e
  | .push i r => LossyBuild.indexMut rs i fun e => e ++ [r]
  | _ => .ok rs

end Deb822Verif.Rel.LossyBuild
