import Deb822Verif.Model.DebAccess
/-!
  Model of the editing API of the lossless view (src/lossless.rs): `Entry::new`,
  `Paragraph::{set, insert, remove, rename}`, `FromIterator` constructors,
  `Deb822::{convert_index, insert_empty_paragraph, add_paragraph, insert_paragraph,
  remove_paragraph, delete_trailing_space}`.

  rowan as modelled: a mutable tree is the green tree itself; a paragraph handle is the position of
  its node among the root's children (`Doc.handles`), kept up to date by every operation.
  `splice_children(a..b, new)` detaches only the FIRST child of the range (its loop runs over the
  lazy `children_with_tokens()` iterator, which stops once the current element is detached), then
  attaches `new` at `a`; all uses in lossless.rs have `b ≤ a + 1`.
-/
namespace Deb822Verif.Deb
open Node

/-- `VALUE line NEWLINE`, preceded by `INDENT " "` for every line but the first
    (lossless.rs:911-917) -/
def valueLineToks : Bool → List Str → List DNode
  | _, [] => []
  | first, l :: ls =>
    (if first then [] else [Node.tok .INDENT [' ']]) ++
      [Node.tok .VALUE l, Node.tok .NEWLINE ['\n']] ++ valueLineToks false ls

/-- `Entry::new(key, value)` (lossless.rs:904-920) -/
def entryNew (key value : Str) : DNode :=
  .node .ENTRY ([Node.tok .KEY key, Node.tok .COLON [':'], Node.tok .WHITESPACE [' ']]
    ++ valueLineToks true (Text.splitOn '\n' value))

def isEntryWithKey (key : Str) (n : DNode) : Bool :=
  n.isNode && n.kind == .ENTRY && entryKey n == some key

/-- replace the first element satisfying `p` by `f` of it -/
def replaceFirst (p : DNode → Bool) (f : DNode → DNode) : List DNode → Option (List DNode)
  | [] => none
  | c :: cs =>
    if p c then some (f c :: cs)
    else match replaceFirst p f cs with
      | some cs' => some (c :: cs')
      | none => none

/-- kind of `last_token()` below these nodes: rowan follows the LAST children only and returns
    `None` when that chain ends in a node without children (`Node.lastTok`, Model/Tree.lean) — e.g.
    the empty ERROR node the parser leaves behind a key at the end of the input -/
def lastLeafKind (kids : List DNode) : Option Kind := (lastTok kids).map (·.1)

/-- append a NEWLINE token inside the deepest last node (terminate the last line) -/
def terminateLast : List DNode → List DNode
  | [] => []
  | [Node.node k cs] =>
    (match cs.getLast? with
     | some (Node.node _ _) => [Node.node k (terminateLast cs)]
     | _ => [Node.node k (cs ++ [Node.tok .NEWLINE ['\n']])])
  | [Node.tok k t] => [Node.tok k t, Node.tok .NEWLINE ['\n']]
  | c :: d :: cs => c :: terminateLast (d :: cs)

/-- `terminate_last_line` (lossless.rs:631-646): if there is a `last_token()` and it is not a
    NEWLINE, append one to that token's parent (the last ENTRY, or the PARAGRAPH itself for a
    trailing comment); nothing happens when `last_token()` is `None` (no child, or the chain of last
    children ends in an empty node) -/
def terminateLastLine (cs : List DNode) : List DNode :=
  match lastLeafKind cs with
  | none => cs
  | some k => if k = .NEWLINE then cs else
    -- `last.parent()`: the PARAGRAPH itself when its last child is a token
    match cs.getLast? with
    | some (Node.tok _ _) => cs ++ [Node.tok .NEWLINE ['\n']]
    | _ => terminateLast cs

/-- `Paragraph::set` (lossless.rs:826-841) on the children of the PARAGRAPH node -/
def paraSet (cs : List DNode) (key value : Str) : List DNode :=
  match replaceFirst (isEntryWithKey key) (fun _ => entryNew key value) cs with
  | some cs' => cs'
  | none => terminateLastLine cs ++ [entryNew key value]

/-- `Paragraph::insert` (lossless.rs:819-823) -/
def paraInsert (cs : List DNode) (key value : Str) : List DNode :=
  terminateLastLine cs ++ [entryNew key value]

/-- remove the first element satisfying `p` -/
def eraseFirst (p : DNode → Bool) : List DNode → List DNode
  | [] => []
  | c :: cs => if p c then cs else c :: eraseFirst p cs

/-- `Paragraph::remove` (lossless.rs:810-816): every entry of that name is detached. -/
def paraRemove (cs : List DNode) (key : Str) : List DNode :=
  cs.filter fun c => !isEntryWithKey key c

/-- `Paragraph::rename` (lossless.rs:844-855): first entry of the old name is replaced by
    `Entry::new(new_key, entry.value())`; returns whether one was found -/
def paraRename (cs : List DNode) (old new : Str) : List DNode × Bool :=
  match replaceFirst (isEntryWithKey old) (fun e => entryNew new (entryValue e)) cs with
  | some cs' => (cs', true)
  | none => (cs, false)

/-- `FromIterator<(String, String)> for Paragraph` (lossless.rs:646-690) -/
def paraOfPairs (kvs : List (Str × Str)) : DNode :=
  .node .PARAGRAPH (kvs.map fun kv => entryNew kv.1 kv.2)

def emptyLine : DNode := .node .EMPTY_LINE [Node.tok .NEWLINE ['\n']]

/-- `terminate_last_line` on (a copy of) a paragraph node -/
def terminatePara : DNode → DNode
  | .node k cs => .node k (terminateLastLine cs)
  | t => t

/-- `FromIterator<Paragraph> for Deb822`: a paragraph that is followed by another one gets the
    terminator of its last line when a parsed paragraph lacks it (fix b4e3d7f, F-C05-4), then one
    blank line -/
def docOfParas : List DNode → List DNode
  | [] => []
  | [p] => [p]
  | p :: q :: ps => terminatePara p :: emptyLine :: docOfParas (q :: ps)

/-! ### documents with live paragraph handles -/

structure Doc where
  /-- children of the ROOT node -/
  kids : List DNode
  /-- handle → position among `kids` (none = the paragraph was removed from this document) -/
  handles : List (Option Nat)
  deriving Inhabited

def Doc.root (d : Doc) : DNode := .node .ROOT d.kids

def isParaNode (n : DNode) : Bool := n.isNode && n.kind == .PARAGRAPH

/-- positions of the PARAGRAPH children -/
def paraPositions (kids : List DNode) : List Nat :=
  ((kids.zip (List.range kids.length)).filter fun ci => isParaNode ci.1).map (·.2)

/-- `convert_index` (lossless.rs:457-472): child position of the `index`-th PARAGRAPH -/
def convertIndexAux : List DNode → Nat → Nat → Option Nat
  | [], _, _ => none
  | c :: cs, idx, off =>
    if isParaNode c then (if idx = 0 then some off else convertIndexAux cs (idx - 1) (off + 1))
    else convertIndexAux cs idx (off + 1)

def convertIndex (kids : List DNode) (index : Nat) : Option Nat := convertIndexAux kids index 0

/-- shift handles for an insertion of `n` children at position `at_` -/
def shiftIns (hs : List (Option Nat)) (at_ n : Nat) : List (Option Nat) :=
  hs.map fun h => h.map fun i => if i ≥ at_ then i + n else i

/-- drop / shift handles for the removal of the child at position `at_` -/
def shiftDel (hs : List (Option Nat)) (at_ : Nat) : List (Option Nat) :=
  hs.map fun h => match h with
    | none => none
    | some i => if i = at_ then none else if i > at_ then some (i - 1) else some i

def insertAt (l : List DNode) (i : Nat) (new : List DNode) : List DNode := l.take i ++ new ++ l.drop i

/-- `insert_empty_paragraph` (lossless.rs:490-513); the new paragraph gets a fresh handle -/
def insertEmptyParagraph (d : Doc) (index : Option Nat) : Doc :=
  let para : DNode := .node .PARAGRAPH []
  let nodeCount := (d.kids.filter Node.isNode).length
  let sep : List DNode := if nodeCount > 0 then [emptyLine] else []
  match index with
  | some i =>
    -- `to_insert.swap(0, 1)`: the paragraph first, then the separator
    let kids := insertAt d.kids i (para :: sep)
    { kids := kids, handles := shiftIns d.handles i (1 + sep.length) ++ [some i] }
  | none =>
    -- `terminate_last_line(&self.0)`: the separator must not double as a line terminator; then
    -- `self.0.children_with_tokens().count()` (since 3e9d9ab, F-C05-3): the end of the child list,
    -- nodes and tokens alike
    let pos := (terminateLastLine d.kids).length
    let kids := insertAt (terminateLastLine d.kids) pos (sep ++ [para])
    { kids := kids, handles := shiftIns d.handles pos (1 + sep.length) ++ [some (pos + sep.length)] }

def addParagraph (d : Doc) : Doc := insertEmptyParagraph d none
def insertParagraph (d : Doc) (index : Nat) : Doc := insertEmptyParagraph d (convertIndex d.kids index)

/-- `remove_paragraph` (lossless.rs:555-560) with `delete_trailing_space` (475-487): the node at
    the converted index is spliced out; then ONE following EMPTY_LINE node is deleted (the loop runs
    over the lazy child iterator, which ends as soon as its current element has been detached) -/
def removeParagraph (d : Doc) (index : Nat) : Doc :=
  match convertIndex d.kids index with
  | none => d
  | some i =>
    let kids1 := d.kids.eraseIdx i
    let hs1 := shiftDel d.handles i
    match kids1[i]? with
    | some n =>
      if n.isNode && n.kind == .EMPTY_LINE then
        { kids := kids1.eraseIdx i, handles := shiftDel hs1 i }
      else { kids := kids1, handles := hs1 }
    | none => { kids := kids1, handles := hs1 }

/-- apply a function to the children of the paragraph a handle points to -/
def Doc.onPara (d : Doc) (h : Nat) (f : List DNode → List DNode) : Doc :=
  match d.handles[h]? with
  | some (some i) =>
    match d.kids[i]? with
    | some (Node.node .PARAGRAPH cs) => { d with kids := d.kids.set i (.node .PARAGRAPH (f cs)) }
    | _ => d
  | _ => d

def Doc.para (d : Doc) (h : Nat) : Option DNode :=
  match d.handles[h]? with
  | some (some i) => d.kids[i]?
  | _ => none

end Deb822Verif.Deb
