import Deb822Verif.Model.Text
import Deb822Verif.Model.DebLossy
/-
  Model of the expansion of `#[derive(FromDeb822, ToDeb822)]` (deb822-derive/src/lib.rs) and of the
  traits of src/convert.rs, generic in
    * the struct: a list of `FieldSpec` (key, optional?, ser, de) in declaration order,
    * the paragraph back-end: a structure of operations `Backend P` (the trait `Deb822LikeParagraph`:
      `get`, `set`, `remove`, and `FromIterator<(String, String)>` as `ofList`), whose laws are the
      explicit hypothesis `Lawful`.

  Expansion being modelled (lib.rs:150-203 and 205-274), per field in declaration order:
    from_paragraph   optional:  para.get(KEY).map(|v| DE(&v).map_err(|e| format!("parsing field {}: {}", KEY, e))).transpose()?
                     mandatory: DE(&para.get(KEY).ok_or_else(|| format!("missing field: {}", KEY))?)
                                   .map_err(|e| format!("parsing field {}: {}", KEY, e))?
    to_paragraph     optional:  if let Some(v) = &self.f { fields.push((KEY, SER(&v))) }
                     mandatory: fields.push((KEY, SER(&self.f)));        then fields.into_iter().collect()
    update_paragraph optional:  if let Some(v) = &self.f { para.set(KEY, SER(&v)) } else { para.remove(KEY) }
                     mandatory: para.set(KEY, SER(&self.f))
  KEY is the `field = "…"` literal or, by default, the field identifier as written.
-/
namespace Deb822Verif.Derive
open Deb822Verif

open Lean in
/-- `c!"abc"` = `['a','b','c']`: a `List Char` literal written as a string (kernel `decide` is several
    times faster on explicit lists than on `"abc".toList`) -/
macro "c!" s:str : term => do
  let cs := s.getString.toList.toArray.map fun c => Syntax.mkCharLit c
  `([$cs,*])

/-! ## rows of the generated struct table (`Gen/Structs.lean`) -/

structure FieldRow where
  ident : Str
  /-- the paragraph key: explicit `field = "…"` or the identifier -/
  key : Str
  /-- the Rust type is `Option<…>` (last path segment `Option`, as the macro tests) -/
  optional : Bool
  /-- `serialize_with`, qualified by module; empty = `ToString::to_string` -/
  ser : Str
  /-- `deserialize_with`, qualified by module; empty = `FromStr::from_str` -/
  de : Str
  /-- the Rust type (inside the `Option`) -/
  ty : Str
  deriving DecidableEq, Repr

structure StructRow where
  name : Str
  derivesFrom : Bool
  derivesTo : Bool
  fields : List FieldRow
  deriving DecidableEq, Repr

/-! ## paragraph back-end -/

structure Backend (P : Type) where
  get : P → Str → Option Str
  set : P → Str → Str → P
  remove : P → Str → P
  /-- `FromIterator<(String, String)>` -/
  ofList : List (Str × Str) → P
  /-- the field names in paragraph order -/
  keys : P → List Str

/-- first entry of that name -/
def lookupFirst (l : List (Str × Str)) (k : Str) : Option Str := (l.find? (·.1 == k)).map (·.2)

/-- what the macro relies on -/
structure Lawful {P : Type} (B : Backend P) : Prop where
  get_set : ∀ p k v, B.get (B.set p k v) k = some v
  get_set_ne : ∀ p k v k', k' ≠ k → B.get (B.set p k v) k' = B.get p k'
  get_remove : ∀ p k, B.get (B.remove p k) k = none
  get_remove_ne : ∀ p k k', k' ≠ k → B.get (B.remove p k) k' = B.get p k'
  get_ofList : ∀ l k, B.get (B.ofList l) k = lookupFirst l k
  keys_ofList : ∀ l, B.keys (B.ofList l) = l.map (·.1)

/-- the lossy paragraph (`Vec<Field>`, src/lossy.rs:57-123, `FromIterator` at :182) -/
def lossyBackend : Backend Deb.Lossy.Para where
  get := Deb.Lossy.pget
  set := Deb.Lossy.pset
  remove := Deb.Lossy.premove
  ofList := fun l => l
  keys := fun p => p.map (·.1)

/-! ## the derived conversions -/

structure FieldSpec (V : Type) where
  key : Str
  optional : Bool
  ser : V → Str
  /-- `Err` carries the `Display` text of the codec's error -/
  de : Str → Except Str V

def errMissing (key : Str) : Str := "missing field: ".toList ++ key
def errParse (key e : Str) : Str := "parsing field ".toList ++ key ++ ": ".toList ++ e

/-- one field initialiser of `from_paragraph` -/
def readField {V : Type} (get : Str → Option Str) (f : FieldSpec V) : Except Str (Option V) :=
  match get f.key with
  | none => if f.optional then .ok none else .error (errMissing f.key)
  | some t =>
    match f.de t with
    | .ok v => .ok (some v)
    | .error e => .error (errParse f.key e)

/-- the struct literal: initialisers evaluated in declaration order, the first error is returned.
    A struct value is the list of its field values (`none` only for an absent optional field). -/
def fromFields {V : Type} (get : Str → Option Str) : List (FieldSpec V) → Except Str (List (Option V))
  | [] => .ok []
  | f :: fs =>
    match readField get f with
    | .error e => .error e
    | .ok v =>
      match fromFields get fs with
      | .error e => .error e
      | .ok vs => .ok (v :: vs)

def fromParagraph {P V : Type} (B : Backend P) (spec : List (FieldSpec V)) (p : P) :
    Except Str (List (Option V)) := fromFields (B.get p) spec

/-- the `fields` vector of `to_paragraph` -/
def toFields {V : Type} : List (FieldSpec V) → List (Option V) → List (Str × Str)
  | f :: fs, some v :: vs => (f.key, f.ser v) :: toFields fs vs
  | _ :: fs, none :: vs => toFields fs vs
  | _, _ => []

def toParagraph {P V : Type} (B : Backend P) (spec : List (FieldSpec V)) (x : List (Option V)) : P :=
  B.ofList (toFields spec x)

def updateParagraph {P V : Type} (B : Backend P) : List (FieldSpec V) → List (Option V) → P → P
  | f :: fs, some v :: vs, p => updateParagraph B fs vs (B.set p f.key (f.ser v))
  | f :: fs, none :: vs, p => updateParagraph B fs vs (B.remove p f.key)
  | _, _, p => p

/-- a list of field values is a value of the struct: one per field, mandatory ones present -/
def WellFormed {V : Type} : List (FieldSpec V) → List (Option V) → Prop
  | [], [] => True
  | f :: fs, v :: vs => (f.optional = false → v.isSome) ∧ WellFormed fs vs
  | _, _ => False

/-- every present field value survives its own codec -/
def CodecsRoundTrip {V : Type} : List (FieldSpec V) → List (Option V) → Prop
  | f :: fs, some v :: vs => f.de (f.ser v) = .ok v ∧ CodecsRoundTrip fs vs
  | _ :: fs, none :: vs => CodecsRoundTrip fs vs
  | _, _ => True

def specKeys {V : Type} (spec : List (FieldSpec V)) : List Str := spec.map (·.key)

/-- the keys of the present fields, in declaration order -/
def presentKeys {V : Type} : List (FieldSpec V) → List (Option V) → List Str
  | f :: fs, some _ :: vs => f.key :: presentKeys fs vs
  | _ :: fs, none :: vs => presentKeys fs vs
  | _, _ => []

end Deb822Verif.Derive
