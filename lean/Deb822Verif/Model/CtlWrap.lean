import Deb822Verif.Model.DebWrap
import Deb822Verif.Model.RelWrap
/-!
  The control-file wrappers of wrap-and-sort (property C07), `debian-control/src/lossless/control.rs`
  as of commit 081b372:
  `format_field` (38-68): Uploaders one per line; the twelve relationship fields re-read with
  substitution variables allowed and normalised by `Relations::wrap_and_sort` (a field that does not
  parse is left alone); every other field unchanged.
  `Control::wrap_and_sort` (176-215): paragraphs sorted Source first (by name), then by Package;
  each paragraph through `Paragraph::wrap_and_sort(…, None, Some(&format_field))`.
  `Source::wrap_and_sort` (272-285) / `Binary::wrap_and_sort` (657-670): the same on one paragraph.

  `format_field` can panic where `Relations::wrap_and_sort` does (an operator the accessors cannot
  read, `a (> 1)`): `formatFieldO` returns `none` there and the wrappers are modelled as panicking
  (`none`) as soon as one formatted field does — the formatter handed to the deb822 level is the
  total `formatField`, used only behind that guard.
-/
namespace Deb822Verif.Ctl
open Deb822Verif Deb Rel

/-- `str::cmp` (byte-wise on UTF-8 = code-point-wise) ≠ Greater -/
def strLe : Str → Str → Bool
  | [], _ => true
  | _ :: _, [] => false
  | a :: as, b :: bs => if a.toNat < b.toNat then true else if a.toNat > b.toNat then false else strLe as bs

/-- `Option<String>::cmp ≠ Greater` (`None` first) -/
def optLe : Option Str → Option Str → Bool
  | none, _ => true
  | some _, none => false
  | some a, some b => strLe a b

/-- the "one per line" formatter used for Uploaders: split on ',', trim, join with ",\n" -/
def fmtCommaLines (_k v : Str) : Str :=
  Text.join [',', '\n'] ((Text.splitOn ',' v).map Text.trim)

def kUploaders : Str := "Uploaders".toList
def kSource : Str := "Source".toList
def kPackage : Str := "Package".toList

/-- the field names `format_field` normalises as relationship fields (control.rs:45-56; the
    misspelt `Build-Conflics-Arch` is what the code has) -/
def relFields : List Str :=
  ["Build-Depends", "Build-Depends-Indep", "Build-Depends-Arch", "Build-Conflicts",
   "Build-Conflicts-Indep", "Build-Conflics-Arch", "Depends", "Recommends", "Suggests", "Enhances",
   "Pre-Depends", "Breaks"].map String.toList

/-- `format_field`; `none` = the call panics -/
def formatFieldO (name value : Str) : Option Str :=
  if name = kUploaders then some (fmtCommaLines name value)
  else if relFields.contains name then
    if !(Rel.parse value true).errors.isEmpty then some value
    else match Rel.Wrap.relationsWrap (Rel.parse value true).tree with
      | .ok t => some t.text
      | .panic _ => none
  else some value

def formatField (name value : Str) : Str := (formatFieldO name value).getD value

/-- the text `Entry::wrap_and_sort` hands to the formatter: the raw text behind the colon, unless
    the entry holds a comment or error token (then the formatter is not called) -/
def fmtArg (e : DNode) : Option Str :=
  if (ewContent e.children).any fun c => c.kind == .ERROR || c.kind == .COMMENT then none
  else some ((ewContent e.children).filterMap fun c => match c with | .tok _ t => some t | _ => none).flatten

def entryPanics (e : DNode) : Bool :=
  match entryKey e, fmtArg e with
  | some k, some v => (formatFieldO k v).isNone
  | _, _ => false

def paraPanics (p : DNode) : Bool := (entries p).any entryPanics

/-- `sort_paragraphs(a, b) ≠ Greater` -/
def ctlParaLe (a b : DNode) : Bool :=
  match Deb.get a kSource, Deb.get b kSource with
  | some x, some y => strLe x y
  | some _, none => true
  | none, some _ => false
  | none, none => optLe (Deb.get a kPackage) (Deb.get b kPackage)

/-- `Source::wrap_and_sort` / `Binary::wrap_and_sort` -/
def paraWrap (cfg : WrapCfg) (p : DNode) : Option DNode :=
  if paraPanics p then none else paragraphWrap cfg none (some formatField) p

/-- `Control::wrap_and_sort` -/
def controlWrap (cfg : WrapCfg) (root : DNode) : Option DNode :=
  if (paragraphs root).any paraPanics then none
  else deb822Wrap (some ctlParaLe) (some (paragraphWrap cfg none (some formatField))) root

/-- some relationship field of the document has a version with a numeric component above
    `i32::MAX` (`Version::cmp` may panic there: findings F-C12-1 / F-C07-8) -/
def hasBigNumber (root : DNode) : Bool :=
  (paragraphs root).any fun p => (entries p).any fun e =>
    match entryKey e, fmtArg e with
    | some k, some v => relFields.contains k && (Rel.parse v true).errors.isEmpty
        && Rel.Wrap.hasBigNumber (Rel.parse v true).tree
    | _, _ => false

/-! ### finding F-C07-10 (open): a line of the formatter's output that starts with `#` -/

/-- a line after the first of the formatter's output starts, after leading spaces / tabs, with `#`:
    `rebuild_value` writes it as a continuation line, which reads back as a comment -/
def hashLine (out : Str) : Bool :=
  ((Text.splitOn '\n' out).drop 1).any fun l => (l.dropWhile isIndent).head? == some '#'

/-- the formatter is called on this entry and its output has such a line -/
def entryHashLine (f : Str → Str → Str) (e : DNode) : Bool :=
  match entryKey e, fmtArg e with
  | some k, some v => hashLine (f k v)
  | _, _ => false

def paraHashLine (f : Str → Str → Str) (p : DNode) : Bool := (entries p).any (entryHashLine f)

end Deb822Verif.Ctl
