import Deb822Verif.Model.Text
/-
  Model of `debian_control::pgp::strip_pgp_signature` (debian-control/src/pgp.rs:66-124).
  Four sequential loops over `input.lines()`.
-/
namespace Deb822Verif.Pgp
open Text

def beginMsg : Str := "-----BEGIN PGP SIGNED MESSAGE-----".toList
def beginSig : Str := "-----BEGIN PGP SIGNATURE-----".toList
def endSig : Str := "-----END PGP SIGNATURE-----".toList

inductive Err
  | MissingPgpSignature | MissingPayload | TruncatedPgpSignature | JunkAfterPgpSignature
  deriving DecidableEq, Repr

/-- pgp.rs:79-90 metadata loop: skip lines up to and including the first empty one -/
def metaLoop : List Str → Option (List Str)
  | [] => none
  | l :: ls => if l = [] then some ls else metaLoop ls

/-- pgp.rs:92-104 payload loop: lines up to BEGIN SIGNATURE, each pushed with a `\n` -/
def payloadLoop : List Str → Option (Str × List Str)
  | [] => none
  | l :: ls =>
    if l = beginSig then some ([], ls)
    else match payloadLoop ls with
      | none => none
      | some r => some (l ++ '\n' :: r.1, r.2)

/-- pgp.rs:106-117 signature loop: lines up to END SIGNATURE, concatenated without separator -/
def sigLoop : List Str → Option (Str × List Str)
  | [] => none
  | l :: ls =>
    if l = endSig then some ([], ls)
    else match sigLoop ls with
      | none => none
      | some r => some (l ++ r.1, r.2)

def stripLines (input : Str) (ls : List Str) : Except Err (Str × Option Str) :=
  match ls with
  | [] => .ok (input, none)
  | first :: rest =>
    if first ≠ beginMsg then .ok (input, none)
    else match metaLoop rest with
      | none => .error .MissingPayload
      | some r1 => match payloadLoop r1 with
        | none => .error .MissingPgpSignature
        | some (p, r2) => match sigLoop r2 with
          | none => .error .TruncatedPgpSignature
          | some (sg, r3) =>
            match r3 with
            | _ :: _ => .error .JunkAfterPgpSignature
            | [] => .ok (p, some sg)

def strip (input : Str) : Except Err (Str × Option Str) := stripLines input (lines input)

end Deb822Verif.Pgp
