import Deb822Verif.Model.Outcome
/-
  Model of `debian_copyright::glob::glob_to_regex` (debian-copyright/src/glob.rs:1-37) and of the
  fragment of the `regex` crate it can emit: `^ (escaped literal | . | .*)* $` with the crate's
  default flags (Unicode on, `s` off: `.` is any scalar value except `\n`; `^`/`$` are the ends of
  the haystack).
-/
namespace Deb822Verif

namespace Glob

/-- what `glob_to_regex` can put between `^` and `$` -/
inductive RegexItem where
  /-- `regex::escape(c)`: the literal character `c` -/
  | lit (c : Char)
  /-- `.` -/
  | any
  /-- `.*` -/
  | anyStar
  deriving DecidableEq, Repr

/-- glob.rs:11-13 the three characters a backslash may precede -/
def isEscapable (c : Char) : Bool := c == '?' || c == '*' || c == '\\'

/-- glob.rs:1-37. The `while let Some(c) = it.next()` loop, one character (two after a backslash)
    per round; `r` starts as `^`, ends with `$` (both implicit in `regexMatch`). -/
def globToRegex : Str → Outcome (List RegexItem)
  | [] => .ok []
  | c :: rest =>
    if c = '*' then (globToRegex rest).map (RegexItem.anyStar :: ·)          -- glob.rs:8
    else if c = '?' then (globToRegex rest).map (RegexItem.any :: ·)         -- glob.rs:9
    else if c = '\\' then                                                     -- glob.rs:10
      match rest with
      | [] => .panic "invalid escape sequence: \\"                            -- glob.rs:19-21
      | x :: rest' =>
        if isEscapable x then (globToRegex rest').map (RegexItem.lit x :: ·)  -- glob.rs:13-15
        else .panic ("invalid escape sequence: \\" ++ String.singleton x)     -- glob.rs:16-18
    else (globToRegex rest).map (RegexItem.lit c :: ·)                        -- glob.rs:24

/-- every backslash of the pattern is followed by `*`, `?` or a backslash (the patterns on which
    `glob_to_regex` does not panic — `Props.C17.C17_glob_panic_iff`) -/
def validEscapes : Str → Bool
  | [] => true
  | c :: rest =>
    if c = '\\' then
      match rest with
      | [] => false
      | x :: rest' => isEscapable x && validEscapes rest'
    else validEscapes rest

/-- `.*` followed by the continuation `k`: try the empty run first, then one more non-`\n`
    character (the order is irrelevant for `is_match`) -/
def starMatch (k : Str → Bool) : Str → Bool
  | [] => k []
  | x :: xs => k (x :: xs) || (x != '\n' && starMatch k xs)

/-- `Regex::is_match` for `^ items $` -/
def regexMatch : List RegexItem → Str → Bool
  | [] => fun p => p.isEmpty
  | .lit c :: r => fun p =>
    match p with
    | [] => false
    | x :: xs => x == c && regexMatch r xs
  | .any :: r => fun p =>
    match p with
    | [] => false
    | x :: xs => x != '\n' && regexMatch r xs
  | .anyStar :: r => starMatch (regexMatch r)

/-- `glob_to_regex(g).is_match(p)` (lossless.rs:309, lossy.rs:187) -/
def matchGlob (g p : Str) : Outcome Bool := (globToRegex g).map (regexMatch · p)

end Glob
end Deb822Verif
