import Deb822Verif.Model.Derive
import Deb822Verif.Model.DebEdit
/-!
  The lossless paragraph (`Paragraph` of src/lossless.rs) as a back-end of the derive model, for the
  driver: `get` / `keys` of Model/DebAccess, `set` / `remove` / `FromIterator` of Model/DebEdit.
  `Props/C16Lossless.losslessBackend` is this definition (`C16More.C16_driver_backend`: `rfl`); it is
  stated here, below `Props/`, because the driver executable imports models only.
-/
namespace Deb822Verif.Derive
open Deb822Verif Deb Node

/-- a `Paragraph` is (a handle on) a PARAGRAPH node; `set` / `remove` rewrite its child list -/
def treeBackend : Backend DNode where
  get := Deb.get
  set := fun p k v => .node .PARAGRAPH (paraSet p.children k v)
  remove := fun p k => .node .PARAGRAPH (paraRemove p.children k)
  ofList := paraOfPairs
  keys := Deb.keys

end Deb822Verif.Derive
