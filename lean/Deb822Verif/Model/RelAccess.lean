import Deb822Verif.Model.RelParse
/-!
  Read accessors of `debian-control/src/lossless/relations.rs` as pure functions over the tree
  (groundwork for C10): `Relations::entries` (575), `Relations::substvars` (652),
  `Entry::relations` (822), `Relation::name` (1232), `archqual` (1252), `version` (1302),
  `architectures` (1416), `profiles` (1438); plus the pieces of other crates they call:
  `VersionConstraint::from_str`, `BuildProfile::from_str` (src/relations.rs) and
  `debversion::Version::from_str` / `Display` (debversion 0.4.4, lib.rs:199-241).

  A Rust `unwrap()` that can fail is modelled by an explicit `Except Unit` / `Option` result:
  `.error ()` (resp. `none` for `name`) means "the real accessor panics".
-/
namespace Deb822Verif.Rel
open Node

/-- `children_with_tokens().find_map(|it| match it { Token(t) if t.kind() == IDENT => Some(t), _ => None })` -/
def firstIdentTok (n : RNode) : Option Str :=
  n.children.findSome? fun c =>
    match c with
    | .tok k t => if k = .IDENT then some t else none
    | .node _ _ => none

/-- `children().find(|n| n.kind() == k)`: first child *node* of kind `k` -/
def firstChildNode (k : Kind) (n : RNode) : Option RNode := (childNodes k n).head?

/-- `Relations::entries()` -/
def entries (root : RNode) : List RNode := childNodes .ENTRY root
/-- `Entry::relations()` -/
def relations (entry : RNode) : List RNode := childNodes .RELATION entry
/-- `Relations::substvars()`: the printed text of every SUBSTVAR child node -/
def substvars (root : RNode) : List Str := (childNodes .SUBSTVAR root).map Node.text

/-- `Relation::name()`; `none` = the `unwrap()` at relations.rs:1239 panics (no IDENT token child) -/
def name (rel : RNode) : Option Str := firstIdentTok rel

/-- `Relation::archqual()` -/
def archqual (rel : RNode) : Option Str := (firstChildNode .ARCHQUAL rel).bind firstIdentTok

/-- `VersionConstraint` (src/relations.rs:38-49) -/
inductive VC
  | LessThan | LessThanEqual | Equal | GreaterThan | GreaterThanEqual
  deriving DecidableEq, Repr

/-- `VersionConstraint::from_str` (src/relations.rs:51-64) -/
def VC.parse (s : Str) : Option VC :=
  if s = ['>', '='] then some .GreaterThanEqual
  else if s = ['<', '='] then some .LessThanEqual
  else if s = ['='] then some .Equal
  else if s = ['>', '>'] then some .GreaterThan
  else if s = ['<', '<'] then some .LessThan
  else none

/-- `Display for VersionConstraint` -/
def VC.display : VC → Str
  | .GreaterThanEqual => ['>', '='] | .LessThanEqual => ['<', '='] | .Equal => ['=']
  | .GreaterThan => ['>', '>'] | .LessThan => ['<', '<']

/-- `debversion::Version` -/
structure Version where
  epoch : Option Nat
  upstream : Str
  revision : Option Str
  deriving DecidableEq, Repr

def isAsciiDigit (c : Char) : Bool := 48 ≤ c.toNat && c.toNat ≤ 57
/-- `[A-Za-z0-9+.~]` -/
def isRevChar (c : Char) : Bool := isAsciiAlnum c || c == '+' || c == '.' || c == '~'
/-- `[A-Za-z0-9.+:~-]` -/
def isUpstreamChar (c : Char) : Bool := isRevChar c || c == ':' || c == '-'

/-- split around the last `'-'`: `s = before ++ '-' :: after`, `after` without `'-'` -/
def splitLastDash : Str → Option (Str × Str)
  | [] => none
  | c :: cs =>
    match splitLastDash cs with
    | some (b, a) => some (c :: b, a)
    | none => if c = '-' then some ([], cs) else none

/-- `([A-Za-z0-9.+:~-]+?)(?:-([A-Za-z0-9+.~]+))?$` on the whole of `s`: the lazy upstream part
    stops at the first `-` (index >= 1) whose remainder is a non-empty revision; a revision contains
    no `-`, so that is the last `-` -/
def matchUpstreamRev (s : Str) : Option (Str × Option Str) :=
  if s.isEmpty || !s.all isUpstreamChar then none
  else
    match splitLastDash s with
    | none => some (s, none)
    | some (b, a) =>
      if !b.isEmpty && !a.isEmpty && a.all isRevChar then some (b, some a)
      else some (s, none)

def digitsVal (ds : Str) : Nat := ds.foldl (fun acc c => acc * 10 + (c.toNat - 48)) 0

/-- the alternative of the regex in which the optional epoch group `(?:(\d+):)?` participates
    (tried first). `none` = this alternative does not match; `some none` = it matches but
    `e.parse::<u32>()` fails, so `from_str` is `Err` -/
def Version.epochAlt (s : Str) : Option (Option Version) :=
  match s.dropWhile isAsciiDigit with
  | ':' :: rest =>
    if (s.takeWhile isAsciiDigit).isEmpty then none
    else match matchUpstreamRev rest with
      | none => none
      | some (u, r) =>
        if digitsVal (s.takeWhile isAsciiDigit) < 4294967296 then
          some (some ⟨some (digitsVal (s.takeWhile isAsciiDigit)), u, r⟩)
        else some none
  | _ => none

/-- `Version::from_str` (debversion lib.rs:199-228): regex
    `^(?:(\d+):)?([A-Za-z0-9.+:~-]+?)(?:-([A-Za-z0-9+.~]+))?$`, epoch parsed as `u32`.
    `none` = `Err`. (`\d` also matches non-ASCII digits, but then either the `u32` parse or the
    rest of the regex fails: `Err` both ways, as here.) -/
def Version.parse (s : Str) : Option Version :=
  match Version.epochAlt s with
  | some r => r
  | none =>
    match matchUpstreamRev s with
    | none => none
    | some (u, r) => some ⟨none, u, r⟩

/-- `Display for Version` (debversion lib.rs:230-241) -/
def Version.display (v : Version) : Str :=
  (match v.epoch with | some e => (toString e).toList ++ [':'] | none => [])
    ++ v.upstream ++ (match v.revision with | some r => '-' :: r | none => [])

/-- relations.rs:1317-1326 (after fix 3b0cae0): the concatenated text of all IDENT and COLON
    *tokens* that are direct children of the VERSION node -/
def versionText (vc : RNode) : Str :=
  (vc.children.filterMap fun c =>
    match c with
    | .tok k t => if k = .IDENT ∨ k = .COLON then some t else none
    | .node _ _ => none).flatten

/-- `Relation::version()` (relations.rs:1311-1334); `.error ()` = one of the two `unwrap()`s panics -/
def version (rel : RNode) : Except Unit (Option (VC × Version)) :=
  match firstChildNode .VERSION rel with
  | none => .ok none
  | some vc =>
    match firstChildNode .CONSTRAINT vc with
    | some c =>
      if (versionText vc).isEmpty then .ok none
      else
        match VC.parse c.text with
        | none => .error ()
        | some k =>
          match Version.parse (versionText vc) with
          | none => .error ()
          | some ver => .ok (some (k, ver))
    | none => .ok none

/-- one step of the `filter_map` closure of `Relation::architectures()` (after fix f607859):
    state = (`negated`, names so far). A NOT token sets the flag, the next IDENT consumes it
    (`std::mem::take`) and is returned as `"!name"` -/
def archStep (st : Bool × List Str) (c : RNode) : Bool × List Str :=
  match c with
  | .tok k t =>
    if k = .NOT then (true, st.2)
    else if k = .IDENT then (false, st.2 ++ [if st.1 then '!' :: t else t])
    else st
  | .node _ _ => st

/-- `Relation::architectures()` (relations.rs:1433-1456): the IDENT tokens of the first
    ARCHITECTURES child, a negated one with its `!` -/
def architectures (rel : RNode) : Option (List Str) :=
  (firstChildNode .ARCHITECTURES rel).map fun a => (a.children.foldl archStep (false, [])).2

/-- `BuildProfile` (src/relations.rs:6-13) -/
inductive BuildProfile
  | Enabled (s : Str)
  | Disabled (s : Str)
  deriving DecidableEq, Repr

/-- `BuildProfile::from_str` (src/relations.rs:25-35); never fails -/
def BuildProfile.parse (s : Str) : BuildProfile :=
  match s with
  | '!' :: r => .Disabled r
  | _ => .Enabled s

/-- the `for token in profile.children_with_tokens()` loop of `profiles()` (relations.rs:1445-1461):
    state = (`ret` reversed, `current`) -/
def profileStep (st : List BuildProfile × List Str) (c : RNode) : List BuildProfile × List Str :=
  if c.kind = .WHITESPACE ∨ c.kind = .NEWLINE then
    if !st.2.isEmpty then (BuildProfile.parse st.2.flatten :: st.1, []) else st
  else if c.kind = .L_ANGLE ∨ c.kind = .R_ANGLE then st
  else (st.1, st.2 ++ [c.text])

/-- one PROFILES node -> one `Vec<BuildProfile>` (relations.rs:1441-1466) -/
def profileGroup (p : RNode) : List BuildProfile :=
  let st := p.children.foldl profileStep ([], [])
  (if !st.2.isEmpty then BuildProfile.parse st.2.flatten :: st.1 else st.1).reverse

/-- `Relation::profiles()` -/
def profiles (rel : RNode) : List (List BuildProfile) := (childNodes .PROFILES rel).map profileGroup

/-! ### facts used later (C10): a version token of the lexer always parses, and prints unchanged -/

theorem splitLastDash_eq {s b a : Str} (h : splitLastDash s = some (b, a)) : s = b ++ '-' :: a := by
  induction s generalizing b a with
  | nil => simp [splitLastDash] at h
  | cons c cs ih =>
    simp only [splitLastDash] at h
    split at h
    · rename_i b' a' hs
      simp at h; obtain ⟨rfl, rfl⟩ := h
      simp [ih hs]
    · split at h
      · rename_i hc; simp at h; obtain ⟨rfl, rfl⟩ := h; simp [hc]
      · simp at h

theorem matchUpstreamRev_display {s u : Str} {r : Option Str} (h : matchUpstreamRev s = some (u, r)) :
    u ++ (match r with | some r => '-' :: r | none => []) = s := by
  unfold matchUpstreamRev at h
  split at h
  · simp at h
  · split at h
    · simp at h; obtain ⟨rfl, rfl⟩ := h; simp
    · rename_i b a hs
      split at h
      · simp at h; obtain ⟨rfl, rfl⟩ := h; exact (splitLastDash_eq hs).symm
      · simp at h; obtain ⟨rfl, rfl⟩ := h; simp

theorem isUpstreamChar_of_ident {c : Char} (h : isIdentChar c = true) : isUpstreamChar c = true := by
  simp only [isIdentChar, isUpstreamChar, isRevChar, Bool.or_eq_true] at *
  rcases h with (((h | h) | h) | h) | h <;> simp [h]

theorem colon_not_ident : isIdentChar ':' = false := by decide

/-- (Since fixes 3b0cae0, 4ba50b0 the version text handed to `Version::from_str` is `IDENT` or
    `IDENT(:IDENT)+`; the second case is `Version.parse_epoch_idents` / `Version.parse_written` in
    Lemmas/RelAccessField.lean: it fails exactly for an all-digit first token >= 2^32.)
    An IDENT token of the lexer (non-empty, identifier characters only) is always a valid
    `debversion::Version` without epoch, and `Display` gives the token text back: the second
    `unwrap()` of `Relation::version()` cannot fail on a tree built by the parser -/
theorem Version.parse_ident (s : Str) (hne : s ≠ []) (hid : s.all isIdentChar = true) :
    ∃ v, Version.parse s = some v ∧ v.epoch = none ∧ v.display = s := by
  have hup : s.all isUpstreamChar = true := by
    rw [List.all_eq_true] at *
    exact fun c hc => isUpstreamChar_of_ident (hid c hc)
  have hnoepoch : ∀ rest, s.dropWhile isAsciiDigit ≠ ':' :: rest := by
    intro rest he
    have hmem : ':' ∈ s.dropWhile isAsciiDigit := by rw [he]; simp
    have hmem' : ':' ∈ s := (List.dropWhile_sublist _).subset hmem
    rw [List.all_eq_true] at hid
    have := hid ':' hmem'
    rw [colon_not_ident] at this; exact absurd this (by decide)
  have hm : ∃ u r, matchUpstreamRev s = some (u, r) := by
    unfold matchUpstreamRev
    have : (s.isEmpty || !s.all isUpstreamChar) = false := by
      cases s with
      | nil => exact absurd rfl hne
      | cons c cs => simp [hup]
    rw [if_neg (by simp [this])]
    split
    · exact ⟨_, _, rfl⟩
    · split <;> exact ⟨_, _, rfl⟩
  obtain ⟨u, r, hur⟩ := hm
  have hep : Version.epochAlt s = none := by
    unfold Version.epochAlt
    split
    · rename_i rest he; exact absurd he (hnoepoch rest)
    · rfl
  refine ⟨⟨none, u, r⟩, ?_, rfl, ?_⟩
  · simp only [Version.parse, hep, hur]
  · have := matchUpstreamRev_display hur
    simp only [Version.display]
    cases r <;> simpa using this

end Deb822Verif.Rel
