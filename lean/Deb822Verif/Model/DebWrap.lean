import Deb822Verif.Model.DebAccess
/-!
  Model of the wrap-and-sort reformatting of the lossless view (src/lossless.rs):
  `rebuild_value` (1245-1299), `Entry::wrap_and_sort` (935-1026), `Paragraph::wrap_and_sort`
  (714-773), `Deb822::wrap_and_sort` (386-449). `none` = the Rust code panics (`unwrap` on a node
  where a token is expected, `assert!(indentation > 0)`, `unreachable!()`).
-/
namespace Deb822Verif.Deb
open Node

inductive Indentation
  | fieldNameLength
  | spaces (n : Nat)
  deriving Repr, DecidableEq

structure WrapCfg where
  indentation : Indentation
  immediateEmptyLine : Bool
  maxLineLengthOneLiner : Option Nat
  deriving Repr

def utf8Len (s : Str) : Nat := Text.utf8Len s

/-- `rebuild_value`: the tokens appended to the ENTRY after KEY and COLON -/
def rebuildValue (tokens : List Tok) (keyLen indentation : Nat) (immediate : Bool)
    (maxLen : Option Nat) : List DNode :=
  let firstLineLen :=
    ((tokens.takeWhile fun t => t.1 != .NEWLINE).map fun t => utf8Len t.2).sum + keyLen + 2
  let hasNewline := tokens.any fun t => t.1 == .NEWLINE
  let fits := match maxLen with
    | some mll => decide (firstLineLen ≤ mll)
    | none => false
  if fits && !hasNewline then
    -- just copy the tokens; the value fits into one line
    tokens.map tk ++ [Node.tok .NEWLINE ['\n']]
  else
    let firstIsHash : Bool :=
      match tokens.find? (fun t => t.1 != .NEWLINE && t.1 != .WHITESPACE) with
      | some t => t.2.head? == some '#'
      | none => false
    let lead : DNode × Bool :=
      if immediate && hasNewline && !firstIsHash then (Node.tok .NEWLINE ['\n'], true) else (Node.tok .WHITESPACE [' '], false)
    let stripped := tokens.dropWhile fun t => t.1 == .NEWLINE || t.1 == .WHITESPACE
    let rec go (ts : List Tok) (lastNl : Bool) : List DNode × Bool :=
      match ts with
      | [] => ([], lastNl)
      | t :: ts' =>
        let r := go ts' (t.1 == .NEWLINE)
        ((if lastNl then [Node.tok .INDENT (List.replicate indentation ' ')] else []) ++ [tk t] ++ r.1, r.2)
    let body := go stripped lead.2
    lead.1 :: body.1 ++ (if body.2 then [] else [Node.tok .NEWLINE ['\n']])

/-- tokens of a child list if every child is a token -/
def allTokens : List DNode → Option (List Tok)
  | [] => some []
  | .tok k t :: cs => (allTokens cs).map ((k, t) :: ·)
  | .node _ _ :: _ => none

def dropTrailing (p : DNode → Bool) (l : List DNode) : List DNode :=
  (l.reverse.dropWhile p).reverse

/-- the formatter's output is lexed line by line with `lex_inline`, NEWLINE tokens in between -/
def lexLines : List Str → List Tok
  | [] => []
  | [l] => lexInline l
  | l :: m :: ls => lexInline l ++ (.NEWLINE, ['\n']) :: lexLines (m :: ls)

/-- comment tokens are re-emitted with their line terminator -/
def withNewlines : List Tok → List DNode
  | [] => []
  | t :: ts => (if t.1 = .COMMENT then [tk t, Node.tok .NEWLINE ['\n']] else [tk t]) ++ withNewlines ts

/-- `Entry::wrap_and_sort`; `fmt` = the value formatter `(key, value) ↦ text` -/
def entryWrap (cfg : WrapCfg) (fmt : Option (Str → Str → Str)) (e : DNode) : Option DNode :=
  let cs := e.children
  -- kinds that may not occur among an entry's children
  if cs.any (fun c => c.kind == .EMPTY_LINE || c.kind == .ENTRY || c.kind == .ROOT || c.kind == .PARAGRAPH) then none
  -- `text.unwrap()` on a KEY that is not a token cannot happen: KEY is a token kind
  else
    let heads : List DNode := cs.filterMap fun c =>
      match c with
      | .tok .KEY t => some (Node.tok .KEY t)
      | .tok .COLON _ => some (Node.tok .COLON [':'])
      | .node .COLON _ => some (Node.tok .COLON [':'])
      | _ => none
    let firstKey : Option Str := (cs.find? (isTokOf .KEY)).map tokTextOf
    let indentation : Nat := match cfg.indentation with
      | .spaces n => n
      | .fieldNameLength => match firstKey with
        | some k => utf8Len k
        | none => 1
    if indentation = 0 then none  -- assert!(indentation > 0)
    else
      let content := cs.filter fun c =>
        c.kind == .ERROR || c.kind == .COMMENT || c.kind == .VALUE || c.kind == .WHITESPACE || c.kind == .NEWLINE
      let content := dropTrailing (fun c => c.kind == .NEWLINE || c.kind == .WHITESPACE) content
      let plain : Option (List Tok) := allTokens content
      let tokens : Option (List Tok) :=
        match fmt with
        | some f =>
          if !(content.any fun c => c.kind == .ERROR || c.kind == .COMMENT) then
            -- concat of the token texts (nodes are skipped by `filter_map(as_token)`)
            let concat := (content.filterMap fun c => match c with | .tok _ t => some t | _ => none).flatten
            match entryKey e with
            | some k => some (lexLines (Text.splitOn '\n' (f k concat)))
            | none => none  -- `self.key().as_ref().unwrap()`
          else plain
        | none => plain
      match tokens with
      | none => none
      | some ts =>
        let keyLen := match entryKey e with | some k => utf8Len k | none => 0
        some (.node .ENTRY (heads ++ rebuildValue ts keyLen indentation cfg.immediateEmptyLine
          cfg.maxLineLengthOneLiner))

/-- split the children of a node into (pending trivia, unit) groups -/
def groupBy (isUnit : DNode → Bool) (isTrivia : DNode → Bool) :
    List DNode → List DNode → List (List DNode × DNode) × List DNode
  | [], cur => ([], cur)
  | c :: cs, cur =>
    if isUnit c then
      let r := groupBy isUnit isTrivia cs []
      ((cur, c) :: r.1, r.2)
    else if isTrivia c then groupBy isUnit isTrivia cs (cur ++ [c])
    else groupBy isUnit isTrivia cs cur

def mapM' {α β} (f : α → Option β) : List α → Option (List β)
  | [] => some []
  | a :: as => match f a, mapM' f as with
    | some b, some bs => some (b :: bs)
    | _, _ => none

/-- `Paragraph::wrap_and_sort`; `le` = the entry order (`sort_entries` returns `≠ Greater`) -/
def paragraphWrap (cfg : WrapCfg) (le : Option (DNode → DNode → Bool)) (fmt : Option (Str → Str → Str))
    (p : DNode) : Option DNode :=
  let g := groupBy (fun c => c.isNode && c.kind == .ENTRY)
    (fun c => c.kind == .ERROR || c.kind == .COMMENT) p.children []
  let entries := match le with
    | some f => g.1.mergeSort fun a b => f a.2 b.2
    | none => g.1
  -- `c.as_token().unwrap()` on the pending trivia
  match mapM' (fun (pe : List DNode × DNode) =>
      match allTokens pe.1, entryWrap cfg fmt pe.2 with
      | some pre, some e' => some (withNewlines pre ++ [e'])
      | _, _ => none) entries, allTokens g.2 with
  | some groups, some trailing => some (.node .PARAGRAPH (groups.flatten ++ withNewlines trailing))
  | _, _ => none

/-- what `Deb822::wrap_and_sort` keeps of an EMPTY_LINE node: its COMMENT / ERROR children -/
def emptyLineKeep (n : DNode) : List DNode :=
  n.children.filter fun c => c.kind == .COMMENT || c.kind == .ERROR

def groupRoot : List DNode → List DNode → List (List DNode × DNode) × List DNode
  | [], cur => ([], cur)
  | c :: cs, cur =>
    if c.isNode && c.kind == .PARAGRAPH then
      let r := groupRoot cs []
      ((cur, c) :: r.1, r.2)
    else if c.kind == .COMMENT || c.kind == .ERROR then groupRoot cs (cur ++ [c])
    else if c.kind == .EMPTY_LINE then groupRoot cs (cur ++ emptyLineKeep c)
    else groupRoot cs cur

def joinParas : List (List DNode) → List DNode
  | [] => []
  | [g] => g
  | g :: h :: gs => g ++ emptyLine' :: joinParas (h :: gs)
where emptyLine' : DNode := .node .EMPTY_LINE [Node.tok .NEWLINE ['\n']]

/-- `Deb822::wrap_and_sort`; `wrapPara` = the per-paragraph callback (identity when absent) -/
def deb822Wrap (le : Option (DNode → DNode → Bool)) (wrapPara : Option (DNode → Option DNode))
    (root : DNode) : Option DNode :=
  let g := groupRoot root.children []
  let paras := match le with
    | some f => g.1.mergeSort fun a b => f a.2 b.2
    | none => g.1
  match mapM' (fun (pp : List DNode × DNode) =>
      match allTokens pp.1, (match wrapPara with | some w => w pp.2 | none => some pp.2) with
      | some pre, some p' => some (withNewlines pre ++ [p'])
      | _, _ => none) paras, allTokens g.2 with
  | some groups, some trailing => some (.node .ROOT (joinParas groups ++ withNewlines trailing))
  | _, _ => none

end Deb822Verif.Deb
