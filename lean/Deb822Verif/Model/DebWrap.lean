import Deb822Verif.Model.DebAccess
/-!
  Model of the wrap-and-sort reformatting of the lossless view (src/lossless.rs):
  `rebuild_value` (1245-1299), `Entry::wrap_and_sort` (935-1026), `Paragraph::wrap_and_sort`
  (714-773), `Deb822::wrap_and_sort` (386-449). `none` = the Rust code panics (`unwrap` on a node
  where a token is expected, `assert!(indentation > 0)`, `unreachable!()`).
-/
namespace Deb822Verif.Deb
open Node

inductive Indentation
  | fieldNameLength
  | spaces (n : Nat)
  deriving Repr, DecidableEq

structure WrapCfg where
  indentation : Indentation
  immediateEmptyLine : Bool
  maxLineLengthOneLiner : Option Nat
  deriving Repr

def utf8Len (s : Str) : Nat := Text.utf8Len s

/-- the token loop of `rebuild_value` (lossless.rs:1287-1293): an INDENT in front of every token
    that follows a NEWLINE; returns the nodes and `last_was_newline` -/
def rbGo (indentation : Nat) : List Tok → Bool → List DNode × Bool
  | [], lastNl => ([], lastNl)
  | t :: ts, lastNl =>
    ((if lastNl then [Node.tok .INDENT (List.replicate indentation ' ')] else []) ++ [tk t]
      ++ (rbGo indentation ts (t.1 == .NEWLINE)).1, (rbGo indentation ts (t.1 == .NEWLINE)).2)

def rbFirstLineLen (tokens : List Tok) (keyLen : Nat) : Nat :=
  ((tokens.takeWhile fun t => t.1 != .NEWLINE).map fun t => utf8Len t.2).sum + keyLen + 2

def rbHasNewline (tokens : List Tok) : Bool := tokens.any fun t => t.1 == .NEWLINE

def rbFits (tokens : List Tok) (keyLen : Nat) (maxLen : Option Nat) : Bool :=
  match maxLen with
  | some mll => decide (rbFirstLineLen tokens keyLen ≤ mll)
  | none => false

/-- the first token that is not NEWLINE / WHITESPACE is a COMMENT (it must start its own line) -/
def rbFirstIsComment (tokens : List Tok) : Bool :=
  match tokens.find? (fun t => t.1 != .NEWLINE && t.1 != .WHITESPACE) with
  | some t => t.1 == .COMMENT
  | none => false

def rbFirstIsHash (tokens : List Tok) : Bool :=
  !rbFirstIsComment tokens &&
  match tokens.find? (fun t => t.1 != .NEWLINE && t.1 != .WHITESPACE) with
  | some t => t.2.head? == some '#'
  | none => false

def rbStrip (tokens : List Tok) : List Tok :=
  tokens.dropWhile fun t => t.1 == .NEWLINE || t.1 == .WHITESPACE

def rbClose (lastNl : Bool) : List DNode := if lastNl then [] else [Node.tok .NEWLINE ['\n']]

/-- `rebuild_value`: the tokens appended to the ENTRY after KEY and COLON -/
def rebuildValue (tokens : List Tok) (keyLen indentation : Nat) (immediate : Bool)
    (maxLen : Option Nat) : List DNode :=
  if rbFits tokens keyLen maxLen && !rbHasNewline tokens then
    -- just copy the tokens; the value fits into one line
    tokens.map tk ++ [Node.tok .NEWLINE ['\n']]
  else if rbFirstIsComment tokens || (immediate && rbHasNewline tokens && !rbFirstIsHash tokens) then
    Node.tok .NEWLINE ['\n'] :: (rbGo indentation (rbStrip tokens) true).1
      ++ rbClose (rbGo indentation (rbStrip tokens) true).2
  else
    Node.tok .WHITESPACE [' '] :: (rbGo indentation (rbStrip tokens) false).1
      ++ rbClose (rbGo indentation (rbStrip tokens) false).2

/-- tokens of a child list if every child is a token -/
def allTokens : List DNode → Option (List Tok)
  | [] => some []
  | .tok k t :: cs => (allTokens cs).map ((k, t) :: ·)
  | .node _ _ :: _ => none

def dropTrailing (p : DNode → Bool) (l : List DNode) : List DNode :=
  (l.reverse.dropWhile p).reverse

/-- the formatter's output is lexed line by line with `lex_inline`, NEWLINE tokens in between -/
def lexLines : List Str → List Tok
  | [] => []
  | [l] => lexInline l
  | l :: m :: ls => lexInline l ++ (.NEWLINE, ['\n']) :: lexLines (m :: ls)

/-- comment tokens are re-emitted with their line terminator -/
def withNewlines : List Tok → List DNode
  | [] => []
  | t :: ts => (if t.1 = .COMMENT then [tk t, Node.tok .NEWLINE ['\n']] else [tk t]) ++ withNewlines ts

/-- kinds that may not occur among an entry's children (`unreachable!()`) -/
def ewBadKinds (cs : List DNode) : Bool :=
  cs.any fun c => c.kind == .EMPTY_LINE || c.kind == .ENTRY || c.kind == .ROOT || c.kind == .PARAGRAPH

/-- KEY and COLON are re-emitted as they are met -/
def headOf (c : DNode) : Option DNode :=
  match c with
  | .tok .KEY t => some (Node.tok .KEY t)
  | .tok .COLON _ => some (Node.tok .COLON [':'])
  | .node .COLON _ => some (Node.tok .COLON [':'])
  | _ => none

def ewIndent (cfg : WrapCfg) (cs : List DNode) : Nat :=
  match cfg.indentation with
  | .spaces n => n
  | .fieldNameLength =>
    match (cs.find? (isTokOf .KEY)).map tokTextOf with
    | some k => utf8Len k
    | none => 1

def contentKinds (c : DNode) : Bool :=
  c.kind == .ERROR || c.kind == .COMMENT || c.kind == .VALUE || c.kind == .WHITESPACE || c.kind == .NEWLINE

/-- the value part: ERROR / COMMENT / VALUE / WHITESPACE / NEWLINE children, trailing whitespace
    and newlines stripped -/
def ewContent (cs : List DNode) : List DNode :=
  dropTrailing (fun c => c.kind == .NEWLINE || c.kind == .WHITESPACE) (cs.filter contentKinds)

/-- the tokens handed to `rebuild_value` (`none`: `into_token().unwrap()` / `key().unwrap()` panics) -/
def ewTokens (fmt : Option (Str → Str → Str)) (e : DNode) : Option (List Tok) :=
  match fmt with
  | some f =>
    if !((ewContent e.children).any fun c => c.kind == .ERROR || c.kind == .COMMENT) then
      match entryKey e with
      | some k =>
        some (lexLines (Text.splitOn '\n'
          (f k ((ewContent e.children).filterMap fun c => match c with | .tok _ t => some t | _ => none).flatten)))
      | none => none
    else allTokens (ewContent e.children)
  | none => allTokens (ewContent e.children)

def ewKeyLen (e : DNode) : Nat := match entryKey e with | some k => utf8Len k | none => 0

/-- `Entry::wrap_and_sort`; `fmt` = the value formatter `(key, value) ↦ text` -/
def entryWrap (cfg : WrapCfg) (fmt : Option (Str → Str → Str)) (e : DNode) : Option DNode :=
  if ewBadKinds e.children then none
  else if ewIndent cfg e.children = 0 then none  -- assert!(indentation > 0)
  else
    match ewTokens fmt e with
    | none => none
    | some ts =>
      some (.node .ENTRY (e.children.filterMap headOf ++
        rebuildValue ts (ewKeyLen e) (ewIndent cfg e.children) cfg.immediateEmptyLine cfg.maxLineLengthOneLiner))

/-- split the children of a node into (pending trivia, unit) groups -/
def groupBy (isUnit : DNode → Bool) (isTrivia : DNode → Bool) :
    List DNode → List DNode → List (List DNode × DNode) × List DNode
  | [], cur => ([], cur)
  | c :: cs, cur =>
    if isUnit c then
      let r := groupBy isUnit isTrivia cs []
      ((cur, c) :: r.1, r.2)
    else if isTrivia c then groupBy isUnit isTrivia cs (cur ++ [c])
    else groupBy isUnit isTrivia cs cur

def mapM' {α β} (f : α → Option β) : List α → Option (List β)
  | [] => some []
  | a :: as => match f a, mapM' f as with
    | some b, some bs => some (b :: bs)
    | _, _ => none

/-- `Paragraph::wrap_and_sort`; `le` = the entry order (`sort_entries` returns `≠ Greater`) -/
def paragraphWrap (cfg : WrapCfg) (le : Option (DNode → DNode → Bool)) (fmt : Option (Str → Str → Str))
    (p : DNode) : Option DNode :=
  let g := groupBy (fun c => c.isNode && c.kind == .ENTRY)
    (fun c => c.kind == .ERROR || c.kind == .COMMENT) p.children []
  -- every entry is reformatted first (a panic there aborts the whole call), then the results are sorted
  match mapM' (fun (pe : List DNode × DNode) =>
      match entryWrap cfg fmt pe.2 with
      | some e' => some (pe.1, e')
      | none => none) g.1 with
  | none => none
  | some wrapped =>
    let entries := match le with
      | some f => wrapped.mergeSort fun a b => f a.2 b.2
      | none => wrapped
    -- `c.as_token().unwrap()` on the pending trivia
    match mapM' (fun (pe : List DNode × DNode) =>
        match allTokens pe.1 with
        | some pre => some (withNewlines pre ++ [pe.2])
        | none => none) entries, allTokens g.2 with
    | some groups, some trailing => some (.node .PARAGRAPH (groups.flatten ++ withNewlines trailing))
    | _, _ => none

/-- what `Deb822::wrap_and_sort` keeps of an EMPTY_LINE node: its COMMENT / ERROR children -/
def emptyLineKeep (n : DNode) : List DNode :=
  n.children.filter fun c => c.kind == .COMMENT || c.kind == .ERROR

def groupRoot : List DNode → List DNode → List (List DNode × DNode) × List DNode
  | [], cur => ([], cur)
  | c :: cs, cur =>
    if c.isNode && c.kind == .PARAGRAPH then
      let r := groupRoot cs []
      ((cur, c) :: r.1, r.2)
    else if c.kind == .COMMENT || c.kind == .ERROR then groupRoot cs (cur ++ [c])
    else if c.kind == .EMPTY_LINE then groupRoot cs (cur ++ emptyLineKeep c)
    else groupRoot cs cur

def joinParas : List (List DNode) → List DNode
  | [] => []
  | [g] => g
  | g :: h :: gs => g ++ emptyLine' :: joinParas (h :: gs)
where emptyLine' : DNode := .node .EMPTY_LINE [Node.tok .NEWLINE ['\n']]

/-- `Deb822::wrap_and_sort`; `wrapPara` = the per-paragraph callback (identity when absent) -/
def deb822Wrap (le : Option (DNode → DNode → Bool)) (wrapPara : Option (DNode → Option DNode))
    (root : DNode) : Option DNode :=
  let g := groupRoot root.children []
  match mapM' (fun (pp : List DNode × DNode) =>
      match (match wrapPara with | some w => w pp.2 | none => some pp.2) with
      | some p' => some (pp.1, p')
      | none => none) g.1 with
  | none => none
  | some wrapped =>
  let paras := match le with
    | some f => wrapped.mergeSort fun a b => f a.2 b.2
    | none => wrapped
  match mapM' (fun (pp : List DNode × DNode) =>
      match allTokens pp.1, some pp.2 with
      | some pre, some p' =>
        -- an unterminated paragraph gets its line terminator (a NEWLINE token under the root):
        -- `new_paragraph.0.last_token().map_or(true, |t| t.kind() == NEWLINE)` (lossless.rs:455-459)
        let term : List DNode := match lastTok (p'.children) with
          | some t => if t.1 == .NEWLINE then [] else [Node.tok .NEWLINE ['\n']]
          | none => []
        some (withNewlines pre ++ [p'] ++ term)
      | _, _ => none) paras, allTokens g.2 with
  | some groups, some trailing => some (.node .ROOT (joinParas groups ++ withNewlines trailing))
  | _, _ => none

end Deb822Verif.Deb
