import Deb822Verif.Model.Text
/-! `Outcome`: the result of a Rust call that may panic (shared by the model families). -/
namespace Deb822Verif

/-- panics are values (DESIGN §2.1.1 item 3) -/
inductive Outcome (α : Type) where
  | ok (a : α)
  | panic (site : String)
  deriving DecidableEq, Repr

namespace Outcome
def map {α β} (f : α → β) : Outcome α → Outcome β
  | .ok a => .ok (f a)
  | .panic s => .panic s
def bind {α β} (o : Outcome α) (f : α → Outcome β) : Outcome β :=
  match o with
  | .ok a => f a
  | .panic s => .panic s
def isOk {α} : Outcome α → Bool
  | .ok _ => true
  | .panic _ => false
instance : Monad Outcome where
  pure := .ok
  bind := Outcome.bind
end Outcome

end Deb822Verif
