import Deb822Verif.Model.DebVersion
/-!
  Model of dependency satisfaction (C12):
  lossless `Relations::satisfied_by` (debian-control/src/lossless/relations.rs:675-677) and
  `Entry::satisfied_by` (878-897), which go through the accessors `Relation::name()` /
  `Relation::version()` (`Rel.name`, `Rel.version` of Model/RelAccess.lean);
  lossy `Relation::satisfied_by` (src/lossy/relations.rs:80-97) and `Relations::satisfied_by`
  (262-266); the three `VersionLookup` impls (src/lib.rs:107-140).

  The version order is a parameter of the evaluators. The `…O` forms take a comparison that may
  panic (`DebVersion.compareO`); the plain forms take a total `cmp : V → V → Ordering`.
-/
namespace Deb822Verif.RelSat
open Deb822Verif Rel

abbrev V := Rel.Version

/-- `VersionLookup::lookup_version` seen from the evaluators -/
abbrev Lookup := Str → Option V

/-- `impl VersionLookup for HashMap<String, Version>` (lib.rs:115-119): `self.get(package)`; the
    map given as an association list (first binding of a name) -/
def Lookup.ofMap (m : List (Str × V)) : Lookup := fun n => (m.find? fun e => e.1 == n).map (·.2)

/-- `impl<F: Fn(&str) -> Option<Version>> VersionLookup for F` (lib.rs:121-128): `self(name)` -/
def Lookup.ofFn (f : Str → Option V) : Lookup := fun n => f n

/-- `impl VersionLookup for (String, Version)` (lib.rs:130-138) -/
def Lookup.ofPair (p : Str × V) : Lookup := fun n => if n = p.1 then some p.2 else none

/-- the `match vc { … }` of both evaluators: `actual OP version` through `Ord`/`PartialEq`, which
    for `debversion::Version` are all defined from `cmp` (lib.rs:177-189) -/
def holds : VC → Ordering → Bool
  | .GreaterThanEqual, .lt => false | .GreaterThanEqual, .eq => true  | .GreaterThanEqual, .gt => true
  | .LessThanEqual,    .lt => true  | .LessThanEqual,    .eq => true  | .LessThanEqual,    .gt => false
  | .Equal,            .lt => false | .Equal,            .eq => true  | .Equal,            .gt => false
  | .GreaterThan,      .lt => false | .GreaterThan,      .eq => false | .GreaterThan,      .gt => true
  | .LessThan,         .lt => true  | .LessThan,         .eq => false | .LessThan,         .gt => false

/-- `Iterator::any` with a predicate that may panic: stops at the first `true` -/
def anyO {α} (f : α → Outcome Bool) : List α → Outcome Bool
  | [] => .ok false
  | a :: as =>
    match f a with
    | .panic s => .panic s
    | .ok true => .ok true
    | .ok false => anyO f as

/-- `Iterator::all`: stops at the first `false` -/
def allO {α} (f : α → Outcome Bool) : List α → Outcome Bool
  | [] => .ok true
  | a :: as =>
    match f a with
    | .panic s => .panic s
    | .ok false => .ok false
    | .ok true => allO f as

/-! ## lossless evaluator (over the tree, through the accessors) -/

/-- the closure of `Entry::satisfied_by` (relations.rs:879-896) for one RELATION node -/
def relSatLO (cmpO : V → V → Outcome Ordering) (lk : Lookup) (r : RNode) : Outcome Bool :=
  match name r with
  | none => .panic "relations.rs:1248 Relation::name unwrap on None"
  | some n =>
    match version r with
    | .error _ => .panic "relations.rs:1328-1329 Relation::version unwrap"
    | .ok none => .ok (lk n).isSome
    | .ok (some (vc, w)) =>
      match lk n with
      | none => .ok false
      | some v => (cmpO v w).map (holds vc)

/-- `Entry::satisfied_by`: `self.relations().any(..)` -/
def entrySatLO (cmpO : V → V → Outcome Ordering) (lk : Lookup) (e : RNode) : Outcome Bool :=
  anyO (relSatLO cmpO lk) (relations e)

/-- `Relations::satisfied_by`: `self.entries().all(|e| e.satisfied_by(..))` -/
def relationsSatLO (cmpO : V → V → Outcome Ordering) (lk : Lookup) (root : RNode) : Outcome Bool :=
  allO (entrySatLO cmpO lk) (entries root)

/-- a total comparison as a comparison that never panics -/
def total (cmp : V → V → Ordering) : V → V → Outcome Ordering := fun v w => .ok (cmp v w)

def relSatL (cmp : V → V → Ordering) := relSatLO (total cmp)
def entrySatL (cmp : V → V → Ordering) := entrySatLO (total cmp)
def relationsSatL (cmp : V → V → Ordering) := relationsSatLO (total cmp)

/-! ## lossy evaluator (over records) -/

/-- the two fields of `lossy::Relation` the evaluator reads -/
structure RelY where
  name : Str
  version : Option (VC × V)
  deriving DecidableEq, Repr

/-- a field: entries (AND) of alternatives (OR) -/
abbrev FieldY := List (List RelY)

/-- `lossy::Relation::satisfied_by` (lossy/relations.rs:80-97) -/
def relSatYO (cmpO : V → V → Outcome Ordering) (lk : Lookup) (r : RelY) : Outcome Bool :=
  match r.version with
  | some (vc, w) =>
    match lk r.name with
    | some v => (cmpO v w).map (holds vc)
    | none => .ok false
  | none => .ok (lk r.name).isSome

/-- `lossy::Relations::satisfied_by` (lossy/relations.rs:262-266) -/
def relationsSatYO (cmpO : V → V → Outcome Ordering) (lk : Lookup) (f : FieldY) : Outcome Bool :=
  allO (fun e => anyO (relSatYO cmpO lk) e) f

/-- with a total order nothing can panic: plain Booleans -/
def relSatY (cmp : V → V → Ordering) (lk : Lookup) (r : RelY) : Bool :=
  match r.version with
  | some (vc, w) =>
    match lk r.name with
    | some v => holds vc (cmp v w)
    | none => false
  | none => (lk r.name).isSome

def entrySatY (cmp : V → V → Ordering) (lk : Lookup) (e : List RelY) : Bool := e.any (relSatY cmp lk)
def relationsSatY (cmp : V → V → Ordering) (lk : Lookup) (f : FieldY) : Bool :=
  f.all (entrySatY cmp lk)

/-! ## the field a tree denotes: the accessor view -/

def mapO {α β} (f : α → Outcome β) : List α → Outcome (List β)
  | [] => .ok []
  | a :: as =>
    match f a with
    | .panic s => .panic s
    | .ok b =>
      match mapO f as with
      | .panic s => .panic s
      | .ok bs => .ok (b :: bs)

/-- (`name()`, `version()`) of a RELATION node; panics where an accessor panics -/
def viewRel (r : RNode) : Outcome RelY :=
  match name r with
  | none => .panic "relations.rs:1248 Relation::name unwrap on None"
  | some n =>
    match version r with
    | .error _ => .panic "relations.rs:1328-1329 Relation::version unwrap"
    | .ok v => .ok ⟨n, v⟩

/-- the field denoted by a tree: its entries' relations seen through `name()`/`version()` -/
def viewL (root : RNode) : Outcome FieldY :=
  mapO (fun e => mapO viewRel (relations e)) (entries root)

end Deb822Verif.RelSat
