import Deb822Verif.Model.DebVersion
/-!
  Byte-index twin of `DebVersion.compareO`: `debversion::Version::cmp` on a `Version` value that was
  NOT produced by `Version::from_str` (the three fields are `pub`, a caller — e.g. a
  `VersionLookup` closure — can build `Version { upstream_version: "é1".into(), .. }` literally).

  `version_cmp_part` (debversion 0.4.4, lib.rs:98-158) cuts its two strings with

  ```rust
  let a_non_digit = &a[..a.chars().position(|c| c.is_ascii_digit()).unwrap_or(a.len())];
  ```

  i.e. it uses a CHARACTER index (`position` over `chars()`) — or the BYTE length — as a BYTE offset.
  On ASCII text the two coincide, and `cmpPartB` below is `cmpPartO` (Lemmas/VerRaw.lean). With a
  multi-byte character before the first digit the offset may fall inside a character: `&a[..n]`
  panics ("byte index n is not a char boundary"). `compareO` / `compare` (Model/DebVersion.lean) do
  not have this branch; they are left unchanged and are the model on the image of
  `Version::from_str`. This file is the model for hand-built values (harness op `ver.cmpraw`).
-/
namespace Deb822Verif.DebVersion
open Deb822Verif.Rel (Version isAsciiDigit digitsVal)

/-- `s.split_at(n)` / `(&s[..n], &s[n..])` with a byte offset `n`; `none` = the slice panics
    (`n` past the end, or inside a character) -/
def splitBytes (n : Nat) : Str → Option (Str × Str)
  | [] => if n = 0 then some ([], []) else none
  | c :: cs =>
    if n = 0 then some ([], c :: cs)
    else if c.utf8Size ≤ n then (splitBytes (n - c.utf8Size) cs).map fun p => (c :: p.1, p.2)
    else none

/-- `s.chars().position(p).unwrap_or(s.len())`: a character index, or the byte length -/
def posOrLen (p : Char → Bool) (s : Str) : Nat :=
  match s.findIdx? p with
  | some i => i
  | none => Text.utf8Len s

/-- `let x = &s[..s.chars().position(p).unwrap_or(s.len())]; s = &s[x.len()..];` -/
def cutB (p : Char → Bool) (s : Str) : Option (Str × Str) := splitBytes (posOrLen p s) s

theorem splitBytes_append : ∀ (n : Nat) (s : Str) (p : Str × Str), splitBytes n s = some p → p.1 ++ p.2 = s
  | n, [], p, h => by
    simp only [splitBytes] at h
    split at h
    · simp at h; subst h; rfl
    · simp at h
  | n, c :: cs, p, h => by
    simp only [splitBytes] at h
    split at h
    · simp at h; subst h; rfl
    · split at h
      · cases hq : splitBytes (n - c.utf8Size) cs with
        | none => simp [hq] at h
        | some q =>
          simp only [hq, Option.map_some, Option.some.injEq] at h
          subst h
          simp [splitBytes_append _ cs q hq]
      · simp at h

/-- a cut with a positive offset takes at least one character -/
theorem splitBytes_pos {n : Nat} {c : Char} {cs : Str} {p : Str × Str} (hn : 0 < n)
    (h : splitBytes n (c :: cs) = some p) : p.1 ≠ [] := by
  simp only [splitBytes] at h
  split at h
  · omega
  · split at h
    · cases hq : splitBytes (n - c.utf8Size) cs with
      | none => simp [hq] at h
      | some q =>
        simp only [hq, Option.map_some, Option.some.injEq] at h
        subst h; simp
    · simp at h

theorem utf8Size_pos' (c : Char) : 0 < c.utf8Size := Char.utf8Size_pos c

theorem posOrLen_pos {p : Char → Bool} {c : Char} {cs : Str} (h : p c = false) : 0 < posOrLen p (c :: cs) := by
  unfold posOrLen
  cases hf : (c :: cs).findIdx? p with
  | none =>
    simp only [Text.utf8Len, List.map_cons, List.sum_cons]
    have := utf8Size_pos' c
    omega
  | some i =>
    simp only [List.findIdx?_cons, h] at hf
    cases hg : List.findIdx? p cs with
    | none => simp [hg] at hf
    | some j =>
      simp [hg] at hf
      show 0 < i
      omega

/-- one round of `version_cmp_part` on a non-empty string consumes a character of it -/
theorem cutB_progress {s : Str} (hs : s ≠ []) {pa qa : Str × Str}
    (h1 : cutB isAsciiDigit s = some pa) (h2 : cutB (fun c => !isAsciiDigit c) pa.2 = some qa) :
    qa.2.length < s.length := by
  have e1 := splitBytes_append _ _ _ h1
  have e2 := splitBytes_append _ _ _ h2
  have l1 : s.length = pa.1.length + pa.2.length := by rw [← e1]; simp
  have l2 : pa.2.length = qa.1.length + qa.2.length := by rw [← e2]; simp
  by_cases hp : pa.1 = []
  · -- nothing cut off: `s` starts with a digit, the digit cut takes it
    rw [hp] at e1
    simp only [List.nil_append] at e1
    cases s with
    | nil => exact absurd rfl hs
    | cons c cs =>
      have hc : isAsciiDigit c = true := by
        cases hd : isAsciiDigit c
        · have := splitBytes_pos (posOrLen_pos (p := isAsciiDigit) (cs := cs) hd) h1
          exact absurd hp this
        · rfl
      rw [e1] at h2
      have := splitBytes_pos (posOrLen_pos (p := fun c => !isAsciiDigit c) (cs := cs) (by simp [hc])) h2
      have : 0 < qa.1.length := List.length_pos_iff.2 this
      rw [hp] at l1
      simp at l1 ⊢
      omega
  · have : 0 < pa.1.length := List.length_pos_iff.2 hp
    omega

/-- **`version_cmp_part` as it runs on arbitrary `String`s** (character index used as byte offset;
    `order`'s `unreachable!()` on a digit; `parse::<i32>().unwrap()`) -/
def cmpPartB (a b : Str) : Outcome Ordering :=
  if hne : a = [] ∧ b = [] then .ok .eq
  else
    match ha : cutB isAsciiDigit a with
    | none => .panic "debversion lib.rs:101 &a[..n]: byte index is not a char boundary"
    | some pa =>
      match hb : cutB isAsciiDigit b with
      | none => .panic "debversion lib.rs:105 &b[..n]: byte index is not a char boundary"
      | some pb =>
        if pa.1.any isAsciiDigit || pb.1.any isAsciiDigit then
          .panic "debversion lib.rs:50 unreachable!() (digit in a non-digit run)"
        else
          match nonDigitCmp pa.1 pb.1 with
          | .eq =>
            match ha2 : cutB (fun c => !isAsciiDigit c) pa.2 with
            | none => .panic "debversion lib.rs:120 &a[..n]: byte index is not a char boundary"
            | some qa =>
              match hb2 : cutB (fun c => !isAsciiDigit c) pb.2 with
              | none => .panic "debversion lib.rs:124 &b[..n]: byte index is not a char boundary"
              | some qb =>
                match parseI32 qa.1 with
                | .panic s => .panic s
                | .ok x =>
                  match parseI32 qb.1 with
                  | .panic s => .panic s
                  | .ok y =>
                    match natCmp x y with
                    | .eq => cmpPartB qa.2 qb.2
                    | o => .ok o
          | o => .ok o
termination_by a.length + b.length
decreasing_by
  have la : qa.2.length ≤ a.length := by
    have e1 := splitBytes_append _ _ _ ha
    have e2 := splitBytes_append _ _ _ ha2
    rw [← e1, ← e2]; simp; omega
  have lb : qb.2.length ≤ b.length := by
    have e1 := splitBytes_append _ _ _ hb
    have e2 := splitBytes_append _ _ _ hb2
    rw [← e1, ← e2]; simp; omega
  by_cases h : a = []
  · have hb' : b ≠ [] := fun e => hne ⟨h, e⟩
    have := cutB_progress hb' hb hb2
    omega
  · have := cutB_progress h ha ha2
    omega

/-- **`Version::cmp` on hand-built values** -/
def compareB (v w : Version) : Outcome Ordering :=
  if epochOf v ≠ epochOf w then .ok (natCmp (epochOf v) (epochOf w))
  else
    match cmpPartB v.upstream w.upstream with
    | .ok .eq => cmpPartB (revOf v) (revOf w)
    | r => r

end Deb822Verif.DebVersion
