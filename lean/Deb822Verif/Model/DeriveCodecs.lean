import Deb822Verif.Model.Derive
import Deb822Verif.Model.Codec
import Deb822Verif.Model.RelLossy
/-
  Leaf codecs used by the deriving structs of the workspace: for every
  (serialize_with, deserialize_with, Rust type) triple that occurs in `Gen/Structs.lean`
  the hand-written `registry` gives either
    * `modelled c`     a Lean model of the pair with its domain `c.canon` (round-trip lemma in Props/C16),
    * `noRoundTrip c w` a model of the pair and a value `w` that does not survive it (no entry at present),
    * `external why`   the pair is not modelled here (Relations, Url, Version, dates …): the harness
                       supplies, per request, what the real codec answers; the property's hypothesis
                       "the field's codec round-trips" is then checked on the real code by the worker.
  Custom codec functions are named `<module>.<fn>`; their source text is pinned in Props/C16
  (`C16_codec_sources_pinned`) so that an edit in /repo forces a review of the model.
-/
namespace Deb822Verif.Derive
open Deb822Verif Text Enum

/-- field values of all modelled leaf types -/
inductive Val
  | str (s : Str)
  | bool (b : Bool)
  | nat (n : Nat)
  | list (l : List Str)
  /-- `HashMap<String,String>` as a key-sorted association list -/
  | map (m : List (Str × Str))
  /-- keyword enumeration: the Rust variant name -/
  | kw (v : Str)
  | vcs (v : Codec.ParsedVcs)
  | fwd (f : Codec.Forwarded)
  | origin (o : Codec.Origin)
  | originField (c : Option Str) (o : Codec.Origin)
  | license (l : Codec.License)
  | sig (s : Codec.Signature)
  /-- value of an external codec, by its canonical serialisation -/
  | ext (canon : Str)
  deriving DecidableEq, Repr

structure LeafCodec where
  ser : Val → Str
  de : Str → Except Str Val
  /-- the values on which `de (ser v) = ok v` is claimed -/
  canon : Val → Prop

inductive Kind
  | modelled (c : LeafCodec)
  | noRoundTrip (c : LeafCodec) (witness : Val)
  | external (why : String)

/-! ### scalars -/

def strCodec : LeafCodec where
  ser := fun v => match v with | .str s => s | _ => []
  de := fun t => .ok (.str t)
  canon := fun v => ∃ s, v = .str s

def boolText (b : Bool) : Str := if b then "true".toList else "false".toList

/-- `bool::from_str` / `ToString` -/
def boolCodec : LeafCodec where
  ser := fun v => match v with | .bool b => boolText b | _ => []
  de := fun t =>
    if t = "true".toList then .ok (.bool true)
    else if t = "false".toList then .ok (.bool false)
    else .error "provided string was not `true` or `false`".toList
  canon := fun v => ∃ b, v = .bool b

def eEmpty : Str := "cannot parse integer from empty string".toList
def eDigit : Str := "invalid digit found in string".toList
def eOverflow : Str := "number too large to fit in target type".toList

def unsignedDigits (bound : Nat) : Nat → Str → Except Str Nat
  | acc, [] => .ok acc
  | acc, c :: cs =>
    match Codec.digitVal c with
    | none => .error eDigit
    | some d => if acc * 10 + d < bound then unsignedDigits bound (acc * 10 + d) cs else .error eOverflow

/-- `u32::from_str` / `usize::from_str` with the `ParseIntError` texts -/
def parseUnsigned (bound : Nat) (s : Str) : Except Str Nat :=
  match s with
  | [] => .error eEmpty
  | ['+'] => .error eDigit
  | ['-'] => .error eDigit
  | '+' :: rest => unsignedDigits bound 0 rest
  | _ => unsignedDigits bound 0 s

def natCodec (bound : Nat) : LeafCodec where
  ser := fun v => match v with | .nat n => Codec.decDigits n | _ => []
  de := fun t => match parseUnsigned bound t with | .ok n => .ok (.nat n) | .error e => .error e
  canon := fun v => ∃ n, v = .nat n ∧ n < bound

def yesnoText (b : Bool) : Str := if b then "yes".toList else "no".toList

/-- `deserialize_yesno` / `serialize_yesno`; the error text differs between the three copies -/
def yesnoCodec (err : Str → Str) : LeafCodec where
  ser := fun v => match v with | .bool b => yesnoText b | _ => []
  de := fun t =>
    if t = "yes".toList then .ok (.bool true)
    else if t = "no".toList then .ok (.bool false)
    else .error (err t)
  canon := fun v => ∃ b, v = .bool b

def errYesnoControl (t : Str) : Str := "invalid value for yesno: ".toList ++ t
def errYesnoApt (_ : Str) : Str := "Invalid value for yes/no field".toList

/-- the convert.rs test pair `to_bool` / `from_bool`: anything but `ja` reads as false -/
def jaNeeCodec : LeafCodec where
  ser := fun v => match v with | .bool true => "ja".toList | _ => "nee".toList
  de := fun t => .ok (.bool (t = "ja".toList))
  canon := fun v => ∃ b, v = .bool b

/-! ### keyword enumerations (tables of `Gen/Enums.lean`) -/

def enumCodec (e : EnumSpec) (err : Str → Str) : LeafCodec where
  ser := fun v => match v with | .kw k => (printOf e k).getD [] | _ => []
  de := fun t => match parseOf e t with | some k => .ok (.kw k) | none => .error (err t)
  canon := fun v => ∃ k, v = .kw k ∧ k ∈ e.variants

def errPriority (t : Str) : Str := "Invalid priority: ".toList ++ t
def errMultiArch (t : Str) : Str := "Invalid multiarch: ".toList ++ t
def errRepoType (_ : Str) : Str := "Invalid repository type".toList

/-! ### lists -/

def joinWith (sep : Str) (l : List Str) : Str := Text.join sep l

def listSer (sep : Str) (v : Val) : Str := match v with | .list l => joinWith sep l | _ => []

/-- `split_whitespace` / `join(" ")` (components, architectures, binaries, string chains, words) -/
def wordsCodec : LeafCodec where
  ser := listSer [' ']
  de := fun t => .ok (.list (splitWhitespace t))
  canon := fun v => ∃ l, v = .list l ∧ ∀ w ∈ l, w ≠ [] ∧ ∀ c ∈ w, isWhitespace c = false

/-- `split_whitespace` / `join("\n")` (copyright `Files`, `Files-Excluded`) -/
def fileListCodec : LeafCodec where
  ser := listSer ['\n']
  de := fun t => .ok (.list (splitWhitespace t))
  canon := wordsCodec.canon

/-- `join("\n")` / `if text.is_empty() { [] } else { text.split('\n') }` (`Package-List`, `Copyright`) -/
def splitLinesCodec : LeafCodec where
  ser := listSer ['\n']
  de := fun t => .ok (.list (if t = [] then [] else splitOn '\n' t))
  canon := fun v => ∃ l, v = .list l ∧ l ≠ [[]] ∧ ∀ w ∈ l, '\n' ∉ w

/-- `lines()` / `join("\n")` (ftpmaster `Sources`, `Binaries`) -/
def linesCodec : LeafCodec where
  ser := listSer ['\n']
  de := fun t => .ok (.list (Text.lines t))
  canon := fun v => ∃ l, v = .list l ∧ ∀ w ∈ l, w ≠ [] ∧ '\n' ∉ w ∧ w.getLast? ≠ some '\r'

/-- `String`'s `Ord` (byte-wise = code-point order), as `≤` -/
def strLe (a b : Str) : Bool := !Codec.strLt b a

/-- `v.sort()` on a `Vec<String>`, modelled by `List.mergeSort` -/
def sortStrings (l : List Str) : List Str := l.mergeSort strLe

/-- repository types: `split_whitespace`, each a `RepositoryType`, into a `HashSet` (kept here as the
    sorted list of its printed keywords); `serialize_types`: the strings sorted, joined by `\n` -/
def insertSorted (x : Str) : List Str → List Str
  | [] => [x]
  | y :: r => if x = y then y :: r else if Codec.strLt x y then x :: y :: r else y :: insertSorted x r

def typesDe : List Str → List Str → Except Str (List Str)
  | [], acc => .ok acc
  | w :: ws, acc =>
    match parseOf Gen.Enums.repositoryType w with
    | none => .error (errRepoType w)
    | some k => typesDe ws (insertSorted ((printOf Gen.Enums.repositoryType k).getD []) acc)

def typesCodec : LeafCodec where
  ser := fun v => match v with | .list l => joinWith ['\n'] (sortStrings l) | _ => []
  de := fun t => match typesDe (splitWhitespace t) [] with | .ok l => .ok (.list l) | .error e => .error e
  canon := fun v => v = .list [] ∨ v = .list [c!"deb"] ∨ v = .list [c!"deb-src"]
    ∨ v = .list [c!"deb", c!"deb-src"]

/-! ### the buildinfo environment -/

def envDe : List Str → List (Str × Str) → Except Str (List (Str × Str))
  | [], m => .ok m
  | l :: ls, m =>
    match Codec.splitOnFirst ['='] l with
    | none => .error "Invalid environment variable".toList
    | some kv => envDe ls (Codec.mapInsert kv.1 kv.2 m)

def envPiece (p : Str × Str) : Str := p.1 ++ '=' :: p.2

/-- `serialize_env`: the `K=V` strings sorted, joined by `\n` (no trailing newline) -/
def envSer (m : List (Str × Str)) : Str := joinWith ['\n'] (sortStrings (m.map envPiece))

/-- the `HashMap` in canonical form: keys strictly increasing -/
def MapSorted (m : List (Str × Str)) : Prop := m.Pairwise (fun p q => Codec.strLt p.1 q.1 = true)

def envCodec : LeafCodec where
  ser := fun v => match v with | .map m => envSer m | _ => []
  de := fun t => match envDe (Text.lines t) [] with | .ok m => .ok (.map m) | .error e => .error e
  canon := fun v => ∃ m, v = .map m ∧ MapSorted m
    ∧ ∀ p ∈ m, '=' ∉ p.1 ∧ '\n' ∉ p.1 ∧ '\n' ∉ p.2 ∧ (envPiece p).getLast? ≠ some '\r'

/-! ### typed values of property C18 (models of `Model/Codec.lean`) -/

def vcsCodec : LeafCodec where
  ser := fun v => match v with | .vcs x => x.print | _ => []
  de := fun t => .ok (.vcs (Codec.ParsedVcs.parse t))
  canon := fun v => ∃ x, v = .vcs x ∧ Codec.ParsedVcs.parse x.print = x

def fwdCodec : LeafCodec where
  ser := fun v => match v with | .fwd x => x.print | _ => []
  de := fun t => .ok (.fwd (Codec.Forwarded.parse t))
  canon := fun v => ∃ x, v = .fwd x ∧ Codec.Forwarded.parse x.print = x

def originCodec : LeafCodec where
  ser := fun v => match v with | .origin x => x.print | _ => []
  de := fun t => .ok (.origin (Codec.Origin.parse t))
  canon := fun v => ∃ x, v = .origin x ∧ Codec.Origin.parse x.print = x

def originFieldCodec : LeafCodec where
  ser := fun v => match v with | .originField c o => Codec.formatOrigin c o | _ => []
  de := fun t => .ok (.originField (Codec.parseOrigin t).1 (Codec.parseOrigin t).2)
  canon := fun v => ∃ c o, v = .originField c o ∧ Codec.parseOrigin (Codec.formatOrigin c o) = (c, o)

def licenseCodec : LeafCodec where
  ser := fun v => match v with | .license x => x.print | _ => []
  de := fun t => .ok (.license (Codec.License.parse t))
  canon := fun v => ∃ x, v = .license x ∧ Codec.License.parse x.print = x

def sigCodec : LeafCodec where
  ser := fun v => match v with | .sig x => x.print | _ => []
  de := fun t => .ok (.sig (Codec.Signature.parse t))
  canon := fun v => ∃ x, v = .sig x ∧ Codec.Signature.parse x.print = x

/-- external codecs: the value is its canonical text; `de` is supplied per request by the harness
    (this default is only used when nothing was supplied) -/
def extCodec : LeafCodec where
  ser := fun v => match v with | .ext c => c | _ => []
  de := fun t => .ok (.ext t)
  canon := fun _ => False

/-! ### two "external" codecs that have models in this framework (Props/C20Ext.lean)

  The registry below still lists them as `external` (the harness answers them per request, which also
  supplies the exact error texts); these definitions are what those answers must be: the driver
  `Driver/TypedDoc.lean` compares every supplied answer for a `Relations` / `debversion::Version` field
  with them, and `Props/C20Ext` proves the per-field conditions of C20 for them. -/

/-- lossy `debian_control::lossy::Relations`: `FromStr` then `Display` (Model/RelLossy.lean). The value
    is kept as its printed text, like every value of an external codec; the error text is the model's
    (approximate where Rust prints `{:?}`). -/
def relationsCodec : LeafCodec where
  ser := extCodec.ser
  de := fun t =>
    match Rel.Lossy.readRelations t with
    | .ok rs => .ok (.ext (Rel.Lossy.showRelations rs))
    | .error e => .error e.toList
  canon := fun v => ∃ rs, Rel.Lossy.readRelations (Rel.Lossy.showRelations rs) = .ok rs
    ∧ v = .ext (Rel.Lossy.showRelations rs)

/-- `debversion::Version`: `FromStr` then `Display` (Model/RelAccess.lean). The model has no error
    text (`Option`); the text given here is the crate's for a regex mismatch (an epoch above `u32` has
    another one) and is not part of any claim. -/
def versionCodec : LeafCodec where
  ser := extCodec.ser
  de := fun t =>
    match Rel.Version.parse t with
    | some v => .ok (.ext v.display)
    | none => .error (c!"Invalid version string: " ++ t)
  canon := fun v => ∃ x, Rel.Version.parse x.display = some x ∧ v = .ext x.display

/-! ### the registry -/

def registry : List ((Str × Str × Str) × Kind) := [
  ((c!"", c!"", c!"String"), .modelled strCodec),
  ((c!"", c!"", c!"bool"), .modelled boolCodec),
  ((c!"", c!"", c!"u32"), .modelled (natCodec (2 ^ 32))),
  ((c!"", c!"", c!"usize"), .modelled (natCodec Codec.usizeBound)),
  ((c!"", c!"", c!"i32"), .external "only in the test-local structs of src/convert.rs (not reachable from the harness)"),
  ((c!"", c!"", c!"Priority"), .modelled (enumCodec Gen.Enums.priority errPriority)),
  ((c!"", c!"", c!"crate::fields::Priority"), .modelled (enumCodec Gen.Enums.priority errPriority)),
  ((c!"", c!"", c!"crate::fields::MultiArch"), .modelled (enumCodec Gen.Enums.multiArch errMultiArch)),
  ((c!"", c!"", c!"MultiArch"), .modelled (enumCodec Gen.Enums.multiArch errMultiArch)),
  ((c!"", c!"", c!"YesNoForce"), .modelled (enumCodec Gen.Enums.yesNoForce errRepoType)),
  ((c!"", c!"", c!"crate::vcs::ParsedVcs"), .modelled vcsCodec),
  ((c!"", c!"", c!"Forwarded"), .modelled fwdCodec),
  ((c!"", c!"", c!"AppliedUpstream"), .modelled originCodec),
  ((c!"", c!"", c!"License"), .modelled licenseCodec),
  ((c!"", c!"", c!"Signature"), .modelled sigCodec),
  ((c!"", c!"", c!"Relations"), .external "debian_control::lossy::Relations FromStr/Display (relation grammar: properties C09-C14)"),
  ((c!"", c!"", c!"url::Url"), .external "url crate"),
  ((c!"", c!"", c!"debversion::Version"), .external "debversion crate"),
  ((c!"buildinfo.serialize_version", c!"buildinfo.deserialize_version", c!"debversion::Version"), .external "debversion crate via one-line wrappers"),
  ((c!"dep3.serialize_date", c!"dep3.deserialize_date", c!"chrono::NaiveDate"), .external "chrono, format %Y-%m-%d"),
  ((c!"aptsources.serialize_uris", c!"aptsources.deserialize_uris", c!"Vec<Url>"), .external "url crate, split_whitespace / join \" \""),
  ((c!"control.serialize_yesno", c!"control.deserialize_yesno", c!"bool"), .modelled (yesnoCodec errYesnoControl)),
  ((c!"aptsources.serializer_yesno", c!"aptsources.deserialize_yesno", c!"bool"), .modelled (yesnoCodec errYesnoApt)),
  ((c!"derive.syn_ser_yesno", c!"derive.syn_de_yesno", c!"bool"), .modelled (yesnoCodec errYesnoControl)),
  ((c!"convert.from_bool", c!"convert.to_bool", c!"bool"), .modelled jaNeeCodec),
  ((c!"apt.join_whitespace", c!"apt.deserialize_components", c!"Vec<String>"), .modelled wordsCodec),
  ((c!"apt.join_whitespace", c!"apt.deserialize_architectures", c!"Vec<String>"), .modelled wordsCodec),
  ((c!"apt.join_whitespace", c!"apt.deserialize_binaries", c!"Vec<String>"), .modelled wordsCodec),
  ((c!"aptsources.serialize_string_chain", c!"aptsources.deserialize_string_chain", c!"Vec<String>"), .modelled wordsCodec),
  ((c!"derive.syn_ser_words", c!"derive.syn_de_words", c!"Vec<String>"), .modelled wordsCodec),
  ((c!"apt.join_lines", c!"apt.deserialize_package_list", c!"Vec<String>"), .modelled splitLinesCodec),
  ((c!"debiancopyright.serialize_copyrights", c!"debiancopyright.deserialize_copyrights", c!"Vec<String>"), .modelled splitLinesCodec),
  ((c!"debiancopyright.serialize_file_list", c!"debiancopyright.deserialize_file_list", c!"Vec<String>"), .modelled fileListCodec),
  ((c!"ftpmaster.serialize_list", c!"ftpmaster.deserialize_list", c!"Vec<String>"), .modelled linesCodec),
  ((c!"aptsources.serialize_types", c!"aptsources.deserialize_types", c!"HashSet<RepositoryType>"), .modelled typesCodec),
  ((c!"buildinfo.serialize_env", c!"buildinfo.deserialize_env", c!"HashMap<String, String>"), .modelled envCodec),
  ((c!"buildinfo.serialize_pathbuf", c!"buildinfo.deserialize_pathbuf", c!"PathBuf"), .modelled strCodec),
  ((c!"dep3.serialize_origin", c!"dep3.deserialize_origin", c!"(Option<OriginCategory>, Origin)"), .modelled originFieldCodec)
]

def lookupKind (k : Str × Str × Str) : List ((Str × Str × Str) × Kind) → Option Kind
  | [] => none
  | e :: r => if e.1 = k then some e.2 else lookupKind k r

def kindOf (f : FieldRow) : Option Kind := lookupKind (f.ser, f.de, f.ty) registry

def Kind.codec : Kind → LeafCodec
  | .modelled c => c
  | .noRoundTrip c _ => c
  | .external _ => extCodec

def Kind.isExternal : Kind → Bool
  | .external _ => true
  | _ => false

def Kind.isNoRoundTrip : Kind → Bool
  | .noRoundTrip _ _ => true
  | _ => false

end Deb822Verif.Derive
