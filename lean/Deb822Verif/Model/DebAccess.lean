import Deb822Verif.Model.DebParse
/-!
  Read accessors of the lossless view (src/lossless.rs:452-454, 776-807, 1029-1046) as pure
  functions on the green tree.
-/
namespace Deb822Verif.Deb
open Node

/-- `children().filter_map(Paragraph::cast)` -/
def paragraphs (root : DNode) : List DNode :=
  root.children.filter fun n => n.isNode && n.kind == .PARAGRAPH

/-- `Paragraph::entries` -/
def entries (p : DNode) : List DNode :=
  p.children.filter fun n => n.isNode && n.kind == .ENTRY

def isTokOf (k : Kind) (n : DNode) : Bool :=
  match n with
  | .tok k' _ => k' == k
  | .node _ _ => false

def tokTextOf : DNode → Str
  | .tok _ t => t
  | .node _ _ => []

/-- `Entry::key`: text of the first KEY token among the entry's direct children -/
def entryKey (e : DNode) : Option Str :=
  (e.children.find? (isTokOf .KEY)).map tokTextOf

/-- `Entry::value`: VALUE tokens (direct children) joined by "\n" -/
def entryValue (e : DNode) : Str :=
  Text.join ['\n'] ((e.children.filter (isTokOf .VALUE)).map tokTextOf)

/-- `Paragraph::items`: entries without a key are skipped -/
def items (p : DNode) : List (Str × Str) :=
  (entries p).filterMap fun e => (entryKey e).map fun k => (k, entryValue e)

/-- `Paragraph::get`: first entry whose key matches -/
def get (p : DNode) (key : Str) : Option Str :=
  ((entries p).find? fun e => entryKey e == some key).map entryValue

def getAll (p : DNode) (key : Str) : List Str :=
  (items p).filterMap fun kv => if kv.1 == key then some kv.2 else none

def keys (p : DNode) : List Str := (entries p).filterMap entryKey

def containsKey (p : DNode) (key : Str) : Bool := (get p key).isSome

/-- the content of a document: per paragraph its (name, value) list -/
def docItems (root : DNode) : List (List (Str × Str)) := (paragraphs root).map items

/-- `Paragraph::from_str` (lossless.rs:864-876): strict parse, then the first paragraph -/
def paragraphFromStr (s : Str) : Except (List String) DNode :=
  match readStrict s with
  | .error e => .error e
  | .ok t =>
    match paragraphs t with
    | [] => .error ["no paragraphs"]
    | p :: _ => .ok p

end Deb822Verif.Deb
