import Deb822Verif.Model.Tree
/-!
  Model of `src/lex.rs` (`lex_`, `lex`, `lex_inline`) and `src/common.rs`, branch for branch.
  State: `start_of_line`, `colon_count`, `indent` (lex.rs:32-35).
-/
namespace Deb822Verif.Deb

inductive Kind
  | KEY | VALUE | COLON | INDENT | NEWLINE | WHITESPACE | COMMENT | ERROR
  | ROOT | PARAGRAPH | ENTRY | EMPTY_LINE
  deriving DecidableEq, Repr, Inhabited

abbrev Tok := Kind × Str
abbrev DNode := Node Kind

/-- common.rs -/
def isIndent (c : Char) : Bool := c == ' ' || c == '\t'
def isNewline (c : Char) : Bool := c == '\n' || c == '\r'
/-- `c.is_ascii_graphic() && c != ':' && c != ' '` ; ascii graphic = U+0021..U+007E -/
def isKeyChar (c : Char) : Bool := (33 ≤ c.toNat && c.toNat ≤ 126) && c != ':'
def isInitialKeyChar (c : Char) : Bool := c != '-' && isKeyChar c

structure LexState where
  sol : Bool
  colon : Nat
  indent : Nat
  deriving Repr, DecidableEq

/-- One call of the `from_fn` closure (lex.rs:36-96): the token, the new state, the remaining input. -/
def lexStep (st : LexState) (c : Char) (rest : Str) : Tok × LexState × Str :=
  if c == ':' && st.colon == 0 && st.indent == 0 then
    ((.COLON, [c]), { st with colon := st.colon + 1 }, rest)
  else if isNewline c then
    ((.NEWLINE, [c]), { sol := true, colon := 0, indent := 0 }, rest)
  else if isIndent c then
    let ws := c :: rest.takeWhile isIndent
    let rem := rest.dropWhile isIndent
    if st.sol then ((.INDENT, ws), { st with indent := ws.length }, rem)
    else ((.WHITESPACE, ws), st, rem)
  else if c == '#' && st.sol then
    ((.COMMENT, c :: rest.takeWhile (fun c => !isNewline c)),
      { st with sol := true, colon := 0 }, rest.dropWhile (fun c => !isNewline c))
  else if isInitialKeyChar c && st.sol && st.indent == 0 then
    ((.KEY, c :: rest.takeWhile isKeyChar), { st with sol := false }, rest.dropWhile isKeyChar)
  else if !st.sol || st.indent > 0 then
    ((.VALUE, c :: rest.takeWhile (fun c => !isNewline c)), st, rest.dropWhile (fun c => !isNewline c))
  else
    -- lex.rs:88 (after the fix: `split_at(c.len_utf8())`): exactly one character
    ((.ERROR, [c]), st, rest)

theorem length_dropWhile_le {α} (p : α → Bool) (l : List α) : (l.dropWhile p).length ≤ l.length :=
  (List.dropWhile_sublist p).length_le

theorem lexStep_len (st c rest) : (lexStep st c rest).2.2.length ≤ rest.length := by
  unfold lexStep
  (repeat' split) <;> simp [length_dropWhile_le]

def lexAux (st : LexState) (input : Str) : List Tok :=
  match input with
  | [] => []
  | c :: rest =>
    let r := lexStep st c rest
    r.1 :: lexAux r.2.1 r.2.2
termination_by input.length
decreasing_by
  have := lexStep_len st c rest
  simp; omega

def initState : LexState := { sol := true, colon := 0, indent := 0 }
def lex (input : Str) : List Tok := lexAux initState input
/-- `lex_inline`: start_of_line = false, colon_count = 1 -/
def lexInline (input : Str) : List Tok := lexAux { sol := false, colon := 1, indent := 0 } input

end Deb822Verif.Deb
