import Deb822Verif.Model.DebEdit
import Deb822Verif.Model.Codec
import Deb822Verif.Gen.Accessors
/-!
  Semantics of the accessor rows of `Gen/Accessors.lean` (property C15) on top of the paragraph model
  of C04 (`Deb.get`, `paraSet`, `paraInsert`, `paraRemove`).

  Rust shape being modelled (every view is a newtype over a lossless `Paragraph`):

      fn f(&self) -> Option<T>            { self.0.get(NAME).map(DEC) }
      fn set_f(&mut self, v: T)           { self.0.set(NAME, &ENC(v)) }
      fn set_f(&mut self, v: Option<T>)   { if let Some(v) = v { self.0.set(NAME, &ENC(v)) } else { self.0.remove(NAME) } }

  `decode sh` is DEC of shape `sh`, `encode sh` is ENC; `getSem` / `setSem` put them on a row.
  A typed value (`Priority`, `Relations`, `Version`, checksum records, …) is represented by the text
  its `to_string()` gives; `tyParse` says what `from_str` makes of a raw text for the types the
  framework has a model of (C18) and `unknown` for the others (Relations, Version, Url: C09/C10).

  `docName` is the hand-written table of the Debian field name each accessor is documented for.
-/
namespace Deb822Verif.Typed
open Deb822Verif Deb Text

/-! ## values -/

inductive Val
  | absent                                       -- `None` / the cleared state
  | text (s : Str)                               -- a string, or a typed value by its `to_string()`
  | list (l : List Str)
  | flag (b : Bool)
  | license (l : Codec.License)
  | origin (cat : Option Str) (o : Codec.Origin)
  | map (m : List (Str × Str))                   -- `HashMap<String, String>` as an association list
  | panic                                        -- the real getter panics here
  | unmodelled                                   -- the model has no reading (harness only)
  deriving DecidableEq, Repr

/-! ## typed element values -/

inductive TyRes
  | ok (canon : Str)     -- parses; `canon` = `to_string()` of the parsed value
  | bad                  -- `from_str` is `Err`
  | unknown              -- no model of this type here
  deriving DecidableEq, Repr

def enumRes (e : Enum.EnumSpec) (raw : Str) : TyRes :=
  match Enum.parseOf e raw with
  | some v => match Enum.printOf e v with
    | some t => .ok t
    | none => .bad
  | none => .bad

def checksumTypes : List Str :=
  ["Md5Checksum".toList, "Sha1Checksum".toList, "Sha256Checksum".toList, "Sha512Checksum".toList]

def tyParse (ty raw : Str) : TyRes :=
  if ty = "Priority".toList then enumRes Gen.Enums.priority raw
  else if ty = "MultiArch".toList then enumRes Gen.Enums.multiArch raw
  else if ty = "Urgency".toList then enumRes Gen.Enums.urgency raw
  else if ty = "usize".toList then
    match Codec.parseUsize raw with
    | some n => .ok (Codec.decDigits n)
    | none => .bad
  else if checksumTypes.contains ty then
    match Codec.Checksum.parse raw with
    | some c => .ok c.print
    | none => .bad
  else if ty = "File".toList then
    match Codec.ChangesFile.parse raw with
    | some c => .ok c.print
    | none => .bad
  else if ty = "Forwarded".toList then .ok (Codec.Forwarded.parse raw).print
  else if ty = "AppliedUpstream".toList then .ok (Codec.Origin.parse raw).print
  else .unknown

/-- `assume`: the text was just written by the paired setter from a valid value, so a type the
    model cannot parse is taken to read back as that text (its own round trip is C09/C10/C18's) -/
def tyVal (ty : Str) (strict assume : Bool) (raw : Str) : Val :=
  match tyParse ty raw with
  | .ok c => .text c
  | .bad => if strict then .panic else .absent
  | .unknown => if assume then .text raw else .unmodelled

/-- a `collect()` over element results: the first panic wins -/
def listVal : List Val → Val
  | [] => .list []
  | v :: vs =>
    match v, listVal vs with
    | .panic, _ => .panic
    | .text _, .panic => .panic
    | .text _, .unmodelled => .unmodelled
    | .text s, .list l => .list (s :: l)
    | _, _ => .unmodelled

/-! ## codecs -/

def splitBy : Sep → Str → List Str
  | .comma, s => splitOn ',' s
  | .space, s => splitOn ' ' s
  | .ws, s => splitWhitespace s
  | .nl, s => splitOn '\n' s
  | .lines, s => lines s
  | .fields, s => [s]

/-- what a list setter joins with (`ws`, `lines`, `fields` occur in getters only) -/
def sepText : Sep → Str
  | .comma => ", ".toList
  | .space => " ".toList
  | .nl => "\n".toList
  | _ => []

def yes : Str := "yes".toList
def no : Str := "no".toList

/-- insertion sort by code-point order (= Rust `String` ordering): `vars.sort()` -/
def insertSorted (x : Str) : List Str → List Str
  | [] => [x]
  | y :: ys => if Codec.strLt y x then y :: insertSorted x ys else x :: y :: ys

def sortStrs : List Str → List Str
  | [] => []
  | x :: xs => insertSorted x (sortStrs xs)

/-- `format!("{}={}", key, value)` -/
def envPiece (p : Str × Str) : Str := p.1 ++ '=' :: p.2

/-- the loop of `environment()`: `split_once('=')` per line (`unwrap`: a line without `=` panics),
    collected into a `HashMap` (kept key-sorted; `Codec.mapInsert` = `HashMap::insert`) -/
def envLines : List Str → List (Str × Str) → Option (List (Str × Str))
  | [], m => some m
  | l :: ls, m =>
    match Codec.splitOnFirst ['='] l with
    | some r => envLines ls (Codec.mapInsert r.1 r.2 m)
    | none => none

/-- `environment()` on the field text -/
def decodeEnv (raw : Str) : Val :=
  match envLines (lines raw) [] with
  | some m => .map m
  | none => .panic

def vcsPrefix : Str := "Vcs-".toList
def vcsBrowser : Str := "Vcs-Browser".toList

/-- `Source::vcs()`: the first `Vcs-<X>` item other than `Vcs-Browser` decides; printed as the
    harness prints a `Vcs` (`to_field`: name, blank, value) -/
def vcsScan : List (Str × Str) → Val
  | [] => .absent
  | f :: fs =>
    if f.1 = vcsBrowser then vcsScan fs
    else match stripPrefix vcsPrefix f.1 with
      | some x =>
        match Codec.Vcs.fromField x f.2 with
        | some v => .text (v.toField.1 ++ ' ' :: v.toField.2)
        | none => .absent
      | none => vcsScan fs

def bugKey : Str := "Bug".toList
def bugPrefix : Str := "Bug-".toList

/-- DEP-3 `bugs()`: `(Some(vendor), url)` for every `Bug-<vendor>` item, `(None, url)` for every
    `Bug` item, in paragraph order; printed `<vendor>=<url>` (no vendor: `=<url>`) as the harness does -/
def bugsScan (l : List (Str × Str)) : List Str :=
  l.filterMap fun f =>
    match stripPrefix bugPrefix f.1 with
    | some vendor => some (vendor ++ '=' :: f.2)
    | none => if f.1 = bugKey then some ('=' :: f.2) else none

/-- instantiate a name template: `pre{param}post` with the argument ↦ `pre ++ arg ++ post`;
    a name without `{` is itself -/
def substName (arg : Str) (name : Str) : Str :=
  match Codec.splitOnFirst ['{'] name with
  | none => name
  | some r =>
    match Codec.splitOnFirst ['}'] r.2 with
    | some q => r.1 ++ arg ++ q.2
    | none => name

def isTemplate (name : Str) : Bool := name.contains '{'

/-- the row of a method with a field-name parameter, for one argument -/
def Row.inst (r : Row) (arg : Str) : Row :=
  { r with names := r.names.map (substName arg), dflt := substName arg r.dflt }

/-- DEC: the reading of a raw field text -/
def decode (sh : Shape) (strict assume : Bool) (raw : Str) : Val :=
  match sh with
  | .str => .text raw
  | .typed ty => tyVal ty strict assume raw
  | .list sep trim elem =>
    let ps := splitBy sep raw
    let ps := if trim then ps.map Text.trim else ps
    match elem with
    | .str => .list ps
    | .typed ty => listVal (ps.map (tyVal ty true assume))
  | .flagYes => .flag (raw == yes)
  | .flagYesNo =>
    let l := Enum.normalise .lowerUnicode raw
    if l = yes then .flag true else if l = no then .flag false else .panic
  | .firstLine => .text ((splitOn '\n' raw).headD [])
  | .restLines =>
    .text (match Codec.splitOnFirst ['\n'] raw with
      | some r => r.2
      | none => [])
  | .license => .license (Codec.License.parse raw)
  | .licenseName =>
    .text (match Codec.splitOnFirst ['\n'] raw with
      | some r => r.1
      | none => raw)
  | .licenseText =>
    match Codec.splitOnFirst ['\n'] raw with
    | some r => .text r.2
    | none => .absent
  | .originField => .origin (Codec.parseOrigin raw).1 (Codec.parseOrigin raw).2
  | .rfc2822 => if assume then .text raw else .unmodelled
  | .dateYmd => if assume then .text raw else .unmodelled
  | .envMap => decodeEnv raw
  | _ => .unmodelled

/-- ENC: the text a setter of this shape writes for a value; `none`: not a value of the shape
    (for an optional setter / a yes-or-remove flag: the clearing branch) -/
def encode (sh : Shape) (v : Val) : Option Str :=
  match sh, v with
  | .str, .text s => some s
  | .typed _, .text s => some s
  | .list sep _ _, .list l => some (join (sepText sep) l)
  | .flagYesNo, .flag b => some (if b then yes else no)
  | .flagYesOrRemove, .flag true => some yes
  | .license, .license l => some l.print
  | .licenseBareText, .license (.text t) => some t
  | .licenseBareText, .license l => some l.print
  | .originField, .origin c o => some (Codec.formatOrigin c o)
  | .rfc2822, .text s => some s
  | .dateYmd, .text s => some s
  | .envMap, .map m => some (join ['\n'] (sortStrs (m.map envPiece)))
  | _, _ => none

/-- first line of a field text / what follows its first newline -/
def firstLineOf (o : Str) : Str :=
  match Codec.splitOnFirst ['\n'] o with
  | some r => r.1
  | none => o

/-- the text a setter writes, given the current text `old` of the field it is about to write
    (`none`: no field of its names is present).  Only the DEP-3 synopsis / long-description setters
    look at `old`:
      set_description       old = first ++ "\n" ++ rest ↦ v ++ "\n" ++ rest;  old without newline ↦ v;  absent ↦ v
      set_long_description  old ↦ firstLine(old) [++ "\n" ++ v unless v is empty];                      absent ↦ v -/
def writeText (sh : Shape) (old : Option Str) (v : Val) : Option Str :=
  match sh, v with
  | .firstLine, .text s =>
    some (match old with
      | some o => (match Codec.splitOnFirst ['\n'] o with
        | some r => s ++ '\n' :: r.2
        | none => s)
      | none => s)
  | .restLines, .text s =>
    some (match old with
      | some o => if s = [] then firstLineOf o else firstLineOf o ++ '\n' :: s
      | none => s)
  | _, _ => encode sh v

/-! ## rows on a paragraph (children of the PARAGRAPH node) -/

def pget (cs : List DNode) (k : Str) : Option Str := Deb.get (.node .PARAGRAPH cs) k
def pgetAll (cs : List DNode) (k : Str) : List Str := Deb.getAll (.node .PARAGRAPH cs) k

/-- `a.or_else(|| b)` over the row's names -/
def firstOf (cs : List DNode) : List Str → Option Str
  | [] => none
  | k :: ks => match pget cs k with
    | some v => some v
    | none => firstOf cs ks

def absentVal (r : Row) : Val :=
  match r.absent with
  | .none => .absent
  | .panic => .panic
  | .empty => decode r.shape r.strict false []
  | .default =>
    match r.shape with
    | .list _ _ _ => .list []
    | .flagYes => .flag false
    | _ => .absent

/-- the getter of a row -/
def getSem (r : Row) (assume : Bool) (cs : List DNode) : Val :=
  match r.op with
  | .getAll =>
    match r.names with
    | [k] => .list (pgetAll cs k)
    | _ => .unmodelled
  | .get =>
    match firstOf cs r.names with
    | none => absentVal r
    | some raw => decode r.shape r.strict assume raw
  | .items =>
    if r.shape == .vcsScan then vcsScan (items (.node .PARAGRAPH cs))
    else if r.shape == .bugsScan then .list (bugsScan (items (.node .PARAGRAPH cs)))
    else .unmodelled
  | _ => .unmodelled

def applyOp (op : POp) (cs : List DNode) (k v : Str) : Option (List DNode) :=
  match op with
  | .set => some (paraSet cs k v)
  | .insert => some (paraInsert cs k v)
  | _ => none

def applyClear (op : POp) (cs : List DNode) (k : Str) : Option (List DNode) :=
  match op with
  | .remove => some (paraRemove cs k)
  | _ => none

/-- does this value take the clearing branch of the setter -/
def clears (r : Row) (v : Val) : Bool :=
  match v with
  | .absent => r.optional
  | .flag false => r.shape == .flagYesOrRemove
  | _ => false

/-- the field a setter writes: the first of its names that is present, else its default name
    (`if contains(A) || !contains(B) { A } else { B }`, `if let Some(_) = get(A) … else if … get(B) …`) -/
def target (cs : List DNode) (names : List Str) (dflt : Str) : Str :=
  match names.find? fun n => (pget cs n).isSome with
  | some n => n
  | none => dflt

/-- the setter of a row; `none`: not modelled (composite / opaque rows, ill-typed value) -/
def setSem (r : Row) (v : Val) (cs : List DNode) : Option (List DNode) :=
  if r.names.isEmpty then none
  else
    let k := target cs r.names r.dflt
    if clears r v then applyClear r.clearOp cs k
    else match writeText r.shape (firstOf cs r.names) v with
      | some t => applyOp r.op cs k t
      | none => none

/-! ## paragraph-level lookups of the document views (`Control::source`, `binaries`, …) -/

def hasField (k : Str) (p : DNode) : Bool := (Deb.get p k).isSome

/-- `paragraphs().find(|p| p.get(k).is_some())` -/
def findPara (root : DNode) (k : Str) : Option DNode := (paragraphs root).find? (hasField k)

/-- `paragraphs().filter(|p| p.get(k).is_some())` -/
def filterPara (root : DNode) (k : Str) : List DNode := (paragraphs root).filter (hasField k)

/-- `add_paragraph()` then `set(k, v)` on the new paragraph -/
def addPara (d : Doc) (k v : Str) : Doc :=
  let d1 := addParagraph d
  d1.onPara (d1.handles.length - 1) (fun cs => paraSet cs k v)

/-- `paragraphs().next()` -/
def firstPara (root : DNode) : Option DNode := (paragraphs root).head?

/-- `paragraphs().filter(|p| !p.contains_key(excl) && p.contains_key(k))` -/
def filterParaWithout (root : DNode) (k excl : Str) : List DNode :=
  (paragraphs root).filter fun p => !hasField excl p && hasField k p

/-- `paragraphs().skip(1).filter(|p| p.contains_key(k))` (copyright `iter_files`: the first
    paragraph is the header, whatever fields it has) -/
def filterParaTail (root : DNode) (k : Str) : List DNode := ((paragraphs root).drop 1).filter (hasField k)

/-- `paragraphs().skip(1).filter(|p| !p.contains_key(excl) && p.contains_key(k))` (copyright
    `iter_licenses`) -/
def filterParaWithoutTail (root : DNode) (k excl : Str) : List DNode :=
  ((paragraphs root).drop 1).filter fun p => !hasField excl p && hasField k p

/-- the paragraphs a document-level getter row yields -/
def paraSem (r : Row) (root : DNode) : Option (List DNode) :=
  match r.shape, r.names with
  | .firstPara, [] => some (firstPara root).toList
  | .findPara, [k] => some (findPara root k).toList
  | .filterPara, [k] => some (filterPara root k)
  | .filterParaWithout excl, [k] => some (filterParaWithout root k excl)
  | .filterParaTail, [k] => some (filterParaTail root k)
  | .filterParaWithoutTail excl, [k] => some (filterParaWithoutTail root k excl)
  | _, _ => none

/-! ## copyright `Header::fix` -/

def fFormat : Str := "Format".toList
def fFormatSpec : Str := "Format-Specification".toList

/-- the format string after `fix`: a trailing `/` is added, `http:` becomes `https:`, a known
    format becomes the current one -/
def normFormat (f : Str) : Str :=
  let f1 := if f.getLast? = some '/' then f else f ++ ['/']
  let f2 := match stripPrefix "http:".toList f1 with
    | some rest => "https:".toList ++ rest
    | none => f1
  if Gen.Accessors.copyrightKnownFormats.contains f2 then Gen.Accessors.copyrightCurrentFormat else f2

/-- `Header::fix`: rename `Format-Specification` to `Format` (first such field), then rewrite the
    `Format` value in place -/
def fixSem (cs : List DNode) : List DNode :=
  let cs1 := if (pget cs fFormatSpec).isSome then (paraRename cs fFormatSpec fFormat).1 else cs
  match pget cs1 fFormat with
  | some f => paraSet cs1 fFormat (normFormat f)
  | none => cs1

/-! ## the documented field name of an accessor -/

def capWord : Str → Str
  | [] => []
  | c :: cs => c.toUpper :: cs

def setPrefix : Str := "set_".toList

/-- accessor name without its `set_` prefix -/
def baseName (m : Str) : Str :=
  match stripPrefix setPrefix m with
  | some r => r
  | none => m

/-- the rule: `build_depends_indep` ↦ `Build-Depends-Indep` -/
def ruleName (m : Str) : Str := join ['-'] ((splitOn '_' (baseName m)).map capWord)

/-- exceptions to the rule: (view, accessor without `set_`) ↦ primary name (`none`: the method is not
    documented for one field), alternates read when the primary is absent -/
def docExceptions : List ((Str × Str) × (Option Str × List Str)) := [
  (("control.Control".toList, "source".toList), (some "Source".toList, [])),
  (("control.Control".toList, "binaries".toList), (some "Package".toList, [])),
  (("control.Control".toList, "add_source".toList), (some "Source".toList, [])),
  (("control.Control".toList, "add_binary".toList), (some "Package".toList, [])),
  (("control.Source".toList, "name".toList), (some "Source".toList, [])),
  (("control.Source".toList, "vcs".toList), (none, [])),
  (("control.Binary".toList, "name".toList), (some "Package".toList, [])),
  (("apt.Package".toList, "name".toList), (some "Package".toList, [])),
  (("apt.Package".toList, "description_md5".toList), (some "Description-md5".toList, [])),
  (("apt.Package".toList, "md5sum".toList), (some "MD5sum".toList, [])),
  (("apt.Package".toList, "sha256".toList), (some "SHA256".toList, [])),
  (("apt.Package".toList, "tags".toList), (some "{tag}".toList, [])),
  (("apt.Release".toList, "no_support_for_architecture_all".toList), (some "No-Support-for-Architecture-all".toList, [])),
  (("apt.Release".toList, "checksums_md5".toList), (some "MD5Sum".toList, [])),
  (("apt.Release".toList, "checksums_sha1".toList), (some "SHA1".toList, [])),
  (("apt.Release".toList, "checksums_sha256".toList), (some "SHA256".toList, [])),
  (("apt.Release".toList, "checksums_sha512".toList), (some "SHA512".toList, [])),
  (("changes.Changes".toList, "get_pool_path".toList), (none, [])),
  (("buildinfo.Buildinfo".toList, "binaries".toList), (some "Binary".toList, [])),
  (("copyright.Copyright".toList, "header".toList), (none, [])),
  (("copyright.Copyright".toList, "iter_files".toList), (some "Files".toList, [])),
  (("copyright.Copyright".toList, "iter_licenses".toList), (some "License".toList, [])),
  (("copyright.Copyright".toList, "find_files".toList), (none, [])),
  (("copyright.Copyright".toList, "find_license_by_name".toList), (none, [])),
  (("copyright.Copyright".toList, "find_license_for_file".toList), (none, [])),
  (("copyright.Header".toList, "format_string".toList), (some "Format".toList, ["Format-Specification".toList])),
  (("copyright.Header".toList, "fix".toList), (some "Format".toList, ["Format-Specification".toList])),
  (("copyright.FilesParagraph".toList, "matches".toList), (none, [])),
  (("copyright.LicenseParagraph".toList, "name".toList), (some "License".toList, [])),
  (("copyright.LicenseParagraph".toList, "text".toList), (some "License".toList, [])),
  (("dep3.PatchHeader".toList, "author".toList), (some "Author".toList, ["From".toList])),
  (("dep3.PatchHeader".toList, "reviewed_by".toList), (some "Reviewed-by".toList, [])),
  (("dep3.PatchHeader".toList, "bugs".toList), (none, [])),
  (("dep3.PatchHeader".toList, "vendor_bugs".toList), (none, [])),
  (("dep3.PatchHeader".toList, "upstream_bug".toList), (some "Bug".toList, [])),
  (("dep3.PatchHeader".toList, "vendor_bug".toList), (some "Bug-{vendor}".toList, [])),
  (("dep3.PatchHeader".toList, "description".toList), (some "Description".toList, ["Subject".toList])),
  (("dep3.PatchHeader".toList, "long_description".toList), (some "Description".toList, ["Subject".toList]))
]

def docLookup (view method : Str) : Option (Option Str × List Str) :=
  (docExceptions.find? fun e => e.1 == (view, baseName method)).map (·.2)

/-- the Debian field name the accessor is documented for -/
def docName (view method : Str) : Option Str :=
  match docLookup view method with
  | some e => e.1
  | none => some (ruleName method)

/-- further names the accessor is documented to fall back to -/
def docAlt (view method : Str) : List Str :=
  match docLookup view method with
  | some e => e.2
  | none => []

def docNames (view method : Str) : List Str :=
  (match docName view method with | some n => [n] | none => []) ++ docAlt view method

/-! ## table lookups -/

def findRow (view method : Str) : Option Row :=
  Gen.Accessors.rows.find? fun r => r.view == view && r.method == method

/-- the setter paired with a getter: same view, `set_` ++ name -/
def setterOf (g : Row) : Option Row := findRow g.view (setPrefix ++ g.method)

end Deb822Verif.Typed
